(* Proofs about Model/Cache.v (repaired cache) and refutation witnesses for the original key /
   write logic.  Things that are not modelled enter as Section hypotheses:
     H_eqb_spec            file names are compared exactly
     hash_inj              SHA-256 is injective on the keys seen
     footprint_shape_only  (property C04) in footprint mode the result does not depend on the
                           source VALUES, only on the shape
     halo_resolved_only    the solver uses halo only through the resolved halo            *)
From Coq Require Import List Arith Bool ZArith Lia.
From BL Require Import Model.Cache Model.CacheExec.
Import ListNotations.

Section Proofs.
Context {T : Type} (hmax : T -> T -> T).
Context {H : Type} (H_eqb : H -> H -> bool).
Context {R : Type}.
Context (hash : list (ktok T) -> H) (solve : request T -> R) (nchunks : R -> nat).

Hypothesis H_eqb_spec : forall a b, H_eqb a b = true <-> a = b.
Hypothesis hash_inj : forall k1 k2, hash k1 = hash k2 -> k1 = k2.
Hypothesis footprint_shape_only :
  forall r v, r_footprint r = true -> solve (with_values r v) = solve r.
Hypothesis halo_resolved_only :
  forall r, solve (with_halo r (Some (resolve_halo hmax r))) = solve r.

Notation key := (key hmax).
Notation lookup := (@lookup H H_eqb R).
Notation remove := (@remove H H_eqb R).
Notation set := (@set H H_eqb R).
Notation apply_op := (@apply_op H H_eqb R).
Notation run_ops := (@run_ops H H_eqb R).
Notation write_ops := (@write_ops H R).
Notation get := (@get T hmax H H_eqb R hash).
Notation put := (@put T hmax H H_eqb R hash nchunks).
Notation step := (@solve_with_cache T hmax H H_eqb R hash solve nchunks).
Notation killed := (@killed_call T hmax H H_eqb R hash solve nchunks).
Notation history := (@run_history T hmax H H_eqb R hash solve nchunks).
Notation store := (store H R).
Notation state := (state H R).

(* ------------------------------------------------------------------ key completeness *)

Definition norm (r : request T) (v : T) : request T :=
  with_values (with_halo r (Some (resolve_halo hmax r))) v.

Lemma solve_norm : forall r v, r_footprint r = true -> solve (norm r v) = solve r.
Proof.
  intros r v Hf. unfold norm.
  rewrite footprint_shape_only by (destruct r; exact Hf).
  apply halo_resolved_only.
Qed.

Lemma key_norm : forall r1 r2 v,
  r_footprint r1 = r_footprint r2 -> key r1 = key r2 -> norm r1 v = norm r2 v.
Proof.
  intros r1 r2 v Hf Hk. destruct r1, r2. unfold norm, Cache.key, with_values, with_halo, resolve_halo in *.
  simpl in *.
  injection Hk as E1 E2 E3 E4 E5 E6 E7 E8 E9 E10 E11 E12 E13 E14 E15 E16 E17.
  subst. rewrite E11. reflexivity.
Qed.

Lemma key_complete : forall r1 r2,
  r_footprint r1 = true -> r_footprint r2 = true -> key r1 = key r2 -> solve r1 = solve r2.
Proof.
  intros r1 r2 F1 F2 Hk.
  rewrite <- (solve_norm r1 (r_values r1) F1), <- (solve_norm r2 (r_values r1) F2).
  f_equal. apply key_norm; congruence.
Qed.

(* the default halo and the explicit value max(xmax, ymax) give the same key *)
Lemma key_default_halo : forall r,
  key (with_halo r None) = key (with_halo r (Some (hmax (r_xmax r) (r_ymax r)))).
Proof. intros r. destruct r. reflexivity. Qed.

(* the key ignores the source values *)
Lemma key_values : forall r v, key (with_values r v) = key r.
Proof. intros r v. destruct r. reflexivity. Qed.

(* ------------------------------------------------------------------ finite map lemmas *)

Lemma path_eqb_spec : forall a b : path H, path_eqb H_eqb a b = true <-> a = b.
Proof.
  intros [x|x] [y|y]; simpl; split; intro E; try discriminate; try congruence.
  - apply H_eqb_spec in E. congruence.
  - apply H_eqb_spec. congruence.
  - apply H_eqb_spec in E. congruence.
  - apply H_eqb_spec. congruence.
Qed.

Lemma path_eqb_refl : forall a : path H, path_eqb H_eqb a a = true.
Proof. intros a. apply path_eqb_spec. reflexivity. Qed.

Lemma path_eqb_neq : forall a b : path H, a <> b -> path_eqb H_eqb a b = false.
Proof.
  intros a b N. destruct (path_eqb H_eqb a b) eqn:E; [|reflexivity].
  apply path_eqb_spec in E. contradiction.
Qed.

Lemma path_dec : forall a b : path H, a = b \/ a <> b.
Proof.
  intros a b. destruct (path_eqb H_eqb a b) eqn:E.
  - left. apply path_eqb_spec. exact E.
  - right. intro N. subst. rewrite path_eqb_refl in E. discriminate.
Qed.

Lemma lookup_remove_same : forall q (fs : store), lookup q (remove q fs) = None.
Proof.
  intros q fs. induction fs as [|[q' e] fs IH]; simpl; [reflexivity|].
  destruct (path_eqb H_eqb q q') eqn:E; [exact IH|]. simpl. rewrite E. exact IH.
Qed.

Lemma lookup_remove_other : forall q q' (fs : store),
  q <> q' -> lookup q (remove q' fs) = lookup q fs.
Proof.
  intros q q' fs N. induction fs as [|[q'' e] fs IH]; simpl; [reflexivity|].
  destruct (path_eqb H_eqb q' q'') eqn:E.
  - apply path_eqb_spec in E. subst q''. rewrite (path_eqb_neq _ _ N). exact IH.
  - simpl. rewrite IH. reflexivity.
Qed.

Lemma lookup_set_same : forall q e (fs : store), lookup q (set q e fs) = Some e.
Proof. intros q e fs. unfold Cache.set. simpl. rewrite path_eqb_refl. reflexivity. Qed.

Lemma lookup_set_other : forall q q' e (fs : store),
  q <> q' -> lookup q (set q' e fs) = lookup q fs.
Proof.
  intros q q' e fs N. unfold Cache.set. simpl. rewrite (path_eqb_neq _ _ N).
  apply lookup_remove_other. exact N.
Qed.

(* ------------------------------------------------------------------ write operations *)

Definition tmp_write (h : H) (o : op H R) : Prop := exists l p, o = WriteTmp h l p.

Lemma run_ops_cons : forall o ops (fs : store), run_ops (o :: ops) fs = run_ops ops (apply_op fs o).
Proof. reflexivity. Qed.

Lemma run_ops_one : forall o (fs : store), run_ops [o] fs = apply_op fs o.
Proof. reflexivity. Qed.

Lemma apply_write_tmp : forall h l p (fs : store),
  apply_op fs (WriteTmp h l p) = set (Tmp h) (written l p) fs.
Proof. reflexivity. Qed.

Lemma apply_rename : forall h e (fs : store),
  lookup (Tmp h) fs = Some e -> apply_op fs (Rename h) = set (Final h) e (remove (Tmp h) fs).
Proof. intros h e fs E. unfold Cache.apply_op. rewrite E. reflexivity. Qed.

Lemma tmp_writes_keep_finals : forall h ops (fs : store) h',
  Forall (tmp_write h) ops -> lookup (Final h') (run_ops ops fs) = lookup (Final h') fs.
Proof.
  intros h ops. induction ops as [|o ops IH]; intros fs h' F; [reflexivity|].
  inversion F as [|o' ops' Ho Hops]; subst. destruct Ho as [l [p Ho]]; subst o.
  rewrite run_ops_cons, apply_write_tmp.
  rewrite IH by exact Hops. apply lookup_set_other. discriminate.
Qed.

Lemma Forall_firstn_ : forall (A : Type) (P : A -> Prop) k (l : list A),
  Forall P l -> Forall P (firstn k l).
Proof.
  intros A P k. induction k as [|k IH]; intros l F; [constructor|].
  destruct l as [|a l]; [constructor|]. inversion F; subst. simpl. constructor; auto.
Qed.

Definition tmp_part (h : H) (p : R) (n : nat) : list (op H R) :=
  map (fun i => WriteTmp h (Nat.eqb i n) p) (seq 0 (S n)).

Lemma tmp_part_all : forall h p n, Forall (tmp_write h) (tmp_part h p n).
Proof.
  intros h p n. unfold tmp_part. apply Forall_forall. intros o Hin.
  apply in_map_iff in Hin. destruct Hin as [i [E _]]. subst o. red. eauto.
Qed.

Lemma tmp_part_length : forall h p n, length (tmp_part h p n) = S n.
Proof. intros. unfold tmp_part. rewrite map_length, seq_length. reflexivity. Qed.

Lemma tmp_part_last : forall h p n,
  tmp_part h p n = map (fun i => WriteTmp h (Nat.eqb i n) p) (seq 0 n) ++ [WriteTmp h true p].
Proof.
  intros h p n. unfold tmp_part. rewrite seq_S, map_app. simpl. rewrite Nat.eqb_refl. reflexivity.
Qed.

Lemma run_ops_app : forall a b (fs : store), run_ops (a ++ b) fs = run_ops b (run_ops a fs).
Proof. intros. unfold Cache.run_ops. apply fold_left_app. Qed.

(* after all writes the temporary file is complete *)
Lemma tmp_complete : forall h p n (fs : store),
  lookup (Tmp h) (run_ops (tmp_part h p n) fs) = Some (Valid p).
Proof.
  intros h p n fs. rewrite tmp_part_last, run_ops_app, run_ops_one, apply_write_tmp.
  exact (lookup_set_same _ _ _).
Qed.

(* a completed put: the final path holds the new complete entry, other entries are untouched *)
Lemma write_ops_same : forall h p n (fs : store),
  lookup (Final h) (run_ops (write_ops h p n) fs) = Some (Valid p).
Proof.
  intros h p n fs. unfold Cache.write_ops. fold (tmp_part h p n).
  rewrite run_ops_app, run_ops_one, (apply_rename _ _ _ (tmp_complete h p n fs)).
  apply lookup_set_same.
Qed.

Lemma write_ops_other : forall h p n (fs : store) h',
  h' <> h -> lookup (Final h') (run_ops (write_ops h p n) fs) = lookup (Final h') fs.
Proof.
  intros h p n fs h' N. unfold Cache.write_ops. fold (tmp_part h p n).
  rewrite run_ops_app, run_ops_one, (apply_rename _ _ _ (tmp_complete h p n fs)).
  rewrite lookup_set_other by congruence.
  rewrite lookup_remove_other by discriminate.
  apply tmp_writes_keep_finals with (h := h). apply tmp_part_all.
Qed.

(* every crash point *)
Lemma write_prefix : forall h p n k (fs : store) h',
  let fs' := run_ops (firstn k (write_ops h p n)) fs in
  lookup (Final h') fs' = lookup (Final h') fs \/
  (h' = h /\ lookup (Final h') fs' = Some (Valid p)).
Proof.
  intros h p n k fs h'. cbv zeta.
  destruct (Nat.le_gt_cases k (S n)) as [Hle|Hgt].
  - left. unfold Cache.write_ops. fold (tmp_part h p n).
    rewrite firstn_app, tmp_part_length.
    replace (k - S n) with 0 by lia. simpl. rewrite app_nil_r.
    apply tmp_writes_keep_finals with (h := h). apply Forall_firstn_. apply tmp_part_all.
  - rewrite firstn_all2.
    2:{ unfold Cache.write_ops. fold (tmp_part h p n). rewrite app_length, tmp_part_length. simpl. lia. }
    destruct (path_dec (Final h') (Final h)) as [E|N].
    + right. injection E as E. subst h'. split; [reflexivity|]. apply write_ops_same.
    + left. apply write_ops_other. congruence.
Qed.

(* ------------------------------------------------------------------ store invariant *)

(* each readable entry holds the solve of a footprint request with that key *)
Definition inv (fs : store) : Prop :=
  forall h p, lookup (Final h) fs = Some (Valid p) ->
    exists r, r_footprint r = true /\ hash (key r) = h /\ solve r = p.

Lemma inv_nil : inv [].
Proof. intros h p E. discriminate. Qed.

Lemma inv_remove : forall q (fs : store), inv fs -> inv (remove q fs).
Proof.
  intros q fs I h p E. destruct (path_dec (Final h) q) as [Eq|N].
  - subst q. rewrite lookup_remove_same in E. discriminate.
  - rewrite lookup_remove_other in E by exact N. apply I. exact E.
Qed.

Lemma inv_prefix : forall r k (fs : store),
  r_footprint r = true -> inv fs ->
  inv (run_ops (firstn k (write_ops (hash (key r)) (solve r) (nchunks (solve r)))) fs).
Proof.
  intros r k fs Hf I h p E.
  destruct (write_prefix (hash (key r)) (solve r) (nchunks (solve r)) k fs h) as [U|[Eh V]].
  - rewrite U in E. apply I. exact E.
  - rewrite V in E. injection E as E. exists r. auto.
Qed.

Lemma inv_put : forall r (fs : store),
  r_footprint r = true -> inv fs -> inv (put fs r (solve r)).
Proof.
  intros r fs Hf I. unfold Cache.put.
  rewrite <- (firstn_all (write_ops (hash (key r)) (solve r) (nchunks (solve r)))).
  apply inv_prefix; assumption.
Qed.

Lemma cached_footprint : forall c : call T, cached c = true -> r_footprint (c_req c) = true.
Proof. intros c E. unfold cached in E. apply andb_true_iff in E. tauto. Qed.

(* what get does, by the state of the final path *)
Lemma get_valid : forall (fs : store) r p,
  lookup (Final (hash (key r))) fs = Some (Valid p) -> get fs r = (Some p, fs).
Proof. intros fs r p E. unfold Cache.get. rewrite E. reflexivity. Qed.

Lemma get_corrupt : forall (fs : store) r,
  lookup (Final (hash (key r))) fs = Some Corrupt ->
  get fs r = (None, remove (Final (hash (key r))) fs).
Proof. intros fs r E. unfold Cache.get. rewrite E. reflexivity. Qed.

Lemma get_none : forall (fs : store) r,
  lookup (Final (hash (key r))) fs = None -> get fs r = (None, fs).
Proof. intros fs r E. unfold Cache.get. rewrite E. reflexivity. Qed.

(* get never hands out anything but a readable entry, and only shrinks the store by the
   unreadable entry it found *)
Lemma get_cases : forall (fs : store) r,
  (exists p, lookup (Final (hash (key r))) fs = Some (Valid p) /\ get fs r = (Some p, fs)) \/
  (lookup (Final (hash (key r))) fs = Some Corrupt /\
   get fs r = (None, remove (Final (hash (key r))) fs)) \/
  (lookup (Final (hash (key r))) fs = None /\ get fs r = (None, fs)).
Proof.
  intros fs r. destruct (lookup (Final (hash (key r))) fs) as [[p|]|] eqn:E.
  - left. exists p. split; [reflexivity|]. apply get_valid. exact E.
  - right. left. split; [reflexivity|]. apply get_corrupt. exact E.
  - right. right. split; [reflexivity|]. apply get_none. exact E.
Qed.

(* ------------------------------------------------------------------ one call *)

Lemma step_transparent : forall c (st : state),
  inv (st_fs st) ->
  fst (fst (step c st)) = solve (c_req c) /\ inv (st_fs (snd (step c st))).
Proof.
  intros c st I. unfold solve_with_cache. destruct (cached c) eqn:C.
  2:{ simpl. auto. }
  pose proof (cached_footprint c C) as Hf.
  destruct (get_cases (st_fs st) (c_req c)) as [[p [L G]]|[[L G]|[L G]]]; rewrite G; simpl.
  - split; [|exact I].
    destruct (I _ _ L) as [r' [Hf' [Hh Hs]]].
    apply hash_inj in Hh. rewrite <- Hs. apply key_complete; assumption.
  - split; [reflexivity|]. apply inv_put; [exact Hf|]. apply inv_remove. exact I.
  - split; [reflexivity|]. apply inv_put; assumption.
Qed.

Lemma killed_inv : forall c k (st : state),
  inv (st_fs st) -> inv (st_fs (killed c k st)).
Proof.
  intros c k st I. unfold killed_call. destruct (cached c) eqn:C.
  2:{ simpl. exact I. }
  pose proof (cached_footprint c C) as Hf.
  destruct (get_cases (st_fs st) (c_req c)) as [[p [L G]]|[[L G]|[L G]]]; rewrite G; simpl.
  - exact I.
  - apply inv_prefix; [exact Hf|]. apply inv_remove. exact I.
  - apply inv_prefix; assumption.
Qed.

(* ------------------------------------------------------------------ every history *)

Definition answer_ok (x : call T * R * outcome) : Prop :=
  snd (fst x) = solve (c_req (fst (fst x))).

Lemma history_cons_run : forall c evs (st : state),
  history (Run c :: evs) st =
  ((c, fst (fst (step c st)), snd (fst (step c st))) :: fst (history evs (snd (step c st))),
   snd (history evs (snd (step c st)))).
Proof.
  intros c evs st. simpl. destruct (step c st) as [[p o] st'] eqn:E. simpl.
  destruct (history evs st') as [l st'']. reflexivity.
Qed.

Theorem transparent : forall evs (st : state),
  inv (st_fs st) ->
  Forall answer_ok (fst (history evs st)) /\ inv (st_fs (snd (history evs st))).
Proof.
  intros evs. induction evs as [|[c|c k] evs IH]; intros st I.
  - simpl. split; [constructor|exact I].
  - rewrite history_cons_run. simpl.
    destruct (step_transparent c st I) as [A I'].
    destruct (IH _ I') as [F I'']. split; [|exact I''].
    constructor; [exact A|exact F].
  - simpl. apply IH. apply killed_inv. exact I.
Qed.

(* ------------------------------------------------------------------ effectiveness *)

Lemma step_hit : forall c (st : state) p,
  cached c = true -> lookup (Final (hash (key (c_req c)))) (st_fs st) = Some (Valid p) ->
  step c st = (p, Hit, st).
Proof.
  intros c st p C L. unfold solve_with_cache. rewrite C, (get_valid _ _ _ L).
  destruct st. reflexivity.
Qed.

(* after a cached call its key holds a readable entry with the answer just given *)
Lemma step_stores : forall c (st : state),
  cached c = true ->
  lookup (Final (hash (key (c_req c)))) (st_fs (snd (step c st))) =
  Some (Valid (fst (fst (step c st)))).
Proof.
  intros c st C. unfold solve_with_cache. rewrite C.
  destruct (get_cases (st_fs st) (c_req c)) as [[p [L G]]|[[L G]|[L G]]]; rewrite G; simpl.
  - exact L.
  - apply write_ops_same.
  - apply write_ops_same.
Qed.

(* a readable entry is never overwritten, removed or damaged by any later call or crash *)
Lemma step_keeps_valid : forall c (st : state) h p,
  lookup (Final h) (st_fs st) = Some (Valid p) ->
  lookup (Final h) (st_fs (snd (step c st))) = Some (Valid p).
Proof.
  intros c st h p V. unfold solve_with_cache. destruct (cached c) eqn:C; [|exact V].
  destruct (get_cases (st_fs st) (c_req c)) as [[p' [L G]]|[[L G]|[L G]]]; rewrite G; simpl.
  - exact V.
  - assert (N : h <> hash (key (c_req c))) by (intro; subst h; congruence).
    unfold Cache.put. rewrite write_ops_other by exact N.
    rewrite lookup_remove_other by congruence. exact V.
  - assert (N : h <> hash (key (c_req c))) by (intro; subst h; congruence).
    unfold Cache.put. rewrite write_ops_other by exact N. exact V.
Qed.

Lemma killed_keeps_valid : forall c k (st : state) h p,
  lookup (Final h) (st_fs st) = Some (Valid p) ->
  lookup (Final h) (st_fs (killed c k st)) = Some (Valid p).
Proof.
  intros c k st h p V. unfold killed_call. destruct (cached c) eqn:C; [|exact V].
  destruct (get_cases (st_fs st) (c_req c)) as [[p' [L G]]|[[L G]|[L G]]]; rewrite G; simpl.
  - exact V.
  - assert (N : h <> hash (key (c_req c))) by (intro; subst h; congruence).
    destruct (write_prefix (hash (key (c_req c))) (solve (c_req c)) (nchunks (solve (c_req c))) k
               (remove (Final (hash (key (c_req c)))) (st_fs st)) h) as [U|[E _]];
      [|contradiction].
    rewrite U. rewrite lookup_remove_other by congruence. exact V.
  - assert (N : h <> hash (key (c_req c))) by (intro; subst h; congruence).
    destruct (write_prefix (hash (key (c_req c))) (solve (c_req c)) (nchunks (solve (c_req c))) k
               (st_fs st) h) as [U|[E _]]; [|contradiction].
    rewrite U. exact V.
Qed.

Lemma history_keeps_valid : forall evs (st : state) h p,
  lookup (Final h) (st_fs st) = Some (Valid p) ->
  lookup (Final h) (st_fs (snd (history evs st))) = Some (Valid p).
Proof.
  intros evs. induction evs as [|[c|c k] evs IH]; intros st h p V.
  - exact V.
  - rewrite history_cons_run. simpl. apply IH. apply step_keeps_valid. exact V.
  - simpl. apply IH. apply killed_keeps_valid. exact V.
Qed.

(* a repeat with the same key — after ANY intermediate history, crashes included — is a hit:
   it returns the stored answer, does not run the solver and does not touch the store *)
Theorem effective : forall c1 evs c2 (st : state),
  cached c1 = true -> cached c2 = true -> key (c_req c1) = key (c_req c2) ->
  let x1 := step c1 st in
  let st2 := snd (history evs (snd x1)) in
  step c2 st2 = (fst (fst x1), Hit, st2).
Proof.
  intros c1 evs c2 st C1 C2 K. cbv zeta. apply step_hit; [exact C2|].
  rewrite <- K. apply history_keeps_valid. apply step_stores. exact C1.
Qed.

(* ------------------------------------------------------------------ crash safety *)

Theorem corrupt_is_miss : forall c (st : state),
  cached c = true ->
  lookup (Final (hash (key (c_req c)))) (st_fs st) = Some Corrupt ->
  let x := step c st in
  fst (fst x) = solve (c_req c) /\ snd (fst x) = Miss /\
  st_solves (snd x) = S (st_solves st) /\
  lookup (Final (hash (key (c_req c)))) (st_fs (snd x)) = Some (Valid (solve (c_req c))).
Proof.
  intros c st C L. cbv zeta. unfold solve_with_cache. rewrite C, (get_corrupt _ _ L). simpl.
  repeat split. apply write_ops_same.
Qed.

Theorem crash_then_continue : forall c k evs (st : state),
  inv (st_fs st) ->
  Forall answer_ok (fst (history (Killed c k :: evs) st)) /\
  inv (st_fs (snd (history (Killed c k :: evs) st))).
Proof. intros c k evs st I. apply transparent. exact I. Qed.

(* ------------------------------------------------------------------ packaged statements *)

Theorem effective_full :
  (forall c1 evs c2 (st : state),
     cached c1 = true -> cached c2 = true -> key (c_req c1) = key (c_req c2) ->
     let x1 := step c1 st in
     let st2 := snd (history evs (snd x1)) in
     step c2 st2 = (fst (fst x1), Hit, st2)) /\
  (forall r, key (with_halo r None) = key (with_halo r (Some (hmax (r_xmax r) (r_ymax r))))) /\
  (forall r v, key (with_values r v) = key r).
Proof.
  split; [exact effective|]. split; [exact key_default_halo|exact key_values].
Qed.

Theorem crash_safe :
  (forall h p n k (fs : store) h',
     let fs' := run_ops (firstn k (write_ops h p n)) fs in
     lookup (Final h') fs' = lookup (Final h') fs \/
     (h' = h /\ lookup (Final h') fs' = Some (Valid p))) /\
  (forall c (st : state),
     cached c = true ->
     lookup (Final (hash (key (c_req c)))) (st_fs st) = Some Corrupt ->
     let x := step c st in
     fst (fst x) = solve (c_req c) /\ snd (fst x) = Miss /\
     st_solves (snd x) = S (st_solves st) /\
     lookup (Final (hash (key (c_req c)))) (st_fs (snd x)) = Some (Valid (solve (c_req c)))) /\
  (forall c k evs (st : state),
     inv (st_fs st) ->
     Forall answer_ok (fst (history (Killed c k :: evs) st)) /\
     inv (st_fs (snd (history (Killed c k :: evs) st)))).
Proof.
  split; [exact write_prefix|]. split; [exact corrupt_is_miss|exact crash_then_continue].
Qed.

End Proofs.

(* ====================================================================================== *)
(* The executable instance satisfies the hypotheses (so the theorems are not vacuous), and  *)
(* the ORIGINAL key / write logic violates the property on it.                              *)

Lemma key_eqb_spec : forall a b : zkey, key_eqb Z.eqb a b = true <-> a = b.
Proof.
  assert (KT_spec : forall x y : ktok Z, ktok_eqb Z.eqb x y = true <-> x = y).
  { intros [x|x|[x|]] [y|y|[y|]]; simpl; split; intro E; try discriminate; try congruence;
      try reflexivity.
    - apply Z.eqb_eq in E. congruence.
    - apply Z.eqb_eq. congruence.
    - apply Bool.eqb_prop in E. congruence.
    - injection E as E. subst. apply Bool.eqb_reflx.
    - apply Z.eqb_eq in E. congruence.
    - apply Z.eqb_eq. congruence. }
  induction a as [|x a IH]; intros [|y b]; simpl; split; intro E; try discriminate; try reflexivity.
  - apply andb_true_iff in E. destruct E as [E1 E2]. apply KT_spec in E1. apply IH in E2. congruence.
  - injection E as E1 E2. apply andb_true_iff. split; [apply KT_spec|apply IH]; assumption.
Qed.

Lemma hash_x_inj : forall k1 k2, hash_x k1 = hash_x k2 -> k1 = k2.
Proof. intros k1 k2 E. exact E. Qed.

Lemma solve_x_shape_only : forall (r : ZR) v,
  r_footprint r = true -> solve_x (with_values r v) = solve_x r.
Proof. intros r v Hf. destruct r. simpl in Hf. subst. reflexivity. Qed.

Lemma solve_x_halo : forall r : ZR,
  solve_x (with_halo r (Some (resolve_halo Z.max r))) = solve_x r.
Proof. intros r. destruct r as [? ? ? ? ? ? ? ? ? ? ? ? ? ? ? f ? [h|] ?]; destruct f; reflexivity. Qed.

(* the instance's solver really depends on levels, shape, analytic flag and background *)
Lemma solve_x_discriminates :
  solve_x base <> solve_x base_levels /\ solve_x base <> solve_x base_shape /\
  solve_x base <> solve_x base_analytic /\ solve_x base <> solve_x base_bg /\
  solve_x base <> solve_x base_halo8 /\
  solve_x base = solve_x base_values /\ solve_x base = solve_x base_halo12.
Proof. vm_compute. repeat split; discriminate. Qed.

(* ---- ORIGINAL code: stale answers ---- *)
Definition stale_orig (r1 r2 : ZR) : Prop :=
  exists a1 o1 st1 a2 st2,
    step_orig_x (mkCall true r1) st0 = Some (a1, o1, st1) /\
    step_orig_x (mkCall true r2) st1 = Some (a2, Hit, st2) /\
    a2 <> solve_x r2.

Ltac stale_witness :=
  unfold stale_orig; do 5 eexists; split; [vm_compute; reflexivity|];
  split; [vm_compute; reflexivity|]; vm_compute; discriminate.

(* the explicit halo keeps the default-halo defect out of the way *)
Definition wh (r : ZR) : ZR := with_halo r (Some 12%Z).

Lemma stale_levels_orig : stale_orig (wh base) (wh base_levels).
Proof. stale_witness. Qed.
Lemma stale_shape_orig : stale_orig (wh base) (wh base_shape).
Proof. stale_witness. Qed.
Lemma stale_analytic_orig : stale_orig (wh base) (wh base_analytic).
Proof. stale_witness. Qed.
Lemma stale_bg_orig : stale_orig (wh base) (wh base_bg).
Proof. stale_witness. Qed.

(* ---- ORIGINAL code: with the default halo an identical repeat is never a hit ---- *)
Lemma default_halo_miss_orig :
  exists a1 st1 a2 st2,
    step_orig_x (mkCall true base) st0 = Some (a1, Miss, st1) /\
    step_orig_x (mkCall true base) st1 = Some (a2, Miss, st2) /\
    st_solves st2 = 2.
Proof. do 4 eexists. split; [vm_compute; reflexivity|]. split; vm_compute; reflexivity. Qed.

(* ---- ORIGINAL code: an interrupted write leaves an entry that kills the next run ---- *)
Lemma crash_fatal_orig :
  exists k, step_orig_x (mkCall true base_halo12) (killed_orig_x (mkCall true base_halo12) k st0) = None.
Proof. exists 2. vm_compute. reflexivity. Qed.

(* the same history on the repaired model: killed before the rename (k <= 5: five writes to the
   temporary file) the next run misses and answers correctly; killed after it (k = 6) it hits *)
Lemma crash_fine_fixed : forall k, (k <= 6)%nat ->
  fst (step_x (mkCall true base_halo12) (killed_x (mkCall true base_halo12) k st0)) =
  (solve_x base_halo12, if Nat.leb k 5 then Miss else Hit).
Proof.
  intros k Hk. do 7 (destruct k as [|k]; [vm_compute; reflexivity|]). lia.
Qed.
