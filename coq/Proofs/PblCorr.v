(* Tactics used by the interval-certified correspondence of property C09 (harness/props/c09.py).

   A correspondence lemma states, for one generated input of vertical_profiles,
       make_env <inputs> = Some E  /\  e_nnodes E = <len(z)>  /\
       Rabs (<model entry> - <exact rational of the Python entry>) <= <rational tolerance> /\ ...
   with all inputs the exact rationals of the binary64 arguments.  It is proved in stages so that
   every interval evaluation works on a small term: absum, z0 (or ustar), bb and every node height
   are replaced by fresh real variables together with an enclosure computed by `interval_intro` at
   90 bits (relative width about 1e-26); `if Rlt_dec a b` is decided by an interval evaluation of
   its two sides; the remaining inequalities are closed by `interval`.
   Everything is ordinary proof search: the lemma is checked by the kernel at Qed. *)
From Coq Require Import Reals ZArith Lra.
From Interval Require Import Tactic.
From BL Require Import Model.Pbl Proofs.PblProofs.
Open Scope R_scope.

(* the wrapper layer: projections and per-closure dispatch; leaves the formulas folded *)
Ltac c09_wrappers :=
  cbv [e_znode e_nnodes u_node v_node Kx_node Ky_node Kz_node u_at v_at Kx_at Ky_at Kz_at K_at
       absu_at e_absum e_zm e_um e_vm e_z0 e_ustar e_mol e_prsc e_tke e_h e_zmx e_n
       opt_default h_default zmx_default].

(* the formula layer: down to elementary functions, except psi/phi (they carry the `if`) *)
Ltac c09_formulas_in H :=
  cbv [absum z0_of_ustar ustar_of_z0 z0_oaahoc bb aa zetamx dzeta zeta z_of_zeta znode nnodes
       absu_most absu_oaahoc K_most K_const K_oaahoc dir_u Kx_mostm Ky_mostm
       kap c_l c_m c_h INR km_psiM km_phiC km_phiM] in H.
Ltac c09_formulas :=
  cbv [absum z0_of_ustar ustar_of_z0 z0_oaahoc bb aa zetamx dzeta zeta z_of_zeta znode nnodes
       absu_most absu_oaahoc K_most K_const K_oaahoc dir_u Kx_mostm Ky_mostm
       kap c_l c_m c_h INR km_psiM km_phiC km_phiM].
Ltac c09_stab :=
  unfold psi, phi, phim;
  cbv [psi_stable psi_unstable psi_of_xi xi_of phi_stable phi_unstable].
Ltac c09_stab_in H :=
  unfold psi, phi, phim in H;
  cbv [psi_stable psi_unstable psi_of_xi xi_of phi_stable phi_unstable] in H.

Ltac c09_decide_lt a b :=
  first
    [ let H := fresh "Hlt" in
      assert (H : a < b) by interval;
      destruct (Rlt_dec a b) as [_|?Hn]; [clear H|exfalso; auto]
    | let H := fresh "Hge" in
      assert (H : b <= a) by interval;
      destruct (Rlt_dec a b) as [?Hp|_]; [exfalso; lra|clear H] ].

Ltac c09_decide_le a b :=
  first
    [ let H := fresh "Hle" in
      assert (H : a <= b) by interval;
      destruct (Rle_dec a b) as [_|?Hn]; [clear H|exfalso; auto]
    | let H := fresh "Hgt" in
      assert (H : b < a) by interval;
      destruct (Rle_dec a b) as [?Hp|_]; [exfalso; lra|clear H] ].

Ltac c09_ifs :=
  repeat match goal with
  | |- context [Rlt_dec ?a ?b] => c09_decide_lt a b
  | |- context [Rle_dec ?a ?b] => c09_decide_le a b
  end.

(* replace the (folded) term t by a fresh variable with a tight enclosure *)
Ltac c09_abs t :=
  let X := fresh "X" in
  let E := fresh "EX" in
  remember t as X eqn:E;
  c09_formulas_in E; c09_stab_in E;
  revert E; c09_ifs; intro E;
  match type of E with
  | _ = ?b => let H := fresh "HX" in interval_intro b with (i_prec 90) as H; rewrite <- E in H; clear E
  end.

(* the same for a hypothesis H : X = t (X a variable) *)
Ltac c09_enc H :=
  c09_formulas_in H; c09_stab_in H;
  revert H; c09_ifs; intro H;
  match type of H with
  | ?x = ?b => let HB := fresh "HX" in interval_intro b with (i_prec 90) as HB; rewrite <- H in HB; clear H
  end.

(* top level: after the wrapper layer, give bb a variable (shared by all nodes) *)
Ltac c09_stage :=
  c09_wrappers;
  cbv [znode nnodes aa zetamx];
  repeat match goal with |- context [bb ?a ?b ?c] => c09_abs (bb a b c) end.

(* inside the group of one node: the height, the speed along the wind and the scalar K get variables *)
Ltac c09_node_stage :=
  repeat match goal with |- context [z_of_zeta ?h ?a ?b ?zt] => c09_abs (z_of_zeta h a b zt) end;
  repeat match goal with |- context [absu_most ?a ?b ?c ?d] => c09_abs (absu_most a b c d) end;
  repeat match goal with |- context [absu_oaahoc ?a ?b ?c ?d] => c09_abs (absu_oaahoc a b c d) end;
  repeat match goal with |- context [K_most ?a ?b ?c ?d] => c09_abs (K_most a b c d) end;
  repeat match goal with |- context [K_oaahoc ?a ?b] => c09_abs (K_oaahoc a b) end;
  repeat match goal with |- context [K_const ?a ?b ?c] => c09_abs (K_const a b c) end.

(* one conjunct: an inequality |model - value| <= tol, or the node count *)
Ltac c09_ineq := c09_formulas; c09_stab; c09_ifs; first [ interval | interval with (i_prec 90) ].
Ltac c09_count := apply ceilZ_unique; c09_formulas; split; interval with (i_prec 90).

(* reporting wrapper: prints which conjunct (numbered by the harness) could not be closed *)
Ltac c09_try k tac := first [ solve [ tac ] | (idtac "C09FAIL" k; fail 2) ].

(* the six claims of node number k: z, u, v, Kx, Ky, Kz *)
Ltac c09_node k :=
  c09_node_stage;
  split; [first [ solve [c09_ineq] | (idtac "C09FAIL" k "z"; fail 2) ]|];
  split; [first [ solve [c09_ineq] | (idtac "C09FAIL" k "u"; fail 2) ]|];
  split; [first [ solve [c09_ineq] | (idtac "C09FAIL" k "v"; fail 2) ]|];
  split; [first [ solve [c09_ineq] | (idtac "C09FAIL" k "Kx"; fail 2) ]|];
  split; [first [ solve [c09_ineq] | (idtac "C09FAIL" k "Ky"; fail 2) ]|];
  first [ solve [c09_ineq] | (idtac "C09FAIL" k "Kz"; fail 2) ].

(* psi / phi / km copies on a point *)
Ltac c09_point := c09_formulas; c09_stab; c09_ifs; interval with (i_prec 90).
