(* C12: lemmas about Model/Runtime.v (the process-global state machine).  The only
   consumer of `precision` in Model/Solver.v is treated in Proofs/PrecisionProofs.v. *)
From Coq Require Import List Arith Bool Lia.
From BL Require Import Model.Runtime.
Import ListNotations.

(* ------------------------------------------------------------------ the FFT manager singleton *)

Definition mgr_is (n : nat) (s : state) : bool :=
  match mgr s with Some t => Nat.eqb t n | None => false end.

Lemma mgr_is_true n s : mgr_is n s = true <-> mgr s = Some n.
Proof.
  unfold mgr_is. destruct (mgr s) as [t|]; [|split; discriminate].
  split; intros H.
  - apply Nat.eqb_eq in H. congruence.
  - injection H as ->. apply Nat.eqb_refl.
Qed.

(* get_fft_manager keeps the manager when it has the requested thread count, re-creates it otherwise *)
Lemma get_fft_manager_eq n s :
  get_fft_manager n s = if mgr_is n s then s else create_mgr n s.
Proof.
  unfold get_fft_manager, mgr_is. destruct s as [c nb [t|] p cs k]; cbn; [|reflexivity].
  destruct (Nat.eqb t n); cbn; reflexivity.
Qed.

Lemma get_fft_manager_mgr n s : mgr (get_fft_manager n s) = Some n.
Proof.
  rewrite get_fft_manager_eq. destruct (mgr_is n s) eqn:E; [|reflexivity].
  apply mgr_is_true. exact E.
Qed.

Lemma get_fft_manager_idem n s : get_fft_manager n (get_fft_manager n s) = get_fft_manager n s.
Proof.
  rewrite (get_fft_manager_eq n (get_fft_manager n s)).
  replace (mgr_is n (get_fft_manager n s)) with true; [reflexivity|].
  symmetry. apply mgr_is_true. apply get_fft_manager_mgr.
Qed.

(* the invariant of every reachable state: a live manager's thread count is pyfftw's thread count *)
Definition consistent (s : state) : Prop := forall t, mgr s = Some t -> pyfftw_threads s = t.

Lemma wf_init n p : consistent (init n p).
Proof. intros t H. discriminate H. Qed.

Lemma wf_get_fft_manager n s : consistent s -> consistent (get_fft_manager n s).
Proof.
  intros H. rewrite get_fft_manager_eq. destruct (mgr_is n s); [exact H|].
  intros t Ht. cbn in *. congruence.
Qed.

Lemma wf_pyfftw_after n s : consistent s -> pyfftw_threads (get_fft_manager n s) = n.
Proof. intros H. apply (wf_get_fft_manager n s H). apply get_fft_manager_mgr. Qed.

Lemma wf_set_cfg n s : consistent s -> consistent (set_cfg n s).
Proof. intros H t Ht. exact (H t Ht). Qed.
Lemma wf_set_numba n s : consistent s -> consistent (set_numba n s).
Proof. intros H t Ht. exact (H t Ht). Qed.
Lemma wf_reset s : consistent (reset_fft_manager s).
Proof. intros t Ht. discriminate Ht. Qed.
Lemma wf_ensure_compiled b s : consistent s -> consistent (ensure_compiled b s).
Proof. intros H. unfold ensure_compiled. destruct (existsb _ _); [exact H|]. intros t Ht. exact (H t Ht). Qed.

(* ------------------------------------------------------------------ closed form of one solve *)

Definition thread_setup (s : state) : state :=
  if (1 <? cfg_threads s)%nat then get_fft_manager (cfg_threads s) (set_numba (cfg_threads s) s)
  else get_fft_manager 1 s.

Lemma ensure_compiled_idem b s : ensure_compiled b (ensure_compiled b s) = ensure_compiled b s.
Proof.
  destruct (existsb (Bool.eqb b) (compiled s)) eqn:E.
  - assert (H : ensure_compiled b s = s) by (unfold ensure_compiled; rewrite E; reflexivity).
    rewrite H. exact H.
  - assert (H : existsb (Bool.eqb b) (compiled (ensure_compiled b s)) = true).
    { unfold ensure_compiled. rewrite E. cbn [compiled]. rewrite existsb_app. cbn.
      rewrite Bool.eqb_reflx. rewrite orb_true_r. reflexivity. }
    unfold ensure_compiled at 1. rewrite H. reflexivity.
Qed.

Lemma use_parallel_ensure b s : use_parallel (ensure_compiled b s) = use_parallel s.
Proof. unfold ensure_compiled. destruct (existsb _ _); reflexivity. Qed.
Lemma numba_ensure b s : numba_threads (ensure_compiled b s) = numba_threads s.
Proof. unfold ensure_compiled. destruct (existsb _ _); reflexivity. Qed.

(* state after a solve: source transform, set-up + compilation, final transforms *)
Definition after_solve (footprint analytic : bool) (s : state) : state :=
  let s1 := if footprint then s else get_fft_manager 1 s in
  let s4 := if analytic then s1
            else ensure_compiled (use_parallel s1) (thread_setup s1) in
  get_fft_manager 1 s4.

Definition kernel_usage (s1 : state) : bool * nat :=
  (use_parallel s1, numba_threads (thread_setup s1)).

Definition usage_of (footprint analytic : bool) (s : state) : usage :=
  let s1 := if footprint then s else get_fft_manager 1 s in
  let s4 := if analytic then s1 else ensure_compiled (use_parallel s1) (thread_setup s1) in
  mkUsage (if footprint then None else Some (pyfftw_threads s1))
          (if analytic then None else Some (kernel_usage s1))
          (if analytic then None else Some (kernel_usage s1))
          (pyfftw_threads (get_fft_manager 1 s4)) (pyfftw_threads (get_fft_manager 1 s4)).

Lemma use_parallel_setup s : use_parallel (thread_setup s) = use_parallel s.
Proof.
  unfold thread_setup, use_parallel. destruct (1 <? cfg_threads s)%nat eqn:E.
  - rewrite get_fft_manager_eq. destruct (mgr_is _ _); cbn; exact E.
  - rewrite get_fft_manager_eq. destruct (mgr_is _ _); cbn; exact E.
Qed.

Lemma run_solve_eq footprint analytic s :
  run_solve footprint analytic s = (after_solve footprint analytic s, usage_of footprint analytic s).
Proof.
  unfold run_solve, after_solve, usage_of, call_fft, call_parallelized, kernel_usage.
  destruct footprint, analytic; cbv beta iota zeta.
  all: repeat match goal with
       | |- context [if (1 <? cfg_threads ?x)%nat
                     then get_fft_manager (cfg_threads ?x) (set_numba (cfg_threads ?x) ?x)
                     else get_fft_manager 1 ?x] =>
           change (if (1 <? cfg_threads x)%nat
                   then get_fft_manager (cfg_threads x) (set_numba (cfg_threads x) x)
                   else get_fft_manager 1 x) with (thread_setup x)
       end.
  all: repeat rewrite get_fft_manager_idem;
       repeat rewrite use_parallel_ensure; repeat rewrite use_parallel_setup;
       repeat rewrite ensure_compiled_idem; repeat rewrite numba_ensure; reflexivity.
Qed.

(* ------------------------------------------------------------------ fields through the pieces *)

Lemma gfm_cfg n s : cfg_threads (get_fft_manager n s) = cfg_threads s.
Proof. rewrite get_fft_manager_eq. destruct (mgr_is n s); reflexivity. Qed.
Lemma gfm_numba n s : numba_threads (get_fft_manager n s) = numba_threads s.
Proof. rewrite get_fft_manager_eq. destruct (mgr_is n s); reflexivity. Qed.
Lemma gfm_compiled n s : compiled (get_fft_manager n s) = compiled s.
Proof. rewrite get_fft_manager_eq. destruct (mgr_is n s); reflexivity. Qed.
Lemma gfm_creations n s :
  mgr_creations (get_fft_manager n s) = mgr_creations s + (if mgr_is n s then 0 else 1).
Proof. rewrite get_fft_manager_eq. destruct (mgr_is n s); cbn; lia. Qed.

Lemma ec_cfg b s : cfg_threads (ensure_compiled b s) = cfg_threads s.
Proof. unfold ensure_compiled. destruct (existsb _ _); reflexivity. Qed.
Lemma ec_mgr b s : mgr (ensure_compiled b s) = mgr s.
Proof. unfold ensure_compiled. destruct (existsb _ _); reflexivity. Qed.
Lemma ec_pyfftw b s : pyfftw_threads (ensure_compiled b s) = pyfftw_threads s.
Proof. unfold ensure_compiled. destruct (existsb _ _); reflexivity. Qed.
Lemma ec_creations b s : mgr_creations (ensure_compiled b s) = mgr_creations s.
Proof. unfold ensure_compiled. destruct (existsb _ _); reflexivity. Qed.
Lemma mgr_is_ec n b s : mgr_is n (ensure_compiled b s) = mgr_is n s.
Proof. unfold mgr_is. rewrite ec_mgr. reflexivity. Qed.

Lemma ec_incl b s : incl (compiled s) (compiled (ensure_compiled b s)).
Proof.
  unfold ensure_compiled. destruct (existsb _ _); cbn; [apply incl_refl|].
  apply incl_appl. apply incl_refl.
Qed.
Lemma existsb_eqb_In b l : existsb (Bool.eqb b) l = true <-> In b l.
Proof.
  rewrite existsb_exists. split.
  - intros (x & Hx & E). apply Bool.eqb_prop in E. subst. exact Hx.
  - intros H. exists b. split; [exact H|apply Bool.eqb_reflx].
Qed.
Lemma ec_In b s : In b (compiled (ensure_compiled b s)).
Proof.
  unfold ensure_compiled. destruct (existsb (Bool.eqb b) (compiled s)) eqn:E.
  - apply existsb_eqb_In. exact E.
  - cbn. apply in_or_app. right. left. reflexivity.
Qed.
Lemma ec_NoDup b s : NoDup (compiled s) -> NoDup (compiled (ensure_compiled b s)).
Proof.
  intros H. unfold ensure_compiled. destruct (existsb (Bool.eqb b) (compiled s)) eqn:E; [exact H|].
  cbn. assert (Hn : ~ In b (compiled s)).
  { intros Hin. apply existsb_eqb_In in Hin. congruence. }
  clear E. induction (compiled s) as [|x l IH]; cbn.
  - constructor; [intros []|constructor].
  - inversion H as [|? ? Hx Hl]; subst. constructor.
    + intros Hin. apply in_app_or in Hin. destruct Hin as [Hin|[Hin|[]]].
      * exact (Hx Hin).
      * apply Hn. left. symmetry. exact Hin.
    + apply IH; [exact Hl|]. intros Hin. apply Hn. right. exact Hin.
Qed.
(* only the genuinely new flag is appended, at the end: insertion order of the dict *)
Lemma ec_shape b s :
  compiled (ensure_compiled b s) = if existsb (Bool.eqb b) (compiled s) then compiled s else compiled s ++ [b].
Proof. unfold ensure_compiled. destruct (existsb _ _); reflexivity. Qed.

Lemma setup_cfg s : cfg_threads (thread_setup s) = cfg_threads s.
Proof. unfold thread_setup. destruct (1 <? cfg_threads s)%nat; rewrite gfm_cfg; reflexivity. Qed.
Lemma setup_numba s :
  numba_threads (thread_setup s) = if (1 <? cfg_threads s)%nat then cfg_threads s else numba_threads s.
Proof. unfold thread_setup. destruct (1 <? cfg_threads s)%nat; rewrite gfm_numba; reflexivity. Qed.
Lemma setup_compiled s : compiled (thread_setup s) = compiled s.
Proof. unfold thread_setup. destruct (1 <? cfg_threads s)%nat; rewrite gfm_compiled; reflexivity. Qed.
Lemma setup_mgr s :
  mgr (thread_setup s) = Some (if (1 <? cfg_threads s)%nat then cfg_threads s else 1).
Proof. unfold thread_setup. destruct (1 <? cfg_threads s)%nat; apply get_fft_manager_mgr. Qed.
Lemma setup_creations s :
  mgr_creations (thread_setup s) = mgr_creations s +
    (if mgr_is (if (1 <? cfg_threads s)%nat then cfg_threads s else 1) s then 0 else 1).
Proof.
  unfold thread_setup. destruct (1 <? cfg_threads s)%nat; rewrite gfm_creations; reflexivity.
Qed.
Lemma wf_setup s : consistent s -> consistent (thread_setup s).
Proof.
  intros H. unfold thread_setup. destruct (1 <? cfg_threads s)%nat.
  - apply wf_get_fft_manager. apply wf_set_numba. exact H.
  - apply wf_get_fft_manager. exact H.
Qed.

(* ------------------------------------------------------------------ one solve: bookkeeping *)

Lemma wf_after_solve fp an s : consistent s -> consistent (after_solve fp an s).
Proof.
  intros H. unfold after_solve. apply wf_get_fft_manager.
  assert (H1 : consistent (if fp then s else get_fft_manager 1 s)).
  { destruct fp; [exact H|apply wf_get_fft_manager; exact H]. }
  destruct an; [exact H1|]. apply wf_ensure_compiled. apply wf_setup. exact H1.
Qed.

(* a solve always leaves a one-thread manager behind *)
Lemma after_solve_mgr fp an s : mgr (after_solve fp an s) = Some 1.
Proof. unfold after_solve. apply get_fft_manager_mgr. Qed.

Lemma after_solve_pyfftw fp an s : consistent s -> pyfftw_threads (after_solve fp an s) = 1.
Proof. intros H. apply (wf_after_solve fp an s H). apply after_solve_mgr. Qed.

Lemma after_solve_cfg fp an s : cfg_threads (after_solve fp an s) = cfg_threads s.
Proof.
  unfold after_solve. rewrite gfm_cfg.
  assert (H1 : cfg_threads (if fp then s else get_fft_manager 1 s) = cfg_threads s).
  { destruct fp; [reflexivity|apply gfm_cfg]. }
  destruct an; [exact H1|]. rewrite ec_cfg, setup_cfg. exact H1.
Qed.

(* numba's thread count is only ever RAISED/SET by a numerical solve with NUM_THREADS > 1; it is never
   set back: after NUM_THREADS returns to 1 it keeps its last value (sticky), harmless because the
   serial variant is then used *)
Lemma after_solve_numba fp an s :
  numba_threads (after_solve fp an s) =
  if an then numba_threads s else if (1 <? cfg_threads s)%nat then cfg_threads s else numba_threads s.
Proof.
  unfold after_solve. rewrite gfm_numba.
  assert (H1 : numba_threads (if fp then s else get_fft_manager 1 s) = numba_threads s).
  { destruct fp; [reflexivity|apply gfm_numba]. }
  assert (H2 : cfg_threads (if fp then s else get_fft_manager 1 s) = cfg_threads s).
  { destruct fp; [reflexivity|apply gfm_cfg]. }
  destruct an; [exact H1|]. rewrite numba_ensure, setup_numba, H1, H2. reflexivity.
Qed.

Lemma after_solve_compiled fp an s :
  compiled (after_solve fp an s) =
  if an then compiled s
  else if existsb (Bool.eqb (use_parallel s)) (compiled s) then compiled s
       else compiled s ++ [use_parallel s].
Proof.
  unfold after_solve. rewrite gfm_compiled.
  assert (H1 : compiled (if fp then s else get_fft_manager 1 s) = compiled s).
  { destruct fp; [reflexivity|apply gfm_compiled]. }
  assert (H2 : use_parallel (if fp then s else get_fft_manager 1 s) = use_parallel s).
  { unfold use_parallel. destruct fp; [reflexivity|rewrite gfm_cfg; reflexivity]. }
  destruct an; [exact H1|]. rewrite ec_shape, setup_compiled, H1, H2. reflexivity.
Qed.

(* number of FFTManager creations caused by one solve, as a function of the state it starts in *)
Definition solve_creations (fp an : bool) (s : state) : nat :=
  let first := if mgr_is 1 s then 0 else 1 in
  if an then first
  else if (1 <? cfg_threads s)%nat
       then (if fp then (if mgr_is (cfg_threads s) s then 0 else 1) else first + 1) + 1
       else first.

Lemma ltb1_neq n : (1 <? n)%nat = true -> Nat.eqb n 1 = false.
Proof. intros H. apply Nat.ltb_lt in H. apply Nat.eqb_neq. lia. Qed.

Lemma after_solve_creations fp an s :
  mgr_creations (after_solve fp an s) = mgr_creations s + solve_creations fp an s.
Proof.
  unfold after_solve, solve_creations. rewrite gfm_creations.
  destruct an.
  - destruct fp.
    + lia.
    + rewrite gfm_creations.
      replace (mgr_is 1 (get_fft_manager 1 s)) with true
        by (symmetry; apply mgr_is_true; apply get_fft_manager_mgr). lia.
  - rewrite mgr_is_ec, ec_creations, setup_creations.
    assert (Hm : mgr_is 1 (thread_setup (if fp then s else get_fft_manager 1 s))
                 = negb (1 <? cfg_threads s)%nat).
    { unfold mgr_is. rewrite setup_mgr.
      replace (cfg_threads (if fp then s else get_fft_manager 1 s)) with (cfg_threads s)
        by (destruct fp; [reflexivity|symmetry; apply gfm_cfg]).
      destruct (1 <? cfg_threads s)%nat eqn:E; cbn [negb]; [apply ltb1_neq; exact E|reflexivity]. }
    rewrite Hm. destruct fp.
    + destruct (1 <? cfg_threads s)%nat eqn:E; cbn [negb]; lia.
    + rewrite gfm_creations, gfm_cfg.
      destruct (1 <? cfg_threads s)%nat eqn:E; cbn [negb].
      * replace (mgr_is (cfg_threads s) (get_fft_manager 1 s)) with false.
        2:{ symmetry. unfold mgr_is. rewrite get_fft_manager_mgr. apply Nat.eqb_neq.
            apply ltb1_neq in E. apply Nat.eqb_neq in E. congruence. }
        lia.
      * replace (mgr_is 1 (get_fft_manager 1 s)) with true
          by (symmetry; apply mgr_is_true; apply get_fft_manager_mgr). lia.
Qed.

(* what the state feeds into the numerics of a solve started in a consistent state *)
Lemma usage_of_wf fp an s : consistent s ->
  usage_of fp an s =
  mkUsage (if fp then None else Some 1)
          (if an then None else Some (use_parallel s, if use_parallel s then cfg_threads s else numba_threads s))
          (if an then None else Some (use_parallel s, if use_parallel s then cfg_threads s else numba_threads s))
          1 1.
Proof.
  intros H. unfold usage_of, kernel_usage.
  assert (H1 : consistent (if fp then s else get_fft_manager 1 s)).
  { destruct fp; [exact H|apply wf_get_fft_manager; exact H]. }
  assert (Hc : cfg_threads (if fp then s else get_fft_manager 1 s) = cfg_threads s).
  { destruct fp; [reflexivity|apply gfm_cfg]. }
  assert (Hn : numba_threads (if fp then s else get_fft_manager 1 s) = numba_threads s).
  { destruct fp; [reflexivity|apply gfm_numba]. }
  assert (Hu : use_parallel (if fp then s else get_fft_manager 1 s) = use_parallel s).
  { unfold use_parallel. rewrite Hc. reflexivity. }
  rewrite setup_numba, Hc, Hn, Hu. fold (use_parallel s).
  rewrite wf_pyfftw_after.
  2:{ destruct an; [exact H1|]. apply wf_ensure_compiled. apply wf_setup. exact H1. }
  f_equal. destruct fp; [reflexivity|]. rewrite wf_pyfftw_after by exact H. reflexivity.
Qed.

(* ------------------------------------------------------------------ histories: bookkeeping *)

Section Histories.
Variable A : Type.
Notation op := (op A).

(* state after a call, by outcome *)
Definition after_call (fp an : bool) (oc : outcome) (s : state) : state :=
  match oc with
  | RaisesBefore => s
  | RaisesAfterSource => if fp then s else get_fft_manager 1 s
  | RaisesAtEnd | Returns => after_solve fp an s
  end.

Lemma run_call_eq fp an oc s :
  run_call fp an oc s =
  (after_call fp an oc s, match oc with Returns => Some (usage_of fp an s) | _ => None end).
Proof. destruct oc; cbn [run_call after_call]; try rewrite run_solve_eq; reflexivity. Qed.

Lemma step_state_solve (a : sargs A) s :
  step_state A (Solve A a) s = after_call (s_footprint A a) (s_analytic A a) (s_outcome A a) s.
Proof. cbn [step_state]. rewrite run_call_eq. reflexivity. Qed.

Lemma wf_after_call fp an oc s : consistent s -> consistent (after_call fp an oc s).
Proof.
  intros H. destruct oc; cbn [after_call].
  - apply wf_after_solve. exact H.
  - exact H.
  - destruct fp; [exact H|apply wf_get_fft_manager; exact H].
  - apply wf_after_solve. exact H.
Qed.

(* a call changes _compiled only by appending the flag it uses, if new *)
Lemma after_call_compiled fp an oc s :
  compiled (after_call fp an oc s) = compiled s \/
  compiled (after_call fp an oc s) = compiled s ++ [use_parallel s] /\
  existsb (Bool.eqb (use_parallel s)) (compiled s) = false.
Proof.
  assert (Hs : compiled (after_solve fp an s) = compiled s \/
               compiled (after_solve fp an s) = compiled s ++ [use_parallel s] /\
               existsb (Bool.eqb (use_parallel s)) (compiled s) = false).
  { rewrite after_solve_compiled. destruct an; [left; reflexivity|].
    destruct (existsb _ _); [left; reflexivity|right; split; reflexivity]. }
  destruct oc; cbn [after_call]; try exact Hs; left; [reflexivity|].
  destruct fp; [reflexivity|apply gfm_compiled].
Qed.

Lemma wf_step (o : op) s : consistent s -> consistent (step_state A o s).
Proof.
  intros H. destruct o as [n| |a].
  - apply wf_set_cfg. exact H.
  - apply wf_reset.
  - rewrite step_state_solve. apply wf_after_call. exact H.
Qed.

Lemma wf_exec (ops : list op) s : consistent s -> consistent (exec A ops s).
Proof.
  revert s. induction ops as [|o r IH]; intros s H; [exact H|].
  change (exec A (o :: r) s) with (exec A r (step_state A o s)). apply IH. apply wf_step. exact H.
Qed.

Lemma step_compiled_NoDup (o : op) s : NoDup (compiled s) -> NoDup (compiled (step_state A o s)).
Proof.
  intros H. destruct o as [n| |a]; [exact H|exact H|].
  rewrite step_state_solve.
  destruct (after_call_compiled (s_footprint A a) (s_analytic A a) (s_outcome A a) s) as [E|[E Hn]];
    rewrite E; [exact H|].
  pose proof (ec_NoDup (use_parallel s) s H) as Hd. rewrite ec_shape, Hn in Hd. exact Hd.
Qed.

(* the compiled set is a prefix-extension: old entries keep their place (dict insertion order) *)
Lemma step_compiled_prefix (o : op) s : exists l, compiled (step_state A o s) = compiled s ++ l.
Proof.
  destruct o as [n| |a]; [exists []; symmetry; apply app_nil_r|exists []; symmetry; apply app_nil_r|].
  rewrite step_state_solve.
  destruct (after_call_compiled (s_footprint A a) (s_analytic A a) (s_outcome A a) s) as [E|[E Hn]]; rewrite E.
  - exists []. symmetry. apply app_nil_r.
  - eexists. reflexivity.
Qed.

Lemma exec_compiled_prefix (ops : list op) s : exists l, compiled (exec A ops s) = compiled s ++ l.
Proof.
  revert s. induction ops as [|o r IH]; intros s; [exists []; symmetry; apply app_nil_r|].
  change (exec A (o :: r) s) with (exec A r (step_state A o s)).
  destruct (IH (step_state A o s)) as (l & Hl). destruct (step_compiled_prefix o s) as (l0 & Hl0).
  exists (l0 ++ l). rewrite Hl, Hl0. symmetry. apply app_assoc.
Qed.

Lemma exec_compiled_NoDup (ops : list op) s : NoDup (compiled s) -> NoDup (compiled (exec A ops s)).
Proof.
  revert s. induction ops as [|o r IH]; intros s H; [exact H|].
  change (exec A (o :: r) s) with (exec A r (step_state A o s)). apply IH. apply step_compiled_NoDup. exact H.
Qed.

Lemma exec_app (l1 l2 : list op) s : exec A (l1 ++ l2) s = exec A l2 (exec A l1 s).
Proof. unfold exec. apply fold_left_app. Qed.

(* usages of all solves of a history started in a consistent state: every transform on ONE thread; the
   kernel variant is `NUM_THREADS > 1` and, when parallel, runs on NUM_THREADS numba threads *)
Definition usage_ok (u : usage) : Prop :=
  (forall t, u_pre u = Some t -> t = 1) /\ u_post_p u = 1 /\ u_post_q u = 1 /\
  u_k1 u = u_k2 u.

Lemma usages_ok (ops : list op) s : consistent s -> Forall usage_ok (usages A ops s).
Proof.
  revert s. induction ops as [|o r IH]; intros s H; [constructor|].
  cbn [usages]. pose proof (IH _ (wf_step o s H)) as Hr.
  destruct o as [n| |a]; [exact Hr|exact Hr|].
  rewrite run_call_eq. cbn [snd]. destruct (s_outcome A a); try exact Hr.
  constructor; [|exact Hr].
  rewrite usage_of_wf by exact H.
  unfold usage_ok. cbn. repeat split.
  intros t Ht. destruct (s_footprint A a); [discriminate|]. injection Ht as <-. reflexivity.
Qed.

End Histories.

(* ------------------------------------------------------------------ histories: results *)

Section Results.
Variable A : Type.
Variables src kout mid fld : Type.
Variable flat : A -> src.
Variable fft_src : nat -> A -> src.
Variable closed : A -> src -> mid.
Variable kernel : bool -> nat -> A -> src -> bool -> kout.
Variable combine : A -> src -> kout -> kout -> mid.
Variable fft_out : nat -> A -> mid -> bool -> fld.

Notation op := (op A).
Notation solve_with := (solve_with A src kout mid fld flat fft_src closed kernel combine fft_out).
Notation solve_pure := (solve_pure A src kout mid fld flat fft_src closed kernel combine fft_out).
Notation run := (run A src kout mid fld flat fft_src closed kernel combine fft_out).
Notation step := (step A src kout mid fld flat fft_src closed kernel combine fft_out).
Notation expected := (expected A src kout mid fld flat fft_src closed kernel combine fft_out).

(* ORACLE HYPOTHESES: runtime facts about numba and FFTW that no model of bldfm can establish.
   kernel_oracle: both compiled variants of ivp_solver compute the same function whatever the numba
                  thread count; fft_oracle: a pyfftw transform does not depend on its thread count. *)
Definition kernel_oracle : Prop :=
  forall (par : bool) (n : nat) x q b, kernel par n x q b = kernel false 1 x q b.
Definition fft_oracle : Prop :=
  (forall t x, fft_src t x = fft_src 1 x) /\ (forall t x m b, fft_out t x m b = fft_out 1 x m b).

Lemma fst_step o s : fst (step o s) = step_state A o s.
Proof. destruct o as [n| |a]; [reflexivity|reflexivity|]. cbn. destruct (run_call _ _ _ s). reflexivity. Qed.

Lemma fst_run ops s : fst (run ops s) = exec A ops s.
Proof.
  revert s. induction ops as [|o r IH]; intros s; [reflexivity|].
  cbn [Runtime.run exec fold_left]. pose proof (fst_step o s) as Hs.
  destruct (step o s) as [s1 out]. cbn in Hs. subst s1.
  specialize (IH (step_state A o s)). destruct (run r (step_state A o s)) as [s2 outs].
  cbn in *. exact IH.
Qed.

(* from ANY state (reachable or not), under both oracles *)
Lemma solve_with_any : kernel_oracle -> fft_oracle ->
  forall u a, solve_with u a = solve_pure a.
Proof.
  intros Hk [Hs Ho] u a. unfold Runtime.solve_pure, Runtime.solve_with.
  destruct (s_footprint A a), (s_analytic A a); cbn [pure_usage u_pre u_k1 u_k2 u_post_p u_post_q dflt fst snd].
  - rewrite (Ho (u_post_p u)), (Ho (u_post_q u)). reflexivity.
  - rewrite (Ho (u_post_p u)), (Ho (u_post_q u)).
    rewrite (Hk (fst (dflt (u_k1 u)))), (Hk (fst (dflt (u_k2 u)))). reflexivity.
  - rewrite (Ho (u_post_p u)), (Ho (u_post_q u)).
    rewrite (Hs (match u_pre u with Some t => t | None => 1 end)). reflexivity.
  - rewrite (Ho (u_post_p u)), (Ho (u_post_q u)).
    rewrite (Hs (match u_pre u with Some t => t | None => 1 end)).
    rewrite (Hk (fst (dflt (u_k1 u)))), (Hk (fst (dflt (u_k2 u)))). reflexivity.
Qed.

Theorem history_independent_any_state : kernel_oracle -> fft_oracle ->
  forall (ops : list op) (s : state), snd (run ops s) = map expected ops.
Proof.
  intros Hk Hf ops. induction ops as [|o r IH]; intros s; [reflexivity|].
  cbn [Runtime.run map]. 
  assert (Ho : snd (step o s) = expected o).
  { destruct o as [n| |a]; [reflexivity|reflexivity|]. cbn [Runtime.step Runtime.expected].
    rewrite run_call_eq. destruct (s_outcome A a); cbn; try reflexivity.
    f_equal. apply solve_with_any; assumption. }
  destruct (step o s) as [s1 out]. cbn in Ho. subst out.
  specialize (IH s1). destruct (run r s1) as [s2 outs]. cbn in *. f_equal. exact IH.
Qed.

(* from a consistent state (every reachable state is consistent) the transforms run on one thread anyway:
   only the kernel oracle is needed *)
Lemma solve_with_wf : kernel_oracle ->
  forall a s, consistent s ->
  solve_with (snd (run_solve (s_footprint A a) (s_analytic A a) s)) a = solve_pure a.
Proof.
  intros Hk a s H. rewrite run_solve_eq. cbn [snd]. rewrite usage_of_wf by exact H.
  unfold Runtime.solve_pure, Runtime.solve_with, pure_usage.
  destruct (s_footprint A a), (s_analytic A a); cbn [u_pre u_k1 u_k2 u_post_p u_post_q dflt fst snd]; try reflexivity.
  - rewrite !(Hk (use_parallel s)). reflexivity.
  - rewrite !(Hk (use_parallel s)). reflexivity.
Qed.

Theorem history_independent_wf : kernel_oracle ->
  forall (ops : list op) (s : state), consistent s -> snd (run ops s) = map expected ops.
Proof.
  intros Hk ops. induction ops as [|o r IH]; intros s H; [reflexivity|].
  cbn [Runtime.run map].
  assert (Ho : snd (step o s) = expected o).
  { destruct o as [n| |a]; [reflexivity|reflexivity|]. cbn [Runtime.step Runtime.expected].
    pose proof (solve_with_wf Hk a s H) as E. rewrite run_solve_eq in E. cbn [snd] in E.
    rewrite run_call_eq. destruct (s_outcome A a); cbn; try reflexivity.
    f_equal. exact E. }
  pose proof (fst_step o s) as Hs.
  destruct (step o s) as [s1 out]. cbn in Ho, Hs. subst out s1.
  specialize (IH _ (wf_step A o s H)). destruct (run r _) as [s2 outs]. cbn in *. f_equal. exact IH.
Qed.

(* every state reachable from a fresh interpreter by any prefix of ops, then any further ops *)
Theorem history_independent_reachable : kernel_oracle ->
  forall (numba0 pyfftw0 : nat) (before ops : list op),
  snd (run ops (exec A before (init numba0 pyfftw0))) = map expected ops.
Proof.
  intros Hk n p before ops. apply history_independent_wf; [exact Hk|].
  apply wf_exec. apply wf_init.
Qed.

End Results.

(* ------------------------------------------------------------------ statements used by Properties/C12.v *)

Lemma solve_creations_steady fp an s : mgr s = Some 1 ->
  solve_creations fp an s = if an then 0 else if (1 <? cfg_threads s)%nat then 2 else 0.
Proof.
  intros H. unfold solve_creations.
  replace (mgr_is 1 s) with true by (symmetry; apply mgr_is_true; exact H).
  destruct an; [reflexivity|]. destruct (1 <? cfg_threads s)%nat eqn:E; [|reflexivity].
  replace (mgr_is (cfg_threads s) s) with false.
  2:{ symmetry. unfold mgr_is. rewrite H. apply Nat.eqb_neq. apply ltb1_neq in E.
      apply Nat.eqb_neq in E. congruence. }
  destruct fp; reflexivity.
Qed.

Theorem history_independent_explicit :
  forall (A src kout mid fld : Type)
         (flat : A -> src) (fft_src : nat -> A -> src) (closed : A -> src -> mid)
         (kernel : bool -> nat -> A -> src -> bool -> kout) (combine : A -> src -> kout -> kout -> mid)
         (fft_out : nat -> A -> mid -> bool -> fld),
  (forall (par : bool) (n : nat) x q b, kernel par n x q b = kernel false 1 x q b) ->
  (forall t x, fft_src t x = fft_src 1 x) ->
  (forall t x m b, fft_out t x m b = fft_out 1 x m b) ->
  forall (ops : list (op A)) (s : state),
    snd (run A src kout mid fld flat fft_src closed kernel combine fft_out ops s)
    = map (expected A src kout mid fld flat fft_src closed kernel combine fft_out) ops.
Proof.
  intros A src kout mid fld flat fft_src closed kernel combine fft_out Hk Hs Ho ops s.
  apply history_independent_any_state; [exact Hk|split; [exact Hs|exact Ho]].
Qed.

Theorem bookkeeping :
  forall (A : Type) (numba0 pyfftw0 : nat) (before : list (op A)),
  let s := exec A before (init numba0 pyfftw0) in
  (* 1 a live manager's thread count is pyfftw's *)
  (forall t, mgr s = Some t -> pyfftw_threads s = t) /\
  (* 2 _compiled holds each flag at most once and only grows, old keys keeping their place *)
  NoDup (compiled s) /\
  (forall more : list (op A), exists l, compiled (exec A more s) = compiled s ++ l) /\
  (* 3 what one solve started here does to the state and what it feeds into the numerics *)
  (forall fp an : bool,
     let par := (1 <? cfg_threads s)%nat in
     let k := if an then None else Some (par, if par then cfg_threads s else numba_threads s) in
     run_solve fp an s
     = (after_solve fp an s, mkUsage (if fp then None else Some 1) k k 1 1) /\
     mgr (after_solve fp an s) = Some 1 /\
     pyfftw_threads (after_solve fp an s) = 1 /\
     cfg_threads (after_solve fp an s) = cfg_threads s /\
     numba_threads (after_solve fp an s) = (if an then numba_threads s else if par then cfg_threads s else numba_threads s) /\
     (an = false -> In par (compiled (after_solve fp an s))) /\
     mgr_creations (after_solve fp an s) = mgr_creations s + solve_creations fp an s /\
     (mgr s = Some 1 -> solve_creations fp an s = if an then 0 else if par then 2 else 0)) /\
  (* 4 in every continuation every transform runs on one thread and both ivp calls see the same state *)
  (forall more : list (op A),
     Forall (fun u => (forall t, u_pre u = Some t -> t = 1) /\ u_post_p u = 1 /\ u_post_q u = 1 /\ u_k1 u = u_k2 u)
            (usages A more s)) /\
  (* 5 a call that raises leaves: nothing (argument check), a one-thread manager (after the source
       transform), or everything a returning call leaves (error at the very end) *)
  (forall a : sargs A,
     step_state A (Solve A a) s =
     match s_outcome A a with
     | RaisesBefore => s
     | RaisesAfterSource => if s_footprint A a then s else get_fft_manager 1 s
     | RaisesAtEnd | Returns => after_solve (s_footprint A a) (s_analytic A a) s
     end).
Proof.
  intros A n0 p0 before s.
  assert (Hs : consistent s) by (apply wf_exec; apply wf_init).
  assert (Hn : NoDup (compiled s)) by (apply exec_compiled_NoDup; constructor).
  split; [exact Hs|]. split; [exact Hn|]. split; [intros more; apply exec_compiled_prefix|].
  split.
  - intros fp an par k. split.
    { rewrite run_solve_eq, usage_of_wf by exact Hs. reflexivity. }
    split; [apply after_solve_mgr|]. split; [apply after_solve_pyfftw; exact Hs|].
    split; [apply after_solve_cfg|]. split; [apply after_solve_numba|].
    split.
    { intros ->. rewrite after_solve_compiled. fold par.
      change (use_parallel s) with par.
      destruct (existsb (Bool.eqb par) (compiled s)) eqn:E.
      - apply existsb_eqb_In. exact E.
      - apply in_or_app. right. left. reflexivity. }
    split; [apply after_solve_creations|]. apply solve_creations_steady.
  - split; [intros more; apply (usages_ok A more s Hs)|].
    intros a. rewrite step_state_solve. destruct (s_outcome A a); reflexivity.
Qed.
