(* Refinement: the statement-by-statement array model of the solver's plumbing (Model/SolverArray.v) computes,
   cell by cell, exactly the frequency-set model Model/Solver.v — for every parity of the sizes and of the
   pad widths, every accepted mode count (clamp included), both branches, every level slot and output cell.

   1-D: sums over an axis through  ifftshift . pad . fftshift  (untruncate_sum) and through  pad  (pad_sum);
        reads through  ifftshift . slice . fftshift  are Plumbing.truncate_reads.
   2-D: the same per axis (untruncate_sum2, pad_sum2, truncate_reads2).
   forward path:  tfftq0[ty, tx] = Solver.q0_hat   (fwd_path)
   gather/scatter: tfftp/tfftq[k, ty, tx] = Solver.spectrum   (spec_at_spectrum)
   backward path: crop(real(fft2|ifft2(ifftshift(pad(fftshift(T)))))) = Solver.synth at the cropped cells *)
From Coq Require Import ZArith List Field Ring Lia Bool Arith.
From BL Require Import Base.Ops Base.Laws Model.Solver Proofs.Sums Proofs.Dft Proofs.StepProofs Proofs.ModeProofs
  Proofs.SpecProofs Proofs.Plumbing Proofs.C04Proofs Proofs.C03Proofs Proofs.C07Mirror Proofs.C11Proofs Model.SolverArray.
Import ListNotations.
Set Default Proof Using "All".

Section ArrayRefine.
Variable O : Ops.
Hypothesis L : Laws O.
Notation C := (C O).
Notation "0" := (c0 O) : ops_scope. Notation "1" := (c1 O) : ops_scope.
Infix "+" := (cadd O) : ops_scope. Infix "*" := (cmul O) : ops_scope.
Infix "-" := (csub O) : ops_scope. Infix "/" := (cdiv O) : ops_scope.
Notation "- x" := (copp O x) : ops_scope.
Local Open Scope ops_scope.
Add Field OFar : (L_field O L).
Notation ofZ := (cofZ O).
Notation ofN n := (cofZ O (Z.of_nat n)).
Notation args := (args O).
Notation geom := (geom O).
Notation zsum := (zsum O).

(* ------------------------------------------------------------------ sums over 0 <= u < n *)

Lemma zsum_sumn n f : zsum n f = sumn O (Z.to_nat n) (fun i => f (Z.of_nat i)).
Proof. unfold SolverArray.zsum. apply (sumn_csum O L). Qed.

Lemma zsum_nat (n : nat) f : zsum (Z.of_nat n) f = csum O (map (fun u => f (Z.of_nat u)) (seq 0 n)).
Proof. unfold SolverArray.zsum. rewrite Nat2Z.id. reflexivity. Qed.

Lemma zsum_ext n f g : (forall u, (0 <= u < n)%Z -> f u = g u) -> zsum n f = zsum n g.
Proof.
  intros H. unfold SolverArray.zsum. apply (csum_map_ext O L). intros u Hu. apply in_seq in Hu. apply H. lia.
Qed.

Lemma zsum_zero n f : (forall u, (0 <= u < n)%Z -> f u = 0) -> zsum n f = 0.
Proof.
  intros H. rewrite (zsum_ext n f (fun _ => 0) H). unfold SolverArray.zsum. apply (csum_map_zero O L).
Qed.

Lemma zsum_scale n s f : zsum n (fun u => s * f u) = s * zsum n f.
Proof. unfold SolverArray.zsum. apply (csum_map_scale O L s (fun u => f (Z.of_nat u))). Qed.

Lemma zsum_swap n m (f : Z -> Z -> C) :
  zsum n (fun u => zsum m (fun v => f u v)) = zsum m (fun v => zsum n (fun u => f u v)).
Proof.
  unfold SolverArray.zsum.
  apply (csum_swap O L (fun a b => f (Z.of_nat a) (Z.of_nat b))).
Qed.

Lemma zsum_split a b f : (0 <= a)%Z -> (0 <= b)%Z ->
  zsum (a + b) f = zsum a f + zsum b (fun u => f (a + u)%Z).
Proof.
  intros Ha Hb. rewrite !zsum_sumn, Z2Nat.inj_add by lia. rewrite (sumn_split O L). f_equal.
  apply (sumn_ext O L). intros i _. f_equal. lia.
Qed.

Lemma zsum_cyclic n d f : (0 < n)%Z -> zsum n (fun u => f ((u + d) mod n)%Z) = zsum n f.
Proof.
  intros Hn. unfold SolverArray.zsum.
  rewrite <- (csum_cyclic O L (Z.to_nat n) d (fun i => f (Z.of_nat i))) by lia.
  apply (csum_map_ext O L). intros i _. rewrite (Z2Nat.id n) by lia.
  rewrite Z2Nat.id by (pose proof (Z.mod_pos_bound (Z.of_nat i + d) n Hn); lia). reflexivity.
Qed.

(* ------------------------------------------------------------------ one axis *)

(* a sum against a zero-padded array only sees the embedded block *)
Lemma pad_sum n s Lm (Y G : Z -> C) : (0 <= s)%Z -> (0 <= Lm)%Z -> (s + Lm <= n)%Z ->
  zsum n (fun u => pad 0 s Lm Y u * G u) = zsum Lm (fun r => Y r * G (s + r)%Z).
Proof.
  intros Hs HL Hn.
  replace n with (s + (Lm + (n - Lm - s)))%Z at 1 by lia.
  rewrite zsum_split by lia. rewrite zsum_split by lia.
  rewrite (zsum_zero s).
  2:{ intros u Hu. unfold pad. replace (s <=? u)%Z with false by (symmetry; apply Z.leb_gt; lia). cbn [andb]. ring. }
  rewrite (zsum_zero (n - Lm - s)).
  2:{ intros u Hu. unfold pad. replace (s + (Lm + u) <? s + Lm)%Z with false by (symmetry; apply Z.ltb_ge; lia).
      rewrite andb_false_r. ring. }
  rewrite (zsum_ext Lm _ (fun r => Y r * G (s + r)%Z)); [ring|].
  intros r Hr. unfold pad.
  replace ((s <=? s + r) && (s + r <? s + Lm))%Z with true
    by (symmetry; apply andb_true_iff; split; [apply Z.leb_le|apply Z.ltb_lt]; lia).
  replace (s + r - s)%Z with r by lia. reflexivity.
Qed.

(* a sum over the padded axis against the re-embedded spectrum = the sum over the retained indices, each
   weighted at its padded index  fftfreq(L)[t] mod n *)
Lemma untruncate_sum n Lm (X G : Z -> C) : (0 < Lm <= n)%Z ->
  zsum n (fun u => ifftshift n (pad 0 (start n Lm) Lm (fftshift Lm X)) u * G u)
  = zsum Lm (fun t => X t * G (zfftfreq Lm t mod n)%Z).
Proof.
  intros HL. destruct (start_bounds n Lm HL) as [Hs0 Hs1].
  assert (Hn : (0 < n)%Z) by lia.
  set (H := pad 0 (start n Lm) Lm (fftshift Lm X)).
  (* undo the roll by -(n//2) *)
  set (f := fun u' => H u' * G ((u' - n / 2) mod n)%Z).
  rewrite (zsum_ext n _ (fun u => f ((u + n / 2) mod n)%Z)).
  2:{ intros u Hu. unfold ifftshift, f. do 2 f_equal.
      rewrite Zminus_mod_idemp_l. replace (u + n / 2 - n / 2)%Z with u by lia.
      symmetry. apply Z.mod_small. lia. }
  rewrite zsum_cyclic by exact Hn. unfold f, H.
  (* only the embedded block contributes *)
  rewrite (pad_sum n (start n Lm) Lm (fftshift Lm X) (fun u' => G ((u' - n / 2) mod n)%Z)) by lia.
  (* undo the roll by L//2 *)
  set (h := fun t => X t * G ((start n Lm + (t + Lm / 2) mod Lm - n / 2) mod n)%Z).
  rewrite (zsum_ext Lm _ (fun r => h ((r + - (Lm / 2)) mod Lm)%Z)).
  2:{ intros r Hr. unfold fftshift, h. replace (r + - (Lm / 2))%Z with (r - Lm / 2)%Z by lia. do 3 f_equal.
      rewrite Zplus_mod_idemp_l. replace (r - Lm / 2 + Lm / 2)%Z with r by lia.
      rewrite (Z.mod_small r Lm) by lia. reflexivity. }
  rewrite zsum_cyclic by lia.
  apply zsum_ext. intros t Ht. unfold h. do 2 f_equal.
  rewrite <- (band_freq Lm t) by lia. unfold start. f_equal. lia.
Qed.

(* ------------------------------------------------------------------ two axes *)

Lemma pad_sum2 M N sy sx ny nx (Q W : Z -> Z -> C) :
  (0 <= sy)%Z -> (0 <= ny)%Z -> (sy + ny <= M)%Z -> (0 <= sx)%Z -> (0 <= nx)%Z -> (sx + nx <= N)%Z ->
  zsum M (fun J => zsum N (fun I => pad 0 sy ny (fun j' => pad 0 sx nx (Q j') I) J * W J I))
  = zsum ny (fun j => zsum nx (fun i => Q j i * W (sy + j)%Z (sx + i)%Z)).
Proof.
  intros H1 H2 H3 H4 H5 H6. rewrite zsum_swap.
  rewrite (zsum_ext N _ (fun I => zsum ny (fun j => pad 0 sx nx (Q j) I * W (sy + j)%Z I))).
  2:{ intros I _. apply (pad_sum M sy ny (fun j' => pad 0 sx nx (Q j') I) (fun J => W J I)); lia. }
  rewrite zsum_swap. apply zsum_ext. intros j _.
  apply (pad_sum N sx nx (Q j) (fun I => W (sy + j)%Z I)); lia.
Qed.

Lemma untruncate_sum2 M N Ly Lx (T W : Z -> Z -> C) : (0 < Ly <= M)%Z -> (0 < Lx <= N)%Z ->
  zsum M (fun v => zsum N (fun u =>
    ifftshift M (fun j' => ifftshift N (fun i' =>
      pad 0 (start M Ly) Ly (fun j'' => pad 0 (start N Lx) Lx (fun i'' =>
        fftshift Ly (fun b => fftshift Lx (T b) i'') j'') i') j') u) v * W v u))
  = zsum Ly (fun ty => zsum Lx (fun tx => T ty tx * W (zfftfreq Ly ty mod M)%Z (zfftfreq Lx tx mod N)%Z)).
Proof.
  intros HLy HLx.
  set (X := fun v tx => ifftshift M (pad 0 (start M Ly) Ly (fftshift Ly (fun ty => T ty tx))) v).
  rewrite (zsum_ext M _ (fun v => zsum N (fun u => ifftshift N (pad 0 (start N Lx) Lx (fftshift Lx (X v))) u * W v u))).
  2:{ intros v _. apply zsum_ext. intros u _. f_equal. unfold X, ifftshift, pad, fftshift.
      destruct ((start M Ly <=? (v + M / 2) mod M) && ((v + M / 2) mod M <? start M Ly + Ly))%Z;
      destruct ((start N Lx <=? (u + N / 2) mod N) && ((u + N / 2) mod N <? start N Lx + Lx))%Z; reflexivity. }
  rewrite (zsum_ext M _ (fun v => zsum Lx (fun tx => X v tx * W v (zfftfreq Lx tx mod N)%Z))).
  2:{ intros v _. apply (untruncate_sum N Lx (X v) (fun u => W v u)). exact HLx. }
  rewrite zsum_swap.
  rewrite (zsum_ext Lx _ (fun tx => zsum Ly (fun ty => T ty tx * W (zfftfreq Ly ty mod M)%Z (zfftfreq Lx tx mod N)%Z))).
  2:{ intros tx _. apply (untruncate_sum M Ly (fun ty => T ty tx) (fun v => W v (zfftfreq Lx tx mod N)%Z)). exact HLy. }
  apply zsum_swap.
Qed.

Lemma truncate_reads2 M N Ly Lx (F : Z -> Z -> C) ty tx :
  (0 < Ly <= M)%Z -> (0 < Lx <= N)%Z -> (0 <= ty < Ly)%Z -> (0 <= tx < Lx)%Z ->
  ifftshift Ly (fun j' => ifftshift Lx (fun i' =>
    slice (start M Ly) (fun j'' => slice (start N Lx) (fun i'' =>
      fftshift M (fun b => fftshift N (F b) i'') j'') i') j') tx) ty
  = F (zfftfreq Ly ty mod M)%Z (zfftfreq Lx tx mod N)%Z.
Proof.
  intros HLy HLx Hty Htx.
  transitivity (ifftshift Ly (slice (start M Ly) (fftshift M
                  (fun v => ifftshift Lx (slice (start N Lx) (fftshift N (F v))) tx))) ty); [reflexivity|].
  rewrite truncate_reads by assumption. apply truncate_reads; assumption.
Qed.

(* ------------------------------------------------------------------ the same, on arrays *)

Notation arr := (arr O).

Lemma trunc_at (x : arr) M N Ly Lx k ty tx :
  ar_rows O x = M -> ar_cols O x = N ->
  (0 < Ly <= M)%Z -> (0 < Lx <= N)%Z -> (0 <= ty < Ly)%Z -> (0 <= tx < Lx)%Z ->
  ar_at O (a_shift O true (a_slice O (start M Ly) (start M Ly + Ly) (start N Lx) (start N Lx + Lx) (a_shift O false x))) k ty tx
  = ar_at O x k (zfftfreq Ly ty mod M)%Z (zfftfreq Lx tx mod N)%Z.
Proof.
  intros HM HN HLy HLx Hty Htx. cbn [ar_at a_shift a_slice ar_rows ar_cols]. rewrite HM, HN.
  replace (start M Ly + Ly - start M Ly)%Z with Ly by lia.
  replace (start N Lx + Lx - start N Lx)%Z with Lx by lia.
  apply (truncate_reads2 M N Ly Lx (ar_at O x k)); assumption.
Qed.

Lemma untrunc_sum_at (t : arr) M N Ly Lx k (W : Z -> Z -> C) :
  ar_rows O t = Ly -> ar_cols O t = Lx -> (0 < Ly <= M)%Z -> (0 < Lx <= N)%Z ->
  let f := a_shift O true (a_pad O (start M Ly) (M - Ly - start M Ly) (start N Lx) (N - Lx - start N Lx) (a_shift O false t)) in
  ar_rows O f = M /\ ar_cols O f = N /\
  zsum M (fun v => zsum N (fun u => ar_at O f k v u * W v u))
  = zsum Ly (fun ty => zsum Lx (fun tx => ar_at O t k ty tx * W (zfftfreq Ly ty mod M)%Z (zfftfreq Lx tx mod N)%Z)).
Proof.
  intros HLy' HLx' HLy HLx. cbv zeta. cbn [ar_at a_shift a_pad ar_rows ar_cols]. rewrite HLy', HLx'.
  replace (start M Ly + Ly + (M - Ly - start M Ly))%Z with M by lia.
  replace (start N Lx + Lx + (N - Lx - start N Lx))%Z with N by lia.
  split; [reflexivity|]. split; [reflexivity|].
  apply (untruncate_sum2 M N Ly Lx (ar_at O t k) W); assumption.
Qed.

Lemma pad_sum_at (q : arr) py hy px hx k (W : Z -> Z -> C) :
  (0 <= py)%Z -> (0 <= hy)%Z -> (0 <= px)%Z -> (0 <= hx)%Z -> (0 <= ar_rows O q)%Z -> (0 <= ar_cols O q)%Z ->
  let x := a_pad O py hy px hx q in
  zsum (ar_rows O x) (fun J => zsum (ar_cols O x) (fun I => ar_at O x k J I * W J I))
  = zsum (ar_rows O q) (fun j => zsum (ar_cols O q) (fun i => ar_at O q k j i * W (py + j)%Z (px + i)%Z)).
Proof.
  intros H1 H2 H3 H4 H5 H6. cbv zeta. cbn [ar_at a_pad ar_rows ar_cols].
  apply (pad_sum2 _ _ py px (ar_rows O q) (ar_cols O q) (ar_at O q k) W); lia.
Qed.

(* ------------------------------------------------------------------ phases *)

Lemma cis_dft_phase (m n : nat) v u j i :
  cis O (dft_phase O (Z.of_nat m) (Z.of_nat n) v u j i) = root O m (v * j) * root O n (u * i).
Proof. unfold cis, dft_phase, root. rewrite <- (L_exp_add O L). f_equal. ring. Qed.

Lemma cis_dft_phase_neg (m n : nat) v u j i :
  cis O (- dft_phase O (Z.of_nat m) (Z.of_nat n) v u j i) = root O m (- v * j) * root O n (- u * i).
Proof.
  unfold cis, dft_phase, root. rewrite <- (L_exp_add O L). f_equal.
  rewrite !Z.mul_opp_l, !(L_ofZ_opp O L), !(Fdiv_def (L_field O L)). ring.
Qed.

Lemma root_mod_l n a b : n <> 0%nat -> root O n ((a mod Z.of_nat n) * b) = root O n (a * b).
Proof. intros Hn. apply (root_mod O L); [exact Hn|]. apply Z.mul_mod_idemp_l. lia. Qed.

Lemma root_mod_r n a b : n <> 0%nat -> root O n (b * (a mod Z.of_nat n)) = root O n (a * b).
Proof. intros Hn. rewrite Z.mul_comm. apply root_mod_l. exact Hn. Qed.


Lemma root_mod_neg_l n a J J' : n <> 0%nat -> J = J' ->
  root O n (- (a mod Z.of_nat n) * J) = root O n (- a * J').
Proof.
  intros Hn <-. replace (- (a mod Z.of_nat n) * J)%Z with ((a mod Z.of_nat n) * (- J))%Z by ring.
  rewrite root_mod_l by exact Hn. f_equal. ring.
Qed.

Lemma root_mod_pos_r n a J J' : n <> 0%nat -> J = J' ->
  root O n (J * (a mod Z.of_nat n)) = root O n (a * J').
Proof. intros Hn <-. apply root_mod_r. exact Hn. Qed.

Lemma root_mod_neg_r n a J J' : n <> 0%nat -> J = J' ->
  root O n (- J * (a mod Z.of_nat n)) = root O n (- a * J').
Proof. intros Hn <-. rewrite root_mod_r by exact Hn. f_equal. ring. Qed.

(* ------------------------------------------------------------------ what geometry guarantees *)

Lemma geometry_modes_le a g : geometry O a = inl g ->
  (g_nlx O g <= g_nxe O g)%nat /\ (g_nly O g <= g_nye O g)%nat.
Proof.
  unfold geometry.
  destruct (Nat.odd (a_nlx O a) || Nat.odd (a_nly O a)); [discriminate|].
  destruct ((_ <? 0)%Z || (_ <? 0)%Z); [discriminate|].
  destruct ((_ <? a_nlx O a)%nat || (_ <? a_nly O a)%nat) eqn:E;
    (destruct (existsb _ (a_levels O a)); [discriminate|]); intros H; injection H as <-;
    cbn [g_nlx g_nly g_nxe g_nye].
  - lia.
  - apply orb_false_iff in E. destruct E as [E1 E2]. apply Nat.ltb_ge in E1. apply Nat.ltb_ge in E2. lia.
Qed.

(* ------------------------------------------------------------------ backward path *)

Definition sgn (fp : bool) (x : C) : C := if fp then - x else x.

Lemma back_pipe_at fp py px nye nxe nly nlx (t : arr) k j i :
  ar_rows O t = nly -> ar_cols O t = nlx -> (0 < nly <= nye)%Z -> (0 < nlx <= nxe)%Z ->
  ar_at O (back_pipe O fp py px nye nxe nly nlx t) k j i
  = cre O (zsum nly (fun ty => zsum nlx (fun tx =>
      ar_at O t k ty tx *
      cis O (sgn fp (dft_phase O nye nxe (j + py)%Z (i + px)%Z (zfftfreq nly ty mod nye)%Z (zfftfreq nlx tx mod nxe)%Z))))).
Proof.
  intros Hr Hc HLy HLx. unfold back_pipe. cbv zeta.
  pose proof (fun W => untrunc_sum_at t nye nxe nly nlx k W Hr Hc HLy HLx) as HU. cbv zeta in HU.
  set (f := a_shift O true (a_pad O (start nye nly) (nye - nly - start nye nly) (start nxe nlx) (nxe - nlx - start nxe nlx)
                               (a_shift O false t))) in *.
  destruct (HU (fun _ _ => 0)) as (Hfr & Hfc & _).
  destruct fp; cbn [ar_at a_slice a_real a_fft2 ar_rows ar_cols fft_scale]; unfold slice; rewrite Hfr, Hfc; f_equal.
  - unfold sgn. rewrite <- (proj2 (proj2 (HU (fun v u => cis O (- dft_phase O nye nxe (j + py)%Z (i + px)%Z v u))))).
    ring.
  - unfold sgn. rewrite <- (proj2 (proj2 (HU (fun v u => cis O (dft_phase O nye nxe (j + py)%Z (i + px)%Z v u))))).
    ring.
Qed.

(* ------------------------------------------------------------------ gather / scatter *)

Lemma index_of_in t l : In t l ->
  exists m, index_of t l = Some m /\ (m < length l)%nat /\ nth m l (0%nat, 0%nat) = t.
Proof.
  induction l as [|x r IH]; intros Hin; [destruct Hin|]. cbn [index_of].
  destruct (Nat.eqb (fst x) (fst t) && Nat.eqb (snd x) (snd t)) eqn:E.
  - exists 0%nat. split; [reflexivity|]. split; [cbn; lia|].
    apply andb_true_iff in E. destruct E as [E1 E2]. apply Nat.eqb_eq in E1. apply Nat.eqb_eq in E2.
    destruct x, t; cbn in *; subst; reflexivity.
  - destruct Hin as [->|Hin].
    + rewrite !Nat.eqb_refl in E. discriminate.
    + destruct (IH Hin) as (m & Hm & Hlt & Hn). exists (S m). rewrite Hm.
      split; [reflexivity|]. split; [cbn; lia|exact Hn].
Qed.

Lemma index_of_notin t l : ~ In t l -> index_of t l = None.
Proof.
  induction l as [|x r IH]; intros H; [reflexivity|]. cbn [index_of].
  destruct (Nat.eqb (fst x) (fst t) && Nat.eqb (snd x) (snd t)) eqn:E.
  - exfalso. apply H. left.
    apply andb_true_iff in E. destruct E as [E1 E2]. apply Nat.eqb_eq in E1. apply Nat.eqb_eq in E2.
    destruct x, t; cbn in *; subst; reflexivity.
  - rewrite IH; [reflexivity|]. intros Hi. apply H. right. exact Hi.
Qed.

Lemma combine_map {A B D} (f : A -> B) (h : A -> D) l :
  combine (map f l) (map h l) = map (fun x => (f x, h x)) l.
Proof. induction l as [|x l IH]; cbn; [reflexivity|]. rewrite IH. reflexivity. Qed.

(* the per-mode function with wavenumbers as values IS Solver.mode_levels_q *)
Lemma mode_levels_l_q a g tx ty qh :
  mode_levels_l O a g (lx_arr O g (Z.of_nat tx)) (ly_arr O g (Z.of_nat ty)) qh = mode_levels_q O a g tx ty qh.
Proof. reflexivity. Qed.

(* X[msk] -> per-mode computation -> tfft?[:, msk] = ... : entry (ty, tx) of the scattered array is the
   spectrum of Solver.v at (tx, ty), provided the truncated source spectrum is q0_hat *)
Lemma spec_at_spectrum a g (tq0 : Z -> Z -> C) sel k tx ty :
  (tx < g_nlx O g)%nat -> (ty < g_nly O g)%nat ->
  tq0 (Z.of_nat ty) (Z.of_nat tx) = q0_hat O a g tx ty -> tq0 0%Z 0%Z = q0_hat O a g 0%nat 0%nat ->
  spec_at O a g tq0 sel (Z.of_nat k) (Z.of_nat ty) (Z.of_nat tx) = sel (nth k (spectrum O a g tx ty) (0, 0)).
Proof.
  intros Hx Hy Ht H0. unfold spec_at. rewrite !Nat2Z.id.
  destruct (msk (tx, ty)) eqn:Em.
  - assert (Hin : In (tx, ty) (msk_idx O g)).
    { apply filter_In. split; [apply (modes_of_in O L); cbn [fst snd]; lia|exact Em]. }
    destruct (index_of_in _ _ Hin) as (m & -> & Hlt & Hn).
    unfold modes_flat, gather. rewrite !combine_map, map_map.
    rewrite (map_nth_lt _ _ m (0%nat, 0%nat) []) by exact Hlt. rewrite Hn. cbn [fst snd].
    unfold mesh_x, mesh_y. rewrite Ht, mode_levels_l_q.
    unfold spectrum, mode_levels. destruct tx as [|tx]; destruct ty as [|ty]; try reflexivity.
    cbn in Em. discriminate.
  - assert (E0 : tx = 0%nat /\ ty = 0%nat).
    { unfold msk in Em. cbn [fst snd] in Em. apply negb_false_iff in Em. apply andb_true_iff in Em.
      destruct Em as [E1 E2]. apply Nat.eqb_eq in E1. apply Nat.eqb_eq in E2. split; assumption. }
    destruct E0 as [-> ->].
    rewrite index_of_notin.
    2:{ intros Hin. apply filter_In in Hin. destruct Hin as [_ Hm]. congruence. }
    rewrite H0. reflexivity.
Qed.

(* ------------------------------------------------------------------ forward path *)

Lemma scale_fwd (m n : nat) : m <> 0%nat -> n <> 0%nat ->
  1 / ofZ (Z.of_nat m * Z.of_nat n) = 1 / ofN n / ofN m.
Proof.
  intros Hm Hn. rewrite (L_ofZ_mul O L). field. split; apply (ofN_nz O L); assumption.
Qed.

(* pad -> fft2(norm="forward") -> fftshift -> slice -> ifftshift  =  the forward DFT of the padded source at
   the integer frequencies of the retained indices *)
Theorem fwd_path a g k tx ty :
  wf O a -> geometry O a = inl g -> a_footprint O a = false ->
  (tx < g_nlx O g)%nat -> (ty < g_nly O g)%nat ->
  ar_at O (tq0_arr O a g) k (Z.of_nat ty) (Z.of_nat tx) = q0_hat O a g tx ty.
Proof.
  intros Hwf Hg Hfp Hx Hy.
  destruct (geometry_inv O L a g Hg) as (Hny & Hnx & _ & _ & _ & Hnxe & Hnye & _).
  destruct (geometry_modes_le a g Hg) as [Hlx Hly].
  assert (Hm : g_nye O g <> 0%nat) by lia. assert (Hn : g_nxe O g <> 0%nat) by lia.
  unfold tq0_arr, q0_hat. rewrite Hfp. unfold fwd_pipe. cbv zeta.
  rewrite (trunc_at _ (znye O g) (znxe O g) (znly O g) (znlx O g) k).
  2:{ cbn [ar_rows a_fft2 a_pad src_arr]. unfold zpy, znye. lia. }
  2:{ cbn [ar_cols a_fft2 a_pad src_arr]. unfold zpx, znxe. lia. }
  2-5: unfold znye, znly, znxe, znlx; lia.
  cbn [ar_at a_fft2].
  rewrite (pad_sum_at (src_arr O a g) (zpy O g) (zpy O g) (zpx O g) (zpx O g) k
             (fun J I => cis O (- dft_phase O (ar_rows O (a_pad O (zpy O g) (zpy O g) (zpx O g) (zpx O g) (src_arr O a g)))
                                            (ar_cols O (a_pad O (zpy O g) (zpy O g) (zpx O g) (zpx O g) (src_arr O a g)))
                                            (zfftfreq (znly O g) (Z.of_nat ty) mod znye O g)%Z
                                            (zfftfreq (znlx O g) (Z.of_nat tx) mod znxe O g)%Z J I)))
    by (cbn [ar_rows ar_cols src_arr]; unfold zpy, zpx; lia).
  cbn [ar_rows ar_cols ar_at a_pad src_arr fft_scale].
  replace (zpy O g + Z.of_nat (g_ny O g) + zpy O g)%Z with (znye O g) by (unfold zpy, znye; lia).
  replace (zpx O g + Z.of_nat (g_nx O g) + zpx O g)%Z with (znxe O g) by (unfold zpx, znxe; lia).
  rewrite (src_hat_index O L a g _ _ Hwf Hg). unfold znye, znxe, znly, znlx, zpy, zpx.
  rewrite scale_fwd by assumption. f_equal.
  rewrite zsum_nat. apply (csum_map_ext O L). intros j _.
  rewrite zsum_nat. apply (csum_map_ext O L). intros i _.
  rewrite !Nat2Z.id. unfold cellq. f_equal.
  rewrite cis_dft_phase_neg, (cis_phase_neg O L). cbn [g_nye g_nxe].
  f_equal; apply root_mod_neg_l; try assumption; lia.
Qed.

(* ------------------------------------------------------------------ the whole pipeline *)

Lemma apply_shift_size a g t :
  ar_rows O (apply_shift O a g t) = ar_rows O t /\ ar_cols O (apply_shift O a g t) = ar_cols O t.
Proof.
  unfold apply_shift. destruct (a_footprint O a); [split; reflexivity|].
  destruct (cltb O _ _); split; reflexivity.
Qed.

(* tfftq0, both branches *)
Lemma tq0_values a g k tx ty :
  wf O a -> geometry O a = inl g -> (tx < g_nlx O g)%nat -> (ty < g_nly O g)%nat ->
  ar_at O (tq0_arr O a g) k (Z.of_nat ty) (Z.of_nat tx) = q0_hat O a g tx ty.
Proof.
  intros Hwf Hg Hx Hy. destruct (a_footprint O a) eqn:Hfp.
  - unfold tq0_arr, q0_hat. rewrite Hfp. reflexivity.
  - apply fwd_path; assumption.
Qed.

(* tfftp / tfftq after the multiplication by shift *)
Lemma shifted_at a g sel k tx ty :
  wf O a -> geometry O a = inl g -> (tx < g_nlx O g)%nat -> (ty < g_nly O g)%nat ->
  ar_at O (apply_shift O a g (spec_arr O a g sel)) (Z.of_nat k) (Z.of_nat ty) (Z.of_nat tx)
  = sel (nth k (spectrum O a g tx ty) (0, 0)) * shift O a g tx ty.
Proof.
  intros Hwf Hg Hx Hy.
  assert (Hs : ar_at O (spec_arr O a g sel) (Z.of_nat k) (Z.of_nat ty) (Z.of_nat tx)
               = sel (nth k (spectrum O a g tx ty) (0, 0))).
  { unfold spec_arr. cbn [ar_at]. apply spec_at_spectrum; try assumption.
    - apply tq0_values; assumption.
    - apply (tq0_values a g 0%Z 0%nat 0%nat Hwf Hg); lia. }
  unfold apply_shift, shift. destruct (a_footprint O a).
  - cbn [ar_at a_mul]. rewrite Hs. reflexivity.
  - destruct (cltb O _ _).
    + cbn [ar_at a_mul]. rewrite Hs. reflexivity.
    + rewrite Hs. ring.
Qed.

(* every cell of the array model's padded-and-cropped output = real part of the sum over the retained modes of
   amplitude * shift * phase, i.e. the representation SpecProofs.conc_cell / flx_cell of Solver.solve *)
Theorem field_arr_cell a g sel k j i :
  wf O a -> geometry O a = inl g -> (0 < g_nlx O g)%nat -> (0 < g_nly O g)%nat ->
  ar_at O (field_arr O a g sel) (Z.of_nat k) (Z.of_nat j) (Z.of_nat i)
  = cre O (csum O (map (term O a g sel k (i + g_px O g) (j + g_py O g)) (modes_of O g))).
Proof.
  intros Hwf Hg Hx0 Hy0.
  destruct (geometry_modes_le a g Hg) as [Hlx Hly].
  unfold field_arr. destruct (apply_shift_size a g (spec_arr O a g sel)) as [Hr Hc].
  rewrite (back_pipe_at _ _ _ _ _ (znly O g) (znlx O g));
    [| rewrite Hr; reflexivity | rewrite Hc; reflexivity | unfold znly, znye; lia | unfold znlx, znxe; lia].
  f_equal. unfold modes_of. rewrite (csum_modes_nested O L). unfold znly, znlx.
  rewrite zsum_nat. apply (csum_map_ext O L). intros ty Hty. apply in_seq in Hty.
  rewrite zsum_nat. apply (csum_map_ext O L). intros tx Htx. apply in_seq in Htx.
  rewrite shifted_at by (assumption || lia). unfold term. cbv zeta. cbn [fst snd]. f_equal.
  unfold sgn, znye, znxe, zpy, zpx. destruct (a_footprint O a).
  - rewrite cis_dft_phase_neg, (cis_phase_neg O L). f_equal; apply root_mod_neg_r; lia.
  - rewrite cis_dft_phase, (cis_phase O L). f_equal; apply root_mod_pos_r; lia.
Qed.

Lemma geometry_modes_pos a g : geometry O a = inl g ->
  (0 < a_nlx O a)%nat -> (0 < a_nly O a)%nat -> (0 < g_nx O g)%nat -> (0 < g_ny O g)%nat ->
  (0 < g_nlx O g)%nat /\ (0 < g_nly O g)%nat.
Proof.
  unfold geometry.
  destruct (Nat.odd (a_nlx O a) || Nat.odd (a_nly O a)); [discriminate|].
  destruct ((_ <? 0)%Z || (_ <? 0)%Z); [discriminate|].
  destruct ((_ <? a_nlx O a)%nat || (_ <? a_nly O a)%nat);
    (destruct (existsb _ (a_levels O a)); [discriminate|]); intros H; injection H as <-;
    cbn [g_nlx g_nly g_nx g_ny]; lia.
Qed.

(* shapes: the crop returns the shape of the source; all slice bounds and pad widths of the pipeline are
   in range (so that numpy's slicing / np.pad mean what Model/SolverArray.v says) *)
Lemma field_arr_shape a g sel : geometry O a = inl g ->
  ar_rows O (field_arr O a g sel) = Z.of_nat (g_ny O g) /\ ar_cols O (field_arr O a g sel) = Z.of_nat (g_nx O g).
Proof.
  intros Hg. destruct (geometry_inv O L a g Hg) as (_ & _ & _ & _ & _ & Hnxe & Hnye & _).
  unfold field_arr, back_pipe. cbv zeta. cbn [ar_rows ar_cols a_slice]. unfold znye, znxe, zpy, zpx. lia.
Qed.

Lemma slices_in_range a g : geometry O a = inl g -> (0 < g_nlx O g)%nat -> (0 < g_nly O g)%nat ->
  let dly := start (znye O g) (znly O g) in let dlx := start (znxe O g) (znlx O g) in
  (* truncation slice *)
  (0 <= dly /\ dly + znly O g <= znye O g /\ 0 <= dlx /\ dlx + znlx O g <= znxe O g)%Z /\
  (* pad widths of the re-embedding *)
  (0 <= znye O g - znly O g - dly /\ 0 <= znxe O g - znlx O g - dlx)%Z /\
  (* crop *)
  (0 <= zpy O g <= znye O g - zpy O g /\ znye O g - zpy O g <= znye O g /\
   0 <= zpx O g <= znxe O g - zpx O g /\ znxe O g - zpx O g <= znxe O g)%Z.
Proof.
  intros Hg Hx0 Hy0. destruct (geometry_inv O L a g Hg) as (_ & _ & _ & _ & _ & Hnxe & Hnye & _).
  destruct (geometry_modes_le a g Hg) as [Hlx Hly]. cbv zeta.
  destruct (start_bounds (znye O g) (znly O g)) as [A1 A2]; [unfold znye, znly; lia|].
  destruct (start_bounds (znxe O g) (znlx O g)) as [B1 B2]; [unfold znxe, znlx; lia|].
  unfold znye, znxe, znly, znlx, zpy, zpx in *. lia.
Qed.

(* REFINEMENT: for every well-formed request that the solver accepts, the array model returns arrays of the
   shape of the source whose every cell, at every level slot, equals the cell of Solver.solve *)
Theorem array_refines_spec a r :
  wf O a -> solve O a = inl r ->
  exists g pa qa,
    geometry O a = inl g /\ solve_array O a = inl (pa, qa) /\
    (ar_rows O pa = Z.of_nat (g_ny O g) /\ ar_cols O pa = Z.of_nat (g_nx O g) /\
     ar_rows O qa = Z.of_nat (g_ny O g) /\ ar_cols O qa = Z.of_nat (g_nx O g)) /\
    ((0 < a_nlx O a)%nat -> (0 < a_nly O a)%nat ->
     forall k j i, (k < length (a_levels O a))%nat -> (j < g_ny O g)%nat -> (i < g_nx O g)%nat ->
       ar_at O pa (Z.of_nat k) (Z.of_nat j) (Z.of_nat i) = get3 O (r_conc O r) k j i /\
       ar_at O qa (Z.of_nat k) (Z.of_nat j) (Z.of_nat i) = get3 O (r_flx O r) k j i).
Proof.
  intros Hwf Hs. destruct (solve_inv O L a r Hs) as (g & Hg & Hc & Hf & _).
  exists g, (field_arr O a g fst), (field_arr O a g snd).
  split; [exact Hg|]. split; [unfold solve_array; rewrite Hg; reflexivity|].
  destruct (field_arr_shape a g fst Hg) as [S1 S2]. destruct (field_arr_shape a g snd Hg) as [S3 S4].
  split; [repeat split; assumption|].
  intros Hx0 Hy0 k j i Hk Hj Hi.
  destruct (geometry_modes_pos a g Hg Hx0 Hy0) as [Px Py]; [lia|lia|].
  rewrite Hc, Hf, (conc_cell O L) by assumption. rewrite (flx_cell O L) by assumption.
  split; apply field_arr_cell; assumption.
Qed.

(* the error outcomes coincide *)
Theorem array_error_iff a e : solve_array O a = inr e <-> solve O a = inr e.
Proof.
  unfold solve_array, solve. destruct (geometry O a); split; intros H; try discriminate; injection H as ->; reflexivity.
Qed.

(* ------------------------------------------------------------------ transfer of sum-level theorems *)

(* horizontal sum of slot k of an array *)
Definition asum (x : arr) (ny nx k : nat) : C :=
  csum O (map (fun j => csum O (map (fun i => ar_at O x (Z.of_nat k) (Z.of_nat j) (Z.of_nat i)) (seq 0 nx))) (seq 0 ny)).

Lemma asum_flx a g k : wf O a -> geometry O a = inl g -> (0 < g_nlx O g)%nat -> (0 < g_nly O g)%nat ->
  (k < length (a_levels O a))%nat ->
  asum (field_arr O a g snd) (g_ny O g) (g_nx O g) k = hsum O (field O a g snd (table O a g)) (g_ny O g) (g_nx O g) k.
Proof.
  intros Hwf Hg Hx Hy Hk. unfold asum, hsum.
  apply (csum_map_ext O L). intros j Hj. apply in_seq in Hj.
  apply (csum_map_ext O L). intros i Hi. apply in_seq in Hi.
  rewrite (flx_cell O L) by (assumption || lia). apply field_arr_cell; assumption.
Qed.

Lemma asum_conc a g k : wf O a -> geometry O a = inl g -> (0 < g_nlx O g)%nat -> (0 < g_nly O g)%nat ->
  (k < length (a_levels O a))%nat ->
  asum (field_arr O a g fst) (g_ny O g) (g_nx O g) k = hsum O (field O a g fst (table O a g)) (g_ny O g) (g_nx O g) k.
Proof.
  intros Hwf Hg Hx Hy Hk. unfold asum, hsum.
  apply (csum_map_ext O L). intros j Hj. apply in_seq in Hj.
  apply (csum_map_ext O L). intros i Hi. apply in_seq in Hi.
  rewrite (conc_cell O L) by (assumption || lia). apply field_arr_cell; assumption.
Qed.

(* C03 on the array model: flux conservation level by level, unit footprint mass *)
Theorem array_flux_sum (a : args) (g : geom) k :
  wf O a -> geometry O a = inl g -> a_single O a = false ->
  g_px O g = 0%nat -> g_py O g = 0%nat -> g_nx O g <> 0%nat -> g_ny O g <> 0%nat ->
  (0 < g_nlx O g)%nat -> (0 < g_nly O g)%nat -> (k < length (a_levels O a))%nat ->
  asum (field_arr O a g snd) (g_ny O g) (g_nx O g) k
  = cre O (ofN (g_ny O g) * ofN (g_nx O g) * q0_hat O a g 0%nat 0%nat).
Proof.
  intros Hwf Hg Hd Hpx Hpy Hnx Hny Hlx Hly Hk.
  rewrite asum_flx by assumption. apply (flux_sum O L); assumption.
Qed.

Theorem array_conc_sum (a : args) (g : geom) k :
  wf O a -> geometry O a = inl g -> a_single O a = false ->
  g_px O g = 0%nat -> g_py O g = 0%nat -> g_nx O g <> 0%nat -> g_ny O g <> 0%nat ->
  (0 < g_nlx O g)%nat -> (0 < g_nly O g)%nat -> (k < length (a_levels O a))%nat ->
  asum (field_arr O a g fst) (g_ny O g) (g_nx O g) k
  = cre O (ofN (g_ny O g) * ofN (g_nx O g)
           * (a_p000 O a - q0_hat O a g 0%nat 0%nat * resist O a g (nth k (a_levels O a) 0%nat))).
Proof.
  intros Hwf Hg Hd Hpx Hpy Hnx Hny Hlx Hly Hk.
  rewrite asum_conc by assumption. apply (conc_sum O L); assumption.
Qed.

Theorem array_footprint_mass (a : args) (g : geom) k :
  wf O a -> geometry O a = inl g -> a_single O a = false -> a_footprint O a = true ->
  g_px O g = 0%nat -> g_py O g = 0%nat -> g_nx O g <> 0%nat -> g_ny O g <> 0%nat ->
  (0 < g_nlx O g)%nat -> (0 < g_nly O g)%nat -> (k < length (a_levels O a))%nat ->
  asum (field_arr O a g snd) (g_ny O g) (g_nx O g) k = 1.
Proof.
  intros Hwf Hg Hd Hfp Hpx Hpy Hnx Hny Hlx Hly Hk.
  rewrite asum_flx by assumption. apply (footprint_mass O L); assumption.
Qed.

(* ------------------------------------------------------------------ non-vacuity *)

(* a 2 x 3 source (odd nx), two nodes, modes (2, 2), halo 0, dispersion mode, one level *)
Definition ex_args : args :=
  mkArgs O [[1; 0; 1]; [0; 1; 1]] [0; 1]
         (mkProf O [1; 1] [0; 0] [1; 1] [1; 1] [1; 1])
         1 1 [1%nat] 2 2 0 0 0 false false (Some 0) false.

Lemma ex_args_accepted :
  wf O ex_args /\ (0 < a_nlx O ex_args)%nat /\ (0 < a_nly O ex_args)%nat /\
  exists r, solve O ex_args = inl r.
Proof.
  split.
  { constructor; try reflexivity. intros row [<-|[<-|[]]]; reflexivity. }
  split; [cbn; lia|]. split; [cbn; lia|].
  unfold solve, geometry.
  cbn [ex_args a_nlx a_nly a_q0 a_z a_xmx a_ymx a_halo a_levels Nat.odd negb Nat.even orb length hd].
  replace (0 / (1 / ofN 3)) with 0 by (rewrite !(Fdiv_def (L_field O L)); ring).
  replace (0 / (1 / ofN 2)) with 0 by (rewrite !(Fdiv_def (L_field O L)); ring).
  rewrite (L_trunc_0 O L). cbn. eexists. reflexivity.
Qed.

(* ------------------------------------------------------------------ transfer of C11_lowpass *)

Lemma wf_with_modes a nlx nly : wf O a -> wf O (with_modes O a nlx nly).
Proof. intros [H1 H2 H3 H4 H5 H6]. constructor; assumption. Qed.

(* low-pass on the arrays: an entry of the shifted truncated spectra tfftp / tfftq (what is padded and transformed
   back) that is retained under two mode counts is the same number under both *)
Theorem array_lowpass (a : args) (g : geom) nlx' nly' sel k tx ty tx' ty' :
  wf O a -> geometry O a = inl g ->
  geometry O (with_modes O a nlx' nly') = inl (geom_modes O g nlx' nly') ->
  (tx < g_nlx O g)%nat -> (ty < g_nly O g)%nat -> (tx' < nlx')%nat -> (ty' < nly')%nat ->
  fftfreq (g_nlx O g) tx = fftfreq nlx' tx' -> fftfreq (g_nly O g) ty = fftfreq nly' ty' ->
  ar_at O (apply_shift O a g (spec_arr O a g sel)) (Z.of_nat k) (Z.of_nat ty) (Z.of_nat tx)
  = ar_at O (apply_shift O (with_modes O a nlx' nly') (geom_modes O g nlx' nly')
                         (spec_arr O (with_modes O a nlx' nly') (geom_modes O g nlx' nly') sel))
          (Z.of_nat k) (Z.of_nat ty') (Z.of_nat tx').
Proof.
  intros Hwf Hg Hg' Hx Hy Hx' Hy' Ex Ey.
  rewrite (shifted_at a g) by assumption.
  rewrite (shifted_at (with_modes O a nlx' nly') (geom_modes O g nlx' nly'))
    by (try assumption; apply wf_with_modes; assumption).
  destruct (lowpass O L a g nlx' nly' tx ty tx' ty' Hx Hy Hx' Hy' Ex Ey) as [Hs Hsh].
  rewrite Hs, Hsh. reflexivity.
Qed.

End ArrayRefine.

(* ------------------------------------------------------------------ congruence of the array operations
   (used by Bridge/PlumbingBridge.v to compare a generated description with the model's pipeline operation by
   operation, index expressions by lia, without asking the kernel to convert two large terms) *)
Section Congr.
Variable O : Ops.
Lemma a_slice_congr a b c d (x : arr O) a' b' c' d' x' : a = a' -> b = b' -> c = c' -> d = d' -> x = x' ->
  a_slice O a b c d x = a_slice O a' b' c' d' x'.
Proof. intros; subst; reflexivity. Qed.
Lemma a_pad_congr a b c d (x : arr O) a' b' c' d' x' : a = a' -> b = b' -> c = c' -> d = d' -> x = x' ->
  a_pad O a b c d x = a_pad O a' b' c' d' x'.
Proof. intros; subst; reflexivity. Qed.
Lemma a_real_congr (x x' : arr O) : x = x' -> a_real O x = a_real O x'.
Proof. intros; subst; reflexivity. Qed.
Lemma a_fft2_congr i n (x x' : arr O) : x = x' -> a_fft2 O i n x = a_fft2 O i n x'.
Proof. intros; subst; reflexivity. Qed.
Lemma a_shift_congr i (x x' : arr O) : x = x' -> a_shift O i x = a_shift O i x'.
Proof. intros; subst; reflexivity. Qed.
Lemma a_mul_congr s (x x' : arr O) : x = x' -> a_mul O x s = a_mul O x' s.
Proof. intros; subst; reflexivity. Qed.
Lemma mkArr_congr r a b (f : Z -> Z -> Z -> C O) a' b' : a = a' -> b = b' -> mkArr O r a b f = mkArr O r a' b' f.
Proof. intros; subst; reflexivity. Qed.
End Congr.
