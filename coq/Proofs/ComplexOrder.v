(* Third-order accuracy of the cubic Taylor layer step for COMPLEX eigenvalues (wind present).

   Proofs/RealOrder.v treats a real eigenvalue lam >= 0 (no wind).  With wind the eigenvalue of
   the top condition is complex, with Re lam >= 0 (Base/ROpsFacts.v, ROps_eigval_decays).  This
   file proves, over Coquelicot's complex numbers (the instance ROps of the operation record):

     |exp z - E3 z| <= |z|^4 / 24                        for Re z <= 0          (CE3_remainder)
     |prod E3 z_j - exp (sum z_j)| <= exp S * S,  S = sum |z_j|^4/24            (Cprod_third_order)
     |qh prodE3 lam dzs k - qh exp(-lam h_k)| <= |qh| exp B * B,
            B = |lam|^4/24 * h_k * dmax^3                                        (numeric_minus_analytic_complex)

   and ties the last one to the numerical mode solution of the model (shoot_traj) through the
   closed form of Proofs/C05Proofs.v.  Nothing is postulated. *)
From Coq Require Import ZArith Reals List Lra Lia Field Ring.
From Coquelicot Require Import Coquelicot.
From BL Require Import Base.Ops Base.Laws Base.ROps Base.ROpsFacts Model.Solver
  Proofs.StepProofs Proofs.ModeProofs Proofs.C05Proofs.
Import ListNotations.
Local Open Scope R_scope.

(* ------------------------------------------------------------------------------------------ *)
(* 1. the real function  t |-> Re (w * exp (t z))  and its derivatives                          *)

(* z = (x, y), w = (p, q):  Re ((p + i q) e^{t (x + i y)}) *)
Definition Gz (z w : CC) (t : R) : R :=
  exp (fst z * t) * (fst w * cos (snd z * t) - snd w * sin (snd z * t)).

Lemma Gz_derive (z w : CC) (t : R) : is_derive (Gz z w) t (Gz z (Cmult z w) t).
Proof.
  destruct z as [x y]. destruct w as [p q]. unfold Gz, Cmult. cbn [fst snd].
  auto_derive; [exact I|]. ring.
Qed.

(* w, z w, z (z w), ... *)
Fixpoint zmul (z : CC) (n : nat) (w : CC) : CC :=
  match n with O => w | S m => Cmult z (zmul z m w) end.

Lemma Gz_Derive_n (z w : CC) (n : nat) : forall t, Derive_n (Gz z w) n t = Gz z (zmul z n w) t.
Proof.
  induction n as [|n IH]; intros t; [reflexivity|].
  cbn [Derive_n zmul].
  rewrite (Derive_ext _ _ t IH).
  apply is_derive_unique. apply Gz_derive.
Qed.

Lemma Gz_ex_derive_n (z w : CC) (n : nat) (t : R) : ex_derive_n (Gz z w) n t.
Proof.
  destruct n as [|n]; [exact I|]. cbn [ex_derive_n].
  exists (Gz z (zmul z (S n) w) t).
  apply (is_derive_ext (Gz z (zmul z n w))).
  - intros s. symmetry. apply Gz_Derive_n.
  - cbn [zmul]. apply Gz_derive.
Qed.

Lemma Cmod_zmul (z w : CC) (n : nat) : Cmod (zmul z n w) = Cmod z ^ n * Cmod w.
Proof.
  induction n as [|n IH]; cbn [zmul pow]; [ring|].
  rewrite Cmod_mult, IH. ring.
Qed.

(* Cauchy-Schwarz for a rotation *)
Lemma rot_bound (p q c s : R) : c * c + s * s = 1 -> Rabs (p * c - q * s) <= sqrt (p ^ 2 + q ^ 2).
Proof.
  intros Hcs.
  rewrite <- sqrt_Rsqr_abs. apply sqrt_le_1_alt. unfold Rsqr.
  assert (E : (p * c - q * s) * (p * c - q * s) + (p * s + q * c) * (p * s + q * c)
              = (p ^ 2 + q ^ 2) * (c * c + s * s)) by ring.
  rewrite Hcs in E.
  pose proof (Rle_0_sqr (p * s + q * c)) as Hsq. unfold Rsqr in Hsq. lra.
Qed.

Lemma Gz_bound (z w : CC) (t : R) : fst z <= 0 -> 0 <= t -> Rabs (Gz z w t) <= Cmod w.
Proof.
  intros Hx Ht. unfold Gz. rewrite Rabs_mult.
  assert (He : 0 < exp (fst z * t) <= 1).
  { split; [apply exp_pos|]. rewrite <- exp_0.
    destruct (Req_dec (fst z * t) 0) as [->|Hne]; [lra|].
    left. apply exp_increasing. nra. }
  rewrite (Rabs_pos_eq (exp (fst z * t))) by lra.
  assert (Hr : Rabs (fst w * cos (snd z * t) - snd w * sin (snd z * t)) <= Cmod w).
  { unfold Cmod. apply rot_bound.
    pose proof (sin2_cos2 (snd z * t)) as H. unfold Rsqr in H. lra. }
  pose proof (Rabs_pos (fst w * cos (snd z * t) - snd w * sin (snd z * t))) as Hp.
  nra.
Qed.

(* ------------------------------------------------------------------------------------------ *)
(* 2. the cubic Taylor polynomial in C and its remainder                                         *)

Definition CE3 (z : CC) : CC :=
  (RtoC 1 + z + z * z / RtoC 2 + z * z * z / RtoC 6)%C.

Lemma Gz_0 (z w : CC) : Gz z w 0 = fst w.
Proof. unfold Gz. rewrite !Rmult_0_r, exp_0, cos_0, sin_0. ring. Qed.

Lemma Gz_1 (z w : CC) : Gz z w 1 = fst (Cmult w (Cexp z)).
Proof. unfold Gz, Cexp, Cmult. cbn [fst snd]. rewrite !Rmult_1_r. ring. Qed.

Lemma CE3_re (z w : CC) :
  fst (Cmult w (CE3 z))
  = fst w + fst (Cmult z w) + fst (Cmult z (Cmult z w)) / 2 + fst (Cmult z (Cmult z (Cmult z w))) / 6.
Proof.
  destruct z as [x y]. destruct w as [p q].
  unfold CE3, Cdiv, Cinv, Cmult, Cplus, RtoC. cbn [fst snd]. field.
Qed.

(* the real part of w (exp z - E3 z) is a fourth derivative at an interior point *)
Lemma CE3_remainder_dir (z w : CC) : fst z <= 0 ->
  Rabs (fst (Cmult w (Cminus (Cexp z) (CE3 z)))) <= Cmod z ^ 4 / 24 * Cmod w.
Proof.
  intros Hx.
  destruct (Taylor_Lagrange (Gz z w) 3 0 1 Rlt_0_1) as [zeta [Hz Ht]].
  { intros t _ k _. apply Gz_ex_derive_n. }
  rewrite !Gz_Derive_n in Ht.
  cbn [sum_f_R0] in Ht. rewrite !Gz_Derive_n, !Gz_0, Gz_1 in Ht. cbn [zmul] in Ht.
  replace (fst (Cmult w (Cminus (Cexp z) (CE3 z))))
    with (fst (Cmult w (Cexp z)) - fst (Cmult w (CE3 z))).
  2:{ unfold Cminus, Cplus, Copp, Cmult. cbn [fst snd]. ring. }
  rewrite CE3_re, Ht.
  pose proof (Gz_bound z (Cmult z (Cmult z (Cmult z (Cmult z w)))) zeta Hx ltac:(lra)) as Hb.
  change (Cmult z (Cmult z (Cmult z (Cmult z w)))) with (zmul z 4 w) in Hb.
  rewrite Cmod_zmul in Hb.
  change (Cmult z (Cmult z (Cmult z (Cmult z w)))) with (zmul z 4 w).
  set (g := Gz z (zmul z 4 w) zeta) in *.
  cbn [fact INR].
  replace (_ - _) with (g / 24).
  2:{ simpl. field. }
  unfold Rdiv. rewrite Rabs_mult, (Rabs_pos_eq (/ 24)) by lra. lra.
Qed.

Lemma Cmod_conj (d : CC) : Cmod (Cconj d) = Cmod d.
Proof. unfold Cmod, Cconj. cbn [fst snd]. f_equal. ring. Qed.

Lemma Cconj_mult_re (d : CC) : fst (Cmult (Cconj d) d) = Cmod d * Cmod d.
Proof.
  unfold Cmod. rewrite sqrt_sqrt.
  - unfold Cconj, Cmult. cbn [fst snd]. ring.
  - pose proof (pow2_ge_0 (fst d)). pose proof (pow2_ge_0 (snd d)). lra.
Qed.

(* sharp constant: take w = conj (exp z - E3 z) *)
Theorem CE3_remainder (z : CC) : fst z <= 0 ->
  Cmod (Cminus (Cexp z) (CE3 z)) <= Cmod z ^ 4 / 24.
Proof.
  intros Hx. set (d := Cminus (Cexp z) (CE3 z)).
  pose proof (CE3_remainder_dir z (Cconj d) Hx) as H. fold d in H.
  rewrite Cconj_mult_re, Cmod_conj in H.
  pose proof (Cmod_ge_0 d) as Hd.
  rewrite Rabs_pos_eq in H by (apply Rmult_le_pos; exact Hd).
  destruct (Req_dec (Cmod d) 0) as [E|Hne].
  - rewrite E. apply Rmult_le_pos; [apply pow_le; apply Cmod_ge_0|lra].
  - apply Rmult_le_reg_r with (Cmod d); lra.
Qed.

(* ------------------------------------------------------------------------------------------ *)
(* 3. products of steps versus the exponential of the sum                                        *)

Definition Csum (zs : list CC) : CC := fold_right Cplus (RtoC 0) zs.
Definition Cprod (f : CC -> CC) (zs : list CC) : CC :=
  fold_right (fun z acc => Cmult (f z) acc) (RtoC 1) zs.
Definition Rsum (l : list R) : R := fold_right Rplus 0 l.
(* the accumulated local errors *)
Definition Ssum (zs : list CC) : R := fold_right (fun z acc => Cmod z ^ 4 / 24 + acc) 0 zs.

Lemma Ssum_nonneg (zs : list CC) : 0 <= Ssum zs.
Proof.
  induction zs as [|z zs IH]; cbn [Ssum fold_right]; [lra|]. fold (Ssum zs).
  assert (0 <= Cmod z ^ 4) by (apply pow_le; apply Cmod_ge_0). lra.
Qed.

Lemma Cmod_Cexp (z : CC) : Cmod (Cexp z) = exp (fst z).
Proof.
  unfold Cmod, Cexp. cbn [fst snd].
  replace ((exp (fst z) * cos (snd z)) ^ 2 + (exp (fst z) * sin (snd z)) ^ 2)
    with (Rsqr (exp (fst z)) * (Rsqr (sin (snd z)) + Rsqr (cos (snd z)))) by (unfold Rsqr; ring).
  rewrite sin2_cos2, Rmult_1_r. apply sqrt_Rsqr. left. apply exp_pos.
Qed.

Lemma Cmod_Cexp_le_1 (z : CC) : fst z <= 0 -> Cmod (Cexp z) <= 1.
Proof.
  intros Hx. rewrite Cmod_Cexp, <- exp_0.
  destruct (Req_dec (fst z) 0) as [->|Hne]; [lra|]. left. apply exp_increasing. lra.
Qed.

Lemma Cmod_minus_sym (a b : CC) : Cmod (Cminus a b) = Cmod (Cminus b a).
Proof. rewrite <- Cmod_opp. f_equal. ring. Qed.

Lemma Cmod_CE3_le (z : CC) : fst z <= 0 -> Cmod (CE3 z) <= exp (Cmod z ^ 4 / 24).
Proof.
  intros Hx.
  replace (CE3 z) with (Cplus (Cexp z) (Cminus (CE3 z) (Cexp z))) by ring.
  eapply Rle_trans; [apply Cmod_triangle|].
  rewrite Cmod_minus_sym.
  pose proof (CE3_remainder z Hx) as Hr. pose proof (Cmod_Cexp_le_1 z Hx) as He.
  pose proof (exp_ineq1_le (Cmod z ^ 4 / 24)) as Hi. lra.
Qed.

Lemma Cprod_CE3_bound (zs : list CC) : (forall z, In z zs -> fst z <= 0) ->
  Cmod (Cprod CE3 zs) <= exp (Ssum zs).
Proof.
  induction zs as [|z zs IH]; intros Hall; cbn [Cprod Ssum fold_right].
  - rewrite Cmod_1, exp_0. lra.
  - fold (Cprod CE3 zs). fold (Ssum zs).
    rewrite Cmod_mult, exp_plus.
    apply Rmult_le_compat; try apply Cmod_ge_0.
    + apply Cmod_CE3_le. apply Hall. left. reflexivity.
    + apply IH. intros z' Hin. apply Hall. right. exact Hin.
Qed.

Theorem Cprod_third_order (zs : list CC) : (forall z, In z zs -> fst z <= 0) ->
  Cmod (Cminus (Cprod CE3 zs) (Cexp (Csum zs))) <= exp (Ssum zs) * Ssum zs.
Proof.
  induction zs as [|z zs IH]; intros Hall; cbn [Cprod Csum Ssum fold_right].
  - rewrite Cexp_0. replace (Cminus (RtoC 1) (RtoC 1)) with (RtoC 0) by ring.
    rewrite Cmod_0. lra.
  - fold (Cprod CE3 zs). fold (Csum zs). fold (Ssum zs).
    assert (Hz : fst z <= 0) by (apply Hall; left; reflexivity).
    assert (Hall' : forall z', In z' zs -> fst z' <= 0) by (intros z' Hin; apply Hall; right; exact Hin).
    specialize (IH Hall').
    pose proof (Cprod_CE3_bound zs Hall') as HP.
    pose proof (CE3_remainder z Hz) as Hr. rewrite Cmod_minus_sym in Hr.
    pose proof (Cmod_Cexp_le_1 z Hz) as He.
    pose proof (Ssum_nonneg zs) as HS.
    set (dl := Cmod z ^ 4 / 24) in *.
    assert (Hdl : 0 <= dl) by (unfold dl; assert (0 <= Cmod z ^ 4) by (apply pow_le; apply Cmod_ge_0); lra).
    rewrite Cexp_plus.
    replace (Cminus (Cmult (CE3 z) (Cprod CE3 zs)) (Cmult (Cexp z) (Cexp (Csum zs))))
      with (Cplus (Cmult (Cminus (CE3 z) (Cexp z)) (Cprod CE3 zs))
                  (Cmult (Cexp z) (Cminus (Cprod CE3 zs) (Cexp (Csum zs))))) by ring.
    eapply Rle_trans; [apply Cmod_triangle|]. rewrite !Cmod_mult.
    set (A := Cmod (Cprod CE3 zs)) in *. set (D := Cmod (Cminus (Cprod CE3 zs) (Cexp (Csum zs)))) in *.
    set (a := Cmod (Cminus (CE3 z) (Cexp z))) in *. set (e := Cmod (Cexp z)) in *.
    assert (Ha : 0 <= a) by apply Cmod_ge_0. assert (HA : 0 <= A) by apply Cmod_ge_0.
    assert (HD : 0 <= D) by apply Cmod_ge_0. assert (He0 : 0 <= e) by apply Cmod_ge_0.
    assert (Hmono : exp (Ssum zs) <= exp (dl + Ssum zs)).
    { destruct (Req_dec dl 0) as [->|Hne]; [rewrite Rplus_0_l; lra|]. left. apply exp_increasing. lra. }
    assert (Hpos : 0 < exp (Ssum zs)) by apply exp_pos.
    set (E1 := exp (Ssum zs)) in *. set (E2 := exp (dl + Ssum zs)) in *. set (S1 := Ssum zs) in *.
    apply Rle_trans with (dl * E1 + 1 * (E1 * S1)).
    + apply Rplus_le_compat; apply Rmult_le_compat; lra.
    + nra.
Qed.

(* ------------------------------------------------------------------------------------------ *)
(* 4. layers: z_j = -(lam dz_j), Re lam >= 0, 0 <= dz_j <= dmax                                  *)

Definition zlayer (lam : CC) (d : R) : CC := Copp (Cmult lam (RtoC d)).

Lemma zlayer_re (lam : CC) (d : R) : 0 <= fst lam -> 0 <= d -> fst (zlayer lam d) <= 0.
Proof. intros Hl Hd. unfold zlayer, Copp, Cmult, RtoC. cbn [fst snd]. nra. Qed.

Lemma Cmod_zlayer (lam : CC) (d : R) : 0 <= d -> Cmod (zlayer lam d) = Cmod lam * d.
Proof. intros Hd. unfold zlayer. rewrite Cmod_opp, Cmod_mult, Cmod_R, Rabs_pos_eq by exact Hd. reflexivity. Qed.

Lemma Csum_zlayer (lam : CC) (dzs : list R) :
  Csum (map (zlayer lam) dzs) = zlayer lam (Rsum dzs).
Proof.
  induction dzs as [|d dzs IH]; cbn [map Csum Rsum fold_right].
  - unfold zlayer. ring.
  - fold (Csum (map (zlayer lam) dzs)). fold (Rsum dzs). rewrite IH. unfold zlayer.
    rewrite RtoC_plus. ring.
Qed.

Lemma Rsum_nonneg (dzs : list R) : (forall d, In d dzs -> 0 <= d) -> 0 <= Rsum dzs.
Proof.
  induction dzs as [|d dzs IH]; intros Hall; cbn [Rsum fold_right]; [lra|]. fold (Rsum dzs).
  assert (0 <= d) by (apply Hall; left; reflexivity).
  assert (0 <= Rsum dzs) by (apply IH; intros d' Hin; apply Hall; right; exact Hin). lra.
Qed.

Lemma Ssum_zlayer_le (lam : CC) (dzs : list R) (dmax : R) :
  (forall d, In d dzs -> 0 <= d <= dmax) ->
  Ssum (map (zlayer lam) dzs) <= Cmod lam ^ 4 / 24 * Rsum dzs * dmax ^ 3.
Proof.
  induction dzs as [|d dzs IH]; intros Hall; cbn [map Ssum Rsum fold_right].
  - lra.
  - fold (Ssum (map (zlayer lam) dzs)). fold (Rsum dzs).
    destruct (Hall d (or_introl eq_refl)) as [Hd0 Hdm].
    assert (IH' : Ssum (map (zlayer lam) dzs) <= Cmod lam ^ 4 / 24 * Rsum dzs * dmax ^ 3).
    { apply IH. intros d' Hin. apply Hall. right. exact Hin. }
    rewrite Cmod_zlayer by exact Hd0.
    assert (Hcube : d ^ 3 <= dmax ^ 3) by (apply pow_incr; split; assumption).
    assert (Hl4 : 0 <= Cmod lam ^ 4 / 24 * d).
    { apply Rmult_le_pos; [|exact Hd0].
      assert (0 <= Cmod lam ^ 4) by (apply pow_le; apply Cmod_ge_0). lra. }
    assert (Hterm : (Cmod lam * d) ^ 4 / 24 <= Cmod lam ^ 4 / 24 * d * dmax ^ 3).
    { replace ((Cmod lam * d) ^ 4 / 24) with (Cmod lam ^ 4 / 24 * d * d ^ 3) by field.
      apply Rmult_le_compat_l; assumption. }
    replace (Cmod lam ^ 4 / 24 * (d + Rsum dzs) * dmax ^ 3)
      with (Cmod lam ^ 4 / 24 * d * dmax ^ 3 + Cmod lam ^ 4 / 24 * Rsum dzs * dmax ^ 3) by ring.
    lra.
Qed.

Lemma exp_mul_mono (s b : R) : 0 <= s <= b -> exp s * s <= exp b * b.
Proof.
  intros [Hs Hb].
  assert (He : exp s <= exp b).
  { destruct (Req_dec s b) as [->|Hne]; [lra|]. left. apply exp_increasing. lra. }
  pose proof (exp_pos s) as Hp. apply Rmult_le_compat; lra.
Qed.

Theorem layers_third_order (lam : CC) (dzs : list R) (dmax : R) :
  0 <= fst lam -> (forall d, In d dzs -> 0 <= d <= dmax) ->
  let B := Cmod lam ^ 4 / 24 * Rsum dzs * dmax ^ 3 in
  Cmod (Cminus (Cprod CE3 (map (zlayer lam) dzs)) (Cexp (zlayer lam (Rsum dzs)))) <= exp B * B.
Proof.
  intros Hl Hall B.
  rewrite <- Csum_zlayer.
  eapply Rle_trans.
  - apply Cprod_third_order. intros z Hin. apply in_map_iff in Hin. destruct Hin as [d [<- Hd]].
    apply zlayer_re; [exact Hl|]. apply (Hall d Hd).
  - apply exp_mul_mono. split; [apply Ssum_nonneg|]. apply Ssum_zlayer_le. exact Hall.
Qed.

(* ------------------------------------------------------------------------------------------ *)
(* 5. the model's E3 / prodE3 at the instance ROps                                               *)

Lemma E3_ROps (x : CC) : E3 ROps x = CE3 x.
Proof.
  unfold E3, half, sixth, cofQ, CE3. cbn [ROps cadd cmul cdiv cofZ c1].
  destruct x as [a b].
  unfold Cdiv, Cinv, Cmult, Cplus, RtoC. cbn [fst snd]. f_equal; field.
Qed.

Lemma prodE3_ROps (lam : CC) (dzs : list R) : forall k,
  prodE3 ROps lam (map RtoC dzs) k = Cprod CE3 (map (zlayer lam) (firstn k dzs)).
Proof.
  induction dzs as [|d dzs IH]; intros k.
  - destruct k; reflexivity.
  - destruct k as [|k]; [reflexivity|].
    cbn [map prodE3 firstn Cprod fold_right]. rewrite IH, E3_ROps. reflexivity.
Qed.

Lemma firstn_In_R (k : nat) (l : list R) (d : R) : In d (firstn k l) -> In d l.
Proof.
  revert k. induction l as [|a l IH]; intros k Hin.
  - destruct k; exact Hin.
  - destruct k as [|k]; [contradiction|]. cbn [firstn] in Hin. destruct Hin as [->|Hin].
    + left. reflexivity.
    + right. apply (IH k). exact Hin.
Qed.

(* height of node k *)
Definition height (dzs : list R) (k : nat) : R := Rsum (firstn k dzs).

(* MAIN: flux mode Q_k of the numerical closed form versus the analytic branch, complex eigenvalue *)
Theorem numeric_minus_analytic_complex (Kx Ky u v Kz lx ly qh : CC) (dzs : list R) (dmax : R) (k : nat) :
  (forall d, In d dzs -> 0 <= d <= dmax) ->
  let lam := eigval ROps Kx Ky u v Kz lx ly in
  let B := Cmod lam ^ 4 / 24 * height dzs k * dmax ^ 3 in
  Cmod (Cminus (Cmult qh (prodE3 ROps lam (map RtoC dzs) k))
               (Cmult qh (Cexp (Copp (Cmult lam (RtoC (height dzs k)))))))
  <= Cmod qh * (exp B * B).
Proof.
  intros Hall lam B.
  assert (Hl : 0 <= fst lam) by apply ROps_eigval_decays.
  rewrite prodE3_ROps.
  replace (Cminus (Cmult qh (Cprod CE3 (map (zlayer lam) (firstn k dzs))))
                  (Cmult qh (Cexp (Copp (Cmult lam (RtoC (height dzs k)))))))
    with (Cmult qh (Cminus (Cprod CE3 (map (zlayer lam) (firstn k dzs)))
                           (Cexp (zlayer lam (Rsum (firstn k dzs)))))) by (unfold zlayer, height; ring).
  rewrite Cmod_mult. apply Rmult_le_compat_l; [apply Cmod_ge_0|].
  apply (layers_third_order lam (firstn k dzs) dmax Hl).
  intros d Hin. apply Hall. apply (firstn_In_R k). exact Hin.
Qed.

(* the weaker form with the constant sqrt 2 (what a componentwise Taylor estimate would give) *)
Corollary numeric_minus_analytic_complex_sqrt2 (Kx Ky u v Kz lx ly qh : CC) (dzs : list R) (dmax : R) (k : nat) :
  (forall d, In d dzs -> 0 <= d <= dmax) ->
  let lam := eigval ROps Kx Ky u v Kz lx ly in
  let B := sqrt 2 * Cmod lam ^ 4 / 24 * height dzs k * dmax ^ 3 in
  Cmod (Cminus (Cmult qh (prodE3 ROps lam (map RtoC dzs) k))
               (Cmult qh (Cexp (Copp (Cmult lam (RtoC (height dzs k)))))))
  <= Cmod qh * (exp B * B).
Proof.
  intros Hall lam B.
  eapply Rle_trans; [apply (numeric_minus_analytic_complex Kx Ky u v Kz lx ly qh dzs dmax k Hall)|].
  fold lam. apply Rmult_le_compat_l; [apply Cmod_ge_0|]. apply exp_mul_mono.
  assert (Hh : 0 <= height dzs k).
  { apply Rsum_nonneg. intros d Hin. apply (Hall d). apply (firstn_In_R k). exact Hin. }
  assert (Hl : 0 <= Cmod lam ^ 4) by (apply pow_le; apply Cmod_ge_0).
  assert (Hs : 1 <= sqrt 2).
  { rewrite <- sqrt_1 at 1. apply sqrt_le_1_alt. lra. }
  set (X := Cmod lam ^ 4 / 24 * height dzs k * dmax ^ 3).
  assert (HX : 0 <= X).
  { destruct dzs as [|d0 dzs'].
    - unfold X, height. destruct k; cbn [firstn Rsum fold_right]; lra.
    - assert (Hdm : 0 <= dmax ^ 3).
      { apply pow_le. destruct (Hall d0 (or_introl eq_refl)). lra. }
      unfold X. apply Rmult_le_pos; [apply Rmult_le_pos; [lra|exact Hh]|exact Hdm]. }
  split; [exact HX|]. unfold B. replace (sqrt 2 * Cmod lam ^ 4 / 24 * height dzs k * dmax ^ 3) with (sqrt 2 * X) by (unfold X; field).
  nra.
Qed.

(* the same for the concentration mode P_k = Q_k / (Kz lam) *)
Corollary numeric_minus_analytic_complex_P (Kx Ky u v Kz lx ly qh : CC) (dzs : list R) (dmax : R) (k : nat) :
  (forall d, In d dzs -> 0 <= d <= dmax) ->
  let lam := eigval ROps Kx Ky u v Kz lx ly in
  Cmult Kz lam <> RtoC 0 ->
  let B := Cmod lam ^ 4 / 24 * height dzs k * dmax ^ 3 in
  Cmod (Cminus (Cdiv (Cmult qh (prodE3 ROps lam (map RtoC dzs) k)) (Cmult Kz lam))
               (Cdiv (Cmult qh (Cexp (Copp (Cmult lam (RtoC (height dzs k)))))) (Cmult Kz lam)))
  <= Cmod qh * (exp B * B) / Cmod (Cmult Kz lam).
Proof.
  intros Hall lam Hnz B.
  pose proof (numeric_minus_analytic_complex Kx Ky u v Kz lx ly qh dzs dmax k Hall) as H.
  cbv zeta in H. fold lam in H. fold B in H.
  set (Qn := Cmult qh (prodE3 ROps lam (map RtoC dzs) k)) in *.
  set (Qa := Cmult qh (Cexp (Copp (Cmult lam (RtoC (height dzs k)))))) in *.
  set (D := Cmult Kz lam) in *.
  replace (Cminus (Cdiv Qn D) (Cdiv Qa D)) with (Cdiv (Cminus Qn Qa) D) by (field; exact Hnz).
  rewrite Cmod_div by exact Hnz.
  assert (Hpos : 0 < Cmod D) by (apply Cmod_gt_0; exact Hnz).
  unfold Rdiv. apply Rmult_le_compat_r; [left; apply Rinv_0_lt_compat; exact Hpos|exact H].
Qed.

(* the statement about the model itself: the numerical mode solution computed by shooting
   (Proofs/C05Proofs.v, numeric_closed_form) against the expressions of the analytic branch of
   mode_levels_q,  Q = qh * exp(-eig * h),  P = Q * (1/Kz) / eig *)
Theorem shoot_minus_analytic_complex (Kx Ky u v Kz lx ly qh : CC) (dzs : list R) (dmax : R) :
  (forall d, In d dzs -> 0 <= d <= dmax) ->
  let lam := eigval ROps Kx Ky u v Kz lx ly in
  let layers := const_layers ROps Kx Ky u v Kz (map RtoC dzs) in
  let y1 := final ROps lx ly layers (RtoC 1, RtoC 0) in
  let y2 := final ROps lx ly layers (RtoC 0, qh) in
  Kz <> RtoC 0 -> lam <> RtoC 0 ->
  Cminus (snd y1) (Cmult (Cmult Kz lam) (fst y1)) <> RtoC 0 ->
  let al := alpha ROps Kz lam (fst y1) (snd y1) (fst y2) (snd y2) in
  forall k, (k <= length dzs)%nat ->
  let h := height dzs k in
  let Qa := Cmult qh (Cexp (Cmult (Copp lam) (RtoC h))) in
  let Pa := Cdiv (Cmult Qa (Cdiv (RtoC 1) Kz)) lam in
  let B := Cmod lam ^ 4 / 24 * h * dmax ^ 3 in
  Cmod (Cminus (snd (shoot_traj ROps lx ly layers al qh k)) Qa) <= Cmod qh * (exp B * B) /\
  Cmod (Cminus (fst (shoot_traj ROps lx ly layers al qh k)) Pa)
    <= Cmod qh * (exp B * B) / Cmod (Cmult Kz lam).
Proof.
  intros Hall lam layers y1 y2 HK Hlam Hden al k Hk h Qa Pa B.
  destruct (numeric_closed_form ROps ROps_laws Kx Ky u v Kz lx ly (map RtoC dzs) qh HK Hlam Hden)
    as [_ Hcf].
  assert (Hk' : (k <= length (map RtoC dzs))%nat) by (rewrite map_length; exact Hk).
  assert (Hcf' : shoot_traj ROps lx ly layers al qh k
                 = (Cdiv (Cmult qh (prodE3 ROps lam (map RtoC dzs) k)) (Cmult Kz lam),
                    Cmult qh (prodE3 ROps lam (map RtoC dzs) k))) by exact (Hcf k Hk').
  rewrite Hcf'. cbn [fst snd].
  assert (HKl : Cmult Kz lam <> RtoC 0) by (apply Cmult_neq_0; assumption).
  assert (EQ : Qa = Cmult qh (Cexp (Copp (Cmult lam (RtoC (height dzs k)))))).
  { unfold Qa, h. f_equal. f_equal. ring. }
  assert (EP : Pa = Cdiv Qa (Cmult Kz lam)).
  { unfold Pa. field. split; assumption. }
  rewrite EP, EQ. split.
  - apply (numeric_minus_analytic_complex Kx Ky u v Kz lx ly qh dzs dmax k Hall).
  - apply (numeric_minus_analytic_complex_P Kx Ky u v Kz lx ly qh dzs dmax k Hall HKl).
Qed.

(* ------------------------------------------------------------------------------------------ *)
(* 6. uniform grid dz = H/n: explicit O(n^-3) bound and convergence                              *)

Lemma Rsum_repeat (d : R) (n : nat) : Rsum (repeat d n) = INR n * d.
Proof.
  induction n as [|n IH]; [cbn; ring|].
  rewrite S_INR. cbn [repeat Rsum fold_right]. fold (Rsum (repeat d n)). rewrite IH. ring.
Qed.

Lemma height_repeat (d : R) (n : nat) : height (repeat d n) n = INR n * d.
Proof.
  unfold height.
  replace (firstn n (repeat d n)) with (repeat d n).
  - apply Rsum_repeat.
  - symmetry. rewrite <- (repeat_length d n) at 1. apply firstn_all.
Qed.

Theorem uniform_grid_third_order_complex (Kx Ky u v Kz lx ly qh : CC) (H : R) (n : nat) :
  0 <= H -> (1 <= n)%nat ->
  let lam := eigval ROps Kx Ky u v Kz lx ly in
  let dzs := repeat (H / INR n) n in
  let B1 := Cmod lam ^ 4 * H ^ 4 / 24 in
  Cmod (Cminus (Cmult qh (prodE3 ROps lam (map RtoC dzs) n))
               (Cmult qh (Cexp (Copp (Cmult lam (RtoC H))))))
  <= Cmod qh * (exp B1 * B1) / INR n ^ 3.
Proof.
  intros HH Hn lam dzs B1.
  assert (HnR : 1 <= INR n) by (change 1 with (INR 1); apply le_INR; exact Hn).
  assert (Hn0 : INR n <> 0) by lra.
  assert (Hd : 0 <= H / INR n) by (apply Rmult_le_pos; [exact HH|left; apply Rinv_0_lt_compat; lra]).
  assert (Hh : height dzs n = H).
  { unfold dzs. rewrite height_repeat. field. exact Hn0. }
  pose proof (numeric_minus_analytic_complex Kx Ky u v Kz lx ly qh dzs (H / INR n) n) as M.
  cbv zeta in M. fold lam in M. rewrite Hh in M.
  eapply Rle_trans.
  - apply M. intros d Hin. unfold dzs in Hin. apply repeat_spec in Hin. subst d. lra.
  - assert (Hn3 : 1 <= INR n ^ 3).
    { replace 1 with (1 ^ 3) by ring. apply pow_incr. lra. }
    assert (HB1 : 0 <= B1).
    { unfold B1. assert (0 <= Cmod lam ^ 4) by (apply pow_le; apply Cmod_ge_0).
      assert (0 <= H ^ 4) by (apply pow_le; exact HH). nra. }
    assert (EB : Cmod lam ^ 4 / 24 * H * (H / INR n) ^ 3 = B1 / INR n ^ 3).
    { unfold B1. field. exact Hn0. }
    rewrite EB.
    assert (Hinv : 0 < / INR n ^ 3 <= 1).
    { split; [apply Rinv_0_lt_compat; lra|]. rewrite <- Rinv_1. apply Rinv_le_contravar; lra. }
    assert (Hle : B1 / INR n ^ 3 <= B1) by (unfold Rdiv; nra).
    assert (Hge : 0 <= B1 / INR n ^ 3) by (unfold Rdiv; nra).
    assert (He : exp (B1 / INR n ^ 3) <= exp B1).
    { destruct (Req_dec (B1 / INR n ^ 3) B1) as [->|Hne]; [lra|]. left. apply exp_increasing. lra. }
    pose proof (exp_pos (B1 / INR n ^ 3)) as Hp.
    pose proof (Cmod_ge_0 qh) as Hq.
    replace (Cmod qh * (exp B1 * B1) / INR n ^ 3) with (Cmod qh * (exp B1 * (B1 / INR n ^ 3))) by (field; exact Hn0).
    apply Rmult_le_compat_l; [exact Hq|]. apply Rmult_le_compat_r; assumption.
Qed.

(* halving the step divides the bound by 8 *)
Lemma uniform_bound_ratio (c : R) (n : nat) : (1 <= n)%nat ->
  c / INR n ^ 3 = 8 * (c / INR (2 * n) ^ 3).
Proof.
  intros Hn. assert (Hn0 : INR n <> 0) by (apply not_0_INR; lia).
  rewrite mult_INR. simpl INR. field. exact Hn0.
Qed.

(* convergence of the numerical flux mode at the top of a uniform grid to the analytic one *)
Theorem uniform_grid_converges_complex (Kx Ky u v Kz lx ly qh : CC) (H : R) :
  0 <= H ->
  let lam := eigval ROps Kx Ky u v Kz lx ly in
  is_lim_seq (fun n => Cmod (Cminus (Cmult qh (prodE3 ROps lam (map RtoC (repeat (H / INR (S n)) (S n))) (S n)))
                                    (Cmult qh (Cexp (Copp (Cmult lam (RtoC H))))))) 0.
Proof.
  intros HH lam.
  set (c := Cmod qh * (exp (Cmod lam ^ 4 * H ^ 4 / 24) * (Cmod lam ^ 4 * H ^ 4 / 24))).
  assert (Hc : 0 <= c).
  { unfold c. apply Rmult_le_pos; [apply Cmod_ge_0|]. apply Rmult_le_pos; [left; apply exp_pos|].
    assert (0 <= Cmod lam ^ 4) by (apply pow_le; apply Cmod_ge_0).
    assert (0 <= H ^ 4) by (apply pow_le; exact HH). nra. }
  apply (is_lim_seq_le_le (fun _ => 0) _ (fun n => c * / INR (S n))).
  - intros n. split; [apply Cmod_ge_0|].
    eapply Rle_trans.
    + apply (uniform_grid_third_order_complex Kx Ky u v Kz lx ly qh H (S n) HH). lia.
    + fold lam. fold c. unfold Rdiv. apply Rmult_le_compat_l; [exact Hc|].
      assert (HnR : 1 <= INR (S n)) by (change 1 with (INR 1); apply le_INR; lia).
      apply Rinv_le_contravar; [lra|]. nra.
  - apply is_lim_seq_const.
  - replace (Finite 0) with (Rbar_mult c (Rbar_inv p_infty)) by (cbn; f_equal; ring).
    apply is_lim_seq_scal_l.
    apply is_lim_seq_inv; [|discriminate].
    apply -> is_lim_seq_incr_1. apply is_lim_seq_INR.
Qed.

(* ------------------------------------------------------------------------------------------ *)
Print Assumptions CE3_remainder.
Print Assumptions Cprod_third_order.
Print Assumptions layers_third_order.
Print Assumptions numeric_minus_analytic_complex.
Print Assumptions numeric_minus_analytic_complex_sqrt2.
Print Assumptions numeric_minus_analytic_complex_P.
Print Assumptions shoot_minus_analytic_complex.
Print Assumptions uniform_grid_third_order_complex.
Print Assumptions uniform_grid_converges_complex.
