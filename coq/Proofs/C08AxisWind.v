(* C08, centroid clause on cardinal winds: the hypothesis "no wind across the axis" of Proofs/C08Axis.v
   is what the interface produces for the four cardinal directions.
   compute_wind_fields U 90 = (-U, 0), U 270 = (U, 0), U 0 = (0, -U), U 180 = (0, U)   (C08_cardinals, exact over R);
   the profiles keep the direction handed to them at every node, u_node * vm = v_node * um   (C09_direction);
   hence for wind_dir 90/270 the v-profile vanishes identically, for 0/180 the u-profile - every closure,
   every stability, every node (also the nodes where the MOST speed is negative: known finding of C09).
   The solver model is instantiated at the complex numbers over R (Base/ROps.v), whose Laws are proved. *)
From Coq Require Import Reals Lra ZArith List.
From Coquelicot Require Import Complex.
From BL Require Import Base.Ops Base.Laws Base.ROps Model.Solver Model.Wind Model.Pbl
  Proofs.WindProofs Proofs.PblProofs Proofs.SpecProofs Proofs.C06Proofs Proofs.C08Axis.
Import ListNotations.
Open Scope R_scope.

(* the measured wind of the environment is the decomposition of (U, wd) *)
Definition env_wind (E : env) (U wd : R) : Prop := (e_um E, e_vm E) = compute_wind_fields U wd.

Lemma east_west_no_v c E U wd i :
  U <> 0 -> wd = 90 \/ wd = 270 -> env_wind E U wd -> v_node c E i = 0.
Proof.
  intros HU Hwd Hw. unfold env_wind in Hw.
  destruct (cardinals U) as (_ & H90 & _ & H270).
  assert (Hvm : e_vm E = 0 /\ e_um E <> 0).
  { destruct Hwd as [-> | ->]; [rewrite H90 in Hw|rewrite H270 in Hw]; injection Hw as -> ->; split; lra. }
  destruct Hvm as [Hvm Hum].
  pose proof (direction_node c E i) as Hd. rewrite Hvm, Rmult_0_r in Hd.
  symmetry in Hd. apply Rmult_integral in Hd. destruct Hd as [Hd|Hd]; [exact Hd|contradiction].
Qed.

Lemma north_south_no_u c E U wd i :
  U <> 0 -> wd = 0 \/ wd = 180 -> env_wind E U wd -> u_node c E i = 0.
Proof.
  intros HU Hwd Hw. unfold env_wind in Hw.
  destruct (cardinals U) as (H0 & _ & H180 & _).
  assert (Hum : e_um E = 0 /\ e_vm E <> 0).
  { destruct Hwd as [-> | ->]; [rewrite H0 in Hw|rewrite H180 in Hw]; injection Hw as -> ->; split; lra. }
  destruct Hum as [Hum Hvm].
  pose proof (direction_node c E i) as Hd. rewrite Hum, Rmult_0_r in Hd.
  apply Rmult_integral in Hd. destruct Hd as [Hd|Hd]; [exact Hd|contradiction].
Qed.

(* the profile columns the solver receives: node values embedded in the complex numbers *)
Definition column (f : nat -> R) (n : nat) : list Complex.C := map (fun i => RtoC (f i)) (seq 0 n).

Lemma request_no_v c E U wd (a : args ROps) n :
  U <> 0 -> wd = 90 \/ wd = 270 -> env_wind E U wd ->
  p_v ROps (a_prof ROps a) = column (v_node c E) n -> no_v ROps a.
Proof.
  intros HU Hwd Hw Hp x Hx. rewrite Hp in Hx. unfold column in Hx.
  apply in_map_iff in Hx. destruct Hx as (i & <- & _).
  rewrite (east_west_no_v c E U wd i HU Hwd Hw). reflexivity.
Qed.

Lemma request_no_u c E U wd (a : args ROps) n :
  U <> 0 -> wd = 0 \/ wd = 180 -> env_wind E U wd ->
  p_u ROps (a_prof ROps a) = column (u_node c E) n -> no_u ROps a.
Proof.
  intros HU Hwd Hw Hp x Hx. rewrite Hp in Hx. unfold column in Hx.
  apply in_map_iff in Hx. destruct Hx as (i & <- & _).
  rewrite (north_south_no_u c E U wd i HU Hwd Hw). reflexivity.
Qed.

(* end to end for the east/west cardinals: the flux footprint (sel = snd) of a request whose v-column
   comes from the profiles for wind_dir 90 or 270, tower on grid row jm, exact mode count *)
Theorem cardinal_centroid_rows c E U wd (a : args ROps) (g : geom ROps) n k jm r cols :
  U <> 0 -> wd = 90 \/ wd = 270 -> env_wind E U wd ->
  p_v ROps (a_prof ROps a) = column (v_node c E) n ->
  geometry ROps a = inl g -> a_footprint ROps a = true -> g_dy ROps g <> c0 ROps ->
  tower_y ROps a g (2 * Z.of_nat jm) -> exact_y ROps g ->
  (k < length (a_levels ROps a))%nat ->
  (forall d, (- Z.of_nat r <= d <= Z.of_nat r)%Z -> (cyc (g_nye ROps g) jm d < g_ny ROps g)%nat) ->
  (forall i, In i cols -> (i < g_nx ROps g)%nat) ->
  let S := fun d : Z => csum ROps (map (fun i =>
              get3 ROps (field ROps a g snd (table ROps a g)) k (cyc (g_nye ROps g) jm d) i) cols) in
  wsum ROps r (fun d => cmul ROps (cofZ ROps d) (S d)) = c0 ROps /\
  wsum ROps r (fun d => cmul ROps (cmul ROps (cofZ ROps (Z.of_nat jm + d)) (g_dy ROps g)) (S d))
  = cmul ROps (a_ym ROps a) (wsum ROps r S).
Proof.
  intros HU Hwd Hw Hp Hg Hfp Hdy Htow Hex Hk Hwin Hcols.
  apply (centroid_rows ROps ROps_laws a g snd k jm r cols); try assumption.
  - intros pq s. reflexivity.
  - apply (request_no_v c E U wd a n); assumption.
Qed.

Theorem cardinal_centroid_cols c E U wd (a : args ROps) (g : geom ROps) n k im r rows :
  U <> 0 -> wd = 0 \/ wd = 180 -> env_wind E U wd ->
  p_u ROps (a_prof ROps a) = column (u_node c E) n ->
  geometry ROps a = inl g -> a_footprint ROps a = true -> g_dx ROps g <> c0 ROps ->
  tower_x ROps a g (2 * Z.of_nat im) -> exact_x ROps g ->
  (k < length (a_levels ROps a))%nat ->
  (forall d, (- Z.of_nat r <= d <= Z.of_nat r)%Z -> (cyc (g_nxe ROps g) im d < g_nx ROps g)%nat) ->
  (forall j, In j rows -> (j < g_ny ROps g)%nat) ->
  let S := fun d : Z => csum ROps (map (fun j =>
              get3 ROps (field ROps a g snd (table ROps a g)) k j (cyc (g_nxe ROps g) im d)) rows) in
  wsum ROps r (fun d => cmul ROps (cofZ ROps d) (S d)) = c0 ROps /\
  wsum ROps r (fun d => cmul ROps (cmul ROps (cofZ ROps (Z.of_nat im + d)) (g_dx ROps g)) (S d))
  = cmul ROps (a_xm ROps a) (wsum ROps r S).
Proof.
  intros HU Hwd Hw Hp Hg Hfp Hdx Htow Hex Hk Hwin Hrows.
  apply (centroid_cols ROps ROps_laws a g snd k im r rows); try assumption.
  - intros pq s. reflexivity.
  - apply (request_no_u c E U wd a n); assumption.
Qed.

(* the hypothesis env_wind is satisfiable with a cardinal direction: west wind of speed 3 *)
Lemma cardinal_example : exists E, env_wind E 3 270 /\ (3 : R) <> 0 /\ e_um E = 3 /\ e_vm E = 0.
Proof.
  exists (mkEnv 3 3 0 (1/10) (4/10) 1000 1 1 10 100 8).
  destruct (cardinals 3) as (_ & _ & _ & H270).
  split; [unfold env_wind; cbn [e_um e_vm]; rewrite H270; reflexivity|].
  split; [lra|]. split; reflexivity.
Qed.
