(* The "frequency-set" representation of Solver.solve: every output cell is the real part of a
   finite sum over the retained modes of  amplitude * shift * phase.  All sum-level properties
   (C02, C03, C04, C06) are proved from this representation. *)
From Coq Require Import ZArith List Field Ring Lia Bool Arith.
From BL Require Import Base.Ops Base.Laws Model.Solver Proofs.Sums Proofs.StepProofs Proofs.ModeProofs Proofs.Dft.
Import ListNotations.
Set Default Proof Using "All".

Section Spec.
Variable O : Ops.
Hypothesis L : Laws O.
Notation C := (C O).
Notation "0" := (c0 O) : ops_scope. Notation "1" := (c1 O) : ops_scope.
Infix "+" := (cadd O) : ops_scope. Infix "*" := (cmul O) : ops_scope.
Infix "-" := (csub O) : ops_scope. Infix "/" := (cdiv O) : ops_scope.
Notation "- x" := (copp O x) : ops_scope.
Local Open Scope ops_scope.
Add Field OFsp : (L_field O L).
Notation ofZ := (cofZ O).
Notation ofN n := (cofZ O (Z.of_nat n)).
Notation args := (args O).
Notation geom := (geom O).

(* ------------------------------------------------------------------ well-formed arguments *)

Definition qget (a : args) (j i : nat) : C := nth i (nth j (a_q0 O a) []) 0.

Record wf (a : args) : Prop := mkWf {
  wf_u : length (p_u O (a_prof O a)) = length (a_z O a);
  wf_v : length (p_v O (a_prof O a)) = length (a_z O a);
  wf_Kx : length (p_Kx O (a_prof O a)) = length (a_z O a);
  wf_Ky : length (p_Ky O (a_prof O a)) = length (a_z O a);
  wf_Kz : length (p_Kz O (a_prof O a)) = length (a_z O a);
  wf_rect : forall row, In row (a_q0 O a) -> length row = length (hd [] (a_q0 O a))
}.

Lemma diffs_length z : length (diffs O z) = pred (length z).
Proof.
  induction z as [|x [|y z] IH]; try reflexivity.
  change (diffs O (x :: y :: z)) with ((y - x) :: diffs O (y :: z)).
  cbn [length] in *. rewrite IH. reflexivity.
Qed.

Lemma mk_layers_length : forall Kx Ky u v Kz dz : list C,
  length (mk_layers O Kx Ky u v Kz dz) =
  Nat.min (length Kx) (Nat.min (length Ky) (Nat.min (length u) (Nat.min (length v) (Nat.min (length Kz) (length dz))))).
Proof.
  induction Kx as [|a Kx IH]; intros Ky u v Kz dz; [reflexivity|].
  destruct Ky, u, v, Kz, dz; cbn [mk_layers length]; try (rewrite ?Nat.min_0_r; reflexivity).
  rewrite IH. cbn. reflexivity.
Qed.

Lemma wf_layers a : wf a -> length (m_layers O a) = pred (length (a_z O a)).
Proof.
  intros [Hu Hv HKx HKy HKz _]. unfold m_layers, layers_of.
  rewrite mk_layers_length, diffs_length, Hu, Hv, HKx, HKy, HKz. lia.
Qed.

(* what geometry returns *)
Lemma geometry_inv a g : geometry O a = inl g ->
  g_ny O g = length (a_q0 O a) /\ g_nx O g = length (hd [] (a_q0 O a)) /\ g_nz O g = length (a_z O a) /\
  g_dx O g = a_xmx O a / ofN (g_nx O g) /\ g_dy O g = a_ymx O a / ofN (g_ny O g) /\
  g_nxe O g = (g_nx O g + 2 * g_px O g)%nat /\ g_nye O g = (g_ny O g + 2 * g_py O g)%nat /\
  (forall l, In l (a_levels O a) -> (l < g_nz O g)%nat).
Proof.
  unfold geometry.
  destruct (Nat.odd (a_nlx O a) || Nat.odd (a_nly O a)); [discriminate|].
  set (halo := match a_halo O a with Some h => h | None => cmax O (a_xmx O a) (a_ymx O a) end).
  set (px := ctrunc O (halo / (a_xmx O a / ofN (length (hd [] (a_q0 O a)))))).
  set (py := ctrunc O (halo / (a_ymx O a / ofN (length (a_q0 O a))))).
  destruct ((px <? 0)%Z || (py <? 0)%Z); [discriminate|].
  destruct ((length (hd [] (a_q0 O a)) + 2 * Z.to_nat px <? a_nlx O a)%nat
            || (length (a_q0 O a) + 2 * Z.to_nat py <? a_nly O a)%nat);
  (destruct (existsb (fun l => (length (a_z O a) <=? l)%nat) (a_levels O a)) eqn:Elv; [discriminate|]);
  intros H; injection H as <-; cbn [g_ny g_nx g_nz g_dx g_dy g_nxe g_nye g_px g_py];
  repeat split; try reflexivity;
  intros l Hl; destruct (Nat.lt_ge_cases l (length (a_z O a))) as [Hlt|Hge]; try exact Hlt;
  exfalso; assert (Hex : existsb (fun l => (length (a_z O a) <=? l)%nat) (a_levels O a) = true)
    by (apply existsb_exists; exists l; split; [exact Hl|apply Nat.leb_le; exact Hge]);
  congruence.
Qed.

(* geometry depends on the source only through its shape *)
Lemma geometry_shape_only a b :
  length (a_q0 O a) = length (a_q0 O b) -> length (hd [] (a_q0 O a)) = length (hd [] (a_q0 O b)) ->
  a_z O a = a_z O b -> a_xmx O a = a_xmx O b -> a_ymx O a = a_ymx O b -> a_levels O a = a_levels O b ->
  a_nlx O a = a_nlx O b -> a_nly O a = a_nly O b -> a_halo O a = a_halo O b ->
  geometry O a = geometry O b.
Proof.
  intros H1 H2 H3 H4 H5 H6 H7 H8 H9. unfold geometry. rewrite H1, H2, H3, H4, H5, H6, H7, H8, H9. reflexivity.
Qed.

(* ------------------------------------------------------------------ cells of the output *)

Definition get3 (F : list (list (list C))) (k j i : nat) : C := nth i (nth j (nth k F []) []) 0.

Lemma field_get a g sel tab k j i :
  (k < length (a_levels O a))%nat -> (j < g_ny O g)%nat -> (i < g_nx O g)%nat ->
  get3 (field O a g sel tab) k j i = synth O a g sel tab k (i + g_px O g) (j + g_py O g).
Proof.
  intros Hk Hj Hi. unfold get3, field.
  set (f3 := fun l : nat => _).
  rewrite (nth_indep _ [] (f3 0%nat)) by (rewrite map_length, seq_length; exact Hk).
  rewrite map_nth, seq_nth by exact Hk. subst f3. cbv beta.
  set (f2 := fun j0 : nat => _).
  rewrite (nth_indep _ [] (f2 0%nat)) by (rewrite map_length, seq_length; exact Hj).
  rewrite map_nth, seq_nth by exact Hj. subst f2. cbv beta.
  set (f1 := fun i0 : nat => _).
  rewrite (nth_indep _ 0 (f1 0%nat)) by (rewrite map_length, seq_length; exact Hi).
  rewrite map_nth, seq_nth by exact Hi. reflexivity.
Qed.

(* one mode's contribution before taking the real part *)
Definition term (a : args) (g : geom) (sel : C * C -> C) (k : nat) (i j : nat) (t : nat * nat) : C :=
  let ph := phase O g (fftfreq (g_nlx O g) (fst t)) (fftfreq (g_nly O g) (snd t)) i j in
  sel (nth k (spectrum O a g (fst t) (snd t)) (0, 0)) * shift O a g (fst t) (snd t)
  * cis O (if a_footprint O a then - ph else ph).

Lemma spectrum_length a g tx ty : length (spectrum O a g tx ty) = length (a_levels O a).
Proof.
  unfold spectrum, mode_levels, mean_levels. destruct tx, ty;
    first [apply (mean_levels_q_length O L) | apply (mode_levels_q_length O L)].
Qed.

Lemma synth_table a g sel k i j :
  (forall pq s, sel (fst pq * s, snd pq * s) = sel pq * s) ->
  (k < length (a_levels O a))%nat ->
  synth O a g sel (table O a g) k i j = cre O (csum O (map (term a g sel k i j) (modes_of O g))).
Proof.
  intros Hsel Hk. unfold synth, table. rewrite map_map. f_equal.
  apply (csum_map_ext O L). intros t _. cbn [fst snd]. unfold term.
  set (sp := spectrum O a g (fst t) (snd t)).
  set (s := shift O a g (fst t) (snd t)).
  set (fs := fun pq : C * C => (fst pq * s, snd pq * s)).
  rewrite (nth_indep _ (0, 0) (fs (0, 0))) by (rewrite map_length; subst sp; rewrite spectrum_length; exact Hk).
  rewrite map_nth. subst fs. cbv beta. rewrite Hsel. reflexivity.
Qed.

Lemma sel_fst_scale : forall (pq : C * C) s, fst (fst pq * s, snd pq * s) = fst pq * s.
Proof. reflexivity. Qed.
Lemma sel_snd_scale : forall (pq : C * C) s, snd (fst pq * s, snd pq * s) = snd pq * s.
Proof. reflexivity. Qed.

(* representation of the result of solve *)
Lemma solve_inv a r : solve O a = inl r ->
  exists g, geometry O a = inl g /\
    r_conc O r = field O a g fst (table O a g) /\ r_flx O r = field O a g snd (table O a g) /\
    r_z O r = map (fun l => nth0 O (a_z O a) l) (a_levels O a) /\
    r_x O r = map (fun i => ofN i * (a_xmx O a / ofN (g_nx O g))) (seq 0 (g_nx O g)) /\
    r_y O r = map (fun j => ofN j * (a_ymx O a / ofN (g_ny O g))) (seq 0 (g_ny O g)) /\
    r_shape O r = squeeze_shape [length (a_levels O a); g_ny O g; g_nx O g].
Proof.
  unfold solve. destruct (geometry O a) as [g|e]; [|discriminate].
  intros H. injection H as <-. exists g. cbn. repeat split; reflexivity.
Qed.

Lemma conc_cell a g k j i :
  (k < length (a_levels O a))%nat -> (j < g_ny O g)%nat -> (i < g_nx O g)%nat ->
  get3 (field O a g fst (table O a g)) k j i
  = cre O (csum O (map (term a g fst k (i + g_px O g) (j + g_py O g)) (modes_of O g))).
Proof. intros. rewrite field_get by assumption. apply synth_table; [apply sel_fst_scale|assumption]. Qed.

Lemma flx_cell a g k j i :
  (k < length (a_levels O a))%nat -> (j < g_ny O g)%nat -> (i < g_nx O g)%nat ->
  get3 (field O a g snd (table O a g)) k j i
  = cre O (csum O (map (term a g snd k (i + g_px O g) (j + g_py O g)) (modes_of O g))).
Proof. intros. rewrite field_get by assumption. apply synth_table; [apply sel_snd_scale|assumption]. Qed.


(* ------------------------------------------------------------------ transfer form of the spectrum *)

(* per-mode response to a unit surface-flux amplitude at node lv: (P, Q) *)
Definition transfer (a : args) (g : geom) (tx ty lv : nat) : C * C :=
  if a_analytic O a then
    let h := nth0 O (a_z O a) lv - nth0 O (a_z O a) 0%nat in
    let E := cexp O (- m_eig O a g tx ty * h) in
    (E * (1 / m_KzN O a g) / m_eig O a g tx ty, E)
  else shoot_traj O (m_lx O g tx) (m_ly O g ty) (m_layers O a) (m_alpha O a g tx ty 1) 1 lv.

(* vertical resistance between the surface and node lv as the code accumulates it *)
Definition resist (a : args) (g : geom) (lv : nat) : C :=
  if a_analytic O a then (1 / m_KzN O a g) * (nth0 O (a_z O a) lv - nth0 O (a_z O a) 0%nat)
  else resistance O (diffs O (a_z O a)) (p_Kz O (a_prof O a)) lv.

Lemma alpha_scale KzN eig p1 q1 p2 q2 s :
  alpha O KzN eig p1 q1 (s * p2) (s * q2) = s * alpha O KzN eig p1 q1 p2 q2.
Proof. unfold alpha. rewrite !(Fdiv_def (L_field O L)). ring. Qed.

Lemma m_alpha_scale a g tx ty qh : m_alpha O a g tx ty qh = qh * m_alpha O a g tx ty 1.
Proof.
  unfold m_alpha. cbv zeta.
  replace (0, qh) with (sscale O qh (0, 1)) by (unfold sscale; cbn [fst snd]; f_equal; ring).
  rewrite (final_scale O L). unfold sscale. cbn [fst snd]. apply alpha_scale.
Qed.

Lemma shoot_scale lx ly layers al qh k :
  (k <= length layers)%nat ->
  shoot_traj O lx ly layers (qh * al) qh k = sscale O qh (shoot_traj O lx ly layers al 1 k).
Proof.
  intros Hk. rewrite !(shoot_is_traj O L).
  replace (qh * al, qh) with (sscale O qh (al, 1)) by (unfold sscale; cbn [fst snd]; f_equal; ring).
  rewrite (nth_indep _ (0, 0) (sscale O qh (0, 0))) by (rewrite (traj_length O L); lia).
  apply (traj_scale O L).
Qed.

Lemma mode_transfer a g tx ty qh k :
  wf a -> geometry O a = inl g -> a_single O a = false ->
  (k < length (a_levels O a))%nat ->
  nth k (mode_levels_q O a g tx ty qh) (0, 0)
  = (qh * fst (transfer a g tx ty (nth k (a_levels O a) 0%nat)),
     qh * snd (transfer a g tx ty (nth k (a_levels O a) 0%nat))).
Proof.
  intros Hwf Hg Hs Hk.
  destruct (geometry_inv a g Hg) as (_ & _ & Hnz & _ & _ & _ & _ & Hlv).
  assert (Hl : (nth k (a_levels O a) 0%nat < length (a_z O a))%nat).
  { rewrite <- Hnz. apply Hlv. apply nth_In. exact Hk. }
  unfold transfer. destruct (a_analytic O a) eqn:Han.
  - rewrite (mode_levels_q_ana O L a g tx ty qh k Han Hk). cbv zeta. unfold rho. rewrite Hs. cbn [fst snd].
    f_equal. rewrite !(Fdiv_def (L_field O L)). ring.
  - rewrite (mode_levels_q_num O L a g tx ty qh k Han Hk) by (rewrite (wf_layers a Hwf); lia).
    cbv zeta. unfold rho. rewrite Hs. rewrite m_alpha_scale, shoot_scale by (rewrite (wf_layers a Hwf); lia).
    reflexivity.
Qed.

Lemma mean_transfer a g q00 p000 k :
  wf a -> geometry O a = inl g -> a_single O a = false ->
  (k < length (a_levels O a))%nat ->
  nth k (mean_levels_q O a g q00 p000) (0, 0)
  = (p000 - q00 * resist a g (nth k (a_levels O a) 0%nat), q00).
Proof.
  intros Hwf Hg Hs Hk.
  destruct (geometry_inv a g Hg) as (_ & _ & Hnz & _ & _ & _ & _ & Hlv).
  assert (Hl : (nth k (a_levels O a) 0%nat < length (a_z O a))%nat).
  { rewrite <- Hnz. apply Hlv. apply nth_In. exact Hk. }
  unfold resist. destruct (a_analytic O a) eqn:Han.
  - rewrite (mean_levels_q_ana O L a g q00 p000 k Han Hk). cbv zeta. unfold rho. rewrite Hs.
    f_equal. ring.
  - rewrite (mean_levels_q_num O L a g q00 p000 k Han Hk).
    + unfold rho. rewrite Hs. reflexivity.
    + rewrite diffs_length, (wf_Kz a Hwf). lia.
Qed.

(* amplitude of mode t at output slot k, before the phase shift *)
Definition amp (a : args) (g : geom) (t : nat * nat) (k : nat) : C * C :=
  let lv := nth k (a_levels O a) 0%nat in
  match t with
  | (0%nat, 0%nat) => (a_p000 O a - q0_hat O a g 0%nat 0%nat * resist a g lv, q0_hat O a g 0%nat 0%nat)
  | (tx, ty) => (q0_hat O a g tx ty * fst (transfer a g tx ty lv), q0_hat O a g tx ty * snd (transfer a g tx ty lv))
  end.

Lemma spectrum_amp a g t k :
  wf a -> geometry O a = inl g -> a_single O a = false -> (k < length (a_levels O a))%nat ->
  nth k (spectrum O a g (fst t) (snd t)) (0, 0) = amp a g t k.
Proof.
  intros Hwf Hg Hs Hk. destruct t as [tx ty]. cbn [fst snd]. unfold spectrum, amp, mode_levels, mean_levels.
  destruct tx as [|tx]; destruct ty as [|ty];
    first [apply mean_transfer; assumption | apply mode_transfer; assumption].
Qed.


(* ------------------------------------------------------------------ the list of retained modes *)

Lemma modes_of_in g t : In t (modes_of O g) <-> (fst t < g_nlx O g)%nat /\ (snd t < g_nly O g)%nat.
Proof.
  unfold modes_of. rewrite in_flat_map. split.
  - intros (ty & Hty & Ht). apply in_map_iff in Ht. destruct Ht as (tx & <- & Htx).
    apply in_seq in Hty. apply in_seq in Htx. cbn [fst snd]. lia.
  - intros [Hx Hy]. exists (snd t). split; [apply in_seq; lia|].
    apply in_map_iff. exists (fst t). split; [destruct t; reflexivity|apply in_seq; lia].
Qed.

(* the mean mode comes first and only once *)
Lemma modes_of_split g : (0 < g_nlx O g)%nat -> (0 < g_nly O g)%nat ->
  exists rest, modes_of O g = (0%nat, 0%nat) :: rest /\ forall t, In t rest -> t <> (0%nat, 0%nat).
Proof.
  intros Hx Hy. unfold modes_of.
  destruct (g_nlx O g) as [|n]; [lia|]. destruct (g_nly O g) as [|m]; [lia|].
  cbn [seq flat_map map app].
  exists (map (fun tx => (tx, 0%nat)) (seq 1 n)
          ++ flat_map (fun ty => map (fun tx => (tx, ty)) (0%nat :: seq 1 n)) (seq 1 m)).
  split; [reflexivity|].
  intros t Ht. apply in_app_or in Ht. destruct Ht as [Ht|Ht].
  - apply in_map_iff in Ht. destruct Ht as (tx & <- & Htx). apply in_seq in Htx. intros E. injection E. lia.
  - apply in_flat_map in Ht. destruct Ht as (ty & Hty & Ht). apply in_seq in Hty.
    apply in_map_iff in Ht. destruct Ht as (tx & <- & _). intros E. injection E. lia.
Qed.

(* frequencies: zero only for index 0; bounded by the retained count *)
Lemma fftfreq_0 n : fftfreq n 0%nat = 0%Z.
Proof.
  unfold fftfreq. destruct (Z.of_nat 0 <=? (Z.of_nat n - 1) / 2)%Z eqn:E; [reflexivity|].
  apply Z.leb_gt in E. destruct n as [|n]; [reflexivity|].
  exfalso. assert (0 <= (Z.of_nat (S n) - 1) / 2)%Z by (apply Z.div_pos; lia). lia.
Qed.

Lemma fftfreq_bounds n t : (0 < t < n)%nat ->
  (fftfreq n t <> 0 /\ - Z.of_nat n < fftfreq n t < Z.of_nat n)%Z.
Proof.
  intros Ht. unfold fftfreq. destruct (Z.of_nat t <=? (Z.of_nat n - 1) / 2)%Z; lia.
Qed.

Lemma wavenumber_0 dx n : wavenumber O dx n 0%Z = 0.
Proof. unfold wavenumber. rewrite (L_ofZ_0 O L). ring. Qed.

Lemma cis_0 : cis O 0 = 1.
Proof. unfold cis. replace (ci O * 0) with 0 by ring. apply (L_exp_0 O L). Qed.

Lemma phase_0 g i j : phase O g 0%Z 0%Z i j = 0.
Proof.
  unfold phase. rewrite !Z.mul_0_l, (L_ofZ_0 O L), !(Fdiv_def (L_field O L)). ring.
Qed.

(* the mean mode is neither shifted nor modulated *)
Lemma shift_mean a g : shift O a g 0%nat 0%nat = 1.
Proof.
  unfold shift. rewrite !fftfreq_0, !wavenumber_0.
  destruct (a_footprint O a).
  - unfold shift_arg_fp. replace (0 * _ + 0 * _) with 0 by ring. apply cis_0.
  - destruct (cltb O 0 _); [|reflexivity]. unfold shift_arg_ctr. replace (0 * _ + 0 * _) with 0 by ring. apply cis_0.
Qed.

Lemma term_mean a g sel k i j :
  term a g sel k i j (0%nat, 0%nat) = sel (nth k (spectrum O a g 0%nat 0%nat) (0, 0)).
Proof.
  unfold term. cbn [fst snd]. rewrite shift_mean, !fftfreq_0, phase_0.
  replace (if a_footprint O a then - 0 else 0) with 0 by (destruct (a_footprint O a); ring).
  rewrite cis_0. ring.
Qed.

End Spec.
