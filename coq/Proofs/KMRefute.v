(* The unrepaired integer path of the Kormann-Meixner helpers truncates (uses the interval tactic, kept apart
   from Proofs/KMProofs.v so that the main theorems depend on the standard library only). *)
From Coq Require Import Reals Lra ZArith.
From Interval Require Import Tactic.
From BL Require Import Model.KM Proofs.KMProofs.
Open Scope R_scope.

(* ---------- the unrepaired integer path truncates *)
Lemma Rtrunc_small r : 0 <= r < 1 -> Rtrunc r = 0.
Proof.
  intros H. unfold Rtrunc. destruct (Rle_dec 0 r); [|lra].
  rewrite (Int_part_unique r 0); [reflexivity | simpl; lra].
Qed.
Lemma Rtrunc_1 r : 1 <= r < 2 -> Rtrunc r = 1.
Proof.
  intros H. unfold Rtrunc. destruct (Rle_dec 0 r); [|lra].
  rewrite (Int_part_unique r 1); [reflexivity | simpl; lra].
Qed.

Lemma int_refuted :
  (* unstable, zm = 10, L = -50: phi_m = 4.2^(-1/4) = 0.6985.. is stored as 0, phi_c as 0 (then kappa divides by zero) *)
  phiM_trunc 10 (-50) = 0 /\ 0 < phiM 10 (-50) /\ phiC_trunc 10 (-50) = 0 /\ 0 < phiC 10 (-50) /\
  (* stable, zm = 10, L = 100: phi = 1.5 is stored as 1, n = 2/3 as 0 *)
  phiM_trunc 10 100 = 1 /\ phiM 10 100 = 3 / 2 /\ nParam_trunc 10 100 = 0 /\ nParam 10 100 = 2 / 3.
Proof.
  assert (A : 0 < phiM 10 (-50) < 1).
  { rewrite phiM_unstable by lra. unfold Rpower. split; interval. }
  assert (B : 0 < phiC 10 (-50) < 1).
  { rewrite phiC_unstable by lra. unfold Rpower. split; interval. }
  assert (C : phiM 10 100 = 3 / 2) by (rewrite phiM_stable by lra; field).
  assert (D : nParam 10 100 = 2 / 3) by (rewrite nParam_stable by lra; field).
  refine (conj _ (conj _ (conj _ (conj _ (conj _ (conj _ (conj _ _))))))).
  - apply Rtrunc_small. lra.
  - lra.
  - apply Rtrunc_small. lra.
  - lra.
  - unfold phiM_trunc. rewrite C. apply Rtrunc_1. lra.
  - exact C.
  - unfold nParam_trunc. rewrite D. apply Rtrunc_small. lra.
  - exact D.
Qed.


