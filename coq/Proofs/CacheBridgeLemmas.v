(* Lemmas about Model/CacheFlow.v that do not depend on the generated file:
     - a key built from a field list: equality of two such keys <-> agreement on every listed field;
       Model.Cache.key is the key of model_key_fields;
     - the hand-written flow terms model_* are interpreted to exactly Model.Cache.get / write_ops /
       put / solve_with_cache / killed_call, for ALL stores, requests and payloads (these are the
       statements Bridge/CacheBridge.v re-proves on every run for the terms extracted from /repo);
     - the tactics used by the bridge file (they work by computation on any closed flow term).   *)
From Coq Require Import List Arith Bool String.
From BL Require Import Model.Cache Model.CacheFlow.
Import ListNotations.

(* ------------------------------------------------------------------ keys and fields *)

Section Keys.
Context {T : Type} (hmax : T -> T -> T).

Lemma key_of_model : forall r : request T, key_of hmax model_key_fields r = key hmax r.
Proof. intros r. reflexivity. Qed.

Lemma key_of_eq_iff : forall (fs : list field) (r1 r2 : request T),
  key_of hmax fs r1 = key_of hmax fs r2 <->
  (forall f, In f fs -> field_tok hmax r1 f = field_tok hmax r2 f).
Proof.
  intros fs r1 r2. unfold key_of. induction fs as [|f fs IH]; simpl.
  - split; [intros _ f []|reflexivity].
  - split.
    + intros E. injection E as E1 E2. intros g [G|G]; [subst g; exact E1|]. apply IH; assumption.
    + intros A. f_equal; [apply A; left; reflexivity|]. apply IH. intros g G. apply A. right. exact G.
Qed.

(* two requests have equal model keys iff they agree on every field of the model's key *)
Lemma model_key_eq_iff : forall r1 r2 : request T,
  key hmax r1 = key hmax r2 <->
  (forall f, In f model_key_fields -> field_tok hmax r1 f = field_tok hmax r2 f).
Proof. intros r1 r2. rewrite <- !key_of_model. apply key_of_eq_iff. Qed.

End Keys.

(* ------------------------------------------------------------------ tactics *)

(* run_get <closed flow> kh fs = GRet (fst (get ..)) (snd (get ..)) *)
Ltac solve_get_flow :=
  intros;
  match goal with
  | |- run_get ?eqb _ ?kh ?fs = _ =>
      unfold Cache.get;
      destruct (lookup eqb (Final kh) fs) as [[?p|]|] eqn:?E;
      cbv [run_get run_g gseq fold_right catches_unreadable catches_oserror
           g_fs g_key g_path g_loaded];
      rewrite ?E; cbv [g_fs g_key g_path g_loaded catches_unreadable catches_oserror];
      rewrite ?E; reflexivity
  end.

(* put_ops <closed flow> h p n = Some (write_ops h p n) *)
Ltac solve_put_flow :=
  intros;
  cbv [put_ops run_p pseq fold_right andb p_key p_final p_tmp p_ops app];
  unfold write_ops; reflexivity.

(* ------------------------------------------------------------------ the model's flow terms *)

Section Flows.
Context {T : Type} (hmax : T -> T -> T).
Context {H : Type} (H_eqb : H -> H -> bool) {R : Type}.
Context (hash : list (ktok T) -> H) (solve : request T -> R) (nchunks : R -> nat).

Lemma model_get_flow_ok : forall (fs : store H R) (r : request T),
  run_get H_eqb model_get_flow (hash (key hmax r)) fs =
  GRet (fst (get hmax H_eqb hash fs r)) (snd (get hmax H_eqb hash fs r)).
Proof. unfold model_get_flow. solve_get_flow. Qed.

Lemma model_put_flow_ok : forall (h : H) (p : R) (n : nat),
  put_ops model_put_flow h p n = Some (write_ops h p n).
Proof. unfold model_put_flow. solve_put_flow. Qed.

Lemma model_put_guarded : guarded model_put_flow = true.
Proof. reflexivity. Qed.

Lemma model_roundtrip : roundtrip_ok model_put_members model_get_members = true.
Proof. reflexivity. Qed.

Lemma model_clear_ok : forall fs : store H R, run_clear model_clear_globs fs = [].
Proof.
  intros fs. unfold run_clear. induction fs as [|[[h|h] e] fs IH]; simpl; [reflexivity|exact IH|exact IH].
Qed.

Lemma model_get_key_fields :
  get_key_fields model_key_feeds model_fwd_params model_fwd_params model_solver_flow = Some model_key_fields.
Proof. reflexivity. Qed.

Lemma model_put_key_fields :
  put_key_fields model_key_feeds model_fwd_params model_fwd_params model_solver_flow = Some model_key_fields.
Proof. reflexivity. Qed.

End Flows.

(* run_solver .. <closed pieces> c st = Some (solve_with_cache .. c st), given the two lemmas about the
   get and put flows; works by case analysis on the guard operands and on the looked-up entry *)
Ltac solve_solver_flow get_ok put_ok :=
  intros;
  match goal with
  | |- run_solver ?hmax ?eqb ?hash ?solve ?nchunks _ _ _ _ _ _ ?c ?st = _ =>
      let cc := fresh "cc" in let r := fresh "r" in let fs := fresh "fs" in let ns := fresh "ns" in
      let F := fresh "F" in let G := fresh "G" in let p := fresh "p" in let fs' := fresh "fs'" in
      destruct c as [cc r]; destruct st as [fs ns];
      unfold run_solver, solve_with_cache, cached;
      destruct cc; destruct (r_footprint r) eqn:F;
      cbn -[run_get put_ops key_of get put run_ops]; rewrite ?F;
      cbn -[run_get put_ops key_of get put run_ops];
      try reflexivity;
      match goal with |- context [key_of hmax ?l r] => change (key_of hmax l r) with (key hmax r) end;
      rewrite get_ok;
      destruct (get hmax eqb hash fs r) as [[p|] fs'] eqn:G;
      cbn -[run_get put_ops key_of get put run_ops];
      [reflexivity|];
      match goal with |- context [key_of hmax ?l r] => change (key_of hmax l r) with (key hmax r) end;
      rewrite put_ok; reflexivity
  end.

(* the model's own terms satisfy the statement (a check of the interpreters and of the tactic that does
   not depend on /repo) *)
Lemma model_solver_flow_ok :
  forall (T : Type) (hmax : T -> T -> T) (H : Type) (H_eqb : H -> H -> bool) (R : Type)
         (hash : list (ktok T) -> H) (solve : request T -> R) (nchunks : R -> nat)
         (c : call T) (st : state H R),
  run_solver hmax H_eqb hash solve nchunks model_key_feeds model_fwd_params model_fwd_params
             model_get_flow model_put_flow model_solver_flow c st =
  Some (solve_with_cache hmax H_eqb hash solve nchunks c st).
Proof. solve_solver_flow (@model_get_flow_ok) (@model_put_flow_ok). Qed.

(* the killed call writes a prefix of the interpreted put *)
Lemma killed_prefix :
  forall (T : Type) (hmax : T -> T -> T) (H : Type) (H_eqb : H -> H -> bool) (R : Type)
         (hash : list (ktok T) -> H) (solve : request T -> R) (nchunks : R -> nat) (pf : pflow),
  (forall (h : H) (p : R) (n : nat), put_ops pf h p n = Some (write_ops h p n)) ->
  forall (c : call T) (k : nat) (st : state H R),
  killed_call hmax H_eqb hash solve nchunks c k st =
  (let r := c_req c in
   if cached c then
     match get hmax H_eqb hash (st_fs st) r with
     | (Some _, fs) => mkState fs (st_solves st)
     | (None, fs) =>
         match put_ops pf (hash (key hmax r)) (solve r) (nchunks (solve r)) with
         | Some ops => mkState (run_ops H_eqb (firstn k ops) fs) (S (st_solves st))
         | None => st
         end
     end
   else mkState (st_fs st) (S (st_solves st))).
Proof.
  intros T hmax H H_eqb R hash solve nchunks pf Hput c k st. cbv zeta. unfold killed_call.
  destruct (cached c); [|reflexivity].
  destruct (get hmax H_eqb hash (st_fs st) (c_req c)) as [[p|] fs]; [reflexivity|].
  rewrite Hput. reflexivity.
Qed.
