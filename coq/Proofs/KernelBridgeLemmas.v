(* Structural lemmas behind Bridge/KernelBridge.v: the loop shapes that harness/py2coq_kernel.py emits for
   ivp_solver and for the mean-mode block of steady_state_transport_solver (folds over `seq`, recording loops
   `for lvl in range(nlvls): if levels[lvl] == i: a[lvl] = x`, their enumerate / filtered variants) are the
   model's `record`, `ivp_loop`, `ivp`, `mean_loop` (Model/Solver.v) - for every list of levels (repeats and
   out-of-range entries included), every column, every initial state.  Nothing here needs a field law. *)
From Coq Require Import ZArith List Lia Bool Arith.
From BL Require Import Base.Ops Model.Solver Model.KernelPy.
Import ListNotations.

(* ---------------------------------------------------------------- generic list / fold facts *)

Lemma fold_left_ext_in {A B : Type} (f g : A -> B -> A) (l : list B) :
  (forall a x, In x l -> f a x = g a x) -> forall a, fold_left f l a = fold_left g l a.
Proof.
  induction l as [|x r IH]; intros H a; [reflexivity|]. cbn [fold_left].
  rewrite (H a x (or_introl eq_refl)). apply IH. intros a' y Hy. apply H. right. exact Hy.
Qed.

(* the same with an invariant of the state (e.g. the lengths of the columns) *)
Lemma fold_left_ext_inv {A B : Type} (Inv : A -> Prop) (f g : A -> B -> A) (l : list B) :
  (forall a x, In x l -> Inv a -> f a x = g a x /\ Inv (g a x)) ->
  forall a, Inv a -> fold_left f l a = fold_left g l a /\ Inv (fold_left g l a).
Proof.
  induction l as [|x r IH]; intros H a Ha; [split; [reflexivity|exact Ha]|]. cbn [fold_left].
  destruct (H a x (or_introl eq_refl) Ha) as [E Hg]. rewrite E.
  apply IH; [|exact Hg]. intros a' y Hy. apply H. right. exact Hy.
Qed.

Lemma fold_left_map {A B X : Type} (f : A -> B -> A) (h : X -> B) (l : list X) a :
  fold_left f (map h l) a = fold_left (fun a x => f a (h x)) l a.
Proof. revert a. induction l as [|x r IH]; intros a; [reflexivity|]. cbn [map fold_left]. apply IH. Qed.

(* for x in [k for k in l if t k]: body   =   for k in l: if t k: body *)
Lemma fold_left_filter {A B : Type} (f : A -> B -> A) (t : B -> bool) (l : list B) a :
  fold_left f (filter t l) a = fold_left (fun a x => if t x then f a x else a) l a.
Proof.
  revert a. induction l as [|x r IH]; intros a; [reflexivity|]. cbn [filter fold_left].
  destruct (t x); [cbn [fold_left]|]; apply IH.
Qed.

(* a loop that updates two variables independently is two loops *)
Lemma fold_left_pair {A B X : Type} (fa : A -> X -> A) (fb : B -> X -> B) (l : list X) a b :
  fold_left (fun st x => (fa (fst st) x, fb (snd st) x)) l (a, b) = (fold_left fa l a, fold_left fb l b).
Proof. revert a b. induction l as [|x r IH]; intros a b; [reflexivity|]. cbn [fold_left fst snd]. apply IH. Qed.

(* for k, x in enumerate(l): body(k, x)   =   for k in range(len(l)): body(k, l[k]) *)
Lemma fold_left_enumerate_from {A St : Type} (f : St -> nat * A -> St) (d : A) (l : list A) : forall a s,
  fold_left f (combine (seq a (length l)) l) s = fold_left (fun s k => f s (k, nth (k - a) l d)) (seq a (length l)) s.
Proof.
  induction l as [|x r IH]; intros a s; [reflexivity|].
  cbn [length seq combine fold_left]. rewrite Nat.sub_diag. cbn [nth]. rewrite IH.
  apply fold_left_ext_in. intros s' k Hk. apply in_seq in Hk.
  replace (k - a)%nat with (S (k - S a)) by lia. reflexivity.
Qed.

Lemma fold_left_enumerate {A St : Type} (f : St -> nat * A -> St) (d : A) (l : list A) s :
  fold_left f (pyenumerate l) s = fold_left (fun s k => f s (k, nth k l d)) (seq 0 (length l)) s.
Proof.
  unfold pyenumerate. rewrite (fold_left_enumerate_from f d l 0 s).
  apply fold_left_ext_in. intros s' k _. rewrite Nat.sub_0_r. reflexivity.
Qed.

Lemma tuple4_eq {A B X Y : Type} (a a' : A) (b b' : B) (c c' : X) (d d' : Y) :
  a = a' -> b = b' -> c = c' -> d = d' -> (a, b, c, d) = (a', b', c', d').
Proof. intros; subst; reflexivity. Qed.

Lemma tuple2_eq {A B : Type} (a a' : A) (b b' : B) : a = a' -> b = b' -> (a, b) = (a', b').
Proof. intros; subst; reflexivity. Qed.

(* ---------------------------------------------------------------- Python ints *)

Lemma pyrange_of_nat n : pyrange (Z.of_nat n) = seq 0 n.
Proof. unfold pyrange. rewrite Nat2Z.id. reflexivity. Qed.

Lemma pyrange_pred n : pyrange (Z.of_nat n - 1) = seq 0 (n - 1).
Proof. unfold pyrange. f_equal. lia. Qed.

Lemma pylevel_eq_nat lv i : pylevel_eq lv (Z.of_nat i) = Nat.eqb lv i.
Proof.
  unfold pylevel_eq. destruct (Nat.eqb lv i) eqn:E.
  - apply Nat.eqb_eq in E. subst. apply Z.eqb_refl.
  - apply Nat.eqb_neq in E. apply Z.eqb_neq. lia.
Qed.

Lemma pylevel_eq_pred lv n : (1 <= n)%nat -> pylevel_eq lv (Z.of_nat n - 1) = Nat.eqb lv (n - 1).
Proof. intros H. replace (Z.of_nat n - 1)%Z with (Z.of_nat (n - 1)) by lia. apply pylevel_eq_nat. Qed.

Section Kernel.
Variable O : Ops.
Notation C := (C O).
Notation layer := (layer O).
Notation record := (record O).
Notation step := (step O).
Notation zero := (c0 O).

Lemma pyzeros_of_nat n : pyzeros O (Z.of_nat n) = zeros O n.
Proof. unfold pyzeros. rewrite Nat2Z.id. reflexivity. Qed.

Lemma zeros_length' n : length (zeros O n) = n.
Proof. apply repeat_length. Qed.

(* ---------------------------------------------------------------- stores *)

Lemma pyset_length {A : Type} (l : list A) : forall k x, length (pyset l k x) = length l.
Proof. induction l as [|h t IH]; intros [|k] x; cbn [pyset length]; try reflexivity. rewrite IH. reflexivity. Qed.

Lemma pyset_nth {A : Type} (l : list A) : forall k x j d, (k < length l)%nat ->
  nth j (pyset l k x) d = if Nat.eqb j k then x else nth j l d.
Proof.
  induction l as [|h t IH]; intros k x j d Hk; cbn [length] in Hk; [lia|].
  destruct k as [|k]; destruct j as [|j]; cbn [pyset nth Nat.eqb]; try reflexivity.
  apply IH. lia.
Qed.

(* ---------------------------------------------------------------- the model's record (free of Laws) *)

Lemma record_length' levels i (x : C) rec :
  length rec = length levels -> length (record levels i x rec) = length levels.
Proof. intros H. unfold Solver.record. rewrite map_length, combine_length, H. apply Nat.min_id. Qed.

Lemma record_nth' levels i (x : C) rec k d :
  length rec = length levels -> (k < length levels)%nat ->
  nth k (record levels i x rec) d = if Nat.eqb (nth k levels 0%nat) i then x else nth k rec d.
Proof.
  intros Hl Hk. unfold Solver.record.
  set (f := fun lr : nat * C => if Nat.eqb (fst lr) i then x else snd lr).
  rewrite (nth_indep _ d (f (0%nat, d))).
  2:{ rewrite map_length, combine_length, Hl, Nat.min_id. exact Hk. }
  rewrite map_nth, combine_nth by (symmetry; exact Hl). reflexivity.
Qed.

(* ---------------------------------------------------------------- recording loops *)

(* for k in range(n): if test k: r[k] = x    after the first n slots *)
Lemma record_prefix (test : nat -> bool) (x : C) (rec : list C) : forall n, (n <= length rec)%nat ->
  let r := fold_left (fun r k => if test k then pyset r k x else r) (seq 0 n) rec in
  length r = length rec /\
  forall j d, nth j r d = if (j <? n)%nat && test j then x else nth j rec d.
Proof.
  induction n as [|n IH]; intros Hn; cbv zeta.
  - cbn [seq fold_left]. split; [reflexivity|]. intros j d. reflexivity.
  - rewrite seq_S, fold_left_app. cbn [fold_left Nat.add].
    destruct (IH ltac:(lia)) as [Hl Hj]. cbv zeta in Hl, Hj.
    set (r := fold_left _ (seq 0 n) rec) in *.
    destruct (test n) eqn:Tn.
    + split; [rewrite pyset_length; exact Hl|]. intros j d.
      rewrite pyset_nth by lia. rewrite Hj.
      destruct (Nat.eqb j n) eqn:Ejn.
      * apply Nat.eqb_eq in Ejn. subst j.
        replace (n <? S n)%nat with true by (symmetry; apply Nat.ltb_lt; lia). rewrite Tn. reflexivity.
      * apply Nat.eqb_neq in Ejn.
        destruct (j <? n)%nat eqn:E1.
        -- apply Nat.ltb_lt in E1. replace (j <? S n)%nat with true by (symmetry; apply Nat.ltb_lt; lia). reflexivity.
        -- apply Nat.ltb_ge in E1. replace (j <? S n)%nat with false by (symmetry; apply Nat.ltb_ge; lia). reflexivity.
    + split; [exact Hl|]. intros j d. rewrite Hj.
      destruct (Nat.eqb j n) eqn:Ejn.
      * apply Nat.eqb_eq in Ejn. subst j.
        replace (n <? n)%nat with false by (symmetry; apply Nat.ltb_ge; lia).
        replace (n <? S n)%nat with true by (symmetry; apply Nat.ltb_lt; lia). rewrite Tn. reflexivity.
      * apply Nat.eqb_neq in Ejn.
        destruct (j <? n)%nat eqn:E1.
        -- apply Nat.ltb_lt in E1. replace (j <? S n)%nat with true by (symmetry; apply Nat.ltb_lt; lia). reflexivity.
        -- apply Nat.ltb_ge in E1. replace (j <? S n)%nat with false by (symmetry; apply Nat.ltb_ge; lia). reflexivity.
Qed.

(* the recording loop over one column, canonical shape *)
Lemma record_loop levels i (x : C) rec :
  length rec = length levels ->
  fold_left (fun r k => if Nat.eqb (nth k levels 0%nat) i then pyset r k x else r) (seq 0 (length levels)) rec
  = record levels i x rec.
Proof.
  intros Hl.
  destruct (record_prefix (fun k => Nat.eqb (nth k levels 0%nat) i) x rec (length levels) ltac:(lia)) as [Hlen Hn].
  cbv zeta in Hlen, Hn.
  apply (nth_ext _ _ zero zero).
  - rewrite Hlen, record_length' by exact Hl. exact Hl.
  - intros j Hj. rewrite Hlen, Hl in Hj. rewrite Hn, record_nth' by assumption.
    replace (j <? length levels)%nat with true by (symmetry; apply Nat.ltb_lt; exact Hj). reflexivity.
Qed.

(* any loop over the slots whose body is, slot by slot, `if levels[k] == i: r[k] = x` *)
Lemma record_fold1 (f : list C -> nat -> list C) levels i (x : C) rec :
  length rec = length levels ->
  (forall k r, (k < length levels)%nat -> f r k = if Nat.eqb (nth k levels 0%nat) i then pyset r k x else r) ->
  fold_left f (seq 0 (length levels)) rec = record levels i x rec.
Proof.
  intros Hl Hf. rewrite <- (record_loop levels i x rec Hl).
  apply fold_left_ext_in. intros r k Hk. apply in_seq in Hk. apply Hf. lia.
Qed.

(* the same with two columns recorded by one loop (fftp and fftq) *)
Lemma record_fold2 (f : list C * list C -> nat -> list C * list C) levels i (x y : C) rp rq :
  length rp = length levels -> length rq = length levels ->
  (forall k a b, (k < length levels)%nat ->
     f (a, b) k = if Nat.eqb (nth k levels 0%nat) i then (pyset a k x, pyset b k y) else (a, b)) ->
  fold_left f (seq 0 (length levels)) (rp, rq) = (record levels i x rp, record levels i y rq).
Proof.
  intros Hp Hq Hf.
  rewrite <- (record_loop levels i x rp Hp), <- (record_loop levels i y rq Hq), <- fold_left_pair.
  apply fold_left_ext_in. intros [a b] k Hk. apply in_seq in Hk. rewrite Hf by lia. cbn [fst snd].
  destruct (Nat.eqb (nth k levels 0%nat) i); reflexivity.
Qed.

(* ---------------------------------------------------------------- layers as nth-indexed profile arrays *)

Lemma diffs_length (z : list C) : length (diffs O z) = (length z - 1)%nat.
Proof.
  induction z as [|a [|b r] IH]; [reflexivity|reflexivity|].
  change (diffs O (a :: b :: r)) with (csub O b a :: diffs O (b :: r)). cbn [length] in *. rewrite IH. lia.
Qed.

Lemma diffs_nth (z : list C) : forall i, (i < length z - 1)%nat ->
  nth i (diffs O z) zero = csub O (nth (S i) z zero) (nth i z zero).
Proof.
  induction z as [|a [|b r] IH]; intros i Hi; cbn [length] in Hi; try lia.
  change (diffs O (a :: b :: r)) with (csub O b a :: diffs O (b :: r)).
  destruct i as [|i]; [reflexivity|].
  change (nth (S i) (csub O b a :: diffs O (b :: r)) zero) with (nth i (diffs O (b :: r)) zero).
  rewrite IH by (cbn [length]; lia). reflexivity.
Qed.

Lemma mk_layers_length : forall (dz Kx Ky u v Kz : list C),
  (length dz <= length Kx)%nat -> (length dz <= length Ky)%nat -> (length dz <= length u)%nat ->
  (length dz <= length v)%nat -> (length dz <= length Kz)%nat ->
  length (mk_layers O Kx Ky u v Kz dz) = length dz.
Proof.
  induction dz as [|f dz IH]; intros Kx Ky u v Kz H1 H2 H3 H4 H5.
  - destruct Kx, Ky, u, v, Kz; reflexivity.
  - destruct Kx as [|a Kx]; [cbn in H1; lia|]. destruct Ky as [|b Ky]; [cbn in H2; lia|].
    destruct u as [|c u]; [cbn in H3; lia|]. destruct v as [|d v]; [cbn in H4; lia|].
    destruct Kz as [|e Kz]; [cbn in H5; lia|].
    cbn [mk_layers length] in *. rewrite IH by lia. reflexivity.
Qed.

Lemma mk_layers_nth : forall (dz Kx Ky u v Kz : list C) i dL,
  (length dz <= length Kx)%nat -> (length dz <= length Ky)%nat -> (length dz <= length u)%nat ->
  (length dz <= length v)%nat -> (length dz <= length Kz)%nat -> (i < length dz)%nat ->
  nth i (mk_layers O Kx Ky u v Kz dz) dL
  = mkLayer O (nth i Kx zero) (nth i Ky zero) (nth i u zero) (nth i v zero) (nth i Kz zero) (nth i dz zero).
Proof.
  induction dz as [|f dz IH]; intros Kx Ky u v Kz i dL H1 H2 H3 H4 H5 Hi; [cbn in Hi; lia|].
  destruct Kx as [|a Kx]; [cbn in H1; lia|]. destruct Ky as [|b Ky]; [cbn in H2; lia|].
  destruct u as [|c u]; [cbn in H3; lia|]. destruct v as [|d v]; [cbn in H4; lia|].
  destruct Kz as [|e Kz]; [cbn in H5; lia|].
  cbn [mk_layers length] in *. destruct i as [|i]; [reflexivity|]. cbn [nth]. apply IH; lia.
Qed.

(* ---------------------------------------------------------------- the layer sweep of ivp_solver *)

Definition st4 : Type := (C * C * list C * list C)%type.

Lemma ivp_loop_lengths lx ly levels : forall (Ls : list layer) j st rp rq,
  length rp = length levels -> length rq = length levels ->
  length (snd (fst (ivp_loop O lx ly Ls j levels st rp rq))) = length levels /\
  length (snd (ivp_loop O lx ly Ls j levels st rp rq)) = length levels.
Proof.
  induction Ls as [|La r IH]; intros j st rp rq Hp Hq; cbn [ivp_loop fst snd]; [split; assumption|].
  apply IH; apply record_length'; assumption.
Qed.

(* a fold over the layer indices whose body is, layer by layer, `record; record; step` is the model's ivp_loop *)
Lemma ivp_fold_sim (F : st4 -> nat -> st4) lx ly levels dL : forall (Ls : list layer) j p q rp rq,
  length rp = length levels -> length rq = length levels ->
  (forall i p q rp rq, (i < length Ls)%nat -> length rp = length levels -> length rq = length levels ->
     F (p, q, rp, rq) (j + i)%nat
     = (fst (step lx ly (nth i Ls dL) (p, q)), snd (step lx ly (nth i Ls dL) (p, q)),
        record levels (j + i) p rp, record levels (j + i) q rq)) ->
  fold_left F (seq j (length Ls)) (p, q, rp, rq) = flat4 O (ivp_loop O lx ly Ls j levels (p, q) rp rq).
Proof.
  induction Ls as [|La r IH]; intros j p q rp rq Hp Hq HF; [reflexivity|].
  cbn [length seq fold_left ivp_loop fst snd].
  pose proof (HF 0%nat p q rp rq ltac:(cbn [length]; lia) Hp Hq) as H0.
  rewrite Nat.add_0_r in H0. cbn [nth] in H0. rewrite H0.
  rewrite IH.
  - rewrite <- surjective_pairing. reflexivity.
  - apply record_length'; exact Hp.
  - apply record_length'; exact Hq.
  - intros i p' q' rp' rq' Hi Hp' Hq'.
    pose proof (HF (S i) p' q' rp' rq' ltac:(cbn [length]; lia) Hp' Hq') as HS.
    rewrite Nat.add_succ_r in HS. cbn [nth] in HS. exact HS.
Qed.

(* ... with the layers read off the profile arrays by index, as the code does *)
Lemma ivp_fold_bridge (F : st4 -> nat -> st4) lx ly (u v Kx Ky Kz z : list C) levels p0 q0 rp rq :
  (length z - 1 <= length u)%nat -> (length z - 1 <= length v)%nat -> (length z - 1 <= length Kx)%nat ->
  (length z - 1 <= length Ky)%nat -> (length z - 1 <= length Kz)%nat ->
  length rp = length levels -> length rq = length levels ->
  (forall i p q rp rq, (i < length z - 1)%nat -> length rp = length levels -> length rq = length levels ->
     F (p, q, rp, rq) i
     = (let s := step lx ly (mkLayer O (nth i Kx zero) (nth i Ky zero) (nth i u zero) (nth i v zero)
                                      (nth i Kz zero) (nth i (diffs O z) zero)) (p, q) in
        (fst s, snd s, record levels i p rp, record levels i q rq))) ->
  fold_left F (seq 0 (length z - 1)) (p0, q0, rp, rq)
  = flat4 O (ivp_loop O lx ly (layers_of O z (mkProf O u v Kx Ky Kz)) 0%nat levels (p0, q0) rp rq).
Proof.
  intros Hu Hv HKx HKy HKz Hp Hq HF.
  pose proof (diffs_length z) as Hd.
  assert (Hlen : length (layers_of O z (mkProf O u v Kx Ky Kz)) = (length z - 1)%nat).
  { unfold layers_of. cbn [p_Kx p_Ky p_u p_v p_Kz]. rewrite mk_layers_length; rewrite ?Hd; auto. }
  rewrite <- Hlen.
  apply (ivp_fold_sim F lx ly levels (mkLayer O zero zero zero zero zero zero)); [exact Hp|exact Hq|].
  intros i p q rp' rq' Hi Hp' Hq'. rewrite Hlen in Hi. cbn [Nat.add].
  rewrite (HF i p q rp' rq' Hi Hp' Hq'). cbv zeta.
  unfold layers_of. cbn [p_Kx p_Ky p_u p_v p_Kz].
  rewrite mk_layers_nth by (rewrite ?Hd; auto). reflexivity.
Qed.

Lemma layers_of_length (u v Kx Ky Kz z : list C) :
  (length z - 1 <= length u)%nat -> (length z - 1 <= length v)%nat -> (length z - 1 <= length Kx)%nat ->
  (length z - 1 <= length Ky)%nat -> (length z - 1 <= length Kz)%nat ->
  length (layers_of O z (mkProf O u v Kx Ky Kz)) = (length z - 1)%nat.
Proof.
  intros Hu Hv HKx HKy HKz. pose proof (diffs_length z) as Hd.
  unfold layers_of. cbn [p_Kx p_Ky p_u p_v p_Kz]. rewrite mk_layers_length; rewrite ?Hd; auto.
Qed.

(* ---------------------------------------------------------------- the mean-mode loop *)

Lemma mean_fold_sim (F : C * list C -> nat -> C * list C) q00 levels : forall (dzs Kzs : list C) j p r,
  (length dzs < length Kzs)%nat -> length r = length levels ->
  (forall i p r, (i < length dzs)%nat -> length r = length levels ->
     F (p, r) (j + i)%nat
     = (mean_update O p q00 (nth i dzs zero) (nth i Kzs zero) (nth (S i) Kzs zero), record levels (j + i) p r)) ->
  (let s := fold_left F (seq j (length dzs)) (p, r) in (fst s, record levels (j + length dzs) (fst s) (snd s)))
  = mean_loop O q00 dzs Kzs j levels p r.
Proof.
  induction dzs as [|dz dzs IH]; intros Kzs j p r HK Hr HF; cbv zeta.
  - cbn [length seq fold_left fst snd]. rewrite Nat.add_0_r. destruct Kzs; reflexivity.
  - destruct Kzs as [|Kz0 [|Kz1 Kzs]]; cbn [length] in HK; try lia.
    cbn [length seq fold_left mean_loop].
    pose proof (HF 0%nat p r ltac:(cbn [length]; lia) Hr) as H0.
    rewrite Nat.add_0_r in H0. cbn [nth] in H0. rewrite H0.
    specialize (IH (Kz1 :: Kzs) (S j) (mean_update O p q00 dz Kz0 Kz1) (record levels j p r)).
    cbv zeta in IH. rewrite Nat.add_succ_r. cbn [Nat.add] in IH. rewrite <- IH.
    + reflexivity.
    + cbn [length]. lia.
    + apply record_length'. exact Hr.
    + intros i p' r' Hi Hr'.
      pose proof (HF (S i) p' r' ltac:(cbn [length]; lia) Hr') as HS.
      rewrite Nat.add_succ_r in HS. cbn [nth] in HS. exact HS.
Qed.

Lemma mean_fold_bridge (F : C * list C -> nat -> C * list C) q00 (z Kz : list C) levels p000 rec :
  (length z <= length Kz)%nat -> (1 <= length z)%nat -> length rec = length levels ->
  (forall i p r, (i < length z - 1)%nat -> length r = length levels ->
     F (p, r) i = (mean_update O p q00 (nth i (diffs O z) zero) (nth i Kz zero) (nth (S i) Kz zero), record levels i p r)) ->
  (let s := fold_left F (seq 0 (length z - 1)) (p000, rec) in (fst s, record levels (length z - 1) (fst s) (snd s)))
  = mean_loop O q00 (diffs O z) Kz 0%nat levels p000 rec.
Proof.
  intros HK Hz Hr HF. pose proof (diffs_length z) as Hd.
  pose proof (mean_fold_sim F q00 levels (diffs O z) Kz 0%nat p000 rec) as H.
  rewrite Hd in H. cbn [Nat.add] in H. apply H; [lia|exact Hr|exact HF].
Qed.

Lemma mean_fold_length (F : C * list C -> nat -> C * list C) (levels : list nat) : forall (l : list nat) p r,
  length r = length levels ->
  (forall i p r, In i l -> length r = length levels -> length (snd (F (p, r) i)) = length levels) ->
  length (snd (fold_left F l (p, r))) = length levels.
Proof.
  induction l as [|i l IH]; intros p r Hr HF; [exact Hr|]. cbn [fold_left].
  pose proof (HF i p r (or_introl eq_refl) Hr) as H1.
  destruct (F (p, r) i) as [p' r'] eqn:E. cbn [snd] in H1.
  apply IH; [exact H1|]. intros i' p'' r'' Hi Hr''. apply HF; [right; exact Hi|exact Hr''].
Qed.

End Kernel.
