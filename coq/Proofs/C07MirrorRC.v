(* C07, array level, dispersion mode WITH the re-centring shift (measurement point other than the
   origin), double storage.

   In dispersion mode a measurement point (xm, ym) with xm^2 + ym^2 > 0 multiplies every retained
   amplitude by  cis (Lx (xm - xmx/2) + Ly (ym - ymx/2)):  the output grid is translated so that the
   DOMAIN CENTRE xmx/2 carries the field value at xm.  The cell mirror  i -> nx-1-i  is the reflection
   x -> (nx-1) dx - x  of the cell coordinates; it does not fix xmx/2 (it fixes (xmx - dx)/2).  Writing
   F for the unshifted field, the solve returns  out(x_i) = F (x_i + xm - xmx/2), and the mirrored
   request returns  out'(x_i) = F' (x_i + xm' - xmx/2)  with  F'(x) = F ((nx-1) dx - x).  Hence
   out'(x_i) = out (x_(nx-1-i))  for all i  iff   - xm' + xmx/2 = xm - xmx/2,  i.e.

        xm' = xmx - xm          (NOT the grid reflection (nx-1) dx - xm = xmx - dx - xm,
                                 which is the right reflected tower in FOOTPRINT mode)

   and the same with ym' = ymx - ym for the mirror in y.  No on-grid or parity hypothesis on the
   measurement point is needed (the shift is a phase factor, any real xm), and the statement holds
   for every halo / pad.  What IS needed: the reflected point must itself be re-centred, i.e. the
   code's guard xm'^2 + ym^2 > 0 must hold for it too (for xm = xmx, ym = 0 the reflected point is
   the origin, which the code treats as "no re-centring" — the mirror statement is false there).

   Three forms as in C07Mirror.v: without the unpaired Nyquist column; exact defect identity for the
   returned arrays; returned arrays themselves for an odd (clamped) mode count.  Same for y. *)
From Coq Require Import ZArith List Field Ring Lia Bool Arith.
From BL Require Import Base.Ops Base.Laws Model.Solver Proofs.Sums Proofs.StepProofs Proofs.ModeProofs Proofs.Dft Proofs.SpecProofs Proofs.C04Proofs Proofs.C06Proofs Proofs.C07Proofs Proofs.C07Array Proofs.C07Mirror.
Import ListNotations.
Set Default Proof Using "All".

Section C07RC.
Variable O : Ops.
Hypothesis L : Laws O.
Notation C := (C O).
Notation "0" := (c0 O) : ops_scope. Notation "1" := (c1 O) : ops_scope.
Infix "+" := (cadd O) : ops_scope. Infix "*" := (cmul O) : ops_scope.
Infix "-" := (csub O) : ops_scope. Infix "/" := (cdiv O) : ops_scope.
Notation "- x" := (copp O x) : ops_scope.
Local Open Scope ops_scope.
Add Field OFc7rc : (L_field O L).
Notation ofZ := (cofZ O).
Notation ofN n := (cofZ O (Z.of_nat n)).
Notation args := (args O).
Notation geom := (geom O).

(* the code's guard `xm**2 + ym**2 > 0.0` of the re-centring branch *)
Definition recentred (a : args) : bool := cltb O 0 (a_xm O a * a_xm O a + a_ym O a * a_ym O a).

(* the x-mirrored request of a re-centred dispersion solve: rows reversed, u negated,
   measurement point reflected about the domain centre: xm' = xmx - xm *)
Definition mirror_rc_args (a : args) : args :=
  mkArgs O (map (@rev C) (a_q0 O a)) (a_z O a) (mirror_prof O (a_prof O a))
         (a_xmx O a) (a_ymx O a) (a_levels O a) (a_nlx O a) (a_nly O a)
         (a_xmx O a - a_xm O a) (a_ym O a)
         (a_p000 O a) (a_footprint O a) (a_analytic O a) (a_halo O a) (a_single O a).

(* the y-mirrored request: row order reversed, v negated, ym' = ymx - ym *)
Definition mirror_y_rc_args (a : args) : args :=
  mkArgs O (rev (a_q0 O a)) (a_z O a) (mirror_y_prof O (a_prof O a))
         (a_xmx O a) (a_ymx O a) (a_levels O a) (a_nlx O a) (a_nly O a)
         (a_xm O a) (a_ymx O a - a_ym O a)
         (a_p000 O a) (a_footprint O a) (a_analytic O a) (a_halo O a) (a_single O a).

(* they differ from mirror_args / mirror_y_args of C07Mirror.v in the measurement point only *)
Lemma mirror_rc_as_with_meas a :
  mirror_rc_args a = with_meas O (mirror_args O a) (a_xmx O a - a_xm O a) (a_ym O a).
Proof. reflexivity. Qed.

Lemma mirror_y_rc_as_with_meas a :
  mirror_y_rc_args a = with_meas O (mirror_y_args O a) (a_xm O a) (a_ymx O a - a_ym O a).
Proof. reflexivity. Qed.

Theorem mirror_rc_geometry (a : args) : geometry O (mirror_rc_args a) = geometry O a.
Proof. rewrite <- (mirror_geometry O L a). reflexivity. Qed.

Theorem mirror_y_rc_geometry (a : args) : wf O a -> geometry O (mirror_y_rc_args a) = geometry O a.
Proof. intros Hwf. rewrite <- (mirror_y_geometry O L a Hwf). reflexivity. Qed.

(* reflecting twice gives the original measurement point back *)
Lemma mirror_rc_xm_involutive a : a_xmx O a - (a_xmx O a - a_xm O a) = a_xm O a.
Proof. ring. Qed.

(* ---------------------------------------------------------------- the re-centring factor *)

(* -lx (xmx - xm - xmx/2) = lx (xm - xmx/2) *)
Lemma shift_arg_ctr_reflect_x lx ly xm ym xmx ymx :
  shift_arg_ctr O (- lx) ly (xmx - xm) ym xmx ymx = shift_arg_ctr O lx ly xm ym xmx ymx.
Proof.
  unfold shift_arg_ctr, two. rewrite (ofZ_2 O L). field. apply (two_nz O L).
Qed.

Lemma shift_arg_ctr_reflect_y lx ly xm ym xmx ymx :
  shift_arg_ctr O lx (- ly) xm (ymx - ym) xmx ymx = shift_arg_ctr O lx ly xm ym xmx ymx.
Proof.
  unfold shift_arg_ctr, two. rewrite (ofZ_2 O L). field. apply (two_nz O L).
Qed.

(* the factor of the mirrored request at -kx is the factor of the original at kx *)
Lemma shift_mirror_rc a g tx tx' ty :
  a_footprint O a = false -> recentred a = true -> recentred (mirror_rc_args a) = true ->
  fftfreq (g_nlx O g) tx' = (- fftfreq (g_nlx O g) tx)%Z ->
  shift O (mirror_rc_args a) g tx' ty = shift O a g tx ty.
Proof.
  intros Hfp Hc Hc' Hf. unfold recentred in Hc, Hc'. unfold shift.
  cbn [a_footprint a_xm a_ym a_xmx a_ymx mirror_rc_args] in *. rewrite Hfp, Hc, Hc', Hf.
  rewrite (wavenumber_opp O L), shift_arg_ctr_reflect_x. reflexivity.
Qed.

Lemma shift_mirror_y_rc a g tx ty ty' :
  a_footprint O a = false -> recentred a = true -> recentred (mirror_y_rc_args a) = true ->
  fftfreq (g_nly O g) ty' = (- fftfreq (g_nly O g) ty)%Z ->
  shift O (mirror_y_rc_args a) g tx ty' = shift O a g tx ty.
Proof.
  intros Hfp Hc Hc' Hf. unfold recentred in Hc, Hc'. unfold shift.
  cbn [a_footprint a_xm a_ym a_xmx a_ymx mirror_y_rc_args] in *. rewrite Hfp, Hc, Hc', Hf.
  rewrite (wavenumber_opp O L), shift_arg_ctr_reflect_y. reflexivity.
Qed.

(* ---------------------------------------------------------------- one mode's contribution *)

Lemma term_mirror_rc a g sel k j i tx ty :
  (forall pq s, sel (fst pq * s, snd pq * s) = sel pq * s) ->
  wf O a -> geometry O a = inl g ->
  a_footprint O a = false -> a_single O a = false ->
  recentred a = true -> recentred (mirror_rc_args a) = true ->
  (k < length (a_levels O a))%nat -> (i < g_nx O g)%nat ->
  (tx < g_nlx O g)%nat -> (2 * tx <> g_nlx O g)%nat ->
  term O (mirror_rc_args a) g sel k (i + g_px O g) j (nidx (g_nlx O g) tx, ty)
  = term O a g sel k (g_nx O g - 1 - i + g_px O g) j (tx, ty).
Proof.
  intros Hsel Hwf Hg Hfp Hprec Hc Hc' Hk Hi Htx Hny.
  destruct (geometry_inv O L a g Hg) as (_ & _ & _ & _ & _ & Exe & _).
  pose proof (fftfreq_nidx _ _ Htx Hny) as Hf.
  unfold term. cbn [fst snd].
  rewrite (shift_mirror_rc a g tx _ ty Hfp Hc Hc' Hf).
  change (a_footprint O (mirror_rc_args a)) with (a_footprint O a).
  change (spectrum O (mirror_rc_args a) g) with (spectrum O (mirror_args O a) g).
  rewrite Hf, Hfp. set (kx := fftfreq (g_nlx O g) tx). set (ky := fftfreq (g_nly O g) ty).
  rewrite (spectrum_mirror_disp O L a g sel k tx ty Hsel Hwf Hg Hfp Hprec Hk Htx Hny). fold kx.
  rewrite !(cis_phase O L).
  replace (kx * Z.of_nat (g_nx O g - 1 - i + g_px O g))%Z
    with (- - kx * Z.of_nat (g_nx O g - 1 - i + g_px O g))%Z by (rewrite Z.opp_involutive; reflexivity).
  rewrite <- (root_reflect O L (g_nxe O g) (g_nx O g) (g_px O g) (- kx)%Z i Exe Hi). ring.
Qed.

Lemma term_mirror_y_rc a g sel k j i tx ty :
  (forall pq s, sel (fst pq * s, snd pq * s) = sel pq * s) ->
  wf O a -> geometry O a = inl g ->
  a_footprint O a = false -> a_single O a = false ->
  recentred a = true -> recentred (mirror_y_rc_args a) = true ->
  (k < length (a_levels O a))%nat -> (j < g_ny O g)%nat ->
  (ty < g_nly O g)%nat -> (2 * ty <> g_nly O g)%nat ->
  term O (mirror_y_rc_args a) g sel k i (j + g_py O g) (tx, nidx (g_nly O g) ty)
  = term O a g sel k i (g_ny O g - 1 - j + g_py O g) (tx, ty).
Proof.
  intros Hsel Hwf Hg Hfp Hprec Hc Hc' Hk Hj Hty Hny.
  destruct (geometry_inv O L a g Hg) as (_ & _ & _ & _ & _ & _ & Eye & _).
  pose proof (fftfreq_nidx _ _ Hty Hny) as Hf.
  unfold term. cbn [fst snd].
  rewrite (shift_mirror_y_rc a g tx ty _ Hfp Hc Hc' Hf).
  change (a_footprint O (mirror_y_rc_args a)) with (a_footprint O a).
  change (spectrum O (mirror_y_rc_args a) g) with (spectrum O (mirror_y_args O a) g).
  rewrite Hf, Hfp. set (kx := fftfreq (g_nlx O g) tx). set (ky := fftfreq (g_nly O g) ty).
  rewrite (spectrum_mirror_y_disp O L a g sel k tx ty Hsel Hwf Hg Hfp Hprec Hk Hty Hny). fold ky.
  rewrite !(cis_phase O L).
  replace (ky * Z.of_nat (g_ny O g - 1 - j + g_py O g))%Z
    with (- - ky * Z.of_nat (g_ny O g - 1 - j + g_py O g))%Z by (rewrite Z.opp_involutive; reflexivity).
  rewrite <- (root_reflect O L (g_nye O g) (g_ny O g) (g_py O g) (- ky)%Z j Eye Hj). ring.
Qed.

(* ---------------------------------------------------------------- the theorems, x *)

(* (1) without the unpaired column *)
Theorem mirror_x_rc_cells (a : args) (g : geom) sel k j i :
  (forall pq s, sel (fst pq * s, snd pq * s) = sel pq * s) ->
  wf O a -> geometry O a = inl g ->
  a_footprint O a = false -> a_single O a = false ->
  recentred a = true -> recentred (mirror_rc_args a) = true ->
  (k < length (a_levels O a))%nat -> (j < g_ny O g)%nat -> (i < g_nx O g)%nat ->
  get3 O (field O (mirror_rc_args a) g sel (table_noNyq O (mirror_rc_args a) g)) k j i
  = get3 O (field O a g sel (table_noNyq O a g)) k j (g_nx O g - 1 - i).
Proof.
  intros Hsel Hwf Hg Hfp Hprec Hc Hc' Hk Hj Hi.
  rewrite (field_get O L a g) by (try assumption; lia).
  rewrite (field_get O L (mirror_rc_args a) g) by (cbn [a_levels mirror_rc_args]; assumption).
  rewrite !(synth_noNyq O L) by (cbn [a_levels mirror_rc_args]; assumption).
  f_equal. apply (csum_map_ext O L). intros ty _.
  rewrite <- (csum_reflect O L (g_nlx O g) (fun tx =>
     if keepf (g_nlx O g) (fftfreq (g_nlx O g) tx)
     then term O (mirror_rc_args a) g sel k (i + g_px O g) (j + g_py O g) (tx, ty) else 0)).
  apply (csum_map_ext O L). intros tx Htx. apply in_seq in Htx.
  rewrite keepf_nidx by lia.
  destruct (keepf (g_nlx O g) (fftfreq (g_nlx O g) tx)) eqn:Ekeep; [|reflexivity].
  apply keepf_spec in Ekeep; [|lia].
  apply term_mirror_rc; try assumption. lia.
Qed.

(* (1') even retained count: the dropped entries are exactly those of x-frequency -nlx/2 *)
Theorem mirror_x_rc_cells_even (a : args) (g : geom) sel k j i :
  (forall pq s, sel (fst pq * s, snd pq * s) = sel pq * s) ->
  wf O a -> geometry O a = inl g ->
  a_footprint O a = false -> a_single O a = false ->
  recentred a = true -> recentred (mirror_rc_args a) = true ->
  Nat.even (g_nlx O g) = true ->
  (k < length (a_levels O a))%nat -> (j < g_ny O g)%nat -> (i < g_nx O g)%nat ->
  let drop := fun e : (Z * Z) * list (C * C) => negb (fst (fst e) =? - Z.of_nat (g_nlx O g / 2))%Z in
  get3 O (field O (mirror_rc_args a) g sel (filter drop (table O (mirror_rc_args a) g))) k j i
  = get3 O (field O a g sel (filter drop (table O a g))) k j (g_nx O g - 1 - i).
Proof.
  intros Hsel Hwf Hg Hfp Hprec Hc Hc' He Hk Hj Hi drop. subst drop.
  rewrite <- !(table_noNyq_even O L) by exact He. apply mirror_x_rc_cells; assumption.
Qed.

(* (3) odd retained count: the returned arrays themselves *)
Theorem mirror_x_rc_cells_odd (a : args) (g : geom) sel k j i :
  (forall pq s, sel (fst pq * s, snd pq * s) = sel pq * s) ->
  wf O a -> geometry O a = inl g ->
  a_footprint O a = false -> a_single O a = false ->
  recentred a = true -> recentred (mirror_rc_args a) = true ->
  Nat.odd (g_nlx O g) = true ->
  (k < length (a_levels O a))%nat -> (j < g_ny O g)%nat -> (i < g_nx O g)%nat ->
  get3 O (field O (mirror_rc_args a) g sel (table O (mirror_rc_args a) g)) k j i
  = get3 O (field O a g sel (table O a g)) k j (g_nx O g - 1 - i).
Proof.
  intros Hsel Hwf Hg Hfp Hprec Hc Hc' Ho Hk Hj Hi.
  rewrite <- !(table_noNyq_odd O L) by exact Ho. apply mirror_x_rc_cells; assumption.
Qed.

(* (2) the mirror defect of the returned arrays is that of the Nyquist column's contribution *)
Theorem mirror_x_rc_cells_defect (a : args) (g : geom) sel k j i :
  (forall pq s, sel (fst pq * s, snd pq * s) = sel pq * s) ->
  wf O a -> geometry O a = inl g ->
  a_footprint O a = false -> a_single O a = false ->
  recentred a = true -> recentred (mirror_rc_args a) = true ->
  (k < length (a_levels O a))%nat -> (j < g_ny O g)%nat -> (i < g_nx O g)%nat ->
  get3 O (field O (mirror_rc_args a) g sel (table O (mirror_rc_args a) g)) k j i
  - get3 O (field O a g sel (table O a g)) k j (g_nx O g - 1 - i)
  = get3 O (field O (mirror_rc_args a) g sel (table_Nyq O (mirror_rc_args a) g)) k j i
    - get3 O (field O a g sel (table_Nyq O a g)) k j (g_nx O g - 1 - i).
Proof.
  intros Hsel Hwf Hg Hfp Hprec Hc Hc' Hk Hj Hi.
  rewrite (field_Nyq_split O L a g sel k j (g_nx O g - 1 - i)) by (try assumption; lia).
  rewrite (field_Nyq_split O L (mirror_rc_args a) g sel k j i) by (cbn [a_levels mirror_rc_args]; assumption).
  rewrite (mirror_x_rc_cells a g sel k j i) by assumption. ring.
Qed.

(* ---------------------------------------------------------------- the theorems, y *)

Theorem mirror_y_rc_cells (a : args) (g : geom) sel k j i :
  (forall pq s, sel (fst pq * s, snd pq * s) = sel pq * s) ->
  wf O a -> geometry O a = inl g ->
  a_footprint O a = false -> a_single O a = false ->
  recentred a = true -> recentred (mirror_y_rc_args a) = true ->
  (k < length (a_levels O a))%nat -> (j < g_ny O g)%nat -> (i < g_nx O g)%nat ->
  get3 O (field O (mirror_y_rc_args a) g sel (table_noNyq_y O (mirror_y_rc_args a) g)) k j i
  = get3 O (field O a g sel (table_noNyq_y O a g)) k (g_ny O g - 1 - j) i.
Proof.
  intros Hsel Hwf Hg Hfp Hprec Hc Hc' Hk Hj Hi.
  rewrite (field_get O L a g) by (try assumption; lia).
  rewrite (field_get O L (mirror_y_rc_args a) g) by (cbn [a_levels mirror_y_rc_args]; assumption).
  rewrite !(synth_noNyq_y O L) by (cbn [a_levels mirror_y_rc_args]; assumption).
  f_equal.
  rewrite <- (csum_reflect O L (g_nly O g) (fun ty => csum O (map (fun tx =>
     if keepf (g_nly O g) (fftfreq (g_nly O g) ty)
     then term O (mirror_y_rc_args a) g sel k (i + g_px O g) (j + g_py O g) (tx, ty) else 0)
     (seq 0 (g_nlx O g))))).
  apply (csum_map_ext O L). intros ty Hty. apply in_seq in Hty.
  apply (csum_map_ext O L). intros tx _.
  rewrite keepf_nidx by lia.
  destruct (keepf (g_nly O g) (fftfreq (g_nly O g) ty)) eqn:Ekeep; [|reflexivity].
  apply keepf_spec in Ekeep; [|lia].
  apply term_mirror_y_rc; try assumption. lia.
Qed.

Theorem mirror_y_rc_cells_even (a : args) (g : geom) sel k j i :
  (forall pq s, sel (fst pq * s, snd pq * s) = sel pq * s) ->
  wf O a -> geometry O a = inl g ->
  a_footprint O a = false -> a_single O a = false ->
  recentred a = true -> recentred (mirror_y_rc_args a) = true ->
  Nat.even (g_nly O g) = true ->
  (k < length (a_levels O a))%nat -> (j < g_ny O g)%nat -> (i < g_nx O g)%nat ->
  let drop := fun e : (Z * Z) * list (C * C) => negb (snd (fst e) =? - Z.of_nat (g_nly O g / 2))%Z in
  get3 O (field O (mirror_y_rc_args a) g sel (filter drop (table O (mirror_y_rc_args a) g))) k j i
  = get3 O (field O a g sel (filter drop (table O a g))) k (g_ny O g - 1 - j) i.
Proof.
  intros Hsel Hwf Hg Hfp Hprec Hc Hc' He Hk Hj Hi drop. subst drop.
  rewrite <- !(table_noNyq_y_even O L) by exact He. apply mirror_y_rc_cells; assumption.
Qed.

Theorem mirror_y_rc_cells_odd (a : args) (g : geom) sel k j i :
  (forall pq s, sel (fst pq * s, snd pq * s) = sel pq * s) ->
  wf O a -> geometry O a = inl g ->
  a_footprint O a = false -> a_single O a = false ->
  recentred a = true -> recentred (mirror_y_rc_args a) = true ->
  Nat.odd (g_nly O g) = true ->
  (k < length (a_levels O a))%nat -> (j < g_ny O g)%nat -> (i < g_nx O g)%nat ->
  get3 O (field O (mirror_y_rc_args a) g sel (table O (mirror_y_rc_args a) g)) k j i
  = get3 O (field O a g sel (table O a g)) k (g_ny O g - 1 - j) i.
Proof.
  intros Hsel Hwf Hg Hfp Hprec Hc Hc' Ho Hk Hj Hi.
  rewrite <- !(table_noNyq_y_odd O L) by exact Ho. apply mirror_y_rc_cells; assumption.
Qed.

Theorem mirror_y_rc_cells_defect (a : args) (g : geom) sel k j i :
  (forall pq s, sel (fst pq * s, snd pq * s) = sel pq * s) ->
  wf O a -> geometry O a = inl g ->
  a_footprint O a = false -> a_single O a = false ->
  recentred a = true -> recentred (mirror_y_rc_args a) = true ->
  (k < length (a_levels O a))%nat -> (j < g_ny O g)%nat -> (i < g_nx O g)%nat ->
  get3 O (field O (mirror_y_rc_args a) g sel (table O (mirror_y_rc_args a) g)) k j i
  - get3 O (field O a g sel (table O a g)) k (g_ny O g - 1 - j) i
  = get3 O (field O (mirror_y_rc_args a) g sel (table_Nyq_y O (mirror_y_rc_args a) g)) k j i
    - get3 O (field O a g sel (table_Nyq_y O a g)) k (g_ny O g - 1 - j) i.
Proof.
  intros Hsel Hwf Hg Hfp Hprec Hc Hc' Hk Hj Hi.
  rewrite (field_Nyq_y_split O L a g sel k (g_ny O g - 1 - j) i) by (try assumption; lia).
  rewrite (field_Nyq_y_split O L (mirror_y_rc_args a) g sel k j i) by (cbn [a_levels mirror_y_rc_args]; assumption).
  rewrite (mirror_y_rc_cells a g sel k j i) by assumption. ring.
Qed.

End C07RC.
