(* The hypothesis of Proofs/RoundedScaling.v is satisfiable by a genuine floating-point rounding:
   rounding to `prec` significant binary digits with unbounded exponent range (Flocq's FLX format, i.e. IEEE
   binary arithmetic away from overflow and the subnormal range), ANY rounding direction / tie-breaking rule, is
   homogeneous for every power of two. *)
From Coq Require Import ZArith Reals Lra Lia.
From Flocq Require Import Core.
From BL Require Import Base.RoundedOps Proofs.RoundedScaling.
Local Open Scope R_scope.

Section FLX.
Variable prec : Z.
Variable rndZ : R -> Z.
Context {valid_rnd : Valid_rnd rndZ}.
Notation rnd_flx := (round radix2 (FLX_exp prec) rndZ).

Lemma round_FLX_mult_bpow (x : R) (e : Z) : rnd_flx (x * bpow radix2 e) = rnd_flx x * bpow radix2 e.
Proof.
  destruct (Req_dec x 0) as [->|Hx].
  - rewrite Rmult_0_l, round_0 by exact valid_rnd. ring.
  - unfold round, F2R, scaled_mantissa. cbn [Fnum Fexp].
    assert (Hc : cexp radix2 (FLX_exp prec) (x * bpow radix2 e) = (cexp radix2 (FLX_exp prec) x + e)%Z).
    { unfold cexp, FLX_exp. rewrite mag_mult_bpow by exact Hx. lia. }
    rewrite Hc. rewrite Z.opp_add_distr, !bpow_plus.
    replace (x * bpow radix2 e * (bpow radix2 (- cexp radix2 (FLX_exp prec) x) * bpow radix2 (- e)))
      with (x * bpow radix2 (- cexp radix2 (FLX_exp prec) x) * (bpow radix2 e * bpow radix2 (- e))) by ring.
    rewrite <- (bpow_plus radix2 e (- e)), Z.add_opp_diag_r. cbn [bpow]. rewrite Rmult_1_r. ring.
Qed.

Theorem binary_rounding_hom (e : Z) : hom rnd_flx (bpow radix2 e).
Proof. intros x. rewrite (Rmult_comm (bpow radix2 e) x), round_FLX_mult_bpow. ring. Qed.
End FLX.

(* double arithmetic, single storage, round to nearest even; exp/cos/sin: the mathematical functions rounded *)
Definition rn53 : R -> R := round radix2 (FLX_exp 53) ZnearestE.
Definition rn24 : R -> R := round radix2 (FLX_exp 24) ZnearestE.
Definition BinaryMode : RMode := mkRMode rn53 rn24 (fun x => rn53 (exp x)) (fun x => rn53 (cos x)) (fun x => rn53 (sin x)).

Lemma BinaryMode_hom (e : Z) :
  bpow radix2 e <> 0 /\ 0 < bpow radix2 e /\ hom (rnd BinaryMode) (bpow radix2 e) /\ hom (rnd32 BinaryMode) (bpow radix2 e).
Proof.
  pose proof (bpow_gt_0 radix2 e) as Hp. repeat split; try lra.
  - apply (binary_rounding_hom 53 ZnearestE e).
  - apply (binary_rounding_hom 24 ZnearestE e).
Qed.

(* rounding to nearest even is odd, so the NEGATIVE powers of two qualify as well (C04 homogeneity is stated for s <> 0) *)
Lemma nearest_even_hom_neg (prec : Z) (e : Z) : (0 < prec)%Z ->
  hom (round radix2 (FLX_exp prec) ZnearestE) (- bpow radix2 e).
Proof.
  intros Hp x. replace (- bpow radix2 e * x) with (- (bpow radix2 e * x)) by ring.
  assert (V : Valid_exp (FLX_exp prec)) by (apply FLX_exp_valid; exact Hp).
  rewrite round_NE_opp. rewrite (binary_rounding_hom prec ZnearestE e x). ring.
Qed.

Lemma BinaryMode_hom_neg (e : Z) :
  - bpow radix2 e <> 0 /\ hom (rnd BinaryMode) (- bpow radix2 e) /\ hom (rnd32 BinaryMode) (- bpow radix2 e).
Proof.
  pose proof (bpow_gt_0 radix2 e) as Hp. repeat split; try lra.
  - apply nearest_even_hom_neg. reflexivity.
  - apply nearest_even_hom_neg. reflexivity.
Qed.

(* exact real arithmetic is the mode with the identity rounding: every factor qualifies, so the theorems also give the
   whole-result similarity laws over the reals (pairs with the textbook formulas) for EVERY real factor *)
Lemma ExactMode_hom (s : R) : hom (rnd ExactMode) s /\ hom (rnd32 ExactMode) s.
Proof. split; intros x; reflexivity. Qed.

(* the rounding is not the identity: 2^53 + 1 is not a binary64 number *)
Lemma rn53_not_identity : rn53 (bpow radix2 53 + 1) <> bpow radix2 53 + 1.
Proof.
  intros E.
  assert (G : generic_format radix2 (FLX_exp 53) (bpow radix2 53 + 1)).
  { rewrite <- E. apply generic_format_round; [apply FLX_exp_valid; reflexivity|apply valid_rnd_N]. }
  assert (Hm : mag radix2 (bpow radix2 53 + 1) = 54%Z :> Z).
  { apply mag_unique. rewrite Rabs_pos_eq by (pose proof (bpow_gt_0 radix2 53); lra).
    change (54 - 1)%Z with 53%Z. change 54%Z with (53 + 1)%Z. rewrite (bpow_plus radix2 53 1).
    pose proof (bpow_gt_0 radix2 53) as Hp. assert (H1 : 1 < bpow radix2 53).
    { apply (bpow_lt radix2 0 53). reflexivity. }
    cbn [bpow Z.pow_pos Pos.iter radix_val radix2 Z.mul Pos.mul] in *. split; lra. }
  unfold generic_format, F2R, scaled_mantissa, cexp, FLX_exp in G. cbn [Fnum Fexp] in G. rewrite Hm in G.
  change (54 - 53)%Z with 1%Z in G. change (- (1))%Z with (-1)%Z in G.
  (* (2^53 + 1) / 2 = 2^52 + 1/2 truncates to 2^52 *)
  assert (Ht : Ztrunc ((bpow radix2 53 + 1) * bpow radix2 (-1)) = (2 ^ 52)%Z).
  { rewrite Ztrunc_floor.
    - apply Zfloor_imp. change (bpow radix2 (-1)) with (/ 2). change 53%Z with (52 + 1)%Z. rewrite bpow_plus.
      change (bpow radix2 1) with 2. rewrite plus_IZR. rewrite <- (IZR_Zpower radix2 52) by lia. cbn [radix_val radix2].
      change (IZR (radix_val radix2)) with 2. split; [|]; lra.
    - apply Rmult_le_pos; [pose proof (bpow_gt_0 radix2 53); lra|apply bpow_ge_0]. }
  rewrite Ht in G. change (bpow radix2 53) with (IZR (2 ^ 53)) in G. change (bpow radix2 1) with (IZR 2) in G.
  rewrite <- plus_IZR, <- mult_IZR in G. apply eq_IZR in G. vm_compute in G. discriminate G.
Qed.
