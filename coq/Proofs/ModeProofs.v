(* What Solver.mode_levels_q / mean_levels_q return, slot by slot (C10, C03 mean concentration,
   C04 per-mode linearity, C05 closed forms). *)
From Coq Require Import ZArith List Field Ring Lia Bool Arith.
From BL Require Import Base.Ops Base.Laws Model.Solver Proofs.Sums Proofs.StepProofs.
Import ListNotations.
Set Default Proof Using "All".

Section Mode.
Variable O : Ops.
Hypothesis L : Laws O.
Notation C := (C O).
Notation "0" := (c0 O) : ops_scope. Notation "1" := (c1 O) : ops_scope.
Infix "+" := (cadd O) : ops_scope. Infix "*" := (cmul O) : ops_scope.
Infix "-" := (csub O) : ops_scope. Infix "/" := (cdiv O) : ops_scope.
Notation "- x" := (copp O x) : ops_scope.
Local Open Scope ops_scope.
Add Field OFm : (L_field O L).

Notation args := (args O).
Notation geom := (geom O).

(* the quantities mode_levels_q computes first *)
Definition m_lx (g : geom) (tx : nat) : C := wavenumber O (g_dx O g) (g_nxe O g) (fftfreq (g_nlx O g) tx).
Definition m_ly (g : geom) (ty : nat) : C := wavenumber O (g_dy O g) (g_nye O g) (fftfreq (g_nly O g) ty).
Definition m_KzN (a : args) (g : geom) : C := topN O (p_Kz O (a_prof O a)) (g_nz O g).
Definition m_eig (a : args) (g : geom) (tx ty : nat) : C :=
  let pr := a_prof O a in let nz := g_nz O g in
  eigval O (topN O (p_Kx O pr) nz) (topN O (p_Ky O pr) nz) (topN O (p_u O pr) nz) (topN O (p_v O pr) nz)
         (m_KzN a g) (m_lx g tx) (m_ly g ty).
Definition m_layers (a : args) : list (layer O) := layers_of O (a_z O a) (a_prof O a).
Definition m_alpha (a : args) (g : geom) (tx ty : nat) (qh : C) : C :=
  let y1 := final O (m_lx g tx) (m_ly g ty) (m_layers a) (1, 0) in
  let y2 := final O (m_lx g tx) (m_ly g ty) (m_layers a) (0, qh) in
  alpha O (m_KzN a g) (m_eig a g tx ty) (fst y1) (snd y1) (fst y2) (snd y2).

Lemma mode_levels_q_length a g tx ty qh :
  length (mode_levels_q O a g tx ty qh) = length (a_levels O a).
Proof.
  unfold mode_levels_q. destruct (a_analytic O a).
  - rewrite map_length. reflexivity.
  - pose proof (ivp_spec O L (m_lx g tx) (m_ly g ty) (m_layers a) (a_levels O a) (1, 0)) as H1.
    pose proof (ivp_spec O L (m_lx g tx) (m_ly g ty) (m_layers a) (a_levels O a) (0, qh)) as H2.
    unfold m_lx, m_ly, m_layers in H1, H2.
    destruct (ivp O _ _ _ (a_levels O a) (1, 0)) as [[st1 rp1] rq1].
    destruct (ivp O _ _ _ (a_levels O a) (0, qh)) as [[st2 rp2] rq2].
    destruct H1 as (_ & Hp1 & Hq1 & _). destruct H2 as (_ & Hp2 & Hq2 & _).
    rewrite map_length, !combine_length, Hp1, Hq1, Hp2, Hq2, !Nat.min_id. reflexivity.
Qed.

(* numerical branch: slot k = rho of the shooting trajectory at node levels[k] *)
Lemma mode_levels_q_num a g tx ty qh k :
  a_analytic O a = false ->
  (k < length (a_levels O a))%nat ->
  (nth k (a_levels O a) 0%nat <= length (m_layers a))%nat ->
  nth k (mode_levels_q O a g tx ty qh) (0, 0) =
    let s := shoot_traj O (m_lx g tx) (m_ly g ty) (m_layers a) (m_alpha a g tx ty qh) qh
                        (nth k (a_levels O a) 0%nat) in
    (rho O a (fst s), rho O a (snd s)).
Proof.
  intros Han Hk Hle. unfold mode_levels_q. rewrite Han.
  pose proof (ivp_spec O L (m_lx g tx) (m_ly g ty) (m_layers a) (a_levels O a) (1, 0)) as H1.
  pose proof (ivp_spec O L (m_lx g tx) (m_ly g ty) (m_layers a) (a_levels O a) (0, qh)) as H2.
  unfold m_alpha, m_KzN, m_eig, m_lx, m_ly, m_layers in *.
  destruct (ivp O _ _ _ (a_levels O a) (1, 0)) as [[st1 rp1] rq1].
  destruct (ivp O _ _ _ (a_levels O a) (0, qh)) as [[st2 rp2] rq2].
  destruct H1 as (Hf1 & Hp1 & Hq1 & Hk1). destruct H2 as (Hf2 & Hp2 & Hq2 & Hk2).
  specialize (Hk1 k 0 Hk Hle). specialize (Hk2 k 0 Hk Hle).
  destruct Hk1 as [Hk1p Hk1q]. destruct Hk2 as [Hk2p Hk2q].
  set (f := fun r : (C * C) * (C * C) => _).
  rewrite (nth_indep _ (0, 0) (f ((0, 0), (0, 0)))).
  2:{ rewrite map_length, !combine_length, Hp1, Hq1, Hp2, Hq2, !Nat.min_id. exact Hk. }
  rewrite map_nth.
  rewrite (combine_nth (combine rp1 rq1) (combine rp2 rq2)) by (rewrite !combine_length, Hp1, Hq1, Hp2, Hq2; reflexivity).
  rewrite (combine_nth rp1 rq1) by congruence. rewrite (combine_nth rp2 rq2) by congruence.
  subst f. cbv beta. cbn [fst snd]. rewrite Hk1p, Hk1q, Hk2p, Hk2q, Hf1, Hf2.
  unfold shoot_traj, sadd, sscale. cbn [fst snd]. reflexivity.
Qed.

(* analytic branch: slot k = the closed form at height z[levels[k]] - z[0] *)
Lemma mode_levels_q_ana a g tx ty qh k :
  a_analytic O a = true ->
  (k < length (a_levels O a))%nat ->
  nth k (mode_levels_q O a g tx ty qh) (0, 0) =
    let h := nth0 O (a_z O a) (nth k (a_levels O a) 0%nat) - nth0 O (a_z O a) 0%nat in
    let Q := rho O a (qh * cexp O (- m_eig a g tx ty * h)) in
    (rho O a (Q * (1 / m_KzN a g) / m_eig a g tx ty), Q).
Proof.
  intros Han Hk. unfold mode_levels_q. rewrite Han.
  set (f := fun l : nat => _).
  rewrite (nth_indep _ (0, 0) (f 0%nat)) by (rewrite map_length; exact Hk).
  rewrite map_nth. reflexivity.
Qed.

(* ---------------------------------------------------------------- mean mode *)

Fixpoint mean_traj (q00 : C) (dzs Kzs : list C) (p00 : C) : list C :=
  match dzs, Kzs with
  | dz :: dzs', Kz0 :: ((Kz1 :: _) as Kzs') =>
      p00 :: mean_traj q00 dzs' Kzs' (mean_update O p00 q00 dz Kz0 Kz1)
  | _, _ => [p00]
  end.

Lemma mean_loop_spec q00 levels : forall dzs Kzs i p00 rec,
  length rec = length levels ->
  let rec' := snd (mean_loop O q00 dzs Kzs i levels p00 rec) in
  length rec' = length levels /\
  forall k d, (k < length levels)%nat ->
    let l := nth k levels 0%nat in
    nth k rec' d = if (i <=? l)%nat && (l <? i + length (mean_traj q00 dzs Kzs p00))%nat
                   then nth (l - i) (mean_traj q00 dzs Kzs p00) d else nth k rec d.
Proof.
  induction dzs as [|dz dzs IH]; intros Kzs i p00 rec Hl.
  - cbn [mean_loop mean_traj snd length]. split; [apply (record_length O L); exact Hl|].
    intros k d Hk. cbv zeta. rewrite record_nth by assumption.
    set (l := nth k levels 0%nat).
    destruct (Nat.eqb l i) eqn:E.
    + apply Nat.eqb_eq in E. rewrite E, Nat.leb_refl.
      replace (i <? i + 1)%nat with true by (symmetry; apply Nat.ltb_lt; lia).
      rewrite Nat.sub_diag. reflexivity.
    + apply Nat.eqb_neq in E.
      replace ((i <=? l)%nat && (l <? i + 1)%nat) with false; [reflexivity|].
      symmetry. apply andb_false_iff.
      destruct (Nat.lt_ge_cases l i); [left; apply Nat.leb_gt; lia|right; apply Nat.ltb_ge; lia].
  - destruct Kzs as [|Kz0 [|Kz1 Kzs]].
    + cbn [mean_loop mean_traj snd length]. split; [apply (record_length O L); exact Hl|].
      intros k d Hk. cbv zeta. rewrite record_nth by assumption.
      set (l := nth k levels 0%nat).
      destruct (Nat.eqb l i) eqn:E.
      * apply Nat.eqb_eq in E. rewrite E, Nat.leb_refl.
        replace (i <? i + 1)%nat with true by (symmetry; apply Nat.ltb_lt; lia).
        rewrite Nat.sub_diag. reflexivity.
      * apply Nat.eqb_neq in E.
        replace ((i <=? l)%nat && (l <? i + 1)%nat) with false; [reflexivity|].
        symmetry. apply andb_false_iff.
        destruct (Nat.lt_ge_cases l i); [left; apply Nat.leb_gt; lia|right; apply Nat.ltb_ge; lia].
    + cbn [mean_loop mean_traj snd length]. split; [apply (record_length O L); exact Hl|].
      intros k d Hk. cbv zeta. rewrite record_nth by assumption.
      set (l := nth k levels 0%nat).
      destruct (Nat.eqb l i) eqn:E.
      * apply Nat.eqb_eq in E. rewrite E, Nat.leb_refl.
        replace (i <? i + 1)%nat with true by (symmetry; apply Nat.ltb_lt; lia).
        rewrite Nat.sub_diag. reflexivity.
      * apply Nat.eqb_neq in E.
        replace ((i <=? l)%nat && (l <? i + 1)%nat) with false; [reflexivity|].
        symmetry. apply andb_false_iff.
        destruct (Nat.lt_ge_cases l i); [left; apply Nat.leb_gt; lia|right; apply Nat.ltb_ge; lia].
    + cbn [mean_loop mean_traj].
      specialize (IH (Kz1 :: Kzs) (S i) (mean_update O p00 q00 dz Kz0 Kz1) (record O levels i p00 rec)).
      rewrite record_length in IH by assumption. specialize (IH eq_refl). cbv zeta in IH.
      destruct IH as [IHl IHk]. split; [exact IHl|].
      intros k d Hk. cbv zeta. rewrite (IHk k d Hk). rewrite record_nth by assumption.
      set (T := mean_traj q00 dzs (Kz1 :: Kzs) (mean_update O p00 q00 dz Kz0 Kz1)).
      set (l := nth k levels 0%nat). cbn [length].
      destruct (Nat.eqb l i) eqn:E.
      * apply Nat.eqb_eq in E.
        replace ((S i <=? l)%nat && (l <? S i + length T)%nat) with false
          by (symmetry; apply andb_false_iff; left; apply Nat.leb_gt; lia).
        replace ((i <=? l)%nat && (l <? i + S (length T))%nat) with true
          by (symmetry; apply andb_true_iff; split; [apply Nat.leb_le|apply Nat.ltb_lt]; lia).
        replace (l - i)%nat with 0%nat by lia. reflexivity.
      * apply Nat.eqb_neq in E.
        destruct ((S i <=? l)%nat && (l <? S i + length T)%nat) eqn:Ein.
        -- apply andb_true_iff in Ein. destruct Ein as [Ea Eb].
           apply Nat.leb_le in Ea. apply Nat.ltb_lt in Eb.
           replace ((i <=? l)%nat && (l <? i + S (length T))%nat) with true
             by (symmetry; apply andb_true_iff; split; [apply Nat.leb_le|apply Nat.ltb_lt]; lia).
           replace (l - i)%nat with (S (l - S i)) by lia. reflexivity.
        -- replace ((i <=? l)%nat && (l <? i + S (length T))%nat) with false; [reflexivity|].
           symmetry. apply andb_false_iff. apply andb_false_iff in Ein.
           destruct Ein as [Ea|Eb].
           ++ apply Nat.leb_gt in Ea. left. apply Nat.leb_gt. lia.
           ++ apply Nat.ltb_ge in Eb. right. apply Nat.ltb_ge. lia.
Qed.

(* vertical resistance accumulated by the trapezoidal rule up to node m *)
Fixpoint resistance (dzs Kzs : list C) (m : nat) : C :=
  match m, dzs, Kzs with
  | S m', dz :: dzs', Kz0 :: ((Kz1 :: _) as Kzs') =>
      dz * (half O / Kz0 + half O / Kz1) + resistance dzs' Kzs' m'
  | _, _, _ => 0
  end.

Lemma mean_traj_length q00 : forall dzs Kzs p00,
  length (mean_traj q00 dzs Kzs p00) = S (Nat.min (length dzs) (pred (length Kzs))).
Proof.
  induction dzs as [|dz dzs IH]; intros Kzs p00; [reflexivity|].
  destruct Kzs as [|Kz0 [|Kz1 Kzs]].
  - reflexivity.
  - simpl. reflexivity.
  - cbn [mean_traj length]. rewrite IH. simpl. lia.
Qed.

Lemma mean_traj_closed q00 : forall dzs Kzs p00 m d,
  (m < length (mean_traj q00 dzs Kzs p00))%nat ->
  nth m (mean_traj q00 dzs Kzs p00) d = p00 - q00 * resistance dzs Kzs m.
Proof.
  induction dzs as [|dz dzs IH]; intros Kzs p00 m d Hm.
  - cbn [mean_traj length] in *. replace m with 0%nat by lia. cbn. ring.
  - destruct Kzs as [|Kz0 [|Kz1 Kzs]].
    + cbn [mean_traj length] in *. replace m with 0%nat by lia. cbn. ring.
    + cbn [mean_traj length] in *. replace m with 0%nat by lia. cbn. ring.
    + cbn [mean_traj] in *. destruct m as [|m]; [cbn; ring|].
      cbn [nth resistance]. rewrite IH by (cbn [length] in Hm; lia).
      unfold mean_update. ring.
Qed.

Lemma mean_levels_q_length a g q00 p000 :
  length (mean_levels_q O a g q00 p000) = length (a_levels O a).
Proof.
  unfold mean_levels_q. destruct (a_analytic O a); [rewrite map_length; reflexivity|].
  pose proof (mean_loop_spec q00 (a_levels O a) (diffs O (a_z O a)) (p_Kz O (a_prof O a)) 0%nat p000
                (zeros O (length (a_levels O a))) (zeros_length O L _)) as H.
  cbv zeta in H. destruct (mean_loop O q00 _ _ 0%nat (a_levels O a) p000 _) as [pf rec].
  cbn [snd] in H. rewrite map_length. apply H.
Qed.

(* C03 (concentration mean) / C10 (mean mode), numerical branch *)
Lemma mean_levels_q_num a g q00 p000 k :
  a_analytic O a = false ->
  (k < length (a_levels O a))%nat ->
  (nth k (a_levels O a) 0%nat <= Nat.min (length (diffs O (a_z O a))) (pred (length (p_Kz O (a_prof O a)))))%nat ->
  nth k (mean_levels_q O a g q00 p000) (0, 0) =
    (rho O a (p000 - q00 * resistance (diffs O (a_z O a)) (p_Kz O (a_prof O a)) (nth k (a_levels O a) 0%nat)),
     rho O a q00).
Proof.
  intros Han Hk Hle. unfold mean_levels_q. rewrite Han.
  pose proof (mean_loop_spec q00 (a_levels O a) (diffs O (a_z O a)) (p_Kz O (a_prof O a)) 0%nat p000
                (zeros O (length (a_levels O a))) (zeros_length O L _)) as H.
  cbv zeta in H. destruct (mean_loop O q00 _ _ 0%nat (a_levels O a) p000 _) as [pf rec].
  cbn [snd] in H. destruct H as [Hl Hn].
  set (f := fun p : C => (rho O a p, rho O a q00)).
  rewrite (nth_indep _ (0, 0) (f 0)) by (rewrite map_length, Hl; exact Hk).
  rewrite map_nth. subst f. cbv beta. f_equal. f_equal.
  rewrite (Hn k 0 Hk).
  pose proof (mean_traj_length q00 (diffs O (a_z O a)) (p_Kz O (a_prof O a)) p000) as Hlen.
  replace ((0 <=? nth k (a_levels O a) 0)%nat && (nth k (a_levels O a) 0 <? 0 + length (mean_traj q00 (diffs O (a_z O a)) (p_Kz O (a_prof O a)) p000))%nat)
    with true by (symmetry; apply andb_true_iff; split; [apply Nat.leb_le; lia|apply Nat.ltb_lt; lia]).
  rewrite Nat.sub_0_r. apply mean_traj_closed. lia.
Qed.

Lemma mean_levels_q_ana a g q00 p000 k :
  a_analytic O a = true ->
  (k < length (a_levels O a))%nat ->
  nth k (mean_levels_q O a g q00 p000) (0, 0) =
    let h := nth0 O (a_z O a) (nth k (a_levels O a) 0%nat) - nth0 O (a_z O a) 0%nat in
    (rho O a (p000 - q00 * (1 / m_KzN a g) * h), rho O a q00).
Proof.
  intros Han Hk. unfold mean_levels_q. rewrite Han.
  set (f := fun l : nat => _).
  rewrite (nth_indep _ (0, 0) (f 0%nat)) by (rewrite map_length; exact Hk).
  rewrite map_nth. reflexivity.
Qed.

End Mode.
