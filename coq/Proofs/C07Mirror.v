(* C07, array level: mirroring the problem in x (every source row reversed, the wind component u
   negated, in footprint mode the tower reflected about the cell-index reflection i -> nx-1-i;
   everything else unchanged) mirrors both returned fields cell by cell, at every level — exactly,
   for the fields synthesised from all retained modes except the unpaired (Nyquist) column of the
   retained set: the one retained x-frequency kx with 2*kx = -nlx, which has no partner under
   kx -> -kx.  For an odd retained count (possible after the clamp) there is no such column and
   the statement is about the returned fields themselves.  The mirror defect of the returned
   fields equals the mirror defect of the part synthesised from that column alone.
   Coverage: footprint mode and dispersion mode at the default measurement point (no re-centring
   shift), numerical and analytic branch, every halo and pad, every mode count; single-precision
   storage in footprint mode only (in dispersion mode the source spectrum picks up a unit-modulus
   factor, and storage rounding does not commute with it).
   Second section: the same for y (source rows in reverse order, v negated). *)
From Coq Require Import ZArith List Field Ring Lia Bool Arith.
From BL Require Import Base.Ops Base.Laws Model.Solver Proofs.Sums Proofs.StepProofs Proofs.ModeProofs Proofs.Dft Proofs.SpecProofs Proofs.C04Proofs Proofs.C06Proofs Proofs.C07Proofs Proofs.C07Array.
Import ListNotations.
Set Default Proof Using "All".

(* ---------------------------------------------------------------- index reflection t -> -t (mod N) *)

Definition nidx (N t : nat) : nat := match t with 0%nat => 0%nat | S _ => (N - t)%nat end.

(* retained index t is kept unless its frequency k has 2k = -N (the unpaired Nyquist frequency) *)
Definition keepf (N : nat) (k : Z) : bool := negb (2 * k =? - Z.of_nat N)%Z.

Lemma nidx_lt N t : (t < N)%nat -> (nidx N t < N)%nat.
Proof. unfold nidx. destruct t; lia. Qed.

Lemma nidx_0_iff N t : (t < N)%nat -> (nidx N t = 0%nat <-> t = 0%nat).
Proof. unfold nidx. destruct t; lia. Qed.

Lemma half_bounds (n : Z) : (2 * ((n - 1) / 2) <= n - 1 < 2 * ((n - 1) / 2) + 2)%Z.
Proof. pose proof (Z.div_mod (n - 1) 2). pose proof (Z.mod_pos_bound (n - 1) 2). lia. Qed.

Lemma fftfreq_nidx N t : (t < N)%nat -> (2 * t <> N)%nat ->
  fftfreq N (nidx N t) = (- fftfreq N t)%Z.
Proof.
  intros Ht Hn. unfold fftfreq, nidx. pose proof (half_bounds (Z.of_nat N)) as Hb.
  set (h := ((Z.of_nat N - 1) / 2)%Z) in *.
  destruct t as [|t].
  - destruct (Z.leb_spec (Z.of_nat 0) h); lia.
  - destruct (Z.leb_spec (Z.of_nat (N - S t)) h); destruct (Z.leb_spec (Z.of_nat (S t)) h); lia.
Qed.

Lemma keepf_spec N t : (t < N)%nat -> (keepf N (fftfreq N t) = true <-> (2 * t <> N)%nat).
Proof.
  intros Ht. unfold keepf, fftfreq. pose proof (half_bounds (Z.of_nat N)) as Hb.
  set (h := ((Z.of_nat N - 1) / 2)%Z) in *.
  rewrite negb_true_iff, Z.eqb_neq.
  destruct (Z.leb_spec (Z.of_nat t) h); lia.
Qed.

Lemma keepf_nidx N t : (t < N)%nat -> keepf N (fftfreq N (nidx N t)) = keepf N (fftfreq N t).
Proof.
  intros Ht. apply eq_iff_eq_true. rewrite !keepf_spec by (try apply nidx_lt; exact Ht).
  unfold nidx. destruct t; lia.
Qed.

Lemma filter_map_comm {A B} (f : A -> B) (P : B -> bool) (l : list A) :
  filter P (map f l) = map f (filter (fun x => P (f x)) l).
Proof.
  induction l as [|x l IH]; cbn [map filter]; [reflexivity|].
  destruct (P (f x)); cbn [map]; rewrite IH; reflexivity.
Qed.

Lemma keepf_even N k : Nat.even N = true -> keepf N k = negb (k =? - Z.of_nat (N / 2))%Z.
Proof.
  intros He. apply Nat.even_spec in He. destruct He as [m Hm].
  assert (Hdiv : (N / 2 = m)%nat) by (rewrite Hm, Nat.mul_comm; apply Nat.div_mul; lia).
  unfold keepf. rewrite Hdiv. f_equal. apply eq_iff_eq_true. rewrite !Z.eqb_eq. lia.
Qed.

Lemma keepf_odd N k : Nat.odd N = true -> keepf N k = true.
Proof.
  intros Ho. apply Nat.odd_spec in Ho. destruct Ho as [m Hm].
  unfold keepf. rewrite negb_true_iff, Z.eqb_neq. lia.
Qed.

Lemma filter_all {A} (P : A -> bool) (l : list A) : (forall x, P x = true) -> filter P l = l.
Proof.
  intros H. induction l as [|x l IH]; cbn [filter]; [reflexivity|]. rewrite H, IH. reflexivity.
Qed.

Section C07M.
Variable O : Ops.
Hypothesis L : Laws O.
Notation C := (C O).
Notation "0" := (c0 O) : ops_scope. Notation "1" := (c1 O) : ops_scope.
Infix "+" := (cadd O) : ops_scope. Infix "*" := (cmul O) : ops_scope.
Infix "-" := (csub O) : ops_scope. Infix "/" := (cdiv O) : ops_scope.
Notation "- x" := (copp O x) : ops_scope.
Local Open Scope ops_scope.
Add Field OFc7m : (L_field O L).
Notation ofZ := (cofZ O).
Notation ofN n := (cofZ O (Z.of_nat n)).
Notation args := (args O).
Notation geom := (geom O).

(* ---------------------------------------------------------------- sums: filter, reversal, reflection *)

Lemma csum_filter {A} (P : A -> bool) (F : A -> C) (l : list A) :
  csum O (map F (filter P l)) = csum O (map (fun x => if P x then F x else 0) l).
Proof.
  induction l as [|x l IH]; cbn [filter map csum]; [reflexivity|].
  destruct (P x); cbn [map csum]; rewrite IH; ring.
Qed.

Lemma csum_modes_nested (G : nat * nat -> C) (n m : nat) :
  csum O (map G (flat_map (fun ty => map (fun tx => (tx, ty)) (seq 0 n)) (seq 0 m)))
  = csum O (map (fun ty => csum O (map (fun tx => G (tx, ty)) (seq 0 n))) (seq 0 m)).
Proof.
  induction (seq 0 m) as [|y l IH]; [reflexivity|].
  cbn [flat_map map csum]. rewrite map_app, (csum_app O L), IH, map_map. reflexivity.
Qed.

Lemma sumn_rev n : forall f : nat -> C, sumn O n (fun i => f (n - 1 - i)%nat) = sumn O n f.
Proof.
  induction n as [|n IH]; intros f; [reflexivity|].
  rewrite (sumn_split O L 1 n f : sumn O (S n) f = sumn O 1 f + sumn O n (fun i => f (1 + i)%nat)).
  cbn [sumn]. rewrite <- (IH (fun i => f (1 + i)%nat)).
  rewrite (sumn_ext O L n (fun i => f (S n - 1 - i)%nat) (fun i => f (1 + (n - 1 - i))%nat)).
  2:{ intros i Hi. f_equal. lia. }
  replace (S n - 1 - n)%nat with 0%nat by lia. ring.
Qed.

Lemma csum_rev n (f : nat -> C) :
  csum O (map (fun i => f (n - 1 - i)%nat) (seq 0 n)) = csum O (map f (seq 0 n)).
Proof. rewrite !(sumn_csum O L). apply sumn_rev. Qed.

Lemma csum_reflect N (f : nat -> C) :
  csum O (map (fun t => f (nidx N t)) (seq 0 N)) = csum O (map f (seq 0 N)).
Proof.
  rewrite !(sumn_csum O L). destruct N as [|n]; [reflexivity|].
  change (S n) with (1 + n)%nat.
  rewrite (sumn_split O L 1 n f), (sumn_split O L 1 n (fun t => f (nidx (1 + n) t))).
  cbn [sumn nidx]. f_equal.
  rewrite <- (sumn_rev n (fun i => f (1 + i)%nat)).
  apply (sumn_ext O L). intros i Hi. cbn [plus nidx]. f_equal. lia.
Qed.

(* ---------------------------------------------------------------- the mirrored request *)

Definition mirror_prof (p : profiles O) : profiles O :=
  mkProf O (map (copp O) (p_u O p)) (p_v O p) (p_Kx O p) (p_Ky O p) (p_Kz O p).

(* the tower reflected about the cell-index reflection: xm' = (nx-1)*dx - xm *)
Definition mirror_xm (a : args) : C :=
  ofZ (Z.of_nat (length (hd [] (a_q0 O a))) - 1) * (a_xmx O a / ofN (length (hd [] (a_q0 O a)))) - a_xm O a.

Definition mirror_args (a : args) : args :=
  mkArgs O (map (@rev C) (a_q0 O a)) (a_z O a) (mirror_prof (a_prof O a))
         (a_xmx O a) (a_ymx O a) (a_levels O a) (a_nlx O a) (a_nly O a)
         (if a_footprint O a then mirror_xm a else a_xm O a) (a_ym O a)
         (a_p000 O a) (a_footprint O a) (a_analytic O a) (a_halo O a) (a_single O a).

(* the table without the unpaired (Nyquist) x-frequency of the retained set *)
Definition table_noNyq (a : args) (g : geom) : list ((Z * Z) * list (C * C)) :=
  filter (fun e => keepf (g_nlx O g) (fst (fst e))) (table O a g).

Lemma hd_map_rev (q : list (list C)) : length (hd [] (map (@rev C) q)) = length (hd [] q).
Proof. destruct q as [|r q]; [reflexivity|]. cbn [map hd]. apply rev_length. Qed.

Theorem mirror_geometry (a : args) : geometry O (mirror_args a) = geometry O a.
Proof.
  apply (geometry_shape_only O L); cbn [a_q0 a_z a_xmx a_ymx a_levels a_nlx a_nly a_halo mirror_args];
    try reflexivity; [apply map_length|apply hd_map_rev].
Qed.

Lemma wf_mirror a : wf O a -> wf O (mirror_args a).
Proof.
  intros [A B C0 D E F]. constructor;
    cbn [a_prof a_z a_q0 mirror_args mirror_prof p_u p_v p_Kx p_Ky p_Kz]; try assumption.
  - rewrite map_length. exact A.
  - intros row Hin. apply in_map_iff in Hin. destruct Hin as (r & <- & Hr).
    rewrite rev_length, hd_map_rev. apply F. exact Hr.
Qed.

Lemma cellq_rev (q : list (list C)) j i nx :
  (j < length q)%nat -> length (nth j q []) = nx -> (i < nx)%nat ->
  cellq O (map (@rev C) q) j i = cellq O q j (nx - 1 - i).
Proof.
  intros Hj Hrow Hi. unfold cellq.
  rewrite (map_nth_lt (@rev C) q j [] []) by exact Hj.
  rewrite rev_nth by lia. f_equal. lia.
Qed.

(* ---------------------------------------------------------------- per-mode pieces under the mirror *)

Lemma wavenumber_opp dx n k : wavenumber O dx n (- k)%Z = - wavenumber O dx n k.
Proof. unfold wavenumber. rewrite (L_ofZ_opp O L), !(Fdiv_def (L_field O L)). ring. Qed.

Lemma topN_mirror (u : list C) nz : topN O (map (copp O) u) nz = - topN O u nz.
Proof.
  unfold topN, nth0.
  replace (nth (pred nz) (map (copp O) u) 0) with (nth (pred nz) (map (copp O) u) (- 0)) by (f_equal; ring).
  apply map_nth.
Qed.

Lemma ivp_mirror lx ly layers levels st :
  ivp O (- lx) ly (map (mirror_x O) layers) levels st = ivp O lx ly layers levels st.
Proof.
  unfold ivp. rewrite (ivp_loop_ext O L lx ly (- lx) ly (mirror_x O) levels (step_mirror_x O L lx ly)).
  rewrite map_length. reflexivity.
Qed.

Lemma mk_layers_mirror : forall Kx Ky u v Kz dz : list C,
  mk_layers O Kx Ky (map (copp O) u) v Kz dz = map (mirror_x O) (mk_layers O Kx Ky u v Kz dz).
Proof.
  induction Kx as [|a Kx IH]; intros Ky u v Kz dz.
  - destruct Ky, u, v, Kz, dz; reflexivity.
  - destruct Ky, u, v, Kz, dz; try reflexivity. cbn [mk_layers map]. rewrite IH. reflexivity.
Qed.

Lemma layers_mirror z pr : layers_of O z (mirror_prof pr) = map (mirror_x O) (layers_of O z pr).
Proof. unfold layers_of, mirror_prof. cbn [p_u p_v p_Kx p_Ky p_Kz]. apply mk_layers_mirror. Qed.

(* the mode solution of the mirrored layers at x-frequency -kx is that of the original at kx *)
Lemma mode_levels_q_mirror a g tx tx' ty qh :
  fftfreq (g_nlx O g) tx' = (- fftfreq (g_nlx O g) tx)%Z ->
  mode_levels_q O (mirror_args a) g tx' ty qh = mode_levels_q O a g tx ty qh.
Proof.
  intros Hf. unfold mode_levels_q.
  change (a_z O (mirror_args a)) with (a_z O a).
  change (a_levels O (mirror_args a)) with (a_levels O a).
  change (a_analytic O (mirror_args a)) with (a_analytic O a).
  change (rho O (mirror_args a)) with (rho O a).
  change (a_prof O (mirror_args a)) with (mirror_prof (a_prof O a)).
  rewrite layers_mirror.
  cbn [mirror_prof p_u p_v p_Kx p_Ky p_Kz].
  rewrite Hf, wavenumber_opp, topN_mirror, (eig_mirror_x O L).
  destruct (a_analytic O a); [reflexivity|].
  rewrite !ivp_mirror. reflexivity.
Qed.

Lemma mean_levels_q_mirror a g q00 p :
  mean_levels_q O (mirror_args a) g q00 p = mean_levels_q O a g q00 p.
Proof. reflexivity. Qed.


(* ---------------------------------------------------------------- roots of unity under i -> nx-1-i *)

(* padded index i+px of cell i and padded index of the mirrored cell add up to nxe-1 *)
Lemma root_reflect n nx px (k : Z) i : n = (nx + 2 * px)%nat -> (i < nx)%nat ->
  root O n (k * Z.of_nat (i + px))%Z * root O n k = root O n (- k * Z.of_nat (nx - 1 - i + px))%Z.
Proof.
  intros Hn Hi. assert (Hn0 : n <> 0%nat) by lia.
  rewrite <- (root_add O L).
  replace (k * Z.of_nat (i + px) + k)%Z with (- k * Z.of_nat (nx - 1 - i + px) + Z.of_nat n * k)%Z.
  - apply (root_period O L). exact Hn0.
  - assert (E : Z.of_nat (nx - 1 - i + px) = (Z.of_nat nx - 1 - Z.of_nat i + Z.of_nat px)%Z) by lia.
    rewrite E, Hn, !Nat2Z.inj_add, Nat2Z.inj_mul. change (Z.of_nat 2) with 2%Z. ring.
Qed.

Lemma root_cancel n k x : x * root O n k * root O n (- k)%Z = x.
Proof.
  transitivity (x * (root O n (- k)%Z * root O n k)); [ring|]. rewrite (root_opp O L). ring.
Qed.

(* ---------------------------------------------------------------- source spectrum of the mirrored source *)

Theorem src_hat_mirror a g kx ky :
  wf O a -> geometry O a = inl g ->
  src_hat O (mirror_args a) g (- kx)%Z ky = root O (g_nxe O g) (- kx)%Z * src_hat O a g kx ky.
Proof.
  intros Hwf Hg.
  destruct (geometry_inv O L a g Hg) as (Eny & Enx & _ & _ & _ & Exe & _).
  assert (Hg' : geometry O (mirror_args a) = inl g) by (rewrite mirror_geometry; exact Hg).
  rewrite (src_hat_index O L _ g (- kx)%Z ky (wf_mirror a Hwf) Hg'), (src_hat_index O L a g kx ky Hwf Hg).
  cbn [a_q0 mirror_args].
  set (sc := 1 / ofN (g_nxe O g) / ofN (g_nye O g)).
  set (r := root O (g_nxe O g) (- kx)%Z).
  transitivity (sc * (csum O (map (fun j => csum O (map (fun i =>
        cellq O (a_q0 O a) j i * cis O (- phase O g kx ky (i + g_px O g) (j + g_py O g)))
      (seq 0 (g_nx O g)))) (seq 0 (g_ny O g))) * r)); [|ring].
  f_equal. rewrite <- (csum_map_scale_r O L). apply (csum_map_ext O L). intros j Hj. apply in_seq in Hj.
  rewrite <- (csum_map_scale_r O L).
  set (f := fun i : nat => cellq O (a_q0 O a) j i * cis O (- phase O g kx ky (i + g_px O g) (j + g_py O g)) * r).
  rewrite <- (csum_rev (g_nx O g) f).
  apply (csum_map_ext O L). intros i Hi. apply in_seq in Hi. unfold f.
  rewrite (cellq_rev (a_q0 O a) j i (g_nx O g)).
  2:{ lia. }
  2:{ rewrite Enx. apply (wf_rect O a Hwf). apply nth_In. lia. }
  2:{ lia. }
  rewrite !(cis_phase_neg O L), Z.opp_involutive.
  rewrite <- (root_reflect (g_nxe O g) (g_nx O g) (g_px O g) kx i Exe) by lia.
  unfold r.
  set (Ry := root O (g_nye O g) _). set (c := cellq O _ _ _). set (Rx := root O (g_nxe O g) (kx * _)%Z).
  transitivity (c * (Ry * Rx) * root O (g_nxe O g) kx * root O (g_nxe O g) (- kx)%Z);
    [symmetry; apply root_cancel|ring].
Qed.

Lemma q0_hat_mirror_disp a g tx ty :
  wf O a -> geometry O a = inl g -> a_footprint O a = false ->
  (tx < g_nlx O g)%nat -> (2 * tx <> g_nlx O g)%nat ->
  q0_hat O (mirror_args a) g (nidx (g_nlx O g) tx) ty
  = root O (g_nxe O g) (- fftfreq (g_nlx O g) tx)%Z * q0_hat O a g tx ty.
Proof.
  intros Hwf Hg Hfp Htx Hny. unfold q0_hat.
  change (a_footprint O (mirror_args a)) with (a_footprint O a). rewrite Hfp.
  rewrite (fftfreq_nidx _ _ Htx Hny). apply src_hat_mirror; assumption.
Qed.

Lemma q0_hat_mirror_fp a g tx tx' ty :
  a_footprint O a = true -> q0_hat O (mirror_args a) g tx' ty = q0_hat O a g tx ty.
Proof.
  intros Hfp. unfold q0_hat. change (a_footprint O (mirror_args a)) with (a_footprint O a).
  rewrite Hfp. reflexivity.
Qed.

(* ---------------------------------------------------------------- spectrum of the mirrored request *)

Lemma spectrum_nonmean a g tx ty : (tx, ty) <> (0%nat, 0%nat) -> spectrum O a g tx ty = mode_levels O a g tx ty.
Proof. intros H. destruct tx, ty; try reflexivity. congruence. Qed.

(* footprint mode: the spectrum at -kx is the original spectrum at kx (any storage precision) *)
Theorem spectrum_mirror_fp a g tx ty :
  a_footprint O a = true -> (tx < g_nlx O g)%nat -> (2 * tx <> g_nlx O g)%nat ->
  spectrum O (mirror_args a) g (nidx (g_nlx O g) tx) ty = spectrum O a g tx ty.
Proof.
  intros Hfp Htx Hny.
  destruct (Nat.eq_dec tx 0) as [->|Hx0]; [destruct (Nat.eq_dec ty 0) as [->|Hy0]|].
  - cbn [nidx spectrum]. unfold mean_levels.
    rewrite (q0_hat_mirror_fp a g 0%nat 0%nat 0%nat Hfp). reflexivity.
  - cbn [nidx]. rewrite !spectrum_nonmean by congruence. unfold mode_levels.
    rewrite (q0_hat_mirror_fp a g 0%nat 0%nat ty Hfp).
    apply mode_levels_q_mirror. apply (fftfreq_nidx _ 0%nat Htx Hny).
  - assert (Hx0' : nidx (g_nlx O g) tx <> 0%nat) by (rewrite nidx_0_iff by exact Htx; exact Hx0).
    rewrite !spectrum_nonmean by congruence. unfold mode_levels.
    rewrite (q0_hat_mirror_fp a g tx _ ty Hfp).
    apply mode_levels_q_mirror. apply (fftfreq_nidx _ _ Htx Hny).
Qed.

(* dispersion mode: the spectrum at -kx is the original spectrum at kx times cis(-2 pi kx / nxe) *)
Theorem spectrum_mirror_disp a g sel k tx ty :
  (forall pq s, sel (fst pq * s, snd pq * s) = sel pq * s) ->
  wf O a -> geometry O a = inl g -> a_footprint O a = false -> a_single O a = false ->
  (k < length (a_levels O a))%nat -> (tx < g_nlx O g)%nat -> (2 * tx <> g_nlx O g)%nat ->
  sel (nth k (spectrum O (mirror_args a) g (nidx (g_nlx O g) tx) ty) (0, 0))
  = sel (nth k (spectrum O a g tx ty) (0, 0)) * root O (g_nxe O g) (- fftfreq (g_nlx O g) tx)%Z.
Proof.
  intros Hsel Hwf Hg Hfp Hs Hk Htx Hny.
  assert (Hmode : forall tx0, (tx0 < g_nlx O g)%nat -> (2 * tx0 <> g_nlx O g)%nat ->
     sel (nth k (mode_levels O (mirror_args a) g (nidx (g_nlx O g) tx0) ty) (0, 0))
     = sel (nth k (mode_levels O a g tx0 ty) (0, 0)) * root O (g_nxe O g) (- fftfreq (g_nlx O g) tx0)%Z).
  { intros tx0 Htx0 Hny0. unfold mode_levels.
    rewrite (q0_hat_mirror_disp a g tx0 ty Hwf Hg Hfp Htx0 Hny0).
    rewrite (mode_levels_q_mirror a g tx0 _ ty _ (fftfreq_nidx _ _ Htx0 Hny0)).
    rewrite !(mode_transfer O L a g tx0 ty _ k Hwf Hg Hs Hk).
    set (r := root O _ _). set (q := q0_hat O a g tx0 ty). set (T := transfer O a g tx0 ty _).
    rewrite <- (Hsel (q * fst T, q * snd T) r). cbn [fst snd]. f_equal. f_equal; ring. }
  destruct (Nat.eq_dec tx 0) as [->|Hx0]; [destruct (Nat.eq_dec ty 0) as [->|Hy0]|].
  - cbn [nidx spectrum]. unfold mean_levels.
    pose proof (q0_hat_mirror_disp a g 0%nat 0%nat Hwf Hg Hfp Htx Hny) as Hq. cbn [nidx] in Hq.
    rewrite Hq, (fftfreq_0 O L). change (- 0)%Z with 0%Z. rewrite (root_0 O L).
    replace (1 * q0_hat O a g 0%nat 0%nat) with (q0_hat O a g 0%nat 0%nat) by ring.
    change (a_p000 O (mirror_args a)) with (a_p000 O a). rewrite mean_levels_q_mirror. ring.
  - pose proof (Hmode 0%nat Htx Hny) as Hm. cbn [nidx] in *.
    rewrite !spectrum_nonmean by congruence. exact Hm.
  - assert (Hx0' : nidx (g_nlx O g) tx <> 0%nat) by (rewrite nidx_0_iff by exact Htx; exact Hx0).
    rewrite !spectrum_nonmean by congruence. apply Hmode; assumption.
Qed.

(* ---------------------------------------------------------------- phase shift of the mirrored request *)

Lemma shift_mirror_disp a g tx tx' ty :
  a_footprint O a = false -> cltb O 0 (a_xm O a * a_xm O a + a_ym O a * a_ym O a) = false ->
  shift O (mirror_args a) g tx' ty = 1 /\ shift O a g tx ty = 1.
Proof.
  intros Hfp Hc. unfold shift. cbn [a_footprint a_xm a_ym mirror_args]. rewrite Hfp, Hc. split; reflexivity.
Qed.

Lemma shift_mirror_fp a g tx tx' ty :
  geometry O a = inl g -> a_footprint O a = true -> g_dx O g <> 0 -> g_nx O g <> 0%nat ->
  fftfreq (g_nlx O g) tx' = (- fftfreq (g_nlx O g) tx)%Z ->
  shift O (mirror_args a) g tx' ty = shift O a g tx ty * root O (g_nxe O g) (fftfreq (g_nlx O g) tx).
Proof.
  intros Hg Hfp Hdx Hnx Hf.
  destruct (geometry_inv O L a g Hg) as (_ & Enx & _ & Edx & _ & Exe & _).
  assert (Hxe0 : g_nxe O g <> 0%nat) by lia.
  unfold shift. cbn [a_footprint a_xm a_ym mirror_args]. rewrite Hfp, Hf.
  unfold mirror_xm. rewrite <- Enx, <- Edx.
  set (kx := fftfreq (g_nlx O g) tx).
  set (ly := wavenumber O (g_dy O g) (g_nye O g) (fftfreq (g_nly O g) ty)).
  rewrite wavenumber_opp. set (lx := wavenumber O (g_dx O g) (g_nxe O g) kx).
  unfold cis, shift_arg_fp.
  assert (E1 : ofZ (Z.of_nat (g_nx O g) - 1) = ofN (g_nx O g) - 1).
  { unfold Z.sub. rewrite (L_ofZ_add O L), (L_ofZ_opp O L), (L_ofZ_1 O L). ring. }
  assert (E2 : ofZ (- (Z.of_nat (g_nxe O g) - 1)) = 1 - ofN (g_nx O g) - (1 + 1) * ofN (g_px O g)).
  { rewrite Exe, Nat2Z.inj_add, Nat2Z.inj_mul. change (Z.of_nat 2) with 2%Z. unfold Z.sub.
    rewrite (L_ofZ_opp O L), !(L_ofZ_add O L), (L_ofZ_opp O L), (L_ofZ_mul O L), (L_ofZ_1 O L), (ofZ_2 O L). ring. }
  replace (ci O * (- lx * (ofZ (Z.of_nat (g_nx O g) - 1) * g_dx O g - a_xm O a + ofN (g_px O g) * g_dx O g)
                   + ly * (a_ym O a + ofN (g_py O g) * g_dy O g)))
    with (ci O * (lx * (a_xm O a + ofN (g_px O g) * g_dx O g) + ly * (a_ym O a + ofN (g_py O g) * g_dy O g))
          + ci O * (lx * (ofZ (- (Z.of_nat (g_nxe O g) - 1)) * g_dx O g))) by (rewrite E1, E2; ring).
  rewrite (L_exp_add O L). f_equal. subst lx.
  rewrite (wavenumber_cell O L) by assumption.
  replace (kx * - (Z.of_nat (g_nxe O g) - 1))%Z with (kx + Z.of_nat (g_nxe O g) * (- kx))%Z by ring.
  apply (root_period O L). exact Hxe0.
Qed.

(* ---------------------------------------------------------------- one mode's contribution *)

Lemma term_mirror a g sel k j i tx ty :
  (forall pq s, sel (fst pq * s, snd pq * s) = sel pq * s) ->
  wf O a -> geometry O a = inl g ->
  (a_footprint O a = true -> g_dx O g <> 0) ->
  (a_footprint O a = false -> a_single O a = false) ->
  (a_footprint O a = false -> cltb O 0 (a_xm O a * a_xm O a + a_ym O a * a_ym O a) = false) ->
  (k < length (a_levels O a))%nat -> (i < g_nx O g)%nat ->
  (tx < g_nlx O g)%nat -> (2 * tx <> g_nlx O g)%nat ->
  term O (mirror_args a) g sel k (i + g_px O g) j (nidx (g_nlx O g) tx, ty)
  = term O a g sel k (g_nx O g - 1 - i + g_px O g) j (tx, ty).
Proof.
  intros Hsel Hwf Hg Hdx Hprec Hctr Hk Hi Htx Hny.
  destruct (geometry_inv O L a g Hg) as (_ & _ & _ & _ & _ & Exe & _).
  pose proof (fftfreq_nidx _ _ Htx Hny) as Hf.
  unfold term. cbn [fst snd]. change (a_footprint O (mirror_args a)) with (a_footprint O a).
  rewrite Hf. set (kx := fftfreq (g_nlx O g) tx). set (ky := fftfreq (g_nly O g) ty).
  destruct (a_footprint O a) eqn:Hfp.
  - rewrite (spectrum_mirror_fp a g tx ty Hfp Htx Hny).
    rewrite (shift_mirror_fp a g tx _ ty Hg Hfp (Hdx eq_refl) ltac:(lia) Hf). fold kx.
    rewrite !(cis_phase_neg O L), Z.opp_involutive.
    rewrite <- (root_reflect (g_nxe O g) (g_nx O g) (g_px O g) kx i Exe Hi). ring.
  - destruct (shift_mirror_disp a g tx (nidx (g_nlx O g) tx) ty Hfp (Hctr eq_refl)) as [-> ->].
    rewrite (spectrum_mirror_disp a g sel k tx ty Hsel Hwf Hg Hfp (Hprec eq_refl) Hk Htx Hny). fold kx.
    rewrite !(cis_phase O L).
    replace (kx * Z.of_nat (g_nx O g - 1 - i + g_px O g))%Z
      with (- - kx * Z.of_nat (g_nx O g - 1 - i + g_px O g))%Z by (rewrite Z.opp_involutive; reflexivity).
    rewrite <- (root_reflect (g_nxe O g) (g_nx O g) (g_px O g) (- kx)%Z i Exe Hi). ring.
Qed.

(* ---------------------------------------------------------------- synthesis from the filtered table *)

Lemma synth_noNyq a g sel k i j :
  (forall pq s, sel (fst pq * s, snd pq * s) = sel pq * s) ->
  (k < length (a_levels O a))%nat ->
  synth O a g sel (table_noNyq a g) k i j
  = cre O (csum O (map (fun ty => csum O (map (fun tx =>
        if keepf (g_nlx O g) (fftfreq (g_nlx O g) tx) then term O a g sel k i j (tx, ty) else 0)
      (seq 0 (g_nlx O g)))) (seq 0 (g_nly O g)))).
Proof.
  intros Hsel Hk. unfold synth, table_noNyq, table.
  rewrite filter_map_comm, map_map, csum_filter. cbn [fst snd]. f_equal.
  unfold modes_of.
  rewrite (csum_modes_nested (fun t => if keepf (g_nlx O g) (fftfreq (g_nlx O g) (fst t)) then _ else 0)).
  apply (csum_map_ext O L). intros ty _. apply (csum_map_ext O L). intros tx _. cbn [fst snd].
  destruct (keepf _ _); [|reflexivity]. unfold term. cbn [fst snd].
  set (sp := spectrum O a g tx ty). set (s := shift O a g tx ty).
  set (fs := fun pq : C * C => (fst pq * s, snd pq * s)).
  rewrite (nth_indep _ (0, 0) (fs (0, 0))) by (rewrite map_length; subst sp; rewrite (spectrum_length O L); exact Hk).
  rewrite map_nth. subst fs. cbv beta. rewrite Hsel. reflexivity.
Qed.

(* ---------------------------------------------------------------- the theorem *)

Theorem mirror_x_cells (a : args) (g : geom) sel k j i :
  (forall pq s, sel (fst pq * s, snd pq * s) = sel pq * s) ->
  wf O a -> geometry O a = inl g ->
  (a_footprint O a = true -> g_dx O g <> 0) ->
  (a_footprint O a = false -> a_single O a = false) ->
  (a_footprint O a = false -> cltb O 0 (a_xm O a * a_xm O a + a_ym O a * a_ym O a) = false) ->
  (k < length (a_levels O a))%nat -> (j < g_ny O g)%nat -> (i < g_nx O g)%nat ->
  get3 O (field O (mirror_args a) g sel (table_noNyq (mirror_args a) g)) k j i
  = get3 O (field O a g sel (table_noNyq a g)) k j (g_nx O g - 1 - i).
Proof.
  intros Hsel Hwf Hg Hdx Hprec Hctr Hk Hj Hi.
  rewrite (field_get O L a g) by (try assumption; lia).
  rewrite (field_get O L (mirror_args a) g) by (cbn [a_levels mirror_args]; assumption).
  rewrite !synth_noNyq by (cbn [a_levels mirror_args]; assumption).
  f_equal. apply (csum_map_ext O L). intros ty _.
  rewrite <- (csum_reflect (g_nlx O g) (fun tx =>
     if keepf (g_nlx O g) (fftfreq (g_nlx O g) tx)
     then term O (mirror_args a) g sel k (i + g_px O g) (j + g_py O g) (tx, ty) else 0)).
  apply (csum_map_ext O L). intros tx Htx. apply in_seq in Htx.
  rewrite keepf_nidx by lia.
  destruct (keepf (g_nlx O g) (fftfreq (g_nlx O g) tx)) eqn:Ekeep; [|reflexivity].
  apply keepf_spec in Ekeep; [|lia].
  apply term_mirror; try assumption. lia.
Qed.


(* ---------------------------------------------------------------- corollaries and the dropped column *)

(* even retained count: the dropped entries are exactly those of x-frequency -nlx/2 *)
Lemma table_noNyq_even a g : Nat.even (g_nlx O g) = true ->
  table_noNyq a g = filter (fun e => negb (fst (fst e) =? - Z.of_nat (g_nlx O g / 2))%Z) (table O a g).
Proof. intros He. unfold table_noNyq. apply filter_ext. intros e. apply keepf_even. exact He. Qed.

(* odd retained count (after the clamp): nothing is dropped *)
Lemma table_noNyq_odd a g : Nat.odd (g_nlx O g) = true -> table_noNyq a g = table O a g.
Proof. intros Ho. unfold table_noNyq. apply filter_all. intros e. apply keepf_odd. exact Ho. Qed.

Theorem mirror_x_cells_even (a : args) (g : geom) sel k j i :
  (forall pq s, sel (fst pq * s, snd pq * s) = sel pq * s) ->
  wf O a -> geometry O a = inl g ->
  (a_footprint O a = true -> g_dx O g <> 0) ->
  (a_footprint O a = false -> a_single O a = false) ->
  (a_footprint O a = false -> cltb O 0 (a_xm O a * a_xm O a + a_ym O a * a_ym O a) = false) ->
  Nat.even (g_nlx O g) = true ->
  (k < length (a_levels O a))%nat -> (j < g_ny O g)%nat -> (i < g_nx O g)%nat ->
  let drop := fun e : (Z * Z) * list (C * C) => negb (fst (fst e) =? - Z.of_nat (g_nlx O g / 2))%Z in
  get3 O (field O (mirror_args a) g sel (filter drop (table O (mirror_args a) g))) k j i
  = get3 O (field O a g sel (filter drop (table O a g))) k j (g_nx O g - 1 - i).
Proof.
  intros Hsel Hwf Hg Hdx Hprec Hctr He Hk Hj Hi drop. subst drop.
  rewrite <- !table_noNyq_even by exact He. apply mirror_x_cells; assumption.
Qed.

(* the returned fields themselves when the retained x-count is odd *)
Theorem mirror_x_cells_odd (a : args) (g : geom) sel k j i :
  (forall pq s, sel (fst pq * s, snd pq * s) = sel pq * s) ->
  wf O a -> geometry O a = inl g ->
  (a_footprint O a = true -> g_dx O g <> 0) ->
  (a_footprint O a = false -> a_single O a = false) ->
  (a_footprint O a = false -> cltb O 0 (a_xm O a * a_xm O a + a_ym O a * a_ym O a) = false) ->
  Nat.odd (g_nlx O g) = true ->
  (k < length (a_levels O a))%nat -> (j < g_ny O g)%nat -> (i < g_nx O g)%nat ->
  get3 O (field O (mirror_args a) g sel (table O (mirror_args a) g)) k j i
  = get3 O (field O a g sel (table O a g)) k j (g_nx O g - 1 - i).
Proof.
  intros Hsel Hwf Hg Hdx Hprec Hctr Ho Hk Hj Hi.
  rewrite <- !table_noNyq_odd by exact Ho. apply mirror_x_cells; assumption.
Qed.

(* what is left out: the returned field is the paired part plus the field synthesised from the
   unpaired column alone *)
Definition table_Nyq (a : args) (g : geom) : list ((Z * Z) * list (C * C)) :=
  filter (fun e => negb (keepf (g_nlx O g) (fst (fst e)))) (table O a g).

Theorem field_Nyq_split (a : args) (g : geom) sel k j i :
  (k < length (a_levels O a))%nat -> (j < g_ny O g)%nat -> (i < g_nx O g)%nat ->
  get3 O (field O a g sel (table O a g)) k j i
  = get3 O (field O a g sel (table_noNyq a g)) k j i + get3 O (field O a g sel (table_Nyq a g)) k j i.
Proof.
  intros Hk Hj Hi. rewrite !(field_get O L) by assumption.
  unfold synth, table_noNyq, table_Nyq. rewrite <- (L_re_add O L). f_equal.
  rewrite !csum_filter, <- (csum_map_add O L). apply (csum_map_ext O L). intros e _.
  destruct (keepf (g_nlx O g) (fst (fst e))); cbn [negb]; ring.
Qed.

(* "exact apart from the Nyquist components": the mirror defect of the returned field is the
   mirror defect of the part synthesised from the unpaired column alone *)
Theorem mirror_x_cells_defect (a : args) (g : geom) sel k j i :
  (forall pq s, sel (fst pq * s, snd pq * s) = sel pq * s) ->
  wf O a -> geometry O a = inl g ->
  (a_footprint O a = true -> g_dx O g <> 0) ->
  (a_footprint O a = false -> a_single O a = false) ->
  (a_footprint O a = false -> cltb O 0 (a_xm O a * a_xm O a + a_ym O a * a_ym O a) = false) ->
  (k < length (a_levels O a))%nat -> (j < g_ny O g)%nat -> (i < g_nx O g)%nat ->
  get3 O (field O (mirror_args a) g sel (table O (mirror_args a) g)) k j i
  - get3 O (field O a g sel (table O a g)) k j (g_nx O g - 1 - i)
  = get3 O (field O (mirror_args a) g sel (table_Nyq (mirror_args a) g)) k j i
    - get3 O (field O a g sel (table_Nyq a g)) k j (g_nx O g - 1 - i).
Proof.
  intros Hsel Hwf Hg Hdx Hprec Hctr Hk Hj Hi.
  rewrite (field_Nyq_split a g sel k j (g_nx O g - 1 - i)) by (try assumption; lia).
  rewrite (field_Nyq_split (mirror_args a) g sel k j i) by (cbn [a_levels mirror_args]; assumption).
  rewrite (mirror_x_cells a g sel k j i) by assumption. ring.
Qed.

(* the default measurement point of dispersion mode satisfies the no-re-centring hypothesis *)
Lemma ctr_default (a : args) : a_xm O a = 0 -> a_ym O a = 0 ->
  cltb O 0 (a_xm O a * a_xm O a + a_ym O a * a_ym O a) = false.
Proof.
  intros -> ->. replace (0 * 0 + 0 * 0) with 0 by ring. apply (L_ltb_irrefl O L).
Qed.

End C07M.

(* ================================================================ mirror in y *)

Section C07MY.
Variable O : Ops.
Hypothesis L : Laws O.
Notation C := (C O).
Notation "0" := (c0 O) : ops_scope. Notation "1" := (c1 O) : ops_scope.
Infix "+" := (cadd O) : ops_scope. Infix "*" := (cmul O) : ops_scope.
Infix "-" := (csub O) : ops_scope. Infix "/" := (cdiv O) : ops_scope.
Notation "- x" := (copp O x) : ops_scope.
Local Open Scope ops_scope.
Add Field OFc7my : (L_field O L).
Notation ofZ := (cofZ O).
Notation ofN n := (cofZ O (Z.of_nat n)).
Notation args := (args O).
Notation geom := (geom O).

Definition mirror_y_prof (p : profiles O) : profiles O :=
  mkProf O (p_u O p) (map (copp O) (p_v O p)) (p_Kx O p) (p_Ky O p) (p_Kz O p).

Definition mirror_ym (a : args) : C :=
  ofZ (Z.of_nat (length (a_q0 O a)) - 1) * (a_ymx O a / ofN (length (a_q0 O a))) - a_ym O a.

Definition mirror_y_args (a : args) : args :=
  mkArgs O (rev (a_q0 O a)) (a_z O a) (mirror_y_prof (a_prof O a))
         (a_xmx O a) (a_ymx O a) (a_levels O a) (a_nlx O a) (a_nly O a)
         (a_xm O a) (if a_footprint O a then mirror_ym a else a_ym O a)
         (a_p000 O a) (a_footprint O a) (a_analytic O a) (a_halo O a) (a_single O a).

Definition table_noNyq_y (a : args) (g : geom) : list ((Z * Z) * list (C * C)) :=
  filter (fun e => keepf (g_nly O g) (snd (fst e))) (table O a g).

Lemma hd_rev_in (q : list (list C)) : q <> [] -> In (hd [] (rev q)) q.
Proof.
  intros Hq. apply in_rev. destruct (rev q) as [|x l] eqn:E.
  - exfalso. apply Hq. apply (f_equal (@length _)) in E. rewrite rev_length in E.
    destruct q; [reflexivity|discriminate].
  - left. reflexivity.
Qed.

Lemma hd_rev a : wf O a -> length (hd [] (rev (a_q0 O a))) = length (hd [] (a_q0 O a)).
Proof.
  intros Hwf. destruct (a_q0 O a) as [|r q] eqn:E; [reflexivity|].
  rewrite <- E. apply (wf_rect O a Hwf). apply hd_rev_in. rewrite E. discriminate.
Qed.

Theorem mirror_y_geometry (a : args) : wf O a -> geometry O (mirror_y_args a) = geometry O a.
Proof.
  intros Hwf.
  apply (geometry_shape_only O L); cbn [a_q0 a_z a_xmx a_ymx a_levels a_nlx a_nly a_halo mirror_y_args];
    try reflexivity; [apply rev_length|apply hd_rev; exact Hwf].
Qed.

Lemma wf_mirror_y a : wf O a -> wf O (mirror_y_args a).
Proof.
  intros Hwf. pose proof (hd_rev a Hwf) as Hhd. destruct Hwf as [A B C0 D E F]. constructor;
    cbn [a_prof a_z a_q0 mirror_y_args mirror_y_prof p_u p_v p_Kx p_Ky p_Kz]; try assumption.
  - rewrite map_length. exact B.
  - intros row Hin. rewrite Hhd. apply F. apply in_rev. exact Hin.
Qed.

Lemma cellq_rev_y (q : list (list C)) j i :
  (j < length q)%nat -> cellq O (rev q) j i = cellq O q (length q - 1 - j) i.
Proof.
  intros Hj. unfold cellq. rewrite rev_nth by exact Hj. f_equal. f_equal. lia.
Qed.

(* ---------------------------------------------------------------- per-mode pieces *)

Lemma ivp_mirror_y lx ly layers levels st :
  ivp O lx (- ly) (map (mirror_y O) layers) levels st = ivp O lx ly layers levels st.
Proof.
  unfold ivp. rewrite (ivp_loop_ext O L lx ly lx (- ly) (mirror_y O) levels (step_mirror_y O L lx ly)).
  rewrite map_length. reflexivity.
Qed.

Lemma mk_layers_mirror_y : forall Kx Ky u v Kz dz : list C,
  mk_layers O Kx Ky u (map (copp O) v) Kz dz = map (mirror_y O) (mk_layers O Kx Ky u v Kz dz).
Proof.
  induction Kx as [|a Kx IH]; intros Ky u v Kz dz.
  - destruct Ky, u, v, Kz, dz; reflexivity.
  - destruct Ky, u, v, Kz, dz; try reflexivity. cbn [mk_layers map]. rewrite IH. reflexivity.
Qed.

Lemma layers_mirror_y z pr : layers_of O z (mirror_y_prof pr) = map (mirror_y O) (layers_of O z pr).
Proof. unfold layers_of, mirror_y_prof. cbn [p_u p_v p_Kx p_Ky p_Kz]. apply mk_layers_mirror_y. Qed.

Lemma mode_levels_q_mirror_y a g tx ty ty' qh :
  fftfreq (g_nly O g) ty' = (- fftfreq (g_nly O g) ty)%Z ->
  mode_levels_q O (mirror_y_args a) g tx ty' qh = mode_levels_q O a g tx ty qh.
Proof.
  intros Hf. unfold mode_levels_q.
  change (a_z O (mirror_y_args a)) with (a_z O a).
  change (a_levels O (mirror_y_args a)) with (a_levels O a).
  change (a_analytic O (mirror_y_args a)) with (a_analytic O a).
  change (rho O (mirror_y_args a)) with (rho O a).
  change (a_prof O (mirror_y_args a)) with (mirror_y_prof (a_prof O a)).
  rewrite layers_mirror_y.
  cbn [mirror_y_prof p_u p_v p_Kx p_Ky p_Kz].
  rewrite Hf, (wavenumber_opp O L), (topN_mirror O L), (eig_mirror_y O L).
  destruct (a_analytic O a); [reflexivity|].
  rewrite !ivp_mirror_y. reflexivity.
Qed.

(* ---------------------------------------------------------------- source spectrum *)

Theorem src_hat_mirror_y a g kx ky :
  wf O a -> geometry O a = inl g ->
  src_hat O (mirror_y_args a) g kx (- ky)%Z = root O (g_nye O g) (- ky)%Z * src_hat O a g kx ky.
Proof.
  intros Hwf Hg.
  destruct (geometry_inv O L a g Hg) as (Eny & Enx & _ & _ & _ & _ & Eye & _).
  assert (Hg' : geometry O (mirror_y_args a) = inl g) by (rewrite (mirror_y_geometry a Hwf); exact Hg).
  rewrite (src_hat_index O L _ g kx (- ky)%Z (wf_mirror_y a Hwf) Hg'), (src_hat_index O L a g kx ky Hwf Hg).
  cbn [a_q0 mirror_y_args].
  set (sc := 1 / ofN (g_nxe O g) / ofN (g_nye O g)).
  set (r := root O (g_nye O g) (- ky)%Z).
  transitivity (sc * (csum O (map (fun j => csum O (map (fun i =>
        cellq O (a_q0 O a) j i * cis O (- phase O g kx ky (i + g_px O g) (j + g_py O g)))
      (seq 0 (g_nx O g)))) (seq 0 (g_ny O g))) * r)); [|ring].
  f_equal. rewrite <- (csum_map_scale_r O L).
  set (F := fun j : nat => csum O (map (fun i =>
        cellq O (a_q0 O a) j i * cis O (- phase O g kx ky (i + g_px O g) (j + g_py O g)))
      (seq 0 (g_nx O g))) * r).
  rewrite <- (csum_rev O L (g_ny O g) F).
  apply (csum_map_ext O L). intros j Hj. apply in_seq in Hj. unfold F.
  rewrite <- (csum_map_scale_r O L).
  apply (csum_map_ext O L). intros i Hi.
  rewrite (cellq_rev_y (a_q0 O a) j i) by lia. rewrite <- Eny.
  rewrite !(cis_phase_neg O L), Z.opp_involutive.
  rewrite <- (root_reflect O L (g_nye O g) (g_ny O g) (g_py O g) ky j Eye) by lia.
  unfold r.
  set (Rx := root O (g_nxe O g) _). set (c := cellq O _ _ _). set (Ry := root O (g_nye O g) (ky * _)%Z).
  transitivity (c * (Ry * Rx) * root O (g_nye O g) ky * root O (g_nye O g) (- ky)%Z);
    [symmetry; apply (root_cancel O L)|ring].
Qed.

Lemma q0_hat_mirror_y_disp a g tx ty :
  wf O a -> geometry O a = inl g -> a_footprint O a = false ->
  (ty < g_nly O g)%nat -> (2 * ty <> g_nly O g)%nat ->
  q0_hat O (mirror_y_args a) g tx (nidx (g_nly O g) ty)
  = root O (g_nye O g) (- fftfreq (g_nly O g) ty)%Z * q0_hat O a g tx ty.
Proof.
  intros Hwf Hg Hfp Hty Hny. unfold q0_hat.
  change (a_footprint O (mirror_y_args a)) with (a_footprint O a). rewrite Hfp.
  rewrite (fftfreq_nidx _ _ Hty Hny). apply src_hat_mirror_y; assumption.
Qed.

Lemma q0_hat_mirror_y_fp a g tx ty ty' :
  a_footprint O a = true -> q0_hat O (mirror_y_args a) g tx ty' = q0_hat O a g tx ty.
Proof.
  intros Hfp. unfold q0_hat. change (a_footprint O (mirror_y_args a)) with (a_footprint O a).
  rewrite Hfp. reflexivity.
Qed.

(* ---------------------------------------------------------------- spectrum *)

Theorem spectrum_mirror_y_fp a g tx ty :
  a_footprint O a = true -> (ty < g_nly O g)%nat -> (2 * ty <> g_nly O g)%nat ->
  spectrum O (mirror_y_args a) g tx (nidx (g_nly O g) ty) = spectrum O a g tx ty.
Proof.
  intros Hfp Hty Hny.
  destruct (Nat.eq_dec ty 0) as [->|Hy0]; [destruct (Nat.eq_dec tx 0) as [->|Hx0]|].
  - cbn [nidx spectrum]. unfold mean_levels.
    rewrite (q0_hat_mirror_y_fp a g 0%nat 0%nat 0%nat Hfp). reflexivity.
  - cbn [nidx]. rewrite !(spectrum_nonmean O L) by congruence. unfold mode_levels.
    rewrite (q0_hat_mirror_y_fp a g tx 0%nat 0%nat Hfp).
    apply mode_levels_q_mirror_y. apply (fftfreq_nidx _ 0%nat Hty Hny).
  - assert (Hy0' : nidx (g_nly O g) ty <> 0%nat) by (rewrite nidx_0_iff by exact Hty; exact Hy0).
    rewrite !(spectrum_nonmean O L) by congruence. unfold mode_levels.
    rewrite (q0_hat_mirror_y_fp a g tx ty _ Hfp).
    apply mode_levels_q_mirror_y. apply (fftfreq_nidx _ _ Hty Hny).
Qed.

Theorem spectrum_mirror_y_disp a g sel k tx ty :
  (forall pq s, sel (fst pq * s, snd pq * s) = sel pq * s) ->
  wf O a -> geometry O a = inl g -> a_footprint O a = false -> a_single O a = false ->
  (k < length (a_levels O a))%nat -> (ty < g_nly O g)%nat -> (2 * ty <> g_nly O g)%nat ->
  sel (nth k (spectrum O (mirror_y_args a) g tx (nidx (g_nly O g) ty)) (0, 0))
  = sel (nth k (spectrum O a g tx ty) (0, 0)) * root O (g_nye O g) (- fftfreq (g_nly O g) ty)%Z.
Proof.
  intros Hsel Hwf Hg Hfp Hs Hk Hty Hny.
  assert (Hmode : forall ty0, (ty0 < g_nly O g)%nat -> (2 * ty0 <> g_nly O g)%nat ->
     sel (nth k (mode_levels O (mirror_y_args a) g tx (nidx (g_nly O g) ty0)) (0, 0))
     = sel (nth k (mode_levels O a g tx ty0) (0, 0)) * root O (g_nye O g) (- fftfreq (g_nly O g) ty0)%Z).
  { intros ty0 Hty0 Hny0. unfold mode_levels.
    rewrite (q0_hat_mirror_y_disp a g tx ty0 Hwf Hg Hfp Hty0 Hny0).
    rewrite (mode_levels_q_mirror_y a g tx ty0 _ _ (fftfreq_nidx _ _ Hty0 Hny0)).
    rewrite !(mode_transfer O L a g tx ty0 _ k Hwf Hg Hs Hk).
    set (r := root O _ _). set (q := q0_hat O a g tx ty0). set (T := transfer O a g tx ty0 _).
    rewrite <- (Hsel (q * fst T, q * snd T) r). cbn [fst snd]. f_equal. f_equal; ring. }
  destruct (Nat.eq_dec ty 0) as [->|Hy0]; [destruct (Nat.eq_dec tx 0) as [->|Hx0]|].
  - cbn [nidx spectrum]. unfold mean_levels.
    pose proof (q0_hat_mirror_y_disp a g 0%nat 0%nat Hwf Hg Hfp Hty Hny) as Hq. cbn [nidx] in Hq.
    rewrite Hq, (fftfreq_0 O L). change (- 0)%Z with 0%Z. rewrite (root_0 O L).
    replace (1 * q0_hat O a g 0%nat 0%nat) with (q0_hat O a g 0%nat 0%nat) by ring.
    change (a_p000 O (mirror_y_args a)) with (a_p000 O a).
    change (mean_levels_q O (mirror_y_args a) g) with (mean_levels_q O a g). ring.
  - pose proof (Hmode 0%nat Hty Hny) as Hm. cbn [nidx] in *.
    rewrite !(spectrum_nonmean O L) by congruence. exact Hm.
  - assert (Hy0' : nidx (g_nly O g) ty <> 0%nat) by (rewrite nidx_0_iff by exact Hty; exact Hy0).
    rewrite !(spectrum_nonmean O L) by congruence. apply Hmode; assumption.
Qed.

(* ---------------------------------------------------------------- phase shift *)

Lemma shift_mirror_y_disp a g tx ty ty' :
  a_footprint O a = false -> cltb O 0 (a_xm O a * a_xm O a + a_ym O a * a_ym O a) = false ->
  shift O (mirror_y_args a) g tx ty' = 1 /\ shift O a g tx ty = 1.
Proof.
  intros Hfp Hc. unfold shift. cbn [a_footprint a_xm a_ym mirror_y_args]. rewrite Hfp, Hc. split; reflexivity.
Qed.

Lemma shift_mirror_y_fp a g tx ty ty' :
  geometry O a = inl g -> a_footprint O a = true -> g_dy O g <> 0 -> g_ny O g <> 0%nat ->
  fftfreq (g_nly O g) ty' = (- fftfreq (g_nly O g) ty)%Z ->
  shift O (mirror_y_args a) g tx ty' = shift O a g tx ty * root O (g_nye O g) (fftfreq (g_nly O g) ty).
Proof.
  intros Hg Hfp Hdy Hny0 Hf.
  destruct (geometry_inv O L a g Hg) as (Eny & _ & _ & _ & Edy & _ & Eye & _).
  assert (Hye0 : g_nye O g <> 0%nat) by lia.
  unfold shift. cbn [a_footprint a_xm a_ym mirror_y_args]. rewrite Hfp, Hf.
  unfold mirror_ym. rewrite <- Eny, <- Edy.
  set (ky := fftfreq (g_nly O g) ty).
  set (lx := wavenumber O (g_dx O g) (g_nxe O g) (fftfreq (g_nlx O g) tx)).
  rewrite (wavenumber_opp O L). set (ly := wavenumber O (g_dy O g) (g_nye O g) ky).
  unfold cis, shift_arg_fp.
  assert (E1 : ofZ (Z.of_nat (g_ny O g) - 1) = ofN (g_ny O g) - 1).
  { unfold Z.sub. rewrite (L_ofZ_add O L), (L_ofZ_opp O L), (L_ofZ_1 O L). ring. }
  assert (E2 : ofZ (- (Z.of_nat (g_nye O g) - 1)) = 1 - ofN (g_ny O g) - (1 + 1) * ofN (g_py O g)).
  { rewrite Eye, Nat2Z.inj_add, Nat2Z.inj_mul. change (Z.of_nat 2) with 2%Z. unfold Z.sub.
    rewrite (L_ofZ_opp O L), !(L_ofZ_add O L), (L_ofZ_opp O L), (L_ofZ_mul O L), (L_ofZ_1 O L), (ofZ_2 O L). ring. }
  replace (ci O * (lx * (a_xm O a + ofN (g_px O g) * g_dx O g)
                   + - ly * (ofZ (Z.of_nat (g_ny O g) - 1) * g_dy O g - a_ym O a + ofN (g_py O g) * g_dy O g)))
    with (ci O * (lx * (a_xm O a + ofN (g_px O g) * g_dx O g) + ly * (a_ym O a + ofN (g_py O g) * g_dy O g))
          + ci O * (ly * (ofZ (- (Z.of_nat (g_nye O g) - 1)) * g_dy O g))) by (rewrite E1, E2; ring).
  rewrite (L_exp_add O L). f_equal. subst ly.
  rewrite (wavenumber_cell O L) by assumption.
  replace (ky * - (Z.of_nat (g_nye O g) - 1))%Z with (ky + Z.of_nat (g_nye O g) * (- ky))%Z by ring.
  apply (root_period O L). exact Hye0.
Qed.

(* ---------------------------------------------------------------- one mode's contribution *)

Lemma term_mirror_y a g sel k j i tx ty :
  (forall pq s, sel (fst pq * s, snd pq * s) = sel pq * s) ->
  wf O a -> geometry O a = inl g ->
  (a_footprint O a = true -> g_dy O g <> 0) ->
  (a_footprint O a = false -> a_single O a = false) ->
  (a_footprint O a = false -> cltb O 0 (a_xm O a * a_xm O a + a_ym O a * a_ym O a) = false) ->
  (k < length (a_levels O a))%nat -> (j < g_ny O g)%nat ->
  (ty < g_nly O g)%nat -> (2 * ty <> g_nly O g)%nat ->
  term O (mirror_y_args a) g sel k i (j + g_py O g) (tx, nidx (g_nly O g) ty)
  = term O a g sel k i (g_ny O g - 1 - j + g_py O g) (tx, ty).
Proof.
  intros Hsel Hwf Hg Hdy Hprec Hctr Hk Hj Hty Hny.
  destruct (geometry_inv O L a g Hg) as (_ & _ & _ & _ & _ & _ & Eye & _).
  pose proof (fftfreq_nidx _ _ Hty Hny) as Hf.
  unfold term. cbn [fst snd]. change (a_footprint O (mirror_y_args a)) with (a_footprint O a).
  rewrite Hf. set (kx := fftfreq (g_nlx O g) tx). set (ky := fftfreq (g_nly O g) ty).
  destruct (a_footprint O a) eqn:Hfp.
  - rewrite (spectrum_mirror_y_fp a g tx ty Hfp Hty Hny).
    rewrite (shift_mirror_y_fp a g tx ty _ Hg Hfp (Hdy eq_refl) ltac:(lia) Hf). fold ky.
    rewrite !(cis_phase_neg O L), Z.opp_involutive.
    rewrite <- (root_reflect O L (g_nye O g) (g_ny O g) (g_py O g) ky j Eye Hj). ring.
  - destruct (shift_mirror_y_disp a g tx ty (nidx (g_nly O g) ty) Hfp (Hctr eq_refl)) as [-> ->].
    rewrite (spectrum_mirror_y_disp a g sel k tx ty Hsel Hwf Hg Hfp (Hprec eq_refl) Hk Hty Hny). fold ky.
    rewrite !(cis_phase O L).
    replace (ky * Z.of_nat (g_ny O g - 1 - j + g_py O g))%Z
      with (- - ky * Z.of_nat (g_ny O g - 1 - j + g_py O g))%Z by (rewrite Z.opp_involutive; reflexivity).
    rewrite <- (root_reflect O L (g_nye O g) (g_ny O g) (g_py O g) (- ky)%Z j Eye Hj). ring.
Qed.

Lemma synth_noNyq_y a g sel k i j :
  (forall pq s, sel (fst pq * s, snd pq * s) = sel pq * s) ->
  (k < length (a_levels O a))%nat ->
  synth O a g sel (table_noNyq_y a g) k i j
  = cre O (csum O (map (fun ty => csum O (map (fun tx =>
        if keepf (g_nly O g) (fftfreq (g_nly O g) ty) then term O a g sel k i j (tx, ty) else 0)
      (seq 0 (g_nlx O g)))) (seq 0 (g_nly O g)))).
Proof.
  intros Hsel Hk. unfold synth, table_noNyq_y, table.
  rewrite filter_map_comm, map_map, (csum_filter O L). cbn [fst snd]. f_equal.
  unfold modes_of.
  rewrite (csum_modes_nested O L (fun t => if keepf (g_nly O g) (fftfreq (g_nly O g) (snd t)) then _ else 0)).
  apply (csum_map_ext O L). intros ty _. apply (csum_map_ext O L). intros tx _. cbn [fst snd].
  destruct (keepf _ _); [|reflexivity]. unfold term. cbn [fst snd].
  set (sp := spectrum O a g tx ty). set (s := shift O a g tx ty).
  set (fs := fun pq : C * C => (fst pq * s, snd pq * s)).
  rewrite (nth_indep _ (0, 0) (fs (0, 0))) by (rewrite map_length; subst sp; rewrite (spectrum_length O L); exact Hk).
  rewrite map_nth. subst fs. cbv beta. rewrite Hsel. reflexivity.
Qed.

(* ---------------------------------------------------------------- the theorem *)

Theorem mirror_y_cells (a : args) (g : geom) sel k j i :
  (forall pq s, sel (fst pq * s, snd pq * s) = sel pq * s) ->
  wf O a -> geometry O a = inl g ->
  (a_footprint O a = true -> g_dy O g <> 0) ->
  (a_footprint O a = false -> a_single O a = false) ->
  (a_footprint O a = false -> cltb O 0 (a_xm O a * a_xm O a + a_ym O a * a_ym O a) = false) ->
  (k < length (a_levels O a))%nat -> (j < g_ny O g)%nat -> (i < g_nx O g)%nat ->
  get3 O (field O (mirror_y_args a) g sel (table_noNyq_y (mirror_y_args a) g)) k j i
  = get3 O (field O a g sel (table_noNyq_y a g)) k (g_ny O g - 1 - j) i.
Proof.
  intros Hsel Hwf Hg Hdy Hprec Hctr Hk Hj Hi.
  rewrite (field_get O L a g) by (try assumption; lia).
  rewrite (field_get O L (mirror_y_args a) g) by (cbn [a_levels mirror_y_args]; assumption).
  rewrite !synth_noNyq_y by (cbn [a_levels mirror_y_args]; assumption).
  f_equal.
  rewrite <- (csum_reflect O L (g_nly O g) (fun ty => csum O (map (fun tx =>
     if keepf (g_nly O g) (fftfreq (g_nly O g) ty)
     then term O (mirror_y_args a) g sel k (i + g_px O g) (j + g_py O g) (tx, ty) else 0)
     (seq 0 (g_nlx O g))))).
  apply (csum_map_ext O L). intros ty Hty. apply in_seq in Hty.
  apply (csum_map_ext O L). intros tx _.
  rewrite keepf_nidx by lia.
  destruct (keepf (g_nly O g) (fftfreq (g_nly O g) ty)) eqn:Ekeep; [|reflexivity].
  apply keepf_spec in Ekeep; [|lia].
  apply term_mirror_y; try assumption. lia.
Qed.

Lemma table_noNyq_y_even a g : Nat.even (g_nly O g) = true ->
  table_noNyq_y a g = filter (fun e => negb (snd (fst e) =? - Z.of_nat (g_nly O g / 2))%Z) (table O a g).
Proof. intros He. unfold table_noNyq_y. apply filter_ext. intros e. apply keepf_even. exact He. Qed.

Lemma table_noNyq_y_odd a g : Nat.odd (g_nly O g) = true -> table_noNyq_y a g = table O a g.
Proof. intros Ho. unfold table_noNyq_y. apply filter_all. intros e. apply keepf_odd. exact Ho. Qed.

Theorem mirror_y_cells_odd (a : args) (g : geom) sel k j i :
  (forall pq s, sel (fst pq * s, snd pq * s) = sel pq * s) ->
  wf O a -> geometry O a = inl g ->
  (a_footprint O a = true -> g_dy O g <> 0) ->
  (a_footprint O a = false -> a_single O a = false) ->
  (a_footprint O a = false -> cltb O 0 (a_xm O a * a_xm O a + a_ym O a * a_ym O a) = false) ->
  Nat.odd (g_nly O g) = true ->
  (k < length (a_levels O a))%nat -> (j < g_ny O g)%nat -> (i < g_nx O g)%nat ->
  get3 O (field O (mirror_y_args a) g sel (table O (mirror_y_args a) g)) k j i
  = get3 O (field O a g sel (table O a g)) k (g_ny O g - 1 - j) i.
Proof.
  intros Hsel Hwf Hg Hdy Hprec Hctr Ho Hk Hj Hi.
  rewrite <- !table_noNyq_y_odd by exact Ho. apply mirror_y_cells; assumption.
Qed.

Theorem mirror_y_cells_even (a : args) (g : geom) sel k j i :
  (forall pq s, sel (fst pq * s, snd pq * s) = sel pq * s) ->
  wf O a -> geometry O a = inl g ->
  (a_footprint O a = true -> g_dy O g <> 0) ->
  (a_footprint O a = false -> a_single O a = false) ->
  (a_footprint O a = false -> cltb O 0 (a_xm O a * a_xm O a + a_ym O a * a_ym O a) = false) ->
  Nat.even (g_nly O g) = true ->
  (k < length (a_levels O a))%nat -> (j < g_ny O g)%nat -> (i < g_nx O g)%nat ->
  let drop := fun e : (Z * Z) * list (C * C) => negb (snd (fst e) =? - Z.of_nat (g_nly O g / 2))%Z in
  get3 O (field O (mirror_y_args a) g sel (filter drop (table O (mirror_y_args a) g))) k j i
  = get3 O (field O a g sel (filter drop (table O a g))) k (g_ny O g - 1 - j) i.
Proof.
  intros Hsel Hwf Hg Hdy Hprec Hctr He Hk Hj Hi drop. subst drop.
  rewrite <- !table_noNyq_y_even by exact He. apply mirror_y_cells; assumption.
Qed.

Definition table_Nyq_y (a : args) (g : geom) : list ((Z * Z) * list (C * C)) :=
  filter (fun e => negb (keepf (g_nly O g) (snd (fst e)))) (table O a g).

Theorem field_Nyq_y_split (a : args) (g : geom) sel k j i :
  (k < length (a_levels O a))%nat -> (j < g_ny O g)%nat -> (i < g_nx O g)%nat ->
  get3 O (field O a g sel (table O a g)) k j i
  = get3 O (field O a g sel (table_noNyq_y a g)) k j i + get3 O (field O a g sel (table_Nyq_y a g)) k j i.
Proof.
  intros Hk Hj Hi. rewrite !(field_get O L) by assumption.
  unfold synth, table_noNyq_y, table_Nyq_y. rewrite <- (L_re_add O L). f_equal.
  rewrite !(csum_filter O L), <- (csum_map_add O L). apply (csum_map_ext O L). intros e _.
  destruct (keepf (g_nly O g) (snd (fst e))); cbn [negb]; ring.
Qed.

Theorem mirror_y_cells_defect (a : args) (g : geom) sel k j i :
  (forall pq s, sel (fst pq * s, snd pq * s) = sel pq * s) ->
  wf O a -> geometry O a = inl g ->
  (a_footprint O a = true -> g_dy O g <> 0) ->
  (a_footprint O a = false -> a_single O a = false) ->
  (a_footprint O a = false -> cltb O 0 (a_xm O a * a_xm O a + a_ym O a * a_ym O a) = false) ->
  (k < length (a_levels O a))%nat -> (j < g_ny O g)%nat -> (i < g_nx O g)%nat ->
  get3 O (field O (mirror_y_args a) g sel (table O (mirror_y_args a) g)) k j i
  - get3 O (field O a g sel (table O a g)) k (g_ny O g - 1 - j) i
  = get3 O (field O (mirror_y_args a) g sel (table_Nyq_y (mirror_y_args a) g)) k j i
    - get3 O (field O a g sel (table_Nyq_y a g)) k (g_ny O g - 1 - j) i.
Proof.
  intros Hsel Hwf Hg Hdy Hprec Hctr Hk Hj Hi.
  rewrite (field_Nyq_y_split a g sel k (g_ny O g - 1 - j) i) by (try assumption; lia).
  rewrite (field_Nyq_y_split (mirror_y_args a) g sel k j i) by (cbn [a_levels mirror_y_args]; assumption).
  rewrite (mirror_y_cells a g sel k j i) by assumption. ring.
Qed.

End C07MY.

Print Assumptions mirror_geometry.
Print Assumptions src_hat_mirror.
Print Assumptions spectrum_mirror_fp.
Print Assumptions spectrum_mirror_disp.
Print Assumptions mirror_x_cells.
Print Assumptions mirror_x_cells_even.
Print Assumptions mirror_x_cells_odd.
Print Assumptions field_Nyq_split.
Print Assumptions mirror_x_cells_defect.
Print Assumptions mirror_y_geometry.
Print Assumptions src_hat_mirror_y.
Print Assumptions spectrum_mirror_y_fp.
Print Assumptions spectrum_mirror_y_disp.
Print Assumptions mirror_y_cells.
Print Assumptions mirror_y_cells_odd.
Print Assumptions mirror_y_cells_even.
Print Assumptions field_Nyq_y_split.
Print Assumptions mirror_y_cells_defect.
