(* Roots of unity built from cexp, geometric sums and orthogonality. *)
From Coq Require Import ZArith List Field Ring Lia Arith Znumtheory.
From BL Require Import Base.Ops Base.Laws Model.Solver Proofs.Sums.
Import ListNotations.
Set Default Proof Using "All".

Section Dft.
Variable O : Ops.
Hypothesis L : Laws O.
Notation C := (C O).
Notation "0" := (c0 O) : ops_scope. Notation "1" := (c1 O) : ops_scope.
Infix "+" := (cadd O) : ops_scope. Infix "*" := (cmul O) : ops_scope.
Infix "-" := (csub O) : ops_scope. Infix "/" := (cdiv O) : ops_scope.
Notation "- x" := (copp O x) : ops_scope.
Local Open Scope ops_scope.
Add Field OFd : (L_field O L).
Notation ofZ := (cofZ O).
Notation ofN n := (cofZ O (Z.of_nat n)).

(* exp(2 pi i k / n) *)
Definition root (n : nat) (k : Z) : C := cexp O (ci O * (twopi O * (ofZ k / ofN n))).

Fixpoint cpow (w : C) (m : nat) : C := match m with 0%nat => 1 | S m1 => w * cpow w m1 end.

Lemma root_0 n : root n 0 = 1.
Proof.
  unfold root. rewrite (L_ofZ_0 O L).
  replace (ci O * (twopi O * (0 / ofN n))) with 0; [apply (L_exp_0 O L)|].
  rewrite (Fdiv_def (L_field O L)). ring.
Qed.

Lemma root_add n a b : root n (a + b) = root n a * root n b.
Proof.
  unfold root. rewrite <- (L_exp_add O L). f_equal. rewrite (L_ofZ_add O L).
  rewrite !(Fdiv_def (L_field O L)). ring.
Qed.

Lemma root_opp n a : root n (- a) * root n a = 1.
Proof. rewrite <- root_add. replace (- a + a)%Z with 0%Z by lia. apply root_0. Qed.

Lemma root_nz n a : root n a <> 0.
Proof.
  intros E. apply (one_nz O L). rewrite <- (root_opp n a), E. ring.
Qed.

Lemma root_mul_nat n k (m : nat) : root n (k * Z.of_nat m) = cpow (root n k) m.
Proof.
  induction m as [|m IH]; cbn [cpow].
  - rewrite Z.mul_0_r. apply root_0.
  - rewrite Nat2Z.inj_succ. replace (k * Z.succ (Z.of_nat m))%Z with (k + k * Z.of_nat m)%Z by lia.
    rewrite root_add, IH. reflexivity.
Qed.

Lemma cpow_one m : cpow 1 m = 1.
Proof. induction m as [|m IH]; cbn [cpow]; [reflexivity|]. rewrite IH. ring. Qed.

(* root n n = exp(2 pi i) = 1 *)
Lemma root_n_n n : n <> 0%nat -> root n (Z.of_nat n) = 1.
Proof.
  intros Hn. unfold root.
  replace (ci O * (twopi O * (ofN n / ofN n))) with (ci O * (ofZ 2 * cpi O)); [apply (L_cis_2pi O L)|].
  unfold twopi, two. field. apply (ofN_nz O L). exact Hn.
Qed.

Lemma root_period n a m : n <> 0%nat -> root n (a + Z.of_nat n * m) = root n a.
Proof.
  intros Hn. rewrite root_add.
  assert (H : root n (Z.of_nat n * m) = 1).
  { destruct m as [|p|p].
    - rewrite Z.mul_0_r. apply root_0.
    - rewrite <- (positive_nat_Z p), root_mul_nat, (root_n_n n Hn). apply cpow_one.
    - assert (Hp : root n (Z.of_nat n * Z.pos p) = 1).
      { rewrite <- (positive_nat_Z p), root_mul_nat, (root_n_n n Hn). apply cpow_one. }
      pose proof (root_opp n (Z.of_nat n * Z.pos p)) as Ho. rewrite Hp in Ho.
      replace (Z.of_nat n * Z.neg p)%Z with (- (Z.of_nat n * Z.pos p))%Z by lia.
      rewrite <- Ho. ring. }
  rewrite H. ring.
Qed.

Lemma root_mod n a b : n <> 0%nat -> (a mod Z.of_nat n = b mod Z.of_nat n)%Z -> root n a = root n b.
Proof.
  intros Hn E. set (N := Z.of_nat n) in *.
  assert (HN : (N <> 0)%Z) by (subst N; lia).
  assert (Ha : a = (a mod N + N * (a / N))%Z) by (pose proof (Z.div_mod a N HN); lia).
  assert (Hb : b = (b mod N + N * (b / N))%Z) by (pose proof (Z.div_mod b N HN); lia).
  rewrite Ha, Hb. subst N. rewrite !root_period by exact Hn. rewrite E. reflexivity.
Qed.

Lemma root_one_iff n k : n <> 0%nat -> root n k = 1 <-> (Z.of_nat n | k)%Z.
Proof.
  intros Hn. split.
  - intros H. apply (L_root_prim O L n k Hn). exact H.
  - intros [q ->]. rewrite <- (Z.add_0_l (q * Z.of_nat n)), Z.mul_comm, root_period by exact Hn. apply root_0.
Qed.

(* geometric sum *)
Lemma geom_sum w m : (w - 1) * csum O (map (cpow w) (seq 0 m)) = cpow w m - 1.
Proof.
  induction m as [|m IH].
  - cbn. ring.
  - rewrite seq_S, map_app, (csum_app O L). cbn [map csum plus cpow].
    transitivity ((w - 1) * csum O (map (cpow w) (seq 0 m)) + (w - 1) * cpow w m); [ring|].
    rewrite IH. ring.
Qed.

(* orthogonality: sum_{i<n} root n (k*i) = n if n | k, else 0 *)
Lemma ortho n k : n <> 0%nat ->
  csum O (map (fun i => root n (k * Z.of_nat i)) (seq 0 n))
  = if Z.eqb (k mod Z.of_nat n) 0 then ofN n else 0.
Proof.
  intros Hn.
  rewrite (csum_map_ext O L (fun i => root n (k * Z.of_nat i)) (cpow (root n k))) by (intros; apply root_mul_nat).
  destruct (Z.eqb (k mod Z.of_nat n) 0) eqn:E.
  - apply Z.eqb_eq in E.
    assert (Hw : root n k = 1). { apply root_one_iff; [exact Hn|]. apply Z.mod_divide; [lia|exact E]. }
    rewrite Hw. rewrite (csum_map_ext O L (cpow 1) (fun _ => 1)) by (intros; apply cpow_one).
    rewrite (csum_map_const O L), seq_length. ring.
  - apply Z.eqb_neq in E.
    assert (Hw : root n k <> 1).
    { intros H. apply E. apply root_one_iff in H; [|exact Hn]. apply Z.mod_divide in H; [exact H|lia]. }
    pose proof (geom_sum (root n k) n) as G.
    rewrite <- root_mul_nat, Z.mul_comm in G.
    replace (Z.of_nat n * k)%Z with (0 + Z.of_nat n * k)%Z in G by lia.
    rewrite root_period, root_0 in G by exact Hn.
    assert (D : root n k - 1 <> 0).
    { intros Cn. apply Hw. transitivity (root n k - 1 + 1); [ring|]. rewrite Cn. ring. }
    transitivity (1 / (root n k - 1) * ((root n k - 1) * csum O (map (cpow (root n k)) (seq 0 n)))).
    + field. exact D.
    + rewrite G. ring.
Qed.

(* phases of the 2-D transforms as products of roots *)
Lemma cis_phase (g : geom O) kx ky i j :
  cis O (phase O g kx ky i j) = root (g_nye O g) (ky * Z.of_nat j) * root (g_nxe O g) (kx * Z.of_nat i).
Proof.
  unfold cis, phase, root. rewrite <- (L_exp_add O L). f_equal. ring.
Qed.

Lemma cis_phase_neg (g : geom O) kx ky i j :
  cis O (- phase O g kx ky i j) = root (g_nye O g) (- ky * Z.of_nat j) * root (g_nxe O g) (- kx * Z.of_nat i).
Proof.
  unfold cis, phase, root. rewrite <- (L_exp_add O L). f_equal.
  rewrite !Z.mul_opp_l, !(L_ofZ_opp O L), !(Fdiv_def (L_field O L)). ring.
Qed.

End Dft.
