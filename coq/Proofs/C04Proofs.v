(* C04: linearity of concentration and flux in (surface flux, background); background is a
   uniform offset of the concentration only; footprint mode depends on the source's shape only. *)
From Coq Require Import ZArith List Field Ring Lia Bool Arith.
From BL Require Import Base.Ops Base.Laws Model.Solver Proofs.Sums Proofs.StepProofs Proofs.ModeProofs Proofs.Dft Proofs.SpecProofs.
Import ListNotations.
Set Default Proof Using "All".

Section C04.
Variable O : Ops.
Hypothesis L : Laws O.
Notation C := (C O).
Notation "0" := (c0 O) : ops_scope. Notation "1" := (c1 O) : ops_scope.
Infix "+" := (cadd O) : ops_scope. Infix "*" := (cmul O) : ops_scope.
Infix "-" := (csub O) : ops_scope. Infix "/" := (cdiv O) : ops_scope.
Notation "- x" := (copp O x) : ops_scope.
Local Open Scope ops_scope.
Add Field OFc4 : (L_field O L).
Notation ofZ := (cofZ O).
Notation ofN n := (cofZ O (Z.of_nat n)).
Notation args := (args O).
Notation geom := (geom O).

(* the same request with another surface-flux array and background *)
Definition with_src (a : args) (q : list (list C)) (p : C) : args :=
  mkArgs O q (a_z O a) (a_prof O a) (a_xmx O a) (a_ymx O a) (a_levels O a) (a_nlx O a) (a_nly O a)
         (a_xm O a) (a_ym O a) p (a_footprint O a) (a_analytic O a) (a_halo O a) (a_single O a).

Definition cellq (q : list (list C)) (j i : nat) : C := nth i (nth j q []) 0.
Definition same_shape (q q' : list (list C)) : Prop :=
  length q = length q' /\ length (hd [] q) = length (hd [] q').

(* index form of the forward transform of the padded source *)
Lemma src_hat_index a g kx ky :
  wf O a -> geometry O a = inl g ->
  src_hat O a g kx ky =
  (1 / ofN (g_nxe O g) / ofN (g_nye O g)) *
  csum O (map (fun j => csum O (map (fun i =>
        cellq (a_q0 O a) j i * cis O (- phase O g kx ky (i + g_px O g) (j + g_py O g)))
      (seq 0 (g_nx O g)))) (seq 0 (g_ny O g))).
Proof.
  intros Hwf Hg. destruct (geometry_inv O L a g Hg) as (Hny & Hnx & _).
  unfold src_hat. f_equal.
  set (F := fun (j : nat) (row : list C) =>
     csum O (map (fun ix : nat * C => snd ix * cis O (- phase O g kx ky (fst ix + g_px O g) (j + g_py O g)))
                 (combine (seq 0 (g_nx O g)) row))).
  rewrite (csum_map_ext O L _ (fun p : nat * list C => F (fst p) (snd p))) by reflexivity.
  rewrite Hny. rewrite (csum_combine_seq O L F []).
  apply (csum_map_ext O L). intros j Hj. apply in_seq in Hj. cbn [plus]. unfold F.
  assert (Hrow : length (nth j (a_q0 O a) []) = g_nx O g).
  { rewrite Hnx. apply (wf_rect O a Hwf). apply nth_In. lia. }
  rewrite <- Hrow.
  set (G := fun (i : nat) (x : C) => x * cis O (- phase O g kx ky (i + g_px O g) (j + g_py O g))).
  rewrite (csum_map_ext O L _ (fun p : nat * C => G (fst p) (snd p))) by reflexivity.
  rewrite (csum_combine_seq O L G 0). apply (csum_map_ext O L). intros i _. reflexivity.
Qed.

Section Linear.
Variables (a : args) (q1 q2 q : list (list C)) (p1 p2 p s1 s2 : C) (g : geom).
Hypothesis Hwf1 : wf O (with_src a q1 p1).
Hypothesis Hwf2 : wf O (with_src a q2 p2).
Hypothesis Hwf : wf O (with_src a q p).
Hypothesis Hsh1 : same_shape q q1.
Hypothesis Hsh2 : same_shape q q2.
Hypothesis Hdisp : a_footprint O a = false.
Hypothesis Hdouble : a_single O a = false.
Hypothesis Hs1 : cre O s1 = s1.
Hypothesis Hs2 : cre O s2 = s2.
Hypothesis Hq : forall j i, (j < length q)%nat -> (i < length (hd [] q))%nat ->
   cellq q j i = s1 * cellq q1 j i + s2 * cellq q2 j i.
Hypothesis Hp : p = s1 * p1 + s2 * p2.
Hypothesis Hg : geometry O (with_src a q p) = inl g.

Lemma Hg1 : geometry O (with_src a q1 p1) = inl g.
Proof. rewrite <- Hg. destruct Hsh1 as [A B]. apply geometry_shape_only; cbn; congruence. Qed.
Lemma Hg2 : geometry O (with_src a q2 p2) = inl g.
Proof. rewrite <- Hg. destruct Hsh2 as [A B]. apply geometry_shape_only; cbn; congruence. Qed.

Lemma q0_hat_linear tx ty :
  q0_hat O (with_src a q p) g tx ty
  = s1 * q0_hat O (with_src a q1 p1) g tx ty + s2 * q0_hat O (with_src a q2 p2) g tx ty.
Proof.
  unfold q0_hat. cbn [a_footprint with_src]. rewrite Hdisp.
  rewrite (src_hat_index _ g _ _ Hwf Hg), (src_hat_index _ g _ _ Hwf1 Hg1), (src_hat_index _ g _ _ Hwf2 Hg2).
  cbn [a_q0 with_src].
  destruct (geometry_inv O L _ g Hg) as (Hny & Hnx & _). cbn [a_q0 with_src] in Hny, Hnx.
  set (sc := 1 / ofN (g_nxe O g) / ofN (g_nye O g)).
  transitivity (sc * (s1 * csum O (map (fun j => csum O (map (fun i =>
        cellq q1 j i * cis O (- phase O g (fftfreq (g_nlx O g) tx) (fftfreq (g_nly O g) ty) (i + g_px O g) (j + g_py O g)))
      (seq 0 (g_nx O g)))) (seq 0 (g_ny O g)))
    + s2 * csum O (map (fun j => csum O (map (fun i =>
        cellq q2 j i * cis O (- phase O g (fftfreq (g_nlx O g) tx) (fftfreq (g_nly O g) ty) (i + g_px O g) (j + g_py O g)))
      (seq 0 (g_nx O g)))) (seq 0 (g_ny O g))))); [|ring].
  f_equal. rewrite <- !(csum_map_scale O L), <- (csum_map_add O L).
  apply (csum_map_ext O L). intros j Hj. apply in_seq in Hj.
  rewrite <- !(csum_map_scale O L), <- (csum_map_add O L).
  apply (csum_map_ext O L). intros i Hi. apply in_seq in Hi.
  rewrite Hq by lia. ring.
Qed.

Lemma amp_linear t k :
  (k < length (a_levels O a))%nat ->
  amp O (with_src a q p) g t k =
  sadd O (sscale O s1 (amp O (with_src a q1 p1) g t k)) (sscale O s2 (amp O (with_src a q2 p2) g t k)).
Proof.
  intros Hk. destruct t as [tx ty]. unfold amp, sadd, sscale.
  change (a_levels O (with_src a q p)) with (a_levels O a).
  change (a_levels O (with_src a q1 p1)) with (a_levels O a).
  change (a_levels O (with_src a q2 p2)) with (a_levels O a).
  change (a_p000 O (with_src a q p)) with p.
  change (a_p000 O (with_src a q1 p1)) with p1.
  change (a_p000 O (with_src a q2 p2)) with p2.
  set (lv := nth k (a_levels O a) 0%nat).
  change (resist O (with_src a q p) g lv) with (resist O (with_src a q1 p1) g lv).
  change (resist O (with_src a q2 p2) g lv) with (resist O (with_src a q1 p1) g lv).
  change (transfer O (with_src a q p) g) with (transfer O (with_src a q1 p1) g).
  change (transfer O (with_src a q2 p2) g) with (transfer O (with_src a q1 p1) g).
  destruct tx as [|tx]; destruct ty as [|ty]; rewrite !q0_hat_linear; cbn [fst snd]; rewrite ?Hp; f_equal; ring.
Qed.

Lemma term_linear sel k i j t :
  (forall x y, sel (sadd O x y) = sel x + sel y) -> (forall s x, sel (sscale O s x) = s * sel x) ->
  (k < length (a_levels O a))%nat ->
  term O (with_src a q p) g sel k i j t
  = s1 * term O (with_src a q1 p1) g sel k i j t + s2 * term O (with_src a q2 p2) g sel k i j t.
Proof.
  intros Hadd Hsc Hk. unfold term.
  rewrite (spectrum_amp O L _ g t k Hwf Hg Hdouble Hk).
  rewrite (spectrum_amp O L _ g t k Hwf1 Hg1 Hdouble Hk).
  rewrite (spectrum_amp O L _ g t k Hwf2 Hg2 Hdouble Hk).
  rewrite (amp_linear t k Hk), Hadd, !Hsc.
  change (shift O (with_src a q p) g) with (shift O (with_src a q1 p1) g).
  change (shift O (with_src a q2 p2) g) with (shift O (with_src a q1 p1) g).
  change (a_footprint O (with_src a q p)) with (a_footprint O (with_src a q1 p1)).
  change (a_footprint O (with_src a q2 p2)) with (a_footprint O (with_src a q1 p1)).
  ring.
Qed.

Lemma cre_lin x y : cre O (s1 * x + s2 * y) = s1 * cre O x + s2 * cre O y.
Proof. rewrite (L_re_add O L), !(L_re_mul_real O L) by assumption. reflexivity. Qed.

Lemma cells_linear sel k j i :
  (forall x y, sel (sadd O x y) = sel x + sel y) -> (forall s x, sel (sscale O s x) = s * sel x) ->
  (forall pq s, sel (fst pq * s, snd pq * s) = sel pq * s) ->
  (k < length (a_levels O a))%nat -> (j < g_ny O g)%nat -> (i < g_nx O g)%nat ->
  get3 O (field O (with_src a q p) g sel (table O (with_src a q p) g)) k j i
  = s1 * get3 O (field O (with_src a q1 p1) g sel (table O (with_src a q1 p1) g)) k j i
  + s2 * get3 O (field O (with_src a q2 p2) g sel (table O (with_src a q2 p2) g)) k j i.
Proof.
  intros Hadd Hsc Hsel Hk Hj Hi.
  rewrite !(field_get O L) by assumption. rewrite !(synth_table O L) by assumption.
  rewrite <- cre_lin. f_equal.
  rewrite <- !(csum_map_scale O L), <- (csum_map_add O L).
  apply (csum_map_ext O L). intros t _. apply term_linear; assumption.
Qed.

End Linear.

(* C04_linear on the results of solve *)
Theorem solve_linear (a : args) (q1 q2 q : list (list C)) (p1 p2 p s1 s2 : C) r r1 r2 :
  wf O (with_src a q1 p1) -> wf O (with_src a q2 p2) -> wf O (with_src a q p) ->
  same_shape q q1 -> same_shape q q2 ->
  a_footprint O a = false -> a_single O a = false ->
  cre O s1 = s1 -> cre O s2 = s2 ->
  (forall j i, (j < length q)%nat -> (i < length (hd [] q))%nat ->
     cellq q j i = s1 * cellq q1 j i + s2 * cellq q2 j i) ->
  p = s1 * p1 + s2 * p2 ->
  solve O (with_src a q p) = inl r ->
  solve O (with_src a q1 p1) = inl r1 -> solve O (with_src a q2 p2) = inl r2 ->
  forall k j i, (k < length (a_levels O a))%nat -> (j < length q)%nat -> (i < length (hd [] q))%nat ->
    get3 O (r_conc O r) k j i = s1 * get3 O (r_conc O r1) k j i + s2 * get3 O (r_conc O r2) k j i /\
    get3 O (r_flx O r) k j i = s1 * get3 O (r_flx O r1) k j i + s2 * get3 O (r_flx O r2) k j i.
Proof.
  intros Hwf1 Hwf2 Hwf Hsh1 Hsh2 Hd Hdb Hs1 Hs2 Hq Hp Hr Hr1 Hr2 k j i Hk Hj Hi.
  destruct (solve_inv O L _ _ Hr) as (g & Hg & Hc & Hf & _).
  destruct (solve_inv O L _ _ Hr1) as (g1 & Hg1' & Hc1 & Hf1 & _).
  destruct (solve_inv O L _ _ Hr2) as (g2 & Hg2' & Hc2 & Hf2 & _).
  pose proof (Hg1 a q1 q2 q p1 p2 p s1 s2 g Hwf1 Hwf2 Hwf Hsh1 Hsh2 Hd Hdb Hs1 Hs2 Hq Hp Hg) as E1.
  pose proof (Hg2 a q1 q2 q p1 p2 p s1 s2 g Hwf1 Hwf2 Hwf Hsh1 Hsh2 Hd Hdb Hs1 Hs2 Hq Hp Hg) as E2.
  rewrite E1 in Hg1'. injection Hg1' as <-. rewrite E2 in Hg2'. injection Hg2' as <-.
  destruct (geometry_inv O L _ g Hg) as (Hny & Hnx & _). cbn [a_q0 with_src] in Hny, Hnx.
  rewrite Hc, Hc1, Hc2, Hf, Hf1, Hf2. split.
  - apply (cells_linear a q1 q2 q p1 p2 p s1 s2 g Hwf1 Hwf2 Hwf Hsh1 Hsh2 Hd Hdb Hs1 Hs2 Hq Hp Hg); try reflexivity; lia.
  - apply (cells_linear a q1 q2 q p1 p2 p s1 s2 g Hwf1 Hwf2 Hwf Hsh1 Hsh2 Hd Hdb Hs1 Hs2 Hq Hp Hg); try reflexivity; lia.
Qed.


(* ------------------------------------------------------------------ background = uniform offset *)

Theorem background_offset (a : args) (q : list (list C)) (p : C) g :
  wf O (with_src a q p) -> a_single O a = false ->
  geometry O (with_src a q p) = inl g -> (0 < g_nlx O g)%nat -> (0 < g_nly O g)%nat ->
  forall k j i, (k < length (a_levels O a))%nat -> (j < g_ny O g)%nat -> (i < g_nx O g)%nat ->
    get3 O (field O (with_src a q p) g fst (table O (with_src a q p) g)) k j i
    = get3 O (field O (with_src a q 0) g fst (table O (with_src a q 0) g)) k j i + cre O p /\
    get3 O (field O (with_src a q p) g snd (table O (with_src a q p) g)) k j i
    = get3 O (field O (with_src a q 0) g snd (table O (with_src a q 0) g)) k j i.
Proof.
  intros Hwf Hdb Hg Hx Hy k j i Hk Hj Hi.
  assert (Hwf0 : wf O (with_src a q 0)) by (destruct Hwf; constructor; assumption).
  assert (Hg0 : geometry O (with_src a q 0) = inl g) by (rewrite <- Hg; apply (geometry_shape_only O L); reflexivity).
  rewrite !(field_get O L) by assumption. rewrite !(synth_table O L) by (try assumption; reflexivity).
  destruct (modes_of_split O L g Hx Hy) as (rest & -> & Hrest). cbn [map csum].
  rewrite !(term_mean O L).
  assert (Hother : forall sel t, In t rest ->
            term O (with_src a q p) g sel k (i + g_px O g) (j + g_py O g) t
            = term O (with_src a q 0) g sel k (i + g_px O g) (j + g_py O g) t).
  { intros sel t Ht. unfold term.
    rewrite (spectrum_amp O L _ g t k Hwf Hg Hdb Hk), (spectrum_amp O L _ g t k Hwf0 Hg0 Hdb Hk).
    destruct t as [[|tx] [|ty]]; try reflexivity. exfalso. apply (Hrest _ Ht). reflexivity. }
  rewrite (csum_map_ext O L _ _ rest (Hother fst)), (csum_map_ext O L _ _ rest (Hother snd)).
  change (nth k (spectrum O (with_src a q p) g 0%nat 0%nat) (0, 0))
    with (nth k (spectrum O (with_src a q p) g (fst (0%nat, 0%nat)) (snd (0%nat, 0%nat))) (0, 0)).
  change (nth k (spectrum O (with_src a q 0) g 0%nat 0%nat) (0, 0))
    with (nth k (spectrum O (with_src a q 0) g (fst (0%nat, 0%nat)) (snd (0%nat, 0%nat))) (0, 0)).
  rewrite (spectrum_amp O L _ g _ k Hwf Hg Hdb Hk), (spectrum_amp O L _ g _ k Hwf0 Hg0 Hdb Hk).
  unfold amp. cbn [fst snd a_p000 with_src]. split.
  - rewrite <- (L_re_add O L). f_equal.
    change (q0_hat O (with_src a q p) g 0%nat 0%nat) with (q0_hat O (with_src a q 0) g 0%nat 0%nat).
    change (resist O (with_src a q p) g) with (resist O (with_src a q 0) g).
    change (a_levels O (with_src a q p)) with (a_levels O (with_src a q 0)).
    ring.
  - reflexivity.
Qed.

(* ------------------------------------------------------------------ footprint: shape only *)

Lemma q0_hat_footprint (a : args) q q' p g tx ty :
  a_footprint O a = true ->
  q0_hat O (with_src a q p) g tx ty = q0_hat O (with_src a q' p) g tx ty.
Proof. intros H. unfold q0_hat. cbn [a_footprint with_src]. rewrite H. reflexivity. Qed.

Theorem footprint_shape_only (a : args) (q q' : list (list C)) (p : C) :
  a_footprint O a = true -> same_shape q q' ->
  solve O (with_src a q p) = solve O (with_src a q' p).
Proof.
  intros Hfp [Hl Hh]. unfold solve.
  rewrite (geometry_shape_only O L (with_src a q p) (with_src a q' p)) by (cbn; congruence).
  destruct (geometry O (with_src a q' p)) as [g|e]; [|reflexivity].
  assert (Htab : table O (with_src a q p) g = table O (with_src a q' p) g).
  { unfold table. apply map_ext. intros [tx ty]. cbn [fst snd]. f_equal. f_equal.
    unfold spectrum, mode_levels, mean_levels.
    destruct tx as [|tx]; destruct ty as [|ty]; rewrite (q0_hat_footprint a q q' p g _ _ Hfp); reflexivity. }
  rewrite Htab. reflexivity.
Qed.

End C04.
