(* The parser tables of Model/InterfaceDesc.v (tbl_tower .. tbl_parallel, tbl_top) describe the parser model of
   Model/Interface.v: whenever a section parses, every row of its table holds of the dictionary and the parsed
   record (required key present / None when absent or null / the default exactly when the key is absent; float()
   on xmax, ymax), an omitted optional section gives the default object, a missing mandatory section raises.
   Proved once (static build); coq/Bridge/InterfaceBridge.v then only has to show, per run, that the tables
   extracted from the current source ARE these tables. *)
From Coq Require Import List Arith Bool String ZArith.
From BL Require Import Model.Met Model.Interface Model.InterfaceDesc Proofs.InterfaceProofs.
Import ListNotations.
Open Scope string_scope.
Open Scope list_scope.

Section TblSound.
Context {A : Type}.
Variable D : defaults A.
Variable to_float : A -> A.
Variable zero : A.

Notation val := (val A A unit unit).

(* a YAML value as a field value *)
Definition sval_val (v : sval A) : val :=
  match v with
  | SNull => VNone | SAtom a => VA a | SBool b => VBool b | SNat n => VNat n | SSeq l => VList l | SNats l => VNats l
  end.
(* None-or-value fields in the plain form *)
Definition norm (v : val) : val :=
  match v with
  | VOptA (Some a) => VA a
  | VOptList (Some l) => VList l
  | VOptNats (Some l) => VNats l
  | VOptA None | VOptList None | VOptNats None => VNone
  | v => v
  end.

Definition of_fld (f : fld A) : val := match f with Scalar a => VA a | Lst l => VList l end.
Definition met_field (m : met A A) (f : string) : option val :=
  lookup [("ustar", match m_ustar m with Some x => of_fld x | None => VNone end); ("mol", of_fld (m_mol m));
          ("wind_speed", of_fld (m_wind_speed m)); ("wind_dir", of_fld (m_wind_dir m));
          ("z0", VOptA (m_z0 m)); ("timestamps", VOptList (m_timestamps m))] f.
Definition output_field (o : outputcfg A) (f : string) : option val :=
  lookup [("format", VA (o_format o)); ("directory", VA (o_directory o))] f.
Definition parallel_field (p : parallelcfg A) (f : string) : option val :=
  lookup [("num_threads", VA (pl_num_threads p)); ("max_workers", VA (pl_max_workers p));
          ("use_cache", VBool (pl_use_cache p))] f.

(* the defaults record, by (parser function, field) *)
Definition dflt (fn field : string) : option val :=
  lookup [("_parse_domain/modes", VList (df_modes D)); ("_parse_domain/full_output", VBool (df_full_output D));
          ("_parse_met/mol", VA (df_mol D)); ("_parse_met/wind_speed", VA (df_wind_speed D));
          ("_parse_met/wind_dir", VA (df_wind_dir D));
          ("_parse_solver/closure", VA (df_closure D)); ("_parse_solver/precision", VA (df_precision D));
          ("_parse_solver/footprint", VBool (df_footprint D)); ("_parse_solver/surface_flux_shape", VA (df_shape D));
          ("_parse_solver/analytic", VBool (df_analytic D));
          ("_parse_output/format", VA (df_format D)); ("_parse_output/directory", VA (df_directory D));
          ("_parse_parallel/num_threads", VA (df_num_threads D)); ("_parse_parallel/max_workers", VA (df_max_workers D));
          ("_parse_parallel/use_cache", VBool (df_use_cache D))] (fn ++ "/" ++ field)%string.

(* conversion between the YAML value and the field; tuple(x) of a list is that list in the model *)
Definition conv_rel (c : conv) (sv : sval A) (v : val) : Prop :=
  match c with
  | CvFloat => exists x, sv = SAtom x /\ norm v = VA (to_float x)
  | _ => sval_val sv = norm v
  end.

(* what a row says about the dictionary d and the value v of its field *)
Definition row_sem (fn : string) (d : sdict A) (r : row) (v : val) : Prop :=
  match r_acc r with
  | AReq => exists sv, lookup d (r_key r) = Some sv /\ conv_rel (r_conv r) sv v
  | AOpt => match lookup d (r_key r) with
            | None | Some SNull => norm v = VNone
            | Some sv => conv_rel (r_conv r) sv v
            end
  | ADef => match lookup d (r_key r) with
            | None => dflt fn (r_field r) = Some (norm v)
            | Some sv => conv_rel (r_conv r) sv v
            end
  end.

Definition section_sem {X : Type} (s : section_desc) (field : X -> string -> option val) (d : sdict A) (x : X) : Prop :=
  Forall (fun r => exists v, field x (r_field r) = Some v /\ row_sem (sd_fn s) d r v) (sd_rows s).

Ltac req H := cbn; unfold key_req in H; eexists; split; [exact H|reflexivity].
Ltac opt H := cbn; unfold key_opt in H;
  match type of H with context [lookup ?d ?k] => destruct (lookup d k) as [[]|] end;
  first [rewrite H; reflexivity
        |let a := fresh "a" in let Hx := fresh "Hx" in let Hv := fresh "Hv" in
         destruct H as (a & Hx & Hv);
         first [discriminate Hv|injection Hv as <-; rewrite Hx; reflexivity]].
Ltac def H := cbn; unfold key_atom, key_bool, key_seq in H;
  match type of H with context [lookup ?d ?k] => destruct (lookup d k) as [?|] end;
  first [subst; reflexivity|rewrite H; reflexivity].
Ltac row := eexists; split; [reflexivity|unfold row_sem; cbn [r_acc r_key r_conv r_field]].

Lemma tbl_tower_sound d t : parse_tower zero d = Parsed t ->
  section_sem tbl_tower (@tower_field A A unit unit) d t /\ t_x t = zero /\ t_y t = zero.
Proof.
  intros H. apply parse_tower_spec in H. destruct H as (Hn & Hla & Hlo & Hz & Hx & Hy).
  split; [|split; assumption].
  unfold section_sem. cbn [sd_rows tbl_tower sd_fn].
  repeat constructor; row; [req Hn|req Hla|req Hlo|req Hz].
Qed.

Lemma tbl_domain_sound d dom : parse_domain D to_float d = Parsed dom ->
  section_sem tbl_domain (@domain_field A A unit unit) d dom.
Proof.
  intros H. apply parse_domain_spec in H.
  destruct H as (Hnx & Hny & (x & Hx & Ex) & (y & Hy & Ey) & Hnz & Hmo & Hha & Hrl & Hro & Hol & Hfo).
  unfold section_sem. cbn [sd_rows tbl_domain sd_fn].
  repeat constructor; row.
  - def Hmo.
  - opt Hol.
  - req Hnx.
  - req Hny.
  - unfold key_req in Hx. eexists; split; [exact Hx|]. cbn. eexists; split; [reflexivity|]. rewrite Ex. reflexivity.
  - unfold key_req in Hy. eexists; split; [exact Hy|]. cbn. eexists; split; [reflexivity|]. rewrite Ey. reflexivity.
  - req Hnz.
  - opt Hha.
  - opt Hrl.
  - opt Hro.
  - def Hfo.
Qed.

Ltac fldk H := cbn; unfold key_fld in H;
  match type of H with context [lookup ?d ?k] => destruct (lookup d k) as [?|] end;
  [match type of H with match ?f with _ => _ end => destruct f end; subst; reflexivity|rewrite H; reflexivity].

Lemma tbl_met_sound d m : parse_met D d = Parsed m -> section_sem tbl_met met_field d m.
Proof.
  intros H. apply parse_met_spec in H. destruct H as (Hu & Hmol & Hws & Hwd & Hz0 & Hts).
  unfold section_sem. cbn [sd_rows tbl_met sd_fn].
  repeat constructor; row.
  - cbn. unfold key_optfld in Hu. destruct (lookup d "ustar") as [[]|]; destruct (m_ustar m) as [[]|];
      try contradiction; try discriminate; try (inversion Hu; subst; reflexivity); reflexivity.
  - fldk Hmol.
  - fldk Hws.
  - fldk Hwd.
  - opt Hz0.
  - opt Hts.
Qed.

Lemma tbl_solver_sound d s : parse_solver D (Some d) = Parsed s ->
  section_sem tbl_solver (@solver_field A A unit unit) d s.
Proof.
  intros H. apply parse_solver_spec in H. destruct H as (Hc & Hp & Hf & Hs & Ha & Hl).
  unfold section_sem. cbn [sd_rows tbl_solver sd_fn].
  repeat constructor; row; [opt Hl|def Hc|def Hp|def Hf|def Hs|def Ha].
Qed.

Lemma tbl_output_sound d o : parse_output D (Some d) = Parsed o -> section_sem tbl_output output_field d o.
Proof.
  intros H. apply parse_output_spec in H. destruct H as (Hf & Hd).
  unfold section_sem. cbn [sd_rows tbl_output sd_fn].
  repeat constructor; row; [def Hf|def Hd].
Qed.

Lemma tbl_parallel_sound d p : parse_parallel D (Some d) = Parsed p -> section_sem tbl_parallel parallel_field d p.
Proof.
  intros H. apply parse_parallel_spec in H. destruct H as (Hn & Hm & Hu).
  unfold section_sem. cbn [sd_rows tbl_parallel sd_fn].
  repeat constructor; row; [def Hn|def Hm|def Hu].
Qed.

(* `if d is None: return Cls()`: exactly the sections whose table says so have a None case, and it gives the
   object built from the defaults *)
Lemma tbl_none_default_sound :
  map sd_none_default [tbl_tower; tbl_domain; tbl_met; tbl_solver; tbl_output; tbl_parallel]
    = [false; false; false; true; true; true] /\
  parse_solver D None = Parsed (default_solver D) /\
  parse_output D None = Parsed (default_output D) /\
  parse_parallel D None = Parsed (default_parallel D).
Proof. repeat split. Qed.

(* tbl_top: a missing mandatory section raises; an accepted dictionary has the three mandatory sections, each part
   went through the parser the table names, optional parts through raw.get (absent or null = None) *)
Lemma tbl_top_sound (geo_x geo_y : A -> A -> A -> A -> A) (r : raw A) :
  (forall k, In k (td_required tbl_top) -> lookup r k = None -> parse D to_float geo_x geo_y zero r = Raises) /\
  (forall cfg, parse D to_float geo_x geo_y zero r = Parsed cfg ->
     Forall (fun t => match tr_acc t with TOpt => True | _ => lookup r (tr_key t) <> None end) (td_rows tbl_top) /\
     (exists dd, lookup r "domain" = Some (RSection dd) /\ parse_domain D to_float dd = Parsed (c_domain cfg)) /\
     (exists tl tws, lookup r "towers" = Some (RTowers tl) /\ parse_towers zero tl = Parsed tws /\
                     c_towers cfg = map (place geo_x geo_y (c_domain cfg)) tws) /\
     (exists md, lookup r "met" = Some (RSection md) /\ parse_met D md = Parsed (c_met cfg)) /\
     parse_solver D (section_of r "solver") = Parsed (c_solver cfg) /\
     parse_output D (section_of r "output") = Parsed (c_output cfg) /\
     parse_parallel D (section_of r "parallel") = Parsed (c_parallel cfg)).
Proof.
  split.
  - intros k Hk Hn. apply (proj1 (parse_raises D to_float geo_x geo_y zero r)).
    cbn in Hk. destruct Hk as [<-|[<-|[<-|[]]]]; auto.
  - intros cfg H. apply parse_spec in H.
    destruct H as ((dd & Hd & Pd) & (md & Hm & Pm) & _ & (tl & tws & Ht & Pt & Et) & Ps & Po & Pp & _).
    split.
    + cbn. repeat constructor; cbn; congruence.
    + split; [eauto|]. split; [eauto|]. split; [eauto|]. auto.
Qed.

End TblSound.
