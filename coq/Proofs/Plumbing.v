(* Index arithmetic of the spectrum truncation as the (repaired) code performs it:
     tfftq0 = ifftshift( fftshift(F)[s : s+L] ),          s = n//2 - L//2
     fftp   = ifftshift( pad( fftshift(X), (s, n-L-s) ) )
   numpy.fft.fftshift on a length-n axis is a roll by n//2, ifftshift a roll by -(n//2).
   Arrays are functions of an integer index.  Result: retained index t carries the integer
   frequency fftfreq(L)[t] and lives at index (freq mod n) of the length-n spectrum — for EVERY
   parity of n and L (0 < L <= n).  This is the map Model/Solver.v uses ("frequency-set form"). *)
From Coq Require Import ZArith Lia Bool.
Open Scope Z_scope.

Definition zfftfreq (L t : Z) : Z := if t <=? (L - 1) / 2 then t else t - L.

Section Plumbing.
Context {A : Type} (zero : A).

(* out[i] = in[(i - n//2) mod n] *)
Definition fftshift (n : Z) (f : Z -> A) : Z -> A := fun i => f ((i - n / 2) mod n).
(* out[i] = in[(i + n//2) mod n] *)
Definition ifftshift (n : Z) (f : Z -> A) : Z -> A := fun i => f ((i + n / 2) mod n).
Definition slice (s : Z) (f : Z -> A) : Z -> A := fun r => f (r + s).
Definition pad (s L : Z) (f : Z -> A) : Z -> A :=
  fun i => if (s <=? i) && (i <? s + L) then f (i - s) else zero.

Definition start (n L : Z) : Z := n / 2 - L / 2.

Lemma mod_lt_twice a m : 0 < m -> 0 <= a < 2 * m -> a mod m = if a <? m then a else a - m.
Proof.
  intros Hm Ha. destruct (a <? m) eqn:E.
  - apply Z.mod_small. lia.
  - symmetry. apply Z.mod_unique with 1; lia.
Qed.

(* the centred band: position r of the band holds frequency r - L//2 *)
Lemma band_freq L t : 0 < L -> 0 <= t < L -> (t + L / 2) mod L - L / 2 = zfftfreq L t.
Proof.
  intros HL Ht. unfold zfftfreq.
  assert (H2 : 0 <= L / 2 /\ 2 * (L / 2) <= L < 2 * (L / 2) + 2).
  { split; [apply Z.div_pos; lia|]. pose proof (Z.div_mod L 2). pose proof (Z.mod_pos_bound L 2). lia. }
  assert (H1 : 2 * ((L - 1) / 2) <= L - 1 < 2 * ((L - 1) / 2) + 2).
  { pose proof (Z.div_mod (L - 1) 2). pose proof (Z.mod_pos_bound (L - 1) 2). lia. }
  rewrite mod_lt_twice by lia.
  destruct (t + L / 2 <? L) eqn:E1; destruct (t <=? (L - 1) / 2) eqn:E2; lia.
Qed.

(* truncation: the value read for retained index t *)
Theorem truncate_reads n L (F : Z -> A) t :
  0 < L <= n -> 0 <= t < L ->
  ifftshift L (slice (start n L) (fftshift n F)) t = F (zfftfreq L t mod n).
Proof.
  intros HL Ht. unfold ifftshift, slice, fftshift, start. f_equal.
  replace ((t + L / 2) mod L + (n / 2 - L / 2) - n / 2) with ((t + L / 2) mod L - L / 2) by lia.
  rewrite band_freq by lia. reflexivity.
Qed.

(* the slice never leaves the array: 0 <= start and start + L <= n *)
Lemma start_bounds n L : 0 < L <= n -> 0 <= start n L /\ start n L + L <= n.
Proof.
  intros HL. unfold start.
  pose proof (Z.div_mod n 2). pose proof (Z.mod_pos_bound n 2).
  pose proof (Z.div_mod L 2). pose proof (Z.mod_pos_bound L 2).
  assert (L / 2 <= n / 2) by (apply Z.div_le_mono; lia). lia.
Qed.

(* re-embedding: retained index t is written to index (freq mod n) ... *)
Theorem untruncate_writes n L (X : Z -> A) t :
  0 < L <= n -> 0 <= t < L ->
  ifftshift n (pad (start n L) L (fftshift L X)) (zfftfreq L t mod n) = X t.
Proof.
  intros HL Ht. unfold ifftshift, pad, fftshift.
  destruct (start_bounds n L HL) as [Hs0 Hs1].
  assert (H2 : 0 <= L / 2 /\ 2 * (L / 2) <= L < 2 * (L / 2) + 2).
  { split; [apply Z.div_pos; lia|]. pose proof (Z.div_mod L 2). pose proof (Z.mod_pos_bound L 2). lia. }
  assert (Hn2 : 0 <= n / 2 /\ 2 * (n / 2) <= n < 2 * (n / 2) + 2).
  { split; [apply Z.div_pos; lia|]. pose proof (Z.div_mod n 2). pose proof (Z.mod_pos_bound n 2). lia. }
  (* position of t inside the centred band *)
  set (r := (t + L / 2) mod L).
  assert (Hr : 0 <= r < L) by (apply Z.mod_pos_bound; lia).
  assert (Hf : zfftfreq L t = r - L / 2) by (symmetry; apply band_freq; lia).
  assert (Hpos : (zfftfreq L t mod n + n / 2) mod n = r + start n L).
  { rewrite Z.add_mod_idemp_l by lia. rewrite Hf. unfold start.
    replace (r - L / 2 + n / 2) with (r + (n / 2 - L / 2)) by lia.
    apply Z.mod_small. unfold start in *. lia. }
  rewrite Hpos.
  replace ((start n L <=? r + start n L) && (r + start n L <? start n L + L)) with true
    by (symmetry; apply andb_true_iff; split; [apply Z.leb_le|apply Z.ltb_lt]; lia).
  replace (r + start n L - start n L) with r by lia.
  f_equal. subst r. rewrite Zminus_mod_idemp_l.
  replace (t + L / 2 - L / 2) with t by lia. apply Z.mod_small. lia.
Qed.

(* ... and every index that is not the image of a retained one holds zero *)
Theorem untruncate_zero_elsewhere n L (X : Z -> A) k :
  0 < L <= n -> 0 <= k < n ->
  (forall t, 0 <= t < L -> zfftfreq L t mod n <> k) ->
  ifftshift n (pad (start n L) L (fftshift L X)) k = zero.
Proof.
  intros HL Hk Hno. unfold ifftshift, pad.
  destruct ((start n L <=? (k + n / 2) mod n) && ((k + n / 2) mod n <? start n L + L)) eqn:E; [|reflexivity].
  exfalso. apply andb_true_iff in E. destruct E as [E1 E2]. apply Z.leb_le in E1. apply Z.ltb_lt in E2.
  destruct (start_bounds n L HL) as [Hs0 Hs1].
  assert (H2 : 0 <= L / 2 /\ 2 * (L / 2) <= L < 2 * (L / 2) + 2).
  { split; [apply Z.div_pos; lia|]. pose proof (Z.div_mod L 2). pose proof (Z.mod_pos_bound L 2). lia. }
  set (r := (k + n / 2) mod n - start n L) in *.
  assert (Hr : 0 <= r < L) by (subst r; lia).
  (* the retained index that lands on k *)
  set (t := (r - L / 2) mod L).
  assert (Ht : 0 <= t < L) by (apply Z.mod_pos_bound; lia).
  apply (Hno t Ht).
  assert (Hband : (t + L / 2) mod L = r).
  { subst t. rewrite Z.add_mod_idemp_l by lia. replace (r - L / 2 + L / 2) with r by lia. apply Z.mod_small. lia. }
  rewrite <- (band_freq L t) by lia. rewrite Hband.
  (* r - L/2 = (k + n/2) mod n - n/2  ==  k  (mod n) *)
  unfold start in r. subst r.
  replace ((k + n / 2) mod n - (n / 2 - L / 2) - L / 2) with ((k + n / 2) mod n - n / 2) by lia.
  rewrite Zminus_mod_idemp_l. replace (k + n / 2 - n / 2) with k by lia. apply Z.mod_small. lia.
Qed.

End Plumbing.

(* distinct retained indices carry distinct padded indices (no collision when L <= n) *)
Lemma zfftfreq_inj_mod n L t t' :
  0 < L <= n -> 0 <= t < L -> 0 <= t' < L -> zfftfreq L t mod n = zfftfreq L t' mod n -> t = t'.
Proof.
  intros HL Ht Ht' E.
  assert (H1 : 2 * ((L - 1) / 2) <= L - 1 < 2 * ((L - 1) / 2) + 2).
  { pose proof (Z.div_mod (L - 1) 2). pose proof (Z.mod_pos_bound (L - 1) 2). lia. }
  assert (B : forall s, 0 <= s < L -> - n <= 2 * zfftfreq L s /\ 2 * zfftfreq L s < n /\
                         (zfftfreq L s = s \/ zfftfreq L s = s - L)).
  { intros s Hs. unfold zfftfreq. destruct (s <=? (L - 1) / 2) eqn:Es.
    - apply Z.leb_le in Es. lia.
    - apply Z.leb_gt in Es. lia. }
  destruct (B t Ht) as (A1 & A2 & A3). destruct (B t' Ht') as (B1 & B2 & B3).
  assert (D : (n | zfftfreq L t - zfftfreq L t')).
  { apply Z.mod_divide; [lia|]. rewrite Zminus_mod, E, Z.sub_diag. apply Z.mod_0_l. lia. }
  destruct D as [c Hc]. assert (c = 0) by nia. subst c.
  unfold zfftfreq in *. destruct (t <=? (L - 1) / 2) eqn:E1; destruct (t' <=? (L - 1) / 2) eqn:E2;
    try apply Z.leb_le in E1; try apply Z.leb_gt in E1; try apply Z.leb_le in E2; try apply Z.leb_gt in E2; lia.
Qed.
