(* Lemmas about Model/Cli.v (the command-line driver): order / number / identity of the single runs, dry run, runtime
   settings, figures and their file names, relation to Drivers.multitower and to Met.get_step. *)
From Coq Require Import String Ascii List Arith Bool Lia.
From BL Require Import Model.Cli Model.Drivers Model.Met Proofs.DriversProofs Proofs.MetProofs.
Import ListNotations.

(* ------------------------------------------------------------------ lists: [(x, i) | x <- xs, i <- 0..n-1] *)
Section Grid.
Context {X : Type}.

Definition grid (n : nat) (xs : list X) : list (X * nat) := flat_map (fun x => map (pair x) (seq 0 n)) xs.

Lemma chunk_length n (x : X) : length (map (pair x) (seq 0 n)) = n.
Proof. rewrite map_length, seq_length. reflexivity. Qed.

Lemma chunk_nth n (x : X) i : i < n -> nth_error (map (pair x) (seq 0 n)) i = Some (x, i).
Proof.
  intros Hi. rewrite nth_error_map.
  rewrite (nth_error_nth' _ 0) by (rewrite seq_length; exact Hi). rewrite seq_nth by exact Hi. reflexivity.
Qed.

Lemma grid_length n xs : length (grid n xs) = length xs * n.
Proof.
  unfold grid. induction xs as [|x r IH]; simpl; [reflexivity|].
  rewrite app_length, chunk_length, IH. reflexivity.
Qed.

Lemma grid_nth n : forall xs k i x, nth_error xs k = Some x -> i < n -> nth_error (grid n xs) (k * n + i) = Some (x, i).
Proof.
  unfold grid. induction xs as [|y r IH]; intros k i x Hk Hi; [destruct k; discriminate Hk|].
  destruct k as [|k]; simpl in Hk |- *.
  - injection Hk as ->. rewrite nth_error_app1 by (rewrite chunk_length; exact Hi). apply chunk_nth. exact Hi.
  - rewrite nth_error_app2 by (rewrite chunk_length; lia). rewrite chunk_length.
    replace (n + k * n + i - n) with (k * n + i) by lia. apply IH; assumption.
Qed.

Lemma grid_nth_inv n : forall xs j p, nth_error (grid n xs) j = Some p ->
  exists k, j = k * n + snd p /\ nth_error xs k = Some (fst p) /\ snd p < n.
Proof.
  unfold grid. induction xs as [|y r IH]; intros j p Hj; [destruct j; discriminate Hj|].
  simpl in Hj. destruct (lt_dec j n) as [Hlt|Hge].
  - rewrite nth_error_app1 in Hj by (rewrite chunk_length; exact Hlt).
    rewrite chunk_nth in Hj by exact Hlt. injection Hj as <-. exists 0. simpl. split; [reflexivity|]. split; [reflexivity|exact Hlt].
  - rewrite nth_error_app2 in Hj by (rewrite chunk_length; lia). rewrite chunk_length in Hj.
    destruct (IH _ _ Hj) as (k & Ej & Hk & Hs). exists (S k). simpl. split; [lia|]. split; [exact Hk|exact Hs].
Qed.

Lemma grid_in n xs p : In p (grid n xs) <-> In (fst p) xs /\ snd p < n.
Proof.
  unfold grid. rewrite in_flat_map. split.
  - intros (x & Hx & Hp). apply in_map_iff in Hp. destruct Hp as (i & <- & Hi). apply in_seq in Hi. simpl. split; [exact Hx|lia].
  - intros [Hx Hs]. exists (fst p). split; [exact Hx|]. apply in_map_iff. exists (snd p). split; [destruct p; reflexivity|].
    apply in_seq. lia.
Qed.
End Grid.

(* ------------------------------------------------------------------ strings *)
Lemma list_ascii_app (a b : string) : list_ascii_of_string (a ++ b) = (list_ascii_of_string a ++ list_ascii_of_string b)%list.
Proof. induction a as [|ch a IH]; simpl; [reflexivity|]. rewrite IH. reflexivity. Qed.

Lemma list_ascii_inj (a b : string) : list_ascii_of_string a = list_ascii_of_string b -> a = b.
Proof. intros H. rewrite <- (string_of_list_ascii_of_string a), <- (string_of_list_ascii_of_string b), H. reflexivity. Qed.

Lemma string_app_inv_head (a x y : string) : (a ++ x)%string = (a ++ y)%string -> x = y.
Proof. induction a as [|ch a IH]; simpl; intros H; [exact H|]. injection H as H. exact (IH H). Qed.

(* a list is cut at its LAST separator in one way only *)
Lemma split_last_sep {A : Type} (s : A) : forall x x' y y' : list A,
  ~ In s y -> ~ In s y' -> (x ++ s :: y = x' ++ s :: y')%list -> x = x' /\ y = y'.
Proof.
  induction x as [|a x IH]; intros x' y y' Hy Hy' H; destruct x' as [|a' x']; simpl in H.
  - injection H as H. split; [reflexivity|exact H].
  - injection H as Ha H. exfalso. apply Hy. rewrite H. apply in_or_app. right. left. reflexivity.
  - injection H as Ha H. exfalso. apply Hy'. rewrite <- H. apply in_or_app. right. left. reflexivity.
  - injection H as -> H. destruct (IH _ _ _ Hy Hy' H) as [-> ->]. split; reflexivity.
Qed.

(* the rendering of a value contains no underscore *)
Definition no_underscore (s : string) : Prop := ~ In "_"%char (list_ascii_of_string s).

(* ------------------------------------------------------------------ the model *)
Section P.
Context {Path Cfg Tw N V R D : Type}.
Variable W : world Path Cfg Tw N V R D.

Notation n_of c := (w_nsteps W c).
Notation towers_of c := (w_towers W c).

Lemma runs_of_grid c : runs_of W c = grid (n_of c) (towers_of c).
Proof. reflexivity. Qed.

Lemma results_of_flat c :
  results_of W c = flat_map (fun tw => map (fun i => w_single W (configured_rt W c) c tw i) (seq 0 (n_of c))) (towers_of c).
Proof.
  unfold results_of, runs_of. induction (towers_of c) as [|tw r IH]; simpl; [reflexivity|].
  rewrite map_app, IH, map_map. reflexivity.
Qed.

(* the runs: order, number, position of the i-th run of tower number k, and nothing else *)
Lemma cli_runs_spec args c :
  w_load W (a_config args) = Some c -> a_dry_run args = false ->
  cli_runs W args = flat_map (fun tw => map (pair tw) (seq 0 (n_of c))) (towers_of c) /\
  length (cli_runs W args) = length (towers_of c) * n_of c /\
  (forall k i tw, nth_error (towers_of c) k = Some tw -> i < n_of c ->
     nth_error (cli_runs W args) (k * n_of c + i) = Some (tw, i)) /\
  (forall j p, nth_error (cli_runs W args) j = Some p ->
     exists k, j = k * n_of c + snd p /\ nth_error (towers_of c) k = Some (fst p) /\ snd p < n_of c).
Proof.
  intros Hl Hd. unfold cli_runs. rewrite Hl, Hd, runs_of_grid.
  split; [reflexivity|]. split; [apply grid_length|]. split; [apply grid_nth|apply grid_nth_inv].
Qed.

(* the results: one per run, in the same order, each the single run of its (tower, step) under the configured settings *)
Lemma cli_results_spec args c :
  w_load W (a_config args) = Some c -> a_dry_run args = false ->
  o_results (cmd_run W args) = map (fun p => w_single W (configured_rt W c) c (fst p) (snd p)) (cli_runs W args) /\
  length (o_results (cmd_run W args)) = length (towers_of c) * n_of c /\
  (forall k i tw, nth_error (towers_of c) k = Some tw -> i < n_of c ->
     nth_error (o_results (cmd_run W args)) (k * n_of c + i) = Some (w_single W (configured_rt W c) c tw i)).
Proof.
  intros Hl Hd. unfold cli_runs, cmd_run. rewrite Hl, Hd. cbn [o_results]. unfold results_of. rewrite runs_of_grid.
  split; [reflexivity|]. split; [rewrite map_length; apply grid_length|].
  intros k i tw Hk Hi. rewrite nth_error_map, (grid_nth _ _ _ _ _ Hk Hi). reflexivity.
Qed.

(* in the tracing world the results ARE the calls *)
Lemma trace_results (d0 : D) args :
  o_results (cmd_run (trace W d0) args) =
  map (fun p => (match w_load W (a_config args) with Some c => configured_rt W c | None => rt0 end, p)) (cli_runs W args).
Proof.
  unfold cmd_run, cli_runs. cbn [trace w_load].
  destruct (w_load W (a_config args)) as [c|]; [|reflexivity].
  destruct (a_dry_run args); [reflexivity|].
  cbn [o_results]. unfold results_of, runs_of. cbn [trace w_single w_towers w_nsteps].
  apply map_ext. intros [tw i]. reflexivity.
Qed.

(* a dry run / a configuration that does not load *)
Lemma dry_or_failed args :
  a_dry_run args = true \/ w_load W (a_config args) = None ->
  o_rt (cmd_run W args) = rt0 /\ o_results (cmd_run W args) = [] /\ o_plots (cmd_run W args) = [].
Proof.
  unfold cmd_run. intros [H|H]; rewrite H; [destruct (w_load W (a_config args))|]; repeat split.
Qed.

Lemma dry_or_failed_runs args :
  a_dry_run args = true \/ w_load W (a_config args) = None -> cli_runs W args = [].
Proof. unfold cli_runs. intros [H|H]; rewrite H; [destruct (w_load W (a_config args))|]; reflexivity. Qed.

Lemma dry_or_failed_all args :
  a_dry_run args = true \/ w_load W (a_config args) = None ->
  cli_runs W args = [] /\ o_rt (cmd_run W args) = rt0 /\ o_results (cmd_run W args) = [] /\ o_plots (cmd_run W args) = [].
Proof. intros H. split; [exact (dry_or_failed_runs args H)|exact (dry_or_failed args H)]. Qed.

Lemma loaded_iff args : o_loaded (cmd_run W args) = true <-> w_load W (a_config args) <> None.
Proof.
  unfold cmd_run. destruct (w_load W (a_config args)) as [c|]; [destruct (a_dry_run args)|]; simpl; split; congruence.
Qed.

(* the runtime settings *)
Lemma settings_configured args c :
  w_load W (a_config args) = Some c -> a_dry_run args = false ->
  o_rt (cmd_run W args) = mkRt (Some (w_par_num_threads W c)) (Some (w_par_max_workers W c)) (Some (w_par_use_cache W c)).
Proof. intros Hl Hd. unfold cmd_run. rewrite Hl, Hd. reflexivity. Qed.

(* the figures *)
Lemma plots_spec args c :
  w_load W (a_config args) = Some c -> a_dry_run args = false ->
  o_plots (cmd_run W args) = (if a_plot args then map (plot_of W) (o_results (cmd_run W args)) else []) /\
  (a_plot args = true ->
     length (o_plots (cmd_run W args)) = length (o_results (cmd_run W args)) /\
     forall j r, nth_error (o_results (cmd_run W args)) j = Some r ->
       exists p, nth_error (o_plots (cmd_run W args)) j = Some p /\
         p_file p = plot_name_of W (w_item W r "tower_name") (w_item W r "timestamp") /\
         p_field p = w_item W r "flx" /\ p_grid p = w_item W r "grid" /\
         p_marker p = w_unpack2 W (w_item W r "tower_xy")).
Proof.
  intros Hl Hd. unfold cmd_run. rewrite Hl, Hd. cbn [o_plots o_results]. split; [reflexivity|].
  intros Hp. rewrite Hp. unfold save_plots. split; [apply map_length|].
  intros j r Hj. exists (plot_of W r). split; [apply map_nth_error; exact Hj|]. repeat split.
Qed.

(* ---- file names *)
Lemma plot_name_inj n1 t1 n2 t2 :
  no_underscore (w_str W t1) -> no_underscore (w_str W t2) ->
  plot_name_of W n1 t1 = plot_name_of W n2 t2 -> w_str W n1 = w_str W n2 /\ w_str W t1 = w_str W t2.
Proof.
  unfold plot_name_of, no_underscore. intros H1 H2 E.
  apply string_app_inv_head in E. apply (f_equal list_ascii_of_string) in E.
  rewrite !list_ascii_app in E. cbn [list_ascii_of_string app] in E.
  assert (Hno : forall s, ~ In "_"%char (list_ascii_of_string s) ->
                  ~ In "_"%char ("t"%char :: list_ascii_of_string s ++ ["."%char; "p"%char; "n"%char; "g"%char])%list).
  { intros s Hs [Hc|Hc]; [discriminate Hc|]. apply in_app_or in Hc. destruct Hc as [Hc|Hc]; [exact (Hs Hc)|].
    simpl in Hc. repeat (destruct Hc as [Hc|Hc]; [discriminate Hc|]). exact Hc. }
  destruct (split_last_sep "_"%char _ _ _ _ (Hno _ H1) (Hno _ H2) E) as [En Et].
  split; [apply list_ascii_inj; exact En|].
  injection Et as Et. apply app_inv_tail in Et. apply list_ascii_inj. exact Et.
Qed.

Lemma NoDup_map_transfer {X Y Z : Type} (f : X -> Y) (g : X -> Z) (l : list X) :
  (forall x y, In x l -> In y l -> f x = f y -> g x = g y) -> NoDup (map g l) -> NoDup (map f l).
Proof.
  induction l as [|x l IH]; intros Hfg Hnd; simpl; [constructor|].
  simpl in Hnd. inversion Hnd as [|? ? Hnotin Hnd']; subst. constructor.
  - intros Hin. apply in_map_iff in Hin. destruct Hin as (y & Ey & Hy). apply Hnotin.
    rewrite (Hfg x y (or_introl eq_refl) (or_intror Hy) (eq_sym Ey)). apply in_map. exact Hy.
  - apply IH; [|exact Hnd']. intros a b Ha Hb. apply Hfg; right; assumption.
Qed.

(* results whose (rendered tower name, rendered timestamp) pairs are pairwise different are saved under pairwise
   different file names, provided no rendered timestamp contains an underscore *)
Lemma plot_names_nodup (results : list R) :
  (forall r, In r results -> no_underscore (w_str W (w_item W r "timestamp"))) ->
  NoDup (map (fun r => (w_str W (w_item W r "tower_name"), w_str W (w_item W r "timestamp"))) results) ->
  NoDup (map (@p_file D) (save_plots W results)).
Proof.
  intros Hno Hnd. unfold save_plots. rewrite map_map. cbn [plot_of p_file].
  apply (NoDup_map_transfer _ _ _ (fun x y Hx Hy E =>
           match plot_name_inj _ _ _ _ (Hno x Hx) (Hno y Hy) E with conj En Et => f_equal2 pair En Et end) Hnd).
Qed.

(* ---- relation to the serial multi-tower driver (C14) *)
Lemma results_of_timeseries c :
  results_of W c = concat (map (timeseries (w_single W (configured_rt W c) c) (n_of c)) (towers_of c)).
Proof. unfold results_of. exact (both_tasks_map (w_single W (configured_rt W c) c) (n_of c) (towers_of c)). Qed.

Lemma results_multitower args c :
  w_load W (a_config args) = Some c -> a_dry_run args = false ->
  NoDup (map (w_name W) (towers_of c)) ->
  o_results (cmd_run W args) =
  concat (map snd (multitower (w_name W) (w_eqdec W) (w_single W (configured_rt W c) c) (n_of c) (towers_of c))).
Proof.
  intros Hl Hd Hnd. unfold cmd_run. rewrite Hl, Hd. cbn [o_results].
  rewrite (multitower_unique (w_name W) (w_eqdec W) _ _ _ Hnd), map_map. cbn [snd]. apply results_of_timeseries.
Qed.

(* ---- relation to the met series (C16): every run asks for a step that exists, the i-th run of a tower for step i *)
Lemma run_is_met_step {A T : Type} (m : met A T) args c k i tw :
  w_load W (a_config args) = Some c -> a_dry_run args = false ->
  validate m = true -> n_of c = n_timesteps m ->
  nth_error (towers_of c) k = Some tw -> i < n_timesteps m ->
  nth_error (cli_runs W args) (k * n_timesteps m + i) = Some (tw, i) /\
  exists s, get_step m i = Some s /\
    match m_ustar m with None => s_ustar s = None
      | Some f => exists a, s_ustar s = Some a /\ field_at f i a end /\
    field_at (m_mol m) i (s_mol s) /\
    field_at (m_wind_speed m) i (s_wind_speed s) /\
    field_at (m_wind_dir m) i (s_wind_dir s) /\
    s_z0 s = m_z0 m /\
    match m_timestamps m with None => s_stamp s = Index i
      | Some ts => exists t, nth_error ts i = Some t /\ s_stamp s = Stamp t end.
Proof.
  intros Hl Hd Hv Hn Hk Hi. split; [|exact (get_step_spec m i Hv Hi)].
  destruct (cli_runs_spec args c Hl Hd) as (_ & _ & Hnth & _). rewrite <- Hn. apply Hnth; [exact Hk|rewrite Hn; exact Hi].
Qed.

Lemma runs_have_steps {A T : Type} (m : met A T) args c :
  w_load W (a_config args) = Some c -> a_dry_run args = false ->
  validate m = true -> n_of c = n_timesteps m ->
  forall p, In p (cli_runs W args) -> get_step m (snd p) <> None.
Proof.
  intros Hl Hd Hv Hn p Hp. unfold cli_runs in Hp. rewrite Hl, Hd, runs_of_grid in Hp.
  apply grid_in in Hp. destruct Hp as [_ Hs]. rewrite Hn in Hs.
  destruct (get_step_spec m (snd p) Hv Hs) as (s & -> & _). discriminate.
Qed.

End P.
