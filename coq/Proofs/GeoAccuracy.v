(* C17 accuracy clause: for |ref_lat| <= 60 deg and offsets |x|, |y| <= 5 km (a superset of "range <= 5 km, any
   direction") the local distance agrees with the great-circle (haversine) distance within 0.1 %, and the local
   bearing with the initial great-circle bearing within 0.1 deg.  Fully analytic proofs (Taylor bounds of sin from
   the standard library, Lipschitz bound of cos; no numerical tactic, no `interval`); no box cover, so there is no minimum range: the bounds are
   homogeneous and hold down to range 0. *)
From Coq Require Import Reals Lra.
From BL Require Import Model.Geo Proofs.GeoProofs.
Open Scope R_scope.


Lemma sin_approx_1 : forall t, sin_approx t 1 = t - t * t * t / 6.
Proof. intros t. unfold sin_approx, sin_term. simpl. field. Qed.

Lemma sin_cubic : forall t, 0 <= t <= 1 -> t - t * t * t / 6 <= sin t <= t.
Proof.
  intros t [H0 H1]. split.
  - rewrite <- sin_approx_1. destruct (pre_sin_bound t 0) as [L _]; try lra. exact L.
  - destruct (Req_dec t 0) as [-> | Hn]; [rewrite sin_0; lra|].
    left. apply sin_lt_x. lra.
Qed.

(* |sin t - t| <= |t|^3/6 on [-1,1], in sign-split form *)
Lemma sin_cubic_abs : forall t, Rabs t <= 1 ->
  Rabs (sin t - t) <= Rabs t * Rabs t * Rabs t / 6 /\ Rabs (sin t) <= Rabs t.
Proof.
  intros t Ht. destruct (Rle_or_lt 0 t) as [Hp | Hn].
  - rewrite (Rabs_right t) in * by lra.
    destruct (sin_cubic t) as [L U]; [lra|].
    assert (0 <= t * t * t) by (apply Rmult_le_pos; [apply Rmult_le_pos|]; lra).
    assert (0 <= sin t) by (apply sin_ge_0; pose proof PI2_1; lra).
    split.
    + apply Rabs_le. split; lra.
    + apply Rabs_le. split; lra.
  - rewrite (Rabs_left t) in * by lra.
    destruct (sin_cubic (- t)) as [L U]; [lra|].
    rewrite sin_neg in L, U.
    assert (0 <= (- t) * (- t) * (- t)) by (apply Rmult_le_pos; [apply Rmult_le_pos|]; lra).
    assert (0 <= sin (- t)) by (apply sin_ge_0; pose proof PI2_1; lra).
    rewrite sin_neg in *.
    split.
    + apply Rabs_le. split; lra.
    + apply Rabs_le. split; lra.
Qed.

(* t^2 (1 - t^2/3) <= sin^2 t <= t^2 *)
Lemma sin_sq_bounds : forall t, Rabs t <= 1 ->
  t * t * (1 - t * t / 3) <= sin t * sin t <= t * t.
Proof.
  intros t Ht.
  assert (E : forall u, 0 <= u <= 1 -> u * u * (1 - u * u / 3) <= sin u * sin u <= u * u).
  { intros u [H0 H1]. destruct (sin_cubic u) as [L U]; [lra|].
    assert (Hl : 0 <= u - u * u * u / 6).
    { replace (u - u * u * u / 6) with (u * (1 - u * u / 6)) by field.
      apply Rmult_le_pos; [lra|]. assert (u * u <= 1) by (replace 1 with (1 * 1) by ring; apply Rmult_le_compat; lra). lra. }
    split.
    - apply Rle_trans with ((u - u * u * u / 6) * (u - u * u * u / 6)).
      + replace ((u - u * u * u / 6) * (u - u * u * u / 6)) with (u * u * (1 - u * u / 3) + u * u * (u * u) * (u * u) / 36) by field.
        assert (0 <= u * u * (u * u) * (u * u) / 36).
        { apply Rmult_le_pos; [|lra]. apply Rmult_le_pos; [apply Rmult_le_pos|]; apply Rle_0_sqr. }
        lra.
      + apply Rmult_le_compat; lra.
    - apply Rmult_le_compat; lra. }
  destruct (Rle_or_lt 0 t) as [Hp | Hn].
  - apply E. rewrite Rabs_right in Ht by lra. lra.
  - rewrite Rabs_left in Ht by lra. specialize (E (- t)). rewrite sin_neg in E.
    replace (- t * - t) with (t * t) in E by ring. replace (- sin t * - sin t) with (sin t * sin t) in E by ring.
    apply E. lra.
Qed.

(* |cos (x + d) - cos x| <= |d| *)
Lemma cos_lipschitz : forall x d, Rabs d <= 2 -> Rabs (cos (x + d) - cos x) <= Rabs d.
Proof.
  intros x d Hd. rewrite form2.
  replace ((x + d - x) / 2) with (d / 2) by field.
  destruct (sin_cubic_abs (d / 2)) as [_ S].
  { unfold Rdiv. rewrite Rabs_mult, (Rabs_right (/ 2)) by lra. lra. }
  pose proof (SIN_bound ((x + d + x) / 2)) as [B1 B2].
  assert (S2 : Rabs (sin ((x + d + x) / 2)) <= 1) by (apply Rabs_le; lra).
  rewrite !Rabs_mult. rewrite (Rabs_left (-2)) by lra.
  assert (Hd2 : Rabs (d / 2) = Rabs d / 2).
  { unfold Rdiv. rewrite Rabs_mult, (Rabs_right (/ 2)) by lra. reflexivity. }
  rewrite Hd2 in S.
  pose proof (Rabs_pos (sin (d / 2))). pose proof (Rabs_pos (sin ((x + d + x) / 2))).
  apply Rle_trans with (- -2 * Rabs (sin (d / 2)) * 1).
  - apply Rmult_le_compat_l; [|exact S2]. lra.
  - lra.
Qed.

Lemma sq_abs_le : forall t m, Rabs t <= m -> t * t <= m * m.
Proof.
  intros t m H. replace (t * t) with (Rabs t * Rabs t).
  - pose proof (Rabs_pos t). apply Rmult_le_compat; lra.
  - destruct (Rle_or_lt 0 t); [rewrite Rabs_right by lra | rewrite Rabs_left by lra]; ring.
Qed.

Lemma Rabs_le_inv : forall x a, Rabs x <= a -> - a <= x <= a.
Proof. intros x a H. unfold Rabs in H. destruct (Rcase_abs x); split; lra. Qed.

(* the haversine argument against the squared local half-distance *)
Lemma hav_bounds : forall phi0 p q : R,
  / 2 <= cos phi0 -> Rabs p <= 4 / 10000 -> Rabs q <= 1 / 1000 ->
  let c0 := cos phi0 in
  let c1 := cos (phi0 + 2 * p) in
  let l := p * p + c0 * c0 * (q * q) in
  let h := sin p * sin p + c0 * c1 * (sin q * sin q) in
  0 <= l /\ 9983 / 10000 * l <= h <= 10016 / 10000 * l.
Proof.
  intros phi0 p q Hc Hp Hq c0 c1 l h.
  assert (Hp1 : Rabs p <= 1) by lra. assert (Hq1 : Rabs q <= 1) by lra.
  destruct (sin_sq_bounds p Hp1) as [Lp Up]. destruct (sin_sq_bounds q Hq1) as [Lq Uq].
  set (Sp := sin p * sin p) in *. set (Sq := sin q * sin q) in *.
  assert (P2 : 0 <= p * p) by apply Rle_0_sqr. assert (Q2 : 0 <= q * q) by apply Rle_0_sqr.
  assert (P2s : p * p <= 1 / 1000 * (1 / 1000)).
  { apply Rle_trans with (4 / 10000 * (4 / 10000)); [apply sq_abs_le; exact Hp | lra]. }
  assert (Q2s : q * q <= 1 / 1000 * (1 / 1000)) by (apply sq_abs_le; exact Hq).
  (* sin^2 within 4e-7 relative *)
  assert (Lp' : (1 - 4 / 10000000) * (p * p) <= Sp).
  { apply Rle_trans with (p * p * (1 - p * p / 3)); [|exact Lp].
    rewrite (Rmult_comm (p * p)). apply Rmult_le_compat_r; [exact P2 | lra]. }
  assert (Lq' : (1 - 4 / 10000000) * (q * q) <= Sq).
  { apply Rle_trans with (q * q * (1 - q * q / 3)); [|exact Lq].
    rewrite (Rmult_comm (q * q)). apply Rmult_le_compat_r; [exact Q2 | lra]. }
  (* cos lat1 against cos lat0 *)
  assert (Hd : Rabs (2 * p) <= 8 / 10000).
  { rewrite Rabs_mult, (Rabs_right 2) by lra. lra. }
  assert (Hl : Rabs (c1 - c0) <= 8 / 10000).
  { unfold c1, c0. apply Rle_trans with (Rabs (2 * p)); [apply cos_lipschitz; lra | exact Hd]. }
  apply Rabs_le_inv in Hl. destruct Hl as [Hl1 Hl2].
  assert (C0 : / 2 <= c0) by exact Hc.
  assert (K1 : 9984 / 10000 * (c0 * c0) <= c0 * c1).
  { assert (0 <= c0 * (c1 - 9984 / 10000 * c0)) by (apply Rmult_le_pos; lra). lra. }
  assert (K2 : c0 * c1 <= 10016 / 10000 * (c0 * c0)).
  { assert (0 <= c0 * (10016 / 10000 * c0 - c1)) by (apply Rmult_le_pos; lra). lra. }
  assert (C2 : 0 <= c0 * c0) by apply Rle_0_sqr.
  assert (K0 : 0 <= c0 * c1) by lra.
  assert (Sq0 : 0 <= Sq) by (unfold Sq; apply Rle_0_sqr).
  assert (CQ : 0 <= c0 * c0 * (q * q)) by (apply Rmult_le_pos; assumption).
  split; [unfold l; lra | split].
  - (* lower *)
    unfold h, l.
    assert (A1 : c0 * c1 * ((1 - 4 / 10000000) * (q * q)) <= c0 * c1 * Sq) by (apply Rmult_le_compat_l; assumption).
    assert (A2 : 9984 / 10000 * (c0 * c0) * ((1 - 4 / 10000000) * (q * q)) <= c0 * c1 * ((1 - 4 / 10000000) * (q * q))).
    { apply Rmult_le_compat_r; [apply Rmult_le_pos; lra | exact K1]. }
    replace (9984 / 10000 * (c0 * c0) * ((1 - 4 / 10000000) * (q * q)))
      with (9984 / 10000 * (1 - 4 / 10000000) * (c0 * c0 * (q * q))) in A2 by ring.
    lra.
  - (* upper *)
    unfold h, l.
    assert (A1 : c0 * c1 * Sq <= c0 * c1 * (q * q)) by (apply Rmult_le_compat_l; assumption).
    assert (A2 : c0 * c1 * (q * q) <= 10016 / 10000 * (c0 * c0) * (q * q)) by (apply Rmult_le_compat_r; assumption).
    replace (10016 / 10000 * (c0 * c0) * (q * q)) with (10016 / 10000 * (c0 * c0 * (q * q))) in A2 by ring.
    lra.
Qed.

(* central half-angle y = atan (sqrt h / sqrt (1 - h)) solves sin^2 y = h (haversine formula) *)
Lemma atan_hav_sin : forall h, 0 <= h < 1 ->
  let y := atan (sqrt h / sqrt (1 - h)) in
  0 <= y /\ y < PI / 2 /\ Rsqr (sin y) = h.
Proof.
  intros h [H0 H1] y.
  assert (Hs1 : 0 < sqrt (1 - h)) by (apply sqrt_lt_R0; lra).
  assert (Hs0 : 0 <= sqrt h) by apply sqrt_pos.
  set (t := sqrt h / sqrt (1 - h)) in *.
  assert (Ht0 : 0 <= t) by (unfold t; apply Rmult_le_pos; [exact Hs0 | left; apply Rinv_0_lt_compat; exact Hs1]).
  assert (Ht2 : t * t = h / (1 - h)).
  { unfold t. replace (sqrt h / sqrt (1 - h) * (sqrt h / sqrt (1 - h)))
      with ((sqrt h * sqrt h) / (sqrt (1 - h) * sqrt (1 - h))) by (field; lra).
    rewrite !sqrt_sqrt by lra. reflexivity. }
  assert (Hy0 : 0 <= y).
  { unfold y. destruct Ht0 as [Hlt | <-]; [left; rewrite <- atan_0; apply atan_increasing; exact Hlt | rewrite atan_0; lra]. }
  destruct (atan_bound t) as [Hb1 Hb2]. fold y in Hb1, Hb2.
  split; [exact Hy0 | split; [exact Hb2 |]].
  unfold y, Rsqr. rewrite sin_atan. unfold Rsqr.
  assert (Hp : 0 < 1 + t * t) by (rewrite Ht2; apply Rplus_lt_le_0_compat; [lra | apply Rmult_le_pos; [lra | left; apply Rinv_0_lt_compat; lra]]).
  assert (Hq : 0 < sqrt (1 + t * t)) by (apply sqrt_lt_R0; exact Hp).
  replace (t / sqrt (1 + t * t) * (t / sqrt (1 + t * t))) with (t * t / (sqrt (1 + t * t) * sqrt (1 + t * t))) by (field; lra).
  rewrite sqrt_sqrt by lra. rewrite Ht2. field. lra.
Qed.

(* ... and is within 2e-6 relative of sqrt h for h <= 1e-6 *)
Lemma atan_hav : forall h, 0 <= h <= 1 / 1000000 ->
  let y := atan (sqrt h / sqrt (1 - h)) in
  0 <= y /\ sin y * sin y = h /\ 999998 / 1000000 * (y * y) <= h <= y * y.
Proof.
  intros h [H0 H1] y.
  destruct (atan_hav_sin h) as (Hy0 & Hb2 & Hsin); [lra|]. fold y in Hy0, Hb2, Hsin. unfold Rsqr in Hsin.
  assert (Hsy0 : 0 <= sin y) by (apply sin_ge_0; pose proof PI_RGT_0; lra).
  (* y is small *)
  assert (Hys : y <= 1 / 500).
  { destruct (Rle_or_lt y (1 / 500)) as [Hle | Hgt]; [exact Hle | exfalso].
    assert (Hinc : sin (1 / 500) < sin y).
    { pose proof PI2_1. apply sin_increasing_1; lra. }
    destruct (sin_cubic (1 / 500)) as [L _]; [lra|].
    assert (Hbig : 1 / 1000 < sin y) by lra.
    assert (1 / 1000 * (1 / 1000) < sin y * sin y) by (apply Rmult_le_0_lt_compat; lra).
    lra. }
  split; [exact Hy0 | split; [exact Hsin | split]].
  - destruct (sin_cubic y) as [L _]; [lra|].
    assert (Hyy : y * y <= 1 / 500 * (1 / 500)) by (apply Rmult_le_compat; lra).
    assert (L2 : 999999 / 1000000 * y <= sin y).
    { apply Rle_trans with (y - y * y * y / 6); [|exact L].
      replace (y - y * y * y / 6) with ((1 - y * y / 6) * y) by field.
      apply Rmult_le_compat_r; lra. }
    assert (L3 : 999999 / 1000000 * y * (999999 / 1000000 * y) <= sin y * sin y).
    { apply Rmult_le_compat; try lra; apply Rmult_le_pos; lra. }
    rewrite Hsin in L3.
    assert (0 <= y * y) by apply Rle_0_sqr.
    replace (999999 / 1000000 * y * (999999 / 1000000 * y)) with (999999 / 1000000 * (999999 / 1000000) * (y * y)) in L3 by ring.
    apply Rle_trans with (999999 / 1000000 * (999999 / 1000000) * (y * y)); [|exact L3].
    apply Rmult_le_compat_r; lra.
  - rewrite <- Hsin. destruct (sin_cubic y) as [_ U]; [lra|]. apply Rmult_le_compat; lra.
Qed.

(* --- the transforms in half-angle variables ------------------------------------------------ *)
Section HalfAngles.
Variables lat lon rlat rlon : R.
Let phi0 := radians rlat.
Let pp := (radians lat - radians rlat) / 2.
Let qq := (radians lon - radians rlon) / 2.

Lemma xy_half : latlon_to_xy lat lon rlat rlon = (earth_radius * (2 * qq) * cos phi0, earth_radius * (2 * pp)).
Proof. unfold latlon_to_xy, pp, qq, phi0. f_equal; field. Qed.


Lemma hav_arg_half : hav_arg rlat rlon lat lon =
  sin pp * sin pp + cos phi0 * cos (phi0 + 2 * pp) * (sin qq * sin qq).
Proof.
  unfold hav_arg, Rsqr. fold pp qq phi0.
  replace (radians lat) with (phi0 + 2 * pp) by (unfold phi0, pp; field).
  replace ((phi0 + 2 * pp - radians rlat) / 2) with pp by (unfold phi0; field).
  reflexivity.
Qed.

Lemma half_small : -60 <= rlat <= 60 ->
  Rabs (fst (latlon_to_xy lat lon rlat rlon)) <= 5000 -> Rabs (snd (latlon_to_xy lat lon rlat rlon)) <= 5000 ->
  / 2 <= cos phi0 /\ Rabs pp <= 4 / 10000 /\ Rabs qq <= 8 / 10000.
Proof.
  intros Hr Hx Hy. rewrite xy_half in Hx, Hy. cbn [fst snd] in Hx, Hy.
  pose proof (cos_ref_half rlat Hr) as Hc. fold phi0 in Hc.
  unfold earth_radius in Hx, Hy.
  split; [exact Hc | split].
  - replace (6371000 * (2 * pp)) with (12742000 * pp) in Hy by ring.
    rewrite Rabs_mult, (Rabs_right 12742000) in Hy by lra. lra.
  - replace (6371000 * (2 * qq) * cos phi0) with (12742000 * cos phi0 * qq) in Hx by ring.
    rewrite Rabs_mult, (Rabs_right (12742000 * cos phi0)) in Hx by (apply Rle_ge, Rmult_le_pos; lra).
    pose proof (Rabs_pos qq) as Hq.
    assert (6371000 * Rabs qq <= 12742000 * cos phi0 * Rabs qq).
    { apply Rmult_le_compat_r; [exact Hq | lra]. }
    lra.
Qed.
End HalfAngles.

Lemma local_distance_half : forall e c p q : R, 0 <= e ->
  local_distance (e * (2 * q) * c, e * (2 * p)) = 2 * e * sqrt (p * p + c * c * (q * q)).
Proof.
  intros e c p q He. unfold local_distance, Rsqr. cbn [fst snd].
  replace (e * (2 * q) * c * (e * (2 * q) * c) + e * (2 * p) * (e * (2 * p)))
    with ((2 * e) * (2 * e) * (p * p + c * c * (q * q))) by ring.
  assert (0 <= p * p + c * c * (q * q)).
  { apply Rplus_le_le_0_compat; [apply Rle_0_sqr | apply Rmult_le_pos; apply Rle_0_sqr]. }
  rewrite sqrt_mult by (try apply Rle_0_sqr; assumption).
  rewrite sqrt_square by lra. reflexivity.
Qed.

Theorem accuracy_distance : forall lat lon ref_lat ref_lon : R,
  -60 <= ref_lat <= 60 ->
  let p := latlon_to_xy lat lon ref_lat ref_lon in
  Rabs (fst p) <= 5000 -> Rabs (snd p) <= 5000 ->
  Rabs (local_distance p - gc_distance ref_lat ref_lon lat lon) <= 1 / 1000 * gc_distance ref_lat ref_lon lat lon.
Proof.
  intros lat lon rlat rlon Hr p Hx Hy.
  destruct (half_small lat lon rlat rlon Hr Hx Hy) as (Hc & Hp & Hq).
  unfold p. rewrite xy_half. unfold gc_distance. rewrite hav_arg_half.
  set (pp := (radians lat - radians rlat) / 2) in *.
  set (qq := (radians lon - radians rlon) / 2) in *.
  set (phi0 := radians rlat) in *.
  assert (Hq' : Rabs qq <= 1 / 1000) by lra.
  destruct (hav_bounds phi0 pp qq Hc Hp Hq') as (Hl0 & Hlo & Hup).
  set (l := pp * pp + cos phi0 * cos phi0 * (qq * qq)) in *.
  set (h := sin pp * sin pp + cos phi0 * cos (phi0 + 2 * pp) * (sin qq * sin qq)) in *.
  (* l <= 8e-7 *)
  assert (Hlsmall : l <= 8 / 10000000).
  { unfold l. pose proof (sq_abs_le pp _ Hp) as A. pose proof (sq_abs_le qq _ Hq) as B.
    pose proof (COS_bound phi0) as [_ C1].
    assert (cos phi0 * cos phi0 <= 1) by (replace 1 with (1 * 1) by ring; apply Rmult_le_compat; lra).
    assert (cos phi0 * cos phi0 * (qq * qq) <= 1 * (qq * qq)) by (apply Rmult_le_compat_r; [apply Rle_0_sqr | assumption]).
    lra. }
  assert (Hh : 0 <= h <= 1 / 1000000) by lra.
  destruct (atan_hav h Hh) as (Hy0 & _ & Hg1 & Hg2).
  set (y := atan (sqrt h / sqrt (1 - h))) in *.
  rewrite local_distance_half by (unfold earth_radius; lra).
  fold l.
  assert (HR : 0 < 2 * earth_radius) by (unfold earth_radius; lra).
  (* 0.999 y <= sqrt l <= 1.001 y *)
  assert (Y2 : 0 <= y * y) by apply Rle_0_sqr.
  assert (B1 : 999 / 1000 * y <= sqrt l).
  { rewrite <- (sqrt_square (999 / 1000 * y)) by (apply Rmult_le_pos; lra).
    apply sqrt_le_1_alt.
    replace (999 / 1000 * y * (999 / 1000 * y)) with (998001 / 1000000 * (y * y)) by field. lra. }
  assert (B2 : sqrt l <= 1001 / 1000 * y).
  { rewrite <- (sqrt_square (1001 / 1000 * y)) by (apply Rmult_le_pos; lra).
    apply sqrt_le_1_alt.
    replace (1001 / 1000 * y * (1001 / 1000 * y)) with (1002001 / 1000000 * (y * y)) by field. lra. }
  replace (2 * earth_radius * sqrt l - 2 * earth_radius * y) with (2 * earth_radius * (sqrt l - y)) by ring.
  rewrite Rabs_mult, (Rabs_right (2 * earth_radius)) by lra.
  replace (1 / 1000 * (2 * earth_radius * y)) with (2 * earth_radius * (1 / 1000 * y)) by ring.
  apply Rmult_le_compat_l; [lra|]. apply Rabs_le. split; lra.
Qed.


Lemma Rabs_mul_le : forall x y X Y, Rabs x <= X -> Rabs y <= Y -> Rabs (x * y) <= X * Y.
Proof.
  intros x y X Y Hx Hy. rewrite Rabs_mult.
  pose proof (Rabs_pos x). pose proof (Rabs_pos y). apply Rmult_le_compat; assumption.
Qed.

Lemma Rabs_sqr_eq : forall t, t * t = Rabs t * Rabs t.
Proof. intros t. destruct (Rle_or_lt 0 t); [rewrite Rabs_right by lra | rewrite Rabs_left by lra]; ring. Qed.

(* pure real algebra behind the bearing bound; sa, sb, sg stand for sin a, sin b, sin^2 (b/2) *)
Lemma bearing_algebra : forall a b c0 c1 s0 sa sb sg : R,
  Rabs a <= 8 / 10000 -> Rabs b <= 16 / 10000 ->
  / 2 <= c0 <= 1 -> Rabs (c1 - c0) <= Rabs a -> Rabs s0 <= 1 ->
  Rabs (sa - a) <= Rabs a * Rabs a * Rabs a / 6 ->
  Rabs (sb - b) <= Rabs b * Rabs b * Rabs b / 6 ->
  0 <= sg <= b * b / 4 ->
  let wn := sa + 2 * s0 * c1 * sg in
  let we := sb * c1 in
  let D := a * a + c0 * c1 * (b * b) in
  0 <= D /\
  Rabs (b * c0 * wn - a * we) <= 1604 / 1000000 * D /\
  9991 / 10000 * D <= b * c0 * we + a * wn.
Proof.
  intros a b c0 c1 s0 sa sb sg Ha Hb [Hc0 Hc0'] Hc1 Hs0 Hsa Hsb [Hsg0 Hsg1] wn we D.
  set (A := Rabs a) in *. set (B := Rabs b) in *.
  assert (A0 : 0 <= A) by apply Rabs_pos. assert (B0 : 0 <= B) by apply Rabs_pos.
  assert (Eaa : a * a = A * A) by apply Rabs_sqr_eq.
  assert (Ebb : b * b = B * B) by apply Rabs_sqr_eq.
  apply Rabs_le_inv in Hc1. destruct Hc1 as [Hc1a Hc1b].
  assert (C1lo : 4992 / 10000 <= c1) by lra. assert (C1hi : c1 <= 10008 / 10000) by lra.
  set (k := c0 * c1) in *.
  assert (Kc : c1 <= 2 * k).
  { unfold k. assert (0 <= c1 * (c0 - / 2)) by (apply Rmult_le_pos; lra). lra. }
  assert (Klo : 2496 / 10000 <= k).
  { unfold k. assert (0 <= (c0 - / 2) * (c1 - 4992 / 10000)) by (apply Rmult_le_pos; lra). lra. }
  (* atoms *)
  set (AA := A * A) in *. set (BB := B * B) in *. set (M := A * B) in *. set (KB := k * BB) in *.
  assert (AA0 : 0 <= AA) by (unfold AA; apply Rmult_le_pos; assumption).
  assert (BB0 : 0 <= BB) by (unfold BB; apply Rmult_le_pos; assumption).
  assert (M0 : 0 <= M) by (unfold M; apply Rmult_le_pos; assumption).
  assert (KB0 : 0 <= KB) by (unfold KB; apply Rmult_le_pos; lra).
  assert (AAs : AA <= 64 / 100000000) by (unfold AA; replace (64 / 100000000) with (8 / 10000 * (8 / 10000)) by field; apply Rmult_le_compat; lra).
  assert (BBs : BB <= 256 / 100000000) by (unfold BB; replace (256 / 100000000) with (16 / 10000 * (16 / 10000)) by field; apply Rmult_le_compat; lra).
  assert (ED : D = AA + KB) by (unfold D; rewrite Eaa, Ebb; unfold KB; ring).
  (* 0.998 M <= D *)
  assert (HM : 998 / 1000 * M <= AA + KB).
  { assert (S : 0 <= (A - 499 / 1000 * B) * (A - 499 / 1000 * B)) by apply Rle_0_sqr.
    assert (E : (A - 499 / 1000 * B) * (A - 499 / 1000 * B) = AA - 998 / 1000 * M + 249001 / 1000000 * BB) by (unfold AA, M, BB; field).
    assert (Kb : 249001 / 1000000 * BB <= KB) by (unfold KB; apply Rmult_le_compat_r; lra).
    lra. }
  (* the four error terms of the cross product *)
  assert (Ecross : b * c0 * wn - a * we = b * c0 * (sa - a) + a * c1 * (b - sb) + a * b * (c0 - c1) + 2 * b * c0 * s0 * c1 * sg)
    by (unfold wn, we; ring).
  assert (T1 : Rabs (b * c0 * (sa - a)) <= 11 / 100000000 * M).
  { replace (b * c0 * (sa - a)) with (c0 * (b * (sa - a))) by ring.
    apply Rle_trans with (1 * (B * (A * A * A / 6))).
    - apply Rabs_mul_le; [rewrite Rabs_right by lra; lra|]. apply Rabs_mul_le; [apply Rle_refl | exact Hsa].
    - replace (1 * (B * (A * A * A / 6))) with (M * (AA / 6)) by (unfold M, AA; field).
      rewrite (Rmult_comm _ M). apply Rmult_le_compat_l; lra. }
  assert (T2 : Rabs (a * c1 * (b - sb)) <= 43 / 100000000 * M).
  { replace (a * c1 * (b - sb)) with (c1 * (a * (sb - b)) * (-1)) by ring.
    rewrite Rabs_mult, (Rabs_left (-1)) by lra.
    apply Rle_trans with (10008 / 10000 * (A * (B * B * B / 6)) * - -1).
    - apply Rmult_le_compat_r; [lra|]. apply Rabs_mul_le; [rewrite Rabs_right by lra; lra|]. apply Rabs_mul_le; [apply Rle_refl | exact Hsb].
    - replace (10008 / 10000 * (A * (B * B * B / 6)) * - -1) with (M * (10008 / 10000 * BB / 6)) by (unfold M, BB; field).
      rewrite (Rmult_comm _ M). apply Rmult_le_compat_l; lra. }
  assert (T3 : Rabs (a * b * (c0 - c1)) <= 8 / 10000 * M).
  { replace (a * b * (c0 - c1)) with ((c0 - c1) * (a * b)) by ring.
    apply Rle_trans with (8 / 10000 * (A * B)); [|unfold M; lra].
    apply Rabs_mul_le; [apply Rabs_le; lra | apply Rabs_mul_le; apply Rle_refl]. }
  assert (T4 : Rabs (2 * b * c0 * s0 * c1 * sg) <= 8 / 10000 * KB).
  { replace (2 * b * c0 * s0 * c1 * sg) with (s0 * (b * (2 * k * sg))) by (unfold k; ring).
    apply Rle_trans with (1 * (B * (2 * k * (BB / 4)))).
    - apply Rabs_mul_le; [exact Hs0|]. apply Rabs_mul_le; [apply Rle_refl|].
      rewrite Rabs_right by (apply Rle_ge; apply Rmult_le_pos; lra).
      apply Rmult_le_compat_l; [lra|]. rewrite <- Ebb. lra.
    - replace (1 * (B * (2 * k * (BB / 4)))) with (B / 2 * KB) by (unfold KB; field).
      apply Rmult_le_compat_r; lra. }
  split; [lra | split].
  - rewrite Ecross.
    apply Rle_trans with (Rabs (b * c0 * (sa - a)) + Rabs (a * c1 * (b - sb)) + Rabs (a * b * (c0 - c1)) + Rabs (2 * b * c0 * s0 * c1 * sg)).
    + eapply Rle_trans; [apply Rabs_triang|]. apply Rplus_le_compat_r.
      eapply Rle_trans; [apply Rabs_triang|]. apply Rplus_le_compat_r. apply Rabs_triang.
    + rewrite ED. lra.
  - (* dot product from below *)
    assert (Edot : b * c0 * we + a * wn = k * (b * sb) + a * sa + 2 * a * s0 * c1 * sg) by (unfold we, wn, k; ring).
    assert (U1 : BB - 43 / 100000000 * BB <= b * sb).
    { replace (b * sb) with (b * b + b * (sb - b)) by ring. rewrite Ebb. fold BB.
      assert (Rabs (b * (sb - b)) <= B * (B * B * B / 6)) by (apply Rabs_mul_le; [apply Rle_refl | exact Hsb]).
      apply Rabs_le_inv in H.
      assert (B * (B * B * B / 6) = BB * (BB / 6)) by (unfold BB; field).
      assert (BB * (BB / 6) <= BB * (43 / 100000000)) by (apply Rmult_le_compat_l; lra).
      lra. }
    assert (U2 : AA - 11 / 100000000 * AA <= a * sa).
    { replace (a * sa) with (a * a + a * (sa - a)) by ring. rewrite Eaa. fold AA.
      assert (Rabs (a * (sa - a)) <= A * (A * A * A / 6)) by (apply Rabs_mul_le; [apply Rle_refl | exact Hsa]).
      apply Rabs_le_inv in H.
      assert (A * (A * A * A / 6) = AA * (AA / 6)) by (unfold AA; field).
      assert (AA * (AA / 6) <= AA * (11 / 100000000)) by (apply Rmult_le_compat_l; lra).
      lra. }
    assert (U3 : Rabs (2 * a * s0 * c1 * sg) <= 8 / 10000 * KB).
    { replace (2 * a * s0 * c1 * sg) with (s0 * (a * (2 * c1 * sg))) by ring.
      apply Rle_trans with (1 * (A * (2 * (2 * k) * (BB / 4)))).
      - apply Rabs_mul_le; [exact Hs0|]. apply Rabs_mul_le; [apply Rle_refl|].
        rewrite Rabs_right by (apply Rle_ge; apply Rmult_le_pos; lra).
        apply Rmult_le_compat; lra.
      - replace (1 * (A * (2 * (2 * k) * (BB / 4)))) with (A * KB) by (unfold KB; field).
        apply Rmult_le_compat_r; lra. }
    apply Rabs_le_inv in U3.
    assert (U1k : k * (BB - 43 / 100000000 * BB) <= k * (b * sb)) by (apply Rmult_le_compat_l; lra).
    replace (k * (BB - 43 / 100000000 * BB)) with (KB - 43 / 100000000 * KB) in U1k by (unfold KB; ring).
    rewrite Edot, ED. lra.
Qed.

Lemma bearing_core : forall phi0 a b : R,
  / 2 <= cos phi0 -> Rabs a <= 8 / 10000 -> Rabs b <= 16 / 10000 ->
  let we := sin b * cos (phi0 + a) in
  let wn := cos phi0 * sin (phi0 + a) - sin phi0 * cos (phi0 + a) * cos b in
  Rabs (b * cos phi0 * wn - a * we) <= 166 / 100000 * (b * cos phi0 * we + a * wn) /\
  0 <= b * cos phi0 * we + a * wn /\
  (a <> 0 \/ b <> 0 -> 0 < b * cos phi0 * we + a * wn).
Proof.
  intros phi0 a b Hc Ha Hb we wn.
  set (sg := sin (b / 2) * sin (b / 2)).
  assert (Ewn : wn = sin a + 2 * sin phi0 * cos (phi0 + a) * sg).
  { unfold wn, sg.
    assert (E1 : sin a = sin (phi0 + a) * cos phi0 - cos (phi0 + a) * sin phi0).
    { rewrite <- sin_minus. f_equal. ring. }
    assert (E2 : cos b = 1 - 2 * sin (b / 2) * sin (b / 2)).
    { rewrite <- cos_2a_sin. f_equal. field. }
    rewrite E1, E2. ring. }
  pose proof (COS_bound phi0) as [_ Hc1].
  assert (Ha1 : Rabs a <= 1) by lra. assert (Hb1 : Rabs b <= 1) by lra.
  destruct (sin_cubic_abs a Ha1) as [Hsa _]. destruct (sin_cubic_abs b Hb1) as [Hsb _].
  assert (Hl : Rabs (cos (phi0 + a) - cos phi0) <= Rabs a) by (apply cos_lipschitz; lra).
  assert (Hs0 : Rabs (sin phi0) <= 1) by (pose proof (SIN_bound phi0); apply Rabs_le; lra).
  assert (Hsg : 0 <= sg <= b * b / 4).
  { split; [unfold sg; apply Rle_0_sqr|].
    assert (Hb2 : Rabs (b / 2) <= 1).
    { unfold Rdiv. rewrite Rabs_mult, (Rabs_right (/ 2)) by lra. lra. }
    destruct (sin_sq_bounds (b / 2) Hb2) as [_ U]. unfold sg. replace (b * b / 4) with (b / 2 * (b / 2)) by field. exact U. }
  destruct (bearing_algebra a b (cos phi0) (cos (phi0 + a)) (sin phi0) (sin a) (sin b) sg Ha Hb (conj Hc Hc1) Hl Hs0 Hsa Hsb Hsg)
    as (HD & Hcr & Hdot).
  cbv zeta in Hcr, Hdot. rewrite <- Ewn in Hcr, Hdot. fold we in Hcr, Hdot.
  set (D := a * a + cos phi0 * cos (phi0 + a) * (b * b)) in *.
  split; [lra | split; [lra|]].
  intros Hne.
  assert (Hk : 0 < cos phi0 * cos (phi0 + a)).
  { apply Rabs_le_inv in Hl. apply Rmult_lt_0_compat; lra. }
  assert (HDp : 0 < D).
  { unfold D. destruct Hne as [Hn | Hn].
    - assert (0 < a * a) by exact (Rsqr_pos_lt a Hn).
      assert (0 <= cos phi0 * cos (phi0 + a) * (b * b)) by (apply Rmult_le_pos; [lra | apply Rle_0_sqr]). lra.
    - assert (0 < b * b) by exact (Rsqr_pos_lt b Hn).
      assert (0 < cos phi0 * cos (phi0 + a) * (b * b)) by (apply Rmult_lt_0_compat; assumption).
      assert (0 <= a * a) by apply Rle_0_sqr. lra. }
  lra.
Qed.

(* --- what the cross/dot criterion means ----------------------------------------------------- *)
Lemma small_angle : forall d e : R, - PI <= d <= PI -> 0 < e < PI / 2 ->
  Rabs (sin d) <= tan e * cos d -> Rabs d <= e.
Proof.
  intros d e [Hd1 Hd2] [He1 He2] H.
  assert (Ht : 0 < tan e) by (apply tan_gt_0; assumption).
  pose proof (Rabs_pos (sin d)) as Hs0.
  assert (Hc : 0 < cos d).
  { destruct (Rlt_or_le 0 (cos d)) as [Hp | Hn]; [exact Hp | exfalso].
    assert (tan e * cos d <= 0) by (rewrite <- (Rmult_0_r (tan e)); apply Rmult_le_compat_l; lra).
    assert (Hs : sin d = 0).
    { assert (Rabs (sin d) = 0) by lra. destruct (Req_dec (sin d) 0) as [E | E]; [exact E | apply Rabs_no_R0 in E; contradiction]. }
    assert (Hcz : cos d = 0).
    { assert (0 <= tan e * cos d) by lra. destruct (Req_dec (cos d) 0) as [E | E]; [exact E | exfalso].
      assert (cos d < 0) by lra. assert (tan e * cos d < 0) by (rewrite <- (Rmult_0_r (tan e)); apply Rmult_lt_compat_l; lra). lra. }
    exact (cos_sin_0 d (conj Hcz Hs)). }
  assert (Hr : - (PI / 2) < d < PI / 2).
  { split.
    - destruct (Rlt_or_le (- (PI / 2)) d) as [Hp | Hn]; [exact Hp | exfalso].
      assert (cos (- d) <= 0) by (apply cos_le_0; lra). rewrite cos_neg in H0. lra.
    - destruct (Rlt_or_le d (PI / 2)) as [Hp | Hn]; [exact Hp | exfalso].
      assert (cos d <= 0) by (apply cos_le_0; lra). lra. }
  assert (Esin : sin d = tan d * cos d) by (unfold tan; field; lra).
  apply Rabs_le. split.
  - destruct (Rle_or_lt (- e) d) as [Hp | Hn]; [exact Hp | exfalso].
    assert (tan d < tan (- e)) by (apply tan_increasing; lra).
    rewrite tan_neg in H0.
    assert (tan d * cos d < - tan e * cos d) by (apply Rmult_lt_compat_r; assumption).
    assert (- sin d <= Rabs (sin d)) by (rewrite <- Rabs_Ropp; apply RRle_abs).
    lra.
  - destruct (Rle_or_lt d e) as [Hp | Hn]; [exact Hp | exfalso].
    assert (tan e < tan d) by (apply tan_increasing; lra).
    assert (tan e * cos d < tan d * cos d) by (apply Rmult_lt_compat_r; assumption).
    pose proof (RRle_abs (sin d)). lra.
Qed.


(* --- bearing ------------------------------------------------------------------------------ *)
(* tan(0.1 deg) >= 1.66e-3 from PI > 3 and sin x >= x - x^3/6 (no numerical tactic) *)
Lemma tan_tenth_degree : 166 / 100000 <= tan (radians (1 / 10)).
Proof.
  unfold radians. set (x := 1 / 10 * PI / 180).
  pose proof PI2_3_2 as Hlo. pose proof PI_4 as Hhi.
  assert (Hx : 1 / 600 < x <= 4 / 1800) by (unfold x; lra).
  destruct (sin_cubic x) as [L _]; [lra|].
  assert (Hxx : x * x <= 4 / 1800 * (4 / 1800)) by (apply Rmult_le_compat; lra).
  assert (Hs : 166 / 100000 <= sin x).
  { apply Rle_trans with (x - x * x * x / 6); [|exact L].
    replace (x - x * x * x / 6) with ((1 - x * x / 6) * x) by field.
    apply Rle_trans with ((1 - 1 / 1000) * x); [lra|]. apply Rmult_le_compat_r; lra. }
  assert (Hc : 0 < cos x) by (apply cos_gt_0; lra).
  pose proof (COS_bound x) as [_ Hc1].
  unfold tan. apply Rle_trans with (sin x); [exact Hs|].
  rewrite <- (Rmult_1_r (sin x)) at 1. unfold Rdiv. apply Rmult_le_compat_l; [lra|].
  rewrite <- Rinv_1. apply Rinv_le_contravar; lra.
Qed.

Theorem accuracy_bearing : forall lat lon ref_lat ref_lon : R,
  -60 <= ref_lat <= 60 ->
  let p := latlon_to_xy lat lon ref_lat ref_lon in
  Rabs (fst p) <= 5000 -> Rabs (snd p) <= 5000 ->
  let w := gc_bearing_vec ref_lat ref_lon lat lon in
  0 <= dot2 p w /\
  (p <> (0, 0) -> 0 < dot2 p w) /\
  Rabs (cross2 p w) <= tan (radians (1 / 10)) * dot2 p w.
Proof.
  intros lat lon rlat rlon Hr p Hx Hy w.
  destruct (half_small lat lon rlat rlon Hr Hx Hy) as (Hc & Hp & Hq).
  set (a := radians lat - radians rlat). set (b := radians lon - radians rlon).
  set (phi0 := radians rlat) in *.
  assert (Ha : Rabs a <= 8 / 10000).
  { replace a with (2 * ((radians lat - phi0) / 2)) by (unfold a, phi0; field).
    rewrite Rabs_mult, (Rabs_right 2) by lra. lra. }
  assert (Hb : Rabs b <= 16 / 10000).
  { replace b with (2 * ((radians lon - radians rlon) / 2)) by (unfold b; field).
    rewrite Rabs_mult, (Rabs_right 2) by lra. lra. }
  destruct (bearing_core phi0 a b Hc Ha Hb) as (Hcr & Hd0 & Hdp).
  cbv zeta in Hcr, Hd0, Hdp.
  assert (Ep : p = (earth_radius * b * cos phi0, earth_radius * a)) by reflexivity.
  assert (Ew : w = (sin b * cos (phi0 + a), cos phi0 * sin (phi0 + a) - sin phi0 * cos (phi0 + a) * cos b)).
  { unfold w, gc_bearing_vec. fold b phi0. replace (radians lat) with (phi0 + a) by (unfold a, phi0; ring). reflexivity. }
  set (we := sin b * cos (phi0 + a)) in *.
  set (wn := cos phi0 * sin (phi0 + a) - sin phi0 * cos (phi0 + a) * cos b) in *.
  assert (Ecross : cross2 p w = earth_radius * (b * cos phi0 * wn - a * we)) by (rewrite Ep, Ew; unfold cross2; cbn [fst snd]; ring).
  assert (Edot : dot2 p w = earth_radius * (b * cos phi0 * we + a * wn)) by (rewrite Ep, Ew; unfold dot2; cbn [fst snd]; ring).
  pose proof earth_radius_pos as HR.
  rewrite Ecross, Edot.
  split; [apply Rmult_le_pos; lra | split].
  - intros Hne. apply Rmult_lt_0_compat; [exact HR|]. apply Hdp.
    destruct (Req_dec a 0) as [Ea | Ea]; [| left; exact Ea].
    destruct (Req_dec b 0) as [Eb | Eb]; [| right; exact Eb].
    exfalso. apply Hne. rewrite Ep, Ea, Eb. f_equal; ring.
  - rewrite Rabs_mult, (Rabs_right earth_radius) by lra.
    replace (tan (radians (1 / 10)) * (earth_radius * (b * cos phi0 * we + a * wn)))
      with (earth_radius * (tan (radians (1 / 10)) * (b * cos phi0 * we + a * wn))) by ring.
    apply Rmult_le_compat_l; [lra|].
    apply Rle_trans with (166 / 100000 * (b * cos phi0 * we + a * wn)); [exact Hcr|].
    apply Rmult_le_compat_r; [exact Hd0 | exact tan_tenth_degree].
Qed.

Lemma cross_dot_polar : forall r s beta gamma : R,
  cross2 (r * sin beta, r * cos beta) (s * sin gamma, s * cos gamma) = r * s * sin (beta - gamma) /\
  dot2 (r * sin beta, r * cos beta) (s * sin gamma, s * cos gamma) = r * s * cos (beta - gamma).
Proof.
  intros r s be ga. unfold cross2, dot2. cbn [fst snd]. rewrite sin_minus, cos_minus. split; ring.
Qed.

(* two directions r (sin beta, cos beta), s (sin gamma, cos gamma), r, s > 0, whose cross/dot products satisfy the
   criterion with tolerance e differ by at most e in bearing (difference taken in [-PI, PI]) *)
Theorem bearing_separation : forall r s beta gamma e : R,
  0 < r -> 0 < s -> - PI <= beta - gamma <= PI -> 0 < e < PI / 2 ->
  let v := (r * sin beta, r * cos beta) in
  let w := (s * sin gamma, s * cos gamma) in
  Rabs (cross2 v w) <= tan e * dot2 v w -> Rabs (beta - gamma) <= e.
Proof.
  intros r s be ga e Hr Hs Hd He v w H.
  destruct (cross_dot_polar r s be ga) as [Ec Ed]. fold v w in Ec, Ed. rewrite Ec, Ed in H.
  assert (Hrs : 0 < r * s) by (apply Rmult_lt_0_compat; assumption).
  rewrite Rabs_mult, (Rabs_right (r * s)) in H by lra.
  replace (tan e * (r * s * cos (be - ga))) with (r * s * (tan e * cos (be - ga))) in H by ring.
  apply Rmult_le_reg_l in H; [| exact Hrs].
  apply small_angle; assumption.
Qed.

(* gc_distance is the haversine formula: the central angle sigma = d / R solves hav sigma = sin^2 (sigma/2) = a *)
Theorem gc_distance_is_haversine : forall lat0 lon0 lat1 lon1 : R,
  0 <= hav_arg lat0 lon0 lat1 lon1 < 1 ->
  let sigma := gc_distance lat0 lon0 lat1 lon1 / earth_radius in
  0 <= sigma < PI /\ Rsqr (sin (sigma / 2)) = hav_arg lat0 lon0 lat1 lon1.
Proof.
  intros lat0 lon0 lat1 lon1 Hh sigma.
  destruct (atan_hav_sin _ Hh) as (Hy0 & Hy1 & Hs).
  set (h := hav_arg lat0 lon0 lat1 lon1) in *.
  set (y := atan (sqrt h / sqrt (1 - h))) in *.
  assert (E : sigma / 2 = y).
  { unfold sigma, gc_distance. fold h y. pose proof earth_radius_pos. field. lra. }
  assert (E2 : sigma = 2 * y) by lra.
  split; [lra | rewrite E; exact Hs].
Qed.
