(* C07, array-level mirror in DISPERSION mode with SINGLE-precision storage, as an explicit bound.

   With precision="single" the per-mode amplitudes are rounded (rho = cround) BEFORE the phase factors.
   The source spectrum of the mirrored source carries the unit-modulus factor root nxe (-kx), and
   rounding does not commute with it, so the exact theorems (C07Mirror.v, C07MirrorRC.v) ask for
   double storage.  Here: over the complex numbers with an ARBITRARY storage rounding rnd obeying
   |rnd x - x| <= eps |x| (instance ROpsR rnd of Proofs/SinglePrecision.v), for a single-storage
   request a and its mirrored request m,

     | (F_single(m)[k,j,i] - F_single(a)[k,j,nx-1-i])  -  (Nyq_double(m)[k,j,i] - Nyq_double(a)[k,j,nx-1-i]) |
         <=  eps * (Smodes m + Smodes a)             (flux;  epsP for the concentration)

   where Nyq_double is the contribution of the unpaired Nyquist column of the DOUBLE-storage run and
   Smodes the sum over the retained modes of |exact amplitude| |shift| (SinglePrecision.v).  For an
   odd (clamped) mode count the Nyquist part is absent: the returned single-storage arrays are
   mirrored up to eps * (Smodes m + Smodes a).  Both for the default measurement point (mirror_args)
   and the re-centred request (mirror_rc_args, xm' = xmx - xm); x and y.
   Proof: triangle inequality through the double-storage runs: field_single_cells twice + the exact
   defect identity of the double-storage runs. *)
From Coq Require Import ZArith List Reals Lra Lia Bool Arith.
From Coquelicot Require Import Complex.
From BL Require Import Base.Ops Base.Laws Base.ROps Model.Solver Proofs.Sums Proofs.StepProofs
  Proofs.ModeProofs Proofs.SpecProofs Proofs.C04Proofs Proofs.C02Proofs Proofs.PrecisionProofs
  Proofs.SinglePrecision Proofs.Dft Proofs.C06Proofs Proofs.C07Mirror Proofs.C07MirrorRC.
Import ListNotations.
Local Open Scope R_scope.

Lemma tri_defect (xS yS xD yD d : CC) (bx by_ : R) :
  Cmod (Cminus xS xD) <= bx -> Cmod (Cminus yS yD) <= by_ -> Cminus xD yD = d ->
  Cmod (Cminus (Cminus xS yS) d) <= bx + by_.
Proof.
  intros Hx Hy <-.
  replace (Cminus (Cminus xS yS) (Cminus xD yD)) with (Cplus (Cminus xS xD) (Copp (Cminus yS yD))) by ring.
  eapply Rle_trans; [apply Cmod_triangle|]. rewrite Cmod_opp. lra.
Qed.

Section MirrorSingle.
Variable rnd : CC -> CC.
Variable eps : R.
Hypothesis Heps : 0 <= eps.
Hypothesis Hrnd : forall x, Cmod (Cminus (rnd x) x) <= eps * Cmod x.

Let O := ROpsR rnd.
Let LO : Laws O := ROpsR_laws rnd.
Notation dbl a := (with_single O a false).
Notation sgl a := (with_single O a true).

Lemma sel_snd_scale : forall (pq : CC * CC) (s : CC), snd (Cmult (fst pq) s, Cmult (snd pq) s) = Cmult (snd pq) s.
Proof using. reflexivity. Qed.
Lemma sel_fst_scale : forall (pq : CC * CC) (s : CC), fst (Cmult (fst pq) s, Cmult (snd pq) s) = Cmult (fst pq) s.
Proof using. reflexivity. Qed.

(* well-formedness of the four mirrored requests *)
Lemma wf_mirror_rc a : wf O a -> wf O (mirror_rc_args O a).
Proof using. intros H. destruct (wf_mirror O LO a H). constructor; assumption. Qed.
Lemma wf_mirror_y_rc a : wf O a -> wf O (mirror_y_rc_args O a).
Proof using. intros H. destruct (wf_mirror_y O LO a H). constructor; assumption. Qed.

(* an empty table synthesises zero *)
Lemma field_nil (a : args O) (g : geom O) sel k j i :
  (k < length (a_levels O a))%nat -> (j < g_ny O g)%nat -> (i < g_nx O g)%nat ->
  get3 O (field O a g sel []) k j i = RtoC 0.
Proof using.
  intros Hk Hj Hi. rewrite (field_get O LO a g sel [] k j i Hk Hj Hi). reflexivity.
Qed.

Lemma filter_none {A} (P : A -> bool) (l : list A) : (forall x, P x = false) -> filter P l = [].
Proof using.
  intros H. induction l as [|x l IH]; cbn [filter]; [reflexivity|]. rewrite H. exact IH.
Qed.

Lemma table_Nyq_odd (a : args O) g : Nat.odd (g_nlx O g) = true -> table_Nyq O a g = [].
Proof using.
  intros Ho. unfold table_Nyq. apply filter_none. intros e. rewrite (keepf_odd _ _ Ho). reflexivity.
Qed.

Lemma table_Nyq_y_odd (a : args O) g : Nat.odd (g_nly O g) = true -> table_Nyq_y O a g = [].
Proof using.
  intros Ho. unfold table_Nyq_y. apply filter_none. intros e. rewrite (keepf_odd _ _ Ho). reflexivity.
Qed.

(* ------------------------------------------------------------------------------------------ *)
(* generic step: a request a, a "mirrored" request m with the same geometry, cells c (of m) and
   c' (of a); whatever the double-storage runs differ by at these cells, the single-storage runs
   differ by the same up to the two storage bounds *)

Lemma single_pair_bound (a m : args O) g k j i j' i' :
  wf O a -> wf O m -> geometry O a = inl g -> geometry O m = inl g ->
  a_levels O m = a_levels O a ->
  (k < length (a_levels O a))%nat -> (j < g_ny O g)%nat -> (i < g_nx O g)%nat ->
  (j' < g_ny O g)%nat -> (i' < g_nx O g)%nat ->
  forall dq dp : CC,
  Cminus (get3 O (field O (dbl m) g snd (table O (dbl m) g)) k j i)
         (get3 O (field O (dbl a) g snd (table O (dbl a) g)) k j' i') = dq ->
  Cminus (get3 O (field O (dbl m) g fst (table O (dbl m) g)) k j i)
         (get3 O (field O (dbl a) g fst (table O (dbl a) g)) k j' i') = dp ->
  Cmod (Cminus (Cminus (get3 O (field O (sgl m) g snd (table O (sgl m) g)) k j i)
                       (get3 O (field O (sgl a) g snd (table O (sgl a) g)) k j' i')) dq)
    <= eps * Smodes rnd m g snd k + eps * Smodes rnd a g snd k
  /\
  Cmod (Cminus (Cminus (get3 O (field O (sgl m) g fst (table O (sgl m) g)) k j i)
                       (get3 O (field O (sgl a) g fst (table O (sgl a) g)) k j' i')) dp)
    <= epsP rnd eps m * Smodes rnd m g fst k + epsP rnd eps a * Smodes rnd a g fst k.
Proof using Heps Hrnd.
  intros Hwa Hwm Hga Hgm Hlv Hk Hj Hi Hj' Hi' dq dp Hdq Hdp.
  assert (Hkm : (k < length (a_levels O m))%nat) by (rewrite Hlv; exact Hk).
  destruct (field_single_cells rnd eps Heps Hrnd a g k j' i' Hwa Hga Hk Hj' Hi') as [Aq Ap].
  destruct (field_single_cells rnd eps Heps Hrnd m g k j i Hwm Hgm Hkm Hj Hi) as [Mq Mp].
  split; [exact (tri_defect _ _ _ _ _ _ _ Mq Aq Hdq)|exact (tri_defect _ _ _ _ _ _ _ Mp Ap Hdp)].
Qed.

(* ------------------------------------------------------------------------------------------ *)
(* x, re-centred request                                                                        *)

Theorem mirror_x_rc_single_defect (a : args O) g k j i :
  wf O a -> a_single O a = true -> geometry O a = inl g -> a_footprint O a = false ->
  recentred O a = true -> recentred O (mirror_rc_args O a) = true ->
  (k < length (a_levels O a))%nat -> (j < g_ny O g)%nat -> (i < g_nx O g)%nat ->
  let m := mirror_rc_args O a in
  let i' := (g_nx O g - 1 - i)%nat in
  Cmod (Cminus (Cminus (get3 O (field O m g snd (table O m g)) k j i) (get3 O (field O a g snd (table O a g)) k j i'))
               (Cminus (get3 O (field O (dbl m) g snd (table_Nyq O (dbl m) g)) k j i)
                       (get3 O (field O (dbl a) g snd (table_Nyq O (dbl a) g)) k j i')))
    <= eps * Smodes rnd m g snd k + eps * Smodes rnd a g snd k
  /\
  Cmod (Cminus (Cminus (get3 O (field O m g fst (table O m g)) k j i) (get3 O (field O a g fst (table O a g)) k j i'))
               (Cminus (get3 O (field O (dbl m) g fst (table_Nyq O (dbl m) g)) k j i)
                       (get3 O (field O (dbl a) g fst (table_Nyq O (dbl a) g)) k j i')))
    <= epsP rnd eps a * Smodes rnd m g fst k + epsP rnd eps a * Smodes rnd a g fst k.
Proof using Heps Hrnd.
  intros Hwf Hs Hg Hfp Hc Hc' Hk Hj Hi m i'.
  assert (Hi' : (i' < g_nx O g)%nat) by (unfold i'; lia).
  assert (Hgm : geometry O m = inl g) by (unfold m; rewrite (mirror_rc_geometry O LO a); exact Hg).
  pose proof (single_pair_bound a m g k j i j i' Hwf (wf_mirror_rc a Hwf) Hg Hgm eq_refl Hk Hj Hi Hj Hi' _ _
    (mirror_x_rc_cells_defect O LO (dbl a) g snd k j i sel_snd_scale (wf_single rnd a false Hwf) Hg Hfp eq_refl Hc Hc' Hk Hj Hi)
    (mirror_x_rc_cells_defect O LO (dbl a) g fst k j i sel_fst_scale (wf_single rnd a false Hwf) Hg Hfp eq_refl Hc Hc' Hk Hj Hi)) as H.
  assert (Ea : sgl a = a) by (apply (sgl_self rnd a); exact Hs).
  assert (Em : sgl m = m) by (apply (sgl_self rnd m); exact Hs).
  rewrite Ea, Em in H. exact H.
Qed.

Theorem mirror_x_rc_single_odd (a : args O) g k j i :
  wf O a -> a_single O a = true -> geometry O a = inl g -> a_footprint O a = false ->
  recentred O a = true -> recentred O (mirror_rc_args O a) = true ->
  Nat.odd (g_nlx O g) = true ->
  (k < length (a_levels O a))%nat -> (j < g_ny O g)%nat -> (i < g_nx O g)%nat ->
  let m := mirror_rc_args O a in
  let i' := (g_nx O g - 1 - i)%nat in
  Cmod (Cminus (get3 O (field O m g snd (table O m g)) k j i) (get3 O (field O a g snd (table O a g)) k j i'))
    <= eps * Smodes rnd m g snd k + eps * Smodes rnd a g snd k
  /\
  Cmod (Cminus (get3 O (field O m g fst (table O m g)) k j i) (get3 O (field O a g fst (table O a g)) k j i'))
    <= epsP rnd eps a * Smodes rnd m g fst k + epsP rnd eps a * Smodes rnd a g fst k.
Proof using Heps Hrnd.
  intros Hwf Hs Hg Hfp Hc Hc' Ho Hk Hj Hi m i'.
  assert (Hi' : (i' < g_nx O g)%nat) by (unfold i'; lia).
  pose proof (mirror_x_rc_single_defect a g k j i Hwf Hs Hg Hfp Hc Hc' Hk Hj Hi) as H. cbv zeta in H.
  fold m i' in H. rewrite !(table_Nyq_odd _ g Ho) in H.
  rewrite (field_nil (dbl m) g snd k j i Hk Hj Hi), (field_nil (dbl a) g snd k j i' Hk Hj Hi'),
          (field_nil (dbl m) g fst k j i Hk Hj Hi), (field_nil (dbl a) g fst k j i' Hk Hj Hi') in H.
  replace (Cminus (RtoC 0) (RtoC 0)) with (RtoC 0) in H by ring.
  unfold Cminus at 1 3 in H. rewrite Copp_0, !Cplus_0_r in H. exact H.
Qed.

(* ------------------------------------------------------------------------------------------ *)
(* x, default measurement point (no re-centring)                                                *)

Theorem mirror_x_single_defect (a : args O) g k j i :
  wf O a -> a_single O a = true -> geometry O a = inl g -> a_footprint O a = false ->
  recentred O a = false ->
  (k < length (a_levels O a))%nat -> (j < g_ny O g)%nat -> (i < g_nx O g)%nat ->
  let m := mirror_args O a in
  let i' := (g_nx O g - 1 - i)%nat in
  Cmod (Cminus (Cminus (get3 O (field O m g snd (table O m g)) k j i) (get3 O (field O a g snd (table O a g)) k j i'))
               (Cminus (get3 O (field O (dbl m) g snd (table_Nyq O (dbl m) g)) k j i)
                       (get3 O (field O (dbl a) g snd (table_Nyq O (dbl a) g)) k j i')))
    <= eps * Smodes rnd m g snd k + eps * Smodes rnd a g snd k
  /\
  Cmod (Cminus (Cminus (get3 O (field O m g fst (table O m g)) k j i) (get3 O (field O a g fst (table O a g)) k j i'))
               (Cminus (get3 O (field O (dbl m) g fst (table_Nyq O (dbl m) g)) k j i)
                       (get3 O (field O (dbl a) g fst (table_Nyq O (dbl a) g)) k j i')))
    <= epsP rnd eps a * Smodes rnd m g fst k + epsP rnd eps a * Smodes rnd a g fst k.
Proof using Heps Hrnd.
  intros Hwf Hs Hg Hfp Hc Hk Hj Hi m i'.
  assert (Hi' : (i' < g_nx O g)%nat) by (unfold i'; lia).
  assert (Hgm : geometry O m = inl g) by (unfold m; rewrite (mirror_geometry O LO a); exact Hg).
  assert (Hfp' : a_footprint O (dbl a) = true -> g_dx O g <> c0 O)
    by (intros E; change (a_footprint O (dbl a)) with (a_footprint O a) in E; congruence).
  pose proof (single_pair_bound a m g k j i j i' Hwf (wf_mirror O LO a Hwf) Hg Hgm eq_refl Hk Hj Hi Hj Hi' _ _
    (mirror_x_cells_defect O LO (dbl a) g snd k j i sel_snd_scale (wf_single rnd a false Hwf) Hg Hfp' (fun _ => eq_refl) (fun _ => Hc) Hk Hj Hi)
    (mirror_x_cells_defect O LO (dbl a) g fst k j i sel_fst_scale (wf_single rnd a false Hwf) Hg Hfp' (fun _ => eq_refl) (fun _ => Hc) Hk Hj Hi)) as H.
  assert (Ea : sgl a = a) by (apply (sgl_self rnd a); exact Hs).
  assert (Em : sgl m = m) by (apply (sgl_self rnd m); exact Hs).
  rewrite Ea, Em in H. exact H.
Qed.

(* ------------------------------------------------------------------------------------------ *)
(* y, re-centred request and default measurement point                                          *)

Theorem mirror_y_rc_single_defect (a : args O) g k j i :
  wf O a -> a_single O a = true -> geometry O a = inl g -> a_footprint O a = false ->
  recentred O a = true -> recentred O (mirror_y_rc_args O a) = true ->
  (k < length (a_levels O a))%nat -> (j < g_ny O g)%nat -> (i < g_nx O g)%nat ->
  let m := mirror_y_rc_args O a in
  let j' := (g_ny O g - 1 - j)%nat in
  Cmod (Cminus (Cminus (get3 O (field O m g snd (table O m g)) k j i) (get3 O (field O a g snd (table O a g)) k j' i))
               (Cminus (get3 O (field O (dbl m) g snd (table_Nyq_y O (dbl m) g)) k j i)
                       (get3 O (field O (dbl a) g snd (table_Nyq_y O (dbl a) g)) k j' i)))
    <= eps * Smodes rnd m g snd k + eps * Smodes rnd a g snd k
  /\
  Cmod (Cminus (Cminus (get3 O (field O m g fst (table O m g)) k j i) (get3 O (field O a g fst (table O a g)) k j' i))
               (Cminus (get3 O (field O (dbl m) g fst (table_Nyq_y O (dbl m) g)) k j i)
                       (get3 O (field O (dbl a) g fst (table_Nyq_y O (dbl a) g)) k j' i)))
    <= epsP rnd eps a * Smodes rnd m g fst k + epsP rnd eps a * Smodes rnd a g fst k.
Proof using Heps Hrnd.
  intros Hwf Hs Hg Hfp Hc Hc' Hk Hj Hi m j'.
  assert (Hj' : (j' < g_ny O g)%nat) by (unfold j'; lia).
  assert (Hgm : geometry O m = inl g) by (unfold m; rewrite (mirror_y_rc_geometry O LO a Hwf); exact Hg).
  pose proof (single_pair_bound a m g k j i j' i Hwf (wf_mirror_y_rc a Hwf) Hg Hgm eq_refl Hk Hj Hi Hj' Hi _ _
    (mirror_y_rc_cells_defect O LO (dbl a) g snd k j i sel_snd_scale (wf_single rnd a false Hwf) Hg Hfp eq_refl Hc Hc' Hk Hj Hi)
    (mirror_y_rc_cells_defect O LO (dbl a) g fst k j i sel_fst_scale (wf_single rnd a false Hwf) Hg Hfp eq_refl Hc Hc' Hk Hj Hi)) as H.
  assert (Ea : sgl a = a) by (apply (sgl_self rnd a); exact Hs).
  assert (Em : sgl m = m) by (apply (sgl_self rnd m); exact Hs).
  rewrite Ea, Em in H. exact H.
Qed.

Theorem mirror_y_rc_single_odd (a : args O) g k j i :
  wf O a -> a_single O a = true -> geometry O a = inl g -> a_footprint O a = false ->
  recentred O a = true -> recentred O (mirror_y_rc_args O a) = true ->
  Nat.odd (g_nly O g) = true ->
  (k < length (a_levels O a))%nat -> (j < g_ny O g)%nat -> (i < g_nx O g)%nat ->
  let m := mirror_y_rc_args O a in
  let j' := (g_ny O g - 1 - j)%nat in
  Cmod (Cminus (get3 O (field O m g snd (table O m g)) k j i) (get3 O (field O a g snd (table O a g)) k j' i))
    <= eps * Smodes rnd m g snd k + eps * Smodes rnd a g snd k
  /\
  Cmod (Cminus (get3 O (field O m g fst (table O m g)) k j i) (get3 O (field O a g fst (table O a g)) k j' i))
    <= epsP rnd eps a * Smodes rnd m g fst k + epsP rnd eps a * Smodes rnd a g fst k.
Proof using Heps Hrnd.
  intros Hwf Hs Hg Hfp Hc Hc' Ho Hk Hj Hi m j'.
  assert (Hj' : (j' < g_ny O g)%nat) by (unfold j'; lia).
  pose proof (mirror_y_rc_single_defect a g k j i Hwf Hs Hg Hfp Hc Hc' Hk Hj Hi) as H. cbv zeta in H.
  fold m j' in H. rewrite !(table_Nyq_y_odd _ g Ho) in H.
  rewrite (field_nil (dbl m) g snd k j i Hk Hj Hi), (field_nil (dbl a) g snd k j' i Hk Hj' Hi),
          (field_nil (dbl m) g fst k j i Hk Hj Hi), (field_nil (dbl a) g fst k j' i Hk Hj' Hi) in H.
  replace (Cminus (RtoC 0) (RtoC 0)) with (RtoC 0) in H by ring.
  unfold Cminus at 1 3 in H. rewrite Copp_0, !Cplus_0_r in H. exact H.
Qed.

Theorem mirror_y_single_defect (a : args O) g k j i :
  wf O a -> a_single O a = true -> geometry O a = inl g -> a_footprint O a = false ->
  recentred O a = false ->
  (k < length (a_levels O a))%nat -> (j < g_ny O g)%nat -> (i < g_nx O g)%nat ->
  let m := mirror_y_args O a in
  let j' := (g_ny O g - 1 - j)%nat in
  Cmod (Cminus (Cminus (get3 O (field O m g snd (table O m g)) k j i) (get3 O (field O a g snd (table O a g)) k j' i))
               (Cminus (get3 O (field O (dbl m) g snd (table_Nyq_y O (dbl m) g)) k j i)
                       (get3 O (field O (dbl a) g snd (table_Nyq_y O (dbl a) g)) k j' i)))
    <= eps * Smodes rnd m g snd k + eps * Smodes rnd a g snd k
  /\
  Cmod (Cminus (Cminus (get3 O (field O m g fst (table O m g)) k j i) (get3 O (field O a g fst (table O a g)) k j' i))
               (Cminus (get3 O (field O (dbl m) g fst (table_Nyq_y O (dbl m) g)) k j i)
                       (get3 O (field O (dbl a) g fst (table_Nyq_y O (dbl a) g)) k j' i)))
    <= epsP rnd eps a * Smodes rnd m g fst k + epsP rnd eps a * Smodes rnd a g fst k.
Proof using Heps Hrnd.
  intros Hwf Hs Hg Hfp Hc Hk Hj Hi m j'.
  assert (Hj' : (j' < g_ny O g)%nat) by (unfold j'; lia).
  assert (Hgm : geometry O m = inl g) by (unfold m; rewrite (mirror_y_geometry O LO a Hwf); exact Hg).
  assert (Hfp' : a_footprint O (dbl a) = true -> g_dy O g <> c0 O)
    by (intros E; change (a_footprint O (dbl a)) with (a_footprint O a) in E; congruence).
  pose proof (single_pair_bound a m g k j i j' i Hwf (wf_mirror_y O LO a Hwf) Hg Hgm eq_refl Hk Hj Hi Hj' Hi _ _
    (mirror_y_cells_defect O LO (dbl a) g snd k j i sel_snd_scale (wf_single rnd a false Hwf) Hg Hfp' (fun _ => eq_refl) (fun _ => Hc) Hk Hj Hi)
    (mirror_y_cells_defect O LO (dbl a) g fst k j i sel_fst_scale (wf_single rnd a false Hwf) Hg Hfp' (fun _ => eq_refl) (fun _ => Hc) Hk Hj Hi)) as H.
  assert (Ea : sgl a = a) by (apply (sgl_self rnd a); exact Hs).
  assert (Em : sgl m = m) by (apply (sgl_self rnd m); exact Hs).
  rewrite Ea, Em in H. exact H.
Qed.

(* ------------------------------------------------------------------------------------------ *)
(* odd mode count: the mirrored request has the SAME amplitude sum, Smodes m = Smodes a         *)
(* (every retained column is paired; moduli are invariant under the unit factors)               *)

Lemma RtoC_Rsum {A} (f : A -> R) (l : list A) :
  RtoC (Rsum (map f l)) = csum O (map (fun x => RtoC (f x)) l).
Proof using.
  induction l as [|x l IH]; [reflexivity|].
  cbn [map Rsum fold_right]. fold (Rsum (map f l)). rewrite RtoC_plus, IH. reflexivity.
Qed.

Lemma Cmod_root n k : Cmod (root O n k) = 1.
Proof using.
  unfold root. change (cexp O (cmul O (ci O) ?x)) with (Cexp (Cmult Ci x)).
  apply Cmod_cis_real. unfold twopi, two.
  change (snd (Cmult (Cmult (RtoC (IZR 2)) (RtoC PI)) (Cdiv (RtoC (IZR k)) (RtoC (IZR (Z.of_nat n))))) = 0).
  unfold Cdiv, Cinv, Cmult, RtoC. cbn [fst snd]. unfold Rdiv. ring.
Qed.

Lemma odd_not_double n t : Nat.odd n = true -> (2 * t <> n)%nat.
Proof using. intros Ho E. subst n. rewrite Nat.odd_mul in Ho. discriminate. Qed.

Definition Sterm (a : args O) (g : geom O) (sel : CC * CC -> CC) (k : nat) (t : nat * nat) : R :=
  Cmod (sel (amp O (dbl a) g t k)) * Cmod (shift O (dbl a) g (fst t) (snd t)).

Lemma Smodes_reflect_x (a m : args O) g sel k :
  (forall tx ty, (tx < g_nlx O g)%nat -> Sterm m g sel k (nidx (g_nlx O g) tx, ty) = Sterm a g sel k (tx, ty)) ->
  Smodes rnd m g sel k = Smodes rnd a g sel k.
Proof using.
  intros H. apply RtoC_inj. unfold Smodes. fold (Sterm m g sel k) (Sterm a g sel k).
  rewrite !RtoC_Rsum. unfold modes_of.
  rewrite (csum_modes_nested O LO (fun t => RtoC (Sterm m g sel k t))),
          (csum_modes_nested O LO (fun t => RtoC (Sterm a g sel k t))).
  cbv beta. fold O.
  apply (csum_map_ext O LO). intros ty _.
  rewrite <- (csum_reflect O LO (g_nlx O g) (fun tx => RtoC (Sterm m g sel k (tx, ty)))).
  apply (csum_map_ext O LO). intros tx Htx. apply in_seq in Htx. f_equal. apply H. lia.
Qed.

Lemma Smodes_reflect_y (a m : args O) g sel k :
  (forall tx ty, (ty < g_nly O g)%nat -> Sterm m g sel k (tx, nidx (g_nly O g) ty) = Sterm a g sel k (tx, ty)) ->
  Smodes rnd m g sel k = Smodes rnd a g sel k.
Proof using.
  intros H. apply RtoC_inj. unfold Smodes. fold (Sterm m g sel k) (Sterm a g sel k).
  rewrite !RtoC_Rsum. unfold modes_of.
  rewrite (csum_modes_nested O LO (fun t => RtoC (Sterm m g sel k t))),
          (csum_modes_nested O LO (fun t => RtoC (Sterm a g sel k t))).
  cbv beta. fold O.
  etransitivity;
    [symmetry; exact (csum_reflect O LO (g_nly O g) (fun ty => csum O (map (fun tx => RtoC (Sterm m g sel k (tx, ty))) (seq 0 (g_nlx O g)))))|].
  apply (csum_map_ext O LO). intros ty Hty. apply in_seq in Hty.
  apply (csum_map_ext O LO). intros tx _. f_equal. apply H. lia.
Qed.

Theorem Smodes_mirror_x_rc_odd (a : args O) g sel k :
  (forall (pq : CC * CC) (s : CC), sel (Cmult (fst pq) s, Cmult (snd pq) s) = Cmult (sel pq) s) ->
  wf O a -> geometry O a = inl g -> a_footprint O a = false ->
  recentred O a = true -> recentred O (mirror_rc_args O a) = true ->
  Nat.odd (g_nlx O g) = true -> (k < length (a_levels O a))%nat ->
  Smodes rnd (mirror_rc_args O a) g sel k = Smodes rnd a g sel k.
Proof using.
  intros Hsel Hwf Hg Hfp Hc Hc' Ho Hk. apply Smodes_reflect_x. intros tx ty Htx.
  pose proof (odd_not_double _ tx Ho) as Hny.
  assert (Hgm : geometry O (dbl (mirror_rc_args O a)) = inl g) by (rewrite <- Hg; apply (mirror_rc_geometry O LO a)).
  unfold Sterm. cbn [fst snd].
  rewrite <- (spectrum_amp O LO (dbl (mirror_rc_args O a)) g (nidx (g_nlx O g) tx, ty) k
                (wf_single rnd _ false (wf_mirror_rc a Hwf)) Hgm eq_refl Hk).
  rewrite <- (spectrum_amp O LO (dbl a) g (tx, ty) k (wf_single rnd a false Hwf) Hg eq_refl Hk).
  cbn [fst snd].
  change (spectrum O (dbl (mirror_rc_args O a)) g) with (spectrum O (mirror_args O (dbl a)) g).
  rewrite (spectrum_mirror_disp O LO (dbl a) g sel k tx ty Hsel (wf_single rnd a false Hwf) Hg Hfp eq_refl Hk Htx Hny).
  change (cmul O ?x ?y) with (Cmult x y). rewrite Cmod_mult, Cmod_root, Rmult_1_r.
  f_equal. f_equal.
  exact (shift_mirror_rc O LO (dbl a) g tx (nidx (g_nlx O g) tx) ty Hfp Hc Hc' (fftfreq_nidx _ _ Htx Hny)).
Qed.

Theorem Smodes_mirror_y_rc_odd (a : args O) g sel k :
  (forall (pq : CC * CC) (s : CC), sel (Cmult (fst pq) s, Cmult (snd pq) s) = Cmult (sel pq) s) ->
  wf O a -> geometry O a = inl g -> a_footprint O a = false ->
  recentred O a = true -> recentred O (mirror_y_rc_args O a) = true ->
  Nat.odd (g_nly O g) = true -> (k < length (a_levels O a))%nat ->
  Smodes rnd (mirror_y_rc_args O a) g sel k = Smodes rnd a g sel k.
Proof using.
  intros Hsel Hwf Hg Hfp Hc Hc' Ho Hk. apply Smodes_reflect_y. intros tx ty Hty.
  pose proof (odd_not_double _ ty Ho) as Hny.
  assert (Hgm : geometry O (dbl (mirror_y_rc_args O a)) = inl g) by (rewrite <- Hg; apply (mirror_y_rc_geometry O LO a Hwf)).
  unfold Sterm. cbn [fst snd].
  rewrite <- (spectrum_amp O LO (dbl (mirror_y_rc_args O a)) g (tx, nidx (g_nly O g) ty) k
                (wf_single rnd _ false (wf_mirror_y_rc a Hwf)) Hgm eq_refl Hk).
  rewrite <- (spectrum_amp O LO (dbl a) g (tx, ty) k (wf_single rnd a false Hwf) Hg eq_refl Hk).
  cbn [fst snd].
  change (spectrum O (dbl (mirror_y_rc_args O a)) g) with (spectrum O (mirror_y_args O (dbl a)) g).
  rewrite (spectrum_mirror_y_disp O LO (dbl a) g sel k tx ty Hsel (wf_single rnd a false Hwf) Hg Hfp eq_refl Hk Hty Hny).
  change (cmul O ?x ?y) with (Cmult x y). rewrite Cmod_mult, Cmod_root, Rmult_1_r.
  f_equal. f_equal.
  exact (shift_mirror_y_rc O LO (dbl a) g tx ty (nidx (g_nly O g) ty) Hfp Hc Hc' (fftfreq_nidx _ _ Hty Hny)).
Qed.

(* the headline form: odd clamped mode count, re-centred dispersion request, single storage — the returned
   arrays are mirrored up to 2 eps Smodes(a) (flux) and 2 epsP Smodes(a) (concentration) *)
Theorem mirror_x_rc_single_bound (a : args O) g k j i :
  wf O a -> a_single O a = true -> geometry O a = inl g -> a_footprint O a = false ->
  recentred O a = true -> recentred O (mirror_rc_args O a) = true ->
  Nat.odd (g_nlx O g) = true ->
  (k < length (a_levels O a))%nat -> (j < g_ny O g)%nat -> (i < g_nx O g)%nat ->
  let m := mirror_rc_args O a in
  let i' := (g_nx O g - 1 - i)%nat in
  Cmod (Cminus (get3 O (field O m g snd (table O m g)) k j i) (get3 O (field O a g snd (table O a g)) k j i'))
    <= 2 * eps * Smodes rnd a g snd k
  /\
  Cmod (Cminus (get3 O (field O m g fst (table O m g)) k j i) (get3 O (field O a g fst (table O a g)) k j i'))
    <= 2 * epsP rnd eps a * Smodes rnd a g fst k.
Proof using Heps Hrnd.
  intros Hwf Hs Hg Hfp Hc Hc' Ho Hk Hj Hi m i'.
  subst m i'.
  destruct (mirror_x_rc_single_odd a g k j i Hwf Hs Hg Hfp Hc Hc' Ho Hk Hj Hi) as [Hq Hp]. cbv zeta in Hq, Hp.
  rewrite (Smodes_mirror_x_rc_odd a g snd k sel_snd_scale Hwf Hg Hfp Hc Hc' Ho Hk) in Hq.
  rewrite (Smodes_mirror_x_rc_odd a g fst k sel_fst_scale Hwf Hg Hfp Hc Hc' Ho Hk) in Hp.
  split; [eapply Rle_trans; [exact Hq|right; ring]|eapply Rle_trans; [exact Hp|right; ring]].
Qed.

Theorem mirror_y_rc_single_bound (a : args O) g k j i :
  wf O a -> a_single O a = true -> geometry O a = inl g -> a_footprint O a = false ->
  recentred O a = true -> recentred O (mirror_y_rc_args O a) = true ->
  Nat.odd (g_nly O g) = true ->
  (k < length (a_levels O a))%nat -> (j < g_ny O g)%nat -> (i < g_nx O g)%nat ->
  let m := mirror_y_rc_args O a in
  let j' := (g_ny O g - 1 - j)%nat in
  Cmod (Cminus (get3 O (field O m g snd (table O m g)) k j i) (get3 O (field O a g snd (table O a g)) k j' i))
    <= 2 * eps * Smodes rnd a g snd k
  /\
  Cmod (Cminus (get3 O (field O m g fst (table O m g)) k j i) (get3 O (field O a g fst (table O a g)) k j' i))
    <= 2 * epsP rnd eps a * Smodes rnd a g fst k.
Proof using Heps Hrnd.
  intros Hwf Hs Hg Hfp Hc Hc' Ho Hk Hj Hi m j'.
  subst m j'.
  destruct (mirror_y_rc_single_odd a g k j i Hwf Hs Hg Hfp Hc Hc' Ho Hk Hj Hi) as [Hq Hp]. cbv zeta in Hq, Hp.
  rewrite (Smodes_mirror_y_rc_odd a g snd k sel_snd_scale Hwf Hg Hfp Hc Hc' Ho Hk) in Hq.
  rewrite (Smodes_mirror_y_rc_odd a g fst k sel_fst_scale Hwf Hg Hfp Hc Hc' Ho Hk) in Hp.
  split; [eapply Rle_trans; [exact Hq|right; ring]|eapply Rle_trans; [exact Hp|right; ring]].
Qed.

End MirrorSingle.
