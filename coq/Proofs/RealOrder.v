(* Third-order accuracy of the cubic Taylor step E3(-x) versus exp(-x). *)
From Coq Require Import Reals List Lra Lia.
From Coquelicot Require Import Coquelicot.
Import ListNotations.
Open Scope R_scope.

Definition E3 (x : R) : R := 1 + x + x*x/2 + x*x*x/6.

(* ------------------------------------------------------------------ *)
(* A function vanishing at 0 with non-negative derivative on [0,+oo)   *)
(* is non-negative on [0,+oo).                                         *)

Lemma nonneg_from_deriv :
  forall (f df : R -> R),
    (forall x, is_derive f x (df x)) ->
    f 0 = 0 ->
    (forall x, 0 <= x -> 0 <= df x) ->
    forall x, 0 <= x -> 0 <= f x.
Proof.
  intros f df Hd H0 Hpos x Hx.
  destruct (MVT_gen f 0 x df) as [c [Hc Heq]].
  - intros y _. apply Hd.
  - intros y _.
    apply continuity_pt_filterlim.
    apply (ex_derive_continuous f y).
    exists (df y). apply Hd.
  - rewrite Rmin_left in Hc by exact Hx.
    rewrite Rmax_right in Hc by exact Hx.
    rewrite H0 in Heq.
    assert (Hdc : 0 <= df c) by (apply Hpos; lra).
    assert (Hprod : 0 <= df c * (x - 0)) by (apply Rmult_le_pos; lra).
    lra.
Qed.

Lemma exp_neg_le_1 : forall x, 0 <= x -> exp (- x) <= 1.
Proof.
  intros x Hx.
  destruct (Req_dec x 0) as [-> | Hne].
  - rewrite Ropp_0, exp_0. lra.
  - rewrite <- exp_0. left. apply exp_increasing. lra.
Qed.

(* The chain of remainders. *)
Definition s0 (x : R) : R := 1 - exp (- x).
Definition s1 (x : R) : R := exp (- x) - 1 + x.
Definition s2 (x : R) : R := 1 - x + x*x/2 - exp (- x).
Definition s3 (x : R) : R := exp (- x) - 1 + x - x*x/2 + x*x*x/6.
Definition s4 (x : R) : R := 1 - x + x*x/2 - x*x*x/6 + x*x*x*x/24 - exp (- x).

Lemma s0_nonneg : forall x, 0 <= x -> 0 <= s0 x.
Proof. intros x Hx. unfold s0. pose proof (exp_neg_le_1 x Hx). lra. Qed.

Lemma s1_nonneg : forall x, 0 <= x -> 0 <= s1 x.
Proof.
  apply (nonneg_from_deriv s1 s0).
  - intros x. unfold s1, s0. auto_derive; [exact I | ring].
  - unfold s1. rewrite Ropp_0, exp_0. ring.
  - exact s0_nonneg.
Qed.

Lemma s2_nonneg : forall x, 0 <= x -> 0 <= s2 x.
Proof.
  apply (nonneg_from_deriv s2 s1).
  - intros x. unfold s2, s1. auto_derive; [exact I | field].
  - unfold s2. rewrite Ropp_0, exp_0. field.
  - exact s1_nonneg.
Qed.

Lemma s3_nonneg : forall x, 0 <= x -> 0 <= s3 x.
Proof.
  apply (nonneg_from_deriv s3 s2).
  - intros x. unfold s3, s2. auto_derive; [exact I | field].
  - unfold s3. rewrite Ropp_0, exp_0. field.
  - exact s2_nonneg.
Qed.

Lemma s4_nonneg : forall x, 0 <= x -> 0 <= s4 x.
Proof.
  apply (nonneg_from_deriv s4 s3).
  - intros x. unfold s4, s3. auto_derive; [exact I | field].
  - unfold s4. rewrite Ropp_0, exp_0. field.
  - exact s3_nonneg.
Qed.

(* Valid for every x >= 0; the requested statement on [0,1] follows. *)
Lemma E3_remainder_nonneg :
  forall x, 0 <= x -> 0 <= exp (- x) - E3 (- x) <= x^4 / 24.
Proof.
  intros x Hx.
  pose proof (s3_nonneg x Hx) as H3.
  pose proof (s4_nonneg x Hx) as H4.
  unfold s3 in H3. unfold s4 in H4. unfold E3.
  split.
  - replace (exp (- x) - (1 + - x + - x * - x / 2 + - x * - x * - x / 6))
      with (exp (- x) - 1 + x - x * x / 2 + x * x * x / 6) by field.
    exact H3.
  - replace (x ^ 4 / 24) with (x * x * x * x / 24) by field.
    lra.
Qed.

Theorem E3_remainder :
  forall x, 0 <= x <= 1 -> 0 <= exp (- x) - E3 (- x) <= x^4 / 24.
Proof.
  intros x [Hx _]. apply E3_remainder_nonneg. exact Hx.
Qed.

(* ------------------------------------------------------------------ *)

Theorem E3_bounds :
  forall x, 0 <= x <= 1 -> 0 <= E3 (- x) <= 1 /\ 0 < exp (- x) <= 1.
Proof.
  intros x [Hx0 Hx1].
  split; [ | split; [apply exp_pos | apply exp_neg_le_1; exact Hx0] ].
  unfold E3.
  assert (Hxx : 0 <= x * x) by (apply Rmult_le_pos; lra).
  assert (Hxx1 : x * x <= x) by nra.
  assert (Hxxx : 0 <= x * x * x) by (apply Rmult_le_pos; lra).
  assert (Hxxx1 : x * x * x <= x * x) by nra.
  split.
  - replace (1 + - x + - x * - x / 2 + - x * - x * - x / 6)
      with (1 - x + x * x / 2 - x * x * x / 6) by field.
    lra.
  - replace (1 + - x + - x * - x / 2 + - x * - x * - x / 6)
      with (1 - x + x * x / 2 - x * x * x / 6) by field.
    lra.
Qed.

(* ------------------------------------------------------------------ *)

Lemma pow_unit_interval : forall a n, 0 <= a <= 1 -> 0 <= a ^ n <= 1.
Proof.
  intros a n [Ha0 Ha1].
  induction n as [| n IH]; simpl.
  - lra.
  - destruct IH as [IH0 IH1]. split.
    + apply Rmult_le_pos; assumption.
    + nra.
Qed.

(* |a A - b B| <= |a - b| + |A - B| when A, b lie in [0,1]. *)
Lemma mult_diff_le :
  forall a b A B, 0 <= A <= 1 -> 0 <= b <= 1 ->
    Rabs (a * A - b * B) <= Rabs (a - b) + Rabs (A - B).
Proof.
  intros a b A B [HA0 HA1] [Hb0 Hb1].
  replace (a * A - b * B) with ((a - b) * A + b * (A - B)) by ring.
  eapply Rle_trans; [apply Rabs_triang | ].
  rewrite !Rabs_mult.
  rewrite (Rabs_pos_eq A) by exact HA0.
  rewrite (Rabs_pos_eq b) by exact Hb0.
  pose proof (Rabs_pos (a - b)) as P1.
  pose proof (Rabs_pos (A - B)) as P2.
  nra.
Qed.

Lemma pow_diff_le :
  forall a b n, 0 <= a <= 1 -> 0 <= b <= 1 ->
    Rabs (a ^ n - b ^ n) <= INR n * Rabs (a - b).
Proof.
  intros a b n Ha Hb.
  induction n as [| n IH].
  - simpl. rewrite Rminus_diag_eq by reflexivity. rewrite Rabs_R0. lra.
  - rewrite S_INR. simpl pow.
    eapply Rle_trans.
    + apply mult_diff_le; [apply pow_unit_interval; exact Ha | exact Hb].
    + lra.
Qed.

(* ------------------------------------------------------------------ *)

Lemma exp_neg_pow : forall x n, exp (- x) ^ n = exp (- (INR n * x)).
Proof.
  intros x n. induction n as [| n IH].
  - simpl. rewrite Rmult_0_l, Ropp_0, exp_0. reflexivity.
  - rewrite S_INR. simpl pow. rewrite IH, <- exp_plus. f_equal. ring.
Qed.

Theorem uniform_third_order :
  forall lam H n, 0 <= lam -> 0 < H -> (0 < n)%nat ->
    lam * (H / INR n) <= 1 ->
    Rabs (E3 (- (lam * (H / INR n))) ^ n - exp (- (lam * H)))
      <= (lam ^ 4 * H / 24) * (H / INR n) ^ 3.
Proof.
  intros lam H n Hlam HH Hn Hx1.
  assert (HnR : 0 < INR n) by (apply lt_0_INR; exact Hn).
  assert (Hn0 : INR n <> 0) by lra.
  set (dz := H / INR n) in *.
  assert (Hdz : 0 < dz) by (unfold dz; apply Rdiv_lt_0_compat; assumption).
  set (x := lam * dz) in *.
  assert (Hx0 : 0 <= x) by (unfold x; apply Rmult_le_pos; lra).
  assert (Hx : 0 <= x <= 1) by (split; assumption).
  replace (exp (- (lam * H))) with (exp (- x) ^ n).
  2:{ rewrite exp_neg_pow. f_equal. unfold x, dz. field. exact Hn0. }
  destruct (E3_bounds x Hx) as [HE [Hexp0 Hexp1]].
  destruct (E3_remainder x Hx) as [Hr0 Hr1].
  eapply Rle_trans.
  - apply pow_diff_le; [exact HE | lra].
  - rewrite Rabs_minus_sym. rewrite Rabs_pos_eq by exact Hr0.
    apply Rle_trans with (INR n * (x ^ 4 / 24)).
    + apply Rmult_le_compat_l; [lra | exact Hr1].
    + right. unfold x, dz. field. exact Hn0.
Qed.

(* ------------------------------------------------------------------ *)

Definition prodE3 (lam : R) (dzs : list R) : R :=
  fold_right (fun d acc => E3 (- (lam * d)) * acc) 1 dzs.

Lemma prodE3_unit :
  forall lam (dzs : list R), 0 <= lam ->
    (forall d, In d dzs -> 0 <= d /\ lam * d <= 1) ->
    0 <= fold_right (fun d acc => E3 (- (lam * d)) * acc) 1 dzs <= 1.
Proof.
  intros lam dzs Hlam. induction dzs as [| d dzs IH]; intros Hall; simpl.
  - lra.
  - destruct (Hall d (or_introl eq_refl)) as [Hd0 Hd1].
    assert (Hx : 0 <= lam * d <= 1) by (split; [apply Rmult_le_pos |]; assumption).
    destruct (E3_bounds _ Hx) as [[HE0 HE1] _].
    destruct IH as [IH0 IH1].
    { intros d' Hin. apply Hall. right. exact Hin. }
    split; [apply Rmult_le_pos; assumption | nra].
Qed.

Theorem product_third_order :
  forall lam (dzs : list R), 0 <= lam ->
    (forall d, In d dzs -> 0 <= d /\ lam * d <= 1) ->
    Rabs (fold_right (fun d acc => E3 (- (lam * d)) * acc) 1 dzs
          - exp (- (lam * fold_right Rplus 0 dzs)))
      <= fold_right (fun d acc => (lam * d) ^ 4 / 24 + acc) 0 dzs.
Proof.
  intros lam dzs Hlam. induction dzs as [| d dzs IH]; intros Hall.
  - simpl. rewrite Rmult_0_r, Ropp_0, exp_0.
    rewrite Rminus_diag_eq by reflexivity. rewrite Rabs_R0. lra.
  - assert (Hall' : forall d', In d' dzs -> 0 <= d' /\ lam * d' <= 1).
    { intros d' Hin. apply Hall. right. exact Hin. }
    specialize (IH Hall').
    destruct (Hall d (or_introl eq_refl)) as [Hd0 Hd1].
    assert (Hx : 0 <= lam * d <= 1) by (split; [apply Rmult_le_pos |]; assumption).
    destruct (E3_bounds _ Hx) as [_ [Hexp0 Hexp1]].
    destruct (E3_remainder _ Hx) as [Hr0 Hr1].
    pose proof (prodE3_unit lam dzs Hlam Hall') as HP.
    cbn [fold_right].
    replace (exp (- (lam * (d + fold_right Rplus 0 dzs))))
      with (exp (- (lam * d)) * exp (- (lam * fold_right Rplus 0 dzs))).
    2:{ rewrite <- exp_plus. f_equal. ring. }
    eapply Rle_trans.
    + apply mult_diff_le; [exact HP | lra].
    + apply Rplus_le_compat; [ | exact IH].
      rewrite Rabs_minus_sym. rewrite Rabs_pos_eq by exact Hr0. exact Hr1.
Qed.

Theorem product_third_order_max :
  forall lam (dzs : list R), 0 <= lam ->
    (forall d, In d dzs -> 0 <= d /\ lam * d <= 1) ->
    forall dmax, (forall d, In d dzs -> d <= dmax) -> 0 <= dmax ->
    Rabs (fold_right (fun d acc => E3 (- (lam * d)) * acc) 1 dzs
          - exp (- (lam * fold_right Rplus 0 dzs)))
      <= lam ^ 4 / 24 * (fold_right Rplus 0 dzs) * dmax ^ 3.
Proof.
  intros lam dzs Hlam Hall dmax Hmax Hdmax.
  eapply Rle_trans; [apply product_third_order; assumption | ].
  clear Hlam.
  induction dzs as [| d dzs IH].
  - simpl. lra.
  - cbn [fold_right].
    assert (IH' : fold_right (fun d acc => (lam * d) ^ 4 / 24 + acc) 0 dzs
                  <= lam ^ 4 / 24 * fold_right Rplus 0 dzs * dmax ^ 3).
    { apply IH.
      - intros d' Hin. apply Hall. right. exact Hin.
      - intros d' Hin. apply Hmax. right. exact Hin. }
    destruct (Hall d (or_introl eq_refl)) as [Hd0 _].
    pose proof (Hmax d (or_introl eq_refl)) as Hdm.
    assert (Hcube : d ^ 3 <= dmax ^ 3) by (apply pow_incr; split; assumption).
    assert (Hl4 : 0 <= lam ^ 4 / 24 * d).
    { apply Rmult_le_pos; [ | exact Hd0].
      assert (0 <= lam ^ 4) by (replace (lam ^ 4) with ((lam * lam) * (lam * lam)) by ring;
                                apply Rle_0_sqr).
      lra. }
    assert (Hterm : (lam * d) ^ 4 / 24 <= lam ^ 4 / 24 * d * dmax ^ 3).
    { replace ((lam * d) ^ 4 / 24) with (lam ^ 4 / 24 * d * d ^ 3) by field.
      apply Rmult_le_compat_l; assumption. }
    replace (lam ^ 4 / 24 * (d + fold_right Rplus 0 dzs) * dmax ^ 3)
      with (lam ^ 4 / 24 * d * dmax ^ 3
            + lam ^ 4 / 24 * fold_right Rplus 0 dzs * dmax ^ 3) by ring.
    lra.
Qed.

(* ------------------------------------------------------------------ *)

Lemma bound_ratio :
  forall lam H n, 0 < lam -> 0 < H -> (0 < n)%nat ->
    (lam ^ 4 * H / 24) * (H / INR n) ^ 3
      = 8 * ((lam ^ 4 * H / 24) * (H / INR (2 * n)) ^ 3).
Proof.
  intros lam H n _ _ Hn.
  assert (Hn0 : INR n <> 0) by (apply not_0_INR; lia).
  rewrite mult_INR. simpl INR.
  field. exact Hn0.
Qed.

Print Assumptions E3_remainder.
Print Assumptions E3_bounds.
Print Assumptions pow_diff_le.
Print Assumptions uniform_third_order.
Print Assumptions product_third_order.
Print Assumptions product_third_order_max.
Print Assumptions bound_ratio.
