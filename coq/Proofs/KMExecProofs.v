(* The rational executable predicates of Model/KMExec.v agree with the real-number model of Model/KM.v. *)
From Coq Require Import Reals Lra QArith Qreals Qround ZArith Bool List.
From BL Require Import Model.KM Model.KMExec.

Lemma Qltb_R a b : Qltb a b = if Rlt_dec (Q2R a) (Q2R b) then true else false.
Proof.
  unfold Qltb. destruct (Qlt_le_dec a b) as [H|H]; destruct (Rlt_dec (Q2R a) (Q2R b)) as [H'|H']; try reflexivity.
  - exfalso. apply H'. apply Qlt_Rlt. exact H.
  - exfalso. apply Qle_Rle in H. lra.
Qed.
Lemma Qleb_R a b : Qleb a b = if Rle_dec (Q2R a) (Q2R b) then true else false.
Proof.
  unfold Qleb. destruct (Qlt_le_dec b a) as [H|H]; destruct (Rle_dec (Q2R a) (Q2R b)) as [H'|H']; try reflexivity.
  - exfalso. apply Qlt_Rlt in H. lra.
  - exfalso. apply H'. apply Qle_Rle. exact H.
Qed.

Lemma Q2R_lit (z : Z) : Q2R (inject_Z z) = IZR z.
Proof. unfold Q2R, inject_Z; simpl. field. Qed.

Lemma wrappedQ_R kk wd : Q2R (wrappedQ kk wd) = wrapped (Q2R kk) (Q2R wd).
Proof.
  unfold wrappedQ, wrapped. rewrite !Qltb_R.
  change (Q2R 90) with (Q2R (inject_Z 90)). change (Q2R 270) with (Q2R (inject_Z 270)). rewrite !Q2R_lit.
  destruct (Rlt_dec (Q2R kk) 90).
  - destruct (Rlt_dec 270 (Q2R wd)); [|reflexivity].
    rewrite Q2R_minus. change (Q2R 360) with (Q2R (inject_Z 360)). rewrite Q2R_lit. reflexivity.
  - destruct (Rlt_dec 270 (Q2R kk)); [|reflexivity].
    destruct (Rlt_dec (Q2R wd) 90); [|reflexivity].
    rewrite Q2R_plus. change (Q2R 360) with (Q2R (inject_Z 360)). rewrite Q2R_lit. reflexivity.
Qed.

Lemma in_binQ_R kk wd : in_binQ kk wd = in_bin (Q2R kk) (Q2R wd).
Proof.
  unfold in_binQ, in_bin. rewrite Qleb_R, Qltb_R, Q2R_plus.
  change (Q2R 1) with (Q2R (inject_Z 1)). rewrite Q2R_lit.
  destruct (Rle_dec (Q2R kk) (Q2R wd)); destruct (Rlt_dec (Q2R wd) (Q2R kk + 1)); reflexivity.
Qed.

Lemma in_windowQ_R kk w wd : in_windowQ kk w wd = in_window (Q2R kk) (Q2R w) (Q2R wd).
Proof.
  unfold in_windowQ, in_window. rewrite Qleb_R, Qltb_R, wrappedQ_R, Q2R_minus, !Q2R_plus.
  change (Q2R 1) with (Q2R (inject_Z 1)). rewrite Q2R_lit.
  destruct (Rle_dec (Q2R kk - Q2R w) (wrapped (Q2R kk) (Q2R wd)));
    destruct (Rlt_dec (wrapped (Q2R kk) (Q2R wd)) (Q2R kk + 1 + Q2R w)); reflexivity.
Qed.

(* the bin index the executable uses is the model's Int_part *)
Lemma Qfloor_Int_part q : Qfloor q = Int_part (Q2R q).
Proof.
  symmetry. unfold Int_part.
  assert ((Qfloor q + 1)%Z = up (Q2R q)) as <-.
  { apply up_tech.
    - rewrite <- Q2R_lit. apply Qle_Rle. apply Qfloor_le.
    - rewrite <- Q2R_lit. apply Qlt_Rlt. apply Qlt_floor. }
  ring.
Qed.

Lemma grid_xcQ_R xmin res (j : nat) : Q2R (grid_xcQ xmin res (Z.of_nat j)) = grid_xc (Q2R xmin) (Q2R res) j.
Proof.
  unfold grid_xcQ, grid_xc. rewrite Q2R_plus, Q2R_mult, Q2R_plus, Q2R_lit, <- INR_IZR_INZ.
  replace (Q2R (1 # 2)) with (1 / 2)%R by (unfold Q2R; simpl; field). reflexivity.
Qed.
Lemma grid_ycQ_R ymax res (i : nat) : Q2R (grid_ycQ ymax res (Z.of_nat i)) = grid_yc (Q2R ymax) (Q2R res) i.
Proof.
  unfold grid_ycQ, grid_yc. rewrite Q2R_minus, Q2R_mult, Q2R_plus, Q2R_lit, <- INR_IZR_INZ.
  replace (Q2R (1 # 2)) with (1 / 2)%R by (unfold Q2R; simpl; field). reflexivity.
Qed.
