(* Lemmas about Model/Geo.v (C17): inverses, origin, orientation, configuration step. *)
From Coq Require Import Reals Lra List.
From BL Require Import Model.Geo.
Import ListNotations.
Open Scope R_scope.

Lemma earth_radius_pos : 0 < earth_radius.
Proof. unfold earth_radius. lra. Qed.

Lemma radians_lin : forall a, radians a = a * (PI / 180).
Proof. intros a. unfold radians. field. Qed.
Lemma k180_pos : 0 < PI / 180.
Proof. pose proof PI_RGT_0. lra. Qed.
Lemma radians_lt : forall a b, a < b -> radians a < radians b.
Proof. intros a b H. rewrite !radians_lin. apply Rmult_lt_compat_r; [apply k180_pos | exact H]. Qed.
Lemma radians_le : forall a b, a <= b -> radians a <= radians b.
Proof. intros a b H. rewrite !radians_lin. apply Rmult_le_compat_r; [apply Rlt_le, k180_pos | exact H]. Qed.
Lemma radians_90 : radians 90 = PI / 2.
Proof. unfold radians. field. Qed.
Lemma radians_60 : radians 60 = PI / 3.
Proof. unfold radians. field. Qed.
Lemma radians_0 : radians 0 = 0.
Proof. unfold radians. field. Qed.
Lemma radians_opp : forall a, radians (- a) = - radians a.
Proof. intros a. unfold radians. field. Qed.
Lemma radians_minus : forall a b, radians a - radians b = radians (a - b).
Proof. intros a b. unfold radians. field. Qed.

Lemma cos_ref_pos : forall ref_lat, -90 < ref_lat < 90 -> 0 < cos (radians ref_lat).
Proof.
  intros r [H1 H2]. apply cos_gt_0.
  - rewrite <- radians_90, <- radians_opp. apply radians_lt. lra.
  - rewrite <- radians_90. apply radians_lt. exact H2.
Qed.

Lemma cos_ref_half : forall ref_lat, -60 <= ref_lat <= 60 -> / 2 <= cos (radians ref_lat).
Proof.
  intros r [H1 H2]. pose proof PI_RGT_0 as HP.
  assert (Hc : cos (PI / 3) = / 2) by (rewrite cos_PI3; lra).
  rewrite <- Hc.
  destruct (Rle_or_lt 0 r) as [Hp | Hn].
  - pose proof (radians_le _ _ Hp) as A. rewrite radians_0 in A.
    pose proof (radians_le _ _ H2) as B. rewrite radians_60 in B.
    apply cos_decr_1; lra.
  - rewrite <- (cos_neg (radians r)), <- radians_opp.
    assert (Hp : 0 <= - r) by lra. assert (H3 : - r <= 60) by lra.
    pose proof (radians_le _ _ Hp) as A. rewrite radians_0 in A.
    pose proof (radians_le _ _ H3) as B. rewrite radians_60 in B.
    apply cos_decr_1; lra.
Qed.

(* --- mutual inverses ---------------------------------------------------------------------- *)
Lemma inverse_lr : forall lat lon ref_lat ref_lon : R,
  cos (radians ref_lat) <> 0 ->
  let p := latlon_to_xy lat lon ref_lat ref_lon in
  xy_to_latlon (fst p) (snd p) ref_lat ref_lon = (lat, lon).
Proof.
  intros lat lon rlat rlon Hc. unfold latlon_to_xy, xy_to_latlon. cbn [fst snd].
  set (c := cos (radians rlat)) in *. unfold degrees, radians, earth_radius.
  pose proof PI_neq0 as HP.
  f_equal; field; first [exact HP | exact Hc | exact (conj Hc HP) | exact (conj HP Hc)].
Qed.

Lemma inverse_rl : forall x y ref_lat ref_lon : R,
  cos (radians ref_lat) <> 0 ->
  let q := xy_to_latlon x y ref_lat ref_lon in
  latlon_to_xy (fst q) (snd q) ref_lat ref_lon = (x, y).
Proof.
  intros x y rlat rlon Hc. unfold latlon_to_xy, xy_to_latlon. cbn [fst snd].
  set (c := cos (radians rlat)) in *. unfold degrees, radians, earth_radius.
  pose proof PI_neq0 as HP.
  f_equal; field; first [exact HP | exact Hc | exact (conj Hc HP) | exact (conj HP Hc)].
Qed.

Lemma inverse_lr_lat : forall lat lon ref_lat ref_lon : R,
  -90 < ref_lat < 90 ->
  let p := latlon_to_xy lat lon ref_lat ref_lon in
  xy_to_latlon (fst p) (snd p) ref_lat ref_lon = (lat, lon).
Proof. intros lat lon rlat rlon H. apply inverse_lr. apply Rgt_not_eq, cos_ref_pos, H. Qed.

Lemma inverse_rl_lat : forall x y ref_lat ref_lon : R,
  -90 < ref_lat < 90 ->
  let q := xy_to_latlon x y ref_lat ref_lon in
  latlon_to_xy (fst q) (snd q) ref_lat ref_lon = (x, y).
Proof. intros x y rlat rlon H. apply inverse_rl. apply Rgt_not_eq, cos_ref_pos, H. Qed.

(* --- origin ------------------------------------------------------------------------------- *)
Lemma origin : forall ref_lat ref_lon : R,
  latlon_to_xy ref_lat ref_lon ref_lat ref_lon = (0, 0) /\
  xy_to_latlon 0 0 ref_lat ref_lon = (ref_lat, ref_lon).
Proof.
  intros rlat rlon. unfold latlon_to_xy, xy_to_latlon, degrees. split; f_equal.
  - ring.
  - ring.
  - unfold Rdiv. rewrite !Rmult_0_l. ring.
  - unfold Rdiv. rewrite !Rmult_0_l. ring.
Qed.

(* --- orientation -------------------------------------------------------------------------- *)
Lemma x_explicit : forall lat lon rlat rlon,
  fst (latlon_to_xy lat lon rlat rlon) = earth_radius * PI / 180 * cos (radians rlat) * (lon - rlon).
Proof. intros. unfold latlon_to_xy, radians. cbn [fst]. field. Qed.

Lemma y_explicit : forall lat lon rlat rlon,
  snd (latlon_to_xy lat lon rlat rlon) = earth_radius * PI / 180 * (lat - rlat).
Proof. intros. unfold latlon_to_xy, radians. cbn [snd]. field. Qed.

Lemma orientation : forall ref_lat ref_lon : R, -90 < ref_lat < 90 ->
  (* x strictly increasing in lon, whatever the latitudes *)
  (forall lat1 lat2 lon1 lon2, lon1 < lon2 ->
     fst (latlon_to_xy lat1 lon1 ref_lat ref_lon) < fst (latlon_to_xy lat2 lon2 ref_lat ref_lon)) /\
  (* x independent of lat *)
  (forall lat1 lat2 lon,
     fst (latlon_to_xy lat1 lon ref_lat ref_lon) = fst (latlon_to_xy lat2 lon ref_lat ref_lon)) /\
  (* y strictly increasing in lat, whatever the longitudes *)
  (forall lat1 lat2 lon1 lon2, lat1 < lat2 ->
     snd (latlon_to_xy lat1 lon1 ref_lat ref_lon) < snd (latlon_to_xy lat2 lon2 ref_lat ref_lon)) /\
  (* y independent of lon *)
  (forall lat lon1 lon2,
     snd (latlon_to_xy lat lon1 ref_lat ref_lon) = snd (latlon_to_xy lat lon2 ref_lat ref_lon)) /\
  (* signs relative to the origin: east of the reference <-> x > 0, north <-> y > 0 *)
  (forall lat lon, (ref_lon < lon <-> 0 < fst (latlon_to_xy lat lon ref_lat ref_lon)) /\
                   (ref_lat < lat <-> 0 < snd (latlon_to_xy lat lon ref_lat ref_lon))).
Proof.
  intros rlat rlon Hr.
  pose proof (cos_ref_pos rlat Hr) as Hc. pose proof PI_RGT_0 as HP. pose proof earth_radius_pos as HR.
  assert (Hk : 0 < earth_radius * PI / 180).
  { apply Rdiv_lt_0_compat; [apply Rmult_lt_0_compat; assumption | lra]. }
  assert (Hkc : 0 < earth_radius * PI / 180 * cos (radians rlat)) by (apply Rmult_lt_0_compat; assumption).
  split; [| split; [| split; [| split]]].
  - intros lat1 lat2 lon1 lon2 Hl. rewrite !x_explicit. apply Rmult_lt_compat_l; [exact Hkc | lra].
  - intros lat1 lat2 lon. rewrite !x_explicit. reflexivity.
  - intros lat1 lat2 lon1 lon2 Hl. rewrite !y_explicit. apply Rmult_lt_compat_l; [exact Hk | lra].
  - intros lat lon1 lon2. rewrite !y_explicit. reflexivity.
  - intros lat lon. rewrite x_explicit, y_explicit. split; split; intros H.
    + apply Rmult_lt_0_compat; [exact Hkc | lra].
    + destruct (Rle_or_lt lon rlon) as [Hle | Hlt]; [| exact Hlt]. exfalso.
      assert (earth_radius * PI / 180 * cos (radians rlat) * (lon - rlon) <= 0); [| lra].
      rewrite <- (Rmult_0_r (earth_radius * PI / 180 * cos (radians rlat))).
      apply Rmult_le_compat_l; lra.
    + apply Rmult_lt_0_compat; [exact Hk | lra].
    + destruct (Rle_or_lt lat rlat) as [Hle | Hlt]; [| exact Hlt]. exfalso.
      assert (earth_radius * PI / 180 * (lat - rlat) <= 0); [| lra].
      rewrite <- (Rmult_0_r (earth_radius * PI / 180)).
      apply Rmult_le_compat_l; lra.
Qed.

(* --- configuration step ------------------------------------------------------------------- *)
Lemma config_fills : forall (ref_lat ref_lon : option R) (towers : list tower),
  length (post_init ref_lat ref_lon towers) = length towers /\
  (forall a b, ref_lat = Some a -> ref_lon = Some b ->
     forall i t, nth_error towers i = Some t ->
       exists t', nth_error (post_init ref_lat ref_lon towers) i = Some t' /\
         t_lat t' = t_lat t /\ t_lon t' = t_lon t /\
         (t_x t', t_y t') = latlon_to_xy (t_lat t) (t_lon t) a b) /\
  (ref_lat = None \/ ref_lon = None -> post_init ref_lat ref_lon towers = towers).
Proof.
  intros rlat rlon towers. split; [| split].
  - unfold post_init. destruct rlat, rlon; try reflexivity. apply map_length.
  - intros a b -> -> i t Hn. unfold post_init.
    exists (compute_local_xy t a b). split.
    + rewrite nth_error_map, Hn. reflexivity.
    + unfold compute_local_xy. cbn [t_lat t_lon t_x t_y].
      split; [reflexivity | split; [reflexivity |]].
      unfold latlon_to_xy. reflexivity.
  - intros [-> | ->]; unfold post_init; [reflexivity | destruct rlat; reflexivity].
Qed.

Lemma parsed_default_origin : forall lat lon ref_lat ref_lon,
  ref_lat = None \/ ref_lon = None ->
  forall t, In t (post_init ref_lat ref_lon [parse_tower lat lon]) -> t_x t = 0 /\ t_y t = 0.
Proof.
  intros lat lon rlat rlon H t Hin.
  destruct (config_fills rlat rlon [parse_tower lat lon]) as (_ & _ & Hu).
  rewrite (Hu H) in Hin. destruct Hin as [<- | []]. split; reflexivity.
Qed.
