(* C05 / C01: per-mode structure of the scheme.
   - consistency of the layer step with the ODE system p' = -q/Kz, q' = T p  (C01)
   - the shooting combination solves the discrete two-point problem exactly and uniquely (C01)
   - decaying continuation above the top node (C01)
   - for height-independent coefficients the numerical solution is the closed form
     Q_k = qh * prod_{j<k} E3(-lam dz_j), P_k = Q_k/(Kz lam) (C05), the discrete counterpart of the
     analytic branch Q = qh * exp(-lam h), P = Q/(Kz lam). *)
From Coq Require Import ZArith List Field Ring Lia Bool Arith.
From BL Require Import Base.Ops Base.Laws Model.Solver Proofs.Sums Proofs.StepProofs Proofs.ModeProofs Proofs.SpecProofs.
Import ListNotations.
Set Default Proof Using "All".

Section C05.
Variable O : Ops.
Hypothesis L : Laws O.
Notation C := (C O).
Notation "0" := (c0 O) : ops_scope. Notation "1" := (c1 O) : ops_scope.
Infix "+" := (cadd O) : ops_scope. Infix "*" := (cmul O) : ops_scope.
Infix "-" := (csub O) : ops_scope. Infix "/" := (cdiv O) : ops_scope.
Notation "- x" := (copp O x) : ops_scope.
Local Open Scope ops_scope.
Add Field OFc5 : (L_field O L).
Notation layer := (layer O).

(* ---------------------------------------------------------------- C01: symbol, consistency *)

(* T is the symbol of Kx dxx + Ky dyy - u dx - v dy on the plane wave exp(i(lx x + ly y)):
   d/dx acts as multiplication by i*lx, d/dy by i*ly, all coefficients taken at the same node *)
Lemma symbol Kx Ky u v lx ly :
  Tsym O Kx Ky u v lx ly
  = Kx * ((ci O * lx) * (ci O * lx)) + Ky * ((ci O * ly) * (ci O * ly)) - u * (ci O * lx) - v * (ci O * ly).
Proof.
  unfold Tsym.
  replace ((ci O * lx) * (ci O * lx)) with ((ci O * ci O) * (lx * lx)) by ring.
  replace ((ci O * ly) * (ci O * ly)) with ((ci O * ci O) * (ly * ly)) by ring.
  rewrite (L_i2 O L). ring.
Qed.

(* step = I + dz*M + dz^2*R with M = [[0, -1/Kz], [T, 0]]: first-order consistency of every
   layer update with the ODE system at the layer's lower node *)
Lemma consistency lx ly (Lr : layer) p q :
  l_Kz O Lr <> 0 ->
  let T := Tsym O (l_Kx O Lr) (l_Ky O Lr) (l_u O Lr) (l_v O Lr) lx ly in
  let Kz := l_Kz O Lr in let dz := l_dz O Lr in
  step O lx ly Lr (p, q) =
  (p + dz * (- (q / Kz)) + dz * dz * (- (half O * T / Kz * p) + sixth O * T / (Kz * Kz) * dz * q),
   q + dz * (T * p) + dz * dz * (- (half O * T / Kz * q) - sixth O * (T * T) / Kz * dz * p)).
Proof.
  intros HK. cbv zeta. unfold step, coef_a, coef_b, coef_c, coef_d. cbn [fst snd].
  f_equal; field; exact HK.
Qed.

(* ---------------------------------------------------------------- C01: the discrete BVP *)

(* the mode solution returned by the numerical branch: trajectory started at (alpha, qh) *)
Theorem bvp_exact lx ly (layers : list layer) KzN eig qh :
  let y1 := final O lx ly layers (1, 0) in
  let y2 := final O lx ly layers (0, qh) in
  snd y1 - KzN * eig * fst y1 <> 0 ->
  let al := alpha O KzN eig (fst y1) (snd y1) (fst y2) (snd y2) in
  let sol := fun k => shoot_traj O lx ly layers al qh k in
  (* it is a trajectory of the layer recurrence ... *)
  (forall k Ld, (k < length layers)%nat -> sol (S k) = step O lx ly (nth k layers Ld) (sol k)) /\
  (* ... with the prescribed surface flux below ... *)
  snd (sol 0%nat) = qh /\
  (* ... and the radiation condition q = Kz*eig*p at the top node; *)
  snd (sol (length layers)) = KzN * eig * fst (sol (length layers)) /\
  (* and it is the only one: any trajectory with these two properties starts with p0 = alpha *)
  (forall p0, snd (final O lx ly layers (p0, qh)) = KzN * eig * fst (final O lx ly layers (p0, qh)) -> p0 = al).
Proof.
  cbv zeta. intros Hden. repeat split.
  - intros k Ld Hk. rewrite !(shoot_is_traj O L). apply (traj_step O L). exact Hk.
  - rewrite (shoot_is_traj O L), (traj_0 O L). reflexivity.
  - rewrite (shoot_is_traj O L), (traj_last O L). apply (shoot_top_bc O L). exact Hden.
  - intros p0 H. apply (shoot_unique O L lx ly layers KzN eig qh p0 Hden H).
Qed.

(* ---------------------------------------------------------------- C01: decaying continuation *)

(* eigval^2 = -T_N/Kz_N, and (1, Kz*eig) is an eigenvector of M_N = [[0,-1/Kz],[T,0]] with
   eigenvalue -eig: above the top node the solution continues as exp(-eig (z - z_N)) (1, Kz eig) *)
Theorem top_decay Kx Ky u v Kz lx ly :
  Kz <> 0 ->
  let lam := eigval O Kx Ky u v Kz lx ly in
  let T := Tsym O Kx Ky u v lx ly in
  lam * lam = - (T / Kz) /\
  (0 * 1 + (- (1 / Kz)) * (Kz * lam) = (- lam) * 1 /\ T * 1 + 0 * (Kz * lam) = (- lam) * (Kz * lam)).
Proof.
  intros HK. cbv zeta. unfold eigval.
  assert (E : csqrt O (eig_radicand O Kx Ky u v Kz lx ly) * csqrt O (eig_radicand O Kx Ky u v Kz lx ly)
              = - (Tsym O Kx Ky u v lx ly / Kz)).
  { rewrite (L_sqrt O L). unfold eig_radicand, Tsym. field. exact HK. }
  split; [exact E|]. split; [field; exact HK|].
  transitivity (- (Kz * (csqrt O (eig_radicand O Kx Ky u v Kz lx ly) * csqrt O (eig_radicand O Kx Ky u v Kz lx ly)))); [|ring].
  rewrite E. field. exact HK.
Qed.

(* ---------------------------------------------------------------- C05: constant coefficients *)

Definition const_layers (Kx Ky u v Kz : C) (dzs : list C) : list layer :=
  map (fun dz => mkLayer O Kx Ky u v Kz dz) dzs.

Fixpoint prodE3 (lam : C) (dzs : list C) (k : nat) : C :=
  match k, dzs with
  | S k', dz :: dzs' => E3 O (- (lam * dz)) * prodE3 lam dzs' k'
  | _, _ => 1
  end.

(* one step on the decaying eigenvector *)
Lemma step_decay Kx Ky u v Kz dz lx ly lam p0 :
  Kz <> 0 -> lam * lam = - (Tsym O Kx Ky u v lx ly / Kz) ->
  step O lx ly (mkLayer O Kx Ky u v Kz dz) (p0, Kz * lam * p0)
  = (E3 O (- (lam * dz)) * p0, Kz * lam * (E3 O (- (lam * dz)) * p0)).
Proof.
  intros HK Hl. unfold step. cbn [l_Kx l_Ky l_u l_v l_Kz l_dz fst snd].
  destruct (step_eigen_minus O L Kz (Tsym O Kx Ky u v lx ly) dz lam HK Hl) as [Ea Ec]. cbv zeta in Ea, Ec.
  f_equal.
  - transitivity ((coef_a O (1 / Kz) (Tsym O Kx Ky u v lx ly) dz + coef_b O (1 / Kz) (Tsym O Kx Ky u v lx ly) dz * (Kz * lam)) * p0); [ring|].
    rewrite Ea. reflexivity.
  - transitivity ((coef_c O (1 / Kz) (Tsym O Kx Ky u v lx ly) dz + coef_d O (1 / Kz) (Tsym O Kx Ky u v lx ly) dz * (Kz * lam)) * p0); [ring|].
    rewrite Ec. ring.
Qed.

Lemma traj_const Kx Ky u v Kz lx ly lam :
  Kz <> 0 -> lam * lam = - (Tsym O Kx Ky u v lx ly / Kz) ->
  forall dzs p0 k, (k <= length dzs)%nat ->
  nth k (traj O lx ly (const_layers Kx Ky u v Kz dzs) (p0, Kz * lam * p0)) (0, 0)
  = (prodE3 lam dzs k * p0, Kz * lam * (prodE3 lam dzs k * p0)).
Proof.
  intros HK Hl. induction dzs as [|dz dzs IH]; intros p0 k Hk.
  - cbn [length] in Hk. replace k with 0%nat by lia. cbn. f_equal; ring.
  - destruct k as [|k]; [cbn; f_equal; ring|].
    cbn [const_layers map traj nth prodE3]. fold (const_layers Kx Ky u v Kz dzs).
    rewrite (step_decay Kx Ky u v Kz dz lx ly lam p0 HK Hl).
    rewrite IH by (cbn [length] in Hk; lia). f_equal; ring.
Qed.

Lemma final_const Kx Ky u v Kz lx ly lam dzs p0 :
  Kz <> 0 -> lam * lam = - (Tsym O Kx Ky u v lx ly / Kz) ->
  final O lx ly (const_layers Kx Ky u v Kz dzs) (p0, Kz * lam * p0)
  = (prodE3 lam dzs (length dzs) * p0, Kz * lam * (prodE3 lam dzs (length dzs) * p0)).
Proof.
  intros HK Hl. rewrite <- (traj_last O L _ _ _ _ (0, 0)).
  unfold const_layers at 1. rewrite map_length. fold (const_layers Kx Ky u v Kz dzs).
  apply traj_const; try assumption. lia.
Qed.

(* C05: with height-independent coefficients the numerical mode solution is the closed form *)
Theorem numeric_closed_form Kx Ky u v Kz lx ly dzs qh :
  let lam := eigval O Kx Ky u v Kz lx ly in
  let layers := const_layers Kx Ky u v Kz dzs in
  let y1 := final O lx ly layers (1, 0) in
  let y2 := final O lx ly layers (0, qh) in
  Kz <> 0 -> lam <> 0 ->
  snd y1 - Kz * lam * fst y1 <> 0 ->
  let al := alpha O Kz lam (fst y1) (snd y1) (fst y2) (snd y2) in
  al = qh / (Kz * lam) /\
  forall k, (k <= length dzs)%nat ->
    shoot_traj O lx ly layers al qh k
    = (qh * prodE3 lam dzs k / (Kz * lam), qh * prodE3 lam dzs k).
Proof.
  cbv zeta. intros HK Hlam Hden.
  destruct (top_decay Kx Ky u v Kz lx ly HK) as [Hl _]. cbv zeta in Hl.
  set (lam := eigval O Kx Ky u v Kz lx ly) in *.
  assert (HKl : Kz * lam <> 0) by (apply (mul_nz O L); assumption).
  set (p0 := qh / (Kz * lam)).
  assert (Hq : qh = Kz * lam * p0) by (subst p0; field; split; assumption).
  assert (Hal : p0 = alpha O Kz lam
       (fst (final O lx ly (const_layers Kx Ky u v Kz dzs) (1, 0))) (snd (final O lx ly (const_layers Kx Ky u v Kz dzs) (1, 0)))
       (fst (final O lx ly (const_layers Kx Ky u v Kz dzs) (0, qh))) (snd (final O lx ly (const_layers Kx Ky u v Kz dzs) (0, qh)))).
  { apply (shoot_unique O L lx ly _ Kz lam qh p0 Hden).
    replace (p0, qh) with (p0, Kz * lam * p0) by (rewrite <- Hq; reflexivity).
    rewrite (final_const Kx Ky u v Kz lx ly lam dzs _ HK Hl). cbn [fst snd]. ring. }
  split; [symmetry; exact Hal|].
  intros k Hk. rewrite <- Hal, (shoot_is_traj O L).
  replace (p0, qh) with (p0, Kz * lam * p0) by (rewrite <- Hq; reflexivity).
  rewrite (traj_const Kx Ky u v Kz lx ly lam HK Hl dzs _ k Hk).
  subst p0. f_equal; field; split; assumption.
Qed.

(* the analytic branch propagates exactly on the same eigenvector: Q(h+d) = exp(-lam d) Q(h) *)
Lemma analytic_propagation lam qh h d :
  qh * cexp O (- lam * (h + d)) = cexp O (- lam * d) * (qh * cexp O (- lam * h)).
Proof.
  replace (- lam * (h + d)) with (- lam * d + - lam * h) by ring.
  rewrite (L_exp_add O L). ring.
Qed.

End C05.
