(* The vertical resistance accumulated by the solver's trapezoidal rule versus the integral of dz/Kz.

   The mean (kx = ky = 0) mode of the concentration is  p000 - q00 * R_m  with
   R_m = ModeProofs.resistance dzs Kzs m  (Proofs/ModeProofs.v, Properties/C03.v).  This file links
   R_m to the integral of 1/Kz over [z_0, z_m] (Coquelicot's RInt):

     resistance_ROps                    over the complex instance ROps, for real data, the model's
                                        resistance is the real trapezoid sum Rresistance (no side
                                        condition: Cinv (RtoC 0) = RtoC (/ 0) since / 0 = 0)
     trapezoid_exact_piecewise_linear   Rresistance = RInt f z_0 z_m when f(z_i) = 1/Kz_i and f is
                                        affine on every layer
     trapezoid_error_bound              |Rresistance - RInt (1/Kz) z_0 z_m| <= M2/12 (z_m - z_0) dmax^2
                                        for 1/Kz twice differentiable with |(1/Kz)''| <= M2 and layer
                                        thicknesses in [0, dmax]  (the classical constant 1/12)
     trapezoid_uniform_bound, trapezoid_converges
                                        n equal layers of [a,b]: error <= M2/12 (b-a)^3 / n^2, hence
                                        convergence to the integral
     resistance_model_vs_integral, mean_conc_vs_integral
                                        the same bound stated on the model's own expressions
     neutral_resistance_bound           Kz = k z (neutral surface layer): distance to ln(z_m/z_0)/k
     example_one_plus_z, example_one_plus_z_limit, example_piecewise
                                        the hypotheses are satisfiable

   One panel [a,b]: with chord the interpolant of f at a and b, the functions
   M2 (x-a)(b-x)/2 -/+ (f - chord) vanish at a and b and have non-positive second derivative, hence
   are non-negative on [a,b] (mean value theorem three times); integrating gives M2 (b-a)^3 / 12.
   Nothing is postulated; only the real-number foundations of the standard library are used
   (listed by the last commands of the file). *)
From Coq Require Import ZArith Reals List Lra Lia Field Ring.
From Coquelicot Require Import Coquelicot.
From BL Require Import Base.Ops Base.Laws Base.ROps Model.Solver Proofs.ModeProofs.
Import ListNotations.
Local Open Scope R_scope.

(* ------------------------------------------------------------------------------------------ *)
(* 1. the real mirror of the model's recursion and the bridge to the instance ROps               *)

Fixpoint Rresistance (dzs Kzs : list R) (m : nat) : R :=
  match m, dzs, Kzs with
  | S m', d :: dzs', K0 :: ((K1 :: _) as Kzs') =>
      d * (/ 2 / K0 + / 2 / K1) + Rresistance dzs' Kzs' m'
  | _, _, _ => 0
  end.

Fixpoint Rdiffs (z : list R) : list R :=
  match z with a :: ((b :: _) as r) => (b - a) :: Rdiffs r | _ => [] end.

Lemma Cinv_RtoC (k : R) : Cinv (RtoC k) = RtoC (/ k).
Proof.
  destruct (Req_dec k 0) as [->|Hk].
  - rewrite Rinv_0. unfold Cinv, RtoC. cbn [fst snd]. f_equal; unfold Rdiv; ring.
  - symmetry. apply RtoC_inv. exact Hk.
Qed.

Lemma half_ROps : half ROps = RtoC (/ 2).
Proof.
  unfold half, cofQ. cbn [ROps cdiv cofZ]. unfold Cdiv. rewrite Cinv_RtoC, <- RtoC_mult.
  f_equal. lra.
Qed.

Lemma panel_ROps (d k0 k1 : R) :
  cmul ROps (RtoC d) (cadd ROps (cdiv ROps (half ROps) (RtoC k0)) (cdiv ROps (half ROps) (RtoC k1)))
  = RtoC (d * (/ 2 / k0 + / 2 / k1)).
Proof.
  rewrite half_ROps. cbn [ROps cmul cadd cdiv]. unfold Cdiv. rewrite !Cinv_RtoC.
  rewrite <- !RtoC_mult, <- RtoC_plus, <- RtoC_mult. reflexivity.
Qed.

Theorem resistance_ROps (dzs Kzs : list R) : forall m,
  resistance ROps (map RtoC dzs) (map RtoC Kzs) m = RtoC (Rresistance dzs Kzs m).
Proof.
  revert Kzs. induction dzs as [|d dzs IH]; intros Kzs m.
  - destruct m; reflexivity.
  - destruct m as [|m]; [reflexivity|].
    destruct Kzs as [|k0 [|k1 Kzs]]; [reflexivity|reflexivity|].
    specialize (IH (k1 :: Kzs) m).
    cbn [map resistance Rresistance] in *. rewrite IH, panel_ROps, <- RtoC_plus. reflexivity.
Qed.

Lemma diffs_ROps (zs : list R) : diffs ROps (map RtoC zs) = map RtoC (Rdiffs zs).
Proof.
  induction zs as [|a [|b r] IH]; [reflexivity|reflexivity|].
  cbn [map diffs Rdiffs] in *. rewrite IH. f_equal.
  cbn [ROps csub]. rewrite RtoC_minus. reflexivity.
Qed.

(* ------------------------------------------------------------------------------------------ *)
(* 2. one panel: mean value theorem, concavity, chord error, integrals                           *)

Lemma mvt_closed (g dg : R -> R) (a b : R) : a <= b ->
  (forall x, a <= x <= b -> is_derive g x (dg x)) ->
  exists c, a <= c <= b /\ g b - g a = dg c * (b - a).
Proof.
  intros Hab Hd.
  pose proof (MVT_gen g a b dg) as M. cbv zeta in M.
  rewrite Rmin_left, Rmax_right in M by lra.
  apply M.
  - intros x Hx. apply Hd. lra.
  - intros x Hx. apply continuity_pt_filterlim. apply (ex_derive_continuous g).
    exists (dg x). apply Hd. exact Hx.
Qed.

Lemma nonincr (g dg : R -> R) (a b : R) : a <= b ->
  (forall x, a <= x <= b -> is_derive g x (dg x)) ->
  (forall x, a <= x <= b -> dg x <= 0) -> g b <= g a.
Proof.
  intros Hab Hd Hs.
  destruct (mvt_closed g dg a b Hab Hd) as [c [Hc E]].
  specialize (Hs c Hc). nra.
Qed.

Lemma concave_nonneg (w w1 w2 : R -> R) (a b : R) :
  (forall x, a <= x <= b -> is_derive w x (w1 x)) ->
  (forall x, a <= x <= b -> is_derive w1 x (w2 x)) ->
  (forall x, a <= x <= b -> w2 x <= 0) ->
  w a = 0 -> w b = 0 -> forall x, a < x < b -> 0 <= w x.
Proof.
  intros D1 D2 Hs Ha Hb x Hx.
  destruct (mvt_closed w w1 a x) as [c1 [Hc1 E1]]; [lra| |].
  { intros y Hy. apply D1. lra. }
  destruct (mvt_closed w w1 x b) as [c2 [Hc2 E2]]; [lra| |].
  { intros y Hy. apply D1. lra. }
  assert (Hm : w1 c2 <= w1 c1).
  { apply (nonincr w1 w2 c1 c2); [lra| |].
    - intros y Hy. apply D2. lra.
    - intros y Hy. apply Hs. lra. }
  rewrite Ha in E1. rewrite Hb in E2.
  destruct (Rle_or_lt 0 (w x)) as [H|H]; [exact H|exfalso].
  assert (H1 : w1 c1 < 0) by nra.
  assert (H2 : 0 < w1 c2) by nra.
  lra.
Qed.

Lemma RInt_diff_le (g h q : R -> R) (a b : R) : a <= b ->
  ex_RInt g a b -> ex_RInt h a b -> ex_RInt q a b ->
  (forall x, a < x < b -> g x - h x <= q x) ->
  RInt g a b - RInt h a b <= RInt q a b.
Proof.
  intros Hab Ig Ih Iq Hle.
  pose proof (RInt_minus g h a b Ig Ih) as Em.
  change (minus (RInt g a b) (RInt h a b)) with (RInt g a b - RInt h a b) in Em.
  rewrite <- Em.
  apply RInt_le; [exact Hab| |exact Iq|].
  - apply (ex_RInt_minus g h); assumption.
  - intros x Hx. change (minus (g x) (h x)) with (g x - h x). apply Hle. exact Hx.
Qed.

Section Panel.
Variables (f f1 f2 : R -> R) (M2 a b : R).
Hypothesis Hab : a < b.
Hypothesis D1 : forall x, a <= x <= b -> is_derive f x (f1 x).
Hypothesis D2 : forall x, a <= x <= b -> is_derive f1 x (f2 x).
Hypothesis B2 : forall x, a <= x <= b -> Rabs (f2 x) <= M2.

Let s := (f b - f a) / (b - a).
Let chord (x : R) := f a + s * (x - a).
Let q (x : R) := M2 / 2 * ((x - a) * (b - x)).

Lemma chord_gap (sg : R) : sg = 1 \/ sg = -1 ->
  forall x, a < x < b -> 0 <= q x - sg * (f x - chord x).
Proof.
  intros Hsg.
  apply (concave_nonneg (fun x => q x - sg * (f x - chord x))
           (fun x => M2 / 2 * (a + b - 2 * x) - sg * (f1 x - s))
           (fun x => - M2 - sg * f2 x)).
  - intros x Hx. unfold q, chord.
    apply (is_derive_minus (fun x => M2 / 2 * ((x - a) * (b - x))) (fun x => sg * (f x - (f a + s * (x - a))))).
    + auto_derive; [exact I|]. ring.
    + apply (is_derive_scal (fun x => f x - (f a + s * (x - a)))).
      apply (is_derive_minus f (fun x => f a + s * (x - a))).
      * apply D1. exact Hx.
      * auto_derive; [exact I|]. ring.
  - intros x Hx.
    replace (- M2 - sg * f2 x) with (minus (- M2) (sg * (f2 x - 0))) by (unfold minus, plus, opp; simpl; ring).
    apply (is_derive_minus (fun x => M2 / 2 * (a + b - 2 * x)) (fun x => sg * (f1 x - s))).
    + auto_derive; [exact I|]. lra.
    + apply (is_derive_scal (fun x => f1 x - s)).
      apply (is_derive_minus f1 (fun _ => s)).
      * apply D2. exact Hx.
      * exact (@is_derive_const R_AbsRing (AbsRing_NormedModule R_AbsRing) s x).
  - intros x Hx. specialize (B2 x Hx). apply Rabs_le_between in B2.
    destruct Hsg as [-> | ->]; lra.
  - unfold q, chord. ring.
  - unfold q, chord, s. field. lra.
Qed.

Lemma f_integrable : ex_RInt f a b.
Proof.
  apply (ex_RInt_continuous f). rewrite Rmin_left, Rmax_right by lra.
  intros z Hz. apply (ex_derive_continuous f). exists (f1 z). apply D1. exact Hz.
Qed.

Lemma chord_RInt : is_RInt chord a b ((b - a) * (f a + f b) / 2).
Proof.
  replace ((b - a) * (f a + f b) / 2)
    with (minus ((fun x => f a * x + s * ((x - a) * (x - a)) / 2) b)
                ((fun x => f a * x + s * ((x - a) * (x - a)) / 2) a)).
  - apply (is_RInt_derive (fun x => f a * x + s * ((x - a) * (x - a)) / 2) chord).
    + intros x _. unfold chord. auto_derive; [exact I|]. field.
    + intros x _. unfold chord. apply (ex_derive_continuous (fun x => f a + s * (x - a))).
      auto_derive. exact I.
  - unfold minus, plus, opp; simpl. unfold s. field. lra.
Qed.

Lemma q_RInt : is_RInt q a b (M2 / 12 * (b - a) ^ 3).
Proof.
  replace (M2 / 12 * (b - a) ^ 3)
    with (minus ((fun x => M2 / 2 * (- (x * x * x) / 3 + (a + b) * (x * x) / 2 - a * b * x)) b)
                ((fun x => M2 / 2 * (- (x * x * x) / 3 + (a + b) * (x * x) / 2 - a * b * x)) a)).
  - apply (is_RInt_derive (fun x => M2 / 2 * (- (x * x * x) / 3 + (a + b) * (x * x) / 2 - a * b * x)) q).
    + intros x _. unfold q. auto_derive; [exact I|]. field.
    + intros x _. unfold q. apply (ex_derive_continuous (fun x => M2 / 2 * ((x - a) * (b - x)))).
      auto_derive. exact I.
  - unfold minus, plus, opp; simpl. field.
Qed.

Lemma panel_error_lt :
  Rabs ((b - a) * (f a + f b) / 2 - RInt f a b) <= M2 / 12 * (b - a) ^ 3.
Proof.
  pose proof f_integrable as If. pose proof chord_RInt as Ic. pose proof q_RInt as Iq.
  assert (Ec : RInt chord a b = (b - a) * (f a + f b) / 2) by (apply is_RInt_unique; exact Ic).
  assert (Eq : RInt q a b = M2 / 12 * (b - a) ^ 3) by (apply is_RInt_unique; exact Iq).
  assert (Xc : ex_RInt chord a b) by (eexists; exact Ic).
  assert (Xq : ex_RInt q a b) by (eexists; exact Iq).
  rewrite <- Ec, <- Eq.
  apply Rabs_le. split.
  - assert (H : RInt f a b - RInt chord a b <= RInt q a b).
    { apply RInt_diff_le; [lra|exact If|exact Xc|exact Xq|].
      intros x Hx. pose proof (chord_gap 1 (or_introl eq_refl) x Hx) as G. lra. }
    lra.
  - apply RInt_diff_le; [lra|exact Xc|exact If|exact Xq|].
    intros x Hx. pose proof (chord_gap (-1) (or_intror eq_refl) x Hx) as G. lra.
Qed.
End Panel.

Lemma panel_error (f f1 f2 : R -> R) (M2 a b : R) : a <= b ->
  (forall x, a <= x <= b -> is_derive f x (f1 x)) ->
  (forall x, a <= x <= b -> is_derive f1 x (f2 x)) ->
  (forall x, a <= x <= b -> Rabs (f2 x) <= M2) ->
  ex_RInt f a b /\ Rabs ((b - a) * (f a + f b) / 2 - RInt f a b) <= M2 / 12 * (b - a) ^ 3.
Proof.
  intros Hab D1 D2 B2. destruct Hab as [Hlt | ->].
  - split.
    + apply (f_integrable f f1 a b Hlt D1).
    + apply (panel_error_lt f f1 f2 M2 a b Hlt D1 D2 B2).
  - split; [apply ex_RInt_point|].
    rewrite RInt_point. unfold zero; simpl.
    replace ((b - b) * (f b + f b) / 2 - 0) with 0 by field.
    rewrite Rabs_R0. lra.
Qed.

(* ------------------------------------------------------------------------------------------ *)
(* 3. summing the panels                                                                         *)

Fixpoint trap (f : R -> R) (zs : list R) (m : nat) {struct m} : R :=
  match m, zs with
  | S m', a :: ((b :: _) as r) => (b - a) * (f a + f b) / 2 + trap f r m'
  | _, _ => 0
  end.

Lemma Rresistance_trap (f : R -> R) : forall m zs Kzs,
  (m < length zs)%nat -> (m < length Kzs)%nat ->
  (forall i, (i <= m)%nat -> f (nth i zs 0) = / nth i Kzs 0) ->
  Rresistance (Rdiffs zs) Kzs m = trap f zs m.
Proof.
  induction m as [|m IH]; intros zs Kzs Hz Hk Hf.
  - destruct (Rdiffs zs); reflexivity.
  - destruct zs as [|a [|b r]]; cbn [length] in Hz; try lia.
    destruct Kzs as [|k0 [|k1 Ks]]; cbn [length] in Hk; try lia.
    change (Rresistance (Rdiffs (a :: b :: r)) (k0 :: k1 :: Ks) (S m))
      with ((b - a) * (/ 2 / k0 + / 2 / k1) + Rresistance (Rdiffs (b :: r)) (k1 :: Ks) m).
    change (trap f (a :: b :: r) (S m)) with ((b - a) * (f a + f b) / 2 + trap f (b :: r) m).
    rewrite (IH (b :: r) (k1 :: Ks)).
    + pose proof (Hf 0%nat ltac:(lia)) as H0. pose proof (Hf 1%nat ltac:(lia)) as H1.
      cbn [nth] in H0, H1. rewrite H0, H1. unfold Rdiv. ring.
    + cbn [length]. lia.
    + cbn [length]. lia.
    + intros i Hi. apply (Hf (S i)). lia.
Qed.

Lemma Rresistance_trap_fun (Kz : R -> R) (m : nat) (zs : list R) : (m < length zs)%nat ->
  Rresistance (Rdiffs zs) (map Kz zs) m = trap (fun z => / Kz z) zs m.
Proof.
  intros Hm. apply Rresistance_trap; [exact Hm|rewrite map_length; exact Hm|].
  intros i Hi. f_equal.
  rewrite (nth_indep (map Kz zs) 0 (Kz 0)) by (rewrite map_length; lia).
  symmetry. apply map_nth.
Qed.

(* the first m panels of the node list all satisfy P *)
Fixpoint Panels (P : R -> R -> Prop) (zs : list R) (m : nat) {struct m} : Prop :=
  match m, zs with
  | O, _ => True
  | S m', a :: ((b :: _) as r) => P a b /\ Panels P r m'
  | S _, _ => False
  end.

Lemma Panels_nth (P : R -> R -> Prop) : forall m zs, (m < length zs)%nat ->
  (forall i, (i < m)%nat -> P (nth i zs 0) (nth (S i) zs 0)) -> Panels P zs m.
Proof.
  induction m as [|m IH]; intros zs Hm HP; [exact I|].
  destruct zs as [|a [|b r]]; cbn [length] in Hm; try lia.
  cbn [Panels]. split.
  - apply (HP 0%nat). lia.
  - apply IH; [cbn [length]; lia|]. intros i Hi. apply (HP (S i)). lia.
Qed.

Lemma nth_mono (zs : list R) (m : nat) :
  (forall i, (i < m)%nat -> nth i zs 0 <= nth (S i) zs 0) ->
  forall j i, (i <= j <= m)%nat -> nth i zs 0 <= nth j zs 0.
Proof.
  intros Hs. induction j as [|j IH]; intros i Hij.
  - replace i with 0%nat by lia. lra.
  - destruct (Nat.eq_dec i (S j)) as [->|Hne]; [lra|].
    apply Rle_trans with (nth j zs 0); [apply IH; lia|apply Hs; lia].
Qed.

Lemma trap_error_sum (f : R -> R) (c : R) : forall m zs,
  Panels (fun a b => a <= b /\ ex_RInt f a b /\
                     Rabs ((b - a) * (f a + f b) / 2 - RInt f a b) <= c * (b - a)) zs m ->
  nth 0 zs 0 <= nth m zs 0 /\ ex_RInt f (nth 0 zs 0) (nth m zs 0) /\
  Rabs (trap f zs m - RInt f (nth 0 zs 0) (nth m zs 0)) <= c * (nth m zs 0 - nth 0 zs 0).
Proof.
  induction m as [|m IH]; intros zs HP.
  - split; [lra|]. split; [apply ex_RInt_point|].
    rewrite RInt_point. unfold zero; simpl.
    cbn [trap].
    rewrite Rminus_0_r, Rabs_R0. lra.
  - destruct zs as [|a [|b r]]; cbn [Panels] in HP; try contradiction.
    destruct HP as [[Hab [Iab Eab]] HP].
    destruct (IH (b :: r) HP) as [Hbm [Ibm Ebm]].
    change (nth 0 (b :: r) 0) with b in Hbm, Ibm, Ebm.
    change (nth (S m) (a :: b :: r) 0) with (nth m (b :: r) 0).
    change (nth 0 (a :: b :: r) 0) with a.
    change (trap f (a :: b :: r) (S m)) with ((b - a) * (f a + f b) / 2 + trap f (b :: r) m).
    set (zm := nth m (b :: r) 0) in *.
    split; [lra|]. split; [apply (ex_RInt_Chasles f a b zm); assumption|].
    pose proof (RInt_Chasles f a b zm Iab Ibm) as Ch.
    change (plus (RInt f a b) (RInt f b zm)) with (RInt f a b + RInt f b zm) in Ch.
    rewrite <- Ch.
    replace ((b - a) * (f a + f b) / 2 + trap f (b :: r) m - (RInt f a b + RInt f b zm))
      with (((b - a) * (f a + f b) / 2 - RInt f a b) + (trap f (b :: r) m - RInt f b zm)) by ring.
    eapply Rle_trans; [apply Rabs_triang|]. lra.
Qed.

(* ---------------------------------------------------------------- smooth 1/Kz: error bound *)
Section Smooth.
Variables (f f1 f2 : R -> R) (zs : list R) (m : nat) (M2 dmax : R).
Let z0 := nth 0 zs 0.
Let zm := nth m zs 0.
Hypothesis Hm : (m < length zs)%nat.
Hypothesis Hdz : forall i, (i < m)%nat -> 0 <= nth (S i) zs 0 - nth i zs 0 <= dmax.
Hypothesis D1 : forall z, z0 <= z <= zm -> is_derive f z (f1 z).
Hypothesis D2 : forall z, z0 <= z <= zm -> is_derive f1 z (f2 z).
Hypothesis B2 : forall z, z0 <= z <= zm -> Rabs (f2 z) <= M2.

Lemma smooth_panels :
  Panels (fun a b => a <= b /\ ex_RInt f a b /\
            Rabs ((b - a) * (f a + f b) / 2 - RInt f a b) <= (M2 / 12 * dmax ^ 2) * (b - a)) zs m.
Proof.
  apply Panels_nth; [exact Hm|]. intros i Hi.
  assert (Hmono : forall i, (i < m)%nat -> nth i zs 0 <= nth (S i) zs 0).
  { intros k Hk. specialize (Hdz k Hk). lra. }
  pose proof (nth_mono zs m Hmono i 0%nat ltac:(lia)) as Hlo.
  pose proof (nth_mono zs m Hmono m (S i) ltac:(lia)) as Hhi.
  fold z0 in Hlo. fold zm in Hhi.
  specialize (Hmono i Hi). specialize (Hdz i Hi).
  set (a := nth i zs 0) in *. set (b := nth (S i) zs 0) in *.
  destruct (panel_error f f1 f2 M2 a b Hmono) as [Iab Eab].
  - intros x Hx. apply D1. lra.
  - intros x Hx. apply D2. lra.
  - intros x Hx. apply B2. lra.
  - split; [exact Hmono|]. split; [exact Iab|].
    eapply Rle_trans; [exact Eab|].
    assert (HM : 0 <= M2).
    { eapply Rle_trans; [apply Rabs_pos|]. apply (B2 a). lra. }
    assert (Hsq : (b - a) ^ 2 <= dmax ^ 2) by nra.
    replace (M2 / 12 * (b - a) ^ 3) with (M2 / 12 * (b - a) * (b - a) ^ 2) by ring.
    replace (M2 / 12 * dmax ^ 2 * (b - a)) with (M2 / 12 * (b - a) * dmax ^ 2) by ring.
    apply Rmult_le_compat_l; [nra|exact Hsq].
Qed.

Lemma trap_error_bound :
  ex_RInt f z0 zm /\ Rabs (trap f zs m - RInt f z0 zm) <= M2 / 12 * (zm - z0) * dmax ^ 2.
Proof.
  destruct (trap_error_sum f _ m zs smooth_panels) as [_ [I E]].
  split; [exact I|]. fold z0 zm in E. lra.
Qed.
End Smooth.

Theorem trapezoid_integrable (Kz f1 f2 : R -> R) (zs : list R) (m : nat) (M2 dmax : R) :
  (m < length zs)%nat ->
  (forall i, (i < m)%nat -> 0 <= nth (S i) zs 0 - nth i zs 0 <= dmax) ->
  (forall z, nth 0 zs 0 <= z <= nth m zs 0 -> is_derive (fun z => / Kz z) z (f1 z)) ->
  (forall z, nth 0 zs 0 <= z <= nth m zs 0 -> is_derive f1 z (f2 z)) ->
  (forall z, nth 0 zs 0 <= z <= nth m zs 0 -> Rabs (f2 z) <= M2) ->
  ex_RInt (fun z => / Kz z) (nth 0 zs 0) (nth m zs 0).
Proof.
  intros Hm Hdz D1 D2 B2.
  apply (trap_error_bound (fun z => / Kz z) f1 f2 zs m M2 dmax Hm Hdz D1 D2 B2).
Qed.

Theorem trapezoid_error_bound (Kz f1 f2 : R -> R) (zs : list R) (m : nat) (M2 dmax : R) :
  (m < length zs)%nat ->
  (forall i, (i < m)%nat -> 0 <= nth (S i) zs 0 - nth i zs 0 <= dmax) ->
  (forall z, nth 0 zs 0 <= z <= nth m zs 0 -> is_derive (fun z => / Kz z) z (f1 z)) ->
  (forall z, nth 0 zs 0 <= z <= nth m zs 0 -> is_derive f1 z (f2 z)) ->
  (forall z, nth 0 zs 0 <= z <= nth m zs 0 -> Rabs (f2 z) <= M2) ->
  Rabs (Rresistance (Rdiffs zs) (map Kz zs) m - RInt (fun z => / Kz z) (nth 0 zs 0) (nth m zs 0))
  <= M2 / 12 * (nth m zs 0 - nth 0 zs 0) * dmax ^ 2.
Proof.
  intros Hm Hdz D1 D2 B2. rewrite (Rresistance_trap_fun Kz m zs Hm).
  apply (trap_error_bound (fun z => / Kz z) f1 f2 zs m M2 dmax Hm Hdz D1 D2 B2).
Qed.

(* ---------------------------------------------------------------- piecewise-linear 1/Kz *)
Lemma affine_RInt (s c a b : R) :
  is_RInt (fun x => s * x + c) a b ((b - a) * ((s * a + c) + (s * b + c)) / 2).
Proof.
  replace ((b - a) * ((s * a + c) + (s * b + c)) / 2)
    with (minus ((fun x => s * (x * x) / 2 + c * x) b) ((fun x => s * (x * x) / 2 + c * x) a))
    by (unfold minus, plus, opp; simpl; field).
  apply (is_RInt_derive (fun x => s * (x * x) / 2 + c * x) (fun x => s * x + c)).
  - intros x _. auto_derive; [exact I|]. field.
  - intros x _. apply (ex_derive_continuous (fun x => s * x + c)). auto_derive. exact I.
Qed.

Lemma affine_panel (f : R -> R) (a b : R) : a <= b ->
  (exists s c, forall x, a <= x <= b -> f x = s * x + c) ->
  a <= b /\ ex_RInt f a b /\ Rabs ((b - a) * (f a + f b) / 2 - RInt f a b) <= 0 * (b - a).
Proof.
  intros Hab [s [c Hf]].
  assert (I : is_RInt f a b ((b - a) * (f a + f b) / 2)).
  { rewrite (Hf a) by lra. rewrite (Hf b) by lra.
    apply (is_RInt_ext (fun x => s * x + c)); [|apply affine_RInt].
    rewrite Rmin_left, Rmax_right by lra. intros x Hx. symmetry. apply Hf. lra. }
  split; [exact Hab|]. split; [eexists; exact I|].
  rewrite (is_RInt_unique f a b _ I). rewrite Rminus_diag_eq by reflexivity. rewrite Rabs_R0. lra.
Qed.

Theorem trapezoid_exact_piecewise_linear (f : R -> R) (zs Kzs : list R) (m : nat) :
  (m < length zs)%nat -> (m < length Kzs)%nat ->
  (forall i, (i < m)%nat -> nth i zs 0 <= nth (S i) zs 0) ->
  (forall i, (i <= m)%nat -> f (nth i zs 0) = / nth i Kzs 0) ->
  (forall i, (i < m)%nat -> exists s c, forall x,
       nth i zs 0 <= x <= nth (S i) zs 0 -> f x = s * x + c) ->
  ex_RInt f (nth 0 zs 0) (nth m zs 0) /\
  Rresistance (Rdiffs zs) Kzs m = RInt f (nth 0 zs 0) (nth m zs 0).
Proof.
  intros Hm Hk Hinc Hnode Haff.
  rewrite (Rresistance_trap f m zs Kzs Hm Hk Hnode).
  destruct (trap_error_sum f 0 m zs) as [_ [I E]].
  - apply Panels_nth; [exact Hm|]. intros i Hi.
    apply affine_panel; [apply Hinc; exact Hi|apply Haff; exact Hi].
  - split; [exact I|].
    rewrite Rmult_0_l in E.
    pose proof (Rabs_pos (trap f zs m - RInt f (nth 0 zs 0) (nth m zs 0))) as P.
    assert (Z : Rabs (trap f zs m - RInt f (nth 0 zs 0) (nth m zs 0)) = 0) by lra.
    destruct (Req_dec (trap f zs m - RInt f (nth 0 zs 0) (nth m zs 0)) 0) as [H0|Hn]; [lra|].
    exfalso. apply (Rabs_no_R0 _ Hn). exact Z.
Qed.

(* ---------------------------------------------------------------- uniform refinement *)
Definition unif (a b : R) (n : nat) : list R :=
  map (fun i => a + INR i * ((b - a) / INR n)) (seq 0 (S n)).

Lemma unif_length a b n : length (unif a b n) = S n.
Proof. unfold unif. rewrite map_length, seq_length. reflexivity. Qed.

Lemma unif_nth a b n i : (i <= n)%nat -> nth i (unif a b n) 0 = a + INR i * ((b - a) / INR n).
Proof.
  intros Hi. unfold unif. set (F := fun i : nat => a + INR i * ((b - a) / INR n)).
  rewrite (nth_indep (map F (seq 0 (S n))) 0 (F 0%nat)) by (rewrite map_length, seq_length; lia).
  rewrite (map_nth F). rewrite seq_nth by lia. reflexivity.
Qed.

Lemma unif_first a b n : nth 0 (unif a b n) 0 = a.
Proof. rewrite unif_nth by lia. simpl. ring. Qed.

Lemma unif_last a b n : n <> 0%nat -> nth n (unif a b n) 0 = b.
Proof. intros Hn. rewrite unif_nth by lia. field. apply not_0_INR. exact Hn. Qed.

Theorem trapezoid_uniform_bound (Kz f1 f2 : R -> R) (a b M2 : R) (n : nat) :
  a <= b -> n <> 0%nat ->
  (forall z, a <= z <= b -> is_derive (fun z => / Kz z) z (f1 z)) ->
  (forall z, a <= z <= b -> is_derive f1 z (f2 z)) ->
  (forall z, a <= z <= b -> Rabs (f2 z) <= M2) ->
  Rabs (Rresistance (Rdiffs (unif a b n)) (map Kz (unif a b n)) n - RInt (fun z => / Kz z) a b)
  <= M2 / 12 * (b - a) ^ 3 * (/ INR n) ^ 2.
Proof.
  intros Hab Hn D1 D2 B2.
  pose proof (trapezoid_error_bound Kz f1 f2 (unif a b n) n M2 ((b - a) / INR n)) as T.
  rewrite unif_first, (unif_last a b n Hn) in T.
  assert (Hpos : 0 < INR n) by (apply lt_0_INR; lia).
  replace (M2 / 12 * (b - a) ^ 3 * (/ INR n) ^ 2) with (M2 / 12 * (b - a) * ((b - a) / INR n) ^ 2)
    by (field; lra).
  apply T; try assumption.
  - rewrite unif_length. lia.
  - intros i Hi. rewrite !unif_nth by lia. rewrite S_INR.
    replace (a + (INR i + 1) * ((b - a) / INR n) - (a + INR i * ((b - a) / INR n)))
      with ((b - a) / INR n) by ring.
    split; [|lra]. apply Rmult_le_pos; [lra|]. left. apply Rinv_0_lt_compat. exact Hpos.
Qed.

Lemma lim_inv_S : is_lim_seq (fun n => / INR (S n)) 0.
Proof.
  apply (is_lim_seq_incr_1 (fun n => / INR n)).
  replace (Finite 0) with (Rbar_inv p_infty) by reflexivity.
  apply is_lim_seq_inv; [apply is_lim_seq_INR|discriminate].
Qed.

Theorem trapezoid_converges (Kz f1 f2 : R -> R) (a b M2 : R) :
  a <= b ->
  (forall z, a <= z <= b -> is_derive (fun z => / Kz z) z (f1 z)) ->
  (forall z, a <= z <= b -> is_derive f1 z (f2 z)) ->
  (forall z, a <= z <= b -> Rabs (f2 z) <= M2) ->
  is_lim_seq (fun n => Rresistance (Rdiffs (unif a b (S n))) (map Kz (unif a b (S n))) (S n))
             (RInt (fun z => / Kz z) a b).
Proof.
  intros Hab D1 D2 B2.
  set (I := RInt (fun z => / Kz z) a b).
  set (u := fun n => Rresistance (Rdiffs (unif a b (S n))) (map Kz (unif a b (S n))) (S n)).
  set (C := M2 / 12 * (b - a) ^ 3).
  assert (HB : is_lim_seq (fun n => C * (/ INR (S n) * / INR (S n))) 0).
  { replace (Finite 0) with (Finite (C * (0 * 0))) by (f_equal; ring).
    apply (is_lim_seq_mult' (fun _ => C) (fun n => / INR (S n) * / INR (S n))); [apply is_lim_seq_const|].
    apply (is_lim_seq_mult' (fun n => / INR (S n)) (fun n => / INR (S n))); apply lim_inv_S. }
  assert (Hb : forall n, Rabs (u n - I) <= C * (/ INR (S n) * / INR (S n))).
  { intros n. pose proof (trapezoid_uniform_bound Kz f1 f2 a b M2 (S n) Hab ltac:(lia) D1 D2 B2) as T.
    unfold u, I, C. replace (/ INR (S n) * / INR (S n)) with ((/ INR (S n)) ^ 2) by ring. exact T. }
  apply (is_lim_seq_ext (fun n => (u n - I) + I)); [intros n; ring|].
  replace (Finite I) with (Finite (0 + I)) by (f_equal; ring).
  apply (is_lim_seq_plus' (fun n => u n - I) (fun _ => I)); [|apply is_lim_seq_const].
  apply (is_lim_seq_le_le (fun n => - (C * (/ INR (S n) * / INR (S n)))) _
                          (fun n => C * (/ INR (S n) * / INR (S n)))).
  - intros n. specialize (Hb n). apply Rabs_le_between in Hb. exact Hb.
  - replace (Finite 0) with (Rbar_opp (Finite 0)) by (simpl; f_equal; ring).
    apply -> (is_lim_seq_opp (fun n => C * (/ INR (S n) * / INR (S n))) (Finite 0)). exact HB.
  - exact HB.
Qed.

(* ---------------------------------------------------------------- model-level corollaries *)
Theorem resistance_model_vs_integral (Kz f1 f2 : R -> R) (zs : list R) (m : nat) (M2 dmax : R) :
  (m < length zs)%nat ->
  (forall i, (i < m)%nat -> 0 <= nth (S i) zs 0 - nth i zs 0 <= dmax) ->
  (forall z, nth 0 zs 0 <= z <= nth m zs 0 -> is_derive (fun z => / Kz z) z (f1 z)) ->
  (forall z, nth 0 zs 0 <= z <= nth m zs 0 -> is_derive f1 z (f2 z)) ->
  (forall z, nth 0 zs 0 <= z <= nth m zs 0 -> Rabs (f2 z) <= M2) ->
  Cmod (Cminus (resistance ROps (diffs ROps (map RtoC zs)) (map RtoC (map Kz zs)) m)
               (RtoC (RInt (fun z => / Kz z) (nth 0 zs 0) (nth m zs 0))))
  <= M2 / 12 * (nth m zs 0 - nth 0 zs 0) * dmax ^ 2.
Proof.
  intros Hm Hdz D1 D2 B2.
  rewrite diffs_ROps, resistance_ROps, <- RtoC_minus, Cmod_R.
  apply (trapezoid_error_bound Kz f1 f2 zs m M2 dmax Hm Hdz D1 D2 B2).
Qed.

Theorem mean_conc_vs_integral (Kz f1 f2 : R -> R) (zs : list R) (m : nat) (M2 dmax : R) (p000 q00 : CC) :
  (m < length zs)%nat ->
  (forall i, (i < m)%nat -> 0 <= nth (S i) zs 0 - nth i zs 0 <= dmax) ->
  (forall z, nth 0 zs 0 <= z <= nth m zs 0 -> is_derive (fun z => / Kz z) z (f1 z)) ->
  (forall z, nth 0 zs 0 <= z <= nth m zs 0 -> is_derive f1 z (f2 z)) ->
  (forall z, nth 0 zs 0 <= z <= nth m zs 0 -> Rabs (f2 z) <= M2) ->
  Cmod (Cminus (csub ROps p000 (cmul ROps q00
                   (resistance ROps (diffs ROps (map RtoC zs)) (map RtoC (map Kz zs)) m)))
               (Cminus p000 (Cmult q00 (RtoC (RInt (fun z => / Kz z) (nth 0 zs 0) (nth m zs 0))))))
  <= Cmod q00 * (M2 / 12 * (nth m zs 0 - nth 0 zs 0) * dmax ^ 2).
Proof.
  intros Hm Hdz D1 D2 B2.
  pose proof (resistance_model_vs_integral Kz f1 f2 zs m M2 dmax Hm Hdz D1 D2 B2) as H.
  cbn [ROps csub cmul].
  set (Rn := resistance ROps (diffs ROps (map RtoC zs)) (map RtoC (map Kz zs)) m) in *.
  set (I := RtoC (RInt (fun z => / Kz z) (nth 0 zs 0) (nth m zs 0))) in *.
  replace (Cminus (Cminus p000 (Cmult q00 Rn)) (Cminus p000 (Cmult q00 I)))
    with (Cmult (Copp q00) (Cminus Rn I)) by ring.
  rewrite Cmod_mult, Cmod_opp. apply Rmult_le_compat_l; [apply Cmod_ge_0|exact H].
Qed.

(* ---------------------------------------------------------------- examples *)
(* neutral surface layer: Kz = k z (k = kappa u_star), 1/Kz = 1/(k z), integral ln(zm/z0)/k *)
Section Neutral.
Variables (k : R).
Hypothesis Hk : 0 < k.
Let Kz (z : R) := k * z.
Let g1 (z : R) := - / (k * (z * z)).
Let g2 (z : R) := 2 / (k * (z * z * z)).

Lemma neutral_d1 z : 0 < z -> is_derive (fun z => / Kz z) z (g1 z).
Proof. intros Hz. unfold Kz, g1. auto_derive; [nra|]. field. split; lra. Qed.

Lemma neutral_d2 z : 0 < z -> is_derive g1 z (g2 z).
Proof.
  intros Hz. unfold g1, g2. auto_derive.
  - assert (0 < z * z) by nra. nra.
  - field. split; lra.
Qed.

Lemma neutral_b2 za z : 0 < za <= z -> Rabs (g2 z) <= 2 / (k * (za * za * za)).
Proof.
  intros [Ha Hz]. unfold g2.
  assert (Hc : 0 < za * za * za) by (apply Rmult_lt_0_compat; [nra|lra]).
  assert (Hle : za * za * za <= z * z * z).
  { assert (za * za <= z * z) by nra. nra. }
  assert (H1 : 0 < k * (za * za * za)) by nra.
  assert (H2 : k * (za * za * za) <= k * (z * z * z)) by nra.
  rewrite Rabs_pos_eq.
  - unfold Rdiv. apply Rmult_le_compat_l; [lra|]. apply Rinv_le_contravar; assumption.
  - unfold Rdiv. apply Rmult_le_pos; [lra|]. left. apply Rinv_0_lt_compat. lra.
Qed.

Lemma neutral_RInt za zb : 0 < za <= zb -> RInt (fun z => / Kz z) za zb = ln (zb / za) / k.
Proof.
  intros [Ha Hb]. apply is_RInt_unique.
  replace (ln (zb / za) / k) with (minus ((fun z => ln z / k) zb) ((fun z => ln z / k) za)).
  - apply (is_RInt_derive (fun z => ln z / k) (fun z => / Kz z)).
    + rewrite Rmin_left, Rmax_right by lra. intros x Hx. unfold Kz.
      auto_derive; [lra|]. field. split; lra.
    + rewrite Rmin_left, Rmax_right by lra. intros x Hx.
      apply (ex_derive_continuous (fun z => / Kz z)). exists (g1 x). apply neutral_d1. lra.
  - unfold minus, plus, opp; simpl. rewrite ln_div by lra. field. lra.
Qed.

Theorem neutral_resistance_bound (zs : list R) (m : nat) (dmax : R) :
  (m < length zs)%nat -> 0 < nth 0 zs 0 ->
  (forall i, (i < m)%nat -> 0 <= nth (S i) zs 0 - nth i zs 0 <= dmax) ->
  Rabs (Rresistance (Rdiffs zs) (map (fun z => k * z) zs) m - ln (nth m zs 0 / nth 0 zs 0) / k)
  <= (2 / (k * (nth 0 zs 0) ^ 3)) / 12 * (nth m zs 0 - nth 0 zs 0) * dmax ^ 2.
Proof.
  intros Hm H0 Hdz.
  assert (Hmono : nth 0 zs 0 <= nth m zs 0).
  { apply (nth_mono zs m); [|lia]. intros i Hi. specialize (Hdz i Hi). lra. }
  rewrite <- (neutral_RInt (nth 0 zs 0) (nth m zs 0)) by lra.
  replace ((nth 0 zs 0) ^ 3) with (nth 0 zs 0 * nth 0 zs 0 * nth 0 zs 0) by ring.
  apply (trapezoid_error_bound Kz g1 g2 zs m _ dmax Hm Hdz).
  - intros z Hz. apply neutral_d1. lra.
  - intros z Hz. apply neutral_d2. lra.
  - intros z Hz. apply neutral_b2. lra.
Qed.
End Neutral.

(* Kz = 1 + z on [0,1]: the resistance on n equal layers is within 1/(6 n^2) of ln 2 *)
Lemma opz_d1 z : 0 <= z <= 1 ->
  is_derive (fun z => / (1 + z)) z ((fun z => - / ((1 + z) * (1 + z))) z).
Proof. intros Hz. auto_derive; [lra|]. field. lra. Qed.

Lemma opz_d2 z : 0 <= z <= 1 ->
  is_derive (fun z => - / ((1 + z) * (1 + z))) z ((fun z => 2 / ((1 + z) * (1 + z) * (1 + z))) z).
Proof. intros Hz. auto_derive; [nra|]. field. lra. Qed.

Lemma opz_b2 z : 0 <= z <= 1 -> Rabs (2 / ((1 + z) * (1 + z) * (1 + z))) <= 2.
Proof.
  intros Hz.
  assert (H1 : 1 <= (1 + z) * (1 + z) * (1 + z)).
  { assert (1 <= (1 + z) * (1 + z)) by nra. nra. }
  rewrite Rabs_pos_eq.
  - unfold Rdiv. rewrite <- (Rmult_1_r 2) at 2. apply Rmult_le_compat_l; [lra|].
    rewrite <- Rinv_1. apply Rinv_le_contravar; lra.
  - unfold Rdiv. apply Rmult_le_pos; [lra|]. left. apply Rinv_0_lt_compat. lra.
Qed.

Lemma opz_RInt : RInt (fun z => / (1 + z)) 0 1 = ln 2.
Proof.
  apply is_RInt_unique.
  replace (ln 2) with (minus ((fun z => ln (1 + z)) 1) ((fun z => ln (1 + z)) 0)).
  - apply (is_RInt_derive (fun z => ln (1 + z)) (fun z => / (1 + z))).
    + rewrite Rmin_left, Rmax_right by lra. intros x Hx. auto_derive; [lra|]. field. lra.
    + rewrite Rmin_left, Rmax_right by lra. intros x Hx.
      apply (ex_derive_continuous (fun z => / (1 + z))). auto_derive. lra.
  - unfold minus, plus, opp; simpl. replace (1 + 0) with 1 by ring. rewrite ln_1.
    replace (1 + 1) with 2 by ring. ring.
Qed.

Theorem example_one_plus_z (n : nat) : n <> 0%nat ->
  Rabs (Rresistance (Rdiffs (unif 0 1 n)) (map (fun z => 1 + z) (unif 0 1 n)) n - ln 2)
  <= / 6 * (/ INR n) ^ 2.
Proof.
  intros Hn. rewrite <- opz_RInt.
  replace (/ 6 * (/ INR n) ^ 2) with (2 / 12 * (1 - 0) ^ 3 * (/ INR n) ^ 2)
    by (generalize (/ INR n); intros t; field).
  apply (trapezoid_uniform_bound (fun z => 1 + z) _ _ 0 1 2 n ltac:(lra) Hn opz_d1 opz_d2 opz_b2).
Qed.

Theorem example_one_plus_z_limit :
  is_lim_seq (fun n => Rresistance (Rdiffs (unif 0 1 (S n))) (map (fun z => 1 + z) (unif 0 1 (S n))) (S n))
             (ln 2).
Proof.
  rewrite <- opz_RInt.
  apply (trapezoid_converges (fun z => 1 + z) _ _ 0 1 2 ltac:(lra) opz_d1 opz_d2 opz_b2).
Qed.

(* a kinked piecewise-linear 1/Kz: nodes 0,1,3, Kz = 1, 1/2, 1/2 *)
Definition kink (x : R) : R := if Rle_dec x 1 then 1 + x else 2.

Theorem example_piecewise :
  Rresistance (Rdiffs [0; 1; 3]) [1; / 2; / 2] 2 = RInt kink 0 3 /\ RInt kink 0 3 = 11 / 2.
Proof.
  assert (E : Rresistance (Rdiffs [0; 1; 3]) [1; / 2; / 2] 2 = RInt kink 0 3).
  { apply (trapezoid_exact_piecewise_linear kink [0; 1; 3] [1; / 2; / 2] 2); cbn [length]; try lia.
    - intros i Hi. destruct i as [|[|i]]; cbn [nth]; try lra; lia.
    - intros i Hi. unfold kink. destruct i as [|[|[|i]]]; cbn [nth]; try lia.
      + destruct (Rle_dec 0 1); [field|lra].
      + destruct (Rle_dec 1 1); [field|lra].
      + destruct (Rle_dec 3 1); [lra|field].
    - intros i Hi. destruct i as [|[|i]]; cbn [nth]; try lia.
      + exists 1, 1. intros x Hx. unfold kink. destruct (Rle_dec x 1); lra.
      + exists 0, 2. intros x Hx. unfold kink. destruct (Rle_dec x 1); lra. }
  split; [exact E|]. rewrite <- E. cbn [Rdiffs Rresistance]. unfold Rdiv. rewrite !Rinv_inv, Rinv_1. lra.
Qed.

Print Assumptions resistance_ROps.
Print Assumptions diffs_ROps.
Print Assumptions trapezoid_exact_piecewise_linear.
Print Assumptions trapezoid_integrable.
Print Assumptions trapezoid_error_bound.
Print Assumptions trapezoid_uniform_bound.
Print Assumptions trapezoid_converges.
Print Assumptions resistance_model_vs_integral.
Print Assumptions mean_conc_vs_integral.
Print Assumptions neutral_resistance_bound.
Print Assumptions example_one_plus_z.
Print Assumptions example_one_plus_z_limit.
Print Assumptions example_piecewise.
