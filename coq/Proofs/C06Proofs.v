(* C06: horizontal translation equivariance on the periodic domain (no cropped halo cells):
   - moving an on-grid measurement point by whole cells rolls the footprint,
   - a non-zero on-grid measurement point in dispersion mode re-centres (rolls) the output so that
     the centre cell carries the field value at that point,
   - rolling the source rolls concentration and flux. *)
From Coq Require Import ZArith List Field Ring Lia Bool Arith.
From BL Require Import Base.Ops Base.Laws Model.Solver Proofs.Sums Proofs.StepProofs Proofs.ModeProofs Proofs.Dft Proofs.SpecProofs Proofs.C04Proofs.
Import ListNotations.
Set Default Proof Using "All".

Section C06.
Variable O : Ops.
Hypothesis L : Laws O.
Notation C := (C O).
Notation "0" := (c0 O) : ops_scope. Notation "1" := (c1 O) : ops_scope.
Infix "+" := (cadd O) : ops_scope. Infix "*" := (cmul O) : ops_scope.
Infix "-" := (csub O) : ops_scope. Infix "/" := (cdiv O) : ops_scope.
Notation "- x" := (copp O x) : ops_scope.
Local Open Scope ops_scope.
Add Field OFc6 : (L_field O L).
Notation ofZ := (cofZ O).
Notation ofN n := (cofZ O (Z.of_nat n)).
Notation args := (args O).
Notation geom := (geom O).

Definition sgn (fp : bool) (k : Z) : Z := if fp then (- k)%Z else k.

(* cyclic index: (i + d) mod n as a nat *)
Definition cyc (n : nat) (i : nat) (d : Z) : nat := Z.to_nat ((Z.of_nat i + d) mod Z.of_nat n).

Lemma cyc_lt n i d : n <> 0%nat -> (cyc n i d < n)%nat.
Proof. intros Hn. unfold cyc. pose proof (Z.mod_pos_bound (Z.of_nat i + d) (Z.of_nat n)). lia. Qed.

Lemma cis_signed (g : geom) (fp : bool) (kx ky : Z) (i j : nat) :
  cis O (if fp then - phase O g kx ky i j else phase O g kx ky i j)
  = root O (g_nye O g) (sgn fp ky * Z.of_nat j)%Z * root O (g_nxe O g) (sgn fp kx * Z.of_nat i)%Z.
Proof.
  destruct fp; unfold sgn; [apply (cis_phase_neg O L)|apply (cis_phase O L)].
Qed.

Lemma root_cyc (n : nat) (k : Z) (i : nat) (d : Z) : n <> 0%nat ->
  root O n (k * Z.of_nat (cyc n i d))%Z = root O n (k * Z.of_nat i)%Z * root O n (k * d)%Z.
Proof.
  intros Hn. rewrite <- (root_add O L). apply (root_mod O L); [exact Hn|].
  unfold cyc. rewrite Z2Nat.id by (apply Z.mod_pos_bound; lia).
  rewrite Zmult_mod_idemp_r. f_equal. lia.
Qed.

(* the general translation lemma, one mode *)
Lemma term_translate (a a' : args) (g : geom) sel k t (di dj : Z) i j :
  g_nxe O g <> 0%nat -> g_nye O g <> 0%nat ->
  a_footprint O a' = a_footprint O a ->
  sel (nth k (spectrum O a' g (fst t) (snd t)) (0, 0)) * shift O a' g (fst t) (snd t)
  = sel (nth k (spectrum O a g (fst t) (snd t)) (0, 0)) * shift O a g (fst t) (snd t)
    * (root O (g_nye O g) (sgn (a_footprint O a) (fftfreq (g_nly O g) (snd t)) * dj)%Z
       * root O (g_nxe O g) (sgn (a_footprint O a) (fftfreq (g_nlx O g) (fst t)) * di)%Z) ->
  term O a' g sel k i j t = term O a g sel k (cyc (g_nxe O g) i di) (cyc (g_nye O g) j dj) t.
Proof.
  intros Hx Hy Hfp Hamp. unfold term. rewrite Hfp, Hamp, !cis_signed, !root_cyc by assumption. ring.
Qed.

(* whole cells: synth of a' at (i, j) = synth of a at the cyclically shifted cell *)
Lemma synth_translate (a a' : args) (g : geom) sel k (di dj : Z) i j :
  (forall pq s, sel (fst pq * s, snd pq * s) = sel pq * s) ->
  (k < length (a_levels O a))%nat -> a_levels O a' = a_levels O a ->
  g_nxe O g <> 0%nat -> g_nye O g <> 0%nat ->
  a_footprint O a' = a_footprint O a ->
  (forall t, In t (modes_of O g) ->
    sel (nth k (spectrum O a' g (fst t) (snd t)) (0, 0)) * shift O a' g (fst t) (snd t)
    = sel (nth k (spectrum O a g (fst t) (snd t)) (0, 0)) * shift O a g (fst t) (snd t)
      * (root O (g_nye O g) (sgn (a_footprint O a) (fftfreq (g_nly O g) (snd t)) * dj)%Z
         * root O (g_nxe O g) (sgn (a_footprint O a) (fftfreq (g_nlx O g) (fst t)) * di)%Z)) ->
  synth O a' g sel (table O a' g) k i j
  = synth O a g sel (table O a g) k (cyc (g_nxe O g) i di) (cyc (g_nye O g) j dj).
Proof.
  intros Hsel Hk Hlv Hx Hy Hfp Hamp.
  rewrite !(synth_table O L) by (try assumption; rewrite ?Hlv; assumption).
  f_equal. apply (csum_map_ext O L). intros t Ht. apply term_translate; try assumption. apply Hamp. exact Ht.
Qed.

(* ---------------------------------------------------------------- moving the tower (footprint) *)

Definition with_meas (a : args) (xm ym : C) : args :=
  mkArgs O (a_q0 O a) (a_z O a) (a_prof O a) (a_xmx O a) (a_ymx O a) (a_levels O a) (a_nlx O a) (a_nly O a)
         xm ym (a_p000 O a) (a_footprint O a) (a_analytic O a) (a_halo O a) (a_single O a).

Lemma wavenumber_cell dx n k (d : Z) :
  dx <> 0 -> n <> 0%nat ->
  cexp O (ci O * (wavenumber O dx n k * (ofZ d * dx))) = root O n (k * d)%Z.
Proof.
  intros Hdx Hn. unfold root, wavenumber, twopi. f_equal. rewrite (L_ofZ_mul O L).
  field. split; [apply (ofN_nz O L); exact Hn|exact Hdx].
Qed.

(* footprint for the tower moved by (rx, ry) whole cells = the footprint rolled by (rx, ry) *)
Theorem tower_shift (a : args) (g : geom) (rx ry : Z) sel k i j :
  (forall pq s, sel (fst pq * s, snd pq * s) = sel pq * s) ->
  a_footprint O a = true ->
  geometry O a = inl g -> g_px O g = 0%nat -> g_py O g = 0%nat ->
  g_nx O g <> 0%nat -> g_ny O g <> 0%nat -> g_dx O g <> 0 -> g_dy O g <> 0 ->
  (k < length (a_levels O a))%nat -> (j < g_ny O g)%nat -> (i < g_nx O g)%nat ->
  let a' := with_meas a (a_xm O a + ofZ rx * g_dx O g) (a_ym O a + ofZ ry * g_dy O g) in
  get3 O (field O a' g sel (table O a' g)) k j i
  = get3 O (field O a g sel (table O a g)) k (cyc (g_ny O g) j (- ry)) (cyc (g_nx O g) i (- rx)).
Proof.
  intros Hsel Hfp Hg Hpx Hpy Hnx Hny Hdx Hdy Hk Hj Hi a'.
  destruct (geometry_inv O L a g Hg) as (_ & _ & _ & _ & _ & Hxe & Hye & _).
  assert (Exe : g_nxe O g = g_nx O g) by lia. assert (Eye : g_nye O g = g_ny O g) by lia.
  rewrite !(field_get O L) by (try assumption; apply cyc_lt; assumption).
  rewrite Hpx, Hpy, !Nat.add_0_r.
  replace (cyc (g_nx O g) i (- rx)) with (cyc (g_nxe O g) i (- rx)) by (rewrite Exe; reflexivity).
  replace (cyc (g_ny O g) j (- ry)) with (cyc (g_nye O g) j (- ry)) by (rewrite Eye; reflexivity).
  apply synth_translate; try assumption; try reflexivity; try (rewrite ?Exe, ?Eye; assumption).
  intros t _. unfold a'.
  change (spectrum O (with_meas a _ _) g) with (spectrum O a g).
  unfold shift. cbn [a_footprint with_meas a_xm a_ym]. rewrite Hfp. unfold sgn, cis, shift_arg_fp.
  rewrite Hpx, Hpy. change (Z.of_nat 0) with 0%Z. rewrite (L_ofZ_0 O L).
  set (lx := wavenumber O (g_dx O g) (g_nxe O g) (fftfreq (g_nlx O g) (fst t))).
  set (ly := wavenumber O (g_dy O g) (g_nye O g) (fftfreq (g_nly O g) (snd t))).
  replace (ci O * (lx * (a_xm O a + ofZ rx * g_dx O g + 0 * g_dx O g) + ly * (a_ym O a + ofZ ry * g_dy O g + 0 * g_dy O g)))
    with (ci O * (lx * (a_xm O a + 0 * g_dx O g) + ly * (a_ym O a + 0 * g_dy O g))
          + (ci O * (ly * (ofZ ry * g_dy O g)) + ci O * (lx * (ofZ rx * g_dx O g)))) by ring.
  rewrite !(L_exp_add O L). subst lx ly.
  rewrite !wavenumber_cell by (try assumption; rewrite ?Exe, ?Eye; assumption).
  replace (- fftfreq (g_nly O g) (snd t) * - ry)%Z with (fftfreq (g_nly O g) (snd t) * ry)%Z by lia.
  replace (- fftfreq (g_nlx O g) (fst t) * - rx)%Z with (fftfreq (g_nlx O g) (fst t) * rx)%Z by lia.
  ring.
Qed.

(* ---------------------------------------------------------------- re-centring (dispersion) *)

(* dispersion mode with on-grid measurement point (im, jm) <> origin and even nx, ny: the output
   is the unshifted field rolled so that the centre cell (ny/2, nx/2) carries field[jm][im] *)
Theorem recentre (a : args) (g : geom) (im jm : nat) sel k i j :
  (forall pq s, sel (fst pq * s, snd pq * s) = sel pq * s) ->
  a_footprint O a = false ->
  geometry O a = inl g -> g_px O g = 0%nat -> g_py O g = 0%nat ->
  g_nx O g <> 0%nat -> g_ny O g <> 0%nat -> g_dx O g <> 0 -> g_dy O g <> 0 ->
  Nat.even (g_nx O g) = true -> Nat.even (g_ny O g) = true ->
  a_xm O a = 0 -> a_ym O a = 0 ->
  let xm := ofN im * g_dx O g in let ym := ofN jm * g_dy O g in
  cltb O 0 (xm * xm + ym * ym) = true ->
  (k < length (a_levels O a))%nat -> (j < g_ny O g)%nat -> (i < g_nx O g)%nat ->
  let a' := with_meas a xm ym in
  get3 O (field O a' g sel (table O a' g)) k j i
  = get3 O (field O a g sel (table O a g)) k
         (cyc (g_ny O g) j (Z.of_nat jm - Z.of_nat (g_ny O g / 2)))
         (cyc (g_nx O g) i (Z.of_nat im - Z.of_nat (g_nx O g / 2))).
Proof.
  intros Hsel Hfp Hg Hpx Hpy Hnx Hny Hdx Hdy Hex Hey Hxm0 Hym0 xm ym Hpos Hk Hj Hi a'.
  destruct (geometry_inv O L a g Hg) as (_ & _ & _ & Edx & Edy & Hxe & Hye & _).
  assert (Exe : g_nxe O g = g_nx O g) by lia. assert (Eye : g_nye O g = g_ny O g) by lia.
  rewrite !(field_get O L) by (try assumption; apply cyc_lt; assumption).
  rewrite Hpx, Hpy, !Nat.add_0_r.
  replace (cyc (g_nx O g) i (Z.of_nat im - Z.of_nat (g_nx O g / 2))) with (cyc (g_nxe O g) i (Z.of_nat im - Z.of_nat (g_nx O g / 2))) by (rewrite Exe; reflexivity).
  replace (cyc (g_ny O g) j (Z.of_nat jm - Z.of_nat (g_ny O g / 2))) with (cyc (g_nye O g) j (Z.of_nat jm - Z.of_nat (g_ny O g / 2))) by (rewrite Eye; reflexivity).
  apply synth_translate; try assumption; try reflexivity; try (rewrite ?Exe, ?Eye; assumption).
  intros t _. unfold a'.
  change (spectrum O (with_meas a _ _) g) with (spectrum O a g).
  unfold shift. cbn [a_footprint with_meas a_xm a_ym a_xmx a_ymx]. rewrite Hfp, Hxm0, Hym0.
  fold xm ym. rewrite Hpos.
  replace (0 * 0 + 0 * 0) with 0 by ring. rewrite (L_ltb_irrefl O L).
  unfold sgn, cis, shift_arg_ctr.
  set (lx := wavenumber O (g_dx O g) (g_nxe O g) (fftfreq (g_nlx O g) (fst t))).
  set (ly := wavenumber O (g_dy O g) (g_nye O g) (fftfreq (g_nly O g) (snd t))).
  (* xmx/2 = (nx/2) dx for even nx *)
  assert (Hhalfx : a_xmx O a / two O = ofN (g_nx O g / 2) * g_dx O g).
  { apply Nat.even_spec in Hex. destruct Hex as [m Hm].
    assert (Hdiv : (g_nx O g / 2 = m)%nat) by (rewrite Hm, Nat.mul_comm; apply Nat.div_mul; lia).
    assert (Hm0 : m <> 0%nat) by lia.
    rewrite Hdiv, Edx, Hm, Nat2Z.inj_mul, (L_ofZ_mul O L). unfold two. change (Z.of_nat 2) with 2%Z.
    rewrite (ofZ_2 O L). field.
    repeat split; first [ apply (two_nz O L) | apply (ofN_nz O L); exact Hm0
      | apply (mul_nz O L); [apply (two_nz O L)|apply (ofN_nz O L); exact Hm0] ]. }
  assert (Hhalfy : a_ymx O a / two O = ofN (g_ny O g / 2) * g_dy O g).
  { apply Nat.even_spec in Hey. destruct Hey as [m Hm].
    assert (Hdiv : (g_ny O g / 2 = m)%nat) by (rewrite Hm, Nat.mul_comm; apply Nat.div_mul; lia).
    assert (Hm0 : m <> 0%nat) by lia.
    rewrite Hdiv, Edy, Hm, Nat2Z.inj_mul, (L_ofZ_mul O L). unfold two. change (Z.of_nat 2) with 2%Z.
    rewrite (ofZ_2 O L). field.
    repeat split; first [ apply (two_nz O L) | apply (ofN_nz O L); exact Hm0
      | apply (mul_nz O L); [apply (two_nz O L)|apply (ofN_nz O L); exact Hm0] ]. }
  rewrite Hhalfx, Hhalfy. unfold xm, ym.
  replace (ci O * (lx * (ofN im * g_dx O g - ofN (g_nx O g / 2) * g_dx O g) + ly * (ofN jm * g_dy O g - ofN (g_ny O g / 2) * g_dy O g)))
    with (ci O * (ly * (ofZ (Z.of_nat jm - Z.of_nat (g_ny O g / 2)) * g_dy O g))
          + ci O * (lx * (ofZ (Z.of_nat im - Z.of_nat (g_nx O g / 2)) * g_dx O g))).
  2:{ unfold Z.sub. rewrite !(L_ofZ_add O L), !(L_ofZ_opp O L). ring. }
  rewrite (L_exp_add O L). subst lx ly.
  rewrite !wavenumber_cell by (try assumption; rewrite ?Exe, ?Eye; assumption).
  ring.
Qed.


(* ---------------------------------------------------------------- rolling the source (dispersion) *)

Lemma root_uncyc (n : nat) (k : Z) (i : nat) (d : Z) : n <> 0%nat ->
  root O n (k * Z.of_nat i)%Z = root O n (k * (Z.of_nat (cyc n i (- d)) + d))%Z.
Proof.
  intros Hn. apply (root_mod O L); [exact Hn|].
  unfold cyc. rewrite Z2Nat.id by (apply Z.mod_pos_bound; lia).
  symmetry.
  rewrite <- (Zmult_mod_idemp_r ((Z.of_nat i + - d) mod Z.of_nat n + d)).
  rewrite Zplus_mod_idemp_l.
  replace (Z.of_nat i + - d + d)%Z with (Z.of_nat i) by lia.
  rewrite Zmult_mod_idemp_r. reflexivity.
Qed.

Section Roll.
Variables (a : args) (g : geom) (q q' : list (list C)) (p : C) (rx ry : Z).
Hypothesis Hwf : wf O (with_src O a q p).
Hypothesis Hwf' : wf O (with_src O a q' p).
Hypothesis Hsh : same_shape O q' q.
Hypothesis Hdisp : a_footprint O a = false.
Hypothesis Hdouble : a_single O a = false.
Hypothesis Hg : geometry O (with_src O a q p) = inl g.
Hypothesis Hpx : g_px O g = 0%nat.
Hypothesis Hpy : g_py O g = 0%nat.
Hypothesis Hnx : g_nx O g <> 0%nat.
Hypothesis Hny : g_ny O g <> 0%nat.
Hypothesis Hroll : forall j i, (j < g_ny O g)%nat -> (i < g_nx O g)%nat ->
   cellq O q' j i = cellq O q (cyc (g_ny O g) j (- ry)) (cyc (g_nx O g) i (- rx)).

Lemma Hg' : geometry O (with_src O a q' p) = inl g.
Proof. rewrite <- Hg. destruct Hsh as [A B]. apply (geometry_shape_only O L); cbn; congruence. Qed.

Lemma Exy : g_nxe O g = g_nx O g /\ g_nye O g = g_ny O g.
Proof. destruct (geometry_inv O L _ g Hg) as (_ & _ & _ & _ & _ & Hxe & Hye & _). lia. Qed.

Lemma src_hat_roll kx ky :
  src_hat O (with_src O a q' p) g kx ky
  = src_hat O (with_src O a q p) g kx ky
    * (root O (g_nye O g) (ky * - ry)%Z * root O (g_nxe O g) (kx * - rx)%Z).
Proof.
  destruct Exy as [Exe Eye].
  rewrite (src_hat_index O L _ g kx ky Hwf' Hg'), (src_hat_index O L _ g kx ky Hwf Hg).
  cbn [a_q0 with_src]. rewrite Hpx, Hpy.
  set (sc := 1 / ofN (g_nxe O g) / ofN (g_nye O g)).
  set (Ry := fun j : nat => root O (g_nye O g) (- ky * Z.of_nat j)%Z).
  set (Rx := fun i : nat => root O (g_nxe O g) (- kx * Z.of_nat i)%Z).
  (* both double sums in root form *)
  assert (Hform : forall qq : list (list C),
     csum O (map (fun j => csum O (map (fun i => cellq O qq j i * cis O (- phase O g kx ky (i + 0) (j + 0)))
                                      (seq 0 (g_nx O g)))) (seq 0 (g_ny O g)))
     = csum O (map (fun j => csum O (map (fun i => cellq O qq j i * (Ry j * Rx i)) (seq 0 (g_nx O g)))) (seq 0 (g_ny O g)))).
  { intros qq. apply (csum_map_ext O L). intros j _. apply (csum_map_ext O L). intros i _.
    rewrite !Nat.add_0_r, (cis_phase_neg O L). reflexivity. }
  rewrite !Hform.
  transitivity (sc * (csum O (map (fun j => csum O (map (fun i => cellq O q j i * (Ry j * Rx i)) (seq 0 (g_nx O g)))) (seq 0 (g_ny O g)))
       * (root O (g_nye O g) (ky * - ry)%Z * root O (g_nxe O g) (kx * - rx)%Z))); [|ring].
  f_equal.
  (* inner sum over i for a fixed source row J and row factor w *)
  assert (Hin : forall J w,
     csum O (map (fun i => cellq O q J (cyc (g_nx O g) i (- rx)) * (w * Rx i)) (seq 0 (g_nx O g)))
     = csum O (map (fun i => cellq O q J i * (w * Rx i)) (seq 0 (g_nx O g))) * root O (g_nxe O g) (kx * - rx)%Z).
  { intros J w.
    set (f := fun i' : nat => cellq O q J i' * (w * root O (g_nxe O g) (- kx * (Z.of_nat i' + rx))%Z)).
    transitivity (csum O (map (fun i => f (cyc (g_nx O g) i (- rx))) (seq 0 (g_nx O g)))).
    { apply (csum_map_ext O L). intros i _. unfold f, Rx.
      rewrite (root_uncyc (g_nxe O g) (- kx) i rx) by (rewrite Exe; exact Hnx). rewrite Exe. reflexivity. }
    unfold cyc. rewrite (csum_cyclic O L (g_nx O g) (- rx) f Hnx).
    rewrite <- (csum_map_scale_r O L). apply (csum_map_ext O L). intros i _. unfold f, Rx.
    replace (- kx * (Z.of_nat i + rx))%Z with (- kx * Z.of_nat i + kx * - rx)%Z by lia.
    rewrite (root_add O L). ring. }
  (* outer sum over j *)
  set (G := fun j' : nat => csum O (map (fun i => cellq O q j' i
              * (root O (g_nye O g) (- ky * (Z.of_nat j' + ry))%Z * Rx i)) (seq 0 (g_nx O g)))).
  transitivity (csum O (map (fun j => G (cyc (g_ny O g) j (- ry))) (seq 0 (g_ny O g))) * root O (g_nxe O g) (kx * - rx)%Z).
  { rewrite <- (csum_map_scale_r O L). apply (csum_map_ext O L). intros j Hj. apply in_seq in Hj. unfold G.
    rewrite <- Hin. apply (csum_map_ext O L). intros i Hi. apply in_seq in Hi.
    rewrite Hroll by lia. unfold Ry.
    rewrite (root_uncyc (g_nye O g) (- ky) j ry) by (rewrite Eye; exact Hny). rewrite Eye. reflexivity. }
  unfold cyc. rewrite (csum_cyclic O L (g_ny O g) (- ry) G Hny).
  transitivity (csum O (map (fun j => csum O (map (fun i => cellq O q j i * (Ry j * Rx i)) (seq 0 (g_nx O g)))) (seq 0 (g_ny O g)))
                * root O (g_nye O g) (ky * - ry)%Z * root O (g_nxe O g) (kx * - rx)%Z); [|ring].
  f_equal. rewrite <- (csum_map_scale_r O L). apply (csum_map_ext O L). intros j _. unfold G.
  rewrite <- (csum_map_scale_r O L). apply (csum_map_ext O L). intros i _. unfold Ry.
  replace (- ky * (Z.of_nat j + ry))%Z with (- ky * Z.of_nat j + ky * - ry)%Z by lia.
  rewrite (root_add O L). ring.
Qed.

Theorem source_roll sel k j i :
  (forall pq s, sel (fst pq * s, snd pq * s) = sel pq * s) ->
  (forall x s, sel (fst x * s, snd x * s) = sel x * s) ->
  (k < length (a_levels O a))%nat -> (j < g_ny O g)%nat -> (i < g_nx O g)%nat ->
  (sel = fst \/ sel = snd) ->
  get3 O (field O (with_src O a q' p) g sel (table O (with_src O a q' p) g)) k j i
  = get3 O (field O (with_src O a q p) g sel (table O (with_src O a q p) g)) k
         (cyc (g_ny O g) j (- ry)) (cyc (g_nx O g) i (- rx)).
Proof.
  intros Hsel _ Hk Hj Hi Hsel2. destruct Exy as [Exe Eye].
  rewrite !(field_get O L) by (try assumption; apply cyc_lt; assumption).
  rewrite Hpx, Hpy, !Nat.add_0_r.
  replace (cyc (g_nx O g) i (- rx)) with (cyc (g_nxe O g) i (- rx)) by (rewrite Exe; reflexivity).
  replace (cyc (g_ny O g) j (- ry)) with (cyc (g_nye O g) j (- ry)) by (rewrite Eye; reflexivity).
  apply synth_translate; try assumption; try reflexivity; try (rewrite ?Exe, ?Eye; assumption).
  intros t _.
  change (shift O (with_src O a q' p) g) with (shift O (with_src O a q p) g).
  change (a_footprint O (with_src O a q p)) with (a_footprint O a). rewrite Hdisp. unfold sgn.
  rewrite (spectrum_amp O L _ g t k Hwf' Hg' Hdouble Hk), (spectrum_amp O L _ g t k Hwf Hg Hdouble Hk).
  unfold amp.
  change (a_levels O (with_src O a q' p)) with (a_levels O a). change (a_levels O (with_src O a q p)) with (a_levels O a).
  change (resist O (with_src O a q' p) g) with (resist O (with_src O a q p) g).
  change (transfer O (with_src O a q' p) g) with (transfer O (with_src O a q p) g).
  change (a_p000 O (with_src O a q' p)) with p. change (a_p000 O (with_src O a q p)) with p.
  assert (Hq : forall tx ty, q0_hat O (with_src O a q' p) g tx ty
             = q0_hat O (with_src O a q p) g tx ty
               * (root O (g_nye O g) (fftfreq (g_nly O g) ty * - ry)%Z * root O (g_nxe O g) (fftfreq (g_nlx O g) tx * - rx)%Z)).
  { intros tx ty. unfold q0_hat. cbn [a_footprint with_src]. rewrite Hdisp. apply src_hat_roll. }
  destruct t as [[|tx] [|ty]]; cbn [fst snd]; rewrite ?Hq;
    rewrite ?(fftfreq_0 O L), ?Z.mul_0_l, ?(root_0 O L);
    destruct Hsel2 as [-> | ->]; cbn [fst snd]; ring.
Qed.

End Roll.
End C06.
