(* The crosswind-integrated footprint integrates to the regularised incomplete gamma function, given only the
   defining derivative of the upper incomplete gamma function (which no installed library defines). *)
From Coq Require Import Reals Lra.
From Coquelicot Require Import Coquelicot.
From BL Require Import Model.KM.
From BL Require Import Proofs.KMProofs.
Open Scope R_scope.

Section Mass.
Variable Gamma : R -> R.
(* upper incomplete gamma function Gamma(a, t) = int_t^oo s^(a-1) e^(-s) ds: not defined in any installed
   library; only its defining derivative is assumed *)
Variable IG : R -> R -> R.
Hypothesis IG_derive : forall a t, 0 < t -> is_derive (IG a) t (- (Rpower t (a - 1) * exp (- t))).

(* regularised upper incomplete gamma at xi/X  (scipy.special.gammaincc(mu, xi/X)) *)
Definition Qreg (mu xi X : R) : R := IG mu (xi / X) / Gamma mu.

Lemma Rpower_div_distr a b e : 0 < a -> 0 < b -> Rpower (a / b) e = Rpower a e / Rpower b e.
Proof.
  intros Ha Hb. unfold Rpower, Rdiv. rewrite ln_mult, ln_Rinv by (try apply Rinv_0_lt_compat; assumption).
  rewrite <- exp_Ropp, <- exp_plus. f_equal. ring.
Qed.

Lemma Qreg_derive mu xi x : 0 < xi -> 0 < x -> Gamma mu <> 0 ->
  is_derive (fun X => Qreg mu xi X) x (fy Gamma mu xi x).
Proof.
  intros Hxi Hx HG. unfold Qreg.
  assert (Ht : 0 < xi / x) by (apply Rdiv_lt_0_compat; assumption).
  auto_derive.
  { split; [eexists; apply IG_derive; exact Ht | lra]. }
  replace (Derive (fun x0 : R => IG mu x0) (xi * / x)) with (- (Rpower (xi / x) (mu - 1) * exp (- (xi / x))))
    by (symmetry; apply is_derive_unique; apply (IG_derive mu (xi / x) Ht)).
  unfold fy.
  rewrite Rpower_div_distr by assumption.
  replace (Rpower xi mu) with (Rpower xi (mu - 1) * xi)
      by (rewrite <- (Rpower_1 xi Hxi) at 2; rewrite <- Rpower_plus; f_equal; ring).
  replace (Rpower x (1 + mu)) with (Rpower x (mu - 1) * (x * x)).
  2:{ rewrite <- (Rpower_1 x Hx) at 2 3. rewrite <- !Rpower_plus. f_equal. ring. }
  pose proof (Rpower_pos x (mu - 1)). replace (- (xi / x)) with (- xi / x) by (unfold Rdiv; ring).
  field. repeat split; lra.
Qed.

Lemma fy_continuous mu xi x : 0 < x -> continuous (fy Gamma mu xi) x.
Proof.
  intros Hx. apply (ex_derive_continuous (fy Gamma mu xi)). unfold fy, Rpower. auto_derive.
  split; [exact Hx | split; [apply Rgt_not_eq, exp_pos | split; [lra | exact I]]].
Qed.

(* the crosswind-integrated footprint between upwind distances a and X carries the mass Q(X) - Q(a) *)
Lemma mass_between mu xi a X : 0 < xi -> 0 < a <= X -> Gamma mu <> 0 ->
  is_RInt (fy Gamma mu xi) a X (Qreg mu xi X - Qreg mu xi a).
Proof.
  intros Hxi Ha HG.
  apply (is_RInt_derive (fun X => Qreg mu xi X) (fy Gamma mu xi)).
  - intros x Hxr. rewrite Rmin_left, Rmax_right in Hxr by lra. apply Qreg_derive; [exact Hxi | lra | exact HG].
  - intros x Hxr. rewrite Rmin_left, Rmax_right in Hxr by lra. apply fy_continuous. lra.
Qed.
End Mass.
