From Coq Require Import List.
From BL Require Import Model.PoolCache.
Import ListNotations.

Section P.
Context {V : Type}.
Variable v0 : V.   (* the value every worker computes for this key: the single run is pure *)

(* schedules of the code with an ATOMIC put (any get) *)
Definition atomic_op (o : @op V) : Prop := o = Get \/ o = GetTolerant \/ o = PutAtomic v0.
(* schedules of the code with a TOLERANT get (any put) *)
Definition tolerant_op (o : @op V) : Prop :=
  o = GetTolerant \/ o = WriteBegin \/ o = WriteEnd v0 \/ o = PutAtomic v0.

Definition whole_file (f : @file V) : Prop := f = Absent \/ f = Complete v0.
Definition any_file (f : @file V) : Prop := f = Absent \/ (exists k, f = Partial k) \/ f = Complete v0.

Lemma atomic_run_safe (tr : list op) : forall f,
  whole_file f -> Forall atomic_op tr ->
  Forall (fun o => worker_result v0 o = Some v0) (run f tr).
Proof.
  induction tr as [|o tr IH]; intros f Hf Htr; simpl; [constructor|].
  inversion Htr as [|o' tr' Ho Hr]; subst.
  destruct Ho as [-> | [-> | ->]].
  - constructor; [|apply IH; assumption]. destruct Hf as [-> | ->]; reflexivity.
  - constructor; [|apply IH; assumption]. destruct Hf as [-> | ->]; reflexivity.
  - simpl. apply IH; [|assumption]. destruct Hf as [-> | ->]; right; reflexivity.
Qed.

Lemma tolerant_write_any (f : @file V) (o : op) : any_file f -> tolerant_op o -> any_file (write f o).
Proof.
  intros Hf [-> | [-> | [-> | ->]]]; simpl.
  - exact Hf.
  - right; left. destruct Hf as [-> | [[k ->] | ->]]; eauto.
  - destruct Hf as [-> | [[k ->] | ->]].
    + left; reflexivity.
    + destruct k as [|[|k]]; [right; right; reflexivity|right; right; reflexivity|right; left; eauto].
    + right; right; reflexivity.
  - destruct Hf as [-> | [[k ->] | ->]]; [right; right; reflexivity|right; left; eauto|right; right; reflexivity].
Qed.

Lemma tolerant_run_safe (tr : list op) : forall f,
  any_file f -> Forall tolerant_op tr ->
  Forall (fun o => worker_result v0 o = Some v0) (run f tr).
Proof.
  induction tr as [|o tr IH]; intros f Hf Htr; simpl; [constructor|].
  inversion Htr as [|o' tr' Ho Hr]; subst.
  pose proof (tolerant_write_any f o Hf Ho) as Hw.
  destruct Ho as [-> | [-> | [-> | ->]]].
  - constructor; [|apply IH; assumption]. destruct Hf as [-> | [[k ->] | ->]]; reflexivity.
  - apply IH; assumption.
  - apply IH; assumption.
  - apply IH; assumption.
Qed.

Lemma safe_no_crash (l : list (@obs V)) :
  Forall (fun o => worker_result v0 o = Some v0) l -> ~ In Crash l.
Proof. intros H Hin. rewrite Forall_forall in H. apply H in Hin. discriminate Hin. Qed.
End P.

Lemma shared_cache_safe (V : Type) (v0 : V) (tr : list (@op V)) (f : @file V) :
  ((f = Absent \/ f = Complete v0) /\
   Forall (fun o => o = Get \/ o = GetTolerant \/ o = PutAtomic v0) tr)
  \/
  ((f = Absent \/ (exists k, f = Partial k) \/ f = Complete v0) /\
   Forall (fun o => o = GetTolerant \/ o = WriteBegin \/ o = WriteEnd v0 \/ o = PutAtomic v0) tr) ->
  Forall (fun o => worker_result v0 o = Some v0) (run f tr) /\ ~ In Crash (run f tr).
Proof.
  intros [[Hf Htr] | [Hf Htr]].
  - pose proof (atomic_run_safe v0 tr f Hf Htr) as H. split; [exact H|exact (safe_no_crash v0 _ H)].
  - pose proof (tolerant_run_safe v0 tr f Hf Htr) as H. split; [exact H|exact (safe_no_crash v0 _ H)].
Qed.

