(* C10: slot k of a multi-level request is the solution at node levels[k] — the same cell values a
   single-level request for that node returns — for ANY list of levels (order, repetitions), in
   footprint and dispersion mode, numerical and analytic branch, both storage precisions. *)
From Coq Require Import ZArith List Field Ring Lia Bool Arith.
From BL Require Import Base.Ops Base.Laws Model.Solver Proofs.Sums Proofs.StepProofs Proofs.ModeProofs Proofs.SpecProofs.
Import ListNotations.
Set Default Proof Using "All".

Section C10.
Variable O : Ops.
Hypothesis L : Laws O.
Notation C := (C O).
Notation "0" := (c0 O) : ops_scope. Notation "1" := (c1 O) : ops_scope.
Infix "+" := (cadd O) : ops_scope. Infix "*" := (cmul O) : ops_scope.
Infix "-" := (csub O) : ops_scope. Infix "/" := (cdiv O) : ops_scope.
Local Open Scope ops_scope.
Notation args := (args O).
Notation geom := (geom O).

Definition with_levels (a : args) (ls : list nat) : args :=
  mkArgs O (a_q0 O a) (a_z O a) (a_prof O a) (a_xmx O a) (a_ymx O a) ls (a_nlx O a) (a_nly O a)
         (a_xm O a) (a_ym O a) (a_p000 O a) (a_footprint O a) (a_analytic O a) (a_halo O a) (a_single O a).

Lemma wf_with_levels a ls : wf O a -> wf O (with_levels a ls).
Proof. intros [A B C0 D E F]. constructor; assumption. Qed.

(* the geometry of a sub-request is the same when its levels are valid *)
Lemma geometry_with_levels a g ls :
  geometry O a = inl g -> (forall l, In l ls -> (l < g_nz O g)%nat) ->
  geometry O (with_levels a ls) = inl g.
Proof.
  intros Hg Hls. destruct (geometry_inv O L a g Hg) as (_ & _ & Hnz & _).
  revert Hg. unfold geometry. cbn [a_nlx a_nly a_q0 a_z a_xmx a_ymx a_halo a_levels with_levels].
  destruct (Nat.odd (a_nlx O a) || Nat.odd (a_nly O a)); [discriminate|].
  destruct ((_ <? 0)%Z || (_ <? 0)%Z); [discriminate|].
  assert (Hex : existsb (fun l => (length (a_z O a) <=? l)%nat) ls = false).
  { destruct (existsb _ ls) eqn:E; [|reflexivity]. apply existsb_exists in E.
    destruct E as (l & Hl & Hle). apply Nat.leb_le in Hle. specialize (Hls l Hl). lia. }
  rewrite Hex.
  destruct ((_ <? a_nlx O a)%nat || (_ <? a_nly O a)%nat);
    (destruct (existsb _ (a_levels O a)); [discriminate|]); intros H; exact H.
Qed.

(* per-mode: the slot depends on the node index only *)
Lemma spectrum_slot a g tx ty k :
  wf O a -> geometry O a = inl g -> (k < length (a_levels O a))%nat ->
  nth k (spectrum O a g tx ty) (0, 0)
  = nth 0%nat (spectrum O (with_levels a [nth k (a_levels O a) 0%nat]) g tx ty) (0, 0).
Proof.
  intros Hwf Hg Hk.
  destruct (geometry_inv O L a g Hg) as (_ & _ & Hnz & _ & _ & _ & _ & Hlv).
  set (lv := nth k (a_levels O a) 0%nat).
  assert (Hl : (lv < length (a_z O a))%nat) by (rewrite <- Hnz; apply Hlv; apply nth_In; exact Hk).
  pose proof (wf_with_levels a [lv] Hwf) as Hwf'.
  assert (Hk' : (0 < length (a_levels O (with_levels a [lv])))%nat) by (cbn; lia).
  unfold spectrum, mode_levels, mean_levels.
  change (q0_hat O (with_levels a [lv]) g) with (q0_hat O a g).
  change (a_p000 O (with_levels a [lv])) with (a_p000 O a).
  destruct (a_analytic O a) eqn:Han.
  - destruct tx as [|tx]; destruct ty as [|ty].
    + rewrite (mean_levels_q_ana O L a g _ _ k Han Hk), (mean_levels_q_ana O L (with_levels a [lv]) g _ _ 0%nat Han Hk').
      reflexivity.
    + rewrite (mode_levels_q_ana O L a g _ _ _ k Han Hk), (mode_levels_q_ana O L (with_levels a [lv]) g _ _ _ 0%nat Han Hk').
      reflexivity.
    + rewrite (mode_levels_q_ana O L a g _ _ _ k Han Hk), (mode_levels_q_ana O L (with_levels a [lv]) g _ _ _ 0%nat Han Hk').
      reflexivity.
    + rewrite (mode_levels_q_ana O L a g _ _ _ k Han Hk), (mode_levels_q_ana O L (with_levels a [lv]) g _ _ _ 0%nat Han Hk').
      reflexivity.
  - assert (Hlay : (lv <= length (m_layers O a))%nat) by (rewrite (wf_layers O L a Hwf); lia).
    assert (Hmean : (lv <= Nat.min (length (diffs O (a_z O a))) (pred (length (p_Kz O (a_prof O a)))))%nat)
      by (rewrite (diffs_length O L), (wf_Kz O a Hwf); lia).
    destruct tx as [|tx]; destruct ty as [|ty].
    + rewrite (mean_levels_q_num O L a g _ _ k Han Hk Hmean).
      rewrite (mean_levels_q_num O L (with_levels a [lv]) g _ _ 0%nat Han Hk' Hmean). reflexivity.
    + rewrite (mode_levels_q_num O L a g _ _ _ k Han Hk Hlay).
      rewrite (mode_levels_q_num O L (with_levels a [lv]) g _ _ _ 0%nat Han Hk' Hlay). reflexivity.
    + rewrite (mode_levels_q_num O L a g _ _ _ k Han Hk Hlay).
      rewrite (mode_levels_q_num O L (with_levels a [lv]) g _ _ _ 0%nat Han Hk' Hlay). reflexivity.
    + rewrite (mode_levels_q_num O L a g _ _ _ k Han Hk Hlay).
      rewrite (mode_levels_q_num O L (with_levels a [lv]) g _ _ _ 0%nat Han Hk' Hlay). reflexivity.
Qed.

Theorem slice_is_level (a : args) r k :
  wf O a -> solve O a = inl r -> (k < length (a_levels O a))%nat ->
  let lv := nth k (a_levels O a) 0%nat in
  exists r1, solve O (with_levels a [lv]) = inl r1 /\
    nth k (r_z O r) 0 = nth0 O (a_z O a) lv /\ r_z O r1 = [nth0 O (a_z O a) lv] /\
    r_x O r1 = r_x O r /\ r_y O r1 = r_y O r /\
    forall j i, (j < length (a_q0 O a))%nat -> (i < length (hd [] (a_q0 O a)))%nat ->
                get3 O (r_conc O r) k j i = get3 O (r_conc O r1) 0%nat j i /\
                get3 O (r_flx O r) k j i = get3 O (r_flx O r1) 0%nat j i.
Proof.
  intros Hwf Hr Hk lv.
  destruct (solve_inv O L a r Hr) as (g & Hg & Hc & Hf & Hz & Hx & Hy & _).
  destruct (geometry_inv O L a g Hg) as (_ & _ & Hnz & _ & _ & _ & _ & Hlv).
  assert (Hg' : geometry O (with_levels a [lv]) = inl g).
  { apply (geometry_with_levels a g [lv] Hg). intros l [<-|[]]. apply Hlv. apply nth_In. exact Hk. }
  unfold solve at 1. rewrite Hg'. eexists. split; [reflexivity|].
  cbn [r_z r_x r_y r_conc r_flx a_levels with_levels map].
  split. { rewrite Hz. rewrite (map_nth_lt _ _ k 0%nat 0) by exact Hk. reflexivity. }
  split; [reflexivity|]. split; [rewrite Hx; reflexivity|]. split; [rewrite Hy; reflexivity|].
  intros j i Hj Hi. rewrite Hc, Hf.
  destruct (geometry_inv O L a g Hg) as (Hny & Hnx & _).
  assert (Hcell : forall sel, (forall pq s, sel (fst pq * s, snd pq * s) = sel pq * s) ->
     get3 O (field O a g sel (table O a g)) k j i
     = get3 O (field O (with_levels a [lv]) g sel (table O (with_levels a [lv]) g)) 0%nat j i).
  { intros sel Hsel.
    rewrite !(field_get O L) by (cbn [a_levels with_levels length]; try assumption; lia).
    rewrite !(synth_table O L) by (cbn [a_levels with_levels length]; try assumption; lia).
    f_equal. apply (csum_map_ext O L). intros t _. unfold term.
    rewrite (spectrum_slot a g (fst t) (snd t) k Hwf Hg Hk). reflexivity. }
  split; apply Hcell; reflexivity.
Qed.

End C10.
