From Coq Require Import List Arith Bool Lia Permutation.
From BL Require Import Model.Drivers.
Import ListNotations.

Section P.
Context {Tw N R : Type}.
Variable name : Tw -> N.
Variable N_eq_dec : forall a b : N, {a = b} + {a <> b}.
Variable single : Tw -> nat -> R.

Notation dict_set := (dict_set N_eq_dec).
Notation dict_get := (dict_get N_eq_dec).
Notation timeseries := (timeseries single).
Notation multitower := (multitower name N_eq_dec single).

(* ------------------------------------------------------------------ timeseries *)

Lemma timeseries_spec n tw :
  length (timeseries n tw) = n /\
  (forall i, i < n -> nth_error (timeseries n tw) i = Some (single tw i)) /\
  timeseries n tw = map (single tw) (seq 0 n).
Proof.
  unfold Drivers.timeseries. split; [rewrite map_length, seq_length; reflexivity|]. split; [|reflexivity].
  intros i Hi. rewrite nth_error_map.
  assert (E : nth_error (seq 0 n) i = Some i).
  { rewrite (nth_error_nth' _ 0) by (rewrite seq_length; exact Hi). rewrite seq_nth by exact Hi. reflexivity. }
  rewrite E. reflexivity.
Qed.

(* ------------------------------------------------------------------ dict *)

Section DictP.
Context {V : Type}.

Lemma dict_get_set (d : list (N * V)) k v k' :
  dict_get (dict_set d k v) k' = if N_eq_dec k' k then Some v else dict_get d k'.
Proof.
  induction d as [|[k0 v0] r IH]; simpl.
  - destruct (N_eq_dec k' k); reflexivity.
  - destruct (N_eq_dec k k0) as [E|E]; simpl.
    + subst k0. destruct (N_eq_dec k' k); reflexivity.
    + destruct (N_eq_dec k' k0) as [E0|E0].
      * subst k0. destruct (N_eq_dec k' k) as [E1|E1]; [subst; contradiction|reflexivity].
      * exact IH.
Qed.

Lemma dict_set_fresh (d : list (N * V)) k v :
  ~ In k (map fst d) -> dict_set d k v = d ++ [(k, v)].
Proof.
  induction d as [|[k0 v0] r IH]; simpl; intros H; [reflexivity|].
  destruct (N_eq_dec k k0) as [E|E]; [exfalso; apply H; left; auto|].
  rewrite IH; [reflexivity|]. intros C. apply H. right. exact C.
Qed.

Lemma dict_set_keys_in (d : list (N * V)) k v :
  In k (map fst d) -> map fst (dict_set d k v) = map fst d.
Proof.
  induction d as [|[k0 v0] r IH]; simpl; intros H; [destruct H|].
  destruct (N_eq_dec k k0) as [E|E]; simpl; [reflexivity|].
  f_equal. apply IH. destruct H as [H|H]; [congruence|exact H].
Qed.

(* assigning the pairs of a list with pairwise different keys builds exactly that list *)
Lemma fold_set_nodup {X : Type} (key : X -> N) (val : X -> V) (l : list X) : forall d,
  NoDup (map fst d ++ map key l) ->
  fold_left (fun d x => dict_set d (key x) (val x)) l d = d ++ map (fun x => (key x, val x)) l.
Proof.
  induction l as [|x l IH]; intros d H; simpl.
  - rewrite app_nil_r. reflexivity.
  - rewrite dict_set_fresh.
    + rewrite IH.
      * rewrite <- app_assoc. reflexivity.
      * rewrite map_app. simpl. rewrite <- app_assoc. simpl. exact H.
    + simpl in H. apply NoDup_remove_2 in H. intros C. apply H. apply in_or_app. left. exact C.
Qed.
End DictP.

(* ------------------------------------------------------------------ multitower *)

Lemma multitower_unique n towers :
  NoDup (map name towers) ->
  multitower n towers = map (fun tw => (name tw, timeseries n tw)) towers.
Proof.
  intros H. unfold Drivers.multitower.
  rewrite (fold_set_nodup name (timeseries n) towers []); [reflexivity|exact H].
Qed.

Lemma find_app' {X : Type} (p : X -> bool) (l1 l2 : list X) :
  find p (l1 ++ l2) = match find p l1 with Some x => Some x | None => find p l2 end.
Proof. induction l1 as [|a l1 IH]; simpl; [reflexivity|]. destruct (p a); [reflexivity|exact IH]. Qed.

(* without the unique-names hypothesis: the entry under a name is the series of the LAST tower carrying it *)
Lemma fold_get {V X : Type} (key : X -> N) (val : X -> V) (l : list X) : forall d k,
  dict_get (fold_left (fun d x => dict_set d (key x) (val x)) l d) k =
  match find (fun x => if N_eq_dec k (key x) then true else false) (rev l) with
  | Some x => Some (val x)
  | None => dict_get d k
  end.
Proof.
  induction l as [|x l IH]; intros d k; simpl; [reflexivity|].
  rewrite IH. rewrite find_app'.
  destruct (find _ (rev l)) as [y|]; [reflexivity|]. simpl.
  rewrite dict_get_set. destruct (N_eq_dec k (key x)); reflexivity.
Qed.

Lemma multitower_get n towers k :
  dict_get (multitower n towers) k =
  option_map (timeseries n) (find (fun tw => if N_eq_dec k (name tw) then true else false) (rev towers)).
Proof.
  unfold Drivers.multitower. rewrite (fold_get name (timeseries n)).
  destruct (find _ (rev towers)); reflexivity.
Qed.

(* the keys are the distinct names in the order of their first occurrence *)
Notation first_occ := (first_occ N_eq_dec).

Lemma fold_keys {V X : Type} (key : X -> N) (val : X -> V) (l : list X) : forall d,
  map fst (fold_left (fun d x => dict_set d (key x) (val x)) l d) =
  map fst d ++ first_occ (map fst d) (map key l).
Proof.
  induction l as [|x l IH]; intros d; simpl; [rewrite app_nil_r; reflexivity|].
  rewrite IH. destruct (in_dec N_eq_dec (key x) (map fst d)) as [Hin|Hin].
  - rewrite dict_set_keys_in by exact Hin. reflexivity.
  - rewrite dict_set_fresh by exact Hin. rewrite map_app. simpl. rewrite <- app_assoc. reflexivity.
Qed.

Lemma multitower_keys n towers :
  map fst (multitower n towers) = first_occ [] (map name towers).
Proof. unfold Drivers.multitower. rewrite (fold_keys name (timeseries n)). reflexivity. Qed.

(* ------------------------------------------------------------------ the pool *)

Section PoolP.
Context {X Y : Type}.
Variable f : X -> Y.
Variable tasks : list X.

Lemma set_nth_length (l : list (option Y)) j y : length (set_nth l j y) = length l.
Proof. revert j; induction l as [|a l IH]; intros [|j]; simpl; auto. Qed.

Lemma set_nth_same (l : list (option Y)) j y : j < length l -> nth_error (set_nth l j y) j = Some y.
Proof.
  revert j; induction l as [|a l IH]; intros [|j] H; simpl in *; try lia; [reflexivity|].
  apply IH. lia.
Qed.

Lemma set_nth_other (l : list (option Y)) j y i : i <> j -> nth_error (set_nth l j y) i = nth_error l i.
Proof.
  revert j i; induction l as [|a l IH]; intros [|j] [|i] H; simpl; try reflexivity; try congruence.
  apply IH. congruence.
Qed.

(* slot j is either still empty or holds f(task j) *)
Definition slot_ok (slots : list (option Y)) : Prop :=
  length slots = length tasks /\
  forall j y, nth_error slots j = Some (Some y) -> exists x, nth_error tasks j = Some x /\ y = f x.

Lemma complete_ok slots e : slot_ok slots -> slot_ok (complete f tasks slots e).
Proof.
  intros [Hl Hs]. unfold complete. destruct (nth_error tasks (snd e)) as [x|] eqn:E; [|split; assumption].
  split; [rewrite set_nth_length; exact Hl|].
  intros j y Hj. destruct (Nat.eq_dec j (snd e)) as [->|Hne].
  - rewrite set_nth_same in Hj.
    + injection Hj as <-. exists x. auto.
    + rewrite Hl. apply nth_error_Some. congruence.
  - rewrite set_nth_other in Hj by exact Hne. eauto.
Qed.

Lemma complete_filled slots e j y :
  nth_error slots j = Some (Some y) -> slot_ok slots -> nth_error (complete f tasks slots e) j = Some (Some y).
Proof.
  intros Hj [Hl Hs]. unfold complete. destruct (nth_error tasks (snd e)) as [x|] eqn:E; [|exact Hj].
  destruct (Nat.eq_dec j (snd e)) as [->|Hne].
  - rewrite set_nth_same by (rewrite Hl; apply nth_error_Some; congruence).
    destruct (Hs _ _ Hj) as (x' & Hx' & ->). congruence.
  - rewrite set_nth_other by exact Hne. exact Hj.
Qed.

Lemma fold_complete sched : forall slots, slot_ok slots ->
  slot_ok (fold_left (complete f tasks) sched slots) /\
  (forall j x, nth_error tasks j = Some x ->
     (In j (map snd sched) \/ nth_error slots j = Some (Some (f x))) ->
     nth_error (fold_left (complete f tasks) sched slots) j = Some (Some (f x))).
Proof.
  induction sched as [|e sched IH]; intros slots Hok; simpl.
  - split; [exact Hok|]. intros j x Hx [[]|H]; exact H.
  - destruct (IH (complete f tasks slots e) (complete_ok slots e Hok)) as [IH1 IH2].
    split; [exact IH1|]. intros j x Hx H. apply IH2; [exact Hx|].
    destruct H as [[He|Hin]|Hf].
    + right. subst j. unfold complete. rewrite Hx. apply set_nth_same.
      destruct Hok as [Hl _]. rewrite Hl. apply nth_error_Some. congruence.
    + left. exact Hin.
    + right. apply complete_filled; assumption.
Qed.

Lemma collect_all (l : list (option Y)) (ys : list Y) :
  length l = length ys -> (forall j y, nth_error ys j = Some y -> nth_error l j = Some (Some y)) ->
  collect l = Some ys.
Proof.
  revert ys; induction l as [|a l IH]; intros [|y ys] Hl H; simpl in *; try discriminate; [reflexivity|].
  pose proof (H 0 y eq_refl) as H0. simpl in H0. injection H0 as ->.
  rewrite (IH ys); [reflexivity|lia|]. intros j y' Hj. apply (H (S j)). exact Hj.
Qed.

(* every submitted task completes at least once (in particular: the completions are a permutation of the
   submissions) => the pool returns the results in submission order *)
Lemma pool_map_covered sched :
  (forall j, j < length tasks -> In j (map snd sched)) ->
  pool_map f tasks sched = Some (map f tasks).
Proof.
  intros Hcov. unfold pool_map, pool_slots.
  assert (Hok : slot_ok (repeat None (length tasks))).
  { split; [apply repeat_length|]. intros j y Hj. exfalso.
    apply nth_error_In in Hj. apply repeat_spec in Hj. discriminate. }
  destruct (fold_complete sched _ Hok) as [[Hl _] Hall].
  apply collect_all; [rewrite Hl, map_length; reflexivity|].
  intros j y Hj. rewrite nth_error_map in Hj. destruct (nth_error tasks j) as [x|] eqn:Hx; [|discriminate].
  injection Hj as <-. apply Hall; [exact Hx|]. left. apply Hcov. apply nth_error_Some. congruence.
Qed.

Lemma pool_map_any_order workers sched :
  valid_sched workers (length tasks) sched -> pool_map f tasks sched = Some (map f tasks).
Proof.
  intros [_ Hp]. apply pool_map_covered. intros j Hj.
  apply (Permutation_in j (Permutation_sym Hp)). apply in_seq. lia.
Qed.
End PoolP.

(* ------------------------------------------------------------------ re-assembly of the flat list *)

Lemma chunk_at (pre : list (list R)) (l : list R) (post : list R) n :
  Forall (fun x => length x = n) pre -> length l = n ->
  firstn n (skipn (length pre * n) (concat pre ++ l ++ post)) = l.
Proof.
  intros Hpre Hl.
  assert (E : length (concat pre) = length pre * n).
  { induction Hpre as [|x pre Hx Hpre IH]; simpl; [reflexivity|]. rewrite app_length, IH, Hx. reflexivity. }
  rewrite <- E. rewrite skipn_app, skipn_all, Nat.sub_diag. simpl.
  rewrite <- Hl. rewrite firstn_app, firstn_all, Nat.sub_diag. simpl. apply app_nil_r.
Qed.

Lemma both_reassembly n (ll : list (list R)) j l :
  Forall (fun x => length x = n) ll -> nth_error ll j = Some l ->
  firstn n (skipn (j * n) (concat ll)) = l.
Proof.
  intros Hall Hj. destruct (nth_error_split ll j Hj) as (pre & post & -> & Hlen).
  rewrite concat_app. simpl. subst j.
  apply Forall_app in Hall. destruct Hall as [Hpre Hrest].
  apply chunk_at; [exact Hpre|]. inversion Hrest; assumption.
Qed.

Lemma both_tasks_map n towers :
  map (fun p => single (fst p) (snd p)) (both_tasks n towers) = concat (map (timeseries n) towers).
Proof.
  unfold both_tasks. induction towers as [|tw r IH]; simpl; [reflexivity|].
  rewrite map_app, IH. f_equal. unfold Drivers.timeseries. rewrite map_map. reflexivity.
Qed.

Lemma chunk_loop_spec n : forall towers (pre : list Tw) d,
  chunk_loop name N_eq_dec n towers (length pre * n) (concat (map (timeseries n) (pre ++ towers))) d =
  fold_left (fun d tw => dict_set d (name tw) (timeseries n tw)) towers d.
Proof.
  induction towers as [|tw r IH]; intros pre d; simpl; [reflexivity|].
  assert (E : firstn n (skipn (length pre * n) (concat (map (timeseries n) (pre ++ tw :: r)))) = timeseries n tw).
  { rewrite map_app, concat_app. simpl. rewrite <- (map_length (timeseries n) pre).
    apply chunk_at.
    - apply Forall_forall. intros x Hx. apply in_map_iff in Hx. destruct Hx as (t & <- & _).
      apply (proj1 (timeseries_spec n t)).
    - apply (proj1 (timeseries_spec n tw)). }
  rewrite E.
  replace (length pre * n + n) with (length (pre ++ [tw]) * n) by (rewrite app_length; simpl; lia).
  replace (pre ++ tw :: r) with ((pre ++ [tw]) ++ r) by (rewrite <- app_assoc; reflexivity).
  apply IH.
Qed.

(* ------------------------------------------------------------------ the three strategies *)

Lemma par_towers_eq workers n towers sched :
  valid_sched workers (length towers) sched ->
  par_towers name N_eq_dec single n towers sched = Some (multitower n towers).
Proof.
  intros Hs. unfold par_towers. rewrite (pool_map_any_order _ _ workers sched Hs).
  clear Hs. f_equal. unfold dict_of_pairs, Drivers.multitower.
  generalize (@nil (N * list R)). induction towers as [|tw r IH]; intros d; simpl; [reflexivity|].
  apply IH.
Qed.

Lemma par_time_loop_eq workers n scheds : forall towers k0 d,
  (forall k, k < length towers -> valid_sched workers n (scheds (k0 + k))) ->
  par_time_loop name N_eq_dec single n towers k0 scheds d =
  Some (fold_left (fun d tw => dict_set d (name tw) (timeseries n tw)) towers d).
Proof.
  induction towers as [|tw r IH]; intros k0 d Hs; simpl; [reflexivity|].
  assert (H0 : valid_sched workers (length (seq 0 n)) (scheds k0)).
  { rewrite seq_length. specialize (Hs 0). rewrite Nat.add_0_r in Hs. apply Hs. simpl. lia. }
  rewrite (pool_map_any_order (single tw) (seq 0 n) workers (scheds k0) H0).
  apply IH. intros k Hk. replace (S k0 + k) with (k0 + S k) by lia. apply Hs. simpl. lia.
Qed.

Lemma par_time_eq workers n towers scheds :
  (forall k, k < length towers -> valid_sched workers n (scheds k)) ->
  par_time name N_eq_dec single n towers scheds = Some (multitower n towers).
Proof.
  intros Hs. unfold par_time, Drivers.multitower. apply (par_time_loop_eq workers). exact Hs.
Qed.

Lemma par_both_eq workers n towers sched :
  valid_sched workers (length towers * n) sched ->
  par_both name N_eq_dec single n towers sched = Some (multitower n towers).
Proof.
  intros Hs. unfold par_both.
  assert (Hlen : length (both_tasks n towers) = length towers * n).
  { clear Hs. unfold both_tasks. induction towers as [|tw r IH]; simpl; [reflexivity|].
    rewrite app_length, map_length, seq_length. f_equal. exact IH. }
  rewrite (pool_map_any_order _ _ workers sched); [|rewrite Hlen; exact Hs].
  rewrite both_tasks_map. f_equal.
  exact (chunk_loop_spec n towers [] []).
Qed.

Lemma parallel_eq_serial workers n towers :
  1 <= workers ->
  (forall sched, valid_sched workers (length towers) sched ->
     par_towers name N_eq_dec single n towers sched = Some (multitower n towers)) /\
  (forall scheds, (forall k, k < length towers -> valid_sched workers n (scheds k)) ->
     par_time name N_eq_dec single n towers scheds = Some (multitower n towers)) /\
  (forall sched, valid_sched workers (length towers * n) sched ->
     par_both name N_eq_dec single n towers sched = Some (multitower n towers)).
Proof.
  intros _. split; [|split].
  - intros sched. apply par_towers_eq.
  - intros scheds. apply par_time_eq.
  - intros sched. apply par_both_eq.
Qed.

Lemma multitower_duplicates n towers :
  map fst (multitower n towers) = first_occ [] (map name towers) /\
  forall k, dict_get (multitower n towers) k =
    option_map (timeseries n) (find (fun tw => if N_eq_dec k (name tw) then true else false) (rev towers)).
Proof. split; [apply multitower_keys|intros k; apply multitower_get]. Qed.

End P.

From BL Require Import Model.Met.
Lemma timeseries_met (Tw R A T : Type) (single : Tw -> nat -> R) (m : met A T) (tw : Tw) :
  length (timeseries single (n_timesteps m) tw) = n_timesteps m /\
  (forall i, i < n_timesteps m -> nth_error (timeseries single (n_timesteps m) tw) i = Some (single tw i)) /\
  timeseries single (n_timesteps m) tw = map (single tw) (seq 0 (n_timesteps m)).
Proof. exact (timeseries_spec single (n_timesteps m) tw). Qed.
