(* Per-mode algebra of the shooting scheme: trajectories, level recording (C10), linearity of
   the sweeps (C04), the discrete boundary-value problem solved by the shooting combination
   (C01), Taylor/eigen structure of the layer step (C05). *)
From Coq Require Import ZArith List Field Ring Lia Bool Arith.
From BL Require Import Base.Ops Base.Laws Model.Solver Proofs.Sums.
Import ListNotations.
Set Default Proof Using "All".

Section Step.
Variable O : Ops.
Hypothesis L : Laws O.
Notation C := (C O).
Notation "0" := (c0 O) : ops_scope. Notation "1" := (c1 O) : ops_scope.
Infix "+" := (cadd O) : ops_scope. Infix "*" := (cmul O) : ops_scope.
Infix "-" := (csub O) : ops_scope. Infix "/" := (cdiv O) : ops_scope.
Notation "- x" := (copp O x) : ops_scope.
Local Open Scope ops_scope.
Add Field OFst : (L_field O L).

Notation layer := (layer O).
Notation step := (step O).

(* ---------------------------------------------------------------- trajectories *)

(* states at nodes 0 .. length layers *)
Fixpoint traj (lx ly : C) (layers : list layer) (st : C * C) : list (C * C) :=
  match layers with
  | [] => [st]
  | Lr :: rest => st :: traj lx ly rest (step lx ly Lr st)
  end.

Definition final (lx ly : C) (layers : list layer) (st : C * C) : C * C :=
  fold_left (fun s Lr => step lx ly Lr s) layers st.

Lemma traj_length lx ly layers st : length (traj lx ly layers st) = S (length layers).
Proof. revert st. induction layers as [|Lr r IH]; intros st; simpl; [reflexivity|]. rewrite IH. reflexivity. Qed.

Lemma traj_last lx ly layers st d :
  nth (length layers) (traj lx ly layers st) d = final lx ly layers st.
Proof. revert st. induction layers as [|Lr r IH]; intros st; simpl; [reflexivity|]. apply IH. Qed.

Lemma traj_0 lx ly layers st d : nth 0%nat (traj lx ly layers st) d = st.
Proof. destruct layers; reflexivity. Qed.

(* the recurrence: consecutive states are related by the layer step *)
Lemma traj_step lx ly layers st d i Ld :
  (i < length layers)%nat ->
  nth (S i) (traj lx ly layers st) d = step lx ly (nth i layers Ld) (nth i (traj lx ly layers st) d).
Proof.
  revert st i. induction layers as [|Lr r IH]; intros st i Hi; simpl in Hi; [lia|].
  destruct i as [|i].
  - simpl. rewrite traj_0. reflexivity.
  - change (nth (S (S i)) (traj lx ly (Lr :: r) st) d) with (nth (S i) (traj lx ly r (step lx ly Lr st)) d).
    change (nth (S i) (traj lx ly (Lr :: r) st) d) with (nth i (traj lx ly r (step lx ly Lr st)) d).
    change (nth (S i) (Lr :: r) Ld) with (nth i r Ld).
    apply IH. lia.
Qed.

(* ---------------------------------------------------------------- recording (C10) *)

Lemma record_length levels i x rec :
  length rec = length levels -> length (record O levels i x rec) = length levels.
Proof. intros H. unfold record. rewrite map_length, combine_length, H. apply Nat.min_id. Qed.

Lemma record_nth levels i x rec k d :
  length rec = length levels -> (k < length levels)%nat ->
  nth k (record O levels i x rec) d = if Nat.eqb (nth k levels 0%nat) i then x else nth k rec d.
Proof.
  intros Hl Hk. unfold record.
  set (f := fun lr : nat * C => if Nat.eqb (fst lr) i then x else snd lr).
  rewrite (nth_indep _ d (f (0%nat, d))).
  2:{ rewrite map_length, combine_length, Hl, Nat.min_id. exact Hk. }
  rewrite map_nth, combine_nth by (symmetry; exact Hl). reflexivity.
Qed.

Lemma zeros_length n : length (zeros O n) = n.
Proof. apply repeat_length. Qed.

(* what ivp_loop leaves in slot k after sweeping `layers` starting at node index i *)
Lemma ivp_loop_spec lx ly levels layers : forall i st rp rq,
  length rp = length levels -> length rq = length levels ->
  let '(stf, rp', rq') := ivp_loop O lx ly layers i levels st rp rq in
  stf = final lx ly layers st /\
  length rp' = length levels /\ length rq' = length levels /\
  forall k d, (k < length levels)%nat ->
    let l := nth k levels 0%nat in
    nth k rp' d = (if (i <=? l)%nat && (l <? i + length layers)%nat
                   then fst (nth (l - i) (traj lx ly layers st) (d, d)) else nth k rp d) /\
    nth k rq' d = (if (i <=? l)%nat && (l <? i + length layers)%nat
                   then snd (nth (l - i) (traj lx ly layers st) (d, d)) else nth k rq d).
Proof.
  induction layers as [|Lr r IH]; intros i st rp rq Hp Hq.
  - cbn [ivp_loop]. repeat split; auto. 
    + intros. cbn [length]. replace (i <=? nth k levels 0%nat)%nat with (negb (nth k levels 0 <? i)%nat)
        by (rewrite Nat.leb_antisym; reflexivity).
      rewrite Nat.add_0_r. destruct (nth k levels 0%nat <? i)%nat; reflexivity.
    + intros. cbn [length]. rewrite Nat.add_0_r.
      destruct (i <=? nth k levels 0%nat)%nat eqn:E1; destruct (nth k levels 0%nat <? i)%nat eqn:E2; try reflexivity.
      apply Nat.leb_le in E1. apply Nat.ltb_lt in E2. lia.
  - cbn [ivp_loop].
    specialize (IH (S i) (step lx ly Lr st) (record O levels i (fst st) rp) (record O levels i (snd st) rq)).
    rewrite !record_length in IH by assumption. specialize (IH eq_refl eq_refl).
    destruct (ivp_loop O lx ly r (S i) levels (step lx ly Lr st) (record O levels i (fst st) rp)
                (record O levels i (snd st) rq)) as [[stf rp'] rq'].
    destruct IH as (Hf & Hlp & Hlq & Hk).
    split; [exact Hf|]. split; [exact Hlp|]. split; [exact Hlq|].
    intros k d Hlt. specialize (Hk k d Hlt). cbv zeta in Hk. destruct Hk as [Hkp Hkq].
    rewrite !record_nth in Hkp, Hkq by assumption.
    cbn [length traj]. set (l := nth k levels 0%nat) in *.
    destruct (Nat.eqb l i) eqn:Eli.
    + apply Nat.eqb_eq in Eli.
      assert (E1 : (S i <=? l)%nat = false) by (apply Nat.leb_gt; lia).
      rewrite E1 in Hkp, Hkq. cbn [andb] in Hkp, Hkq.
      assert (E2 : (i <=? l)%nat = true) by (apply Nat.leb_le; lia).
      assert (E3 : (l <? i + S (length r))%nat = true) by (apply Nat.ltb_lt; lia).
      rewrite E2, E3. cbn [andb]. replace (l - i)%nat with 0%nat by lia. cbn [nth].
      split; assumption.
    + apply Nat.eqb_neq in Eli.
      destruct ((S i <=? l)%nat && (l <? S i + length r)%nat) eqn:Ein.
      * apply andb_true_iff in Ein. destruct Ein as [Ea Eb].
        apply Nat.leb_le in Ea. apply Nat.ltb_lt in Eb.
        assert (E2 : (i <=? l)%nat = true) by (apply Nat.leb_le; lia).
        assert (E3 : (l <? i + S (length r))%nat = true) by (apply Nat.ltb_lt; lia).
        rewrite E2, E3. cbn [andb]. replace (l - i)%nat with (S (l - S i)) by lia. cbn [nth].
        split; assumption.
      * assert (Eout : (i <=? l)%nat && (l <? i + S (length r))%nat = false).
        { apply andb_false_iff in Ein. apply andb_false_iff.
          destruct Ein as [Ea|Eb].
          - apply Nat.leb_gt in Ea. left. apply Nat.leb_gt. lia.
          - apply Nat.ltb_ge in Eb. right. apply Nat.ltb_ge. lia. }
        rewrite Eout. split; assumption.
Qed.

(* C10 (numerical sweep): slot k holds the state at node levels[k], for ANY list of levels *)
Lemma ivp_spec lx ly layers levels st0 :
  let '(stf, rp, rq) := ivp O lx ly layers levels st0 in
  stf = final lx ly layers st0 /\
  length rp = length levels /\ length rq = length levels /\
  forall k d, (k < length levels)%nat -> (nth k levels 0%nat <= length layers)%nat ->
    nth k rp d = fst (nth (nth k levels 0%nat) (traj lx ly layers st0) (d, d)) /\
    nth k rq d = snd (nth (nth k levels 0%nat) (traj lx ly layers st0) (d, d)).
Proof.
  unfold ivp.
  pose proof (ivp_loop_spec lx ly levels layers 0%nat st0 (zeros O (length levels)) (zeros O (length levels))
               (zeros_length _) (zeros_length _)) as H.
  destruct (ivp_loop O lx ly layers 0%nat levels st0 (zeros O (length levels)) (zeros O (length levels)))
    as [[stf rp] rq].
  destruct H as (Hf & Hlp & Hlq & Hk).
  split; [exact Hf|]. rewrite !record_length by assumption.
  split; [reflexivity|]. split; [reflexivity|].
  intros k d Hlt Hle. rewrite !record_nth by assumption.
  specialize (Hk k d Hlt). cbv zeta in Hk. destruct Hk as [Hkp Hkq].
  set (l := nth k levels 0%nat) in *.
  destruct (Nat.eqb l (length layers)) eqn:El.
  - apply Nat.eqb_eq in El. rewrite El, traj_last, Hf. split; reflexivity.
  - apply Nat.eqb_neq in El.
    assert (E : (0 <=? l)%nat && (l <? 0 + length layers)%nat = true).
    { apply andb_true_iff. split; [apply Nat.leb_le; lia|apply Nat.ltb_lt; lia]. }
    rewrite E, Nat.sub_0_r in Hkp, Hkq. split; assumption.
Qed.

(* ---------------------------------------------------------------- linearity (C04) *)

Definition sadd (x y : C * C) : C * C := (fst x + fst y, snd x + snd y).
Definition sscale (s : C) (x : C * C) : C * C := (s * fst x, s * snd x).

Lemma step_add lx ly Lr x y : step lx ly Lr (sadd x y) = sadd (step lx ly Lr x) (step lx ly Lr y).
Proof. unfold Solver.step, sadd; cbn [fst snd]. f_equal; ring. Qed.
Lemma step_scale lx ly Lr s x : step lx ly Lr (sscale s x) = sscale s (step lx ly Lr x).
Proof. unfold Solver.step, sscale; cbn [fst snd]. f_equal; ring. Qed.

Lemma traj_add lx ly layers : forall x y k d,
  nth k (traj lx ly layers (sadd x y)) (sadd d d)
  = sadd (nth k (traj lx ly layers x) d) (nth k (traj lx ly layers y) d).
Proof.
  induction layers as [|Lr r IH]; intros x y k d.
  - destruct k as [|[|k]]; reflexivity.
  - destruct k as [|k]; [reflexivity|]. cbn [traj nth]. rewrite step_add. apply IH.
Qed.
Lemma traj_scale lx ly layers : forall s x k d,
  nth k (traj lx ly layers (sscale s x)) (sscale s d) = sscale s (nth k (traj lx ly layers x) d).
Proof.
  induction layers as [|Lr r IH]; intros s x k d.
  - destruct k as [|[|k]]; reflexivity.
  - destruct k as [|k]; [reflexivity|]. cbn [traj nth]. rewrite step_scale. apply IH.
Qed.

Lemma final_add lx ly layers x y : final lx ly layers (sadd x y) = sadd (final lx ly layers x) (final lx ly layers y).
Proof.
  rewrite <- !(traj_last lx ly layers _ (0, 0)). 
  replace ((0, 0) : C * C) with (sadd (0, 0) (0, 0)) at 1 by (unfold sadd; cbn [fst snd]; f_equal; ring).
  apply traj_add.
Qed.
Lemma final_scale lx ly layers s x : final lx ly layers (sscale s x) = sscale s (final lx ly layers x).
Proof.
  rewrite <- !(traj_last lx ly layers _ (0, 0)).
  replace ((0, 0) : C * C) with (sscale s (0, 0)) at 1 by (unfold sscale; cbn [fst snd]; f_equal; ring).
  apply traj_scale.
Qed.

(* ---------------------------------------------------------------- the discrete BVP (C01) *)

(* the shooting combination: trajectory alpha*y1 + y2 *)
Definition shoot_traj lx ly layers (al qh : C) (k : nat) : C * C :=
  sadd (sscale al (nth k (traj lx ly layers (1, 0)) (0, 0))) (nth k (traj lx ly layers (0, qh)) (0, 0)).

Lemma shoot_is_traj lx ly layers al qh k :
  shoot_traj lx ly layers al qh k = nth k (traj lx ly layers (al, qh)) (0, 0).
Proof.
  unfold shoot_traj.
  replace (al, qh) with (sadd (sscale al (1, 0)) (0, qh)) by (unfold sadd, sscale; cbn [fst snd]; f_equal; ring).
  replace ((0, 0) : C * C) with (sadd (0, 0) (0, 0)) at 3 by (unfold sadd; cbn [fst snd]; f_equal; ring).
  rewrite traj_add.
  replace ((0, 0) : C * C) with (sscale al (0, 0)) at 3 by (unfold sscale; cbn [fst snd]; f_equal; ring).
  rewrite traj_scale. reflexivity.
Qed.

(* with alpha from the code, the final state meets the radiation condition q_N = Kz_N*eig*p_N *)
Lemma shoot_top_bc lx ly layers KzN eig qh :
  let y1 := final lx ly layers (1, 0) in
  let y2 := final lx ly layers (0, qh) in
  snd y1 - KzN * eig * fst y1 <> 0 ->
  let al := alpha O KzN eig (fst y1) (snd y1) (fst y2) (snd y2) in
  let yN := final lx ly layers (al, qh) in
  snd yN = KzN * eig * fst yN.
Proof.
  cbv zeta. intros Hden.
  replace (alpha O KzN eig (fst (final lx ly layers (1, 0))) (snd (final lx ly layers (1, 0)))
             (fst (final lx ly layers (0, qh))) (snd (final lx ly layers (0, qh))), qh)
    with (sadd (sscale (alpha O KzN eig (fst (final lx ly layers (1, 0))) (snd (final lx ly layers (1, 0)))
             (fst (final lx ly layers (0, qh))) (snd (final lx ly layers (0, qh)))) (1, 0)) (0, qh))
    by (unfold sadd, sscale; cbn [fst snd]; f_equal; ring).
  rewrite final_add, final_scale. unfold sadd, sscale, alpha. cbn [fst snd].
  set (p1 := fst (final lx ly layers (1, 0))) in *. set (q1 := snd (final lx ly layers (1, 0))) in *.
  set (p2 := fst (final lx ly layers (0, qh))). set (q2 := snd (final lx ly layers (0, qh))).
  field. exact Hden.
Qed.

(* uniqueness: any trajectory of the recurrence that starts with flux qh and meets the top
   condition starts with p0 = alpha *)
Lemma shoot_unique lx ly layers KzN eig qh p0 :
  let y1 := final lx ly layers (1, 0) in
  let y2 := final lx ly layers (0, qh) in
  snd y1 - KzN * eig * fst y1 <> 0 ->
  snd (final lx ly layers (p0, qh)) = KzN * eig * fst (final lx ly layers (p0, qh)) ->
  p0 = alpha O KzN eig (fst y1) (snd y1) (fst y2) (snd y2).
Proof.
  cbv zeta. intros Hden.
  replace (p0, qh) with (sadd (sscale p0 (1, 0)) (0, qh)) by (unfold sadd, sscale; cbn [fst snd]; f_equal; ring).
  rewrite final_add, final_scale. unfold sadd, sscale, alpha. cbn [fst snd].
  set (p1 := fst (final lx ly layers (1, 0))) in *. set (q1 := snd (final lx ly layers (1, 0))) in *.
  set (p2 := fst (final lx ly layers (0, qh))). set (q2 := snd (final lx ly layers (0, qh))).
  intros H.
  assert (E : p0 * (q1 - KzN * eig * p1) = - (q2 - KzN * eig * p2)).
  { transitivity ((p0 * q1 + q2) - KzN * eig * (p0 * p1 + p2) - (q2 - KzN * eig * p2)); [ring|].
    rewrite H. ring. }
  transitivity (p0 * (q1 - KzN * eig * p1) / (q1 - KzN * eig * p1)); [field; exact Hden|].
  rewrite E. reflexivity.
Qed.

(* ---------------------------------------------------------------- Taylor / eigen structure (C05) *)

Definition E3 (x : C) : C := 1 + x + x * x * half O + x * x * x * sixth O.

(* entries of the step = third-order Taylor polynomial of exp(dz*M), M = [[0,-1/Kz],[T,0]] *)
Lemma step_is_taylor3 Kz T dz :
  Kz <> 0 ->
  let Kzinv := 1 / Kz in
  let m12 := - Kzinv in let m21 := T in
  let s := - (T * Kzinv) in                       (* M^2 = s*I, M^3 = s*M *)
  coef_a O Kzinv T dz = 1 + dz * dz * half O * s /\
  coef_b O Kzinv T dz = dz * m12 + dz * dz * dz * sixth O * (s * m12) /\
  coef_c O Kzinv T dz = dz * m21 + dz * dz * dz * sixth O * (s * m21) /\
  coef_d O Kzinv T dz = 1 + dz * dz * half O * s.
Proof.
  intros HK. cbv zeta. unfold coef_a, coef_b, coef_c, coef_d.
  repeat split; field; exact HK.
Qed.

(* eigenvectors v-+ = (1, +-Kz*lam) with lam^2 = -T/Kz: step v = E3(-+ lam dz) v *)
Lemma step_eigen_minus Kz T dz lam :
  Kz <> 0 -> lam * lam = - (T / Kz) ->
  let Kzinv := 1 / Kz in
  coef_a O Kzinv T dz + coef_b O Kzinv T dz * (Kz * lam) = E3 (- (lam * dz)) /\
  coef_c O Kzinv T dz + coef_d O Kzinv T dz * (Kz * lam) = E3 (- (lam * dz)) * (Kz * lam).
Proof.
  intros HK Hl. cbv zeta. unfold coef_a, coef_b, coef_c, coef_d, E3, half, sixth.
  zlits O L.
  assert (HT : T = - (Kz * (lam * lam))). { rewrite Hl. field. exact HK. }
  rewrite HT. split; field; solve_nz O L.
Qed.

Lemma step_eigen_plus Kz T dz lam :
  Kz <> 0 -> lam * lam = - (T / Kz) ->
  let Kzinv := 1 / Kz in
  coef_a O Kzinv T dz - coef_b O Kzinv T dz * (Kz * lam) = E3 (lam * dz) /\
  coef_c O Kzinv T dz - coef_d O Kzinv T dz * (Kz * lam) = - (E3 (lam * dz) * (Kz * lam)).
Proof.
  intros HK Hl. cbv zeta. unfold coef_a, coef_b, coef_c, coef_d, E3, half, sixth.
  zlits O L.
  assert (HT : T = - (Kz * (lam * lam))). { rewrite Hl. field. exact HK. }
  rewrite HT. split; field; solve_nz O L.
Qed.

End Step.
