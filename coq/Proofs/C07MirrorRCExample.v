(* Non-vacuity of the hypotheses of the re-centred mirror theorems (Proofs/C07MirrorRC.v): a concrete
   dispersion request over the complex instance ROps — 2 x 3 source, measurement point (1, 1) in a
   3 x 2 domain, double storage — is well-formed, has a geometry, takes the re-centring branch, and so
   do its x- and y-reflected requests (measurement points (2, 1) and (1, 1)); once with an even
   retained mode count (2, 2) and once with a request (4, 4) above the grid, clamped to the odd
   count nlx = 3.  Also: the excluded case — xm = xmx, ym = 0 is re-centred but its reflection is the
   origin, which is not. *)
From Coq Require Import ZArith List Reals Lra Bool.
From Coquelicot Require Import Complex.
From BL Require Import Base.Ops Base.Laws Base.ROps Model.Solver Proofs.SpecProofs Proofs.C07Mirror Proofs.C07MirrorRC.
Import ListNotations.
Local Open Scope R_scope.

Definition ex_prof : profiles ROps :=
  mkProf ROps [RtoC 2; RtoC 3] [RtoC 1; RtoC 1] [RtoC 1; RtoC 2] [RtoC 1; RtoC 2] [RtoC 1; RtoC 2].

Definition ex_args (nl : nat) (xm ym : CC) : args ROps :=
  mkArgs ROps [[RtoC 1; RtoC 2; RtoC 3]; [RtoC 4; RtoC 5; RtoC 6]] [RtoC 1; RtoC 2] ex_prof
         (RtoC 3) (RtoC 2) [1%nat] nl nl xm ym (RtoC 0) false false (Some (RtoC 0)) false.

Definition ex_geom (nlx nly : nat) : geom ROps :=
  mkGeom ROps 3 2 2 (cdiv ROps (RtoC 3) (cofZ ROps (Z.of_nat 3))) (cdiv ROps (RtoC 2) (cofZ ROps (Z.of_nat 2)))
         0 0 3 2 nlx nly.

Lemma trunc_zero_div (d : CC) : ctrunc ROps (cdiv ROps (RtoC 0) d) = 0%Z.
Proof.
  replace (cdiv ROps (RtoC 0) d) with (c0 ROps); [apply (L_trunc_0 ROps ROps_laws)|].
  change (RtoC 0 = Cdiv (RtoC 0) d). unfold Cdiv. ring.
Qed.

Lemma ex_geometry_even xm ym : geometry ROps (ex_args 2 xm ym) = inl (ex_geom 2 2).
Proof.
  unfold geometry. cbn [ex_args a_nlx a_nly a_q0 a_z a_halo a_xmx a_ymx a_levels length hd Nat.odd orb negb].
  rewrite !trunc_zero_div. reflexivity.
Qed.

Lemma ex_geometry_odd xm ym : geometry ROps (ex_args 4 xm ym) = inl (ex_geom 3 2).
Proof.
  unfold geometry. cbn [ex_args a_nlx a_nly a_q0 a_z a_halo a_xmx a_ymx a_levels length hd Nat.odd orb negb].
  rewrite !trunc_zero_div. reflexivity.
Qed.

Lemma ex_wf nl xm ym : wf ROps (ex_args nl xm ym).
Proof.
  constructor; try reflexivity.
  intros row [<-|[<-|[]]]; reflexivity.
Qed.

Lemma pos_guard (x y : CC) : 0 < fst (Cplus (Cmult x x) (Cmult y y)) ->
  cltb ROps (c0 ROps) (cadd ROps (cmul ROps x x) (cmul ROps y y)) = true.
Proof.
  intros H. change (cltb ROps ?a ?b) with (if Rlt_dec (fst a) (fst b) then true else false).
  destruct (Rlt_dec _ _) as [_|n]; [reflexivity|]. exfalso. apply n. exact H.
Qed.

Lemma ex_recentred nl : recentred ROps (ex_args nl (RtoC 1) (RtoC 1)) = true
  /\ recentred ROps (mirror_rc_args ROps (ex_args nl (RtoC 1) (RtoC 1))) = true
  /\ recentred ROps (mirror_y_rc_args ROps (ex_args nl (RtoC 1) (RtoC 1))) = true.
Proof.
  unfold recentred. cbn [ex_args mirror_rc_args mirror_y_rc_args a_xm a_ym a_xmx a_ymx].
  repeat split; apply pos_guard; cbn; lra.
Qed.

Theorem mirror_rc_hypotheses_satisfiable :
  forall nl g, (nl = 2%nat /\ g = ex_geom 2 2) \/ (nl = 4%nat /\ g = ex_geom 3 2) ->
  let a := ex_args nl (RtoC 1) (RtoC 1) in
  wf ROps a /\ geometry ROps a = inl g /\ a_footprint ROps a = false /\ a_single ROps a = false /\
  recentred ROps a = true /\ recentred ROps (mirror_rc_args ROps a) = true /\
  recentred ROps (mirror_y_rc_args ROps a) = true /\
  (0 < length (a_levels ROps a))%nat /\ (0 < g_ny ROps g)%nat /\ (0 < g_nx ROps g)%nat /\
  a_xm ROps (mirror_rc_args ROps a) = RtoC 2 /\ a_ym ROps (mirror_y_rc_args ROps a) = RtoC 1.
Proof.
  intros nl g Hc a. destruct (ex_recentred nl) as (R1 & R2 & R3).
  assert (Hg : geometry ROps a = inl g).
  { destruct Hc as [[-> ->]|[-> ->]]; [apply ex_geometry_even|apply ex_geometry_odd]. }
  assert (Hn : (0 < g_ny ROps g)%nat /\ (0 < g_nx ROps g)%nat).
  { destruct Hc as [[_ ->]|[_ ->]]; cbn; split; repeat constructor. }
  repeat split; try assumption; try apply ex_wf; try reflexivity; try apply Hn.
  - cbn. repeat constructor.
  - cbn [a mirror_rc_args ex_args a_xm a_xmx]. change (csub ROps ?x ?y) with (Cminus x y).
    unfold Cminus, Cplus, Copp, RtoC. cbn [fst snd]. f_equal; ring.
  - cbn [a mirror_y_rc_args ex_args a_ym a_ymx]. change (csub ROps ?x ?y) with (Cminus x y).
    unfold Cminus, Cplus, Copp, RtoC. cbn [fst snd]. f_equal; ring.
Qed.

Lemma ex_parities : Nat.even (g_nlx ROps (ex_geom 2 2)) = true /\ Nat.odd (g_nlx ROps (ex_geom 3 2)) = true.
Proof. split; reflexivity. Qed.

(* the excluded case: xm = xmx, ym = 0 takes the re-centring branch, its reflection (0, 0) does not *)
Theorem mirror_rc_origin_excluded :
  let a := ex_args 2 (RtoC 3) (RtoC 0) in
  recentred ROps a = true /\ recentred ROps (mirror_rc_args ROps a) = false.
Proof.
  cbv zeta. unfold recentred. cbn [ex_args mirror_rc_args a_xm a_ym a_xmx a_ymx]. split.
  - apply pos_guard. cbn. lra.
  - change (cltb ROps ?a ?b) with (if Rlt_dec (fst a) (fst b) then true else false).
    destruct (Rlt_dec _ _) as [H|_]; [|reflexivity]. exfalso. cbn in H. lra.
Qed.
