(* C09: the wind at the lowest node under unstable stratification (MOST, MOSTM) is ANTI-parallel to the
   measured wind, for every admissible input.  This refutes "the wind direction is constant with height"
   read as equality of directions (the collinearity half is C09_direction). *)
From Coq Require Import Reals Lra.
From Coquelicot Require Import Coquelicot.
From BL Require Import Model.Pbl Proofs.PblProofs.
Open Scope R_scope.

Lemma phim_unstable_lt1 t : t < 0 -> Rpower (1 - 16 * t) (- (1 / 4)) < 1.
Proof.
  intros Ht. unfold Rpower.
  assert (0 < ln (1 - 16 * t)). { rewrite <- ln_1. apply ln_increasing; lra. }
  apply Rlt_le_trans with (exp 0); [apply exp_increasing; lra|rewrite exp_0; lra].
Qed.

Definition dpsi (t : R) : R := (Rpower (1 - 16 * t) (- (1 / 4)) - 1) / t.

Lemma dpsi_pos t : t < 0 -> 0 < dpsi t.
Proof.
  intros Ht. unfold dpsi. assert (H := phim_unstable_lt1 t Ht).
  replace ((Rpower (1 - 16 * t) (- (1 / 4)) - 1) / t)
    with ((1 - Rpower (1 - 16 * t) (- (1 / 4))) * / (- t)) by (field; lra).
  apply Rmult_lt_0_compat; [lra|]. apply Rinv_0_lt_compat. lra.
Qed.

Lemma dpsi_nonneg t : t <= 0 -> 0 <= dpsi t.
Proof.
  intros [Ht|Ht]; [left; apply dpsi_pos; exact Ht|].
  subst t. unfold dpsi. unfold Rdiv. rewrite Rinv_0. lra.
Qed.

Lemma psi_unstable_cont t : t <= 0 -> continuity_pt psi_unstable t.
Proof.
  intros Ht. apply continuity_pt_filterlim.
  apply (ex_derive_continuous (V := R_NormedModule) psi_unstable t).
  apply psi_unstable_ex_derive. lra.
Qed.

Lemma psi_unstable_step a b : a < b -> b <= 0 ->
  exists c, a <= c <= b /\ psi_unstable b - psi_unstable a = dpsi c * (b - a).
Proof.
  intros Hab Hb.
  destruct (MVT_gen psi_unstable a b dpsi) as [c [Hc E]].
  - rewrite Rmin_left, Rmax_right by lra. intros t Ht.
    apply psi_unstable_derive; lra.
  - rewrite Rmin_left, Rmax_right by lra. intros t Ht. apply psi_unstable_cont. lra.
  - rewrite Rmin_left, Rmax_right in Hc by lra. exists c. split; assumption.
Qed.

Lemma psi_unstable_neg x : x < 0 -> psi_unstable x < 0.
Proof.
  intros Hx.
  destruct (psi_unstable_step x (x / 2)) as [c [Hc E1]]; [lra|lra|].
  destruct (psi_unstable_step (x / 2) 0) as [d [Hd E2]]; [lra|lra|].
  rewrite psi_unstable_0 in E2.
  assert (0 < dpsi c) by (apply dpsi_pos; lra).
  assert (0 <= dpsi d) by (apply dpsi_nonneg; lra).
  nra.
Qed.

Lemma psi_neg x : x < 0 -> psi x < 0.
Proof.
  intros Hx. unfold psi. destruct (Rlt_dec 0 x); [lra|]. apply psi_unstable_neg. exact Hx.
Qed.

Lemma absu_most_lowest_negative us z0 L : 0 < us -> 0 < z0 -> L < 0 -> absu_most us z0 L z0 < 0.
Proof.
  intros Hus Hz HL. unfold absu_most.
  replace (z0 / z0) with 1 by (field; lra). rewrite ln_1.
  assert (Hq : z0 / L < 0).
  { unfold Rdiv. replace (z0 * / L) with (- (z0 * / (- L))) by (field; lra).
    assert (0 < z0 * / (- L)) by (apply Rmult_lt_0_compat; [lra|apply Rinv_0_lt_compat; lra]). lra. }
  assert (Hp := psi_neg _ Hq).
  assert (Hk : 0 < us / kap) by (apply Rdiv_lt_0_compat; [lra|apply kap_pos]).
  nra.
Qed.

(* the statement on the arrays: node 0 of u, v is a NEGATIVE multiple of the measured wind *)
Lemma lowest_node_reversed c E :
  c = MOST \/ c = MOSTM ->
  0 < e_ustar E -> 0 < e_z0 E -> e_mol E < 0 -> 0 < e_absum E -> e_znode E 0 = e_z0 E ->
  exists s, s < 0 /\ u_node c E 0 = s * e_um E /\ v_node c E 0 = s * e_vm E.
Proof.
  intros Hc Hus Hz HL Ha H0.
  exists (absu_most (e_ustar E) (e_z0 E) (e_mol E) (e_z0 E) / e_absum E).
  assert (Hneg := absu_most_lowest_negative _ _ _ Hus Hz HL).
  split.
  - unfold Rdiv. assert (0 < / e_absum E) by (apply Rinv_0_lt_compat; exact Ha). nra.
  - unfold u_node, v_node. rewrite H0.
    destruct Hc as [-> | ->]; unfold u_at, v_at, absu_at, dir_u; split; field; lra.
Qed.

(* ---- the MOST wind speed increases strictly with height (any stability): d/dz = ustar/kap * phi_m(z/L)/z > 0.
   Hence the nodes with reversed wind form an initial segment of the grid, strictly below the measurement
   height (where the speed equals the measured one). *)
Lemma speed_fn_derive z0 L z : 0 < z -> 0 < z0 -> L < 0 ->
  is_derive (fun t => ln (t / z0) + psi_unstable (t / L)) z
            (/ z + / L * dpsi (z / L)).
Proof.
  intros Hz H0 HL.
  assert (Hq : z / L < 0).
  { unfold Rdiv. replace (z * / L) with (- (z * / (- L))) by (field; lra).
    assert (0 < z * / (- L)) by (apply Rmult_lt_0_compat; [lra|apply Rinv_0_lt_compat; lra]). lra. }
  apply (is_derive_plus (V := R_NormedModule)).
  - auto_derive.
    + unfold Rdiv. apply Rmult_lt_0_compat; [lra|apply Rinv_0_lt_compat; lra].
    + field. lra.
  - apply (is_derive_comp psi_unstable (fun t => t / L)).
    + apply psi_unstable_derive; lra.
    + auto_derive; [exact I|]. field. lra.
Qed.

Lemma speed_fn_dpos z L : 0 < z -> L < 0 -> 0 < / z + / L * dpsi (z / L).
Proof.
  intros Hz HL. unfold dpsi.
  assert (Hq : z / L < 0).
  { unfold Rdiv. replace (z * / L) with (- (z * / (- L))) by (field; lra).
    assert (0 < z * / (- L)) by (apply Rmult_lt_0_compat; [lra|apply Rinv_0_lt_compat; lra]). lra. }
  replace (/ z + / L * ((Rpower (1 - 16 * (z / L)) (- (1 / 4)) - 1) / (z / L)))
    with (Rpower (1 - 16 * (z / L)) (- (1 / 4)) * / z) by (field; lra).
  apply Rmult_lt_0_compat; [apply exp_pos|apply Rinv_0_lt_compat; lra].
Qed.

Lemma absu_most_increasing us z0 L z1 z2 :
  0 < us -> 0 < z0 -> L <> 0 -> 0 < z1 < z2 -> absu_most us z0 L z1 < absu_most us z0 L z2.
Proof.
  intros Hus H0 HL [H1 H12]. unfold absu_most.
  assert (Hk : 0 < us / kap) by (apply Rdiv_lt_0_compat; [lra|apply kap_pos]).
  apply Rmult_lt_compat_l; [exact Hk|].
  destruct (Rlt_dec 0 L) as [Lp|Ln].
  - assert (E : forall z, 0 < z -> psi (z / L) = 5 * (z / L)).
    { intros z Hz. unfold psi. destruct (Rlt_dec 0 (z / L)) as [_|N]; [reflexivity|].
      exfalso. apply N. apply Rdiv_lt_0_compat; lra. }
    rewrite (E z1), (E z2) by lra.
    assert (ln (z1 / z0) < ln (z2 / z0)).
    { apply ln_increasing; [apply Rdiv_lt_0_compat; lra|].
      unfold Rdiv. apply Rmult_lt_compat_r; [apply Rinv_0_lt_compat; lra|lra]. }
    assert (z1 / L < z2 / L).
    { unfold Rdiv. apply Rmult_lt_compat_r; [apply Rinv_0_lt_compat; lra|lra]. }
    lra.
  - assert (Lneg : L < 0) by lra.
    assert (E : forall z, 0 < z -> psi (z / L) = psi_unstable (z / L)).
    { intros z Hz. unfold psi. destruct (Rlt_dec 0 (z / L)) as [P|_]; [|reflexivity].
      exfalso. unfold Rdiv in P. replace (z * / L) with (- (z * / (- L))) in P by (field; lra).
      assert (0 < z * / (- L)) by (apply Rmult_lt_0_compat; [lra|apply Rinv_0_lt_compat; lra]). lra. }
    rewrite (E z1), (E z2) by lra.
    destruct (MVT_gen (fun t => ln (t / z0) + psi_unstable (t / L)) z1 z2
                      (fun t => / t + / L * dpsi (t / L))) as [c [Hc Eq]].
    + rewrite Rmin_left, Rmax_right by lra. intros t Ht. apply speed_fn_derive; lra.
    + rewrite Rmin_left, Rmax_right by lra. intros t Ht.
      apply continuity_pt_filterlim.
      apply (ex_derive_continuous (V := R_NormedModule) (fun t => ln (t / z0) + psi_unstable (t / L)) t).
      eexists. apply speed_fn_derive; lra.
    + rewrite Rmin_left, Rmax_right in Hc by lra.
      assert (0 < / c + / L * dpsi (c / L)) by (apply speed_fn_dpos; lra).
      simpl in Eq. nra.
Qed.
