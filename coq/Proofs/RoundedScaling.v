(* EXACT similarity of the solver in ROUNDED arithmetic.

   RndOps m (Base/RoundedOps.v): every scalar operation is followed by the rounding function rnd m.  Rounded
   arithmetic is not a field; NO field law is used below.  The single hypothesis on the rounding is homogeneity
   for the scale factor s:
        hom (rnd m) s  :=  forall x, rnd m (s * x) = s * rnd m x
   (IEEE rounding to nearest, and every other IEEE rounding direction up to sign symmetry, satisfies it for s a power
   of two as long as nothing overflows or becomes subnormal; binary_rounding_hom below proves it for rounding to
   `prec` significant binary digits with unbounded exponent, any precision, any tie-breaking rule).
   Under it the weights of Proofs/Graded.v are realised by  S d x x' := x' = s^d * x  (componentwise on pairs), and
   graded_solve gives: a rescaled request has EXACTLY the rescaled result — all levels, both fields, numerical and
   analytic branch, footprint and dispersion mode, double and single storage (when the storage rounding is
   homogeneous too), error outcomes included. *)
From Coq Require Import ZArith Reals List Bool Lia Lra.
From BL Require Import Base.Ops Base.PairOps Base.RoundedOps Model.Solver Proofs.Graded.
From BL Require Proofs.C04Proofs.
Import ListNotations.
Set Default Proof Using "All".
Local Open Scope R_scope.

Definition hom (f : R -> R) (c : R) : Prop := forall x, f (c * x) = c * f x.

Lemma hom_1 f : hom f 1.
Proof. intros x. rewrite !Rmult_1_l. reflexivity. Qed.
Lemma hom_mul f c e : hom f c -> hom f e -> hom f (c * e).
Proof. intros Hc He x. rewrite Rmult_assoc, Hc, He. ring. Qed.
Lemma hom_inv f c : c <> 0 -> hom f c -> hom f (/ c).
Proof.
  intros Hn Hc x. apply Rmult_eq_reg_l with c; [|assumption]. rewrite <- Hc.
  replace (c * (/ c * x)) with x by (field; assumption). field; assumption.
Qed.
Lemma hom_pow f c n : hom f c -> hom f (c ^ n).
Proof. intros Hc. induction n; cbn; [apply hom_1|apply hom_mul; assumption]. Qed.
Lemma hom_powerRZ f c d : c <> 0 -> hom f c -> hom f (powerRZ c d).
Proof.
  intros Hn Hc. destruct d; cbn [powerRZ]; [apply hom_1|apply hom_pow; assumption|].
  apply hom_inv; [apply pow_nonzero; assumption|apply hom_pow; assumption].
Qed.

(* the order tests and zero tests do not see a positive factor *)
Lemma Reqb_scale c x : c <> 0 -> Reqb (c * x) 0 = Reqb x 0.
Proof.
  intros Hc. unfold Reqb. destruct (Req_EM_T (c * x) 0) as [E|E], (Req_EM_T x 0) as [F|F]; try reflexivity.
  - exfalso. apply Rmult_integral in E. tauto.
  - exfalso. apply E. rewrite F. ring.
Qed.
Lemma Rleb0_scale c x : 0 < c -> Rleb 0 (c * x) = Rleb 0 x.
Proof.
  intros Hc. unfold Rleb. destruct (Rle_dec 0 (c * x)) as [E|E], (Rle_dec 0 x) as [F|F]; try reflexivity; exfalso.
  - apply F. apply Rmult_le_reg_l with c; [assumption|]. lra.
  - apply E. apply Rmult_le_pos; lra.
Qed.
Lemma Rltb_scale c x y : 0 < c -> Rltb (c * x) (c * y) = Rltb x y.
Proof.
  intros Hc. unfold Rltb. destruct (Rlt_dec (c * x) (c * y)) as [E|E], (Rlt_dec x y) as [F|F]; try reflexivity; exfalso.
  - apply F. apply Rmult_lt_reg_l with c; assumption.
  - apply E. apply Rmult_lt_compat_l; assumption.
Qed.
Lemma Rltb0_scale c x : 0 < c -> Rltb (c * x) 0 = Rltb x 0.
Proof. intros Hc. rewrite <- (Rltb_scale c x 0 Hc). f_equal. ring. Qed.

Definition scl (c : R) (x : R * R) : R * R := (c * fst x, c * snd x).

Section Instance.
Variable m : RMode.
Variable s : R.
Hypothesis Hs : s <> 0.
Hypothesis Hrnd : hom (rnd m) s.
Hypothesis Hrnd32 : hom (rnd32 m) s.
Notation O := (RndOps m).
Notation P d := (powerRZ s d).
Notation rd := (rnd m).

Definition Sc (d : Z) (x x' : C O) : Prop := x' = scl (P d) x.
Definition posw (d : Z) : Prop := 0 < P d.

Lemma P_nz d : P d <> 0.
Proof. apply powerRZ_NOR. exact Hs. Qed.
Lemma P_add d e : P (d + e) = P d * P e.
Proof. apply powerRZ_add. exact Hs. Qed.
Lemma P_sub d e : P (d - e) = P d / P e.
Proof. unfold Zminus, Rdiv. rewrite P_add, powerRZ_neg'. reflexivity. Qed.
Lemma P_double d : P (2 * d) = P d * P d.
Proof. replace (2 * d)%Z with (d + d)%Z by lia. apply P_add. Qed.
Lemma hP d : hom rd (P d).
Proof. apply hom_powerRZ; assumption. Qed.
Lemma hP32 d : hom (rnd32 m) (P d).
Proof. apply hom_powerRZ; assumption. Qed.

(* scalar operations *)
Lemma r_add c (Hc : hom rd c) x y : rd (c * x + c * y) = c * rd (x + y).
Proof. rewrite <- Rmult_plus_distr_l. apply Hc. Qed.
Lemma r_sub c (Hc : hom rd c) x y : rd (c * x - c * y) = c * rd (x - y).
Proof. rewrite <- Rmult_minus_distr_l. apply Hc. Qed.
Lemma r_opp c (Hc : hom rd c) x : rd (- (c * x)) = c * rd (- x).
Proof. rewrite Ropp_mult_distr_r. apply Hc. Qed.
Lemma r_mul c e (Hc : hom rd c) (He : hom rd e) x y : rd ((c * x) * (e * y)) = (c * e) * rd (x * y).
Proof. replace ((c * x) * (e * y)) with ((c * e) * (x * y)) by ring. apply hom_mul; assumption. Qed.
Lemma r_mul_l c (Hc : hom rd c) x y : rd ((c * x) * y) = c * rd (x * y).
Proof. rewrite Rmult_assoc. apply Hc. Qed.
Lemma r_mul_r c (Hc : hom rd c) x y : rd (x * (c * y)) = c * rd (x * y).
Proof. replace (x * (c * y)) with (c * (x * y)) by ring. apply Hc. Qed.
Lemma r_div c e (Hc : hom rd c) (He : hom rd e) x y : e <> 0 -> rd ((c * x) / (e * y)) = (c / e) * rd (x / y).
Proof.
  intros Hn. unfold Rdiv. rewrite Rinv_mult.
  replace (c * x * (/ e * / y)) with ((c * / e) * (x * / y)) by ring.
  apply hom_mul; [assumption|apply hom_inv; assumption].
Qed.
Lemma r_abs c (Hc : hom rd c) x : 0 < c -> rd (Rabs (c * x)) = c * rd (Rabs x).
Proof. intros Hp. rewrite Rabs_mult, (Rabs_pos_eq c) by lra. apply Hc. Qed.
Lemma r_sqrt c (Hc : hom rd c) x : 0 < c -> hom rd (c * c) -> rd (sqrt ((c * c) * x)) = c * rd (sqrt x).
Proof.
  intros Hp _. rewrite sqrt_mult_alt by (apply Rmult_le_pos; lra). rewrite sqrt_square by lra. apply Hc.
Qed.

(* ---------------------------------------------------------------- the operations of RndOps transport the weights *)
Ltac red_ops := cbn; unfold pc_add, pc_sub, pc_mul, pc_opp, pc_div, pc_sqrt; cbn; change (T (RndScalar m)) with R in *.
Lemma Sc_add d x x' y y' : Sc d x x' -> Sc d y y' -> Sc d (cadd O x y) (cadd O x' y').
Proof.
  unfold Sc, scl. intros -> ->. destruct x as [a b], y as [a2 b2]. red_ops.
  rewrite !(r_add (P d) (hP d)). reflexivity.
Qed.
Lemma Sc_sub d x x' y y' : Sc d x x' -> Sc d y y' -> Sc d (csub O x y) (csub O x' y').
Proof.
  unfold Sc, scl. intros -> ->. destruct x as [a b], y as [a2 b2]. red_ops.
  rewrite !(r_sub (P d) (hP d)). reflexivity.
Qed.
Lemma Sc_opp d x x' : Sc d x x' -> Sc d (copp O x) (copp O x').
Proof.
  unfold Sc, scl. intros ->. destruct x as [a b]. red_ops. rewrite !(r_opp (P d) (hP d)). reflexivity.
Qed.
Lemma Sc_mul d e x x' y y' : Sc d x x' -> Sc e y y' -> Sc (d + e) (cmul O x y) (cmul O x' y').
Proof.
  unfold Sc, scl. intros -> ->. destruct x as [a b], y as [a2 b2]. red_ops.
  rewrite !(r_mul (P d) (P e) (hP d) (hP e)), P_add.
  rewrite (r_sub (P d * P e)), (r_add (P d * P e)) by (apply hom_mul; apply hP). reflexivity.
Qed.
Lemma Sc_div d e x x' y y' : Sc d x x' -> Sc e y y' -> Sc (d - e) (cdiv O x y) (cdiv O x' y').
Proof.
  unfold Sc, scl. intros -> ->. destruct x as [a b], y as [a2 b2]. red_ops.
  rewrite (Reqb_scale (P e) b2 (P_nz e)), P_sub.
  destruct (Reqb b2 0).
  - rewrite !(r_div (P d) (P e) (hP d) (hP e)) by apply P_nz. reflexivity.
  - rewrite !(r_mul (P e) (P e) (hP e) (hP e)), !(r_mul (P d) (P e) (hP d) (hP e)).
    rewrite (r_add (P e * P e)) by (apply hom_mul; apply hP).
    rewrite (r_add (P d * P e)), (r_sub (P d * P e)) by (apply hom_mul; apply hP).
    rewrite !(r_div (P d * P e) (P e * P e)); try (apply hom_mul; apply hP).
    + f_equal; f_equal; field; apply P_nz.
    + apply Rmult_integral_contrapositive_currified; apply P_nz.
    + apply Rmult_integral_contrapositive_currified; apply P_nz.
Qed.
Lemma Sc_re d x x' : Sc d x x' -> Sc d (cre O x) (cre O x').
Proof. unfold Sc, scl. intros ->. destruct x as [a b]. red_ops. f_equal. ring. Qed.
Lemma Sc_round d x x' : Sc d x x' -> Sc d (cround O x) (cround O x').
Proof. unfold Sc, scl. intros ->. destruct x as [a b]. red_ops. rewrite !(hP32 d). reflexivity. Qed.
Lemma Sc_ltb d x x' y y' : posw d -> Sc d x x' -> Sc d y y' -> cltb O x' y' = cltb O x y.
Proof. unfold Sc, scl, posw. intros Hp -> ->. destruct x as [a b], y as [a2 b2]. red_ops. apply Rltb_scale. exact Hp. Qed.
Lemma Sc_zero d : Sc d (c0 O) (c0 O).
Proof. unfold Sc, scl. red_ops. f_equal; ring. Qed.
Lemma Sc_refl x : Sc 0 x x.
Proof. unfold Sc, scl. destruct x as [a b]. red_ops. f_equal; ring. Qed.
Lemma Sc_eq x x' : Sc 0 x x' -> x' = x.
Proof. unfold Sc, scl. intros ->. destruct x as [a b]. red_ops. f_equal; ring. Qed.

Lemma Sc_sqrt d x x' : posw d -> Sc (2 * d) x x' -> Sc d (csqrt O x) (csqrt O x').
Proof.
  unfold Sc, scl, posw. intros Hp ->. destruct x as [a b]. rewrite P_double. cbn [fst snd].
  set (c := P d) in *.
  assert (Hc : hom rd c) by apply hP.
  assert (Hcc : hom rd (c * c)) by (apply hom_mul; assumption).
  assert (Hcc0 : c * c <> 0) by (apply Rmult_integral_contrapositive_currified; lra).
  assert (Hccp : 0 < c * c) by (apply Rmult_lt_0_compat; assumption).
  red_ops.
  rewrite !(Reqb_scale (c * c)) by assumption.
  destruct (Reqb a 0 && Reqb b 0); [cbn [fst snd]; f_equal; ring|].
  rewrite (Rleb0_scale (c * c)) by assumption.
  destruct (Reqb b 0).
  - destruct (Rleb 0 a); cbn [fst snd].
    + rewrite (r_sqrt c Hc) by assumption. f_equal. ring.
    + rewrite (r_opp (c * c) Hcc), (r_sqrt c Hc) by assumption. f_equal. ring.
  - rewrite !(r_mul (c * c) (c * c) Hcc Hcc), (r_add ((c * c) * (c * c))) by (apply hom_mul; assumption).
    rewrite (r_sqrt (c * c) Hcc) by (try assumption; apply hom_mul; assumption).
    rewrite (r_abs (c * c) Hcc) by assumption.
    rewrite (r_add (c * c) Hcc), (r_mul_l (c * c) Hcc), (r_sqrt c Hc) by assumption.
    rewrite (r_mul_r c Hc).
    rewrite (Rltb0_scale (c * c)) by assumption.
    rewrite (r_abs (c * c) Hcc) by assumption.
    rewrite !(r_div (c * c) c Hcc Hc) by lra.
    rewrite (r_opp c Hc).
    replace (c * c / c) with c by (field; lra).
    destruct (Rleb 0 a); cbn [fst snd]; [reflexivity|]. destruct (Rltb b 0); reflexivity.
Qed.

Theorem Sc_graded : Graded O Sc posw.
Proof.
  constructor.
  - exact Sc_zero.
  - exact Sc_refl.
  - exact Sc_eq.
  - exact Sc_add.
  - exact Sc_sub.
  - exact Sc_opp.
  - exact Sc_mul.
  - exact Sc_div.
  - exact Sc_sqrt.
  - exact Sc_re.
  - exact Sc_round.
  - exact Sc_ltb.
Qed.

End Instance.

(* ------------------------------------------------------------------ from the relation to equations *)
Definition scl3 (c : R) (F : list (list (list (R * R)))) : list (list (list (R * R))) := map (map (map (scl c))) F.

Lemma scl_1 x : scl 1 x = x.
Proof. destruct x as [a b]. unfold scl. cbn. f_equal; ring. Qed.
Lemma map_scl_1 l : map (scl 1) l = l.
Proof. induction l as [|x l IH]; cbn; [reflexivity|]. rewrite scl_1, IH. reflexivity. Qed.
Lemma scl3_1 F : scl3 1 F = F.
Proof.
  unfold scl3. induction F as [|A F IH]; cbn; [reflexivity|]. rewrite IH. f_equal.
  induction A as [|B A IHA]; cbn; [reflexivity|]. rewrite IHA, map_scl_1. reflexivity.
Qed.

Section Theorems.
Variable m : RMode.
Variable s : R.
Hypothesis Hs : s <> 0.
Hypothesis Hrnd : hom (rnd m) s.
Hypothesis Hrnd32 : hom (rnd32 m) s.
Notation O := (RndOps m).
Notation P d := (powerRZ s d).
Notation Sc := (Sc m s).

Lemma F2_Sc_map d (l l' : list (C O)) : Forall2 (Sc d) l l' -> l' = map (scl (P d)) l.
Proof. induction 1 as [|x x' l l' Hx _ IH]; cbn; [reflexivity|]. rewrite Hx, IH. reflexivity. Qed.
Lemma F2_Sc_map3 d (F F' : list (list (list (C O)))) : Forall2 (Forall2 (Forall2 (Sc d))) F F' -> F' = scl3 (P d) F.
Proof.
  unfold scl3. induction 1 as [|A A' F F' HA _ IH]; cbn; [reflexivity|]. rewrite IH. f_equal.
  induction HA as [|B B' A A' HB _ IHA]; cbn; [reflexivity|]. rewrite IHA, (F2_Sc_map d B B' HB). reflexivity.
Qed.
Lemma map_F2_Sc d (l : list (C O)) : Forall2 (Sc d) l (map (scl (P d)) l).
Proof. induction l; cbn; constructor; [reflexivity|assumption]. Qed.
Lemma map_F2_Sc2 d (q : list (list (C O))) : Forall2 (Forall2 (Sc d)) q (map (map (scl (P d))) q).
Proof. induction q; cbn; constructor; [apply map_F2_Sc|assumption]. Qed.
Lemma same_F2_Sc (l : list (C O)) : Forall2 (Sc 0) l l.
Proof. induction l; constructor; [apply (Sc_refl m s Hs Hrnd Hrnd32)|assumption]. Qed.
Lemma same_F2_Sc2 (q : list (list (C O))) : Forall2 (Forall2 (Sc 0)) q q.
Proof. induction q; constructor; [apply same_F2_Sc|assumption]. Qed.

Lemma posw_opp d : 0 < P d -> 0 < P (- d).
Proof. intros H. rewrite powerRZ_neg'. apply Rinv_0_lt_compat. exact H. Qed.
Lemma posw_double d : 0 < P d -> 0 < P (d + d).
Proof. intros H. rewrite (P_add m s Hs Hrnd Hrnd32). apply Rmult_lt_0_compat; exact H. Qed.

Definition rescaled (cl cc cf : R) (r : result O + error) : result O + error :=
  match r with
  | inl r => inl (mkResult O (map (scl cl) (r_x O r)) (map (scl cl) (r_y O r)) (map (scl cl) (r_z O r))
                          (scl3 cc (r_conc O r)) (scl3 cf (r_flx O r)) (r_shape O r))
  | inr e => inr e
  end.

(* related requests have EQUAL results up to the exact factors s^dl (coordinates), s^(ds-du) (concentration),
   s^ds (flux); the same error outcome otherwise *)
Theorem rounded_outcome dl du ds (a a' : args O) :
  0 < P dl -> args_rel O Sc dl du ds a a' ->
  solve O a' = rescaled (P dl) (P (ds - du)) (P ds) (solve O a).
Proof.
  intros Hp H.
  pose proof (graded_solve O Sc (posw s) (Sc_graded m s Hs Hrnd Hrnd32) dl du ds Hp (posw_opp dl Hp) (posw_double dl Hp) a a' H) as R.
  unfold outcome_rel in R. unfold rescaled.
  destruct (solve O a) as [r|e], (solve O a') as [r'|e']; try contradiction; [|rewrite R; reflexivity].
  destruct R as (Hx & Hy & Hz & Hc & Hf & Hsh). destruct r' as [x' y' z' c' f' sh']. cbn [r_x r_y r_z r_conc r_flx r_shape] in *.
  rewrite (F2_Sc_map _ _ _ Hx), (F2_Sc_map _ _ _ Hy), (F2_Sc_map _ _ _ Hz), (F2_Sc_map3 _ _ _ Hc), (F2_Sc_map3 _ _ _ Hf), Hsh.
  reflexivity.
Qed.

End Theorems.

(* ------------------------------------------------------------------ the similarity group, concretely *)
Section Similarity.
Variable m : RMode.
Variable s : R.
Hypothesis Hs : s <> 0.
Hypothesis Hrnd : hom (rnd m) s.
Hypothesis Hrnd32 : hom (rnd32 m) s.
Notation O := (RndOps m).
Notation P d := (powerRZ s d).
Notation Sc := (Sc m s).

Lemma P_0 : P 0 = 1. Proof. reflexivity. Qed.
Lemma P_1 : P 1 = s. Proof. change (P 1) with (s * 1). ring. Qed.
Lemma P_m1 : P (-1) = / s. Proof. change (P (-1)) with (/ (s * 1)). rewrite Rmult_1_r. reflexivity. Qed.

Lemma Sc_1 (x : C O) : Sc 1 x (scl s x).
Proof. unfold RoundedScaling.Sc. rewrite P_1. reflexivity. Qed.
Lemma Sc_m1 (x : C O) : Sc (-1) x (scl (/ s) x).
Proof. unfold RoundedScaling.Sc. rewrite P_m1. reflexivity. Qed.
Lemma map_Sc_1 (l : list (C O)) : Forall2 (Sc 1) l (map (scl s) l).
Proof. induction l; cbn; constructor; [apply Sc_1|assumption]. Qed.
Lemma map_Sc2_1 (q : list (list (C O))) : Forall2 (Forall2 (Sc 1)) q (map (map (scl s)) q).
Proof. induction q; cbn; constructor; [apply map_Sc_1|assumption]. Qed.

(* lengths times s^dl, winds times s^du, diffusivities times s^(du+dl), source times s^ds, background times s^(ds-du) *)
Definition sim_args (dl du ds : Z) (a : args O) : args O :=
  mkArgs O (map (map (scl (P ds))) (a_q0 O a)) (map (scl (P dl)) (a_z O a))
    (mkProf O (map (scl (P du)) (p_u O (a_prof O a))) (map (scl (P du)) (p_v O (a_prof O a)))
              (map (scl (P (du + dl))) (p_Kx O (a_prof O a))) (map (scl (P (du + dl))) (p_Ky O (a_prof O a)))
              (map (scl (P (du + dl))) (p_Kz O (a_prof O a))))
    (scl (P dl) (a_xmx O a)) (scl (P dl) (a_ymx O a)) (a_levels O a) (a_nlx O a) (a_nly O a)
    (scl (P dl) (a_xm O a)) (scl (P dl) (a_ym O a)) (scl (P (ds - du)) (a_p000 O a))
    (a_footprint O a) (a_analytic O a) (option_map (scl (P dl)) (a_halo O a)) (a_single O a).

Lemma sim_args_rel dl du ds a : (a_footprint O a = true -> ds = 0%Z) -> args_rel O Sc dl du ds a (sim_args dl du ds a).
Proof.
  intros Hfp. constructor; cbn [sim_args a_q0 a_z a_prof p_u p_v p_Kx p_Ky p_Kz a_xmx a_ymx a_xm a_ym a_halo a_p000
    a_levels a_nlx a_nly a_footprint a_analytic a_single];
    try reflexivity; try apply (map_F2_Sc m s Hs Hrnd Hrnd32); try apply (map_F2_Sc2 m s Hs Hrnd Hrnd32); try exact Hfp.
  unfold halo_rel. destruct (a_halo O a); cbn; [reflexivity|exact I].
Qed.

Theorem rounded_similarity dl du ds (a : args O) :
  0 < P dl -> (a_footprint O a = true -> ds = 0%Z) ->
  solve O (sim_args dl du ds a) = rescaled m (P dl) (P (ds - du)) (P ds) (solve O a).
Proof. intros Hp Hfp. apply (rounded_outcome m s Hs Hrnd Hrnd32). exact Hp. apply sim_args_rel. exact Hfp. Qed.

(* C04: source and background times s *)
Definition scale_source_args (a : args O) : args O :=
  mkArgs O (map (map (scl s)) (a_q0 O a)) (a_z O a) (a_prof O a) (a_xmx O a) (a_ymx O a) (a_levels O a) (a_nlx O a) (a_nly O a)
         (a_xm O a) (a_ym O a) (scl s (a_p000 O a)) (a_footprint O a) (a_analytic O a) (a_halo O a) (a_single O a).

Ltac rel_fields :=
  cbn [a_q0 a_z a_prof p_u p_v p_Kx p_Ky p_Kz a_xmx a_ymx a_xm a_ym a_halo a_p000
       a_levels a_nlx a_nly a_footprint a_analytic a_single];
  try reflexivity; try apply (same_F2_Sc m s Hs Hrnd Hrnd32); try apply (same_F2_Sc2 m s Hs Hrnd Hrnd32);
  try apply (Sc_refl m s Hs Hrnd Hrnd32).

Lemma halo_rel_same dl (h : option (C O)) : dl = 0%Z -> halo_rel O Sc dl h h.
Proof. intros ->. unfold halo_rel. destruct h; [apply (Sc_refl m s Hs Hrnd Hrnd32)|exact I]. Qed.

Theorem homogeneity_rounded (a : args O) : a_footprint O a = false ->
  solve O (scale_source_args a) =
  match solve O a with
  | inl r => inl (mkResult O (r_x O r) (r_y O r) (r_z O r) (scl3 s (r_conc O r)) (scl3 s (r_flx O r)) (r_shape O r))
  | inr e => inr e
  end.
Proof.
  intros Hfp.
  rewrite (rounded_outcome m s Hs Hrnd Hrnd32 0 0 1 a (scale_source_args a)).
  - change (1 - 0)%Z with 1%Z. rewrite P_1, P_0. unfold rescaled. destruct (solve O a) as [r|e]; [|reflexivity].
    rewrite !map_scl_1. reflexivity.
  - rewrite P_0. lra.
  - unfold scale_source_args. constructor; rel_fields.
    + apply map_Sc2_1.
    + apply halo_rel_same. reflexivity.
    + apply Sc_1.
    + rewrite Hfp. discriminate.
Qed.

(* C07: winds and diffusivities times s (background over s) *)
Definition scale_vel_args (a : args O) : args O :=
  mkArgs O (a_q0 O a) (a_z O a)
    (mkProf O (map (scl s) (p_u O (a_prof O a))) (map (scl s) (p_v O (a_prof O a)))
              (map (scl s) (p_Kx O (a_prof O a))) (map (scl s) (p_Ky O (a_prof O a))) (map (scl s) (p_Kz O (a_prof O a))))
    (a_xmx O a) (a_ymx O a) (a_levels O a) (a_nlx O a) (a_nly O a) (a_xm O a) (a_ym O a) (scl (/ s) (a_p000 O a))
    (a_footprint O a) (a_analytic O a) (a_halo O a) (a_single O a).

Theorem velocity_scaling_rounded (a : args O) :
  solve O (scale_vel_args a) =
  match solve O a with
  | inl r => inl (mkResult O (r_x O r) (r_y O r) (r_z O r) (scl3 (/ s) (r_conc O r)) (r_flx O r) (r_shape O r))
  | inr e => inr e
  end.
Proof.
  rewrite (rounded_outcome m s Hs Hrnd Hrnd32 0 1 0 a (scale_vel_args a)).
  - change (0 - 1)%Z with (-1)%Z. rewrite P_m1, P_0. unfold rescaled. destruct (solve O a) as [r|e]; [|reflexivity].
    rewrite !map_scl_1, scl3_1. reflexivity.
  - rewrite P_0. lra.
  - unfold scale_vel_args. constructor; rel_fields;
      try (change (1 + 0)%Z with 1%Z; apply map_Sc_1).
    + apply halo_rel_same. reflexivity.
    + change (0 - 1)%Z with (-1)%Z. apply Sc_m1.
Qed.

(* C07: all lengths and diffusivities times s > 0 *)
Definition scale_len_args (a : args O) : args O :=
  mkArgs O (a_q0 O a) (map (scl s) (a_z O a))
    (mkProf O (p_u O (a_prof O a)) (p_v O (a_prof O a))
              (map (scl s) (p_Kx O (a_prof O a))) (map (scl s) (p_Ky O (a_prof O a))) (map (scl s) (p_Kz O (a_prof O a))))
    (scl s (a_xmx O a)) (scl s (a_ymx O a)) (a_levels O a) (a_nlx O a) (a_nly O a) (scl s (a_xm O a)) (scl s (a_ym O a))
    (a_p000 O a) (a_footprint O a) (a_analytic O a) (option_map (scl s) (a_halo O a)) (a_single O a).

Theorem length_scaling_rounded (a : args O) : 0 < s ->
  solve O (scale_len_args a) =
  match solve O a with
  | inl r => inl (mkResult O (map (scl s) (r_x O r)) (map (scl s) (r_y O r)) (map (scl s) (r_z O r))
                          (r_conc O r) (r_flx O r) (r_shape O r))
  | inr e => inr e
  end.
Proof.
  intros Hp.
  rewrite (rounded_outcome m s Hs Hrnd Hrnd32 1 0 0 a (scale_len_args a)).
  - change (0 - 0)%Z with 0%Z. rewrite P_1, P_0. unfold rescaled. destruct (solve O a) as [r|e]; [|reflexivity].
    rewrite !scl3_1. reflexivity.
  - rewrite P_1. exact Hp.
  - unfold scale_len_args. constructor; rel_fields;
      try (change (0 + 1)%Z with 1%Z); try apply map_Sc_1; try apply Sc_1.
    unfold halo_rel. destruct (a_halo O a); cbn; [apply Sc_1|exact I].
Qed.

End Similarity.

(* the request transformer of the C04 statement is C04_linear's `with_src` applied to the cell-wise scaled source *)
Lemma scale_source_is_with_src (m : RMode) (s : R) (a : args (RndOps m)) :
  scale_source_args m s a
  = C04Proofs.with_src (RndOps m) a (map (map (scl s)) (a_q0 _ a)) (scl s (a_p000 _ a)).
Proof. reflexivity. Qed.
