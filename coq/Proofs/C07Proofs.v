(* C07: symmetries of the per-mode problem.
   mirror  : negating a wind component and the corresponding wavenumber leaves step, eigenvalue
             and hence the whole mode solution unchanged;
   swap    : exchanging (Kx,Ky), (u,v) and (lx,ly) likewise;
   lengths : all lengths and diffusivities times s: wavenumbers /s, layer thickness *s; the mode
             solution (p, q) is unchanged;
   speeds  : winds and diffusivities times s: q unchanged, p divided by s.
   Field-level statements (mirrored / transposed arrays) are carried by the correspondence and the
   oracle: the retained frequency set is symmetric only up to its Nyquist row and column. *)
From Coq Require Import ZArith List Field Ring Lia Bool Arith.
From BL Require Import Base.Ops Base.Laws Model.Solver Proofs.Sums Proofs.StepProofs.
Import ListNotations.
Set Default Proof Using "All".

Section C07.
Variable O : Ops.
Hypothesis L : Laws O.
Notation C := (C O).
Notation "0" := (c0 O) : ops_scope. Notation "1" := (c1 O) : ops_scope.
Infix "+" := (cadd O) : ops_scope. Infix "*" := (cmul O) : ops_scope.
Infix "-" := (csub O) : ops_scope. Infix "/" := (cdiv O) : ops_scope.
Notation "- x" := (copp O x) : ops_scope.
Local Open Scope ops_scope.
Add Field OFc7 : (L_field O L).
Notation layer := (layer O).

(* trajectories depend on the layers only through the step map *)
Lemma traj_ext lx ly lx' ly' :
  forall (ls ls' : list layer),
  length ls = length ls' ->
  (forall k Ld st, (k < length ls)%nat -> step O lx' ly' (nth k ls' Ld) st = step O lx ly (nth k ls Ld) st) ->
  forall st k d, (k <= length ls)%nat ->
  nth k (traj O lx' ly' ls' st) d = nth k (traj O lx ly ls st) d.
Proof.
  induction ls as [|Lr r IH]; intros ls' Hlen Hstep st k d Hk.
  - destruct ls'; [|discriminate]. cbn [length] in Hk. replace k with 0%nat by lia. reflexivity.
  - destruct ls' as [|Lr' r']; [discriminate|]. destruct k as [|k]; [reflexivity|].
    cbn [traj nth]. pose proof (Hstep 0%nat Lr st) as H0. cbn [nth length] in H0. rewrite H0 by lia.
    apply IH.
    + cbn in Hlen. lia.
    + intros k0 Ld st0 Hk0. apply (Hstep (S k0) Ld st0). cbn. lia.
    + cbn in Hk. lia.
Qed.

(* ---------------------------------------------------------------- mirror in x (and y) *)

Definition mirror_x (Lr : layer) : layer :=
  mkLayer O (l_Kx O Lr) (l_Ky O Lr) (- l_u O Lr) (l_v O Lr) (l_Kz O Lr) (l_dz O Lr).
Definition mirror_y (Lr : layer) : layer :=
  mkLayer O (l_Kx O Lr) (l_Ky O Lr) (l_u O Lr) (- l_v O Lr) (l_Kz O Lr) (l_dz O Lr).

Lemma Tsym_mirror_x Kx Ky u v lx ly : Tsym O Kx Ky (- u) v (- lx) ly = Tsym O Kx Ky u v lx ly.
Proof. unfold Tsym. ring. Qed.
Lemma Tsym_mirror_y Kx Ky u v lx ly : Tsym O Kx Ky u (- v) lx (- ly) = Tsym O Kx Ky u v lx ly.
Proof. unfold Tsym. ring. Qed.

Lemma step_mirror_x lx ly Lr st : step O (- lx) ly (mirror_x Lr) st = step O lx ly Lr st.
Proof. unfold step, mirror_x. cbn [l_Kx l_Ky l_u l_v l_Kz l_dz]. rewrite Tsym_mirror_x. reflexivity. Qed.
Lemma step_mirror_y lx ly Lr st : step O lx (- ly) (mirror_y Lr) st = step O lx ly Lr st.
Proof. unfold step, mirror_y. cbn [l_Kx l_Ky l_u l_v l_Kz l_dz]. rewrite Tsym_mirror_y. reflexivity. Qed.

Lemma eig_mirror_x Kx Ky u v Kz lx ly : eigval O Kx Ky (- u) v Kz (- lx) ly = eigval O Kx Ky u v Kz lx ly.
Proof. unfold eigval, eig_radicand. f_equal. ring. Qed.
Lemma eig_mirror_y Kx Ky u v Kz lx ly : eigval O Kx Ky u (- v) Kz lx (- ly) = eigval O Kx Ky u v Kz lx ly.
Proof. unfold eigval, eig_radicand. f_equal. ring. Qed.

Theorem mirror_x_mode lx ly (ls : list layer) st k d :
  (k <= length ls)%nat ->
  nth k (traj O (- lx) ly (map mirror_x ls) st) d = nth k (traj O lx ly ls st) d.
Proof.
  intros Hk.
  apply (traj_ext lx ly (- lx) ly ls (map mirror_x ls)); [rewrite map_length; reflexivity| |exact Hk].
  intros k0 Ld st0 Hk0. rewrite (nth_indep _ Ld (mirror_x Ld)) by (rewrite map_length; exact Hk0).
  rewrite map_nth. apply step_mirror_x.
Qed.

Theorem mirror_y_mode lx ly (ls : list layer) st k d :
  (k <= length ls)%nat ->
  nth k (traj O lx (- ly) (map mirror_y ls) st) d = nth k (traj O lx ly ls st) d.
Proof.
  intros Hk.
  apply (traj_ext lx ly lx (- ly) ls (map mirror_y ls)); [rewrite map_length; reflexivity| |exact Hk].
  intros k0 Ld st0 Hk0. rewrite (nth_indep _ Ld (mirror_y Ld)) by (rewrite map_length; exact Hk0).
  rewrite map_nth. apply step_mirror_y.
Qed.

(* ---------------------------------------------------------------- axis swap *)

Definition swap_xy (Lr : layer) : layer :=
  mkLayer O (l_Ky O Lr) (l_Kx O Lr) (l_v O Lr) (l_u O Lr) (l_Kz O Lr) (l_dz O Lr).

Lemma Tsym_swap Kx Ky u v lx ly : Tsym O Ky Kx v u ly lx = Tsym O Kx Ky u v lx ly.
Proof. unfold Tsym. ring. Qed.
Lemma step_swap lx ly Lr st : step O ly lx (swap_xy Lr) st = step O lx ly Lr st.
Proof. unfold step, swap_xy. cbn [l_Kx l_Ky l_u l_v l_Kz l_dz]. rewrite Tsym_swap. reflexivity. Qed.
Lemma eig_swap Kx Ky u v Kz lx ly : eigval O Ky Kx v u Kz ly lx = eigval O Kx Ky u v Kz lx ly.
Proof. unfold eigval, eig_radicand. f_equal. ring. Qed.

Theorem swap_mode lx ly (ls : list layer) st k d :
  (k <= length ls)%nat ->
  nth k (traj O ly lx (map swap_xy ls) st) d = nth k (traj O lx ly ls st) d.
Proof.
  intros Hk.
  apply (traj_ext lx ly ly lx ls (map swap_xy ls)); [rewrite map_length; reflexivity| |exact Hk].
  intros k0 Ld st0 Hk0. rewrite (nth_indep _ Ld (swap_xy Ld)) by (rewrite map_length; exact Hk0).
  rewrite map_nth. apply step_swap.
Qed.

(* ---------------------------------------------------------------- length scaling *)

Definition scale_len (s : C) (Lr : layer) : layer :=
  mkLayer O (s * l_Kx O Lr) (s * l_Ky O Lr) (l_u O Lr) (l_v O Lr) (s * l_Kz O Lr) (s * l_dz O Lr).

Lemma step_scale_len s lx ly Lr st : s <> 0 -> l_Kz O Lr <> 0 ->
  step O (lx / s) (ly / s) (scale_len s Lr) st = step O lx ly Lr st.
Proof.
  intros Hs HK. unfold step, scale_len, coef_a, coef_b, coef_c, coef_d, Tsym.
  cbn [l_Kx l_Ky l_u l_v l_Kz l_dz fst snd]. f_equal; field; split; assumption.
Qed.

Theorem length_scaling_mode s lx ly (ls : list layer) st k d :
  s <> 0 -> (forall Lr, In Lr ls -> l_Kz O Lr <> 0) -> (k <= length ls)%nat ->
  nth k (traj O (lx / s) (ly / s) (map (scale_len s) ls) st) d = nth k (traj O lx ly ls st) d.
Proof.
  intros Hs HK Hk.
  apply (traj_ext lx ly (lx / s) (ly / s) ls (map (scale_len s) ls)); [rewrite map_length; reflexivity| |exact Hk].
  intros k0 Ld st0 Hk0. rewrite (nth_indep _ Ld (scale_len s Ld)) by (rewrite map_length; exact Hk0).
  rewrite map_nth. apply step_scale_len; [exact Hs|]. apply HK. apply nth_In. exact Hk0.
Qed.

(* the eigenvalue radicand scales by 1/s^2, and Kz*eig is invariant once sqrt(r/s^2) = sqrt(r)/s *)
Lemma radicand_scale_len s Kx Ky u v Kz lx ly : s <> 0 -> Kz <> 0 ->
  eig_radicand O (s * Kx) (s * Ky) u v (s * Kz) (lx / s) (ly / s) = eig_radicand O Kx Ky u v Kz lx ly / (s * s).
Proof. intros Hs HK. unfold eig_radicand. field. split; assumption. Qed.

Lemma top_invariant_len s Kx Ky u v Kz lx ly : s <> 0 -> Kz <> 0 ->
  csqrt O (eig_radicand O Kx Ky u v Kz lx ly / (s * s)) = csqrt O (eig_radicand O Kx Ky u v Kz lx ly) / s ->
  (s * Kz) * eigval O (s * Kx) (s * Ky) u v (s * Kz) (lx / s) (ly / s) = Kz * eigval O Kx Ky u v Kz lx ly.
Proof.
  intros Hs HK Hsq. unfold eigval. rewrite radicand_scale_len by assumption. rewrite Hsq. field. exact Hs.
Qed.

(* ---------------------------------------------------------------- velocity scaling *)

Definition scale_vel (s : C) (Lr : layer) : layer :=
  mkLayer O (s * l_Kx O Lr) (s * l_Ky O Lr) (s * l_u O Lr) (s * l_v O Lr) (s * l_Kz O Lr) (l_dz O Lr).

Definition pdiv (s : C) (st : C * C) : C * C := (fst st / s, snd st).

Lemma step_scale_vel s lx ly Lr st : s <> 0 -> l_Kz O Lr <> 0 ->
  step O lx ly (scale_vel s Lr) (pdiv s st) = pdiv s (step O lx ly Lr st).
Proof.
  intros Hs HK. unfold step, scale_vel, pdiv, coef_a, coef_b, coef_c, coef_d, Tsym.
  cbn [l_Kx l_Ky l_u l_v l_Kz l_dz fst snd]. f_equal; field; split; assumption.
Qed.

Lemma traj_scale_vel s lx ly : s <> 0 ->
  forall (ls : list layer), (forall Lr, In Lr ls -> l_Kz O Lr <> 0) ->
  forall st k d, (k <= length ls)%nat ->
  nth k (traj O lx ly (map (scale_vel s) ls) (pdiv s st)) (pdiv s d) = pdiv s (nth k (traj O lx ly ls st) d).
Proof.
  intros Hs. induction ls as [|Lr r IH]; intros HK st k d Hk.
  - cbn [length] in Hk. replace k with 0%nat by lia. reflexivity.
  - destruct k as [|k]; [reflexivity|]. cbn [map traj nth].
    rewrite step_scale_vel by (try assumption; apply HK; left; reflexivity).
    apply IH; [intros Lr0 H0; apply HK; right; exact H0|cbn in Hk; lia].
Qed.

Lemma eig_scale_vel s Kx Ky u v Kz lx ly : s <> 0 -> Kz <> 0 ->
  eigval O (s * Kx) (s * Ky) (s * u) (s * v) (s * Kz) lx ly = eigval O Kx Ky u v Kz lx ly.
Proof. intros Hs HK. unfold eigval, eig_radicand. f_equal. field. split; assumption. Qed.

(* shooting coefficient and mode solution under velocity scaling: alpha/s, (P/s, Q) *)
Theorem velocity_scaling_shoot s lx ly (ls : list layer) KzN eig qh k :
  s <> 0 -> (forall Lr, In Lr ls -> l_Kz O Lr <> 0) -> (k <= length ls)%nat ->
  let ls' := map (scale_vel s) ls in
  let y1 := final O lx ly ls (1, 0) in let y2 := final O lx ly ls (0, qh) in
  let y1' := final O lx ly ls' (1, 0) in let y2' := final O lx ly ls' (0, qh) in
  let al := alpha O KzN eig (fst y1) (snd y1) (fst y2) (snd y2) in
  let al' := alpha O (s * KzN) eig (fst y1') (snd y1') (fst y2') (snd y2') in
  snd y1 - KzN * eig * fst y1 <> 0 ->
  al' = al / s /\
  shoot_traj O lx ly ls' al' qh k = pdiv s (shoot_traj O lx ly ls al qh k).
Proof.
  cbv zeta. intros Hs HK Hk Hden.
  assert (Hfin : forall st, final O lx ly (map (scale_vel s) ls) (pdiv s st) = pdiv s (final O lx ly ls st)).
  { intros st.
    rewrite <- (traj_last O L lx ly (map (scale_vel s) ls) (pdiv s st) (pdiv s (0, 0))).
    rewrite <- (traj_last O L lx ly ls st (0, 0)).
    rewrite map_length. apply traj_scale_vel; try assumption. lia. }
  (* (1,0) = s * pdiv s (1,0);  (0,qh) = pdiv s (0,qh) *)
  assert (H1 : final O lx ly (map (scale_vel s) ls) (1, 0) = (fst (final O lx ly ls (1, 0)), s * snd (final O lx ly ls (1, 0)))).
  { assert (E10 : ((1, 0) : C * C) = sscale O s (pdiv s (1, 0))) by (unfold sscale, pdiv; cbn [fst snd]; f_equal; [field; exact Hs|ring]).
    rewrite E10 at 1.
    rewrite (final_scale O L), Hfin. unfold sscale, pdiv. cbn [fst snd]. f_equal. field. exact Hs. }
  assert (H2 : final O lx ly (map (scale_vel s) ls) (0, qh) = (fst (final O lx ly ls (0, qh)) / s, snd (final O lx ly ls (0, qh)))).
  { assert (E0q : ((0, qh) : C * C) = pdiv s (0, qh)) by (unfold pdiv; cbn [fst snd]; f_equal; field; exact Hs).
    rewrite E0q at 1.
    rewrite Hfin. reflexivity. }
  assert (Hal : alpha O (s * KzN) eig (fst (final O lx ly (map (scale_vel s) ls) (1, 0))) (snd (final O lx ly (map (scale_vel s) ls) (1, 0)))
                  (fst (final O lx ly (map (scale_vel s) ls) (0, qh))) (snd (final O lx ly (map (scale_vel s) ls) (0, qh)))
               = alpha O KzN eig (fst (final O lx ly ls (1, 0))) (snd (final O lx ly ls (1, 0)))
                   (fst (final O lx ly ls (0, qh))) (snd (final O lx ly ls (0, qh))) / s).
  { rewrite H1, H2. unfold alpha. cbn [fst snd]. field.
    split; [exact Hden|]. split; [exact Hs|].
    intros E. apply Hden.
    transitivity ((s * snd (final O lx ly ls (1, 0)) - s * KzN * eig * fst (final O lx ly ls (1, 0))) / s); [field; exact Hs|].
    rewrite E. field. exact Hs. }
  split; [exact Hal|].
  rewrite Hal, !(shoot_is_traj O L).
  replace (alpha O KzN eig (fst (final O lx ly ls (1, 0))) (snd (final O lx ly ls (1, 0)))
                 (fst (final O lx ly ls (0, qh))) (snd (final O lx ly ls (0, qh))) / s, qh)
    with (pdiv s (alpha O KzN eig (fst (final O lx ly ls (1, 0))) (snd (final O lx ly ls (1, 0)))
                 (fst (final O lx ly ls (0, qh))) (snd (final O lx ly ls (0, qh))), qh)) by reflexivity.
  rewrite (nth_indep _ (0, 0) (pdiv s (0, 0))) by (rewrite (traj_length O L), map_length; lia).
  apply traj_scale_vel; assumption.
Qed.

End C07.
