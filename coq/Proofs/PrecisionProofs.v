(* C12, precision clause: in Model/Solver.v the flag `a_single` (precision == "single") is read by the
   storage rounding `rho` and by nothing else.  Stated as: for any Ops whose storage rounding is the
   identity the whole result (fields, coordinates, shape, error outcome) is the same for both
   precisions.  No field laws are needed: the proof is by inspection of the consumers. *)
From Coq Require Import ZArith List Bool.
From BL Require Import Base.Ops Model.Solver.
Import ListNotations.

Section Precision.
Variable O : Ops.
Hypothesis Hround : forall x : C O, cround O x = x.

(* the same request with the other storage precision *)
Definition with_single (a : args O) (b : bool) : args O :=
  mkArgs O (a_q0 O a) (a_z O a) (a_prof O a) (a_xmx O a) (a_ymx O a) (a_levels O a) (a_nlx O a) (a_nly O a)
         (a_xm O a) (a_ym O a) (a_p000 O a) (a_footprint O a) (a_analytic O a) (a_halo O a) b.

Lemma rho_id (a : args O) x : rho O a x = x.
Proof using Hround. unfold rho. destruct (a_single O a); [apply Hround|reflexivity]. Qed.

(* everything upstream of the spectra does not look at the flag at all: plain conversion *)
Lemma geometry_single a b : geometry O (with_single a b) = geometry O a.
Proof using. reflexivity. Qed.
Lemma q0_hat_single a b g tx ty : q0_hat O (with_single a b) g tx ty = q0_hat O a g tx ty.
Proof using. reflexivity. Qed.
Lemma shift_single a b g tx ty : shift O (with_single a b) g tx ty = shift O a g tx ty.
Proof using. reflexivity. Qed.

Lemma mode_levels_q_single a b1 b2 g tx ty qh :
  mode_levels_q O (with_single a b1) g tx ty qh = mode_levels_q O (with_single a b2) g tx ty qh.
Proof using Hround.
  unfold mode_levels_q. cbn [with_single a_prof a_analytic a_z a_levels].
  destruct (a_analytic O a).
  - apply map_ext. intros l. rewrite !rho_id. reflexivity.
  - destruct (ivp O _ _ _ _ (c1 O, c0 O)) as [[st1 rp1] rq1].
    destruct (ivp O _ _ _ _ (c0 O, qh)) as [[st2 rp2] rq2].
    apply map_ext. intros r. rewrite !rho_id. reflexivity.
Qed.

Lemma mean_levels_q_single a b1 b2 g q00 p000 :
  mean_levels_q O (with_single a b1) g q00 p000 = mean_levels_q O (with_single a b2) g q00 p000.
Proof using Hround.
  unfold mean_levels_q. cbn [with_single a_prof a_analytic a_z a_levels]. rewrite !rho_id.
  destruct (a_analytic O a).
  - apply map_ext. intros l. rewrite !rho_id. reflexivity.
  - destruct (mean_loop O _ _ _ _ _ _ _) as [p rec].
    apply map_ext. intros x. rewrite !rho_id. reflexivity.
Qed.

Lemma spectrum_single a b1 b2 g tx ty :
  spectrum O (with_single a b1) g tx ty = spectrum O (with_single a b2) g tx ty.
Proof using Hround.
  unfold spectrum, mode_levels, mean_levels. rewrite !q0_hat_single.
  destruct tx, ty; first [apply mean_levels_q_single | apply mode_levels_q_single].
Qed.

Lemma table_single a b1 b2 g : table O (with_single a b1) g = table O (with_single a b2) g.
Proof using Hround.
  unfold table. apply map_ext. intros t. rewrite !shift_single.
  rewrite (spectrum_single a b1 b2). reflexivity.
Qed.

Lemma field_single a b1 b2 g sel tab :
  field O (with_single a b1) g sel tab = field O (with_single a b2) g sel tab.
Proof using. reflexivity. Qed.

Theorem precision_is_storage_only a b1 b2 :
  solve O (with_single a b1) = solve O (with_single a b2).
Proof using Hround.
  unfold solve. rewrite !geometry_single. destruct (geometry O a) as [g|e]; [|reflexivity].
  rewrite (table_single a b1 b2 g). reflexivity.
Qed.

(* every request IS with_single of itself *)
Lemma with_single_self a : with_single a (a_single O a) = a.
Proof using. destruct a. reflexivity. Qed.

End Precision.
