(* Finite sums over lists in the abstract field: linearity, extensionality, exchange. *)
From Coq Require Import ZArith List Field Ring Lia.
From BL Require Import Base.Ops Base.Laws.
Import ListNotations.
Set Default Proof Using "All".

Lemma map_nth_lt {A B} (f : A -> B) (l : list A) (k : nat) (dA : A) (dB : B) :
  (k < length l)%nat -> nth k (map f l) dB = f (nth k l dA).
Proof.
  intros Hk. rewrite (nth_indep _ dB (f dA)) by (rewrite map_length; exact Hk). apply map_nth.
Qed.

Section Sums.
Variable O : Ops.
Hypothesis L : Laws O.
Notation C := (C O).
Notation "0" := (c0 O) : ops_scope. Notation "1" := (c1 O) : ops_scope.
Infix "+" := (cadd O) : ops_scope. Infix "*" := (cmul O) : ops_scope.
Infix "-" := (csub O) : ops_scope. Infix "/" := (cdiv O) : ops_scope.
Notation "- x" := (copp O x) : ops_scope.
Local Open Scope ops_scope.
Add Field OFs : (L_field O L).

Lemma csum_nil : csum O [] = 0. Proof. reflexivity. Qed.
Lemma csum_cons x l : csum O (x :: l) = x + csum O l. Proof. reflexivity. Qed.

Lemma csum_app l1 l2 : csum O (l1 ++ l2) = csum O l1 + csum O l2.
Proof. induction l1 as [|x l1 IH]; simpl; [ring|]. rewrite IH. ring. Qed.

Lemma csum_map_ext {A} (f g : A -> C) l :
  (forall x, In x l -> f x = g x) -> csum O (map f l) = csum O (map g l).
Proof.
  induction l as [|x l IH]; intros H; simpl; [reflexivity|].
  rewrite H by (left; reflexivity). rewrite IH; [reflexivity|]. intros y Hy. apply H. right. exact Hy.
Qed.

Lemma csum_map_add {A} (f g : A -> C) l :
  csum O (map (fun x => f x + g x) l) = csum O (map f l) + csum O (map g l).
Proof. induction l as [|x l IH]; simpl; [ring|]. rewrite IH. ring. Qed.

Lemma csum_map_scale {A} s (f : A -> C) l :
  csum O (map (fun x => s * f x) l) = s * csum O (map f l).
Proof. induction l as [|x l IH]; simpl; [ring|]. rewrite IH. ring. Qed.

Lemma csum_map_scale_r {A} s (f : A -> C) l :
  csum O (map (fun x => f x * s) l) = csum O (map f l) * s.
Proof. induction l as [|x l IH]; simpl; [ring|]. rewrite IH. ring. Qed.

Lemma csum_map_zero {A} (l : list A) : csum O (map (fun _ => 0) l) = 0.
Proof. induction l as [|x l IH]; simpl; [reflexivity|]. rewrite IH. ring. Qed.

Lemma csum_map_const {A} c (l : list A) :
  csum O (map (fun _ => c) l) = cofZ O (Z.of_nat (length l)) * c.
Proof.
  induction l as [|x l IH]; cbn [map csum length].
  - change (Z.of_nat 0) with 0%Z. rewrite (L_ofZ_0 O L). ring.
  - rewrite IH, Nat2Z.inj_succ. unfold Z.succ. rewrite (L_ofZ_add O L), (L_ofZ_1 O L). ring.
Qed.

Lemma csum_swap {A B} (f : A -> B -> C) la lb :
  csum O (map (fun a => csum O (map (fun b => f a b) lb)) la)
  = csum O (map (fun b => csum O (map (fun a => f a b) la)) lb).
Proof.
  induction la as [|a la IH]; cbn [map csum].
  - rewrite csum_map_zero. reflexivity.
  - rewrite IH. rewrite <- csum_map_add. reflexivity.
Qed.

Lemma cre_csum l : cre O (csum O l) = csum O (map (cre O) l).
Proof.
  induction l as [|x l IH]; cbn [map csum]; [apply (L_re_0 O L)|].
  rewrite (L_re_add O L), IH. reflexivity.
Qed.

Lemma cre_opp x : cre O (- x) = - cre O x.
Proof.
  assert (Hm1 : cofZ O (-1)%Z = - (1)).
  { change (-1)%Z with (Z.opp 1). rewrite (L_ofZ_opp O L), (L_ofZ_1 O L). reflexivity. }
  transitivity (cre O ((- (1)) * x)); [f_equal; ring|].
  rewrite (L_re_mul_real O L); [ring|].
  rewrite <- Hm1. apply (L_re_ofZ O L).
Qed.

Lemma cre_sub x y : cre O (x - y) = cre O x - cre O y.
Proof. replace (x - y) with (x + - y) by ring. rewrite (L_re_add O L), cre_opp. ring. Qed.

Lemma cre_csum_map {A} (F : A -> C) (l : list A) :
  cre O (csum O (map F l)) = csum O (map (fun x => cre O (F x)) l).
Proof. rewrite cre_csum, map_map. reflexivity. Qed.

Lemma csum_map_map {A B} (f : B -> C) (g : A -> B) l :
  csum O (map f (map g l)) = csum O (map (fun x => f (g x)) l).
Proof. rewrite map_map. reflexivity. Qed.

(* sums over combine with seq: index form *)
Lemma csum_combine_seq {A} (f : nat -> A -> C) (d : A) (l : list A) (s : nat) :
  csum O (map (fun p => f (fst p) (snd p)) (combine (seq s (length l)) l))
  = csum O (map (fun k => f (s + k)%nat (nth k l d)) (seq 0 (length l))).
Proof.
  revert s. induction l as [|x l IH]; intros s; cbn [length seq combine map csum]; [reflexivity|].
  rewrite IH. rewrite Nat.add_0_r. f_equal.
  rewrite <- seq_shift, map_map. apply csum_map_ext. intros k _.
  cbn [nth]. f_equal. lia.
Qed.

(* ------------------------------------------------------------- cyclic re-indexing *)

Fixpoint sumn (n : nat) (f : nat -> C) : C :=
  match n with 0%nat => 0 | S k => sumn k f + f k end.

Lemma sumn_csum n f : csum O (map f (seq 0 n)) = sumn n f.
Proof.
  induction n as [|n IH]; [reflexivity|].
  rewrite seq_S, map_app, csum_app, IH. cbn [plus map csum sumn]. ring.
Qed.

Lemma sumn_ext n f g : (forall i, (i < n)%nat -> f i = g i) -> sumn n f = sumn n g.
Proof.
  induction n as [|n IH]; cbn [sumn]; intros H; [reflexivity|].
  rewrite IH by (intros; apply H; lia). rewrite H by lia. reflexivity.
Qed.

Lemma sumn_split a b f : sumn (a + b) f = sumn a f + sumn b (fun i => f (a + i)%nat).
Proof.
  induction b as [|b IH]; cbn [sumn].
  - rewrite Nat.add_0_r. ring.
  - rewrite Nat.add_succ_r. cbn [sumn]. rewrite IH. ring.
Qed.

Lemma sumn_cyc N r f : (r <= N)%nat ->
  sumn N (fun n => f ((n + r) mod N)%nat) = sumn N f.
Proof.
  intros Hr. destruct (Nat.eq_dec N 0) as [->|HN]; [reflexivity|].
  replace N with ((N - r) + r)%nat at 1 by lia.
  rewrite sumn_split.
  replace (sumn N f) with (sumn (r + (N - r)) f) by (f_equal; lia).
  rewrite (sumn_split r (N - r) f).
  rewrite (sumn_ext (N - r) _ (fun i => f (r + i)%nat)).
  2:{ intros i Hi. f_equal. rewrite Nat.mod_small by lia. lia. }
  rewrite (sumn_ext r _ f).
  2:{ intros i Hi. f_equal. replace (N - r + i + r)%nat with (i + 1 * N)%nat by lia.
      rewrite Nat.mod_add by lia. apply Nat.mod_small; lia. }
  ring.
Qed.

(* any integer offset *)
Lemma csum_cyclic (N : nat) (d : Z) (f : nat -> C) : N <> 0%nat ->
  csum O (map (fun i => f (Z.to_nat ((Z.of_nat i + d) mod Z.of_nat N))) (seq 0 N))
  = csum O (map f (seq 0 N)).
Proof.
  intros HN. rewrite !sumn_csum.
  set (r := Z.to_nat (d mod Z.of_nat N)).
  assert (Hr : (r <= N)%nat).
  { subst r. pose proof (Z.mod_pos_bound d (Z.of_nat N)). lia. }
  rewrite <- (sumn_cyc N r f Hr). apply sumn_ext. intros i Hi. f_equal.
  subst r. apply Nat2Z.inj. rewrite Z2Nat.id by (apply Z.mod_pos_bound; lia).
  rewrite Nat2Z.inj_mod by lia. rewrite Nat2Z.inj_add, Z2Nat.id by (apply Z.mod_pos_bound; lia).
  rewrite Zplus_mod_idemp_r. reflexivity.
Qed.

End Sums.
