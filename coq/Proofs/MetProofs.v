From Coq Require Import List Arith Bool Lia.
From BL Require Import Model.Met.
Import ListNotations.

Section P.
Context {A T : Type}.
Notation met := (met A T).
Notation fld := (fld A).

(* the four list/scalar fields of the property, ustar being optional *)
Definition fields (m : met) : list (option nat) :=
  [ofld_len (m_ustar m); fld_len (m_mol m); fld_len (m_wind_speed m); fld_len (m_wind_dir m)].

Lemma list_lengths_spec (m : met) k : In (Some k) (fields m) <-> In k (list_lengths m).
Proof.
  unfold fields, list_lengths.
  destruct (ofld_len (m_ustar m)), (fld_len (m_mol m)), (fld_len (m_wind_speed m)), (fld_len (m_wind_dir m));
    simpl; split; intros H;
    repeat match goal with
    | H : _ \/ _ |- _ => destruct H as [H|H]
    | H : Some _ = Some _ |- _ => injection H as H
    | H : None = Some _ |- _ => discriminate H
    | H : False |- _ => destruct H
    end; subst; auto 8.
Qed.

Lemma all_eq_spec n l : all_eq n l = true <-> (forall k, In k l -> k = n).
Proof.
  unfold all_eq. rewrite forallb_forall. split; intros H k Hk.
  - apply H in Hk. apply Nat.eqb_eq in Hk. auto.
  - apply Nat.eqb_eq. symmetry. auto.
Qed.

Lemma validate_lengths (m : met) :
  validate m = true -> forall k, In k (list_lengths m) -> k = n_timesteps m.
Proof.
  unfold validate, n_timesteps. intros H k Hk.
  destruct (list_lengths m) as [|n rest] eqn:E; [destruct Hk|].
  assert (Hall : all_eq n rest = true).
  { destruct (m_ustar m), (m_z0 m); try discriminate H;
      apply andb_true_iff in H; tauto. }
  destruct Hk as [->|Hk]; [reflexivity|]. eapply all_eq_spec; eauto.
Qed.

(* C16, clause 1 *)
Lemma steps_common_length (m : met) :
  validate m = true ->
  (forall k, In (Some k) (fields m) -> n_timesteps m = k) /\
  ((forall o, In o (fields m) -> o = None) -> n_timesteps m = 1).
Proof.
  intros H. split.
  - intros k Hk. symmetry. apply validate_lengths; auto. apply list_lengths_spec; auto.
  - intros Hs. unfold n_timesteps.
    destruct (list_lengths m) as [|n rest] eqn:E; [reflexivity|].
    assert (Hin : In n (list_lengths m)) by (rewrite E; left; reflexivity).
    apply list_lengths_spec in Hin. apply Hs in Hin. discriminate Hin.
Qed.

Lemma validate_timestamps (m : met) ts :
  validate m = true -> m_timestamps m = Some ts -> length ts = n_timesteps m.
Proof.
  unfold validate, n_timesteps. intros H Hts. rewrite Hts in H.
  destruct (list_lengths m) as [|n rest];
    destruct (m_ustar m), (m_z0 m); try discriminate H;
    try (apply andb_true_iff in H; destruct H as [_ H]); apply Nat.eqb_eq in H; exact H.
Qed.

Definition field_at (f : fld) (i : nat) (a : A) : Prop :=
  match f with Scalar b => a = b | Lst l => nth_error l i = Some a end.

Lemma get_some (m : met) (f : fld) i :
  validate m = true -> i < n_timesteps m -> In (fld_len f) (fields m) ->
  exists a, get f i = Some a /\ field_at f i a.
Proof.
  intros Hv Hi Hin. destruct f as [a|l]; simpl.
  - exists a; auto.
  - simpl in Hin. apply (proj1 (steps_common_length m Hv)) in Hin.
    destruct (nth_error l i) as [a|] eqn:E.
    + exists a; auto.
    + apply nth_error_None in E. lia.
Qed.

(* C16, clause 2: step i exists for every i < n_timesteps and selects entry i / the scalar *)
Lemma get_step_spec (m : met) i :
  validate m = true -> i < n_timesteps m ->
  exists s, get_step m i = Some s /\
    match m_ustar m with None => s_ustar s = None
      | Some f => exists a, s_ustar s = Some a /\ field_at f i a end /\
    field_at (m_mol m) i (s_mol s) /\
    field_at (m_wind_speed m) i (s_wind_speed s) /\
    field_at (m_wind_dir m) i (s_wind_dir s) /\
    s_z0 s = m_z0 m /\
    match m_timestamps m with None => s_stamp s = Index i
      | Some ts => exists t, nth_error ts i = Some t /\ s_stamp s = Stamp t end.
Proof.
  intros Hv Hi.
  destruct (get_some m (m_mol m) i Hv Hi) as (mo & Emo & Fmo); [simpl; auto|].
  destruct (get_some m (m_wind_speed m) i Hv Hi) as (ws & Ews & Fws); [simpl; auto|].
  destruct (get_some m (m_wind_dir m) i Hv Hi) as (wd & Ewd & Fwd); [simpl; auto|].
  unfold get_step. rewrite Emo, Ews, Ewd.
  assert (Hu : exists u, match m_ustar m with None => Some None
            | Some f => match get f i with Some a => Some (Some a) | None => None end end = Some u /\
            match m_ustar m with None => u = None | Some f => exists a, u = Some a /\ field_at f i a end).
  { destruct (m_ustar m) as [f|] eqn:Eu.
    - destruct (get_some m f i Hv Hi) as (a & Ea & Fa). { unfold fields. rewrite Eu. simpl. auto. }
      rewrite Ea. exists (Some a). split; [reflexivity|]. exists a; auto.
    - exists None; auto. }
  destruct Hu as (u & Eu & Fu). rewrite Eu.
  destruct (m_timestamps m) as [ts|] eqn:Ets.
  - pose proof (validate_timestamps m ts Hv Ets) as Hl.
    destruct (nth_error ts i) as [t|] eqn:Et.
    + eexists; split; [reflexivity|]. cbn [s_ustar s_mol s_wind_speed s_wind_dir s_z0 s_stamp].
      split; [exact Fu|]. repeat (split; [assumption || reflexivity|]). exists t; auto.
    + apply nth_error_None in Et. lia.
  - eexists; split; [reflexivity|]. cbn [s_ustar s_mol s_wind_speed s_wind_dir s_z0 s_stamp].
    split; [exact Fu|]. repeat (split; [assumption || reflexivity|]). reflexivity.
Qed.

(* C16, clause 3: rejection *)
Lemma reject_spec (m : met) :
  ((exists k1 k2, In (Some k1) (fields m) /\ In (Some k2) (fields m) /\ k1 <> k2) -> validate m = false) /\
  (forall ts, m_timestamps m = Some ts -> length ts <> n_timesteps m -> validate m = false) /\
  (m_ustar m = None -> m_z0 m = None -> validate m = false).
Proof.
  repeat split.
  - intros (k1 & k2 & H1 & H2 & Hne). destruct (validate m) eqn:Hv; [|reflexivity].
    exfalso. apply Hne. apply (proj1 (steps_common_length m Hv)) in H1, H2. congruence.
  - intros ts Hts Hne. destruct (validate m) eqn:Hv; [|reflexivity].
    exfalso. apply Hne. eapply validate_timestamps; eauto.
  - intros Hu Hz. unfold validate. rewrite Hu, Hz. reflexivity.
Qed.

(* and conversely: nothing else is rejected *)
Lemma accept_spec (m : met) :
  (m_ustar m <> None \/ m_z0 m <> None) ->
  (forall k1 k2, In (Some k1) (fields m) -> In (Some k2) (fields m) -> k1 = k2) ->
  (forall ts, m_timestamps m = Some ts -> length ts = n_timesteps m) ->
  validate m = true.
Proof.
  intros Hsrc Hlen Hts. unfold validate.
  assert (Hbody : (let ok_ts n := match m_timestamps m with None => true | Some ts => Nat.eqb (length ts) n end in
    match list_lengths m with [] => ok_ts 1 | n :: rest => all_eq n rest && ok_ts n end) = true).
  { cbv zeta. unfold n_timesteps in Hts.
    destruct (list_lengths m) as [|n rest] eqn:E.
    - destruct (m_timestamps m) as [ts|]; [|reflexivity]. apply Nat.eqb_eq. auto.
    - apply andb_true_iff. split.
      + apply all_eq_spec. intros k Hk. apply Hlen; apply list_lengths_spec; rewrite E; simpl; auto.
      + destruct (m_timestamps m) as [ts|]; [|reflexivity]. apply Nat.eqb_eq. auto. }
  destruct (m_ustar m), (m_z0 m); auto. destruct Hsrc as [H|H]; congruence.
Qed.

(* what the drivers iterate over: never an IndexError once the configuration was accepted *)
Lemma series_total (m : met) l :
  series m = Some l -> length l = n_timesteps m /\ forall o, In o l -> o <> None.
Proof.
  unfold series. destruct (validate m) eqn:Hv; [|discriminate]. intros H; injection H as <-.
  split; [rewrite map_length, seq_length; reflexivity|].
  intros o Ho. apply in_map_iff in Ho. destruct Ho as (i & <- & Hi). apply in_seq in Hi.
  destruct (get_step_spec m i Hv) as (s & -> & _); [lia|discriminate].
Qed.

End P.
