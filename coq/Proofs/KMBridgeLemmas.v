(* Static lemmas for the whole-function tie of bldfm/ffm_kormann_meixner.py (Model/KMDesc.v):
   a description whose components agree with the model's kernels, interpreted, IS the model's function
   (Model/KM.v: estimateZ0_obs; cell_aligned / cell_wd on the grid).  The per-run bridge Bridge/KMFunBridge.v
   proves the component agreements for the description translated from the CURRENT source. *)
From Coq Require Import Reals List ZArith Bool Lia Lra.
From BL Require Import Model.KM Model.KMDesc Proofs.KMProofs.
Import ListNotations.
Open Scope R_scope.

(* ---------------------------------------------------------------------------------------------- *)
(* lists *)
Lemma map_combine_nth {A B C : Type} (f : A * B -> C) (l : list A) (l' : list B) (i : nat) (a : A) (b : B) (dc : C) :
  nth_error l i = Some a -> nth_error l' i = Some b -> nth i (map f (combine l l')) dc = f (a, b).
Proof.
  revert l' i. induction l as [|x l IH]; intros [|y l'] [|i]; simpl; intros H1 H2; try discriminate.
  - inversion H1; inversion H2; reflexivity.
  - apply IH; assumption.
Qed.

Lemma fold_left_ext_in {A B : Type} (f g : A -> B -> A) (l : list B) :
  (forall a b, In b l -> f a b = g a b) -> forall a, fold_left f l a = fold_left g l a.
Proof.
  induction l as [|b l IH]; intros H a; simpl; [reflexivity|].
  rewrite (H a b (or_introl eq_refl)). apply IH. intros a' b' Hin. apply H. right; assumption.
Qed.

Lemma zrange_0 (hi : Z) : zrange 0 hi = map (fun k => IZR (Z.of_nat k)) (seq 0 (Z.to_nat hi)).
Proof. unfold zrange. rewrite Z.sub_0_r. apply map_ext. intro k. reflexivity. Qed.

Lemma zrange_in (hi : Z) (kk : R) : In kk (zrange 0 hi) -> exists k : Z, kk = IZR k /\ (0 <= k < hi)%Z.
Proof.
  rewrite zrange_0. intro H. apply in_map_iff in H. destruct H as [n [Hn Hin]]. apply in_seq in Hin.
  exists (Z.of_nat n). split; [symmetry; exact Hn | lia].
Qed.

(* ---------------------------------------------------------------------------------------------- *)
(* the loop `for kk in range(0, n): if bin(kk, wd): res = M kk` assigns in the one iteration kk = floor wd *)
Lemma bin_fold (M : R -> option R) (wd : R) (n : nat) :
  fold_left (fun a kk => if in_bin kk wd then M kk else a) (map (fun k => IZR (Z.of_nat k)) (seq 0 n)) None
  = if ((0 <=? Int_part wd) && (Int_part wd <? Z.of_nat n))%Z then M (IZR (Int_part wd)) else None.
Proof.
  induction n as [|n IH].
  - simpl. destruct (Z.leb_spec 0 (Int_part wd)) as [H0|H0]; destruct (Z.ltb_spec (Int_part wd) 0) as [H1|H1];
      simpl; try reflexivity. exfalso; lia.
  - rewrite seq_S, map_app, fold_left_app, IH. cbn [map fold_left Nat.add].
    destruct (in_bin (IZR (Z.of_nat n)) wd) eqn:Hb.
    + apply bin_is_floor in Hb. rewrite Hb.
      destruct (Z.leb_spec 0 (Z.of_nat n)) as [H0|H0]; [|exfalso; lia].
      destruct (Z.ltb_spec (Z.of_nat n) (Z.of_nat (S n))) as [H1|H1]; [|exfalso; lia].
      reflexivity.
    + assert (Hne : Int_part wd <> Z.of_nat n).
      { intro E. apply bin_is_floor in E. rewrite E in Hb. discriminate. }
      destruct (Z.leb_spec 0 (Int_part wd)) as [H0|H0]; cbn [andb]; [|reflexivity].
      destruct (Z.ltb_spec (Int_part wd) (Z.of_nat n)) as [H1|H1];
        destruct (Z.ltb_spec (Int_part wd) (Z.of_nat (S n))) as [H2|H2]; try reflexivity; exfalso; lia.
Qed.

(* z0[idx2] when idx2 is the model's window and the source the model's raw list *)
Lemma select_filter (kk w : R) (idx2 : obs -> bool) (src z : obs -> option R) (os : list obs) :
  (forall o, In o os -> idx2 o = in_window kk w (o_wd o)) -> (forall o, In o os -> src o = z o) ->
  map src (filter idx2 os) = select kk w (map o_wd os) (map z os).
Proof.
  induction os as [|o os IH]; intros H1 H2; simpl; [reflexivity|].
  rewrite (H1 o (or_introl eq_refl)).
  assert (IH' : map src (filter idx2 os) = select kk w (map o_wd os) (map z os)).
  { apply IH; intros o' Hin; [apply H1 | apply H2]; right; exact Hin. }
  destruct (in_window kk w (o_wd o)); simpl.
  - rewrite (H2 o (or_introl eq_refl)), IH'. reflexivity.
  - exact IH'.
Qed.

Definition z0_of (o : obs) : option R := z0clean (z0raw (o_zm o) (o_L o) (o_ws o) (o_ustar o)).

Lemma raw_list_map (os : list obs) :
  raw_list (map o_zm os) (map o_L os) (map o_ws os) (map o_ustar os) = map z0_of os.
Proof. unfold raw_list. induction os as [|o os IH]; simpl; [reflexivity | f_equal; exact IH]. Qed.

(* ---------------------------------------------------------------------------------------------- *)
(* a description of estimateZ0 agrees with the model component by component, for wind directions in Pwd and half
   windows in Ph (Pwd = Ph = everything: the code as it behaves on all inputs; Pwd = [0, 360), Ph = [1, 89]: the
   domain of the circular-window theorems, where rewrites of the unwrapping that differ only outside stay provable) *)
Record z0desc_ok (Pwd Ph : R -> Prop) (d : z0desc) : Prop := mkZ0Ok {
  ok_checked : forall p : zpar, In p (zd_checked d);
  ok_early : forall h, zd_early d h = if Rlt_dec h 1 then true else false;
  ok_early_ret : forall o, zd_early_ret d o = z0_of o;
  ok_init : forall o, zd_init d o = None;
  ok_lo : zd_lo d = 0%Z;
  ok_hi : zd_hi d = 360%Z;
  ok_idx1 : forall o (k : Z) h, (0 <= k < 360)%Z -> Pwd (o_wd o) -> Ph h -> zd_idx1 d o (IZR k) h = in_bin (IZR k) (o_wd o);
  ok_idx2 : forall o (k : Z) h, (0 <= k < 360)%Z -> Pwd (o_wd o) -> Ph h -> zd_idx2 d o (IZR k) h = in_window (IZR k) h (o_wd o);
  ok_src : forall o (k : Z) h, (0 <= k < 360)%Z -> Ph h -> zd_src d o (IZR k) h = z0_of o
}.

Section Z0.
Variable nanmedian : list (option R) -> option R.

Lemma z0_iter_length d os h acc kk : length acc = length os -> length (z0_iter nanmedian d os h acc kk) = length os.
Proof. intro H. unfold z0_iter. rewrite map_length, combine_length, H. apply Nat.min_id. Qed.

(* the fold over the arrays, read at one observation *)
Lemma fold_pointwise d os h kks : forall acc i o, length acc = length os -> nth_error os i = Some o ->
  nth i (fold_left (z0_iter nanmedian d os h) kks acc) None =
  fold_left (fun a kk => if zd_idx1 d o kk h then z0_median nanmedian d os h kk else a) kks (nth i acc None).
Proof.
  induction kks as [|kk kks IH]; intros acc i o Hl Ho; simpl; [reflexivity|].
  rewrite (IH _ i o (z0_iter_length d os h acc kk Hl) Ho). f_equal.
  destruct (nth_error acc i) as [b|] eqn:Hb.
  - unfold z0_iter. rewrite (map_combine_nth _ os acc i o b None Ho Hb). simpl.
    rewrite (nth_error_nth acc i None Hb). reflexivity.
  - exfalso. apply nth_error_None in Hb.
    assert (Hi : (i < length os)%nat) by (apply nth_error_Some; rewrite Ho; discriminate). lia.
Qed.

Theorem run_z0_model (Pwd Ph : R -> Prop) (d : z0desc) : z0desc_ok Pwd Ph d ->
  forall (os : list obs) (h : R) (i : nat),
  Forall (fun o => Pwd (o_wd o)) os -> (~ h < 1 -> Ph h) -> (i < length os)%nat ->
  nth i (run_z0 nanmedian d os h) None
  = estimateZ0_obs nanmedian h (map o_zm os) (map o_L os) (map o_ws os) (map o_ustar os) (map o_wd os) i.
Proof.
  intros Hok os h i Hall Hh Hi.
  unfold run_z0, estimateZ0_obs. rewrite (ok_early _ _ _ Hok), raw_list_map.
  destruct (Rlt_dec h 1) as [Hlt|Hge].
  - rewrite (map_ext _ _ (ok_early_ret _ _ _ Hok)). reflexivity.
  - specialize (Hh Hge).
    destruct (nth_error os i) as [o|] eqn:Ho; [|apply nth_error_None in Ho; exfalso; lia].
    assert (HP : Pwd (o_wd o)).
    { rewrite Forall_forall in Hall. apply Hall. eapply nth_error_In; exact Ho. }
    rewrite (fold_pointwise d os h _ _ i o (map_length _ _) Ho).
    rewrite (nth_error_nth _ i None (map_nth_error (zd_init d) i os Ho)), (ok_init _ _ _ Hok).
    rewrite (nth_error_nth _ i 0 (map_nth_error o_wd i os Ho)).
    rewrite (ok_lo _ _ _ Hok), (ok_hi _ _ _ Hok).
    rewrite (fold_left_ext_in _ (fun a kk => if in_bin kk (o_wd o) then z0_median nanmedian d os h kk else a)).
    2:{ intros a kk Hin. apply zrange_in in Hin. destruct Hin as [k [-> Hk]].
        rewrite (ok_idx1 _ _ _ Hok o k h Hk HP Hh). reflexivity. }
    rewrite zrange_0, (bin_fold (z0_median nanmedian d os h) (o_wd o)).
    rewrite Z2Nat.id by lia.
    unfold z0med_obs, z0med_bin.
    destruct ((0 <=? Int_part (o_wd o)) && (Int_part (o_wd o) <? 360))%Z eqn:Hr; [|reflexivity].
    apply andb_prop in Hr. destruct Hr as [H0 H1]. apply Z.leb_le in H0. apply Z.ltb_lt in H1.
    unfold z0_median. f_equal. apply select_filter.
    + intros o' Hin. apply (ok_idx2 _ _ _ Hok); [lia | | exact Hh].
      rewrite Forall_forall in Hall. apply Hall. exact Hin.
    + intros o' Hin. apply (ok_src _ _ _ Hok); [lia | exact Hh].
Qed.

(* the same with the window spelled out as the circular one (Pwd = [0, 360), half window in [1, 89]) *)
Definition on_circle (wd : R) : Prop := 0 <= wd < 360.
Definition narrow (h : R) : Prop := 0 <= h <= 89.

End Z0.

(* ---------------------------------------------------------------------------------------------- *)
(* estimateFootprint *)
Record fpdesc_ok (Gamma : R -> R) (d : fpdesc) : Prop := mkFpOk {
  fok_cols : forall a, fst (fst (fd_cols d a)) = a_xmin a + 1 / 2 * a_res a /\ snd (fst (fd_cols d a)) = a_xmax a
                       /\ snd (fd_cols d a) = a_res a;
  fok_rows : forall a, fst (fst (fd_rows d a)) = a_ymax a - 1 / 2 * a_res a /\ snd (fst (fd_rows d a)) = a_ymin a
                       /\ snd (fd_rows d a) = - a_res a;
  fok_exit : forall a, fd_exit d a = if Rlt_dec (U_of (a_p a)) 0 then true else false;
  fok_warns : fd_exit_warns d = true;
  fok_exit_ret : forall a i j, U_of (a_p a) < 0 ->
     fd_exit_ret d a i j = (grid_xc (a_xmin a) (a_res a) j, grid_yc (a_ymax a) (a_res a) i, 0);
  fok_ret : forall a i j, ~ U_of (a_p a) < 0 -> fd_ret d Gamma a i j = fp_model Gamma a i j
}.

Theorem run_fp_model (Gamma : R -> R) (d : fpdesc) : fpdesc_ok Gamma d ->
  forall (a : fpargs) (i j : nat), run_fp Gamma d a i j = fp_model Gamma a i j.
Proof.
  intros Hok a i j. unfold run_fp. rewrite (fok_exit _ _ Hok).
  destruct (Rlt_dec (U_of (a_p a)) 0) as [Hneg|Hpos].
  - rewrite (fok_exit_ret _ _ Hok a i j Hneg). unfold fp_model, cell_aligned, cell_wd, cell, cell_g.
    destruct (Rlt_dec (U_of (a_p a)) 0) as [_|Hc]; [|contradiction].
    destruct (a_wd a); reflexivity.
  - apply (fok_ret _ _ Hok a i j Hpos).
Qed.

(* the cell-centre coordinates as np.arange produces them *)
Lemma arange_cols (xmin res : R) (j : nat) : arange_nth (xmin + 1 / 2 * res) res j = grid_xc xmin res j.
Proof. unfold arange_nth, grid_xc. ring. Qed.
Lemma arange_rows (ymax res : R) (i : nat) : arange_nth (ymax - 1 / 2 * res) (- res) i = grid_yc ymax res i.
Proof. unfold arange_nth, grid_yc. ring. Qed.

Lemma triple_eq (a a' b b' c c' : R) : a = a' -> b = b' -> c = c' -> (a, b, c) = (a', b', c').
Proof. intros -> -> ->. reflexivity. Qed.
