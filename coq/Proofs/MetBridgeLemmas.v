(* Support for Bridge/MetBridge.v: the encoders of Model/MetPy.v lose nothing (injectivity), and the
   symbolic-execution tactic that decides `interpreter(program from /repo) = encoder(model)` for ALL inputs. *)
From Coq Require Import List String Arith Bool Lia.
From BL Require Import Model.Met Model.MetPy.
Import ListNotations.

Section Enc.
Context {A T : Type}.

Lemma enc_nat_inj (a b : nat) : @enc_nat A T a = enc_nat b -> a = b.
Proof. unfold enc_nat. intros H. injection H as H. exact H. Qed.

Lemma enc_validate_inj (a b : bool) : @enc_validate A T a = enc_validate b -> a = b.
Proof. destruct a, b; simpl; intros H; try reflexivity; discriminate H. Qed.

Lemma enc_validate_true (b : bool) : @enc_validate A T b = Ok VNone <-> b = true.
Proof. destruct b; simpl; split; intros H; try reflexivity; discriminate H. Qed.

Lemma enc_validate_false (b : bool) : @enc_validate A T b = Err ValueError <-> b = false.
Proof. destruct b; simpl; split; intros H; try reflexivity; discriminate H. Qed.

Lemma enc_step_inj (a b : option (step A T)) : enc_step a = enc_step b -> a = b.
Proof.
  destruct a as [[u1 mo1 ws1 wd1 z1 st1]|], b as [[u2 mo2 ws2 wd2 z2 st2]|]; simpl; intros H;
    try reflexivity; try discriminate H.
  destruct u1 as [u1|], u2 as [u2|], z1 as [z1|], z2 as [z2|], st1 as [t1|i1], st2 as [t2|i2]; simpl in H;
    try discriminate H; injection H as H; try discriminate; intros; subst; reflexivity.
Qed.

Lemma enc_step_none (o : option (step A T)) : enc_step o = Err IndexError <-> o = None.
Proof. destruct o; simpl; split; intros H; try reflexivity; discriminate H. Qed.

End Enc.

(* Symbolic execution.  After the shape of every field is fixed (absent / scalar / list of unknown length),
   normalising both sides leaves decision trees over the stuck observations `length l =? length l'`,
   `nth_error l i` and integer comparisons; they are split one at a time until both sides are the same value
   (or the collected facts about the lengths are contradictory).  Nothing here depends on how the program
   is written, only on what it computes. *)
Ltac met_norm := cbv -[List.length Nat.eqb Nat.ltb Nat.leb nth_error].

Ltac met_split :=
  match goal with
  | |- context [Nat.eqb ?a ?b] => destruct (Nat.eqb_spec a b)
  | |- context [Nat.ltb ?a ?b] => destruct (Nat.ltb_spec a b)
  | |- context [Nat.leb ?a ?b] => destruct (Nat.leb_spec a b)
  | |- context [nth_error ?l ?i] => destruct (nth_error l i)
  end.

Ltac met_symex := met_norm; first [ reflexivity | met_split; met_symex | exfalso; lia ].
