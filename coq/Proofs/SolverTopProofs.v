(* Lemmas about the interpreter of the top-level description (Model/SolverTop.v):
   - geometry_cases: Solver.geometry case by case;
   - run_top_correct: a description whose steps produce the model's errors in the model's order and otherwise run a
     complete, well-ordered set of pieces, and whose expressions evaluate to the model's sizes / increments / pad widths /
     mode counts / coordinates, is interpreted to solve_top for ALL arguments (no hypothesis on Ops);
   - solve_top_* : what an outcome of solve_top says in terms of Solver.geometry / SolverArray.solve_array / Solver.solve. *)
From Coq Require Import ZArith List Bool Lia Field Ring Field_theory.
From BL Require Import Base.Ops Base.Laws Model.Solver Model.SolverArray Model.SolverTop Proofs.Plumbing.
Import ListNotations.

Section TopProofs.
Variable O : Ops.
Notation args := (args O).
Notation targs := (targs O).

Lemma geometry_cases (a : args) :
  geometry O a = if odd_modes O a then inr ModesOdd else if neg_pad O a then inr NegativePad
                 else if bad_level O a then inr LevelIndex else inl (geom_of O a).
Proof.
  unfold geometry, odd_modes, neg_pad, bad_level, geom_of, raw_px, raw_py, raw_dx, raw_dy, raw_nx, raw_ny, halo_of.
  destruct (Nat.odd (a_nlx O a) || Nat.odd (a_nly O a)); [reflexivity|].
  cbv zeta.
  match goal with |- context [((?x <? 0)%Z || (?y <? 0)%Z)] => destruct ((x <? 0)%Z || (y <? 0)%Z) end; [reflexivity|].
  match goal with |- context [((?x <? ?u)%nat || (?y <? ?v)%nat)] => destruct ((x <? u)%nat || (y <? v)%nat) end;
    match goal with |- context [existsb ?f ?l] => destruct (existsb f l) end; reflexivity.
Qed.

(* what the steps of a description must do *)
Definition steps_spec (t : targs) (r : (list piece * bool) + terror) : Prop :=
  let a := top_args O t in
  if odd_modes O a then r = inr (TErr ModesOdd)
  else if neg_pad O a then r = inr (TErr NegativePad)
  else if bad_prec O t then r = inr TBadPrecision
  else if bad_level O a then r = inr (TErr LevelIndex)
  else exists st, r = inl st /\ complete O t st = true.

Record desc_ok (d : top_desc) : Prop := mkDescOk {
  ok_steps : forall t, steps_spec t (run_steps O t (td_steps d) ([], false));
  ok_geom : forall t, odd_modes O (top_args O t) = false -> neg_pad O (top_args O t) = false ->
            geom_from O d t = geom_of O (top_args O t);
  ok_aux : forall t, odd_modes O (top_args O t) = false -> neg_pad O (top_args O t) = false ->
           let g := geom_of O (top_args O t) in
           evz O t (td_dlx d) = start (znxe O g) (znlx O g) /\ evz O t (td_dly d) = start (znye O g) (znly O g) /\
           evz O t (td_nlvls d) = Z.of_nat (length (a_levels O (top_args O t)));
  ok_mesh : forall t zl, map (ev_mesh O t zl) (td_mesh_in d)
            = [MVZlev O zl;
               MVLin O (mkLinVal O (cofZ O 0%Z) (a_ymx O (top_args O t)) (Z.of_nat (raw_ny O (top_args O t))) false);
               MVLin O (mkLinVal O (cofZ O 0%Z) (a_xmx O (top_args O t)) (Z.of_nat (raw_nx O (top_args O t))) false)];
  ok_result : td_mesh_ij d = true /\ td_grid d = [(2, true); (1, true); (0, true)]%nat /\
              td_conc_squeezed d = true /\ td_flx_squeezed d = true
}.

Theorem run_top_correct (d : top_desc) : desc_ok d -> forall t, run_top O d t = solve_top O t.
Proof.
  intros [Hs Hg Ha Hm Hr] t. unfold run_top, solve_top. rewrite geometry_cases.
  specialize (Hs t). unfold steps_spec in Hs. cbv zeta in Hs.
  destruct (odd_modes O (top_args O t)) eqn:Ho; [rewrite Hs; reflexivity|].
  destruct (neg_pad O (top_args O t)) eqn:Hn; [rewrite Hs; reflexivity|].
  destruct (bad_prec O t) eqn:Hp.
  { rewrite Hs. destruct (bad_level O (top_args O t)); reflexivity. }
  destruct (bad_level O (top_args O t)) eqn:Hl; [rewrite Hs; reflexivity|].
  destruct Hs as [st [-> Hc]]. rewrite Hc. cbn [negb].
  rewrite (Hg t Ho Hn). destruct (Ha t Ho Hn) as (Ha1 & Ha2 & Ha3). rewrite Ha1, Ha2, Ha3, !Z.eqb_refl.
  cbn [andb negb]. rewrite Hm. destruct Hr as (-> & -> & -> & ->). reflexivity.
Qed.

(* ------------------------------------------------------------------ what solve_top's outcomes mean *)

Lemma solve_top_ok t r : solve_top O t = inl r ->
  exists g, geometry O (top_args O t) = inl g /\ bad_prec O t = false /\
    solve_array O (top_args O t) = inl (tr_conc O r, tr_flx O r) /\
    tr_conc O r = field_arr O (top_args O t) g fst /\ tr_flx O r = field_arr O (top_args O t) g snd /\
    tr_shape O r = squeeze_shape [length (a_levels O (top_args O t)); g_ny O g; g_nx O g] /\
    tr_mesh_in O r = [MVZlev O (map (fun l => nth0 O (a_z O (top_args O t)) l) (a_levels O (top_args O t)));
                      MVLin O (mkLinVal O (cofZ O 0%Z) (a_ymx O (top_args O t)) (Z.of_nat (g_ny O g)) false);
                      MVLin O (mkLinVal O (cofZ O 0%Z) (a_xmx O (top_args O t)) (Z.of_nat (g_nx O g)) false)] /\
    tr_mesh_ij O r = true /\ tr_grid O r = [(2, true); (1, true); (0, true)]%nat /\ tr_squeezed O r = (true, true).
Proof.
  unfold solve_top. destruct (geometry O (top_args O t)) as [g|e] eqn:Hg.
  - destruct (bad_prec O t) eqn:Hp; [discriminate|]. intros H. injection H as <-. exists g. cbn.
    unfold solve_array. rewrite Hg. repeat split; reflexivity.
  - destruct e; try discriminate. destruct (bad_prec O t); discriminate.
Qed.

Lemma solve_top_err t e : solve_top O t = inr e ->
  match e with
  | TErr ModesOdd => odd_modes O (top_args O t) = true
  | TErr NegativePad => odd_modes O (top_args O t) = false /\ neg_pad O (top_args O t) = true
  | TBadPrecision => odd_modes O (top_args O t) = false /\ neg_pad O (top_args O t) = false /\ t_prec O t = PrecOther
  | TErr LevelIndex => odd_modes O (top_args O t) = false /\ neg_pad O (top_args O t) = false /\ bad_prec O t = false /\
                       bad_level O (top_args O t) = true
  | _ => False
  end.
Proof.
  unfold solve_top. rewrite geometry_cases.
  destruct (odd_modes O (top_args O t)); [intros H; injection H as <-; reflexivity|].
  destruct (neg_pad O (top_args O t)); [intros H; injection H as <-; split; reflexivity|].
  destruct (bad_level O (top_args O t)).
  - destruct (bad_prec O t) eqn:Hp; intros H; injection H as <-.
    + repeat split. unfold bad_prec in Hp. destruct (t_prec O t); try discriminate; reflexivity.
    + repeat split.
  - destruct (bad_prec O t) eqn:Hp; [|discriminate]. intros H; injection H as <-.
    repeat split. unfold bad_prec in Hp. destruct (t_prec O t); try discriminate; reflexivity.
Qed.

End TopProofs.

Section TopCoords.
Variable O : Ops.
Hypothesis L : Laws O.
Add Field OFtop : (L_field O L).

(* the coordinates: np.linspace(0, xmx, nx, endpoint=False)[i] = i * (xmx / nx), the model's r_x *)
Lemma lin_at_model (stop : C O) (n : nat) (i : nat) :
  lin_at O (mkLinVal O (cofZ O 0%Z) stop (Z.of_nat n) false) i
  = cmul O (cofZ O (Z.of_nat i)) (cdiv O stop (cofZ O (Z.of_nat n))).
Proof.
  unfold lin_at. cbn [lv_start lv_stop lv_num lv_endpoint].
  rewrite (L_ofZ_0 O L), !(Fdiv_def (L_field O L)). ring.
Qed.

Lemma lin_list_model (stop : C O) (n : nat) :
  lin_list O (mkLinVal O (cofZ O 0%Z) stop (Z.of_nat n) false)
  = map (fun i => cmul O (cofZ O (Z.of_nat i)) (cdiv O stop (cofZ O (Z.of_nat n)))) (seq 0 n).
Proof.
  unfold lin_list. cbn [lv_num]. rewrite Nat2Z.id. apply map_ext. intros i. apply lin_at_model.
Qed.

End TopCoords.

(* Python's `n % 2 > 0` / `n % 2 != 0` / truth value of `n % 2` on a non-negative int is Nat.odd *)
Lemma odd_as_mod (n : nat) : Nat.odd n = negb (Z.of_nat n mod 2 =? 0)%Z.
Proof.
  rewrite <- Nat.negb_even. f_equal.
  destruct (Nat.even n) eqn:E.
  - apply Nat.even_spec in E. destruct E as [k ->]. symmetry. apply Z.eqb_eq.
    rewrite Nat2Z.inj_mul, Z.mul_comm. apply Z.mod_mul. discriminate.
  - symmetry. apply Z.eqb_neq. intros H.
    assert (Nat.even n = true); [|congruence].
    apply Nat.even_spec. exists (Z.to_nat (Z.of_nat n / 2)).
    apply Nat2Z.inj. rewrite Nat2Z.inj_mul, Z2Nat.id by (apply Z.div_pos; lia).
    pose proof (Z.div_mod (Z.of_nat n) 2). lia.
Qed.
