(* List facts used by Bridge/CliBridge.v: the loop shapes the cli translator (harness/py2coq_cli.py) emits for loops that
   carry TWO lists (the Python list the loop appends to, and the hidden log of run_bldfm_single calls) brought to
   map / flat_map form.  The loop body is an arbitrary function F of the carried pair and the loop variable; what it does
   is a hypothesis (discharged by computation in the bridge), so the lemmas do not depend on how the body is written.
   Nothing here depends on the generated file. *)
From Coq Require Import List Arith.
From BL Require Import Proofs.DriversBridgeLemmas.
Import ListNotations.

Section L.
Context {A X B C : Type}.

(* for x in l: a.append(f x); b.append(g x) *)
Lemma fold_pair_snoc (F : list B * list C -> A -> list B * list C) (f : A -> B) (g : A -> C) (l : list A) :
  (forall a b x, F (a, b) x = (a ++ [f x], b ++ [g x])) ->
  forall a b, fold_left F l (a, b) = (a ++ map f l, b ++ map g l).
Proof.
  intros HF. induction l as [|x l IH]; intros a b; simpl; [rewrite !app_nil_r; reflexivity|].
  rewrite HF, IH, <- !app_assoc. reflexivity.
Qed.

(* for x in l: <a loop that appends map (f x) (h x) to a and map (g x) (h x) to b> *)
Lemma fold_pair_flat (F : list B * list C -> A -> list B * list C) (h : A -> list X) (f : A -> X -> B) (g : A -> X -> C) (l : list A) :
  (forall a b x, F (a, b) x = (a ++ map (f x) (h x), b ++ map (g x) (h x))) ->
  forall a b, fold_left F l (a, b) =
    (a ++ flat_map (fun x => map (f x) (h x)) l, b ++ flat_map (fun x => map (g x) (h x)) l).
Proof.
  intros HF. induction l as [|x l IH]; intros a b; simpl; [rewrite !app_nil_r; reflexivity|].
  rewrite HF, IH, <- !app_assoc. reflexivity.
Qed.

(* the same with one carried list *)
Lemma fold_one_snoc (F : list B -> A -> list B) (f : A -> B) (l : list A) :
  (forall a x, F a x = a ++ [f x]) -> forall a, fold_left F l a = a ++ map f l.
Proof.
  intros HF. induction l as [|x l IH]; intros a; simpl; [rewrite app_nil_r; reflexivity|].
  rewrite HF, IH, <- app_assoc. reflexivity.
Qed.

Lemma fold_one_flat (F : list B -> A -> list B) (h : A -> list X) (f : A -> X -> B) (l : list A) :
  (forall a x, F a x = a ++ map (f x) (h x)) -> forall a, fold_left F l a = a ++ flat_map (fun x => map (f x) (h x)) l.
Proof.
  intros HF. induction l as [|x l IH]; intros a; simpl; [rewrite app_nil_r; reflexivity|].
  rewrite HF, IH, <- app_assoc. reflexivity.
Qed.
End L.
