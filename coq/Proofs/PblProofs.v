(* Lemmas about Model/Pbl.v (property C09). *)
From Coq Require Import Reals Lra Lia ZArith List.
From Coquelicot Require Import Coquelicot.
From Interval Require Import Tactic.
From BL Require Import Model.Pbl.
Import ListNotations.
Open Scope R_scope.

(* ------------------------------------------------------------------------------------------ *)
(** * Stability functions *)

Lemma xi_pos x : 0 < xi_of x.
Proof. unfold xi_of, Rpower. apply exp_pos. Qed.

Lemma xi_pow4 x : 0 < 1 - 16 * x -> xi_of x * xi_of x * xi_of x * xi_of x = 1 - 16 * x.
Proof.
  intros H. unfold xi_of, Rpower. rewrite <- !exp_plus.
  replace (1 / 4 * ln (1 - 16 * x) + 1 / 4 * ln (1 - 16 * x) + 1 / 4 * ln (1 - 16 * x) + 1 / 4 * ln (1 - 16 * x))
    with (ln (1 - 16 * x)) by field.
  apply exp_ln; exact H.
Qed.

Lemma Rpower_base1 y : Rpower 1 y = 1.
Proof. unfold Rpower. rewrite ln_1, Rmult_0_r. apply exp_0. Qed.

(* phi is positive everywhere *)
Lemma phi_pos x : 0 < phi x.
Proof.
  unfold phi, phi_stable, phi_unstable. destruct (Rlt_dec 0 x) as [H|H].
  - lra.
  - unfold Rpower. apply exp_pos.
Qed.

Lemma phim_pos x : 0 < phim x.
Proof.
  unfold phim. destruct (Rlt_dec 0 x) as [H|H].
  - lra.
  - unfold Rpower. apply exp_pos.
Qed.

(* values of the two branch formulas at the neutral point *)
Lemma psi_unstable_0 : psi_unstable 0 = 0.
Proof.
  unfold psi_unstable, psi_of_xi, xi_of.
  replace (1 - 16 * 0) with 1 by ring. rewrite Rpower_base1.
  replace (1 / 2 * (1 + 1)) with 1 by field.
  replace (1 / 2 * (1 + 1 * 1)) with 1 by field.
  rewrite ln_1, atan_1. field.
Qed.
Lemma psi_stable_0 : psi_stable 0 = 0.
Proof. unfold psi_stable. ring. Qed.
Lemma phi_unstable_0 : phi_unstable 0 = 1.
Proof. unfold phi_unstable. replace (1 - 16 * 0) with 1 by ring. apply Rpower_base1. Qed.
Lemma phi_stable_0 : phi_stable 0 = 1.
Proof. unfold phi_stable. ring. Qed.
Lemma psi_0 : psi 0 = 0.
Proof. unfold psi. destruct (Rlt_dec 0 0); [lra|apply psi_unstable_0]. Qed.
Lemma phi_0 : phi 0 = 1.
Proof. unfold phi. destruct (Rlt_dec 0 0); [lra|apply phi_unstable_0]. Qed.

(* a function glued from two continuous pieces that agree at the joint is continuous there *)
Lemma continuous_piecewise (f g : R -> R) a :
  continuous f a -> continuous g a -> f a = g a ->
  continuous (fun x => if Rlt_dec a x then f x else g x) a.
Proof.
  intros Hf Hg Hfg.
  unfold continuous in *.
  destruct (Rlt_dec a a) as [Haa|_]; [lra|].
  intros P HP.
  specialize (Hf P). specialize (Hg P). rewrite Hfg in Hf.
  specialize (Hf HP). specialize (Hg HP).
  unfold filtermap in *.
  generalize (filter_and _ _ Hf Hg). apply filter_imp.
  intros x [H1 H2]. destruct (Rlt_dec a x); assumption.
Qed.

Lemma psi_unstable_ex_derive x : 0 < 1 - 16 * x -> ex_derive psi_unstable x.
Proof.
  intros Hpos. unfold psi_unstable, psi_of_xi, xi_of, Rpower. auto_derive.
  assert (He : 0 < exp (1 / 4 * ln (1 + - (16 * x)))) by apply exp_pos.
  repeat split; solve [ lra | nra ].
Qed.

Lemma phi_unstable_ex_derive x : 0 < 1 - 16 * x -> ex_derive phi_unstable x.
Proof.
  intros Hpos. unfold phi_unstable, Rpower. auto_derive.
  repeat split; solve [ lra ].
Qed.

Lemma psi_continuous_0 : continuous psi 0.
Proof.
  apply (continuous_piecewise psi_stable psi_unstable 0).
  - apply (ex_derive_continuous (K:=R_AbsRing) (V:=R_NormedModule)). unfold psi_stable. auto_derive. exact I.
  - apply (ex_derive_continuous (K:=R_AbsRing) (V:=R_NormedModule)). apply psi_unstable_ex_derive. lra.
  - rewrite psi_stable_0, psi_unstable_0. reflexivity.
Qed.

Lemma phi_continuous_0 : continuous phi 0.
Proof.
  apply (continuous_piecewise phi_stable phi_unstable 0).
  - apply (ex_derive_continuous (K:=R_AbsRing) (V:=R_NormedModule)). unfold phi_stable. auto_derive. exact I.
  - apply (ex_derive_continuous (K:=R_AbsRing) (V:=R_NormedModule)). apply phi_unstable_ex_derive. lra.
  - rewrite phi_stable_0, phi_unstable_0. reflexivity.
Qed.

(* one-sided limits, spelled out: both branch formulas tend to the common value *)
Lemma psi_limits_0 :
  filterlim psi_stable (at_right 0) (locally 0) /\ filterlim psi_unstable (at_left 0) (locally 0) /\
  filterlim phi_stable (at_right 0) (locally 1) /\ filterlim phi_unstable (at_left 0) (locally 1).
Proof.
  assert (C1 : continuous psi_stable 0).
  { apply (ex_derive_continuous (K:=R_AbsRing) (V:=R_NormedModule)). unfold psi_stable. auto_derive. exact I. }
  assert (C2 : continuous psi_unstable 0).
  { apply (ex_derive_continuous (K:=R_AbsRing) (V:=R_NormedModule)). apply psi_unstable_ex_derive. lra. }
  assert (C3 : continuous phi_stable 0).
  { apply (ex_derive_continuous (K:=R_AbsRing) (V:=R_NormedModule)). unfold phi_stable. auto_derive. exact I. }
  assert (C4 : continuous phi_unstable 0).
  { apply (ex_derive_continuous (K:=R_AbsRing) (V:=R_NormedModule)). apply phi_unstable_ex_derive. lra. }
  unfold continuous in C1, C2, C3, C4.
  rewrite psi_stable_0 in C1. rewrite psi_unstable_0 in C2.
  rewrite phi_stable_0 in C3. rewrite phi_unstable_0 in C4.
  split; [|split; [|split]].
  - eapply filterlim_filter_le_1; [|exact C1]. apply filter_le_within.
  - eapply filterlim_filter_le_1; [|exact C2]. apply filter_le_within.
  - eapply filterlim_filter_le_1; [|exact C3]. apply filter_le_within.
  - eapply filterlim_filter_le_1; [|exact C4]. apply filter_le_within.
Qed.

(* psi on the stable / unstable side is the branch formula, locally *)
Lemma psi_stable_locally x : 0 < x -> locally x (fun t => psi_stable t = psi t).
Proof.
  intros Hx. exists (mkposreal x Hx). intros t Ht.
  unfold ball in Ht; simpl in Ht. unfold AbsRing_ball, abs, minus, plus, opp in Ht; simpl in Ht.
  apply Rabs_def2 in Ht. unfold psi. destruct (Rlt_dec 0 t); [reflexivity|lra].
Qed.

Lemma psi_unstable_locally x : x < 0 -> locally x (fun t => psi_unstable t = psi t).
Proof.
  intros Hx. assert (Hx' : 0 < - x) by lra. exists (mkposreal (- x) Hx'). intros t Ht.
  unfold ball in Ht; simpl in Ht. unfold AbsRing_ball, abs, minus, plus, opp in Ht; simpl in Ht.
  apply Rabs_def2 in Ht. unfold psi. destruct (Rlt_dec 0 t); [lra|reflexivity].
Qed.

Lemma psi_unstable_derive x : 0 < 1 - 16 * x -> x <> 0 ->
  is_derive psi_unstable x ((Rpower (1 - 16 * x) (- (1 / 4)) - 1) / x).
Proof.
  intros Hpos Hx.
  assert (Hxi := xi_pos x). assert (H4 := xi_pow4 x Hpos).
  assert (Hinv : Rpower (1 - 16 * x) (- (1 / 4)) = / xi_of x).
  { unfold xi_of, Rpower. rewrite <- exp_Ropp. f_equal. ring. }
  rewrite Hinv.
  unfold psi_unstable, psi_of_xi, xi_of, Rpower.
  auto_derive.
  - assert (He : 0 < exp (1 / 4 * ln (1 + - (16 * x)))) by apply exp_pos.
    repeat split; solve [ lra | nra ].
  - replace (1 + - (16 * x)) with (1 - 16 * x) by ring.
    change (exp (1 / 4 * ln (1 - 16 * x))) with (xi_of x).
    revert Hxi H4. generalize (xi_of x). intros s Hs H4.
    assert (Ex : x = (1 - s * s * s * s) / 16) by lra.
    assert (Hs1 : 1 - s * s * s * s <> 0) by lra.
    rewrite Ex. field_simplify_eq.
    + ring.
    + repeat split; solve [ lra | nra ].
Qed.

(* the stability correction is an antiderivative of (phi_m - 1)/x on both sides of neutral *)
Lemma psi_derive x : x <> 0 -> is_derive psi x ((phim x - 1) / x).
Proof.
  intros Hx. unfold phim. destruct (Rlt_dec 0 x) as [Hp|Hn].
  - apply (is_derive_ext_loc psi_stable psi x); [apply psi_stable_locally; exact Hp|].
    unfold psi_stable. auto_derive; [exact I|]. field. exact Hx.
  - assert (Hneg : x < 0) by lra.
    apply (is_derive_ext_loc psi_unstable psi x); [apply psi_unstable_locally; exact Hneg|].
    apply psi_unstable_derive; lra.
Qed.

(* the integrand (phi_m(t) - 1)/t and its continuity away from 0 *)
Definition psi_integrand (t : R) : R := (phim t - 1) / t.

Lemma psi_integrand_continuous t : t <> 0 -> continuous psi_integrand t.
Proof.
  intros Ht. destruct (Rlt_dec 0 t) as [Hp|Hn].
  - apply (continuous_ext_loc _ (fun s => ((1 + 5 * s) - 1) / s)).
    + exists (mkposreal t Hp). intros s Hs.
      unfold ball in Hs; simpl in Hs. unfold AbsRing_ball, abs, minus, plus, opp in Hs; simpl in Hs.
      apply Rabs_def2 in Hs. unfold psi_integrand, phim. destruct (Rlt_dec 0 s); [reflexivity|lra].
    + apply (ex_derive_continuous (K:=R_AbsRing) (V:=R_NormedModule)). auto_derive. lra.
  - assert (Hneg : t < 0) by lra. assert (Hneg' : 0 < - t) by lra.
    apply (continuous_ext_loc _ (fun s => (exp (- (1 / 4) * ln (1 - 16 * s)) - 1) / s)).
    + exists (mkposreal (- t) Hneg'). intros s Hs.
      unfold ball in Hs; simpl in Hs. unfold AbsRing_ball, abs, minus, plus, opp in Hs; simpl in Hs.
      apply Rabs_def2 in Hs. unfold psi_integrand, phim. destruct (Rlt_dec 0 s); [lra|reflexivity].
    + apply (ex_derive_continuous (K:=R_AbsRing) (V:=R_NormedModule)). auto_derive. split; [lra|]. split; [lra|exact I].
Qed.

(* psi(b) - psi(a) is the Riemann integral of (phi_m(t) - 1)/t over any interval that does not
   contain the neutral point *)
Lemma psi_is_RInt a b : 0 < a * b ->
  is_RInt psi_integrand a b (psi b - psi a).
Proof.
  intros Hab.
  assert (Hnz : forall x, Rmin a b <= x <= Rmax a b -> x <> 0).
  { intros x [H1 H2]. unfold Rmin in H1. unfold Rmax in H2.
    destruct (Rle_dec a b); nra. }
  apply (is_RInt_derive psi psi_integrand).
  - intros x Hx. apply psi_derive. apply Hnz; exact Hx.
  - intros x Hx. apply psi_integrand_continuous. apply Hnz; exact Hx.
Qed.

(* ------------------------------------------------------------------------------------------ *)
(** * The reference model's copies *)

Lemma km_psiM_psi zm L : 0 < zm -> L <> 0 -> km_psiM zm L = psi (zm / L).
Proof.
  intros Hz HL. unfold km_psiM, psi.
  destruct (Rle_dec 0 L) as [H0|H0].
  - assert (HLp : 0 < L) by lra.
    assert (Hq : 0 < zm / L) by (apply Rdiv_lt_0_compat; assumption).
    destruct (Rlt_dec 0 (zm / L)); [|lra]. unfold psi_stable, Rdiv. ring.
  - assert (HLn : L < 0) by lra.
    destruct (Rlt_dec L 0); [|lra].
    assert (Hq : zm / L < 0).
    { assert (Hq' : 0 < zm / (- L)) by (apply Rdiv_lt_0_compat; lra).
      replace (zm / L) with (- (zm / - L)) by (field; lra). lra. }
    destruct (Rlt_dec 0 (zm / L)); [lra|].
    unfold psi_unstable, xi_of. replace (16 * (zm / L)) with (16 * zm / L) by (unfold Rdiv; ring).
    reflexivity.
Qed.

Lemma km_phiC_phi zm L : 0 < zm -> L <> 0 -> km_phiC zm L = phi (zm / L).
Proof.
  intros Hz HL. unfold km_phiC, phi.
  destruct (Rle_dec 0 L) as [H0|H0].
  - assert (HLp : 0 < L) by lra.
    assert (Hq : 0 < zm / L) by (apply Rdiv_lt_0_compat; assumption).
    destruct (Rlt_dec 0 (zm / L)); [|lra]. unfold phi_stable, Rdiv. ring.
  - assert (HLn : L < 0) by lra.
    destruct (Rlt_dec L 0); [|lra].
    assert (Hq : zm / L < 0).
    { assert (Hq' : 0 < zm / (- L)) by (apply Rdiv_lt_0_compat; lra).
      replace (zm / L) with (- (zm / - L)) by (field; lra). lra. }
    destruct (Rlt_dec 0 (zm / L)); [lra|].
    unfold phi_unstable. replace (16 * (zm / L)) with (16 * zm / L) by (unfold Rdiv; ring).
    reflexivity.
Qed.

Lemma km_phiM_phim zm L : 0 < zm -> L <> 0 -> km_phiM zm L = phim (zm / L).
Proof.
  intros Hz HL. unfold km_phiM, phim.
  destruct (Rle_dec 0 L) as [H0|H0].
  - assert (HLp : 0 < L) by lra.
    assert (Hq : 0 < zm / L) by (apply Rdiv_lt_0_compat; assumption).
    destruct (Rlt_dec 0 (zm / L)); [|lra]. unfold Rdiv. ring.
  - assert (HLn : L < 0) by lra.
    destruct (Rlt_dec L 0); [|lra].
    assert (Hq : zm / L < 0).
    { assert (Hq' : 0 < zm / (- L)) by (apply Rdiv_lt_0_compat; lra).
      replace (zm / L) with (- (zm / - L)) by (field; lra). lra. }
    destruct (Rlt_dec 0 (zm / L)); [lra|].
    replace (16 * (zm / L)) with (16 * zm / L) by (unfold Rdiv; ring).
    reflexivity.
Qed.

(* ------------------------------------------------------------------------------------------ *)
(** * Closure at the measurement height *)

Ltac fnz := repeat split; solve [ assumption | lra | apply Rgt_not_eq; apply exp_pos ].

Lemma kap_pos : 0 < kap.
Proof. unfold kap. lra. Qed.

Lemma ln_zm_over_z0_of_ustar zm absum ustar mol : zm <> 0 ->
  ln (zm / z0_of_ustar zm absum ustar mol) = kap * absum / ustar - psi (zm / mol).
Proof.
  intros Hz. unfold z0_of_ustar.
  set (e := - kap * absum / ustar + psi (zm / mol)).
  replace (zm / (zm * exp e)) with (exp (- e)).
  - rewrite ln_exp. unfold e, Rdiv. ring.
  - rewrite exp_Ropp. field; fnz.
Qed.

(* MOST wind speed at z_m when z0 was derived from ustar *)
Lemma absu_most_zm_ustar zm absum ustar mol : zm <> 0 -> ustar <> 0 ->
  absu_most ustar (z0_of_ustar zm absum ustar mol) mol zm = absum.
Proof.
  intros Hz Hu. unfold absu_most. rewrite ln_zm_over_z0_of_ustar by exact Hz.
  unfold kap. field. exact Hu.
Qed.

(* ... and when ustar was derived from z0 *)
Lemma absu_most_zm_z0 zm absum z0 mol : ln (zm / z0) + psi (zm / mol) <> 0 ->
  absu_most (ustar_of_z0 zm absum z0 mol) z0 mol zm = absum.
Proof.
  intros HD. unfold absu_most, ustar_of_z0, kap. field; fnz.
Qed.

Lemma absu_oaahoc_zm zm absum tke ustar : zm <> 0 -> ustar <> 0 -> 0 < tke ->
  absu_oaahoc ustar (z0_oaahoc zm absum tke ustar) tke zm = absum.
Proof.
  intros Hz Hu Ht. unfold absu_oaahoc, z0_oaahoc.
  set (e := - c_m * c_l * absum * sqrt tke / (ustar * ustar)).
  replace (zm / (zm * exp e)) with (exp (- e)).
  - rewrite ln_exp. unfold e, c_m, c_l. assert (Hs : 0 < sqrt tke) by (apply sqrt_lt_R0; exact Ht).
    field; fnz.
  - rewrite exp_Ropp. field; fnz.
Qed.

Lemma dir_u_at um absum : absum <> 0 -> dir_u um absum absum = um.
Proof. intros H. unfold dir_u. field. exact H. Qed.

(* round trip of the closure: ustar -> z0 -> ustar, and z0 -> ustar -> z0 *)
Lemma roundtrip_ustar zm absum ustar mol : zm <> 0 -> ustar <> 0 -> absum <> 0 ->
  ustar_of_z0 zm absum (z0_of_ustar zm absum ustar mol) mol = ustar.
Proof.
  intros Hz Hu Ha. unfold ustar_of_z0. rewrite ln_zm_over_z0_of_ustar by exact Hz.
  replace (kap * absum / ustar - psi (zm / mol) + psi (zm / mol)) with (kap * absum / ustar) by ring.
  unfold kap. field; fnz.
Qed.

Lemma roundtrip_z0 zm absum z0 mol : 0 < zm -> 0 < z0 -> absum <> 0 ->
  ln (zm / z0) + psi (zm / mol) <> 0 ->
  z0_of_ustar zm absum (ustar_of_z0 zm absum z0 mol) mol = z0.
Proof.
  intros Hz H0 Ha HD. unfold z0_of_ustar, ustar_of_z0.
  replace (- kap * absum / (absum * kap / (ln (zm / z0) + psi (zm / mol))) + psi (zm / mol))
    with (- ln (zm / z0)).
  - rewrite exp_Ropp, exp_ln by (apply Rdiv_lt_0_compat; assumption). field; fnz.
  - unfold kap. field; fnz.
Qed.

(* ------------------------------------------------------------------------------------------ *)
(** * Ceiling *)

Lemma ceilZ_ge q : q <= IZR (ceilZ q).
Proof.
  unfold ceilZ. destruct (archimed (- q)) as [H1 H2].
  rewrite minus_IZR. simpl. lra.
Qed.

Lemma ceilZ_lt q : IZR (ceilZ q) < q + 1.
Proof.
  unfold ceilZ. destruct (archimed (- q)) as [H1 H2].
  rewrite minus_IZR. simpl. lra.
Qed.

Lemma ceilZ_unique q k : IZR k - 1 < q <= IZR k -> ceilZ q = k.
Proof.
  intros [H1 H2]. assert (Hg := ceilZ_ge q). assert (Hl := ceilZ_lt q).
  assert (A : (ceilZ q < k + 1)%Z).
  { apply lt_IZR. rewrite plus_IZR. simpl. lra. }
  assert (B : (k < ceilZ q + 1)%Z).
  { apply lt_IZR. rewrite plus_IZR. simpl. lra. }
  lia.
Qed.

(* ------------------------------------------------------------------------------------------ *)
(** * The stretched grid *)

Section Grid.
Variables zm z0 h : R.
Hypothesis Hz0 : 0 < z0.
Hypothesis Hzm : z0 < zm.
Hypothesis Hh : 0 < h.

Let E0 := exp (- z0 / h).
Let Em := exp (- zm / h).

Lemma grid_den_pos : 0 < exp (- z0 / h) - exp (- zm / h).
Proof.
  assert (H : exp (- zm / h) < exp (- z0 / h)).
  { apply exp_increasing. unfold Rdiv. apply Rmult_lt_compat_r; [apply Rinv_0_lt_compat; exact Hh|lra]. }
  lra.
Qed.

Lemma bb_pos : 0 < bb zm z0 h.
Proof. unfold bb. apply Rdiv_lt_0_compat; [lra|apply grid_den_pos]. Qed.

Lemma aa_pos : 0 < aa zm z0 h.
Proof. unfold aa. apply Rmult_lt_0_compat; [apply bb_pos|apply exp_pos]. Qed.

(* aa - zm = bb*exp(-zm/h): the mapped coordinate of z_m is z_m itself *)
Lemma aa_minus_zm : aa zm z0 h - zm = bb zm z0 h * exp (- zm / h).
Proof. unfold aa, bb. assert (Hd := grid_den_pos). field. lra. Qed.

(* zeta(z) = aa - bb*exp(-z/h) is the inverse of z(zeta) *)
Lemma z_of_zeta_inv z : z_of_zeta h (aa zm z0 h) (bb zm z0 h) (aa zm z0 h - bb zm z0 h * exp (- z / h)) = z.
Proof.
  unfold z_of_zeta. assert (Hb := bb_pos).
  replace (- (aa zm z0 h - bb zm z0 h * exp (- z / h) - aa zm z0 h) / bb zm z0 h) with (exp (- z / h))
    by (field; lra).
  rewrite ln_exp. field. lra.
Qed.

Lemma zeta_of_z0 : aa zm z0 h - bb zm z0 h * exp (- z0 / h) = 0.
Proof. unfold aa. ring. Qed.

Lemma zeta_of_zm : aa zm z0 h - bb zm z0 h * exp (- zm / h) = zm.
Proof. assert (H := aa_minus_zm). lra. Qed.

Lemma z_of_zeta_0 : z_of_zeta h (aa zm z0 h) (bb zm z0 h) 0 = z0.
Proof. assert (H := z_of_zeta_inv z0). rewrite zeta_of_z0 in H. exact H. Qed.

Lemma z_of_zeta_zm : z_of_zeta h (aa zm z0 h) (bb zm z0 h) zm = zm.
Proof. assert (H := z_of_zeta_inv zm). rewrite zeta_of_zm in H. exact H. Qed.

(* the argument of the logarithm is positive exactly below aa *)
Lemma z_arg_pos zt : zt < aa zm z0 h -> 0 < - (zt - aa zm z0 h) / bb zm z0 h.
Proof. intros H. apply Rdiv_lt_0_compat; [lra|apply bb_pos]. Qed.

Lemma z_of_zeta_increasing s t : s < t -> t < aa zm z0 h ->
  z_of_zeta h (aa zm z0 h) (bb zm z0 h) s < z_of_zeta h (aa zm z0 h) (bb zm z0 h) t.
Proof.
  intros Hst Ht. unfold z_of_zeta. assert (Hb := bb_pos).
  assert (Hl : ln (- (t - aa zm z0 h) / bb zm z0 h) < ln (- (s - aa zm z0 h) / bb zm z0 h)).
  { apply ln_increasing; [apply z_arg_pos; exact Ht|].
    unfold Rdiv. apply Rmult_lt_compat_r; [apply Rinv_0_lt_compat; exact Hb|lra]. }
  nra.
Qed.

Lemma z_of_zeta_monotone s t : s <= t -> t < aa zm z0 h ->
  z_of_zeta h (aa zm z0 h) (bb zm z0 h) s <= z_of_zeta h (aa zm z0 h) (bb zm z0 h) t.
Proof.
  intros Hst Ht. destruct (Req_dec s t) as [->|Hne]; [lra|].
  apply Rlt_le, z_of_zeta_increasing; lra.
Qed.

Variable n : nat.
Hypothesis Hn : (1 <= n)%nat.

Lemma INR_n_pos : 0 < INR n.
Proof. apply lt_0_INR. lia. Qed.

Lemma zm_pos : 0 < zm.
Proof. lra. Qed.

Lemma dzeta_pos : 0 < dzeta zm n.
Proof. unfold dzeta. apply Rdiv_lt_0_compat; [apply zm_pos|apply INR_n_pos]. Qed.

Lemma zeta_0 : zeta zm n 0 = 0.
Proof. unfold zeta. simpl. ring. Qed.

(* zeta_n = n * (zm / n) = zm, exactly *)
Lemma zeta_n : zeta zm n n = zm.
Proof. unfold zeta, dzeta. assert (H := INR_n_pos). field. lra. Qed.

Lemma zeta_increasing i j : (i < j)%nat -> zeta zm n i < zeta zm n j.
Proof.
  intros Hij. unfold zeta. apply Rmult_lt_compat_r; [apply dzeta_pos|apply lt_INR; exact Hij].
Qed.

Lemma znode_0 : znode zm z0 h n 0 = z0.
Proof. unfold znode. rewrite zeta_0. apply z_of_zeta_0. Qed.

Lemma znode_n : znode zm z0 h n n = zm.
Proof. unfold znode. rewrite zeta_n. apply z_of_zeta_zm. Qed.

Lemma znode_increasing i j : (i < j)%nat -> zeta zm n j < aa zm z0 h ->
  znode zm z0 h n i < znode zm z0 h n j.
Proof.
  intros Hij Hj. unfold znode. apply z_of_zeta_increasing; [apply zeta_increasing; exact Hij|exact Hj].
Qed.

Lemma znode_ge_z0 i : zeta zm n i < aa zm z0 h -> z0 <= znode zm z0 h n i.
Proof.
  intros Hi. destruct i as [|i].
  - rewrite znode_0. lra.
  - assert (H := znode_increasing 0 (S i)). rewrite znode_0 in H. apply Rlt_le, H; [lia|exact Hi].
Qed.

Variable zmx : R.

Let N := nnodes zm z0 h zmx n.

(* the quotient numpy takes the ceiling of *)
Lemma quotient_eq : (zetamx zm z0 h zmx + dzeta zm n) / dzeta zm n = zetamx zm z0 h zmx / dzeta zm n + 1.
Proof. assert (H := dzeta_pos). field. lra. Qed.

(* every node index below the count has zeta_i < zetamx + dzeta *)
Lemma node_zeta_lt i : (Z.of_nat i < N)%Z -> zeta zm n i < zetamx zm z0 h zmx + dzeta zm n.
Proof.
  intros Hi. unfold N, nnodes in Hi.
  assert (Hl := ceilZ_lt ((zetamx zm z0 h zmx + dzeta zm n) / dzeta zm n)).
  assert (Hi' : IZR (Z.of_nat i) + 1 <= IZR (ceilZ ((zetamx zm z0 h zmx + dzeta zm n) / dzeta zm n))).
  { rewrite <- plus_IZR. apply IZR_le. lia. }
  rewrite <- INR_IZR_INZ in Hi'.
  assert (Hd := dzeta_pos).
  assert (Hq : INR i < (zetamx zm z0 h zmx + dzeta zm n) / dzeta zm n) by lra.
  unfold zeta.
  apply (Rmult_lt_compat_r (dzeta zm n)) in Hq; [|exact Hd].
  replace ((zetamx zm z0 h zmx + dzeta zm n) / dzeta zm n * dzeta zm n)
    with (zetamx zm z0 h zmx + dzeta zm n) in Hq by (field; lra).
  exact Hq.
Qed.

(* the last node reaches zetamx *)
Lemma last_zeta_ge i : Z.of_nat i = (N - 1)%Z -> zetamx zm z0 h zmx <= zeta zm n i.
Proof.
  intros Hi. unfold N, nnodes in Hi.
  assert (Hg := ceilZ_ge ((zetamx zm z0 h zmx + dzeta zm n) / dzeta zm n)).
  assert (Hi' : IZR (Z.of_nat i) = IZR (ceilZ ((zetamx zm z0 h zmx + dzeta zm n) / dzeta zm n)) - 1).
  { rewrite Hi. rewrite minus_IZR. reflexivity. }
  rewrite <- INR_IZR_INZ in Hi'.
  rewrite quotient_eq in Hg, Hi'.
  assert (Hd := dzeta_pos).
  assert (Hq : zetamx zm z0 h zmx / dzeta zm n <= INR i) by lra.
  unfold zeta.
  apply (Rmult_le_compat_r (dzeta zm n)) in Hq; [|lra].
  replace (zetamx zm z0 h zmx / dzeta zm n * dzeta zm n) with (zetamx zm z0 h zmx) in Hq by (field; lra).
  exact Hq.
Qed.

Lemma zetamx_lt_aa : zetamx zm z0 h zmx < aa zm z0 h.
Proof.
  unfold zetamx. assert (Hb := bb_pos). assert (He := exp_pos (- zmx / h)). nra.
Qed.

Lemma z_of_zetamx : z_of_zeta h (aa zm z0 h) (bb zm z0 h) (zetamx zm z0 h zmx) = zmx.
Proof. unfold zetamx. apply z_of_zeta_inv. Qed.

(* zetamx >= zm as soon as the domain height is at least z_m *)
Lemma zetamx_ge_zm : zm <= zmx -> zm <= zetamx zm z0 h zmx.
Proof.
  intros Hx. unfold zetamx. assert (Hzz := zeta_of_zm).
  assert (Hb := bb_pos).
  assert (He : exp (- zmx / h) <= exp (- zm / h)).
  { destruct (Req_dec zmx zm) as [->|Hne]; [lra|].
    apply Rlt_le, exp_increasing. unfold Rdiv.
    apply Rmult_lt_compat_r; [apply Rinv_0_lt_compat; exact Hh|lra]. }
  nra.
Qed.

(* index n is a valid index *)
Lemma n_lt_nnodes : zm <= zmx -> (Z.of_nat n < N)%Z.
Proof.
  intros Hx. unfold N, nnodes. rewrite quotient_eq.
  assert (Hg := ceilZ_ge (zetamx zm z0 h zmx / dzeta zm n + 1)).
  assert (Hd := dzeta_pos). assert (Hzx := zetamx_ge_zm Hx).
  assert (Hq : INR n <= zetamx zm z0 h zmx / dzeta zm n).
  { apply (Rmult_le_reg_r (dzeta zm n)); [exact Hd|].
    replace (zetamx zm z0 h zmx / dzeta zm n * dzeta zm n) with (zetamx zm z0 h zmx) by (field; lra).
    fold (zeta zm n n). rewrite zeta_n. exact Hzx. }
  apply lt_IZR. rewrite <- INR_IZR_INZ. lra.
Qed.

Lemma nnodes_pos : zm <= zmx -> (1 <= N)%Z.
Proof. intros Hx. assert (H := n_lt_nnodes Hx). lia. Qed.

(* [nodes_in_range]: every generated node lies below aa, i.e. the logarithm's argument is positive.
   It holds whenever one step in zeta fits between zetamx and aa ... *)
Definition nodes_in_range : Prop := forall i, (Z.of_nat i < N)%Z -> zeta zm n i < aa zm z0 h.

Lemma nodes_in_range_step : dzeta zm n <= bb zm z0 h * exp (- zmx / h) -> nodes_in_range.
Proof.
  intros Hstep i Hi. assert (H := node_zeta_lt i Hi). unfold zetamx in H. lra.
Qed.

(* consequences for the nodes *)
Lemma grid_increasing : nodes_in_range -> forall i j, (i < j)%nat -> (Z.of_nat j < N)%Z ->
  znode zm z0 h n i < znode zm z0 h n j.
Proof. intros HR i j Hij Hj. apply znode_increasing; [exact Hij|apply HR; exact Hj]. Qed.

Lemma grid_top : nodes_in_range -> forall i, Z.of_nat i = (N - 1)%Z -> zmx <= znode zm z0 h n i.
Proof.
  intros HR i Hi. rewrite <- z_of_zetamx. unfold znode.
  apply z_of_zeta_monotone; [apply last_zeta_ge; exact Hi|apply HR; lia].
Qed.

Lemma grid_positive : nodes_in_range -> forall i, (Z.of_nat i < N)%Z -> 0 < znode zm z0 h n i.
Proof. intros HR i Hi. assert (H := znode_ge_z0 i (HR i Hi)). lra. Qed.

End Grid.

(* ------------------------------------------------------------------------------------------ *)
(** * Default stretch and domain height (h = 2 z_m, domain height = 2 z_m), every n >= 1 *)

Section DefaultGrid.
Variables zm z0 : R.
Hypothesis Hz0 : 0 < z0.
Hypothesis Hzm : z0 < zm.
Variable n : nat.
Hypothesis Hn : (1 <= n)%nat.

Let h := h_default zm.
Let zmx := zmx_default zm.

Lemma default_h_pos : 0 < h.
Proof. unfold h, h_default. lra. Qed.

Lemma default_zmx_ge : zm <= zmx.
Proof. unfold zmx, zmx_default. lra. Qed.

Lemma c1_bounds : 6065 / 10000 < exp (- (1 / 2)) < 6066 / 10000.
Proof. split; interval. Qed.
Lemma c2_bounds : 3678 / 10000 < exp (- 1) < 3679 / 10000.
Proof. split; interval. Qed.

Lemma default_nodes_in_range : nodes_in_range zm z0 h n zmx.
Proof.
  assert (Hh := default_h_pos). assert (Hzp : 0 < zm) by lra.
  assert (Hc1 := c1_bounds). assert (Hc2 := c2_bounds).
  assert (Em : exp (- zm / h) = exp (- (1 / 2))).
  { f_equal. unfold h, h_default. field. lra. }
  assert (Ex : exp (- zmx / h) = exp (- 1)).
  { f_equal. unfold zmx, zmx_default, h, h_default. field. lra. }
  assert (HD := grid_den_pos zm z0 h Hzm Hh). rewrite Em in HD.
  assert (HE1 : exp (- z0 / h) < 1).
  { rewrite <- exp_0. apply exp_increasing.
    assert (0 < z0 / h) by (apply Rdiv_lt_0_compat; lra). unfold Rdiv in *. lra. }
  assert (Hb := bb_pos zm z0 h Hz0 Hzm Hh).
  assert (Hbb : bb zm z0 h * (exp (- z0 / h) - exp (- (1 / 2))) = zm).
  { unfold bb. rewrite Em. field. lra. }
  assert (Hnp := INR_n_pos n Hn).
  assert (Hdz : dzeta zm n * INR n = zm) by (unfold dzeta; field; lra).
  assert (Hdp := dzeta_pos zm z0 Hz0 Hzm n Hn).
  set (E := exp (- z0 / h)) in *. set (c1 := exp (- (1 / 2))) in *. set (c2 := exp (- 1)) in *.
  set (B := bb zm z0 h) in *. set (dz := dzeta zm n) in *.
  destruct (Rle_dec (E - c1) (INR n * c2)) as [HA|HB].
  - (* one step fits below aa *)
    apply nodes_in_range_step; try assumption. rewrite Ex. fold B c2 dz.
    (* dz <= B*c2  <-  dz*n*(E-c1) = zm*(E-c1) = B*(E-c1)^2... use zm = B*(E-c1) *)
    assert (H1 : dz * INR n = B * (E - c1)) by lra.
    (* dz*n = B*(E-c1) <= B*n*c2  ->  dz <= B*c2 *)
    assert (H2 : B * (E - c1) <= B * (INR n * c2)) by (apply Rmult_le_compat_l; lra).
    apply (Rmult_le_reg_r (INR n)); [exact Hnp|]. nra.
  - (* only n = 1 can get here; then at most three nodes 0, zm, 2 zm, all below aa *)
    assert (HB' : INR n * c2 < E - c1) by lra.
    assert (Hn1 : n = 1%nat).
    { destruct (le_lt_dec 2 n) as [H2|H2]; [|lia].
      exfalso. apply le_INR in H2. simpl in H2. nra. }
    subst n. simpl in HB'. 
    intros i Hi.
    assert (Hlt := node_zeta_lt zm z0 h Hz0 Hzm 1 Hn zmx i Hi).
    unfold zeta in *. fold dz in Hlt |- *.
    assert (Hdz1 : dz = zm) by (simpl in Hdz; lra).
    unfold zetamx, aa in *. fold B E in Hlt |- *. rewrite Ex in Hlt. fold c2 in Hlt.
    (* zetamx = B*(E-c2) <= 2*zm = 2*B*(E-c1) *)
    assert (Hzx : B * E - B * c2 <= 2 * zm) by nra.
    assert (Hi3 : INR i < 3) by nra.
    assert (Hi2 : (i < 3)%nat) by (apply INR_lt; simpl; lra).
    assert (Hi2' : INR i <= 2).
    { assert (Hle : (i <= 2)%nat) by lia. apply le_INR in Hle. simpl in Hle. lra. }
    (* 2*zm < B*E  <-  2*B*(E-c1) < B*E  <-  E < 2*c1 *)
    assert (Haa : 2 * zm < B * E) by nra.
    nra.
Qed.

End DefaultGrid.

(* ------------------------------------------------------------------------------------------ *)
(** * Profiles *)

(* what make_env stores *)
Lemma make_env_fields c n zm um vm ustar z0 mol prsc tke dh st E :
  make_env c n zm um vm ustar z0 mol prsc tke dh st = Some E ->
  e_zm E = zm /\ e_um E = um /\ e_vm E = vm /\ e_mol E = mol /\ e_prsc E = prsc /\ e_tke E = tke /\
  e_n E = n /\ e_h E = opt_default st (h_default zm) /\ e_zmx E = opt_default dh (zmx_default zm) /\
  resolve c zm (absum um vm) ustar z0 mol tke = Some (e_z0 E, e_ustar E).
Proof.
  unfold make_env. destruct (resolve c zm (absum um vm) ustar z0 mol tke) as [[z us]|]; [|discriminate].
  intros H. injection H as <-. simpl. repeat split; reflexivity.
Qed.

Lemma resolve_ustar_given c zm a us mol tke z u : c <> OAAHOC ->
  resolve c zm a (Some us) None mol tke = Some (z, u) -> z = z0_of_ustar zm a us mol /\ u = us.
Proof. intros Hc. destruct c; simpl; intros H; try (injection H as <- <-; split; reflexivity). contradiction. Qed.

Lemma resolve_z0_given c zm a z0 mol tke z u : c <> OAAHOC ->
  resolve c zm a None (Some z0) mol tke = Some (z, u) -> z = z0 /\ u = ustar_of_z0 zm a z0 mol.
Proof. intros Hc. destruct c; simpl; intros H; try (injection H as <- <-; split; reflexivity). contradiction. Qed.

Lemma resolve_oaahoc zm a us z0 mol tke z u :
  resolve OAAHOC zm a (Some us) z0 mol tke = Some (z, u) -> z = z0_oaahoc zm a tke us /\ u = us.
Proof. simpl. intros H. injection H as <- <-. split; reflexivity. Qed.

(* OAAHOC: the derived roughness length is automatically in (0, zm) *)
Lemma z0_oaahoc_range zm a tke us : 0 < zm -> 0 < a -> 0 < tke -> us <> 0 ->
  0 < z0_oaahoc zm a tke us < zm.
Proof.
  intros Hz Ha Ht Hu. unfold z0_oaahoc.
  set (e := - c_m * c_l * a * sqrt tke / (us * us)).
  assert (He : e < 0).
  { unfold e. assert (Hs : 0 < sqrt tke) by (apply sqrt_lt_R0; exact Ht).
    assert (Hq : 0 < us * us) by nra.
    assert (Hp : 0 < c_m * c_l * a * sqrt tke).
    { unfold c_m, c_l. repeat apply Rmult_lt_0_compat; lra. }
    replace (- c_m * c_l * a * sqrt tke / (us * us)) with (- (c_m * c_l * a * sqrt tke / (us * us)))
      by (field; lra).
    assert (0 < c_m * c_l * a * sqrt tke / (us * us)) by (apply Rdiv_lt_0_compat; assumption). lra. }
  assert (H1 : exp e < 1) by (rewrite <- exp_0; apply exp_increasing; exact He).
  assert (H0 := exp_pos e). split; nra.
Qed.

Lemma absum_nonneg um vm : 0 <= absum um vm.
Proof. unfold absum. apply sqrt_pos. Qed.

(* wind direction: the profile is a scalar multiple of the measured wind vector at every height *)
Lemma direction_at c E z : u_at c E z * e_vm E = v_at c E z * e_um E.
Proof. destruct c; unfold u_at, v_at, dir_u, Rdiv; ring. Qed.

(* wind at a height where the speed along the measured direction equals the measured speed *)
Lemma wind_at_of_absu c E z : e_absum E <> 0 -> (c <> CONSTANT -> absu_at c E z = e_absum E) ->
  u_at c E z = e_um E /\ v_at c E z = e_vm E.
Proof.
  intros Ha H. destruct c; unfold u_at, v_at.
  - split; reflexivity.
  - rewrite H by discriminate. split; apply dir_u_at; exact Ha.
  - rewrite H by discriminate. split; apply dir_u_at; exact Ha.
  - rewrite H by discriminate. split; apply dir_u_at; exact Ha.
Qed.

(* diffusivities *)
Lemma K_most_pos ustar mol prsc z : 0 < ustar -> 0 < prsc -> 0 < z -> 0 < K_most ustar mol prsc z.
Proof.
  intros Hu Hp Hz. unfold K_most. assert (Hphi := phi_pos (z / mol)). assert (Hk := kap_pos).
  apply Rdiv_lt_0_compat; [|exact Hp]. apply Rdiv_lt_0_compat; [|exact Hphi].
  apply Rmult_lt_0_compat; [apply Rmult_lt_0_compat|]; assumption.
Qed.

Lemma K_most_similarity ustar mol prsc z : prsc <> 0 ->
  K_most ustar mol prsc z = kap * ustar * z / (phi (z / mol) * prsc).
Proof.
  intros Hp. unfold K_most. assert (Hphi := phi_pos (z / mol)). field. split; lra.
Qed.

Lemma K_at_pos c E z : 0 < e_ustar E -> 0 < e_prsc E -> 0 < e_tke E -> 0 < e_zm E -> 0 < z ->
  0 < K_at c E z.
Proof.
  intros Hu Hp Ht Hzm Hz. assert (Hk := kap_pos). destruct c; unfold K_at.
  - unfold K_const. apply Rdiv_lt_0_compat; [|exact Hp].
    apply Rmult_lt_0_compat; [apply Rmult_lt_0_compat|]; assumption.
  - apply K_most_pos; assumption.
  - apply K_most_pos; assumption.
  - unfold K_oaahoc, c_h, c_l. assert (Hs : 0 < sqrt (e_tke E)) by (apply sqrt_lt_R0; exact Ht).
    repeat apply Rmult_lt_0_compat; lra.
Qed.

Lemma mostm_split K u v : 0 <= K ->
  0 <= Kx_mostm K u v /\ 0 <= Ky_mostm K u v /\
  (u * u + v * v <> 0 -> Kx_mostm K u v + Ky_mostm K u v = K).
Proof.
  intros HK. unfold Kx_mostm, Ky_mostm.
  assert (Hs : 0 <= u * u + v * v) by nra.
  destruct (Req_dec (u * u + v * v) 0) as [H0|Hn].
  - rewrite H0. unfold Rdiv. rewrite Rinv_0, !Rmult_0_r.
    split; [lra|split; [lra|intros H; exfalso; apply H; reflexivity]].
  - assert (Hp : 0 < u * u + v * v) by lra.
    assert (Hi : 0 < / (u * u + v * v)) by (apply Rinv_0_lt_compat; exact Hp).
    unfold Rdiv. split; [|split].
    + apply Rmult_le_pos; [apply Rmult_le_pos; [exact HK|nra]|lra].
    + apply Rmult_le_pos; [apply Rmult_le_pos; [exact HK|nra]|lra].
    + intros _. field. exact Hn.
Qed.

(* profile length *)
Lemma profiles_length c E : length (profiles c E) = Z.to_nat (e_nnodes E).
Proof. unfold profiles. rewrite map_length, seq_length. reflexivity. Qed.

Lemma profiles_nth c E i : (Z.of_nat i < e_nnodes E)%Z -> nth_error (profiles c E) i = Some (row c E i).
Proof.
  intros Hi. unfold profiles.
  assert (Hlt : (i < Z.to_nat (e_nnodes E))%nat) by lia.
  rewrite nth_error_map. rewrite (nth_error_nth' (seq 0 (Z.to_nat (e_nnodes E))) 0%nat) by (rewrite seq_length; exact Hlt).
  rewrite seq_nth by exact Hlt. reflexivity.
Qed.

(* ------------------------------------------------------------------------------------------ *)
(** * The statements of property C09 *)

(* the grid facts for an environment, any stretch, under nodes_in_range *)
Lemma env_grid (E : env) :
  0 < e_z0 E < e_zm E -> 0 < e_h E -> (1 <= e_n E)%nat ->
  e_znode E 0 = e_z0 E /\ e_znode E (e_n E) = e_zm E.
Proof.
  intros [H0 Hm] Hh Hn. unfold e_znode. split.
  - apply (znode_0 _ _ _ H0 Hm Hh).
  - apply (znode_n _ _ _ H0 Hm Hh _ Hn).
Qed.

Definition env_in_range (E : env) : Prop :=
  nodes_in_range (e_zm E) (e_z0 E) (e_h E) (e_n E) (e_zmx E).

Lemma default_env_in_range c n zm um vm ustar z0 mol prsc tke E :
  make_env c n zm um vm ustar z0 mol prsc tke None None = Some E ->
  (1 <= n)%nat -> 0 < e_z0 E < zm -> env_in_range E.
Proof.
  intros HE Hn [H0 Hm]. destruct (make_env_fields _ _ _ _ _ _ _ _ _ _ _ _ _ HE)
    as (Ezm & _ & _ & _ & _ & _ & En & Eh & Ex & _).
  unfold env_in_range. rewrite Ezm, En, Eh, Ex. simpl.
  apply default_nodes_in_range; assumption.
Qed.

(* C09_grid, default stretch and domain height *)
Lemma grid_default c n zm um vm ustar z0 mol prsc tke E :
  make_env c n zm um vm ustar z0 mol prsc tke None None = Some E ->
  (1 <= n)%nat -> 0 < e_z0 E < zm ->
  (Z.of_nat n < e_nnodes E)%Z /\
  e_znode E 0 = e_z0 E /\
  e_znode E n = zm /\
  (forall i j, (i < j)%nat -> (Z.of_nat j < e_nnodes E)%Z -> e_znode E i < e_znode E j) /\
  (forall i, Z.of_nat i = (e_nnodes E - 1)%Z -> 2 * zm <= e_znode E i) /\
  (forall i, (Z.of_nat i < e_nnodes E)%Z ->
     0 < - (zeta zm n i - aa zm (e_z0 E) (2 * zm)) / bb zm (e_z0 E) (2 * zm)) /\
  length (profiles c E) = Z.to_nat (e_nnodes E).
Proof.
  intros HE Hn [H0 Hm].
  assert (HR := default_env_in_range _ _ _ _ _ _ _ _ _ _ _ HE Hn (conj H0 Hm)).
  destruct (make_env_fields _ _ _ _ _ _ _ _ _ _ _ _ _ HE)
    as (Ezm & _ & _ & _ & _ & _ & En & Eh & Ex & _).
  simpl in Eh, Ex. unfold h_default in Eh. unfold zmx_default in Ex.
  unfold env_in_range in HR. unfold e_nnodes, e_znode. rewrite Ezm, En, Eh, Ex in *.
  assert (Hh : 0 < 2 * zm) by lra. assert (Hx : zm <= 2 * zm) by lra.
  split; [apply (n_lt_nnodes zm (e_z0 E) (2 * zm) H0 Hm Hh n Hn (2 * zm) Hx)|].
  split; [apply (znode_0 zm (e_z0 E) (2 * zm) H0 Hm Hh)|].
  split; [apply (znode_n zm (e_z0 E) (2 * zm) H0 Hm Hh n Hn)|].
  split; [intros i j Hij Hj; apply (grid_increasing zm (e_z0 E) (2 * zm) H0 Hm Hh n Hn (2 * zm) HR i j Hij Hj)|].
  split; [intros i Hi; apply (grid_top zm (e_z0 E) (2 * zm) H0 Hm Hh n Hn (2 * zm) HR i Hi)|].
  split; [intros i Hi; apply (z_arg_pos zm (e_z0 E) (2 * zm) H0 Hm Hh); apply HR; exact Hi|].
  rewrite profiles_length. unfold e_nnodes. rewrite Ezm, En, Eh, Ex. reflexivity.
Qed.

(* C09_grid for any stretch h > 0 and any domain height >= zm for which one step of the mapped
   coordinate fits between zetamx and aa (otherwise numpy's log gets a non-positive argument at the
   last node) *)
Lemma grid_any_stretch (c : closure) (E : env) :
  0 < e_z0 E < e_zm E -> 0 < e_h E -> (1 <= e_n E)%nat -> e_zm E <= e_zmx E ->
  dzeta (e_zm E) (e_n E) <= bb (e_zm E) (e_z0 E) (e_h E) * exp (- e_zmx E / e_h E) ->
  (Z.of_nat (e_n E) < e_nnodes E)%Z /\
  e_znode E 0 = e_z0 E /\
  e_znode E (e_n E) = e_zm E /\
  (forall i j, (i < j)%nat -> (Z.of_nat j < e_nnodes E)%Z -> e_znode E i < e_znode E j) /\
  (forall i, Z.of_nat i = (e_nnodes E - 1)%Z -> e_zmx E <= e_znode E i) /\
  length (profiles c E) = Z.to_nat (e_nnodes E).
Proof.
  intros [H0 Hm] Hh Hn Hx Hstep.
  assert (HR := nodes_in_range_step _ _ (e_h E) H0 Hm _ Hn _ Hstep).
  unfold e_nnodes, e_znode.
  split; [apply (n_lt_nnodes _ _ _ H0 Hm Hh _ Hn _ Hx)|].
  split; [apply (znode_0 _ _ _ H0 Hm Hh)|].
  split; [apply (znode_n _ _ _ H0 Hm Hh _ Hn)|].
  split; [intros i j Hij Hj; apply (grid_increasing _ _ _ H0 Hm Hh _ Hn _ HR i j Hij Hj)|].
  split; [intros i Hi; apply (grid_top _ _ _ H0 Hm Hh _ Hn _ HR i Hi)|].
  apply profiles_length.
Qed.

(* C09_wind_at_zm *)
Lemma wind_ustar_given c n zm um vm us mol prsc tke dh st E :
  c <> OAAHOC ->
  make_env c n zm um vm (Some us) None mol prsc tke dh st = Some E ->
  (1 <= n)%nat -> 0 < zm -> us <> 0 -> absum um vm <> 0 -> e_z0 E < zm -> 0 < e_h E ->
  e_znode E n = zm /\ u_node c E n = um /\ v_node c E n = vm.
Proof.
  intros Hc HE Hn Hz Hu Ha Hz0 Hh.
  destruct (make_env_fields _ _ _ _ _ _ _ _ _ _ _ _ _ HE)
    as (Ezm & Eum & Evm & Emol & _ & _ & En & _ & _ & Hres).
  destruct (resolve_ustar_given _ _ _ _ _ _ _ _ Hc Hres) as [Ez0 Eus].
  assert (H0 : 0 < e_z0 E).
  { rewrite Ez0. unfold z0_of_ustar. apply Rmult_lt_0_compat; [exact Hz|apply exp_pos]. }
  assert (Hzn : e_znode E n = zm).
  { rewrite <- En, <- Ezm. apply env_grid; rewrite ?Ezm, ?En; try assumption. split; assumption. }
  split; [exact Hzn|].
  unfold u_node, v_node. rewrite Hzn.
  assert (Habs : e_absum E = absum um vm) by (unfold e_absum; rewrite Eum, Evm; reflexivity).
  destruct (wind_at_of_absu c E zm) as [Hu' Hv'].
  - rewrite Habs. exact Ha.
  - intros Hcc. destruct c; try contradiction; unfold absu_at;
      rewrite Ez0, Eus, Emol, Habs; apply absu_most_zm_ustar; lra.
  - rewrite Hu', Hv', Eum, Evm. split; reflexivity.
Qed.

Lemma wind_z0_given c n zm um vm z0 mol prsc tke dh st E :
  c <> OAAHOC ->
  make_env c n zm um vm None (Some z0) mol prsc tke dh st = Some E ->
  (1 <= n)%nat -> 0 < z0 < zm -> absum um vm <> 0 -> ln (zm / z0) + psi (zm / mol) <> 0 -> 0 < e_h E ->
  e_z0 E = z0 /\ e_znode E n = zm /\ u_node c E n = um /\ v_node c E n = vm.
Proof.
  intros Hc HE Hn [H0 Hm] Ha HD Hh.
  destruct (make_env_fields _ _ _ _ _ _ _ _ _ _ _ _ _ HE)
    as (Ezm & Eum & Evm & Emol & _ & _ & En & _ & _ & Hres).
  destruct (resolve_z0_given _ _ _ _ _ _ _ _ Hc Hres) as [Ez0 Eus].
  split; [exact Ez0|].
  assert (Hzn : e_znode E n = zm).
  { rewrite <- En, <- Ezm. apply env_grid; rewrite ?Ezm, ?En, ?Ez0; try assumption. split; assumption. }
  split; [exact Hzn|].
  unfold u_node, v_node. rewrite Hzn.
  assert (Habs : e_absum E = absum um vm) by (unfold e_absum; rewrite Eum, Evm; reflexivity).
  destruct (wind_at_of_absu c E zm) as [Hu' Hv'].
  - rewrite Habs. exact Ha.
  - intros Hcc. destruct c; try contradiction; unfold absu_at;
      rewrite Ez0, Eus, Emol, Habs; apply absu_most_zm_z0; exact HD.
  - rewrite Hu', Hv', Eum, Evm. split; reflexivity.
Qed.

Lemma wind_oaahoc n zm um vm us z0 mol prsc tke dh st E :
  make_env OAAHOC n zm um vm (Some us) z0 mol prsc tke dh st = Some E ->
  (1 <= n)%nat -> 0 < zm -> us <> 0 -> 0 < tke -> absum um vm <> 0 -> 0 < e_h E ->
  0 < e_z0 E < zm /\ e_znode E n = zm /\ u_node OAAHOC E n = um /\ v_node OAAHOC E n = vm.
Proof.
  intros HE Hn Hz Hu Ht Ha Hh.
  destruct (make_env_fields _ _ _ _ _ _ _ _ _ _ _ _ _ HE)
    as (Ezm & Eum & Evm & Emol & _ & Etke & En & _ & _ & Hres).
  destruct (resolve_oaahoc _ _ _ _ _ _ _ _ Hres) as [Ez0 Eus].
  assert (Hap : 0 < absum um vm) by (assert (H := absum_nonneg um vm); lra).
  assert (Hr := z0_oaahoc_range zm (absum um vm) tke us Hz Hap Ht Hu). rewrite <- Ez0 in Hr.
  split; [exact Hr|].
  assert (Hzn : e_znode E n = zm).
  { rewrite <- En, <- Ezm. apply env_grid; rewrite ?Ezm, ?En; assumption. }
  split; [exact Hzn|].
  unfold u_node, v_node. rewrite Hzn.
  assert (Habs : e_absum E = absum um vm) by (unfold e_absum; rewrite Eum, Evm; reflexivity).
  destruct (wind_at_of_absu OAAHOC E zm) as [Hu' Hv'].
  - rewrite Habs. exact Ha.
  - intros _. unfold absu_at. rewrite Ez0, Eus, Etke, Habs. apply absu_oaahoc_zm; lra.
  - rewrite Hu', Hv', Eum, Evm. split; reflexivity.
Qed.

(* C09_direction *)
Lemma direction_node c E i : u_node c E i * e_vm E = v_node c E i * e_um E.
Proof. apply direction_at. Qed.

(* C09_K_positive *)
Lemma K_positive c E i :
  0 < e_z0 E < e_zm E -> 0 < e_h E -> (1 <= e_n E)%nat -> env_in_range E ->
  (Z.of_nat i < e_nnodes E)%Z ->
  0 < e_ustar E -> 0 < e_prsc E -> 0 < e_tke E ->
  0 < e_znode E i /\
  0 < Kz_node c E i /\
  (c <> MOSTM -> Kx_node c E i = Kz_node c E i /\ Ky_node c E i = Kz_node c E i) /\
  (c = MOSTM -> 0 <= Kx_node c E i /\ 0 <= Ky_node c E i /\
     (u_node c E i * u_node c E i + v_node c E i * v_node c E i <> 0 ->
      Kx_node c E i + Ky_node c E i = Kz_node c E i)) /\
  (c = MOST \/ c = MOSTM ->
     Kz_node c E i = kap * e_ustar E * e_znode E i / (phi (e_znode E i / e_mol E) * e_prsc E)) /\
  (c = CONSTANT -> Kz_node c E i = kap * e_ustar E * e_zm E / e_prsc E) /\
  (c = OAAHOC -> Kz_node c E i = c_h * c_l * e_znode E i * sqrt (e_tke E)).
Proof.
  intros [H0 Hm] Hh Hn HR Hi Hu Hp Ht.
  assert (Hz : 0 < e_znode E i).
  { unfold e_znode. apply (grid_positive _ _ _ H0 Hm Hh _ Hn (e_zmx E) HR i Hi). }
  assert (Hzm : 0 < e_zm E) by lra.
  assert (HK : 0 < K_at c E (e_znode E i)) by (apply K_at_pos; assumption).
  split; [exact Hz|]. split; [exact HK|].
  split; [intros Hc; destruct c; try contradiction; split; reflexivity|].
  split.
  { intros ->. unfold Kx_node, Ky_node, Kz_node, Kz_at, Kx_at, Ky_at, u_node, v_node.
    apply mostm_split. lra. }
  split.
  { intros [-> | ->]; unfold Kz_node, Kz_at, K_at; apply K_most_similarity; lra. }
  split; [intros ->; reflexivity|intros ->; reflexivity].
Qed.

(* C09_roundtrip *)
Lemma roundtrip_env c n zm um vm us mol prsc tke dh st E :
  c <> OAAHOC ->
  make_env c n zm um vm (Some us) None mol prsc tke dh st = Some E ->
  zm <> 0 -> us <> 0 -> absum um vm <> 0 ->
  make_env c n zm um vm None (Some (e_z0 E)) mol prsc tke dh st = Some E.
Proof.
  intros Hc HE Hz Hu Ha.
  destruct (make_env_fields _ _ _ _ _ _ _ _ _ _ _ _ _ HE) as (_ & _ & _ & _ & _ & _ & _ & _ & _ & Hres).
  destruct (resolve_ustar_given _ _ _ _ _ _ _ _ Hc Hres) as [Ez0 Eus].
  assert (Hr2 : resolve c zm (absum um vm) None (Some (e_z0 E)) mol tke = Some (e_z0 E, us)).
  { rewrite Ez0. destruct c; try contradiction; simpl; rewrite roundtrip_ustar by assumption; reflexivity. }
  unfold make_env. rewrite Hr2.
  unfold make_env in HE. rewrite Hres in HE. rewrite Eus in HE. exact HE.
Qed.

Lemma roundtrip_env_z0 c n zm um vm z0 mol prsc tke dh st E :
  c <> OAAHOC ->
  make_env c n zm um vm None (Some z0) mol prsc tke dh st = Some E ->
  0 < z0 -> 0 < zm -> absum um vm <> 0 -> ln (zm / z0) + psi (zm / mol) <> 0 ->
  make_env c n zm um vm (Some (e_ustar E)) None mol prsc tke dh st = Some E.
Proof.
  intros Hc HE H0 Hz Ha HD.
  destruct (make_env_fields _ _ _ _ _ _ _ _ _ _ _ _ _ HE) as (_ & _ & _ & _ & _ & _ & _ & _ & _ & Hres).
  destruct (resolve_z0_given _ _ _ _ _ _ _ _ Hc Hres) as [Ez0 Eus].
  assert (Hr2 : resolve c zm (absum um vm) (Some (e_ustar E)) None mol tke = Some (z0, e_ustar E)).
  { rewrite Eus. destruct c; try contradiction; simpl; rewrite roundtrip_z0 by assumption; reflexivity. }
  unfold make_env. rewrite Hr2.
  unfold make_env in HE. rewrite Hres in HE. rewrite Ez0 in HE. exact HE.
Qed.

(* improper integral from the neutral point: psi(x) = lim_{a -> 0, a on x's side} RInt_a^x *)
Lemma psi_improper_integral x : x <> 0 ->
  filterlim (fun a => RInt psi_integrand a x) (if Rlt_dec 0 x then at_right 0 else at_left 0)
            (locally (psi x)).
Proof.
  intros Hx.
  assert (Hc := psi_continuous_0). unfold continuous in Hc. rewrite psi_0 in Hc.
  assert (Hlim : filterlim (fun a => psi x - psi a) (locally 0) (locally (psi x - 0))).
  { apply (filterlim_comp _ _ _ psi (fun y => psi x - y) (locally 0) (locally 0) (locally (psi x - 0))).
    - exact Hc.
    - apply (continuous_minus (fun _ : R => psi x) (fun y : R => y) 0).
      + apply continuous_const.
      + apply continuous_id. }
  replace (psi x - 0) with (psi x) in Hlim by ring.
  destruct (Rlt_dec 0 x) as [Hp|Hn].
  - apply (filterlim_ext_loc (fun a => psi x - psi a)).
    + exists (mkposreal x Hp). intros a Ha Ha0.
      unfold ball in Ha; simpl in Ha. unfold AbsRing_ball, abs, minus, plus, opp in Ha; simpl in Ha.
      symmetry. apply is_RInt_unique. apply psi_is_RInt. nra.
    + eapply filterlim_filter_le_1; [|exact Hlim]. apply filter_le_within.
  - assert (Hneg : x < 0) by lra. assert (Hneg' : 0 < - x) by lra.
    apply (filterlim_ext_loc (fun a => psi x - psi a)).
    + exists (mkposreal (- x) Hneg'). intros a Ha Ha0.
      unfold ball in Ha; simpl in Ha. unfold AbsRing_ball, abs, minus, plus, opp in Ha; simpl in Ha.
      symmetry. apply is_RInt_unique. apply psi_is_RInt. nra.
    + eapply filterlim_filter_le_1; [|exact Hlim]. apply filter_le_within.
Qed.

(* C09_interface_level: the level index the interface passes by default denotes z_m *)
Lemma interface_level_is_zm c nz z_m um vm ustar z0 mol prsc tke E :
  make_env c nz z_m um vm ustar z0 mol prsc tke None None = Some E ->
  (1 <= nz)%nat -> 0 < e_z0 E < z_m ->
  (Z.of_nat (interface_level nz) < e_nnodes E)%Z /\
  e_znode E (interface_level nz) = z_m /\
  exists r, nth_error (profiles c E) (interface_level nz) = Some r /\ row_z r = z_m.
Proof.
  intros HE Hn Hz. unfold interface_level.
  destruct (grid_default _ _ _ _ _ _ _ _ _ _ _ HE Hn Hz) as (Hlt & _ & Hzn & _).
  split; [exact Hlt|]. split; [exact Hzn|].
  exists (row c E nz). split; [apply profiles_nth; exact Hlt|].
  unfold row, row_z. exact Hzn.
Qed.

(* orientation: for positive Obukhov length (and for CONSTANT, OAAHOC) the wind at every node is a
   NON-NEGATIVE multiple of the measured wind vector.  For negative Obukhov length this fails at the
   lowest node: absu(z0) = ustar/kap * psi(z0/L) < 0 (see the example in Properties/C09.v); the
   direction statement of the property is therefore formalised as collinearity. *)
Lemma orientation_node c E i :
  0 < e_z0 E < e_zm E -> 0 < e_h E -> (1 <= e_n E)%nat -> env_in_range E ->
  (Z.of_nat i < e_nnodes E)%Z ->
  0 < e_ustar E -> 0 < e_tke E -> 0 < e_absum E ->
  (c = MOST \/ c = MOSTM -> 0 < e_mol E) ->
  exists s, 0 <= s /\ u_node c E i = s * e_um E /\ v_node c E i = s * e_vm E.
Proof.
  intros [H0 Hm] Hh Hn HR Hi Hu Ht Ha Hmol.
  assert (Hz : e_z0 E <= e_znode E i).
  { unfold e_znode. apply (znode_ge_z0 _ _ _ H0 Hm Hh _ Hn). apply HR. exact Hi. }
  assert (Hln : 0 <= ln (e_znode E i / e_z0 E)).
  { rewrite <- ln_1. destruct (Req_dec (e_znode E i) (e_z0 E)) as [->|Hne].
    - replace (e_z0 E / e_z0 E) with 1 by (field; lra). lra.
    - apply Rlt_le, ln_increasing; [lra|].
      apply (Rmult_lt_reg_r (e_z0 E)); [exact H0|].
      replace (e_znode E i / e_z0 E * e_z0 E) with (e_znode E i) by (field; lra). lra. }
  assert (Hk := kap_pos).
  assert (Hmost : 0 < e_mol E -> 0 <= absu_most (e_ustar E) (e_z0 E) (e_mol E) (e_znode E i)).
  { intros HL. unfold absu_most.
    assert (Hq : 0 < e_znode E i / e_mol E) by (apply Rdiv_lt_0_compat; lra).
    unfold psi. destruct (Rlt_dec 0 (e_znode E i / e_mol E)); [|lra]. unfold psi_stable.
    apply Rmult_le_pos; [apply Rlt_le, Rdiv_lt_0_compat; assumption|lra]. }
  destruct c; unfold u_node, v_node, u_at, v_at, dir_u.
  - exists 1. split; [lra|split; ring].
  - exists (absu_at MOST E (e_znode E i) / e_absum E). split.
    + apply Rmult_le_pos; [apply Hmost, Hmol; left; reflexivity|apply Rlt_le, Rinv_0_lt_compat, Ha].
    + split; unfold Rdiv; ring.
  - exists (absu_at MOSTM E (e_znode E i) / e_absum E). split.
    + apply Rmult_le_pos; [apply Hmost, Hmol; right; reflexivity|apply Rlt_le, Rinv_0_lt_compat, Ha].
    + split; unfold Rdiv; ring.
  - exists (absu_at OAAHOC E (e_znode E i) / e_absum E). split.
    + apply Rmult_le_pos; [|apply Rlt_le, Rinv_0_lt_compat, Ha].
      unfold absu_at, absu_oaahoc, c_m, c_l.
      assert (Hs : 0 < sqrt (e_tke E)) by (apply sqrt_lt_R0; exact Ht).
      apply Rmult_le_pos; [|exact Hln].
      apply Rlt_le. repeat apply Rdiv_lt_0_compat; nra.
    + split; unfold Rdiv; ring.
Qed.

Lemma continuity_statement :
  psi_stable 0 = 0 /\ psi_unstable 0 = 0 /\ phi_stable 0 = 1 /\ phi_unstable 0 = 1 /\
  psi 0 = 0 /\ phi 0 = 1 /\ continuous psi 0 /\ continuous phi 0 /\
  filterlim psi_stable (at_right 0) (locally 0) /\ filterlim psi_unstable (at_left 0) (locally 0) /\
  filterlim phi_stable (at_right 0) (locally 1) /\ filterlim phi_unstable (at_left 0) (locally 1).
Proof.
  split; [apply psi_stable_0|]. split; [apply psi_unstable_0|].
  split; [apply phi_stable_0|]. split; [apply phi_unstable_0|].
  split; [apply psi_0|]. split; [apply phi_0|].
  split; [apply psi_continuous_0|]. split; [apply phi_continuous_0|].
  apply psi_limits_0.
Qed.

Lemma psi_integral_statement :
  (forall x, x <> 0 -> is_derive psi x ((phim x - 1) / x)) /\
  psi 0 = 0 /\ continuous psi 0 /\
  (forall a b, 0 < a * b -> is_RInt (fun t => (phim t - 1) / t) a b (psi b - psi a)) /\
  (forall x, x <> 0 ->
     filterlim (fun a => RInt (fun t => (phim t - 1) / t) a x)
               (if Rlt_dec 0 x then at_right 0 else at_left 0) (locally (psi x))).
Proof.
  split; [exact psi_derive|]. split; [exact psi_0|]. split; [exact psi_continuous_0|].
  split; [exact psi_is_RInt|exact psi_improper_integral].
Qed.

Lemma km_copies_statement zm L : 0 < zm -> L <> 0 ->
  km_psiM zm L = psi (zm / L) /\ km_phiC zm L = phi (zm / L) /\ km_phiM zm L = phim (zm / L).
Proof.
  intros Hz HL. split; [apply km_psiM_psi; assumption|].
  split; [apply km_phiC_phi; assumption|apply km_phiM_phim; assumption].
Qed.

Lemma roundtrip_statement :
  (forall c n zm um vm us mol prsc tke dh st E,
     c <> OAAHOC ->
     make_env c n zm um vm (Some us) None mol prsc tke dh st = Some E ->
     zm <> 0 -> us <> 0 -> absum um vm <> 0 ->
     make_env c n zm um vm None (Some (e_z0 E)) mol prsc tke dh st = Some E /\
     vertical_profiles c n zm um vm None (Some (e_z0 E)) mol prsc tke dh st =
     vertical_profiles c n zm um vm (Some us) None mol prsc tke dh st) /\
  (forall c n zm um vm z0 mol prsc tke dh st E,
     c <> OAAHOC ->
     make_env c n zm um vm None (Some z0) mol prsc tke dh st = Some E ->
     0 < z0 -> 0 < zm -> absum um vm <> 0 -> ln (zm / z0) + psi (zm / mol) <> 0 ->
     make_env c n zm um vm (Some (e_ustar E)) None mol prsc tke dh st = Some E) /\
  (forall zm a us mol, zm <> 0 -> us <> 0 -> a <> 0 ->
     ustar_of_z0 zm a (z0_of_ustar zm a us mol) mol = us).
Proof.
  split; [|split; [exact roundtrip_env_z0|exact roundtrip_ustar]].
  intros c n zm um vm us mol prsc tke dh st E Hc HE Hz Hu Ha.
  pose proof (roundtrip_env c n zm um vm us mol prsc tke dh st E Hc HE Hz Hu Ha) as H.
  split; [exact H|]. unfold vertical_profiles. rewrite H, HE. reflexivity.
Qed.
