From Coq Require Import List Arith Bool Lia.
From BL Require Import Model.KernelCache.
Import ListNotations.

Section P.
Variable name_of : flavour -> nat.
Hypothesis names_differ : name_of Serial <> name_of Threaded.

Notation disk_get := KernelCache.disk_get.
Notation obtain := (obtain name_of).
Notation solve := (solve name_of).
Notation solves := (solves name_of).
Notation worker_solve := (worker_solve name_of).
Notation earlier_runs := (earlier_runs name_of).

(* every entry holds the flavour its name stands for *)
Definition disk_ok (c : disk) : Prop := forall f got, disk_get c (name_of f) = Some got -> got = f.
Definition memo_ok (p : proc) : Prop := forall f got, memo p f = Some got -> got = f.

Lemma name_inj f g : name_of f = name_of g -> f = g.
Proof. destruct f, g; intros H; try reflexivity; exfalso; [apply names_differ|apply names_differ; symmetry]; exact H. Qed.

Lemma set_memo_ok p want : memo_ok p -> memo_ok (set_memo p want want).
Proof.
  intros Hm f got H. destruct want, f; simpl in H;
    try (injection H as <-; reflexivity).
  - exact (Hm Threaded got H).
  - exact (Hm Serial got H).
Qed.

Lemma set_memo_flags p want got : omp (set_memo p want got) = omp p /\ from_omp (set_memo p want got) = from_omp p.
Proof. destruct want; simpl; auto. Qed.

Lemma obtain_ok c p want got c' p' :
  disk_ok c -> memo_ok p -> obtain c p want = (got, c', p') ->
  got = want /\ disk_ok c' /\ memo_ok p' /\ omp p' = omp p /\ from_omp p' = from_omp p.
Proof.
  intros Hc Hm. unfold KernelCache.obtain.
  destruct (memo p want) as [g|] eqn:Em.
  - intros H. injection H as <- <- <-. pose proof (Hm _ _ Em) as ->. auto.
  - destruct (disk_get c (name_of want)) as [g|] eqn:Ed; intros H; injection H as <- <- <-.
    + pose proof (Hc _ _ Ed) as ->. destruct (set_memo_flags p want want) as [H1 H2].
      split; [reflexivity|]. split; [exact Hc|]. split; [apply set_memo_ok; exact Hm|]. auto.
    + destruct (set_memo_flags p want want) as [H1 H2].
      split; [reflexivity|]. split; [|split; [apply set_memo_ok; exact Hm|auto]].
      intros f got. simpl. destruct (Nat.eqb (name_of f) (name_of want)) eqn:E.
      * apply Nat.eqb_eq in E. apply name_inj in E. intros H; injection H as <-. symmetry; exact E.
      * apply Hc.
Qed.

Lemma solve_ok c p t : disk_ok c -> memo_ok p ->
  disk_ok (fst (solve c p t)) /\
  (forall p', snd (solve c p t) = Some p' -> memo_ok p' /\ from_omp p' = from_omp p) /\
  ((from_omp p = false \/ wanted t = Serial) -> exists p', snd (solve c p t) = Some p').
Proof.
  intros Hc Hm. unfold KernelCache.solve.
  destruct (obtain c p (wanted t)) as [[got c'] p'] eqn:E.
  destruct (obtain_ok _ _ _ _ _ _ Hc Hm E) as (-> & Hc' & Hm' & Ho & Hf).
  destruct (wanted t) eqn:Ew; simpl.
  - split; [exact Hc'|]. split; [|eauto]. intros q H; injection H as <-. auto.
  - destruct (from_omp p') eqn:Ef; simpl.
    + split; [exact Hc'|]. split; [intros q H; discriminate H|].
      intros [H|H]; [rewrite Hf in Ef; congruence|discriminate H].
    + split; [exact Hc'|]. split; [|eauto].
      intros q H; injection H as <-. split; [|simpl; congruence].
      intros f got. destruct f; simpl; intros H; [exact (Hm' Serial got H)|exact (Hm' Threaded got H)].
Qed.

Lemma earlier_runs_ok threads : forall c, disk_ok c -> disk_ok (earlier_runs c threads).
Proof.
  induction threads as [|t r IH]; intros c Hc; simpl; [exact Hc|].
  apply IH. apply (solve_ok c fresh_proc t Hc). intros f got H. destruct f; discriminate H.
Qed.

Lemma solves_ok threads : forall c p, disk_ok c -> memo_ok p -> from_omp p = false ->
  exists c' p', solves c p threads = (c', Some p') /\ disk_ok c' /\ memo_ok p'.
Proof.
  induction threads as [|t r IH]; intros c p Hc Hm Hf; simpl; [eauto|].
  destruct (solve_ok c p t Hc Hm) as (Hc' & Hp & Halive).
  destruct (Halive (or_introl Hf)) as (p' & Ep).
  destruct (solve c p t) as [c1 o] eqn:Es. simpl in *. subst o.
  destruct (Hp p' eq_refl) as [Hm' Hf']. apply IH; [exact Hc'|exact Hm'|congruence].
Qed.

(* the repaired code: whatever ran before (any programs with any thread settings, any solves of the parent), a
   pool worker always obtains the serial kernel and is never terminated *)
Lemma worker_survives (earlier parent_solves : list nat) :
  exists c parent w,
    solves (earlier_runs [] earlier) fresh_proc parent_solves = (c, Some parent) /\
    snd (worker_solve c parent) = Some w.
Proof.
  assert (H0 : disk_ok []) by (intros f got H; discriminate H).
  pose proof (earlier_runs_ok earlier [] H0) as Hc.
  destruct (solves_ok parent_solves _ fresh_proc Hc) as (c & parent & Es & Hc' & Hm');
    [intros f got H; destruct f; discriminate H|reflexivity|].
  unfold KernelCache.worker_solve.
  assert (Hmf : memo_ok (fork parent)).
  { intros f got H. destruct f; simpl in H; [exact (Hm' Serial got H)|exact (Hm' Threaded got H)]. }
  destruct (solve_ok c (fork parent) 1 Hc' Hmf) as (_ & _ & Halive).
  destruct (Halive (or_intror eq_refl)) as (w & Ew). eauto.
Qed.
End P.

Lemma own_names_differ : own_name Serial <> own_name Threaded.
Proof. discriminate. Qed.

Lemma worker_survives_repaired (earlier parent_solves : list nat) :
  exists c parent w,
    solves own_name (earlier_runs own_name [] earlier) fresh_proc parent_solves = (c, Some parent) /\
    snd (worker_solve own_name c parent) = Some w.
Proof. exact (worker_survives own_name own_names_differ earlier parent_solves). Qed.
