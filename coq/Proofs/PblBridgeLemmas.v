(* Lemmas and tactics for Bridge/PblFunBridge.v: symbolic execution of a description (Model/PblDesc.v) and
   comparison of the resulting real expressions with Model/Pbl.v.  Nothing here depends on the generated file. *)
From Coq Require Import Reals ZArith List String Bool Lra.
From BL Require Import Model.Pbl Model.PblDesc.
Import ListNotations.
Open Scope R_scope.

Lemma sem_of_eval d f : (forall x, efun_eval d x = Some (f x)) -> forall x, efun_sem d x = f x.
Proof. intros H x. unfold efun_sem. rewrite H. reflexivity. Qed.

Lemma guard_true e k : guard true e k = k.
Proof. reflexivity. Qed.
Lemma guard_false e k : guard false e k = Err e.
Proof. reflexivity. Qed.

Lemma str_eq_eq a b : str_eq a b = true -> a = b.
Proof. unfold str_eq. apply String.eqb_eq. Qed.

Lemma exec_block_app fe kr l1 l2 en nx k :
  exec_block fe kr (l1 ++ l2) en nx k = exec_block fe kr l1 en nx (fun en' nx' => exec_block fe kr l2 en' nx' k).
Proof.
  revert en nx k. induction l1 as [|s l1 IH]; intros en nx k; [reflexivity|].
  cbn [app exec_block]. f_equal.
  apply FunctionalExtensionality.functional_extensionality; intro en'.
  apply FunctionalExtensionality.functional_extensionality; intro nx'. apply IH.
Qed.

Lemma exec_block_prefix m fe kr l en nx k :
  exec_block fe kr l en nx k
  = exec_block fe kr (firstn m l) en nx (fun en' nx' => exec_block fe kr (skipn m l) en' nx' k).
Proof. rewrite <- exec_block_app, firstn_skipn. reflexivity. Qed.

(* an elementwise function applied to a number (unfold the gen_*_def first) *)
Ltac pbl_efun :=
  cbv [efun_eval eval_lets evalR ef_param ef_lets ef_ret lookup upd String.eqb Ascii.eqb Bool.eqb un_sem bin_sem pown].

(* binding of the arguments of a call (unfold the fundef first) *)
Ltac pbl_bind :=
  cbv [call all_params bind_params arg_value supplied
       lookup upd String.eqb Ascii.eqb Bool.eqb f_params
       a_n a_zm a_um a_vm a_ustar a_z0 a_mol a_prsc a_closure a_domain_height a_stretch a_z0_min a_z0_max a_tke
       mol_default prsc_default tke_default closure_default].

(* run the interpreter; string comparisons on program values are decided (pbl_run) or kept (pbl_run_sym) *)
Ltac pbl_run_sym :=
  cbv [exec_block exec eval truthy is_none lift1 lift2 as_num py_div
       lookup upd upd_all bind_names opt_value nth_error
       String.eqb Ascii.eqb Bool.eqb un_sem bin_sem pown Nat.eqb negb f_params f_body].
Ltac pbl_run :=
  cbv [exec_block exec eval truthy is_none lift1 lift2 as_num py_div
       lookup upd upd_all bind_names opt_value nth_error str_eq
       String.eqb Ascii.eqb Bool.eqb un_sem bin_sem pown Nat.eqb negb f_params f_body].

(* the first m statements of the block decide the outcome whatever follows them: run them against an unknown
   continuation (string comparisons kept; fin closes the goal, typically after rewriting them) *)
Ltac pbl_prefix m fin :=
  rewrite (exec_block_prefix m); cbv [firstn skipn];
  match goal with
  | |- context[exec_block ?fe ?kr ?l ?en ?nx (fun en' nx' => exec_block ?fe ?kr ?l2 en' nx' ?k)] =>
    generalize (fun en' nx' => exec_block fe kr l2 en' nx' k)
  end;
  let K := fresh "K" in intro K; timeout 10 pbl_run_sym; fin.

Ltac pbl_model := cbv [str_eq String.eqb Ascii.eqb Bool.eqb make_env resolve resolve_exn].

(* equality of two real expressions of the same shape: syntactic, else as polynomials in the atoms, else argument-wise *)
Ltac req := first
  [ reflexivity
  | solve [unfold Rdiv; ring]
  | match goal with
    | |- ?f ?a = ?f ?b => apply (f_equal f); req
    | |- ?f ?a1 ?a2 = ?f ?b1 ?b2 => apply (f_equal2 f); req
    end ].

Ltac pbl_unfold_model :=
  cbv [e_nnodes nnodes e_znode znode z_of_zeta aa bb zetamx zeta dzeta
       u_node v_node Kx_node Ky_node Kz_node u_at v_at Kx_at Ky_at Kz_at K_at absu_at e_absum absum
       absu_most absu_oaahoc K_most K_const K_oaahoc dir_u Kx_mostm Ky_mostm
       z0_of_ustar ustar_of_z0 z0_oaahoc opt_default h_default zmx_default kap c_l c_m c_h
       e_zm e_um e_vm e_z0 e_ustar e_mol e_prsc e_tke e_h e_zmx e_n arange_len].

(* goal: vp_matches <executed description> <if int_nonzero n then if len_positive (e_nnodes E) then Returns c E ..>;
   rw rewrites the calls of the elementwise functions into the model's *)
Ltac pbl_returns rw :=
  unfold guard;
  match goal with |- context[int_nonzero ?n] => destruct (int_nonzero n); [| reflexivity] end;
  rw;
  match goal with
  | |- vp_matches _ (if len_positive (e_nnodes ?E) then _ else _) =>
    match goal with
    | |- context[len_positive (arange_len ?a ?b ?c)] =>
      let HN := fresh "HN" in
      assert (HN : arange_len a b c = e_nnodes E) by (pbl_unfold_model; apply f_equal; req);
      rewrite !HN; clear HN
    end;
    destruct (len_positive (e_nnodes E)); [| reflexivity]
  end;
  cbv beta iota delta [vp_matches];
  repeat match goal with |- _ /\ _ => split end;
  first [ reflexivity
        | (let i := fresh "i" in intro i; rw; rewrite ?Rplus_0_l; pbl_unfold_model; req) ].

Open Scope string_scope.

(* ---- the interpreter on small programs (sanity of the semantics the bridge relies on) *)

(* defaults, arithmetic, return *)
Example ex_default_and_return :
  call [] (mkFun [("x", DNum 2); ("y", DNone)] [SReturn (EBin BAdd (EVar "x") (ENum 1))]) [("y", OptNum None)]
  = Ok (VNum (2 + 1)).
Proof. reflexivity. Qed.

(* a supplied name that is no parameter, a missing required argument: TypeError *)
Example ex_unknown_keyword :
  call [] (mkFun [("x", DNum 2)] [SReturn (EVar "x")]) [("q", Given VNone)] = Err TypeError.
Proof. reflexivity. Qed.
Example ex_missing_required :
  call [] (mkFun [("x", DReq)] [SReturn (EVar "x")]) [] = Err TypeError.
Proof. reflexivity. Qed.

(* arithmetic on None raises TypeError; raise; falling off the end returns None *)
Example ex_none_arith :
  call [] (mkFun [("u", DNone)] [SReturn (EBin BDiv (ENum 1) (EVar "u"))]) [] = Err TypeError.
Proof. reflexivity. Qed.
Example ex_raise : call [] (mkFun [] [SIf (EIsNone ENone) [SRaise ValueError] []; SReturn (ENum 1)]) [] = Err ValueError.
Proof. reflexivity. Qed.
Example ex_fall_off : call [] (mkFun [] [SAssign ["a"] (ENum 1)]) [] = Ok VNone.
Proof. reflexivity. Qed.

(* object identity: a chained assignment binds one array object, an arithmetic operation creates a new one *)
Example ex_alias :
  call [] (mkFun [] [SAssign ["z"] (EArange (ENum 0) (ENum 3) (ENum 1));
                     SAssign ["a"; "b"] (EVar "z");
                     SAssign ["c"] (EBin BMul (ENum 1) (EVar "z"));
                     SReturn (ETuple [EVar "a"; EVar "b"; EVar "c"])]) []
  = Ok (VTuple [VArr 0 0 (arange_len 0 3 1) (fun i => 0 + INR i * 1);
                VArr 0 0 (arange_len 0 3 1) (fun i => 0 + INR i * 1);
                VArr 1 0 (arange_len 0 3 1) (fun i => 1 * (0 + INR i * 1))]).
Proof. reflexivity. Qed.

(* z[0] / max on an array are guarded by its length; division by the int 0 raises *)
Example ex_index_guard :
  call [] (mkFun [] [SAssign ["z"] (EArange (ENum 0) (ENum 3) (ENum 1)); SLog [EIndex (EVar "z") 0]; SReturn ENone]) []
  = guard (len_positive (arange_len 0 3 1)) IndexError (Ok VNone).
Proof. reflexivity. Qed.
Example ex_div_int_zero :
  call [] (mkFun [("n", DReq)] [SReturn (EBin BDiv (ENum 1) (EVar "n"))]) [("n", Given (VInt 0))] = Err ZeroDivisionError.
Proof. reflexivity. Qed.

(* an elementwise function: np.where(x > 0, 2*x, nan) *)
Example ex_efun x :
  efun_eval (mkEFun "x" [("y", EBin BMul (ENum 2) (EVar "x"))] (EWhereGt (EVar "x") (ENum 0) (EVar "y") ENan)) x
  = Some (if Rlt_dec 0 x then 2 * x else 0).
Proof. reflexivity. Qed.

(* vp_matches is a real constraint: a call that returns None matches no `Returns`, and `Raises e` only Err e *)
Example ex_matches_strict c E : ~ vp_matches (Ok VNone) (Returns c E).
Proof. intro H. exact H. Qed.
Example ex_matches_exn : ~ vp_matches (Err TypeError) (Raises ValueError).
Proof. intro H. discriminate H. Qed.
