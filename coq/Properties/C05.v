(* C05 — uniform profiles: analytic mode is the closed form; the numerical step expands the exact
   layer propagator to third order.  Only statements, `exact`, Print Assumptions. *)
From Coq Require Import ZArith List Bool.
From BL Require Import Base.Ops Base.Laws Model.Solver Proofs.StepProofs Proofs.ModeProofs Proofs.SpecProofs Proofs.C05Proofs.
Import ListNotations.

(* analytic branch, every retained non-mean mode, every level list: slot k is the half-space
   solution Q = qh*exp(-lam*h), P = Q/(Kz*lam) at h = z[levels[k]] - z[0] (rho = storage rounding,
   the identity in double precision), assembled through the SAME pad/truncate/shift/crop as the
   numerical branch (Solver.solve shares that code path: only mode_levels_q/mean_levels_q branch) *)
Theorem C05_analytic_closed_form : forall (O : Ops), Laws O ->
  forall (a : args O) (g : geom O) tx ty qh k,
  a_analytic O a = true -> (k < length (a_levels O a))%nat ->
  nth k (mode_levels_q O a g tx ty qh) (c0 O, c0 O) =
    let h := csub O (nth0 O (a_z O a) (nth k (a_levels O a) 0%nat)) (nth0 O (a_z O a) 0%nat) in
    let Q := rho O a (cmul O qh (cexp O (cmul O (copp O (m_eig O a g tx ty)) h))) in
    (rho O a (cdiv O (cmul O Q (cdiv O (c1 O) (m_KzN O a g))) (m_eig O a g tx ty)), Q).
Proof. exact mode_levels_q_ana. Qed.

(* ... with the linear mean-concentration profile p000 - q00*h/Kz *)
Theorem C05_analytic_mean : forall (O : Ops), Laws O ->
  forall (a : args O) (g : geom O) q00 p000 k,
  a_analytic O a = true -> (k < length (a_levels O a))%nat ->
  nth k (mean_levels_q O a g q00 p000) (c0 O, c0 O) =
    let h := csub O (nth0 O (a_z O a) (nth k (a_levels O a) 0%nat)) (nth0 O (a_z O a) 0%nat) in
    (rho O a (csub O p000 (cmul O (cmul O q00 (cdiv O (c1 O) (m_KzN O a g))) h)), rho O a q00).
Proof. exact mean_levels_q_ana. Qed.

(* the closed form propagates exactly from layer to layer on the decaying eigenvector *)
Theorem C05_analytic_propagation : forall (O : Ops), Laws O -> forall lam qh h d,
  cmul O qh (cexp O (cmul O (copp O lam) (cadd O h d)))
  = cmul O (cexp O (cmul O (copp O lam) d)) (cmul O qh (cexp O (cmul O (copp O lam) h))).
Proof. exact analytic_propagation. Qed.

(* the layer step is, entry by entry, the third-order Taylor polynomial of exp(dz*M),
   M = [[0,-1/Kz],[T,0]] (M^2 = s I, M^3 = s M with s = -T/Kz) *)
Theorem C05_step_is_taylor3 : forall (O : Ops), Laws O -> forall Kz T dz,
  Kz <> c0 O ->
  let Kzinv := cdiv O (c1 O) Kz in
  let m12 := copp O Kzinv in let m21 := T in
  let s := copp O (cmul O T Kzinv) in
  coef_a O Kzinv T dz = cadd O (c1 O) (cmul O (cmul O (cmul O dz dz) (half O)) s) /\
  coef_b O Kzinv T dz = cadd O (cmul O dz m12) (cmul O (cmul O (cmul O (cmul O dz dz) dz) (sixth O)) (cmul O s m12)) /\
  coef_c O Kzinv T dz = cadd O (cmul O dz m21) (cmul O (cmul O (cmul O (cmul O dz dz) dz) (sixth O)) (cmul O s m21)) /\
  coef_d O Kzinv T dz = cadd O (c1 O) (cmul O (cmul O (cmul O dz dz) (half O)) s).
Proof. exact step_is_taylor3. Qed.

(* eigen-structure: on v- = (1, Kz*lam), lam^2 = -T/Kz, the step multiplies by
   E3(-lam dz) = 1 - x + x^2/2 - x^3/6, the cubic Taylor polynomial of exp(-lam dz) *)
Theorem C05_eigen : forall (O : Ops), Laws O -> forall Kz T dz lam,
  Kz <> c0 O -> cmul O lam lam = copp O (cdiv O T Kz) ->
  let Kzinv := cdiv O (c1 O) Kz in
  cadd O (coef_a O Kzinv T dz) (cmul O (coef_b O Kzinv T dz) (cmul O Kz lam)) = E3 O (copp O (cmul O lam dz)) /\
  cadd O (coef_c O Kzinv T dz) (cmul O (coef_d O Kzinv T dz) (cmul O Kz lam)) = cmul O (E3 O (copp O (cmul O lam dz))) (cmul O Kz lam).
Proof. exact step_eigen_minus. Qed.

(* hence, for height-independent coefficients on ANY vertical grid, the numerical mode solution
   is exactly Q_k = qh * prod_{j<k} E3(-lam dz_j), P_k = Q_k/(Kz lam), and alpha = qh/(Kz lam):
   the numerical mode differs from the analytic one only by E3(-x) versus exp(-x) per layer *)
Theorem C05_numeric_closed_form : forall (O : Ops), Laws O -> forall Kx Ky u v Kz lx ly dzs qh,
  let lam := eigval O Kx Ky u v Kz lx ly in
  let layers := const_layers O Kx Ky u v Kz dzs in
  let y1 := final O lx ly layers (c1 O, c0 O) in
  let y2 := final O lx ly layers (c0 O, qh) in
  Kz <> c0 O -> lam <> c0 O ->
  csub O (snd y1) (cmul O (cmul O Kz lam) (fst y1)) <> c0 O ->
  let al := alpha O Kz lam (fst y1) (snd y1) (fst y2) (snd y2) in
  al = cdiv O qh (cmul O Kz lam) /\
  forall k, (k <= length dzs)%nat ->
    shoot_traj O lx ly layers al qh k
    = (cdiv O (cmul O qh (prodE3 O lam dzs k)) (cmul O Kz lam), cmul O qh (prodE3 O lam dzs k)).
Proof. exact numeric_closed_form. Qed.

Goal True. idtac "THEOREM C05_analytic_closed_form". Abort. Print Assumptions C05_analytic_closed_form.
Goal True. idtac "THEOREM C05_analytic_mean". Abort. Print Assumptions C05_analytic_mean.
Goal True. idtac "THEOREM C05_analytic_propagation". Abort. Print Assumptions C05_analytic_propagation.
Goal True. idtac "THEOREM C05_step_is_taylor3". Abort. Print Assumptions C05_step_is_taylor3.
Goal True. idtac "THEOREM C05_eigen". Abort. Print Assumptions C05_eigen.
Goal True. idtac "THEOREM C05_numeric_closed_form". Abort. Print Assumptions C05_numeric_closed_form.

(* Third order, real (purely diffusive, decaying) modes: over Coq's reals, with x = lam*dz in
   [0,1], the per-layer factor E3(-x) approximates exp(-x) from below within x^4/24, so the
   numerical decay prod E3(-lam dz_j) is within lam^4/24 * H * dzmax^3 of exp(-lam H) on ANY
   grid; on a uniform grid halving dz divides the bound by exactly 8.  (C05_third_order_real
   _partial: the same bound for complex lam is not proved — no complex exponential with remainder
   estimates is installed; it is carried by the order oracle.) *)
From Coq Require Import Reals.
From BL Require Proofs.RealOrder.

Theorem C05_third_order_real_partial :
  (forall x, (0 <= x <= 1)%R ->
     (0 <= exp (- x) - RealOrder.E3 (- x) <= x ^ 4 / 24)%R) /\
  (forall lam (dzs : list R), (0 <= lam)%R ->
    (forall d, In d dzs -> (0 <= d /\ lam * d <= 1)%R) ->
    forall dmax, (forall d, In d dzs -> (d <= dmax)%R) -> (0 <= dmax)%R ->
    (Rabs (fold_right (fun d acc => RealOrder.E3 (- (lam * d)) * acc) 1 dzs
          - exp (- (lam * fold_right Rplus 0 dzs)))
      <= lam ^ 4 / 24 * (fold_right Rplus 0 dzs) * dmax ^ 3)%R) /\
  (forall lam H n, (0 < lam)%R -> (0 < H)%R -> (0 < n)%nat ->
    ((lam ^ 4 * H / 24) * (H / INR n) ^ 3
      = 8 * ((lam ^ 4 * H / 24) * (H / INR (2 * n)) ^ 3))%R).
Proof.
  exact (conj RealOrder.E3_remainder (conj RealOrder.product_third_order_max RealOrder.bound_ratio)).
Qed.

Goal True. idtac "THEOREM C05_third_order_real_partial". Abort. Print Assumptions C05_third_order_real_partial.

(* THE SAME FOR COMPLEX lam (wind present), no smallness condition: the model's shooting solution
   on height-independent layers (instance ROps = Coquelicot's C, for which Laws is proved) versus
   exactly the expressions of the analytic branch, at every node k of ANY grid with layer
   thicknesses 0 <= dz_j <= dmax: |Q_k - Qa| <= |qh| e^B B and |P_k - Pa| <= |qh| e^B B / |Kz lam|
   with B = |lam|^4/24 * h_k * dmax^3  (h_k the height of node k; Re lam >= 0 is
   ROps_eigval_decays).  Sharp local constant: |exp z - E3 z| <= |z|^4/24 for Re z <= 0. *)
From BL Require Proofs.ComplexOrder.
From BL Require Import Base.ROps.
Theorem C05_third_order : forall (Kx Ky u v Kz lx ly qh : Coquelicot.Complex.C) (dzs : list R) (dmax : R),
  (forall d, In d dzs -> (0 <= d <= dmax)%R) ->
  let lam := eigval ROps Kx Ky u v Kz lx ly in
  let layers := const_layers ROps Kx Ky u v Kz (map Coquelicot.Complex.RtoC dzs) in
  let y1 := final ROps lx ly layers (Coquelicot.Complex.RtoC 1, Coquelicot.Complex.RtoC 0) in
  let y2 := final ROps lx ly layers (Coquelicot.Complex.RtoC 0, qh) in
  Kz <> Coquelicot.Complex.RtoC 0 -> lam <> Coquelicot.Complex.RtoC 0 ->
  Coquelicot.Complex.Cminus (snd y1) (Coquelicot.Complex.Cmult (Coquelicot.Complex.Cmult Kz lam) (fst y1)) <> Coquelicot.Complex.RtoC 0 ->
  let al := alpha ROps Kz lam (fst y1) (snd y1) (fst y2) (snd y2) in
  forall k, (k <= length dzs)%nat ->
  let h := ComplexOrder.height dzs k in
  let Qa := Coquelicot.Complex.Cmult qh (Cexp (Coquelicot.Complex.Cmult (Coquelicot.Complex.Copp lam) (Coquelicot.Complex.RtoC h))) in
  let Pa := Coquelicot.Complex.Cdiv (Coquelicot.Complex.Cmult Qa (Coquelicot.Complex.Cdiv (Coquelicot.Complex.RtoC 1) Kz)) lam in
  let B := (Coquelicot.Complex.Cmod lam ^ 4 / 24 * h * dmax ^ 3)%R in
  (Coquelicot.Complex.Cmod (Coquelicot.Complex.Cminus (snd (shoot_traj ROps lx ly layers al qh k)) Qa)
     <= Coquelicot.Complex.Cmod qh * (exp B * B))%R /\
  (Coquelicot.Complex.Cmod (Coquelicot.Complex.Cminus (fst (shoot_traj ROps lx ly layers al qh k)) Pa)
     <= Coquelicot.Complex.Cmod qh * (exp B * B) / Coquelicot.Complex.Cmod (Coquelicot.Complex.Cmult Kz lam))%R.
Proof. exact ComplexOrder.shoot_minus_analytic_complex. Qed.

(* uniform grid dz = H/n: error at the top <= C/n^3 with C independent of n, ratio exactly 8 on
   halving, and convergence to the analytic value as n -> infinity *)
Theorem C05_third_order_uniform :
  (forall (Kx Ky u v Kz lx ly qh : Coquelicot.Complex.C) (H : R) (n : nat),
    (0 <= H)%R -> (1 <= n)%nat ->
    let lam := eigval ROps Kx Ky u v Kz lx ly in
    let dzs := repeat (H / INR n)%R n in
    let B1 := (Coquelicot.Complex.Cmod lam ^ 4 * H ^ 4 / 24)%R in
    (Coquelicot.Complex.Cmod (Coquelicot.Complex.Cminus
        (Coquelicot.Complex.Cmult qh (prodE3 ROps lam (map Coquelicot.Complex.RtoC dzs) n))
        (Coquelicot.Complex.Cmult qh (Cexp (Coquelicot.Complex.Copp (Coquelicot.Complex.Cmult lam (Coquelicot.Complex.RtoC H))))))
     <= Coquelicot.Complex.Cmod qh * (exp B1 * B1) / INR n ^ 3)%R) /\
  (forall (c : R) (n : nat), (1 <= n)%nat -> (c / INR n ^ 3 = 8 * (c / INR (2 * n) ^ 3))%R) /\
  (forall (Kx Ky u v Kz lx ly qh : Coquelicot.Complex.C) (H : R), (0 <= H)%R ->
    let lam := eigval ROps Kx Ky u v Kz lx ly in
    Coquelicot.Lim_seq.is_lim_seq (fun n => Coquelicot.Complex.Cmod (Coquelicot.Complex.Cminus
        (Coquelicot.Complex.Cmult qh (prodE3 ROps lam (map Coquelicot.Complex.RtoC (repeat (H / INR (S n))%R (S n))) (S n)))
        (Coquelicot.Complex.Cmult qh (Cexp (Coquelicot.Complex.Copp (Coquelicot.Complex.Cmult lam (Coquelicot.Complex.RtoC H))))))) (Coquelicot.Rbar.Finite 0)).
Proof.
  exact (conj ComplexOrder.uniform_grid_third_order_complex
        (conj ComplexOrder.uniform_bound_ratio ComplexOrder.uniform_grid_converges_complex)).
Qed.

Goal True. idtac "THEOREM C05_third_order". Abort. Print Assumptions C05_third_order.
Goal True. idtac "THEOREM C05_third_order_uniform". Abort. Print Assumptions C05_third_order_uniform.
