(* C13 — the config-driven single run equals the explicit wind -> profiles -> source -> solver pipeline.
   Statements about Model/Interface.v, for every configuration, tower, time index, optional user flux and
   optional cache, over arbitrary token types.  This file contains only statements, `exact`, Examples and
   Print Assumptions. *)
From Coq Require Import List Arith Bool String.
From BL Require Import Model.Met Proofs.MetProofs Model.Interface Proofs.InterfaceProofs.
Import ListNotations.
Open Scope string_scope.
Open Scope list_scope.

(* which numbers reach which call, for every valid configuration and every index in range:
   - compute_wind_fields gets that step's speed and direction (entry i of a list, the scalar otherwise);
   - vertical_profiles gets n = nz, the tower's z_m, the two values returned by that wind call, that step's
     mol, the configured closure, and: z0 given => z0 and NO ustar, else that step's ustar (forcing_rule);
   - the source is the supplied array, else ideal_source((nx, ny), (xmax, ymax), src_loc, shape);
   - the solver gets that source, the (z, profiles) returned by that profile call, domain, the levels rule
     (non-empty output_levels, else full_output => range(nz+1), else nz), modes, meas_pt = (tower.x, tower.y),
     footprint, analytic, halo, precision, cache: each the configured one;
   - labels: tower name, tower xy, entry i of the timestamps (else the index), params = the step. *)
Theorem C13_plumb : forall (A T F K : Type) (cfg : config A T) (tw : tower A) (i : nat)
    (flux : option F) (cache : option K),
  validate (c_met cfg) = true -> i < n_timesteps (c_met cfg) ->
  exists (s : step A T) (cr : call_record A T F K),
    get_step (c_met cfg) i = Some s /\ plumb_c cfg tw i flux cache = Some cr /\
    field_at (m_wind_speed (c_met cfg)) i (w_speed (cr_wind cr)) /\
    field_at (m_wind_dir (c_met cfg)) i (w_dir (cr_wind cr)) /\
    pc_n (cr_prof cr) = d_nz (c_domain cfg) /\
    pc_meas_height (cr_prof cr) = t_zm tw /\
    pc_wind (cr_prof cr) = (WindU (cr_wind cr), WindV (cr_wind cr)) /\
    field_at (m_mol (c_met cfg)) i (pc_mol (cr_prof cr)) /\
    pc_closure (cr_prof cr) = sv_closure (c_solver cfg) /\
    forcing_rule (c_met cfg) i (pc_ustar (cr_prof cr)) (pc_z0 (cr_prof cr)) /\
    cr_source cr = match flux with
                   | Some f => Supplied f
                   | None => Ideal (d_nx (c_domain cfg), d_ny (c_domain cfg))
                                   (d_xmax (c_domain cfg), d_ymax (c_domain cfg))
                                   (sv_src_loc (c_solver cfg)) (sv_shape (c_solver cfg))
                   end /\
    sc_srf_flx (cr_solver cr) = cr_source cr /\
    sc_zprof (cr_solver cr) = cr_prof cr /\
    sc_domain (cr_solver cr) = (d_xmax (c_domain cfg), d_ymax (c_domain cfg)) /\
    sc_levels (cr_solver cr) =
      match d_output_levels (c_domain cfg) with
      | Some (x :: r) => LvList (x :: r)
      | _ => if d_full_output (c_domain cfg) then LvList (seq 0 (S (d_nz (c_domain cfg))))
             else LvScalar (d_nz (c_domain cfg))
      end /\
    sc_modes (cr_solver cr) = d_modes (c_domain cfg) /\
    sc_meas_pt (cr_solver cr) = (t_x tw, t_y tw) /\
    sc_footprint (cr_solver cr) = sv_footprint (c_solver cfg) /\
    sc_analytic (cr_solver cr) = sv_analytic (c_solver cfg) /\
    sc_halo (cr_solver cr) = d_halo (c_domain cfg) /\
    sc_precision (cr_solver cr) = sv_precision (c_solver cfg) /\
    sc_cache (cr_solver cr) = cache /\
    l_tower_name (cr_labels cr) = t_name tw /\
    l_tower_xy (cr_labels cr) = (t_x tw, t_y tw) /\
    stamp_rule (c_met cfg) i (l_timestamp (cr_labels cr)) /\
    l_params (cr_labels cr) = s.
Proof. exact (@plumb_spec). Qed.

(* the definitions the statement above uses, spelled out *)
Theorem C13_rules : forall (A T : Type) (m : met A T) (i : nat),
  (forall ustar z0, forcing_rule m i ustar z0 <->
     match m_z0 m with
     | Some z => z0 = Some z /\ ustar = None
     | None => z0 = None /\ exists f a, m_ustar m = Some f /\ field_at f i a /\ ustar = Some a
     end) /\
  (forall st, stamp_rule m i st <->
     match m_timestamps m with
     | None => st = Index i
     | Some ts => exists t, nth_error ts i = Some t /\ st = Stamp t
     end).
Proof. exact (@rules_spec). Qed.

(* the value of the run is the solver applied to the by-hand pipeline with exactly the selected numbers.
   In the model this holds by construction (run_single is defined through plumb_c).  That the Python
   function makes exactly these calls and returns the solver's arrays untouched is the content of the
   correspondence (recorded arguments + bit-equal result arrays), not of this theorem. *)
Theorem C13_run_is_pipeline : forall (A T F K G : Type) (solve : solver_call A F K -> G)
    (cfg : config A T) (tw : tower A) (i : nat) (flux : option F) (cache : option K),
  validate (c_met cfg) = true -> i < n_timesteps (c_met cfg) ->
  exists (s : step A T) speed dir mol ustar z0 st,
    get_step (c_met cfg) i = Some s /\
    field_at (m_wind_speed (c_met cfg)) i speed /\
    field_at (m_wind_dir (c_met cfg)) i dir /\
    field_at (m_mol (c_met cfg)) i mol /\
    forcing_rule (c_met cfg) i ustar z0 /\
    stamp_rule (c_met cfg) i st /\
    run_single solve cfg tw i flux cache =
      Some (mkResult
        (by_hand solve speed dir (d_nz (c_domain cfg)) (t_zm tw) ustar z0 mol (sv_closure (c_solver cfg))
                 (source_rule cfg flux) (d_xmax (c_domain cfg), d_ymax (c_domain cfg))
                 (levels_rule (c_domain cfg)) (d_modes (c_domain cfg)) (t_x tw, t_y tw)
                 (sv_footprint (c_solver cfg)) (sv_analytic (c_solver cfg)) (d_halo (c_domain cfg))
                 (sv_precision (c_solver cfg)) cache)
        (mkLabels (t_name tw) (t_x tw, t_y tw) st s)).
Proof. exact (@run_is_pipeline). Qed.

(* parse_config_dict on an accepted dictionary: the mandatory sections are there and parsed section-wise,
   the met section passed MetConfig.validate, towers are placed with the domain's reference point, omitted
   (absent or null) optional sections give the default objects *)
Theorem C13_parse_defaults : forall (A : Type) (D : defaults A) (to_float : A -> A)
    (geo_x geo_y : A -> A -> A -> A -> A) (zero : A) (r : raw A) (cfg : config A A),
  parse D to_float geo_x geo_y zero r = Parsed cfg ->
  (exists dd, lookup r "domain" = Some (RSection dd) /\ parse_domain D to_float dd = Parsed (c_domain cfg)) /\
  (exists md, lookup r "met" = Some (RSection md) /\ parse_met D md = Parsed (c_met cfg)) /\
  validate (c_met cfg) = true /\
  (exists tl tws, lookup r "towers" = Some (RTowers tl) /\ parse_towers zero tl = Parsed tws /\
                  c_towers cfg = map (place geo_x geo_y (c_domain cfg)) tws) /\
  parse_solver D (section_of r "solver") = Parsed (c_solver cfg) /\
  parse_output D (section_of r "output") = Parsed (c_output cfg) /\
  parse_parallel D (section_of r "parallel") = Parsed (c_parallel cfg) /\
  (section_absent r "solver" -> c_solver cfg = default_solver D) /\
  (section_absent r "output" -> c_output cfg = default_output D) /\
  (section_absent r "parallel" -> c_parallel cfg = default_parallel D).
Proof. exact (@parse_spec). Qed.

(* key by key: a field is the value under its key; the default exactly when the key is absent (key_atom,
   key_bool, key_seq, key_fld); None when absent or null (key_opt); mandatory keys are present (key_req);
   xmax / ymax go through float() *)
Theorem C13_parse_keys : forall (A : Type) (D : defaults A) (to_float : A -> A) (zero : A),
  (forall d dom, parse_domain D to_float d = Parsed dom ->
     key_req d "nx" (SAtom (d_nx dom)) /\ key_req d "ny" (SAtom (d_ny dom)) /\
     (exists x, key_req d "xmax" (SAtom x) /\ d_xmax dom = to_float x) /\
     (exists y, key_req d "ymax" (SAtom y) /\ d_ymax dom = to_float y) /\
     key_req d "nz" (SNat (d_nz dom)) /\
     key_seq d "modes" (df_modes D) (d_modes dom) /\
     key_opt SAtom d "halo" (d_halo dom) /\
     key_opt SAtom d "ref_lat" (d_ref_lat dom) /\ key_opt SAtom d "ref_lon" (d_ref_lon dom) /\
     key_opt (@SNats A) d "output_levels" (d_output_levels dom) /\
     key_bool d "full_output" (df_full_output D) (d_full_output dom)) /\
  (forall d m, parse_met D d = Parsed m ->
     key_optfld d "ustar" (m_ustar m) /\
     key_fld d "mol" (df_mol D) (m_mol m) /\
     key_fld d "wind_speed" (df_wind_speed D) (m_wind_speed m) /\
     key_fld d "wind_dir" (df_wind_dir D) (m_wind_dir m) /\
     key_opt SAtom d "z0" (m_z0 m) /\
     key_opt SSeq d "timestamps" (m_timestamps m)) /\
  (forall d s, parse_solver D (Some d) = Parsed s ->
     key_atom d "closure" (df_closure D) (sv_closure s) /\
     key_atom d "precision" (df_precision D) (sv_precision s) /\
     key_bool d "footprint" (df_footprint D) (sv_footprint s) /\
     key_atom d "surface_flux_shape" (df_shape D) (sv_shape s) /\
     key_bool d "analytic" (df_analytic D) (sv_analytic s) /\
     key_opt SSeq d "src_loc" (sv_src_loc s)) /\
  (forall d p, parse_parallel D (Some d) = Parsed p ->
     key_atom d "num_threads" (df_num_threads D) (pl_num_threads p) /\
     key_atom d "max_workers" (df_max_workers D) (pl_max_workers p) /\
     key_bool d "use_cache" (df_use_cache D) (pl_use_cache p)) /\
  (forall d o, parse_output D (Some d) = Parsed o ->
     key_atom d "format" (df_format D) (o_format o) /\ key_atom d "directory" (df_directory D) (o_directory o)) /\
  (forall d t, parse_tower zero d = Parsed t ->
     key_req d "name" (SAtom (t_name t)) /\ key_req d "lat" (SAtom (t_lat t)) /\
     key_req d "lon" (SAtom (t_lon t)) /\ key_req d "z_m" (SAtom (t_zm t)) /\ t_x t = zero /\ t_y t = zero).
Proof. exact (@parse_keys_spec). Qed.

(* missing mandatory sections raise; nothing that MetConfig.validate rejects is returned *)
Theorem C13_parse_raises : forall (A : Type) (D : defaults A) (to_float : A -> A)
    (geo_x geo_y : A -> A -> A -> A -> A) (zero : A) (r : raw A),
  (lookup r "domain" = None \/ lookup r "towers" = None \/ lookup r "met" = None ->
     parse D to_float geo_x geo_y zero r = Raises) /\
  (forall cfg, parse D to_float geo_x geo_y zero r = Parsed cfg -> validate (c_met cfg) = true).
Proof. exact (@parse_raises). Qed.

(* load_config = parse_config_dict o yaml.safe_load, by construction; the YAML library (what dictionary a
   file denotes) is the Section variable yaml_load and is trusted; file-vs-dictionary equality on the real
   code is checked by the correspondence *)
Theorem C13_yaml_dict : forall (A : Type) (D : defaults A) (to_float : A -> A)
    (geo_x geo_y : A -> A -> A -> A -> A) (zero : A) (P : Type) (yaml_load : P -> option (raw A)) (p : P),
  (forall r, yaml_load p = Some r ->
     load D to_float geo_x geo_y zero yaml_load p = parse D to_float geo_x geo_y zero r) /\
  (yaml_load p = None -> load D to_float geo_x geo_y zero yaml_load p = Raises).
Proof. exact (@load_is_parse). Qed.

(* ---- non-vacuity ---- *)

(* list forcing with timestamps, z0 AND ustar given (z0 wins), full_output, user flux, two towers *)
Example C13_nonvacuous_plumb :
  let m := @mkMet nat nat (Some (Lst [31; 32; 33])) (Scalar 40) (Lst [51; 52; 53]) (Lst [61; 62; 63])
                  (Some 70) (Some [81; 82; 83]) in
  let dom := @mkDomain nat 6 8 60 80 3 [4; 6] (Some 20) None None (Some []) true in
  let tw := @mkTower nat 100 101 102 103 104 105 in
  let cfg := mkConfig dom [mkTower 90 91 92 93 94 95; tw] m (mkSolverCfg 200 201 true 202 false None)
                      (mkOutputCfg 0 0) (mkParallelCfg 0 0 false) in
  validate (c_met cfg) = true /\ 2 < n_timesteps (c_met cfg) /\
  option_map (fun cr => (cr_wind cr, pc_ustar (cr_prof cr), pc_z0 (cr_prof cr), pc_meas_height (cr_prof cr),
                         sc_levels (cr_solver cr), sc_meas_pt (cr_solver cr), cr_source cr,
                         l_timestamp (cr_labels cr)))
             (@plumb_c nat nat nat nat cfg tw 2 (Some 777) (Some 888)) =
  Some (mkWind 53 63, None, Some 70, 103, LvList [0; 1; 2; 3], (104, 105), Supplied 777, Stamp 83).
Proof. vm_compute. repeat split; reflexivity. Qed.

(* ustar forcing, explicit output levels, ideal source *)
Example C13_nonvacuous_plumb_ustar :
  let m := @mkMet nat nat (Some (Lst [31; 32])) (Lst [41; 42]) (Scalar 50) (Scalar 60) None None in
  let dom := @mkDomain nat 6 8 60 80 3 [4; 6] None None None (Some [2; 1]) true in
  let tw := @mkTower nat 100 101 102 103 104 105 in
  let cfg := mkConfig dom [tw] m (mkSolverCfg 200 201 false 202 true (Some [7; 9]))
                      (mkOutputCfg 0 0) (mkParallelCfg 0 0 false) in
  validate (c_met cfg) = true /\ 1 < n_timesteps (c_met cfg) /\
  option_map (fun cr => (pc_ustar (cr_prof cr), pc_z0 (cr_prof cr), pc_mol (cr_prof cr),
                         sc_levels (cr_solver cr), cr_source cr, l_timestamp (cr_labels cr), sc_cache (cr_solver cr)))
             (@plumb nat nat nat nat cfg tw 1 None) =
  Some (Some 32, None, 42, LvList [2; 1], Ideal (6, 8) (60, 80) (Some [7; 9]) 202, Index 1, None).
Proof. vm_compute. repeat split; reflexivity. Qed.

(* a dictionary with the optional sections omitted / null parses, with defaults and placed towers *)
Example C13_nonvacuous_parse :
  let D := @mkDefaults nat [512; 512] 1000 5 270 1 2 3 4 5 6 7 false false false false in
  let r : raw nat :=
    [("domain", RSection [("nx", SAtom 6); ("ny", SAtom 8); ("xmax", SAtom 60); ("ymax", SAtom 80);
                          ("nz", SNat 3); ("ref_lat", SAtom 11); ("ref_lon", SAtom 12)]);
     ("towers", RTowers [[("name", SAtom 20); ("lat", SAtom 21); ("lon", SAtom 22); ("z_m", SAtom 23)]]);
     ("met", RSection [("z0", SAtom 30); ("wind_dir", SSeq [31; 32])]);
     ("solver", RNull)] in
  exists cfg, parse D (fun x => x + 500) (fun a b c d => a + c) (fun a b c d => b + d) 0 r = Parsed cfg /\
    c_solver cfg = default_solver D /\ d_modes (c_domain cfg) = [512; 512] /\ d_xmax (c_domain cfg) = 560 /\
    m_mol (c_met cfg) = Scalar 1000 /\ n_timesteps (c_met cfg) = 2 /\
    map (fun t => (t_x t, t_y t)) (c_towers cfg) = [(32, 34)].
Proof. eexists. vm_compute. repeat split; reflexivity. Qed.

Example C13_parse_rejects :
  let D := @mkDefaults nat [512; 512] 1000 5 270 1 2 3 4 5 6 7 false false false false in
  parse D (fun x => x) (fun a b c d => a) (fun a b c d => b) 0
        [("domain", RSection []); ("towers", RTowers [])] = Raises.
Proof. vm_compute. reflexivity. Qed.

Goal True. idtac "THEOREM C13_plumb". Abort. Print Assumptions C13_plumb.
Goal True. idtac "THEOREM C13_rules". Abort. Print Assumptions C13_rules.
Goal True. idtac "THEOREM C13_run_is_pipeline". Abort. Print Assumptions C13_run_is_pipeline.
Goal True. idtac "THEOREM C13_parse_defaults". Abort. Print Assumptions C13_parse_defaults.
Goal True. idtac "THEOREM C13_parse_keys". Abort. Print Assumptions C13_parse_keys.
Goal True. idtac "THEOREM C13_parse_raises". Abort. Print Assumptions C13_parse_raises.
Goal True. idtac "THEOREM C13_yaml_dict". Abort. Print Assumptions C13_yaml_dict.
