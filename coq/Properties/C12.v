(* C12 — A solve is a pure function: history, threads and precision do not matter.
   Statements about Model/Runtime.v (the process-global state a solve touches) and about the only
   consumer of `precision` in Model/Solver.v.  This file contains only statements, `exact`,
   non-vacuity Examples and Print Assumptions.

   The two equalities  `kernel par n = kernel false 1`  and  `fft t = fft 1`  below are ORACLE
   HYPOTHESES: they say that numba's two compiled variants of ivp_solver and FFTW's threaded
   transforms compute the same function as their serial, one-thread versions.  These are facts about
   numba code generation, thread schedules and FFTW planning that no model of bldfm can establish;
   they are exercised (bit for bit) by the history correspondence of harness/props/c12.py, not proved. *)
From Coq Require Import List Arith Bool ZArith PrimFloat.
From BL Require Import Base.Ops Base.FloatOps Model.Solver Model.SolverExec Model.Runtime
                       Proofs.RuntimeProofs Proofs.PrecisionProofs Proofs.C12Examples.
Import ListNotations.
Close Scope float_scope.

(* For EVERY op sequence (thread changes, manager resets, solves of any arguments, calls that raise) started in EVERY
   state - reachable or not - each `Solve a` returns exactly what the same call returns in a fresh
   single-threaded process; under both oracle hypotheses. *)
Theorem C12_history_independent :
  forall (A src kout mid fld : Type)
         (flat : A -> src) (fft_src : nat -> A -> src) (closed : A -> src -> mid)
         (kernel : bool -> nat -> A -> src -> bool -> kout) (combine : A -> src -> kout -> kout -> mid)
         (fft_out : nat -> A -> mid -> bool -> fld),
  (forall (par : bool) (n : nat) x q b, kernel par n x q b = kernel false 1 x q b) ->
  (forall t x, fft_src t x = fft_src 1 x) ->
  (forall t x m b, fft_out t x m b = fft_out 1 x m b) ->
  forall (ops : list (op A)) (s : state),
    snd (Runtime.run A src kout mid fld flat fft_src closed kernel combine fft_out ops s)
    = map (expected A src kout mid fld flat fft_src closed kernel combine fft_out) ops.
Proof. exact history_independent_explicit. Qed.

(* From every state REACHABLE from a fresh interpreter (any environment thread counts, any earlier
   ops) the FFT oracle is not needed: the machine itself guarantees that every transform runs on a
   one-thread manager (module-level fft2/ifft2 ask for one thread).  Only the kernel oracle remains. *)
Theorem C12_history_independent_reachable :
  forall (A src kout mid fld : Type)
         (flat : A -> src) (fft_src : nat -> A -> src) (closed : A -> src -> mid)
         (kernel : bool -> nat -> A -> src -> bool -> kout) (combine : A -> src -> kout -> kout -> mid)
         (fft_out : nat -> A -> mid -> bool -> fld),
  (forall (par : bool) (n : nat) x q b, kernel par n x q b = kernel false 1 x q b) ->
  forall (numba0 pyfftw0 : nat) (before ops : list (op A)),
    snd (Runtime.run A src kout mid fld flat fft_src closed kernel combine fft_out ops
           (exec A before (init numba0 pyfftw0)))
    = map (expected A src kout mid fld flat fft_src closed kernel combine fft_out) ops.
Proof. exact history_independent_reachable. Qed.

(* Bookkeeping invariants after ANY op sequence from a fresh interpreter. *)
Theorem C12_bookkeeping :
  forall (A : Type) (numba0 pyfftw0 : nat) (before : list (op A)),
  let s := exec A before (init numba0 pyfftw0) in
  (forall t, mgr s = Some t -> pyfftw_threads s = t) /\
  NoDup (compiled s) /\
  (forall more : list (op A), exists l, compiled (exec A more s) = compiled s ++ l) /\
  (forall fp an : bool,
     let par := (1 <? cfg_threads s)%nat in
     let k := if an then None else Some (par, if par then cfg_threads s else numba_threads s) in
     run_solve fp an s
     = (after_solve fp an s, mkUsage (if fp then None else Some 1) k k 1 1) /\
     mgr (after_solve fp an s) = Some 1 /\
     pyfftw_threads (after_solve fp an s) = 1 /\
     cfg_threads (after_solve fp an s) = cfg_threads s /\
     numba_threads (after_solve fp an s) = (if an then numba_threads s else if par then cfg_threads s else numba_threads s) /\
     (an = false -> In par (compiled (after_solve fp an s))) /\
     mgr_creations (after_solve fp an s) = mgr_creations s + solve_creations fp an s /\
     (mgr s = Some 1 -> solve_creations fp an s = if an then 0 else if par then 2 else 0)) /\
  (forall more : list (op A),
     Forall (fun u => (forall t, u_pre u = Some t -> t = 1) /\ u_post_p u = 1 /\ u_post_q u = 1 /\ u_k1 u = u_k2 u)
            (usages A more s)) /\
  (forall a : sargs A,
     step_state A (Solve A a) s =
     match s_outcome A a with
     | RaisesBefore => s
     | RaisesAfterSource => if s_footprint A a then s else get_fft_manager 1 s
     | RaisesAtEnd | Returns => after_solve (s_footprint A a) (s_analytic A a) s
     end).
Proof. exact bookkeeping. Qed.

(* In Model/Solver.v precision is read by the storage rounding and by nothing else: with an identity
   rounding both precisions give the same result (fields, coordinates, shape, error outcome), for
   every Ops (no field laws needed) and every request. *)
Theorem C12_precision_is_storage_only :
  forall (O : Ops), (forall x : C O, cround O x = x) ->
  forall (a : args O) (b1 b2 : bool), solve O (with_single O a b1) = solve O (with_single O a b2).
Proof. exact precision_is_storage_only. Qed.

(* ------------------------------------------------------------------ non-vacuity *)

(* a concrete instance of the numerics (Proofs/C12Examples.v) satisfies both oracle hypotheses; on a
   history with thread changes 1 -> 4 -> 1 -> 8, two manager resets, dispersion/footprint/analytic
   solves and two raising calls the theorem's conclusion is checked by computation *)
Example C12_nonvacuous_history :
  (forall (par : bool) (n : nat) x q b, ex_kernel par n x q b = ex_kernel false 1 x q b) /\
  (forall t x, ex_fft_src t x = ex_fft_src 1 x) /\
  (forall t x m b, ex_fft_out t x m b = ex_fft_out 1 x m b) /\
  snd (Runtime.run nat nat nat nat nat ex_flat ex_fft_src ex_closed ex_kernel ex_combine ex_fft_out
         ex_history (init 16 1))
  = map (expected nat nat nat nat nat ex_flat ex_fft_src ex_closed ex_kernel ex_combine ex_fft_out) ex_history /\
  (* the state did change along the way: 8 manager creations, both variants compiled, numba left at 8 *)
  exec nat ex_history (init 16 1) = mkState 8 8 (Some 1) 1 [false; true] 8.
Proof. repeat split. Qed.

(* the kernel oracle is NEEDED: with a kernel whose parallel variant differs, the same call returns
   something else after config.NUM_THREADS was raised *)
Example C12_kernel_oracle_needed :
  let ops := [SetThreads nat 4; Solve nat (mkSargs nat 3 false false Returns)] in
  snd (Runtime.run nat nat nat nat nat ex_flat ex_fft_src ex_closed bad_kernel ex_combine ex_fft_out ops (init 16 1))
  <> map (expected nat nat nat nat nat ex_flat ex_fft_src ex_closed bad_kernel ex_combine ex_fft_out) ops.
Proof. vm_compute. discriminate. Qed.

(* the FFT oracle is needed only OUTSIDE the reachable states: a state whose manager claims one thread
   while pyfftw is set to 4 feeds 4 into the transforms *)
Example C12_fft_oracle_needed_only_unreachable :
  let ops := [Solve nat (mkSargs nat 3 false false Returns)] in
  snd (Runtime.run nat nat nat nat nat ex_flat bad_fft_src ex_closed ex_kernel ex_combine ex_fft_out ops
         (mkState 1 16 (Some 1) 4 [] 1))
  <> map (expected nat nat nat nat nat ex_flat bad_fft_src ex_closed ex_kernel ex_combine ex_fft_out) ops.
Proof. vm_compute. discriminate. Qed.

(* an Ops with identity storage rounding exists (doubles with cround := id) ... *)
Example C12_identity_rounding_exists : forall x : C IdRoundOps, cround IdRoundOps x = x.
Proof. reflexivity. Qed.

(* ... and the flag is NOT dead: with float32 storage rounding the two precisions differ on a small
   request (flux cell [0][0][0] of a 2x2 source, two layers) *)
Example C12_precision_flag_is_read :
  solve FloatOps (with_single FloatOps (ex_args false) true)
  <> solve FloatOps (with_single FloatOps (ex_args false) false).
Proof. exact precision_flag_is_read. Qed.

Goal True. idtac "THEOREM C12_history_independent". Abort. Print Assumptions C12_history_independent.
Goal True. idtac "THEOREM C12_history_independent_reachable". Abort. Print Assumptions C12_history_independent_reachable.
Goal True. idtac "THEOREM C12_bookkeeping". Abort. Print Assumptions C12_bookkeeping.
Goal True. idtac "THEOREM C12_precision_is_storage_only". Abort. Print Assumptions C12_precision_is_storage_only.
