(* C06 — horizontal translation equivariance of sources, towers and centring, on the periodic
   domain (no halo cells cropped: px = py = 0; a halo is observed through explicit padding).
   Only statements, `exact`, Print Assumptions. *)
From Coq Require Import ZArith List Bool.
From BL Require Import Base.Ops Base.Laws Model.Solver Proofs.SpecProofs Proofs.C04Proofs Proofs.C02Proofs Proofs.C06Proofs Proofs.C06Reflect.
Import ListNotations.

(* rolling the surface-flux field by (rx, ry) whole cells (any integers: wrap-around included)
   rolls concentration and flux by the same cells — dispersion mode, every level, numerical and
   analytic, double-precision storage *)
Theorem C06_source_shift : forall (O : Ops), Laws O ->
  forall (a : args O) (g : geom O) (q q' : list (list (C O))) (p : C O) (rx ry : Z),
  wf O (with_src O a q p) -> wf O (with_src O a q' p) -> same_shape O q' q ->
  a_footprint O a = false -> a_single O a = false ->
  geometry O (with_src O a q p) = inl g -> g_px O g = 0%nat -> g_py O g = 0%nat ->
  g_nx O g <> 0%nat -> g_ny O g <> 0%nat ->
  (forall j i, (j < g_ny O g)%nat -> (i < g_nx O g)%nat ->
     cellq O q' j i = cellq O q (cyc (g_ny O g) j (- ry)) (cyc (g_nx O g) i (- rx))) ->
  forall sel k j i,
  (forall pq s, sel (cmul O (fst pq) s, cmul O (snd pq) s) = cmul O (sel pq) s) ->
  (forall x s, sel (cmul O (fst x) s, cmul O (snd x) s) = cmul O (sel x) s) ->
  (k < length (a_levels O a))%nat -> (j < g_ny O g)%nat -> (i < g_nx O g)%nat ->
  (sel = fst \/ sel = snd) ->
  get3 O (field O (with_src O a q' p) g sel (table O (with_src O a q' p) g)) k j i
  = get3 O (field O (with_src O a q p) g sel (table O (with_src O a q p) g)) k
         (cyc (g_ny O g) j (- ry)) (cyc (g_nx O g) i (- rx)).
Proof. exact source_roll. Qed.

(* moving an on-grid measurement point by (rx, ry) whole cells rolls the footprint (and the
   concentration Green's function) by the same cells *)
Theorem C06_tower_shift : forall (O : Ops), Laws O ->
  forall (a : args O) (g : geom O) (rx ry : Z) sel k i j,
  (forall pq s, sel (cmul O (fst pq) s, cmul O (snd pq) s) = cmul O (sel pq) s) ->
  a_footprint O a = true ->
  geometry O a = inl g -> g_px O g = 0%nat -> g_py O g = 0%nat ->
  g_nx O g <> 0%nat -> g_ny O g <> 0%nat -> g_dx O g <> c0 O -> g_dy O g <> c0 O ->
  (k < length (a_levels O a))%nat -> (j < g_ny O g)%nat -> (i < g_nx O g)%nat ->
  let a' := with_meas O a (cadd O (a_xm O a) (cmul O (cofZ O rx) (g_dx O g)))
                          (cadd O (a_ym O a) (cmul O (cofZ O ry) (g_dy O g))) in
  get3 O (field O a' g sel (table O a' g)) k j i
  = get3 O (field O a g sel (table O a g)) k (cyc (g_ny O g) j (- ry)) (cyc (g_nx O g) i (- rx)).
Proof. exact tower_shift. Qed.

(* dispersion mode, on-grid measurement point (im, jm) other than the origin, even nx and ny:
   the output is the unshifted field rolled so that the centre cell (ny/2, nx/2) carries the
   field value at the measurement point (take i = nx/2, j = ny/2: cyc gives (jm, im)) *)
Theorem C06_recentre : forall (O : Ops), Laws O ->
  forall (a : args O) (g : geom O) (im jm : nat) sel k i j,
  (forall pq s, sel (cmul O (fst pq) s, cmul O (snd pq) s) = cmul O (sel pq) s) ->
  a_footprint O a = false ->
  geometry O a = inl g -> g_px O g = 0%nat -> g_py O g = 0%nat ->
  g_nx O g <> 0%nat -> g_ny O g <> 0%nat -> g_dx O g <> c0 O -> g_dy O g <> c0 O ->
  Nat.even (g_nx O g) = true -> Nat.even (g_ny O g) = true ->
  a_xm O a = c0 O -> a_ym O a = c0 O ->
  let xm := cmul O (cofZ O (Z.of_nat im)) (g_dx O g) in let ym := cmul O (cofZ O (Z.of_nat jm)) (g_dy O g) in
  cltb O (c0 O) (cadd O (cmul O xm xm) (cmul O ym ym)) = true ->
  (k < length (a_levels O a))%nat -> (j < g_ny O g)%nat -> (i < g_nx O g)%nat ->
  let a' := with_meas O a xm ym in
  get3 O (field O a' g sel (table O a' g)) k j i
  = get3 O (field O a g sel (table O a g)) k
         (cyc (g_ny O g) j (Z.of_nat jm - Z.of_nat (g_ny O g / 2)))
         (cyc (g_nx O g) i (Z.of_nat im - Z.of_nat (g_nx O g / 2))).
Proof. exact recentre. Qed.

(* the centre cell really is the measurement point *)
Example C06_centre_index : forall n m : nat, (m < n)%nat -> Nat.even n = true ->
  cyc n (n / 2) (Z.of_nat m - Z.of_nat (n / 2)) = m.
Proof.
  intros n m Hm _. unfold cyc.
  replace (Z.of_nat (n / 2) + (Z.of_nat m - Z.of_nat (n / 2)))%Z with (Z.of_nat m) by ring.
  rewrite Z.mod_small by (split; [apply Nat2Z.is_nonneg|apply Nat2Z.inj_lt; exact Hm]).
  apply Nat2Z.id.
Qed.

(* point reflection (periodic domain, on-grid tower (im, jm), double storage): the footprint for the
   tower, read at cell (j, i), is the flux response to a UNIT SOURCE PLACED AT THE TOWER, read at the
   cell reflected about the tower, ((2 jm - j) mod ny, (2 im - i) mod nx); the concentration Green's
   function likewise, above background.  [reciprocity with a unit source at (j, i) + source roll] *)
Theorem C06_point_reflection : forall (O : Ops), Laws O ->
  forall (a : args O) (g : geom O) (im jm : nat) (p : C O),
  wf O a -> a_single O a = false ->
  geometry O (fp_req O a (cmul O (cofZ O (Z.of_nat im)) (g_dx O g)) (cmul O (cofZ O (Z.of_nat jm)) (g_dy O g))) = inl g ->
  g_px O g = 0%nat -> g_py O g = 0%nat -> g_dx O g <> c0 O -> g_dy O g <> c0 O ->
  g_nx O g <> 0%nat -> g_ny O g <> 0%nat -> (0 < g_nlx O g)%nat -> (0 < g_nly O g)%nat ->
  (im < g_nx O g)%nat -> (jm < g_ny O g)%nat ->
  forall k j i, (k < length (a_levels O a))%nat -> (j < g_ny O g)%nat -> (i < g_nx O g)%nat ->
  let afp := fp_req O a (cmul O (cofZ O (Z.of_nat im)) (g_dx O g)) (cmul O (cofZ O (Z.of_nat jm)) (g_dy O g)) in
  let afw := fw_req O (with_src O a (unit_src O (g_ny O g) (g_nx O g) jm im) p) p in
  let jr := cyc (g_ny O g) jm (- (Z.of_nat j - Z.of_nat jm)) in
  let ir := cyc (g_nx O g) im (- (Z.of_nat i - Z.of_nat im)) in
  (get3 O (field O afp g snd (table O afp g)) k j i = get3 O (field O afw g snd (table O afw g)) k jr ir)
  /\
  (get3 O (field O afp g fst (table O afp g)) k j i
   = csub O (get3 O (field O afw g fst (table O afw g)) k jr ir) (cre O p)).
Proof. exact point_reflection. Qed.

(* the reflected index is (2 m - x) mod n, and the unit source is one at the tower, zero elsewhere *)
Example C06_reflected_index : forall n m x : nat, (m < n)%nat -> (x < n)%nat ->
  Z.of_nat (cyc n m (- (Z.of_nat x - Z.of_nat m))) = ((2 * Z.of_nat m - Z.of_nat x) mod Z.of_nat n)%Z.
Proof.
  intros n m x Hm Hx. unfold cyc. rewrite Z2Nat.id.
  - f_equal. ring.
  - apply Z.mod_pos_bound. apply (Nat2Z.inj_lt 0). apply Nat.le_lt_trans with m; [apply Nat.le_0_l|exact Hm].
Qed.
Theorem C06_unit_source_cells : forall (O : Ops), Laws O -> forall ny nx j0 i0 j i, (j < ny)%nat -> (i < nx)%nat ->
  cellq O (unit_src O ny nx j0 i0) j i = if (Nat.eqb j j0 && Nat.eqb i i0)%bool then c1 O else c0 O.
Proof. exact unit_src_cell. Qed.

Goal True. idtac "THEOREM C06_source_shift". Abort. Print Assumptions C06_source_shift.
Goal True. idtac "THEOREM C06_tower_shift". Abort. Print Assumptions C06_tower_shift.
Goal True. idtac "THEOREM C06_recentre". Abort. Print Assumptions C06_recentre.
Goal True. idtac "THEOREM C06_point_reflection". Abort. Print Assumptions C06_point_reflection.
Goal True. idtac "THEOREM C06_unit_source_cells". Abort. Print Assumptions C06_unit_source_cells.
