(* C19 — Kormann-Meixner reference footprint = its published closed form (Kormann & Meixner 2001).
   Statements about Model/KM.v (the code as repaired by fix_C19_dtype.diff); Gamma is a Section variable of
   the model, assumed positive on positive arguments and nothing else.  "Published closed form":
     f^y(x) = xi^mu / (Gamma(mu) x^(1+mu)) exp(-xi/x)                        Eq. (21)
     D_y(x,y) = exp(-y^2/(2 sigma^2)) / (sqrt(2 pi) sigma),  sigma = sigma_v x / ubar(x)   Eq. (9), p. 212
     ubar(x) = Gamma(mu)/Gamma(1/r) (r^2 kappa/U)^(m/r) U x^(m/r)            Eq. (18)
   with m, n, U, kappa, r = 2+m-n, mu = (1+m)/r, xi = U zm^r/(r^2 kappa) from Eqs. (11), (19), (31)-(36).
   This file contains only statements, `exact` and Print Assumptions and depends on the standard library only;
   the theorems that need the interval tactic or Coquelicot (C19_int_refuted, C19_mass_partial, the non-vacuity
   example) are in Properties/C19Num.v. *)
From Coq Require Import Reals List ZArith Lra.
From Coq Require Import QArith Qreals Qround.
From BL Require Import Model.KM Model.KMExec Proofs.KMProofs Proofs.KMExecProofs.
Open Scope R_scope.

(* physical p :=  0 < zm, 0 < ws, 0 < ustar, 0 < sigma_v, L <> 0 *)

Theorem C19_closed_form : forall (Gamma : R -> R), (forall t, 0 < t -> 0 < Gamma t) ->
  forall (p : kmpar) (res x y : R), physical p -> 0 < U_of p -> 0 < x ->
  cell Gamma p res x y =
  res * res * fy Gamma (mu_of p) (Xi_of p) x
  * Dy (sigma_y (p_sv p) (ubar Gamma (mu_of p) (r_of p) (m_of p) (kappa_of p) (U_of p) x) x) y.
Proof. exact closed_form. Qed.

Theorem C19_nonneg : forall (Gamma : R -> R), (forall t, 0 < t -> 0 < Gamma t) ->
  forall (p : kmpar) (res x y : R), physical p -> 0 <= cell Gamma p res x y.
Proof. exact cell_nonneg. Qed.

(* cells at or behind the receptor in the wind-aligned frame are exactly zero (no hypothesis at all) ... *)
Theorem C19_downwind_zero : forall (Gamma : R -> R) (p : kmpar) (res x y : R),
  x <= 0 -> cell Gamma p res x y = 0.
Proof. exact cell_downwind_zero. Qed.

(* ... and only those *)
Theorem C19_upwind_positive : forall (Gamma : R -> R), (forall t, 0 < t -> 0 < Gamma t) ->
  forall (p : kmpar) (res x y : R), physical p -> 0 < U_of p -> res <> 0 -> 0 < x -> 0 < cell Gamma p res x y.
Proof. exact cell_upwind_pos. Qed.

Theorem C19_cross_symmetric : forall (Gamma : R -> R) (p : kmpar) (res x y : R),
  cell Gamma p res x (- y) = cell Gamma p res x y.
Proof. exact cell_cross_symmetric. Qed.

(* Rotation.  (1) the code's polar re-parametrisation (rho, arctan2 + deg2rad(wd) - pi/2) IS the rotation
   matrix taking grid offsets to (upwind, crosswind) coordinates, for every cell including the receptor
   cell itself; (2) changing wd to wd + d gives, at every point, the value the wd-footprint has at the
   point turned counter-clockwise by d about the receptor (the pattern turns clockwise with the wind);
   (3) wd = 90 is the wind-aligned grid (wd=None), period 360; (4) on an n x n grid centred on the
   receptor a quarter turn is exactly the array rotation F_{wd+90}[i][j] = F_wd[n-1-j][i] = np.rot90(F_wd, -1). *)
Theorem C19_rotation : forall (Gamma : R -> R) (p : kmpar) (res mx my wd : R),
  (forall gx gy, rot_x gx gy mx my wd = (gx - mx) * sin (rad wd) + (gy - my) * cos (rad wd) /\
                 rot_y gx gy mx my wd = - (gx - mx) * cos (rad wd) + (gy - my) * sin (rad wd)) /\
  (forall d gx gy, cell_wd Gamma p res mx my (wd + d) gx gy
                   = cell_wd Gamma p res mx my wd (turn_x mx my d gx gy) (turn_y mx my d gx gy)) /\
  (forall gx gy, cell_wd Gamma p res mx my 90 gx gy = cell_aligned Gamma p res mx my gx gy) /\
  (forall gx gy, cell_wd Gamma p res mx my (wd + 360) gx gy = cell_wd Gamma p res mx my wd gx gy) /\
  (forall n i j : nat, (i < n)%nat -> (j < n)%nat ->
     let h := INR n * res / 2 in
     cell_wd Gamma p res mx my (wd + 90) (grid_xc (mx - h) res j) (grid_yc (my + h) res i)
     = cell_wd Gamma p res mx my wd (grid_xc (mx - h) res i) (grid_yc (my + h) res (n - 1 - j))).
Proof.
  intros Gamma p res mx my wd.
  exact (conj (fun gx gy => conj (rot_x_matrix gx gy mx my wd) (rot_y_matrix gx gy mx my wd))
        (conj (fun d gx gy => cell_wd_rotation Gamma p res mx my wd d gx gy)
        (conj (cell_wd_90_is_aligned Gamma p res mx my)
        (conj (cell_wd_period Gamma p res mx my wd)
              (cell_wd_grid90 Gamma p res mx my wd))))).
Qed.

(* exact values for the four cardinal wind directions *)
Theorem C19_rotation_cardinal : forall gx gy mx my : R,
  (rot_x gx gy mx my 0 = gy - my /\ rot_y gx gy mx my 0 = - (gx - mx)) /\
  (rot_x gx gy mx my 90 = gx - mx /\ rot_y gx gy mx my 90 = gy - my) /\
  (rot_x gx gy mx my 180 = - (gy - my) /\ rot_y gx gy mx my 180 = gx - mx) /\
  (rot_x gx gy mx my 270 = - (gx - mx) /\ rot_y gx gy mx my 270 = - (gy - my)).
Proof.
  intros gx gy mx my.
  exact (conj (rot_0 gx gy mx my) (conj (rot_90 gx gy mx my) (conj (rot_180 gx gy mx my) (rot_270 gx gy mx my)))).
Qed.

(* the raw roughness length inverts the diabatic log law with the code's sign convention (+ psi_m), and fed
   back into estimateFootprint's U it reproduces the wind speed: U zm^m = ws *)
Theorem C19_z0_inverts_loglaw : forall zm L ws ustar : R, 0 < zm -> ustar <> 0 ->
  ustar / vk * (ln (zm / z0raw zm L ws ustar) + psiM zm L) = ws /\
  (forall m, Ucoef ustar zm (z0raw zm L ws ustar) (psiM zm L) m * Rpower zm m = ws) /\
  0 < z0raw zm L ws ustar.
Proof.
  intros zm L ws ustar Hz Hu.
  exact (conj (z0_inverts_loglaw zm L ws ustar Hz Hu)
        (conj (fun m => z0_feeds_U zm L ws ustar m Hz Hu) (z0raw_pos zm L ws ustar Hz))).
Qed.

(* membership in the smoothing window of bin kk depends only on (wd - kk) modulo 360, for half windows up
   to 89 degrees (default 22) *)
Theorem C19_window_circular : forall kk w wd : R, 0 <= kk < 360 -> 0 <= wd < 360 -> 0 <= w <= 89 ->
  (in_window kk w wd = true <-> exists j : Z, kk - w <= wd + 360 * IZR j < kk + 1 + w) /\
  (forall kk' wd' (j : Z), 0 <= kk' < 360 -> 0 <= wd' < 360 ->
     wd' - kk' = wd - kk + 360 * IZR j -> in_window kk' w wd' = in_window kk w wd).
Proof.
  intros kk w wd Hk Hd Hw.
  exact (conj (window_circular kk w wd Hk Hd Hw)
              (fun kk' wd' j Hk' Hd' He => window_shift kk w wd kk' wd' j Hk Hd Hk' Hd' Hw He)).
Qed.

(* for a half window above 89 degrees the code's window is not circular (observation; half_wd_win is not in
   the property's quantifier): bin 270, half window 89.5, wd = 0 *)
Theorem C19_window_wide_refuted :
  in_window 270 (179/2) 0 = false /\ (exists j : Z, 270 - 179/2 <= 0 + 360 * IZR j < 270 + 1 + 179/2).
Proof. exact window_wide_not_circular. Qed.

(* the smoothed estimate of every observation is unchanged when all wind directions are rotated by the same
   whole number of degrees (wrapped into [0, 360)); nanmedian is arbitrary *)
Theorem C19_z0_rotation_invariant : forall (nanmedian : list (option R) -> option R) (d : Z) (w : R)
    (zms Ls wss uss wds : list R) (i : nat),
  (0 <= d < 360)%Z -> 0 <= w <= 89 -> List.Forall (fun wd => 0 <= wd < 360) wds -> (i < length wds)%nat ->
  estimateZ0_obs nanmedian w zms Ls wss uss (map (rotdeg (IZR d)) wds) i
  = estimateZ0_obs nanmedian w zms Ls wss uss wds i.
Proof. exact estimateZ0_rotation_invariant. Qed.

(* the bin an observation is assigned in is the integer part of its direction *)
Theorem C19_bin_is_floor : forall (wd : R) (k : Z), in_bin (IZR k) wd = true <-> Int_part wd = k.
Proof. exact bin_is_floor. Qed.

(* the rational executables run by the correspondence (Model/KMExec.v) are the model's predicates *)
Theorem C19_exec_agrees :
  (forall kk w wd : Q, in_windowQ kk w wd = in_window (Q2R kk) (Q2R w) (Q2R wd)) /\
  (forall kk wd : Q, in_binQ kk wd = in_bin (Q2R kk) (Q2R wd)) /\
  (forall q : Q, Qfloor q = Int_part (Q2R q)) /\
  (forall (xmin res : Q) (j : nat), Q2R (grid_xcQ xmin res (Z.of_nat j)) = grid_xc (Q2R xmin) (Q2R res) j) /\
  (forall (ymax res : Q) (i : nat), Q2R (grid_ycQ ymax res (Z.of_nat i)) = grid_yc (Q2R ymax) (Q2R res) i).
Proof. exact (conj in_windowQ_R (conj in_binQ_R (conj Qfloor_Int_part (conj grid_xcQ_R grid_ycQ_R)))). Qed.

Goal True. idtac "THEOREM C19_closed_form". Abort. Print Assumptions C19_closed_form.
Goal True. idtac "THEOREM C19_nonneg". Abort. Print Assumptions C19_nonneg.
Goal True. idtac "THEOREM C19_downwind_zero". Abort. Print Assumptions C19_downwind_zero.
Goal True. idtac "THEOREM C19_upwind_positive". Abort. Print Assumptions C19_upwind_positive.
Goal True. idtac "THEOREM C19_cross_symmetric". Abort. Print Assumptions C19_cross_symmetric.
Goal True. idtac "THEOREM C19_rotation". Abort. Print Assumptions C19_rotation.
Goal True. idtac "THEOREM C19_rotation_cardinal". Abort. Print Assumptions C19_rotation_cardinal.
Goal True. idtac "THEOREM C19_z0_inverts_loglaw". Abort. Print Assumptions C19_z0_inverts_loglaw.
Goal True. idtac "THEOREM C19_window_circular". Abort. Print Assumptions C19_window_circular.
Goal True. idtac "THEOREM C19_window_wide_refuted". Abort. Print Assumptions C19_window_wide_refuted.
Goal True. idtac "THEOREM C19_z0_rotation_invariant". Abort. Print Assumptions C19_z0_rotation_invariant.
Goal True. idtac "THEOREM C19_bin_is_floor". Abort. Print Assumptions C19_bin_is_floor.
Goal True. idtac "THEOREM C19_exec_agrees". Abort. Print Assumptions C19_exec_agrees.
