(* THEOREMS THAT SURVIVE ROUNDING — exact similarity of the solver in rounded arithmetic (C04, C07).
   Only statements, `exact`, Print Assumptions.

   RndOps m (Base/RoundedOps.v): complex numbers are pairs of reals with the textbook formulas of Base/PairOps.v —
   the SAME construction whose PrimFloat instance is the executable FloatOps of every solver correspondence
   (Rounded_float_instance_same_formulas, by conversion) — and every scalar operation is followed by the rounding
   function `rnd m`; `rnd32 m` is the storage rounding of complex64 arrays; exp/cos/sin are arbitrary functions.
   No field law holds in RndOps m and none is assumed.  The only hypothesis is homogeneity of the roundings for the
   scale factor s,   hom f s := forall x, f (s * x) = s * f x,   which binary floating-point rounding satisfies for every
   power of two, in every rounding direction, away from overflow and the subnormal range
   (Rounded_binary_rounding_is_homogeneous; BinaryMode is the binary64/binary32 round-to-nearest-even instance).

   scl c (x, y) = (c * x, c * y);  scl3 c scales every cell of a (level, row, column) array.
   The statements are EQUATIONS between whole solver results (coordinates, both fields at all levels, shape) — or
   between the error outcomes — for every request: any grid, level list, mode count, halo, measurement point,
   numerical and analytic branch, double and single storage. *)
From Coq Require Import ZArith Reals List Bool.
From Flocq Require Import Core.
From BL Require Import Base.Ops Base.PairOps Base.FloatOps Base.RoundedOps Model.Solver
  Proofs.RoundedScaling Proofs.RoundedExample.
From BL Require Proofs.C04Proofs.
Import ListNotations.
Local Open Scope R_scope.

(* the executable IEEE-double instance is the pair construction over PrimFloat: same formulas, by conversion *)
Theorem Rounded_float_instance_same_formulas : FloatOps = PairOps FloatScalar.
Proof. exact FloatOps_is_PairOps. Qed.

(* C04, dispersion mode: source and background times s  ==>  concentration and flux times s, exactly *)
Theorem C04_homogeneous_in_rounded_arithmetic :
  forall (m : RMode) (s : R), s <> 0 -> hom (rnd m) s -> hom (rnd32 m) s ->
  forall a : args (RndOps m), a_footprint (RndOps m) a = false ->
  solve (RndOps m) (scale_source_args m s a) =
  match solve (RndOps m) a with
  | inl r => inl (mkResult (RndOps m) (r_x _ r) (r_y _ r) (r_z _ r) (scl3 s (r_conc _ r)) (scl3 s (r_flx _ r)) (r_shape _ r))
  | inr e => inr e
  end.
Proof. exact homogeneity_rounded. Qed.

(* C07, both modes: winds and diffusivities times s (background over s)  ==>  flux IDENTICAL, concentration over s *)
Theorem C07_velocity_scaling_in_rounded_arithmetic :
  forall (m : RMode) (s : R), s <> 0 -> hom (rnd m) s -> hom (rnd32 m) s ->
  forall a : args (RndOps m),
  solve (RndOps m) (scale_vel_args m s a) =
  match solve (RndOps m) a with
  | inl r => inl (mkResult (RndOps m) (r_x _ r) (r_y _ r) (r_z _ r) (scl3 (/ s) (r_conc _ r)) (r_flx _ r) (r_shape _ r))
  | inr e => inr e
  end.
Proof. exact velocity_scaling_rounded. Qed.

(* C07, both modes: all lengths (z, domain, measurement point, halo) and diffusivities times s > 0
   ==>  concentration and flux IDENTICAL, coordinates times s *)
Theorem C07_length_scaling_in_rounded_arithmetic :
  forall (m : RMode) (s : R), s <> 0 -> hom (rnd m) s -> hom (rnd32 m) s ->
  forall a : args (RndOps m), 0 < s ->
  solve (RndOps m) (scale_len_args m s a) =
  match solve (RndOps m) a with
  | inl r => inl (mkResult (RndOps m) (map (scl s) (r_x _ r)) (map (scl s) (r_y _ r)) (map (scl s) (r_z _ r))
                          (r_conc _ r) (r_flx _ r) (r_shape _ r))
  | inr e => inr e
  end.
Proof. exact length_scaling_rounded. Qed.

(* the whole similarity group at once: lengths times s^dl, winds s^du, diffusivities s^(du+dl), source s^ds (ds = 0 in
   footprint mode, where the source is the unit impulse), background s^(ds-du)
   ==>  coordinates times s^dl, concentration s^(ds-du), flux s^ds *)
Theorem Rounded_similarity :
  forall (m : RMode) (s : R), s <> 0 -> hom (rnd m) s -> hom (rnd32 m) s ->
  forall (dl du ds : Z) (a : args (RndOps m)),
  0 < powerRZ s dl -> (a_footprint (RndOps m) a = true -> ds = 0%Z) ->
  solve (RndOps m) (sim_args m s dl du ds a)
  = rescaled m (powerRZ s dl) (powerRZ s (ds - du)) (powerRZ s ds) (solve (RndOps m) a).
Proof. exact rounded_similarity. Qed.

(* the hypothesis holds for rounding to `prec` significant binary digits, any rounding direction, any power of two *)
Theorem Rounded_binary_rounding_is_homogeneous :
  forall (prec : Z) (rndZ : R -> Z), Valid_rnd rndZ ->
  forall e : Z, hom (round radix2 (FLX_exp prec) rndZ) (bpow radix2 e).
Proof. exact binary_rounding_hom. Qed.

(* non-vacuity: binary64 arithmetic / binary32 storage with round-to-nearest-even satisfies all hypotheses for s = 2^e
   (positive, so the length scaling applies too), and it does round *)
Example Rounded_hypotheses_satisfiable : forall e : Z,
  bpow radix2 e <> 0 /\ 0 < bpow radix2 e /\ hom (rnd BinaryMode) (bpow radix2 e) /\ hom (rnd32 BinaryMode) (bpow radix2 e).
Proof. exact BinaryMode_hom. Qed.
(* ... and for s = -2^e (round to nearest even is odd): C04 homogeneity includes the exact sign symmetry *)
Example Rounded_hypotheses_satisfiable_negative : forall e : Z,
  - bpow radix2 e <> 0 /\ hom (rnd BinaryMode) (- bpow radix2 e) /\ hom (rnd32 BinaryMode) (- bpow radix2 e).
Proof. exact BinaryMode_hom_neg. Qed.
(* ... and exact real arithmetic (identity rounding) for EVERY real factor: the four theorems above then are the array-level
   similarity laws of the model over the reals, for all s <> 0 (s > 0 for the length scaling) *)
Example Rounded_exact_arithmetic_any_factor : forall s : R, hom (rnd ExactMode) s /\ hom (rnd32 ExactMode) s.
Proof. exact ExactMode_hom. Qed.
(* the request transformer of the C04 statement is C04_linear's `with_src` applied to the cell-wise scaled source *)
Example Rounded_scaled_source_is_with_src : forall (m : RMode) (s : R) (a : args (RndOps m)),
  scale_source_args m s a
  = C04Proofs.with_src (RndOps m) a (map (map (scl s)) (a_q0 _ a)) (scl s (a_p000 _ a)).
Proof. exact scale_source_is_with_src. Qed.
Example Rounded_mode_is_not_exact : rnd BinaryMode (bpow radix2 53 + 1) <> bpow radix2 53 + 1.
Proof. exact rn53_not_identity. Qed.

Goal True. idtac "THEOREM Rounded_float_instance_same_formulas". Abort. Print Assumptions Rounded_float_instance_same_formulas.
Goal True. idtac "THEOREM C04_homogeneous_in_rounded_arithmetic". Abort. Print Assumptions C04_homogeneous_in_rounded_arithmetic.
Goal True. idtac "THEOREM C07_velocity_scaling_in_rounded_arithmetic". Abort. Print Assumptions C07_velocity_scaling_in_rounded_arithmetic.
Goal True. idtac "THEOREM C07_length_scaling_in_rounded_arithmetic". Abort. Print Assumptions C07_length_scaling_in_rounded_arithmetic.
Goal True. idtac "THEOREM Rounded_similarity". Abort. Print Assumptions Rounded_similarity.
Goal True. idtac "THEOREM Rounded_binary_rounding_is_homogeneous". Abort. Print Assumptions Rounded_binary_rounding_is_homogeneous.
