(* C03 — level-wise flux conservation, mean concentration, unit footprint mass.
   Only statements, `exact`, Print Assumptions. *)
From Coq Require Import ZArith List Bool.
From BL Require Import Base.Ops Base.Laws Model.Solver Proofs.SpecProofs Proofs.C04Proofs Proofs.C03Proofs.
Import ListNotations.

(* On the full periodic domain (px = py = 0: nothing cropped; a halo is observed through explicit
   padding) the horizontal sum of the flux at EVERY output slot equals nx*ny times the real part
   of the mean-mode amplitude q00 ... *)
Theorem C03_flux_sum : forall (O : Ops), Laws O -> forall (a : args O) (g : geom O) k,
  wf O a -> geometry O a = inl g -> a_single O a = false ->
  g_px O g = 0%nat -> g_py O g = 0%nat -> g_nx O g <> 0%nat -> g_ny O g <> 0%nat ->
  (0 < g_nlx O g)%nat -> (0 < g_nly O g)%nat -> (k < length (a_levels O a))%nat ->
  hsum O (field O a g snd (table O a g)) (g_ny O g) (g_nx O g) k
  = cre O (cmul O (cmul O (cofZ O (Z.of_nat (g_ny O g))) (cofZ O (Z.of_nat (g_nx O g)))) (q0_hat O a g 0%nat 0%nat)).
Proof. exact flux_sum. Qed.

(* ... where, in dispersion mode, nx*ny*q00 is the sum of the surface flux over the domain: the
   horizontal mean of the vertical flux equals the horizontal mean of the surface flux at every level *)
Theorem C03_source_mean : forall (O : Ops), Laws O -> forall (a : args O) (g : geom O),
  wf O a -> geometry O a = inl g -> a_footprint O a = false ->
  g_px O g = 0%nat -> g_py O g = 0%nat ->
  cmul O (cmul O (cofZ O (Z.of_nat (g_ny O g))) (cofZ O (Z.of_nat (g_nx O g)))) (q0_hat O a g 0%nat 0%nat)
  = cmul O (cmul O (cmul O (cofZ O (Z.of_nat (g_ny O g))) (cofZ O (Z.of_nat (g_nx O g))))
                   (cdiv O (cdiv O (c1 O) (cofZ O (Z.of_nat (g_nx O g)))) (cofZ O (Z.of_nat (g_ny O g)))))
           (csum O (map (fun j => csum O (map (fun i => cellq O (a_q0 O a) j i) (seq 0 (g_nx O g)))) (seq 0 (g_ny O g)))).
Proof. exact source_mean. Qed.

(* the horizontal-mean concentration is background minus mean flux times the vertical resistance
   accumulated by the code's trapezoidal rule (numerical) or h/Kz (analytic) up to that level *)
Theorem C03_conc_sum : forall (O : Ops), Laws O -> forall (a : args O) (g : geom O) k,
  wf O a -> geometry O a = inl g -> a_single O a = false ->
  g_px O g = 0%nat -> g_py O g = 0%nat -> g_nx O g <> 0%nat -> g_ny O g <> 0%nat ->
  (0 < g_nlx O g)%nat -> (0 < g_nly O g)%nat -> (k < length (a_levels O a))%nat ->
  hsum O (field O a g fst (table O a g)) (g_ny O g) (g_nx O g) k
  = cre O (cmul O (cmul O (cofZ O (Z.of_nat (g_ny O g))) (cofZ O (Z.of_nat (g_nx O g))))
             (csub O (a_p000 O a) (cmul O (q0_hat O a g 0%nat 0%nat) (resist O a g (nth k (a_levels O a) 0%nat))))).
Proof. exact conc_sum. Qed.

(* footprint mode: the weights over the full padded domain sum to exactly one at every level *)
Theorem C03_footprint_mass : forall (O : Ops), Laws O -> forall (a : args O) (g : geom O) k,
  wf O a -> geometry O a = inl g -> a_single O a = false -> a_footprint O a = true ->
  g_px O g = 0%nat -> g_py O g = 0%nat -> g_nx O g <> 0%nat -> g_ny O g <> 0%nat ->
  (0 < g_nlx O g)%nat -> (0 < g_nly O g)%nat -> (k < length (a_levels O a))%nat ->
  hsum O (field O a g snd (table O a g)) (g_ny O g) (g_nx O g) k = c1 O.
Proof. exact footprint_mass. Qed.

Goal True. idtac "THEOREM C03_flux_sum". Abort. Print Assumptions C03_flux_sum.
Goal True. idtac "THEOREM C03_source_mean". Abort. Print Assumptions C03_source_mean.
Goal True. idtac "THEOREM C03_conc_sum". Abort. Print Assumptions C03_conc_sum.
Goal True. idtac "THEOREM C03_footprint_mass". Abort. Print Assumptions C03_footprint_mass.

(* a halo of any width is exactly the caller zero-padding the source by px = int(halo/dx),
   py = int(halo/dy) cells, enlarging the domain to (nxe*dx, nye*dy), solving with halo = 0 and
   cropping: every cell of both fields at every level, footprint mode for any measurement point
   (moved by the padding) and dispersion mode with the measurement point at the origin *)
From BL Require Import Proofs.HaloProofs.
Theorem C03_halo_is_padding : forall (O : Ops), Laws O -> forall (a : args O) (g : geom O) sel k j i,
  (forall pq s, sel (cmul O (fst pq) s, cmul O (snd pq) s) = cmul O (sel pq) s) ->
  wf O a -> geometry O a = inl g -> g_nx O g <> 0%nat -> g_ny O g <> 0%nat ->
  (a_footprint O a = false -> a_xm O a = c0 O /\ a_ym O a = c0 O) ->
  (k < length (a_levels O a))%nat -> (j < g_ny O g)%nat -> (i < g_nx O g)%nat ->
  get3 O (field O a g sel (table O a g)) k j i
  = get3 O (field O (padded_req O a g) (padded_geom O g) sel (table O (padded_req O a g) (padded_geom O g))) k
         (j + g_py O g) (i + g_px O g).
Proof. exact halo_is_padding. Qed.

Theorem C03_padded_request_geometry : forall (O : Ops), Laws O -> forall (a : args O) (g : geom O),
  wf O a -> geometry O a = inl g -> g_nx O g <> 0%nat -> g_ny O g <> 0%nat ->
  geometry O (padded_req O a g) = inl (padded_geom O g).
Proof. exact padded_geometry. Qed.

Goal True. idtac "THEOREM C03_halo_is_padding". Abort. Print Assumptions C03_halo_is_padding.
Goal True. idtac "THEOREM C03_padded_request_geometry". Abort. Print Assumptions C03_padded_request_geometry.
