(* C03 — level-wise flux conservation, mean concentration, unit footprint mass.
   Only statements, `exact`, Print Assumptions. *)
From Coq Require Import ZArith List Bool.
From BL Require Import Base.Ops Base.Laws Model.Solver Proofs.SpecProofs Proofs.C04Proofs Proofs.C03Proofs.
Import ListNotations.

(* On the full periodic domain (px = py = 0: nothing cropped; a halo is observed through explicit
   padding) the horizontal sum of the flux at EVERY output slot equals nx*ny times the real part
   of the mean-mode amplitude q00 ... *)
Theorem C03_flux_sum : forall (O : Ops), Laws O -> forall (a : args O) (g : geom O) k,
  wf O a -> geometry O a = inl g -> a_single O a = false ->
  g_px O g = 0%nat -> g_py O g = 0%nat -> g_nx O g <> 0%nat -> g_ny O g <> 0%nat ->
  (0 < g_nlx O g)%nat -> (0 < g_nly O g)%nat -> (k < length (a_levels O a))%nat ->
  hsum O (field O a g snd (table O a g)) (g_ny O g) (g_nx O g) k
  = cre O (cmul O (cmul O (cofZ O (Z.of_nat (g_ny O g))) (cofZ O (Z.of_nat (g_nx O g)))) (q0_hat O a g 0%nat 0%nat)).
Proof. exact flux_sum. Qed.

(* ... where, in dispersion mode, nx*ny*q00 is the sum of the surface flux over the domain: the
   horizontal mean of the vertical flux equals the horizontal mean of the surface flux at every level *)
Theorem C03_source_mean : forall (O : Ops), Laws O -> forall (a : args O) (g : geom O),
  wf O a -> geometry O a = inl g -> a_footprint O a = false ->
  g_px O g = 0%nat -> g_py O g = 0%nat ->
  cmul O (cmul O (cofZ O (Z.of_nat (g_ny O g))) (cofZ O (Z.of_nat (g_nx O g)))) (q0_hat O a g 0%nat 0%nat)
  = cmul O (cmul O (cmul O (cofZ O (Z.of_nat (g_ny O g))) (cofZ O (Z.of_nat (g_nx O g))))
                   (cdiv O (cdiv O (c1 O) (cofZ O (Z.of_nat (g_nx O g)))) (cofZ O (Z.of_nat (g_ny O g)))))
           (csum O (map (fun j => csum O (map (fun i => cellq O (a_q0 O a) j i) (seq 0 (g_nx O g)))) (seq 0 (g_ny O g)))).
Proof. exact source_mean. Qed.

(* the horizontal-mean concentration is background minus mean flux times the vertical resistance
   accumulated by the code's trapezoidal rule (numerical) or h/Kz (analytic) up to that level *)
Theorem C03_conc_sum : forall (O : Ops), Laws O -> forall (a : args O) (g : geom O) k,
  wf O a -> geometry O a = inl g -> a_single O a = false ->
  g_px O g = 0%nat -> g_py O g = 0%nat -> g_nx O g <> 0%nat -> g_ny O g <> 0%nat ->
  (0 < g_nlx O g)%nat -> (0 < g_nly O g)%nat -> (k < length (a_levels O a))%nat ->
  hsum O (field O a g fst (table O a g)) (g_ny O g) (g_nx O g) k
  = cre O (cmul O (cmul O (cofZ O (Z.of_nat (g_ny O g))) (cofZ O (Z.of_nat (g_nx O g))))
             (csub O (a_p000 O a) (cmul O (q0_hat O a g 0%nat 0%nat) (resist O a g (nth k (a_levels O a) 0%nat))))).
Proof. exact conc_sum. Qed.

(* footprint mode: the weights over the full padded domain sum to exactly one at every level *)
Theorem C03_footprint_mass : forall (O : Ops), Laws O -> forall (a : args O) (g : geom O) k,
  wf O a -> geometry O a = inl g -> a_single O a = false -> a_footprint O a = true ->
  g_px O g = 0%nat -> g_py O g = 0%nat -> g_nx O g <> 0%nat -> g_ny O g <> 0%nat ->
  (0 < g_nlx O g)%nat -> (0 < g_nly O g)%nat -> (k < length (a_levels O a))%nat ->
  hsum O (field O a g snd (table O a g)) (g_ny O g) (g_nx O g) k = c1 O.
Proof. exact footprint_mass. Qed.

Goal True. idtac "THEOREM C03_flux_sum". Abort. Print Assumptions C03_flux_sum.
Goal True. idtac "THEOREM C03_source_mean". Abort. Print Assumptions C03_source_mean.
Goal True. idtac "THEOREM C03_conc_sum". Abort. Print Assumptions C03_conc_sum.
Goal True. idtac "THEOREM C03_footprint_mass". Abort. Print Assumptions C03_footprint_mass.

(* a halo of any width is exactly the caller zero-padding the source by px = int(halo/dx),
   py = int(halo/dy) cells, enlarging the domain to (nxe*dx, nye*dy), solving with halo = 0 and
   cropping: every cell of both fields at every level, footprint mode for any measurement point
   (moved by the padding) and dispersion mode with the measurement point at the origin *)
From BL Require Import Proofs.HaloProofs.
Theorem C03_halo_is_padding : forall (O : Ops), Laws O -> forall (a : args O) (g : geom O) sel k j i,
  (forall pq s, sel (cmul O (fst pq) s, cmul O (snd pq) s) = cmul O (sel pq) s) ->
  wf O a -> geometry O a = inl g -> g_nx O g <> 0%nat -> g_ny O g <> 0%nat ->
  (a_footprint O a = false -> a_xm O a = c0 O /\ a_ym O a = c0 O) ->
  (k < length (a_levels O a))%nat -> (j < g_ny O g)%nat -> (i < g_nx O g)%nat ->
  get3 O (field O a g sel (table O a g)) k j i
  = get3 O (field O (padded_req O a g) (padded_geom O g) sel (table O (padded_req O a g) (padded_geom O g))) k
         (j + g_py O g) (i + g_px O g).
Proof. exact halo_is_padding. Qed.

Theorem C03_padded_request_geometry : forall (O : Ops), Laws O -> forall (a : args O) (g : geom O),
  wf O a -> geometry O a = inl g -> g_nx O g <> 0%nat -> g_ny O g <> 0%nat ->
  geometry O (padded_req O a g) = inl (padded_geom O g).
Proof. exact padded_geometry. Qed.

Goal True. idtac "THEOREM C03_halo_is_padding". Abort. Print Assumptions C03_halo_is_padding.
Goal True. idtac "THEOREM C03_padded_request_geometry". Abort. Print Assumptions C03_padded_request_geometry.

(* ------------------------------------------------------------------------------------------
   "the vertical resistance (integral of dz/Kz)": the trapezoidal sum `resist` that C03_conc_sum
   speaks about IS the integral up to an explicit second-order error (instance ROps over
   Coquelicot's complex numbers; real nodes zs, real diffusivity function Kz with 1/Kz twice
   differentiable, |(1/Kz)''| <= M2 on [z_0, z_m], layers 0 <= dz_i <= dmax):
     | (p000 - q00 * resistance) - (p000 - q00 * int_{z_0}^{z_m} dz/Kz) |  <=  |q00| M2/12 (z_m - z_0) dmax^2,
   it is exact when 1/Kz is piecewise linear between the nodes, and it converges on uniform
   refinements.  (Proofs/Trapezoid.v; stdlib real axioms.) *)
From Coq Require Import Reals.
From Coquelicot Require Import Coquelicot.
From BL Require Base.ROps Proofs.ModeProofs Proofs.Trapezoid.

Theorem C03_resistance_is_integral :
  forall (Kz f1 f2 : R -> R) (zs : list R) (m : nat) (M2 dmax : R) (p000 q00 : C),
  (m < length zs)%nat ->
  (forall i, (i < m)%nat -> (0 <= nth (S i) zs 0 - nth i zs 0 <= dmax)%R) ->
  (forall z, (nth 0 zs 0 <= z <= nth m zs 0)%R -> is_derive (fun z => / Kz z)%R z (f1 z)) ->
  (forall z, (nth 0 zs 0 <= z <= nth m zs 0)%R -> is_derive f1 z (f2 z)) ->
  (forall z, (nth 0 zs 0 <= z <= nth m zs 0)%R -> (Rabs (f2 z) <= M2)%R) ->
  (Cmod (Cminus (csub ROps.ROps p000 (cmul ROps.ROps q00
                   (ModeProofs.resistance ROps.ROps (diffs ROps.ROps (map RtoC zs)) (map RtoC (map Kz zs)) m)))
               (Cminus p000 (Cmult q00 (RtoC (RInt (fun z => / Kz z)%R (nth 0 zs 0%R) (nth m zs 0%R))))))
   <= Cmod q00 * (M2 / 12 * (nth m zs 0 - nth 0 zs 0) * dmax ^ 2))%R.
Proof. exact Trapezoid.mean_conc_vs_integral. Qed.

Theorem C03_resistance_exact_piecewise_linear :
  forall (f : R -> R) (zs Kzs : list R) (m : nat),
  (m < length zs)%nat -> (m < length Kzs)%nat ->
  (forall i, (i < m)%nat -> (nth i zs 0 <= nth (S i) zs 0)%R) ->
  (forall i, (i <= m)%nat -> f (nth i zs 0%R) = (/ nth i Kzs 0)%R) ->
  (forall i, (i < m)%nat -> exists s c, forall x,
       (nth i zs 0 <= x <= nth (S i) zs 0)%R -> f x = (s * x + c)%R) ->
  ex_RInt f (nth 0 zs 0%R) (nth m zs 0%R) /\
  ModeProofs.resistance ROps.ROps (diffs ROps.ROps (map RtoC zs)) (map RtoC Kzs) m
  = RtoC (RInt f (nth 0 zs 0%R) (nth m zs 0%R)).
Proof.
  intros f zs Kzs m H1 H2 H3 H4 H5.
  destruct (Trapezoid.trapezoid_exact_piecewise_linear f zs Kzs m H1 H2 H3 H4 H5) as [Hex Heq].
  split; [exact Hex|]. rewrite Trapezoid.diffs_ROps, Trapezoid.resistance_ROps, Heq. reflexivity.
Qed.

Theorem C03_resistance_converges :
  forall (Kz f1 f2 : R -> R) (a b M2 : R),
  (a <= b)%R ->
  (forall z, (a <= z <= b)%R -> is_derive (fun z => / Kz z)%R z (f1 z)) ->
  (forall z, (a <= z <= b)%R -> is_derive f1 z (f2 z)) ->
  (forall z, (a <= z <= b)%R -> (Rabs (f2 z) <= M2)%R) ->
  is_lim_seq (fun n => Trapezoid.Rresistance (Trapezoid.Rdiffs (Trapezoid.unif a b (S n)))
                                             (map Kz (Trapezoid.unif a b (S n))) (S n))
             (RInt (fun z => / Kz z)%R a b).
Proof. exact Trapezoid.trapezoid_converges. Qed.

(* non-vacuity: the neutral surface-layer diffusivity Kz = k z (resistance ln(z_m/z_0)/k) *)
Theorem C03_resistance_neutral_example : forall k : R, (0 < k)%R ->
  forall (zs : list R) (m : nat) (dmax : R),
  (m < length zs)%nat -> (0 < nth 0 zs 0)%R ->
  (forall i, (i < m)%nat -> (0 <= nth (S i) zs 0 - nth i zs 0 <= dmax)%R) ->
  (Rabs (Trapezoid.Rresistance (Trapezoid.Rdiffs zs) (map (fun z => k * z) zs) m - ln (nth m zs 0 / nth 0 zs 0) / k)
   <= (2 / (k * (nth 0 zs 0) ^ 3)) / 12 * (nth m zs 0 - nth 0 zs 0) * dmax ^ 2)%R.
Proof. exact Trapezoid.neutral_resistance_bound. Qed.

Goal True. idtac "THEOREM C03_resistance_is_integral". Abort. Print Assumptions C03_resistance_is_integral.
Goal True. idtac "THEOREM C03_resistance_exact_piecewise_linear". Abort. Print Assumptions C03_resistance_exact_piecewise_linear.
Goal True. idtac "THEOREM C03_resistance_converges". Abort. Print Assumptions C03_resistance_converges.
Goal True. idtac "THEOREM C03_resistance_neutral_example". Abort. Print Assumptions C03_resistance_neutral_example.
