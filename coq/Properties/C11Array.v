(* C11 (array level) — the statement-by-statement ARRAY model of the solver's plumbing
   (Model/SolverArray.v: np.pad, fft2/ifft2 with their norms, fftshift/ifftshift, slices, fftfreq, meshgrid, the
   mask with gather/scatter, the multiplication by `shift`, .real, the crop) computes exactly the frequency-set
   model Model/Solver.v that all solver-family theorems (C02-C07, C10, C11) are stated about.
   Only statements, `exact`, Print Assumptions. *)
From Coq Require Import ZArith List Bool.
From BL Require Import Base.Ops Base.Laws Model.Solver Model.SolverArray Proofs.SpecProofs Proofs.Plumbing
  Proofs.C03Proofs Proofs.C11Proofs Proofs.ArrayRefine.
Import ListNotations.

(* REFINEMENT.  For every well-formed request that is accepted — every parity of nx, ny, px, py, every
   accepted pair of mode counts (clamped or not), both branches (footprint / dispersion), numerical and
   analytic, both precisions — the array model returns two arrays of the shape (ny, nx) of the source whose
   every cell, at every level slot, equals the corresponding cell of Solver.solve. *)
Theorem C11_array_refines_spec : forall (O : Ops), Laws O -> forall (a : args O) (r : result O),
  wf O a -> solve O a = inl r ->
  exists g pa qa,
    geometry O a = inl g /\ solve_array O a = inl (pa, qa) /\
    (ar_rows O pa = Z.of_nat (g_ny O g) /\ ar_cols O pa = Z.of_nat (g_nx O g) /\
     ar_rows O qa = Z.of_nat (g_ny O g) /\ ar_cols O qa = Z.of_nat (g_nx O g)) /\
    ((0 < a_nlx O a)%nat -> (0 < a_nly O a)%nat ->
     forall k j i, (k < length (a_levels O a))%nat -> (j < g_ny O g)%nat -> (i < g_nx O g)%nat ->
       ar_at O pa (Z.of_nat k) (Z.of_nat j) (Z.of_nat i) = get3 O (r_conc O r) k j i /\
       ar_at O qa (Z.of_nat k) (Z.of_nat j) (Z.of_nat i) = get3 O (r_flx O r) k j i).
Proof. exact array_refines_spec. Qed.

(* ... and it is rejected by the array model exactly when Solver.solve rejects it, with the same error *)
Theorem C11_array_error_iff : forall (O : Ops), Laws O -> forall (a : args O) (e : error),
  solve_array O a = inr e <-> solve O a = inr e.
Proof. exact array_error_iff. Qed.

(* forward path: pad -> fft2(norm="forward") -> fftshift -> [dly:dly+nly, dlx:dlx+nlx] -> ifftshift (dispersion)
   or ones/nxe/nye (footprint) is, entry by entry, the source amplitude q0_hat of the frequency-set model *)
Theorem C11_array_source_spectrum : forall (O : Ops), Laws O -> forall (a : args O) (g : geom O) k tx ty,
  wf O a -> geometry O a = inl g -> (tx < g_nlx O g)%nat -> (ty < g_nly O g)%nat ->
  ar_at O (tq0_arr O a g) k (Z.of_nat ty) (Z.of_nat tx) = q0_hat O a g tx ty.
Proof. exact tq0_values. Qed.

(* gather X[msk] -> per-mode computation -> scatter tfft?[:, msk] = ..: entry (ty, tx) of the scattered array is
   the spectrum of the frequency-set model at (tx, ty) *)
Theorem C11_array_scatter : forall (O : Ops), Laws O -> forall (a : args O) (g : geom O) (tq0 : Z -> Z -> C O) sel k tx ty,
  (tx < g_nlx O g)%nat -> (ty < g_nly O g)%nat ->
  tq0 (Z.of_nat ty) (Z.of_nat tx) = q0_hat O a g tx ty -> tq0 0%Z 0%Z = q0_hat O a g 0%nat 0%nat ->
  spec_at O a g tq0 sel (Z.of_nat k) (Z.of_nat ty) (Z.of_nat tx) = sel (nth k (spectrum O a g tx ty) (c0 O, c0 O)).
Proof. exact spec_at_spectrum. Qed.

(* backward path: fftshift(axes=(1,2)) -> pad -> ifftshift(axes=(1,2)) -> fft2(norm="backward") | ifft2(norm="forward")
   -> .real -> crop, applied to ANY (nly, nlx) array t: each output cell is the real part of the sum over the retained
   indices of t[k, ty, tx] times the DFT kernel at the padded index fftfreq mod n — every parity, 0 < L <= n *)
Theorem C11_array_back_pipe : forall (O : Ops), Laws O ->
  forall fp py px nye nxe nly nlx (t : arr O) k j i,
  ar_rows O t = nly -> ar_cols O t = nlx -> (0 < nly <= nye)%Z -> (0 < nlx <= nxe)%Z ->
  ar_at O (back_pipe O fp py px nye nxe nly nlx t) k j i
  = cre O (zsum O nly (fun ty => zsum O nlx (fun tx =>
      cmul O (ar_at O t k ty tx)
        (cis O (sgn O fp (dft_phase O nye nxe (j + py)%Z (i + px)%Z (zfftfreq nly ty mod nye)%Z (zfftfreq nlx tx mod nxe)%Z)))))).
Proof. exact back_pipe_at. Qed.

(* one axis: a sum over the padded axis against ifftshift(pad(fftshift X)) only sees the retained indices, each
   at its padded index (uses C11_untruncate_writes / _zero_elsewhere's index map; all parities) *)
Theorem C11_array_untruncate_sum : forall (O : Ops), Laws O -> forall n Lm (X G : Z -> C O), (0 < Lm <= n)%Z ->
  zsum O n (fun u => cmul O (ifftshift n (pad (c0 O) (start n Lm) Lm (fftshift Lm X)) u) (G u))
  = zsum O Lm (fun t => cmul O (X t) (G (zfftfreq Lm t mod n)%Z)).
Proof. exact untruncate_sum. Qed.

(* every slice bound and pad width of the pipeline is in range (numpy's slicing does not clip, np.pad does not
   raise), so that a_slice / a_pad mean what the numpy calls mean *)
Theorem C11_array_slices_in_range : forall (O : Ops), Laws O -> forall (a : args O) (g : geom O),
  geometry O a = inl g -> (0 < g_nlx O g)%nat -> (0 < g_nly O g)%nat ->
  let dly := start (znye O g) (znly O g) in let dlx := start (znxe O g) (znlx O g) in
  (0 <= dly /\ dly + znly O g <= znye O g /\ 0 <= dlx /\ dlx + znlx O g <= znxe O g)%Z /\
  (0 <= znye O g - znly O g - dly /\ 0 <= znxe O g - znlx O g - dlx)%Z /\
  (0 <= zpy O g <= znye O g - zpy O g /\ znye O g - zpy O g <= znye O g /\
   0 <= zpx O g <= znxe O g - zpx O g /\ znxe O g - zpx O g <= znxe O g)%Z.
Proof. exact slices_in_range. Qed.

(* transfer: the sum-level theorems of C03 hold verbatim for the arrays the array model returns *)
Theorem C11_array_flux_sum : forall (O : Ops), Laws O -> forall (a : args O) (g : geom O) k,
  wf O a -> geometry O a = inl g -> a_single O a = false ->
  g_px O g = 0%nat -> g_py O g = 0%nat -> g_nx O g <> 0%nat -> g_ny O g <> 0%nat ->
  (0 < g_nlx O g)%nat -> (0 < g_nly O g)%nat -> (k < length (a_levels O a))%nat ->
  asum O (field_arr O a g snd) (g_ny O g) (g_nx O g) k
  = cre O (cmul O (cmul O (cofZ O (Z.of_nat (g_ny O g))) (cofZ O (Z.of_nat (g_nx O g)))) (q0_hat O a g 0%nat 0%nat)).
Proof. exact array_flux_sum. Qed.

Theorem C11_array_conc_sum : forall (O : Ops), Laws O -> forall (a : args O) (g : geom O) k,
  wf O a -> geometry O a = inl g -> a_single O a = false ->
  g_px O g = 0%nat -> g_py O g = 0%nat -> g_nx O g <> 0%nat -> g_ny O g <> 0%nat ->
  (0 < g_nlx O g)%nat -> (0 < g_nly O g)%nat -> (k < length (a_levels O a))%nat ->
  asum O (field_arr O a g fst) (g_ny O g) (g_nx O g) k
  = cre O (cmul O (cmul O (cofZ O (Z.of_nat (g_ny O g))) (cofZ O (Z.of_nat (g_nx O g))))
             (csub O (a_p000 O a) (cmul O (q0_hat O a g 0%nat 0%nat) (resist O a g (nth k (a_levels O a) 0%nat))))).
Proof. exact array_conc_sum. Qed.

Theorem C11_array_footprint_mass : forall (O : Ops), Laws O -> forall (a : args O) (g : geom O) k,
  wf O a -> geometry O a = inl g -> a_single O a = false -> a_footprint O a = true ->
  g_px O g = 0%nat -> g_py O g = 0%nat -> g_nx O g <> 0%nat -> g_ny O g <> 0%nat ->
  (0 < g_nlx O g)%nat -> (0 < g_nly O g)%nat -> (k < length (a_levels O a))%nat ->
  asum O (field_arr O a g snd) (g_ny O g) (g_nx O g) k = c1 O.
Proof. exact array_footprint_mass. Qed.

(* transfer of C11_lowpass: an entry of the shifted truncated spectra (the arrays that are re-embedded and transformed
   back) retained under two mode counts is the same number under both *)
Theorem C11_array_lowpass : forall (O : Ops), Laws O -> forall (a : args O) (g : geom O) nlx' nly' sel k tx ty tx' ty',
  wf O a -> geometry O a = inl g ->
  geometry O (with_modes O a nlx' nly') = inl (geom_modes O g nlx' nly') ->
  (tx < g_nlx O g)%nat -> (ty < g_nly O g)%nat -> (tx' < nlx')%nat -> (ty' < nly')%nat ->
  fftfreq (g_nlx O g) tx = fftfreq nlx' tx' -> fftfreq (g_nly O g) ty = fftfreq nly' ty' ->
  ar_at O (apply_shift O a g (spec_arr O a g sel)) (Z.of_nat k) (Z.of_nat ty) (Z.of_nat tx)
  = ar_at O (apply_shift O (with_modes O a nlx' nly') (geom_modes O g nlx' nly')
                         (spec_arr O (with_modes O a nlx' nly') (geom_modes O g nlx' nly') sel))
          (Z.of_nat k) (Z.of_nat ty') (Z.of_nat tx').
Proof. exact array_lowpass. Qed.

(* non-vacuity: under any lawful Ops a concrete request with an odd nx (2 x 3 source, modes (2, 2), halo 0)
   satisfies the hypotheses of C11_array_refines_spec *)
Example C11_array_nonvacuous : forall (O : Ops), Laws O ->
  wf O (ex_args O) /\ (0 < a_nlx O (ex_args O))%nat /\ (0 < a_nly O (ex_args O))%nat /\
  exists r, solve O (ex_args O) = inl r.
Proof. exact ex_args_accepted. Qed.

Goal True. idtac "THEOREM C11_array_refines_spec". Abort. Print Assumptions C11_array_refines_spec.
Goal True. idtac "THEOREM C11_array_error_iff". Abort. Print Assumptions C11_array_error_iff.
Goal True. idtac "THEOREM C11_array_source_spectrum". Abort. Print Assumptions C11_array_source_spectrum.
Goal True. idtac "THEOREM C11_array_scatter". Abort. Print Assumptions C11_array_scatter.
Goal True. idtac "THEOREM C11_array_back_pipe". Abort. Print Assumptions C11_array_back_pipe.
Goal True. idtac "THEOREM C11_array_untruncate_sum". Abort. Print Assumptions C11_array_untruncate_sum.
Goal True. idtac "THEOREM C11_array_slices_in_range". Abort. Print Assumptions C11_array_slices_in_range.
Goal True. idtac "THEOREM C11_array_flux_sum". Abort. Print Assumptions C11_array_flux_sum.
Goal True. idtac "THEOREM C11_array_conc_sum". Abort. Print Assumptions C11_array_conc_sum.
Goal True. idtac "THEOREM C11_array_footprint_mass". Abort. Print Assumptions C11_array_footprint_mass.
Goal True. idtac "THEOREM C11_array_lowpass". Abort. Print Assumptions C11_array_lowpass.
Goal True. idtac "THEOREM C11_array_nonvacuous". Abort. Print Assumptions C11_array_nonvacuous.
