(* C07 — array-level mirror in DISPERSION mode WITH the re-centring shift (measurement point other
   than the origin), double storage (Proofs/C07MirrorRC.v).  Only statements, `exact`, Examples,
   Print Assumptions.

   mirror_rc_args: every source row reversed, u negated, measurement point reflected ABOUT THE DOMAIN
   CENTRE, xm' = xmx - xm (not about the cell grid, (nx-1) dx - xm, which is the reflected tower of
   footprint mode): re-centring translates the output so that xmx/2 carries the value at xm, and the
   cell mirror i -> nx-1-i maps the translated grid of the reflected request onto the translated grid
   of the original one exactly when  -(xm' - xmx/2) = xm - xmx/2.  mirror_y_rc_args: rows in reverse
   order, v negated, ym' = ymx - ym.  Any real measurement point (on or off the grid), any nx parity,
   any halo/pad, any mode count, any level list, numerical and analytic branch.
   Hypotheses beyond those of C07_mirror_x: `recentred a` — the code's guard xm^2 + ym^2 > 0 — for the
   request AND for the reflected request (for xm = xmx, ym = 0 the reflected point is the origin,
   which the code does not re-centre: there the statement is false).
   Three forms, as in Properties/C07.v:
   (1) C07_mirror_x_recentred: the fields synthesised WITHOUT the unpaired (Nyquist) column of the
       retained set are mirrored cell by cell (k, j, i) <-> (k, j, nx-1-i);
   (2) C07_mirror_x_recentred_defect: the mirror defect of the arrays actually returned equals the
       mirror defect of the Nyquist column's contribution alone;
   (3) C07_mirror_x_recentred_odd: odd (clamped) mode count — the returned arrays themselves.
   Same for y. *)
From Coq Require Import ZArith List Bool.
From BL Require Import Base.Ops Base.Laws Model.Solver Proofs.SpecProofs Proofs.C07Mirror Proofs.C07MirrorRC.
Import ListNotations.

Theorem C07_mirror_recentred_geometry : forall (O : Ops), Laws O -> forall (a : args O),
  geometry O (mirror_rc_args O a) = geometry O a /\ (wf O a -> geometry O (mirror_y_rc_args O a) = geometry O a).
Proof. intros O L a. exact (conj (mirror_rc_geometry O L a) (mirror_y_rc_geometry O L a)). Qed.

Theorem C07_mirror_x_recentred : forall (O : Ops), Laws O -> forall (a : args O) (g : geom O) sel k j i,
  (forall pq s, sel (cmul O (fst pq) s, cmul O (snd pq) s) = cmul O (sel pq) s) ->
  wf O a -> geometry O a = inl g ->
  a_footprint O a = false -> a_single O a = false ->
  recentred O a = true -> recentred O (mirror_rc_args O a) = true ->
  (k < length (a_levels O a))%nat -> (j < g_ny O g)%nat -> (i < g_nx O g)%nat ->
  get3 O (field O (mirror_rc_args O a) g sel (table_noNyq O (mirror_rc_args O a) g)) k j i
  = get3 O (field O a g sel (table_noNyq O a g)) k j (g_nx O g - 1 - i).
Proof. exact mirror_x_rc_cells. Qed.

Theorem C07_mirror_x_recentred_defect : forall (O : Ops), Laws O -> forall (a : args O) (g : geom O) sel k j i,
  (forall pq s, sel (cmul O (fst pq) s, cmul O (snd pq) s) = cmul O (sel pq) s) ->
  wf O a -> geometry O a = inl g ->
  a_footprint O a = false -> a_single O a = false ->
  recentred O a = true -> recentred O (mirror_rc_args O a) = true ->
  (k < length (a_levels O a))%nat -> (j < g_ny O g)%nat -> (i < g_nx O g)%nat ->
  csub O (get3 O (field O (mirror_rc_args O a) g sel (table O (mirror_rc_args O a) g)) k j i)
         (get3 O (field O a g sel (table O a g)) k j (g_nx O g - 1 - i))
  = csub O (get3 O (field O (mirror_rc_args O a) g sel (table_Nyq O (mirror_rc_args O a) g)) k j i)
           (get3 O (field O a g sel (table_Nyq O a g)) k j (g_nx O g - 1 - i)).
Proof. exact mirror_x_rc_cells_defect. Qed.

Theorem C07_mirror_x_recentred_odd : forall (O : Ops), Laws O -> forall (a : args O) (g : geom O) sel k j i,
  (forall pq s, sel (cmul O (fst pq) s, cmul O (snd pq) s) = cmul O (sel pq) s) ->
  wf O a -> geometry O a = inl g ->
  a_footprint O a = false -> a_single O a = false ->
  recentred O a = true -> recentred O (mirror_rc_args O a) = true ->
  Nat.odd (g_nlx O g) = true ->
  (k < length (a_levels O a))%nat -> (j < g_ny O g)%nat -> (i < g_nx O g)%nat ->
  get3 O (field O (mirror_rc_args O a) g sel (table O (mirror_rc_args O a) g)) k j i
  = get3 O (field O a g sel (table O a g)) k j (g_nx O g - 1 - i).
Proof. exact mirror_x_rc_cells_odd. Qed.

(* even retained count: what is dropped is exactly the column of x-frequency -nlx/2 *)
Theorem C07_mirror_x_recentred_even : forall (O : Ops), Laws O -> forall (a : args O) (g : geom O) sel k j i,
  (forall pq s, sel (cmul O (fst pq) s, cmul O (snd pq) s) = cmul O (sel pq) s) ->
  wf O a -> geometry O a = inl g ->
  a_footprint O a = false -> a_single O a = false ->
  recentred O a = true -> recentred O (mirror_rc_args O a) = true ->
  Nat.even (g_nlx O g) = true ->
  (k < length (a_levels O a))%nat -> (j < g_ny O g)%nat -> (i < g_nx O g)%nat ->
  let drop := fun e : (Z * Z) * list (C O * C O) => negb (fst (fst e) =? - Z.of_nat (g_nlx O g / 2))%Z in
  get3 O (field O (mirror_rc_args O a) g sel (filter drop (table O (mirror_rc_args O a) g))) k j i
  = get3 O (field O a g sel (filter drop (table O a g))) k j (g_nx O g - 1 - i).
Proof. exact mirror_x_rc_cells_even. Qed.

Theorem C07_mirror_y_recentred : forall (O : Ops), Laws O -> forall (a : args O) (g : geom O) sel k j i,
  (forall pq s, sel (cmul O (fst pq) s, cmul O (snd pq) s) = cmul O (sel pq) s) ->
  wf O a -> geometry O a = inl g ->
  a_footprint O a = false -> a_single O a = false ->
  recentred O a = true -> recentred O (mirror_y_rc_args O a) = true ->
  (k < length (a_levels O a))%nat -> (j < g_ny O g)%nat -> (i < g_nx O g)%nat ->
  get3 O (field O (mirror_y_rc_args O a) g sel (table_noNyq_y O (mirror_y_rc_args O a) g)) k j i
  = get3 O (field O a g sel (table_noNyq_y O a g)) k (g_ny O g - 1 - j) i.
Proof. exact mirror_y_rc_cells. Qed.

Theorem C07_mirror_y_recentred_defect : forall (O : Ops), Laws O -> forall (a : args O) (g : geom O) sel k j i,
  (forall pq s, sel (cmul O (fst pq) s, cmul O (snd pq) s) = cmul O (sel pq) s) ->
  wf O a -> geometry O a = inl g ->
  a_footprint O a = false -> a_single O a = false ->
  recentred O a = true -> recentred O (mirror_y_rc_args O a) = true ->
  (k < length (a_levels O a))%nat -> (j < g_ny O g)%nat -> (i < g_nx O g)%nat ->
  csub O (get3 O (field O (mirror_y_rc_args O a) g sel (table O (mirror_y_rc_args O a) g)) k j i)
         (get3 O (field O a g sel (table O a g)) k (g_ny O g - 1 - j) i)
  = csub O (get3 O (field O (mirror_y_rc_args O a) g sel (table_Nyq_y O (mirror_y_rc_args O a) g)) k j i)
           (get3 O (field O a g sel (table_Nyq_y O a g)) k (g_ny O g - 1 - j) i).
Proof. exact mirror_y_rc_cells_defect. Qed.

Theorem C07_mirror_y_recentred_odd : forall (O : Ops), Laws O -> forall (a : args O) (g : geom O) sel k j i,
  (forall pq s, sel (cmul O (fst pq) s, cmul O (snd pq) s) = cmul O (sel pq) s) ->
  wf O a -> geometry O a = inl g ->
  a_footprint O a = false -> a_single O a = false ->
  recentred O a = true -> recentred O (mirror_y_rc_args O a) = true ->
  Nat.odd (g_nly O g) = true ->
  (k < length (a_levels O a))%nat -> (j < g_ny O g)%nat -> (i < g_nx O g)%nat ->
  get3 O (field O (mirror_y_rc_args O a) g sel (table O (mirror_y_rc_args O a) g)) k j i
  = get3 O (field O a g sel (table O a g)) k (g_ny O g - 1 - j) i.
Proof. exact mirror_y_rc_cells_odd. Qed.

Theorem C07_mirror_y_recentred_even : forall (O : Ops), Laws O -> forall (a : args O) (g : geom O) sel k j i,
  (forall pq s, sel (cmul O (fst pq) s, cmul O (snd pq) s) = cmul O (sel pq) s) ->
  wf O a -> geometry O a = inl g ->
  a_footprint O a = false -> a_single O a = false ->
  recentred O a = true -> recentred O (mirror_y_rc_args O a) = true ->
  Nat.even (g_nly O g) = true ->
  (k < length (a_levels O a))%nat -> (j < g_ny O g)%nat -> (i < g_nx O g)%nat ->
  let drop := fun e : (Z * Z) * list (C O * C O) => negb (snd (fst e) =? - Z.of_nat (g_nly O g / 2))%Z in
  get3 O (field O (mirror_y_rc_args O a) g sel (filter drop (table O (mirror_y_rc_args O a) g))) k j i
  = get3 O (field O a g sel (filter drop (table O a g))) k (g_ny O g - 1 - j) i.
Proof. exact mirror_y_rc_cells_even. Qed.

(* NON-VACUITY (Proofs/C07MirrorRCExample.v, complex instance ROps): a concrete 2 x 3 dispersion request,
   domain 3 x 2, measurement point (1, 1), double storage, halo 0 — requested modes (2, 2) (even retained
   count) or (4, 4) (clamped to the odd count nlx = 3) — satisfies every hypothesis of the theorems above,
   for x and for y; its reflected measurement points are (2, 1) and (1, 1). *)
From Coq Require Import Reals.
From Coquelicot Require Import Complex.
From BL Require Import Base.ROps Proofs.C07MirrorRCExample.
Example C07_mirror_recentred_hypotheses_satisfiable :
  forall nl g, (nl = 2%nat /\ g = ex_geom 2 2) \/ (nl = 4%nat /\ g = ex_geom 3 2) ->
  let a := ex_args nl (RtoC 1) (RtoC 1) in
  wf ROps a /\ geometry ROps a = inl g /\ a_footprint ROps a = false /\ a_single ROps a = false /\
  recentred ROps a = true /\ recentred ROps (mirror_rc_args ROps a) = true /\
  recentred ROps (mirror_y_rc_args ROps a) = true /\
  (0 < length (a_levels ROps a))%nat /\ (0 < g_ny ROps g)%nat /\ (0 < g_nx ROps g)%nat /\
  a_xm ROps (mirror_rc_args ROps a) = RtoC 2 /\ a_ym ROps (mirror_y_rc_args ROps a) = RtoC 1.
Proof. exact mirror_rc_hypotheses_satisfiable. Qed.
Example C07_mirror_recentred_parities :
  Nat.even (g_nlx ROps (ex_geom 2 2)) = true /\ Nat.odd (g_nlx ROps (ex_geom 3 2)) = true.
Proof. exact ex_parities. Qed.
(* the hypothesis on the reflected point is not redundant: xm = xmx, ym = 0 is re-centred by the code, its
   reflection is the origin, which the code does not re-centre *)
Example C07_mirror_recentred_origin_excluded :
  let a := ex_args 2 (RtoC 3) (RtoC 0) in
  recentred ROps a = true /\ recentred ROps (mirror_rc_args ROps a) = false.
Proof. exact mirror_rc_origin_excluded. Qed.

Goal True. idtac "THEOREM C07_mirror_recentred_geometry". Abort. Print Assumptions C07_mirror_recentred_geometry.
Goal True. idtac "THEOREM C07_mirror_x_recentred". Abort. Print Assumptions C07_mirror_x_recentred.
Goal True. idtac "THEOREM C07_mirror_x_recentred_defect". Abort. Print Assumptions C07_mirror_x_recentred_defect.
Goal True. idtac "THEOREM C07_mirror_x_recentred_odd". Abort. Print Assumptions C07_mirror_x_recentred_odd.
Goal True. idtac "THEOREM C07_mirror_x_recentred_even". Abort. Print Assumptions C07_mirror_x_recentred_even.
Goal True. idtac "THEOREM C07_mirror_y_recentred". Abort. Print Assumptions C07_mirror_y_recentred.
Goal True. idtac "THEOREM C07_mirror_y_recentred_defect". Abort. Print Assumptions C07_mirror_y_recentred_defect.
Goal True. idtac "THEOREM C07_mirror_y_recentred_odd". Abort. Print Assumptions C07_mirror_y_recentred_odd.
Goal True. idtac "THEOREM C07_mirror_y_recentred_even". Abort. Print Assumptions C07_mirror_y_recentred_even.
Goal True. idtac "THEOREM C07_mirror_recentred_hypotheses_satisfiable". Abort. Print Assumptions C07_mirror_recentred_hypotheses_satisfiable.
Goal True. idtac "THEOREM C07_mirror_recentred_origin_excluded". Abort. Print Assumptions C07_mirror_recentred_origin_excluded.
