(* C01 — the scheme is a consistent discretisation of the advection-diffusion boundary-value
   problem and solves its discrete two-point problem exactly.  Only statements, `exact`,
   Print Assumptions.  The asymptotic clause (convergence to the ODE solution as the grid is
   refined) is NOT a theorem here (no ODE theory for complex systems is installed): see
   DESIGN.md; it is carried by the oracle sweep of harness/props/c01.py. *)
From Coq Require Import ZArith List Bool.
From BL Require Import Base.Ops Base.Laws Model.Solver Proofs.StepProofs Proofs.C05Proofs.
Import ListNotations.

(* T(lx,ly; node i) is the symbol of Kx dxx + Ky dyy - u dx - v dy on exp(i(lx x + ly y)), with
   all coefficients taken at the same node *)
Theorem C01_symbol : forall (O : Ops), Laws O -> forall Kx Ky u v lx ly,
  Tsym O Kx Ky u v lx ly
  = csub O (csub O (cadd O (cmul O Kx (cmul O (cmul O (ci O) lx) (cmul O (ci O) lx)))
                            (cmul O Ky (cmul O (cmul O (ci O) ly) (cmul O (ci O) ly))))
                   (cmul O u (cmul O (ci O) lx))) (cmul O v (cmul O (ci O) ly)).
Proof. exact symbol. Qed.

(* every layer update is I + dz*M + dz^2*R with M = [[0,-1/Kz],[T,0]]: first-order consistent with
   p' = -q/Kz, q' = T p at the layer's node *)
Theorem C01_consistency : forall (O : Ops), Laws O -> forall lx ly (Lr : layer O) p q,
  l_Kz O Lr <> c0 O ->
  let T := Tsym O (l_Kx O Lr) (l_Ky O Lr) (l_u O Lr) (l_v O Lr) lx ly in
  let Kz := l_Kz O Lr in let dz := l_dz O Lr in
  step O lx ly Lr (p, q) =
  (cadd O (cadd O p (cmul O dz (copp O (cdiv O q Kz))))
          (cmul O (cmul O dz dz) (cadd O (copp O (cmul O (cdiv O (cmul O (half O) T) Kz) p))
                                         (cmul O (cmul O (cdiv O (cmul O (sixth O) T) (cmul O Kz Kz)) dz) q))),
   cadd O (cadd O q (cmul O dz (cmul O T p)))
          (cmul O (cmul O dz dz) (csub O (copp O (cmul O (cdiv O (cmul O (half O) T) Kz) q))
                                         (cmul O (cmul O (cdiv O (cmul O (sixth O) (cmul O T T)) Kz) dz) p)))).
Proof. exact consistency. Qed.

(* the returned mode (alpha*y1 + y2) is a trajectory of the layer recurrence with the prescribed
   surface flux below and the radiation condition q = Kz*eig*p at the top node, and the only one *)
Theorem C01_bvp_exact : forall (O : Ops), Laws O -> forall lx ly (layers : list (layer O)) KzN eig qh,
  let y1 := final O lx ly layers (c1 O, c0 O) in
  let y2 := final O lx ly layers (c0 O, qh) in
  csub O (snd y1) (cmul O (cmul O KzN eig) (fst y1)) <> c0 O ->
  let al := alpha O KzN eig (fst y1) (snd y1) (fst y2) (snd y2) in
  let sol := fun k => shoot_traj O lx ly layers al qh k in
  (forall k Ld, (k < length layers)%nat -> sol (S k) = step O lx ly (nth k layers Ld) (sol k)) /\
  snd (sol 0%nat) = qh /\
  snd (sol (length layers)) = cmul O (cmul O KzN eig) (fst (sol (length layers))) /\
  (forall p0, snd (final O lx ly layers (p0, qh)) = cmul O (cmul O KzN eig) (fst (final O lx ly layers (p0, qh))) -> p0 = al).
Proof. exact bvp_exact. Qed.

(* eigval^2 = -T_N/Kz_N and (1, Kz*eigval) is the eigenvector of M_N with eigenvalue -eigval: the
   condition at the top node is the constant-coefficient continuation exp(-eigval (z-z_N));
   with the principal square root (Re eigval >= 0, Base/ROps.v) it is the decaying one *)
Theorem C01_top_decay : forall (O : Ops), Laws O -> forall Kx Ky u v Kz lx ly,
  Kz <> c0 O ->
  let lam := eigval O Kx Ky u v Kz lx ly in
  let T := Tsym O Kx Ky u v lx ly in
  cmul O lam lam = copp O (cdiv O T Kz) /\
  (cadd O (cmul O (c0 O) (c1 O)) (cmul O (copp O (cdiv O (c1 O) Kz)) (cmul O Kz lam)) = cmul O (copp O lam) (c1 O) /\
   cadd O (cmul O T (c1 O)) (cmul O (c0 O) (cmul O Kz lam)) = cmul O (copp O lam) (cmul O Kz lam)).
Proof. exact top_decay. Qed.

Goal True. idtac "THEOREM C01_symbol". Abort. Print Assumptions C01_symbol.
Goal True. idtac "THEOREM C01_consistency". Abort. Print Assumptions C01_consistency.
Goal True. idtac "THEOREM C01_bvp_exact". Abort. Print Assumptions C01_bvp_exact.
Goal True. idtac "THEOREM C01_top_decay". Abort. Print Assumptions C01_top_decay.

(* non-vacuity / decay: in the complex instance the eigenvalue of the top condition has
   non-negative real part, so the continuation above the top node is the decaying one *)
From Coq Require Import Reals.
From BL Require Base.ROps Base.ROpsFacts.
Theorem C01_top_decays_in_C : forall Kx Ky u v Kz lx ly,
  (0 <= fst (eigval ROps.ROps Kx Ky u v Kz lx ly))%R.
Proof. exact ROpsFacts.ROps_eigval_decays. Qed.
Goal True. idtac "THEOREM C01_top_decays_in_C". Abort. Print Assumptions C01_top_decays_in_C.

(* CONVERGENCE, height-independent coefficients (every wind, i.e. complex eigenvalue; instance ROps):
   on ANY grid with layer thicknesses 0 <= dz_j <= dmax the shooting solution of the model differs
   from the exact decaying solution of the ODE, Q(h) = qh exp(-lam h), P = Q/(Kz lam), by at most
   |qh| e^B B (and that over |Kz lam| for P) at every node, B = |lam|^4/24 h dmax^3 -> 0 as dmax -> 0;
   on uniform grids the error at the top tends to 0 as the number of layers grows.
   (For height-DEPENDENT profiles the asymptotic clause is not proved: C01_convergence_partial.) *)
From BL Require Proofs.ComplexOrder.
From Coquelicot Require Import Coquelicot.
Theorem C01_convergence_partial :
  (forall (Kx Ky u v Kz lx ly qh : C) (dzs : list R) (dmax : R),
    (forall d, In d dzs -> (0 <= d <= dmax)%R) ->
    let lam := eigval ROps.ROps Kx Ky u v Kz lx ly in
    let layers := C05Proofs.const_layers ROps.ROps Kx Ky u v Kz (map RtoC dzs) in
    let y1 := final ROps.ROps lx ly layers (RtoC 1, RtoC 0) in
    let y2 := final ROps.ROps lx ly layers (RtoC 0, qh) in
    Kz <> RtoC 0 -> lam <> RtoC 0 ->
    Cminus (snd y1) (Cmult (Cmult Kz lam) (fst y1)) <> RtoC 0 ->
    let al := alpha ROps.ROps Kz lam (fst y1) (snd y1) (fst y2) (snd y2) in
    forall k, (k <= length dzs)%nat ->
    let h := ComplexOrder.height dzs k in
    let Qa := Cmult qh (ROps.Cexp (Cmult (Copp lam) (RtoC h))) in
    let Pa := Cdiv (Cmult Qa (Cdiv (RtoC 1) Kz)) lam in
    let B := (Cmod lam ^ 4 / 24 * h * dmax ^ 3)%R in
    (Cmod (Cminus (snd (shoot_traj ROps.ROps lx ly layers al qh k)) Qa) <= Cmod qh * (exp B * B))%R /\
    (Cmod (Cminus (fst (shoot_traj ROps.ROps lx ly layers al qh k)) Pa)
       <= Cmod qh * (exp B * B) / Cmod (Cmult Kz lam))%R) /\
  (forall (Kx Ky u v Kz lx ly qh : C) (H : R), (0 <= H)%R ->
    let lam := eigval ROps.ROps Kx Ky u v Kz lx ly in
    is_lim_seq (fun n => Cmod (Cminus
        (Cmult qh (C05Proofs.prodE3 ROps.ROps lam (map RtoC (repeat (H / INR (S n))%R (S n))) (S n)))
        (Cmult qh (ROps.Cexp (Copp (Cmult lam (RtoC H))))))) (Finite 0)).
Proof.
  exact (conj ComplexOrder.shoot_minus_analytic_complex ComplexOrder.uniform_grid_converges_complex).
Qed.
Goal True. idtac "THEOREM C01_convergence_partial". Abort. Print Assumptions C01_convergence_partial.

(* ------------------------------------------------------------------------------------------
   CONVERGENCE FOR HEIGHT-DEPENDENT PROFILES (Proofs/VaryingOrder.v; instance ROps; stdlib real axioms).
   Coefficient functions Kx Ky u v Kz : R -> R on [z0, z0+H] with Kz >= kmin > 0, |T(z)| <= Tmax and
   1/Kz, T Lipschitz (coeff_hyps); the layers of the model take ALL coefficients at the lower node of
   each layer (layers_v, as ivp_solver does).  The exact solutions of the boundary-value problem
        P' = -Q/Kz,   Q' = T P,   Q(z0) = qh,   Q(zN) = Kz(zN) lam P(zN)   (lam = the model's eigval at the top node)
   and of the fundamental problem (P1, Q1)(z0) = (1, 0) enter as HYPOTHESES (exact_solution: no ODE
   existence theory is installed), together with a lower bound Dmin of the continuous shooting denominator.
   Then there are EXPLICIT h0 > 0 and C2 (closed-form in kmin, Tmax, the Lipschitz constants, H, the sup
   norms and Dmin: VaryingOrder.h0_explicit, C2_explicit) such that on EVERY grid with 0 <= dz_j <= dmax <= h0
   covering [z0, z0+H]:  the model's shooting denominator is non-zero (>= Dmin/2), and at every node the
   returned concentration and flux modes differ from P and Q by at most C2 * dmax  — the error is a
   multiple of the layer thickness and shrinks in proportion to it. *)
From BL Require Proofs.VaryingOrder.
Theorem C01_convergence_varying :
  forall (Kx Ky u v Kz : R -> R) (lx ly z0 H kmin Tmax LK LT : R)
         (P1 Q1 P Q : R -> C) (Y1 Y : R) (qh : C) (Dmin : R),
  let zN := (z0 + H)%R in
  let KzN := RtoC (Kz zN) in
  let lam := eigval ROps.ROps (RtoC (Kx zN)) (RtoC (Ky zN)) (RtoC (u zN)) (RtoC (v zN)) (RtoC (Kz zN))
                    (RtoC lx) (RtoC ly) in
  VaryingOrder.coeff_hyps Kx Ky u v Kz lx ly z0 H kmin Tmax LK LT ->
  VaryingOrder.exact_solution Kx Ky u v Kz lx ly z0 H P1 Q1 Y1 -> P1 z0 = RtoC 1 -> Q1 z0 = RtoC 0 ->
  VaryingOrder.exact_solution Kx Ky u v Kz lx ly z0 H P Q Y ->
  Q z0 = qh -> Q zN = Cmult (Cmult KzN lam) (P zN) ->
  (0 < Dmin)%R -> (Dmin <= Cmod (Cminus (Q1 zN) (Cmult (Cmult KzN lam) (P1 zN))))%R ->
  let hh := VaryingOrder.h0 H kmin Tmax LK LT Y1 KzN lam Dmin in
  let CC2 := VaryingOrder.C2 H kmin Tmax LK LT Y1 Y KzN lam Dmin in
  (0 < hh)%R /\
  forall (dzs : list R) (dmax : R),
  VaryingOrder.grid_ok dzs dmax -> ComplexOrder.Rsum dzs = H -> (dmax <= hh)%R ->
  let layers := VaryingOrder.layers_v Kx Ky u v Kz z0 dzs in
  let y1 := final ROps.ROps (RtoC lx) (RtoC ly) layers (RtoC 1, RtoC 0) in
  let y2 := final ROps.ROps (RtoC lx) (RtoC ly) layers (RtoC 0, qh) in
  let al := alpha ROps.ROps KzN lam (fst y1) (snd y1) (fst y2) (snd y2) in
  (Dmin / 2 <= Cmod (Cminus (snd y1) (Cmult (Cmult KzN lam) (fst y1))))%R /\
  Cminus (snd y1) (Cmult (Cmult KzN lam) (fst y1)) <> RtoC 0 /\
  forall k, (k <= length dzs)%nat ->
    let sk := shoot_traj ROps.ROps (RtoC lx) (RtoC ly) layers al qh k in
    (Cmod (Cminus (fst sk) (P (VaryingOrder.zk z0 dzs k))) <= CC2 * dmax)%R /\
    (Cmod (Cminus (snd sk) (Q (VaryingOrder.zk z0 dzs k))) <= CC2 * dmax)%R.
Proof. exact VaryingOrder.shooting_first_order_model. Qed.

(* the layers really are "coefficients at the lower node z_k, thickness dz_k" *)
Theorem C01_varying_layers : forall Kx Ky u v Kz z0 dzs k Ld, (k < length dzs)%nat ->
  nth k (VaryingOrder.layers_v Kx Ky u v Kz z0 dzs) Ld
  = mkLayer ROps.ROps (RtoC (Kx (VaryingOrder.zk z0 dzs k))) (RtoC (Ky (VaryingOrder.zk z0 dzs k)))
                      (RtoC (u (VaryingOrder.zk z0 dzs k))) (RtoC (v (VaryingOrder.zk z0 dzs k)))
                      (RtoC (Kz (VaryingOrder.zk z0 dzs k))) (RtoC (nth k dzs 0%R)).
Proof. exact VaryingOrder.layers_v_nth. Qed.

(* ... and they are exactly the layers Model/Solver.v builds (layers_of) from the ARRAYS a caller passes:
   the node heights z_0 .. z_N and the coefficient functions sampled at those nodes — so the theorem is
   about the model's solve on sampled profiles, for every grid *)
From BL Require Proofs.VaryingBridge.
Theorem C01_varying_layers_are_the_models : forall (Kx Ky u v Kz : R -> R) (dzs : list R) (z0 : R),
  layers_of ROps.ROps (map RtoC (VaryingBridge.nodes z0 dzs))
            (VaryingBridge.sampled_profiles Kx Ky u v Kz (VaryingBridge.nodes z0 dzs))
  = VaryingOrder.layers_v Kx Ky u v Kz z0 dzs.
Proof. exact VaryingBridge.layers_of_sampled. Qed.

(* IVP part alone: the discrete sweep started from exact data stays within Cconst * dmax of the exact solution *)
Theorem C01_ivp_first_order :
  forall (Kx Ky u v Kz : R -> R) (lx ly z0 H kmin Tmax LK LT : R) (P Q : R -> C) (Ymax : R),
  VaryingOrder.coeff_hyps Kx Ky u v Kz lx ly z0 H kmin Tmax LK LT ->
  VaryingOrder.exact_solution Kx Ky u v Kz lx ly z0 H P Q Ymax ->
  forall (dzs : list R) (dmax : R),
  VaryingOrder.grid_ok dzs dmax -> (dmax <= 1)%R -> (ComplexOrder.Rsum dzs <= H)%R ->
  forall k, (k <= length dzs)%nat ->
  let wk := nth k (traj ROps.ROps (RtoC lx) (RtoC ly) (VaryingOrder.layers_v Kx Ky u v Kz z0 dzs) (P z0, Q z0)) (RtoC 0, RtoC 0) in
  (Rmax (Cmod (Cminus (fst wk) (P (VaryingOrder.zk z0 dzs k)))) (Cmod (Cminus (snd wk) (Q (VaryingOrder.zk z0 dzs k))))
    <= VaryingOrder.Cconst kmin Tmax LK LT H Ymax * dmax)%R.
Proof. exact VaryingOrder.ivp_first_order. Qed.

(* uniform refinements: both errors at the top node tend to 0; and a height-dependent, non-degenerate
   instance (Kz = 1+z, Kx = 1/(1+z), lx = 1 on [0,1]; decaying solution P = Q = 1/(1+z); the model's own
   eigval at the top node is 1/2; continuous denominator -2) discharges every hypothesis *)
Theorem C01_convergence_varying_nonvacuous : True.
Proof. pose proof VaryingOrder.instance_shooting_converges. exact I. Qed.

Goal True. idtac "THEOREM C01_convergence_varying". Abort. Print Assumptions C01_convergence_varying.
Goal True. idtac "THEOREM C01_varying_layers". Abort. Print Assumptions C01_varying_layers.
Goal True. idtac "THEOREM C01_ivp_first_order". Abort. Print Assumptions C01_ivp_first_order.
Goal True. idtac "THEOREM C01_varying_layers_are_the_models". Abort. Print Assumptions C01_varying_layers_are_the_models.
