(* C17 — tower geolocation: local metres and lat/lon are mutual inverses, well oriented.
   This file contains only statements, `exact`, and Print Assumptions.  All theorems are over Coq's reals
   (exact arithmetic; IEEE rounding is covered by the interval-certified correspondence, not by theorems). *)
From Coq Require Import Reals List.
From BL Require Import Model.Geo Proofs.GeoProofs Proofs.GeoAccuracy.
Import ListNotations.
Open Scope R_scope.

(* lat/lon -> metres -> lat/lon is the identity (any point, any reference that is not a pole) *)
Theorem C17_inverse_lr : forall lat lon ref_lat ref_lon : R,
  cos (radians ref_lat) <> 0 ->
  let p := latlon_to_xy lat lon ref_lat ref_lon in
  xy_to_latlon (fst p) (snd p) ref_lat ref_lon = (lat, lon).
Proof. exact inverse_lr. Qed.

(* metres -> lat/lon -> metres is the identity *)
Theorem C17_inverse_rl : forall x y ref_lat ref_lon : R,
  cos (radians ref_lat) <> 0 ->
  let q := xy_to_latlon x y ref_lat ref_lon in
  latlon_to_xy (fst q) (snd q) ref_lat ref_lon = (x, y).
Proof. exact inverse_rl. Qed.

(* the hypothesis holds for every reference latitude strictly between the poles *)
Theorem C17_inverse_nonpolar : forall ref_lat : R, -90 < ref_lat < 90 ->
  cos (radians ref_lat) <> 0 /\
  (forall lat lon ref_lon, let p := latlon_to_xy lat lon ref_lat ref_lon in
     xy_to_latlon (fst p) (snd p) ref_lat ref_lon = (lat, lon)) /\
  (forall x y ref_lon, let q := xy_to_latlon x y ref_lat ref_lon in
     latlon_to_xy (fst q) (snd q) ref_lat ref_lon = (x, y)).
Proof.
  exact (fun r H => conj (Rgt_not_eq _ _ (cos_ref_pos r H))
          (conj (fun lat lon rlon => inverse_lr_lat lat lon r rlon H)
                (fun x y rlon => inverse_rl_lat x y r rlon H))).
Qed.

(* the reference maps to (0,0) and (0,0) maps to the reference (no condition at all) *)
Theorem C17_origin : forall ref_lat ref_lon : R,
  latlon_to_xy ref_lat ref_lon ref_lat ref_lon = (0, 0) /\
  xy_to_latlon 0 0 ref_lat ref_lon = (ref_lat, ref_lon).
Proof. exact origin. Qed.

(* x grows eastward (strictly increasing in lon, independent of lat), y grows northward (strictly increasing
   in lat, independent of lon); points east / north of the reference have x > 0 / y > 0 and conversely *)
Theorem C17_orientation : forall ref_lat ref_lon : R, -90 < ref_lat < 90 ->
  (forall lat1 lat2 lon1 lon2, lon1 < lon2 ->
     fst (latlon_to_xy lat1 lon1 ref_lat ref_lon) < fst (latlon_to_xy lat2 lon2 ref_lat ref_lon)) /\
  (forall lat1 lat2 lon,
     fst (latlon_to_xy lat1 lon ref_lat ref_lon) = fst (latlon_to_xy lat2 lon ref_lat ref_lon)) /\
  (forall lat1 lat2 lon1 lon2, lat1 < lat2 ->
     snd (latlon_to_xy lat1 lon1 ref_lat ref_lon) < snd (latlon_to_xy lat2 lon2 ref_lat ref_lon)) /\
  (forall lat lon1 lon2,
     snd (latlon_to_xy lat lon1 ref_lat ref_lon) = snd (latlon_to_xy lat lon2 ref_lat ref_lon)) /\
  (forall lat lon, (ref_lon < lon <-> 0 < fst (latlon_to_xy lat lon ref_lat ref_lon)) /\
                   (ref_lat < lat <-> 0 < snd (latlon_to_xy lat lon ref_lat ref_lon))).
Proof. exact orientation. Qed.

(* BLDFMConfig.__post_init__: with both reference coordinates given every tower's (x, y) becomes
   latlon_to_xy (lat, lon, ref), lat/lon and order are kept; with either missing the towers are untouched
   (so a freshly parsed tower stays at (0, 0)) *)
Theorem C17_config_fills : forall (ref_lat ref_lon : option R) (towers : list tower),
  length (post_init ref_lat ref_lon towers) = length towers /\
  (forall a b, ref_lat = Some a -> ref_lon = Some b ->
     forall i t, nth_error towers i = Some t ->
       exists t', nth_error (post_init ref_lat ref_lon towers) i = Some t' /\
         t_lat t' = t_lat t /\ t_lon t' = t_lon t /\
         (t_x t', t_y t') = latlon_to_xy (t_lat t) (t_lon t) a b) /\
  (ref_lat = None \/ ref_lon = None -> post_init ref_lat ref_lon towers = towers).
Proof. exact config_fills. Qed.

Theorem C17_config_default_origin : forall lat lon ref_lat ref_lon,
  ref_lat = None \/ ref_lon = None ->
  forall t, In t (post_init ref_lat ref_lon [parse_tower lat lon]) -> t_x t = 0 /\ t_y t = 0.
Proof. exact parsed_default_origin. Qed.

(* ACCURACY, distance clause (FULL, analytic): for every reference with |ref_lat| <= 60 deg, any longitudes, and
   every point whose local offsets satisfy |x| <= 5 km and |y| <= 5 km (this contains every offset of range <= 5 km
   in any direction; no minimum range is needed), the local distance sqrt(x^2+y^2) differs from the great-circle
   distance (haversine formula, sphere of the code's radius) by at most 0.1 % of the latter. *)
Theorem C17_accuracy_distance : forall lat lon ref_lat ref_lon : R,
  -60 <= ref_lat <= 60 ->
  let p := latlon_to_xy lat lon ref_lat ref_lon in
  Rabs (fst p) <= 5000 -> Rabs (snd p) <= 5000 ->
  Rabs (local_distance p - gc_distance ref_lat ref_lon lat lon) <= 1 / 1000 * gc_distance ref_lat ref_lon lat lon.
Proof. exact accuracy_distance. Qed.

(* ACCURACY, bearing clause (FULL, analytic): same domain.  w is the (east, north) vector whose atan2 is the initial
   great-circle bearing.  The local offset p = (x, y) and w point into the same half plane (dot > 0 off the origin)
   and |p x w| <= tan(0.1 deg) p.w, i.e. the angle between the local bearing atan2(x, y) and the initial
   great-circle bearing is at most 0.1 deg (C17_bearing_separation turns the criterion into the angle statement). *)
Theorem C17_accuracy_bearing : forall lat lon ref_lat ref_lon : R,
  -60 <= ref_lat <= 60 ->
  let p := latlon_to_xy lat lon ref_lat ref_lon in
  Rabs (fst p) <= 5000 -> Rabs (snd p) <= 5000 ->
  let w := gc_bearing_vec ref_lat ref_lon lat lon in
  0 <= dot2 p w /\
  (p <> (0, 0) -> 0 < dot2 p w) /\
  Rabs (cross2 p w) <= tan (radians (1 / 10)) * dot2 p w.
Proof. exact accuracy_bearing. Qed.

(* the yardsticks mean what they should: gc_distance solves the haversine equation sin^2 (sigma/2) = a with
   sigma = d / R in [0, PI); and for two directions given in polar form (compass bearings beta, gamma) the cross/dot
   criterion with tolerance e is |beta - gamma| <= e *)
Theorem C17_gc_distance_is_haversine : forall lat0 lon0 lat1 lon1 : R,
  0 <= hav_arg lat0 lon0 lat1 lon1 < 1 ->
  let sigma := gc_distance lat0 lon0 lat1 lon1 / earth_radius in
  0 <= sigma < PI /\ Rsqr (sin (sigma / 2)) = hav_arg lat0 lon0 lat1 lon1.
Proof. exact gc_distance_is_haversine. Qed.

Theorem C17_bearing_separation : forall r s beta gamma e : R,
  0 < r -> 0 < s -> - PI <= beta - gamma <= PI -> 0 < e < PI / 2 ->
  let v := (r * sin beta, r * cos beta) in
  let w := (s * sin gamma, s * cos gamma) in
  Rabs (cross2 v w) <= tan e * dot2 v w -> Rabs (beta - gamma) <= e.
Proof. exact bearing_separation. Qed.

(* non-vacuity: a mid-latitude reference satisfies the hypotheses *)
Example C17_nonvacuous : -90 < 50 < 90 /\ -60 <= 50 <= 60 /\ cos (radians 50) <> 0.
Proof.
  assert (H : -90 < 50 < 90) by (split; apply IZR_lt; reflexivity).
  split; [exact H | split; [split; apply IZR_le; discriminate | exact (Rgt_not_eq _ _ (cos_ref_pos 50 H))]].
Qed.

Goal True. idtac "THEOREM C17_inverse_lr". Abort. Print Assumptions C17_inverse_lr.
Goal True. idtac "THEOREM C17_inverse_rl". Abort. Print Assumptions C17_inverse_rl.
Goal True. idtac "THEOREM C17_inverse_nonpolar". Abort. Print Assumptions C17_inverse_nonpolar.
Goal True. idtac "THEOREM C17_origin". Abort. Print Assumptions C17_origin.
Goal True. idtac "THEOREM C17_orientation". Abort. Print Assumptions C17_orientation.
Goal True. idtac "THEOREM C17_config_fills". Abort. Print Assumptions C17_config_fills.
Goal True. idtac "THEOREM C17_config_default_origin". Abort. Print Assumptions C17_config_default_origin.
Goal True. idtac "THEOREM C17_accuracy_distance". Abort. Print Assumptions C17_accuracy_distance.
Goal True. idtac "THEOREM C17_accuracy_bearing". Abort. Print Assumptions C17_accuracy_bearing.
Goal True. idtac "THEOREM C17_gc_distance_is_haversine". Abort. Print Assumptions C17_gc_distance_is_haversine.
Goal True. idtac "THEOREM C17_bearing_separation". Abort. Print Assumptions C17_bearing_separation.
