(* Single-precision STORAGE (precision="single": the per-mode, per-level spectral amplitudes are kept in
   complex64 arrays) as explicit error bounds — C02 ("both precisions"), C04, C12 ("single differs from
   double only by storage rounding").  Only statements, `exact`, Print Assumptions.

   Instance: ROpsR rnd = the complex instance ROps with cround := rnd, an ARBITRARY function subject to the
   standard relative-error model of storage rounding   |rnd x - x| <= eps |x|   (binary32: eps = 2^-24 per
   component).  dbl a = the same request with double storage.  Bounds are in terms of the EXACT
   (double-storage) amplitudes of the model:
     Smodes a g sel k = sum over retained modes of |sel (amp (dbl a) g t k)| * |shift|,
     Afw a g p sel k  = sum over retained modes of |sel (amp (dbl (forward request)) g t k)|,
     epsP a = eps (numerical branch) or eps (2 + eps) (analytic branch: the code stores Q in complex64 and
              computes P from the STORED Q, so P is rounded twice — Model/Solver.v mirrors that). *)
From Coq Require Import Reals List ZArith Lra.
From Coquelicot Require Import Coquelicot.
From BL Require Import Base.Ops Base.Laws Base.ROps Model.Solver Proofs.SpecProofs Proofs.C04Proofs
  Proofs.C02Proofs Proofs.PrecisionProofs Proofs.SinglePrecision.
Import ListNotations.
Local Open Scope R_scope.
Notation CC := Complex.C.

(* the rounding instance satisfies every law the exact theorems use *)
Theorem Single_instance_laws : forall rnd : CC -> CC, Laws (ROpsR rnd).
Proof. exact ROpsR_laws. Qed.

(* C12: every cell of both fields of the single-storage solve is within eps * Smodes of the double-storage solve *)
Theorem C12_single_vs_double_bound :
  forall (rnd : CC -> CC) (eps : R), 0 <= eps -> (forall x : CC, Cmod (Cminus (rnd x) x) <= eps * Cmod x) ->
  forall (a : args (ROpsR rnd)) (g : geom (ROpsR rnd)) (k j i : nat),
  wf (ROpsR rnd) a -> a_single (ROpsR rnd) a = true -> geometry (ROpsR rnd) a = inl g ->
  (k < length (a_levels (ROpsR rnd) a))%nat -> (j < g_ny (ROpsR rnd) g)%nat -> (i < g_nx (ROpsR rnd) g)%nat ->
  let d := with_single (ROpsR rnd) a false in
  Cmod (Cminus (get3 (ROpsR rnd) (field (ROpsR rnd) a g snd (table (ROpsR rnd) a g)) k j i)
               (get3 (ROpsR rnd) (field (ROpsR rnd) d g snd (table (ROpsR rnd) d g)) k j i))
    <= eps * Smodes rnd a g snd k
  /\
  Cmod (Cminus (get3 (ROpsR rnd) (field (ROpsR rnd) a g fst (table (ROpsR rnd) a g)) k j i)
               (get3 (ROpsR rnd) (field (ROpsR rnd) d g fst (table (ROpsR rnd) d g)) k j i))
    <= epsP rnd eps a * Smodes rnd a g fst k.
Proof. exact field_single_bound. Qed.

(* C02: reciprocity with single storage — the defect is at most 2 eps times the sum of the moduli of the exact
   forward-run amplitudes (flux), and epsP times the analogous sum for the concentration above background *)
Theorem C02_reciprocity_single_bound :
  forall (rnd : CC -> CC) (eps : R), 0 <= eps -> (forall x : CC, Cmod (Cminus (rnd x) x) <= eps * Cmod x) ->
  forall (a : args (ROpsR rnd)) (g : geom (ROpsR rnd)) (im jm : nat) (p : CC) (k : nat),
  wf (ROpsR rnd) a -> a_single (ROpsR rnd) a = true ->
  (forall j i, cre (ROpsR rnd) (cellq (ROpsR rnd) (a_q0 (ROpsR rnd) a) j i) = cellq (ROpsR rnd) (a_q0 (ROpsR rnd) a) j i) ->
  geometry (ROpsR rnd) (fp_req (ROpsR rnd) a
      (cmul (ROpsR rnd) (cofZ (ROpsR rnd) (Z.of_nat im)) (g_dx (ROpsR rnd) g))
      (cmul (ROpsR rnd) (cofZ (ROpsR rnd) (Z.of_nat jm)) (g_dy (ROpsR rnd) g))) = inl g ->
  g_dx (ROpsR rnd) g <> c0 (ROpsR rnd) -> g_dy (ROpsR rnd) g <> c0 (ROpsR rnd) ->
  g_nxe (ROpsR rnd) g <> 0%nat -> g_nye (ROpsR rnd) g <> 0%nat ->
  (0 < g_nlx (ROpsR rnd) g)%nat -> (0 < g_nly (ROpsR rnd) g)%nat ->
  (im < g_nx (ROpsR rnd) g)%nat -> (jm < g_ny (ROpsR rnd) g)%nat ->
  (k < length (a_levels (ROpsR rnd) a))%nat ->
  let afp := fp_req (ROpsR rnd) a
      (cmul (ROpsR rnd) (cofZ (ROpsR rnd) (Z.of_nat im)) (g_dx (ROpsR rnd) g))
      (cmul (ROpsR rnd) (cofZ (ROpsR rnd) (Z.of_nat jm)) (g_dy (ROpsR rnd) g)) in
  let afw := fw_req (ROpsR rnd) a p in
  Cmod (Cminus
      (csum (ROpsR rnd) (map (fun j => csum (ROpsR rnd) (map (fun i =>
          Cmult (cellq (ROpsR rnd) (a_q0 (ROpsR rnd) a) j i)
                (get3 (ROpsR rnd) (field (ROpsR rnd) afp g snd (table (ROpsR rnd) afp g)) k j i))
          (seq 0 (g_nx (ROpsR rnd) g)))) (seq 0 (g_ny (ROpsR rnd) g))))
      (get3 (ROpsR rnd) (field (ROpsR rnd) afw g snd (table (ROpsR rnd) afw g)) k jm im))
    <= eps * (2 * Afw rnd a g p snd k)
  /\
  Cmod (Cminus
      (csum (ROpsR rnd) (map (fun j => csum (ROpsR rnd) (map (fun i =>
          Cmult (cellq (ROpsR rnd) (a_q0 (ROpsR rnd) a) j i)
                (get3 (ROpsR rnd) (field (ROpsR rnd) afp g fst (table (ROpsR rnd) afp g)) k j i))
          (seq 0 (g_nx (ROpsR rnd) g)))) (seq 0 (g_ny (ROpsR rnd) g))))
      (Cminus (get3 (ROpsR rnd) (field (ROpsR rnd) afw g fst (table (ROpsR rnd) afw g)) k jm im) (Cre p)))
    <= epsP rnd eps a * (Afw0 rnd a g p k + Afw rnd a g p fst k).
Proof. exact reciprocity_single_bound_sharp. Qed.

(* C04: linearity with single storage, cell by cell *)
Theorem C04_linear_single_bound :
  forall (rnd : CC -> CC) (eps : R), 0 <= eps -> (forall x : CC, Cmod (Cminus (rnd x) x) <= eps * Cmod x) ->
  forall (a : args (ROpsR rnd)) (q1 q2 q : list (list CC)) (p1 p2 p s1 s2 : CC) (g : geom (ROpsR rnd)) (k j i : nat),
  wf (ROpsR rnd) (with_src (ROpsR rnd) a q1 p1) -> wf (ROpsR rnd) (with_src (ROpsR rnd) a q2 p2) ->
  wf (ROpsR rnd) (with_src (ROpsR rnd) a q p) ->
  same_shape (ROpsR rnd) q q1 -> same_shape (ROpsR rnd) q q2 ->
  a_footprint (ROpsR rnd) a = false -> a_single (ROpsR rnd) a = true ->
  cre (ROpsR rnd) s1 = s1 -> cre (ROpsR rnd) s2 = s2 ->
  (forall j0 i0, (j0 < length q)%nat -> (i0 < length (hd [] q))%nat ->
     cellq (ROpsR rnd) q j0 i0 = Cplus (Cmult s1 (cellq (ROpsR rnd) q1 j0 i0)) (Cmult s2 (cellq (ROpsR rnd) q2 j0 i0))) ->
  p = Cplus (Cmult s1 p1) (Cmult s2 p2) ->
  geometry (ROpsR rnd) (with_src (ROpsR rnd) a q p) = inl g ->
  (k < length (a_levels (ROpsR rnd) a))%nat -> (j < g_ny (ROpsR rnd) g)%nat -> (i < g_nx (ROpsR rnd) g)%nat ->
  let cell := fun (sel : CC * CC -> CC) (q0 : list (list CC)) (p0 : CC) =>
    get3 (ROpsR rnd) (field (ROpsR rnd) (with_src (ROpsR rnd) a q0 p0) g sel
                            (table (ROpsR rnd) (with_src (ROpsR rnd) a q0 p0) g)) k j i in
  Cmod (Cminus (cell snd q p) (Cplus (Cmult s1 (cell snd q1 p1)) (Cmult s2 (cell snd q2 p2))))
    <= eps * Blin rnd a g q1 q2 q p1 p2 p s1 s2 snd k
  /\
  Cmod (Cminus (cell fst q p) (Cplus (Cmult s1 (cell fst q1 p1)) (Cmult s2 (cell fst q2 p2))))
    <= epsP rnd eps a * Blin rnd a g q1 q2 q p1 p2 p s1 s2 fst k.
Proof. exact linearity_single_cells. Qed.

(* non-vacuity: a rounding function satisfying the model that is not the identity; and with eps = 0 the bounds
   give back the exact theorems *)
Example Single_rounding_model_satisfiable : forall eps : R, 0 < eps ->
  (forall x, Cmod (Cminus (rnd_scale eps x) x) <= eps * Cmod x) /\ rnd_scale eps (RtoC 1) <> RtoC 1.
Proof. intros eps He. split; [apply rnd_scale_model; lra|apply rnd_scale_not_id; exact He]. Qed.

Goal True. idtac "THEOREM Single_instance_laws". Abort. Print Assumptions Single_instance_laws.
Goal True. idtac "THEOREM C12_single_vs_double_bound". Abort. Print Assumptions C12_single_vs_double_bound.
Goal True. idtac "THEOREM C02_reciprocity_single_bound". Abort. Print Assumptions C02_reciprocity_single_bound.
Goal True. idtac "THEOREM C04_linear_single_bound". Abort. Print Assumptions C04_linear_single_bound.
