(* C11 — output keeps the input grid for any size parity, halo and mode count.
   Only statements, `exact`, Print Assumptions. *)
From Coq Require Import ZArith List Bool.
From BL Require Import Base.Ops Base.Laws Model.Solver Proofs.SpecProofs Proofs.Plumbing Proofs.C11Proofs.
Import ListNotations.

(* every call returns an error or a result whose fields have exactly one slice per requested
   level, each of the shape (ny, nx) of the surface-flux array, with coordinates x_i = i*dx,
   y_j = j*dy, z = z[levels] — for every parity of the sizes, every halo, every mode count *)
Theorem C11_shape_or_error : forall (O : Ops), Laws O -> forall (a : args O),
  (exists e, solve O a = inr e) \/
  (exists r, solve O a = inl r /\
     let ny := length (a_q0 O a) in let nx := length (hd [] (a_q0 O a)) in let nl := length (a_levels O a) in
     length (r_conc O r) = nl /\ length (r_flx O r) = nl /\
     (forall s, In s (r_conc O r) -> length s = ny /\ forall row, In row s -> length row = nx) /\
     (forall s, In s (r_flx O r) -> length s = ny /\ forall row, In row s -> length row = nx) /\
     r_x O r = map (fun i => cmul O (cofZ O (Z.of_nat i)) (cdiv O (a_xmx O a) (cofZ O (Z.of_nat nx)))) (seq 0 nx) /\
     r_y O r = map (fun j => cmul O (cofZ O (Z.of_nat j)) (cdiv O (a_ymx O a) (cofZ O (Z.of_nat ny)))) (seq 0 ny) /\
     r_z O r = map (fun l => nth0 O (a_z O a) l) (a_levels O a) /\
     r_shape O r = squeeze_shape [nl; ny; nx]).
Proof. exact shape_or_error. Qed.

(* the accepted set: odd mode requests are rejected, nothing is rejected for parity reasons *)
Theorem C11_error_iff : forall (O : Ops), Laws O -> forall (a : args O),
  (solve O a = inr ModesOdd <-> Nat.odd (a_nlx O a) || Nat.odd (a_nly O a) = true) /\
  (forall r, solve O a = inl r -> Nat.odd (a_nlx O a) || Nat.odd (a_nly O a) = false /\
      forall l, In l (a_levels O a) -> (l < length (a_z O a))%nat).
Proof. exact error_iff. Qed.

(* registration of the spectrum: the code's shift/slice/pad index arithmetic (numpy fftshift =
   roll by n//2; band start n//2 - L//2 as repaired) reads, for retained index t, the padded
   spectrum at index fftfreq(L)[t] mod n, writes it back to the same index and zero elsewhere —
   for EVERY parity of n and L with 0 < L <= n.  This is the frequency map of Model/Solver.v. *)
Theorem C11_truncate_reads : forall (A : Type) n L (F : Z -> A) t,
  (0 < L <= n)%Z -> (0 <= t < L)%Z ->
  ifftshift L (slice (start n L) (fftshift n F)) t = F (zfftfreq L t mod n)%Z.
Proof. exact @truncate_reads. Qed.

Theorem C11_untruncate_writes : forall (A : Type) (zero : A) n L (X : Z -> A) t,
  (0 < L <= n)%Z -> (0 <= t < L)%Z ->
  ifftshift n (pad zero (start n L) L (fftshift L X)) (zfftfreq L t mod n)%Z = X t.
Proof. exact @untruncate_writes. Qed.

Theorem C11_untruncate_zero_elsewhere : forall (A : Type) (zero : A) n L (X : Z -> A) k,
  (0 < L <= n)%Z -> (0 <= k < n)%Z ->
  (forall t, (0 <= t < L)%Z -> (zfftfreq L t mod n)%Z <> k) ->
  ifftshift n (pad zero (start n L) L (fftshift L X)) k = zero.
Proof. exact @untruncate_zero_elsewhere. Qed.

Theorem C11_no_collision : forall n L t t',
  (0 < L <= n)%Z -> (0 <= t < L)%Z -> (0 <= t' < L)%Z ->
  (zfftfreq L t mod n = zfftfreq L t' mod n)%Z -> t = t'.
Proof. exact zfftfreq_inj_mod. Qed.

(* low-pass: a component retained under two mode counts has the same amplitude at every level,
   the same phase shift and the same frequency under both — truncation only removes components *)
Theorem C11_lowpass : forall (O : Ops), Laws O -> forall (a : args O) (g : geom O) nlx' nly' tx ty tx' ty',
  (tx < g_nlx O g)%nat -> (ty < g_nly O g)%nat -> (tx' < nlx')%nat -> (ty' < nly')%nat ->
  fftfreq (g_nlx O g) tx = fftfreq nlx' tx' -> fftfreq (g_nly O g) ty = fftfreq nly' ty' ->
  spectrum O a g tx ty = spectrum O (with_modes O a nlx' nly') (geom_modes O g nlx' nly') tx' ty' /\
  shift O a g tx ty = shift O (with_modes O a nlx' nly') (geom_modes O g nlx' nly') tx' ty'.
Proof. exact lowpass. Qed.

(* clamp: requesting more modes than the padded grid holds retains exactly as many as it holds,
   and (when that count is an acceptable, i.e. even, request) returns the same result *)
Theorem C11_clamp : forall (O : Ops), Laws O -> forall (a : args O) (g : geom O),
  geometry O a = inl g ->
  ((g_nxe O g < a_nlx O a)%nat \/ (g_nye O g < a_nly O a)%nat) ->
  (g_nlx O g = g_nxe O g /\ g_nly O g = g_nye O g) /\
  (Nat.odd (g_nxe O g) || Nat.odd (g_nye O g) = false ->
   solve O (with_modes O a (g_nxe O g) (g_nye O g)) = solve O a).
Proof. exact clamp_both. Qed.

Goal True. idtac "THEOREM C11_shape_or_error". Abort. Print Assumptions C11_shape_or_error.
Goal True. idtac "THEOREM C11_error_iff". Abort. Print Assumptions C11_error_iff.
Goal True. idtac "THEOREM C11_truncate_reads". Abort. Print Assumptions C11_truncate_reads.
Goal True. idtac "THEOREM C11_untruncate_writes". Abort. Print Assumptions C11_untruncate_writes.
Goal True. idtac "THEOREM C11_untruncate_zero_elsewhere". Abort. Print Assumptions C11_untruncate_zero_elsewhere.
Goal True. idtac "THEOREM C11_no_collision". Abort. Print Assumptions C11_no_collision.
Goal True. idtac "THEOREM C11_lowpass". Abort. Print Assumptions C11_lowpass.
Goal True. idtac "THEOREM C11_clamp". Abort. Print Assumptions C11_clamp.
