(* C07 — array-level mirror in DISPERSION mode with SINGLE-precision storage: bounds instead of
   equalities (Proofs/C07MirrorSingle.v, in the style of Properties/SinglePrecisionProps.v).
   Only statements, `exact`, Print Assumptions.

   Instance ROpsR rnd: the complex numbers with cround := rnd, an ARBITRARY function obeying the
   relative-error model of storage rounding |rnd x - x| <= eps |x| (binary32: eps = 2^-24 per
   component; satisfiable with eps > 0 by a non-identity rounding: Single_rounding_model_satisfiable in
   Properties/SinglePrecisionProps.v).  a: a request with a_single = true; m: its mirrored request;
   dbl x = with_single x false, the same request with double storage.
     Smodes rnd x g sel k = sum over the retained modes of |sel (exact amplitude of dbl x)| * |shift|,
     epsP = eps (numerical branch) or eps (2 + eps) (analytic branch, concentration rounded twice).

   C07_mirror_single_bound           re-centred request (xm' = xmx - xm), x, ANY mode count:
        | (F(m)[k,j,i] - F(a)[k,j,nx-1-i]) - (Nyq_dbl(m)[k,j,i] - Nyq_dbl(a)[k,j,nx-1-i]) | <= eps (Smodes m + Smodes a)
        — the mirror defect of the returned single-storage arrays is the Nyquist-column defect of
        the double-storage runs up to the two storage bounds (flux; epsP for the concentration);
   C07_mirror_single_bound_odd       odd clamped mode count: no Nyquist part and Smodes m = Smodes a:
        | F(m)[k,j,i] - F(a)[k,j,nx-1-i] | <= 2 eps Smodes a;
   C07_mirror_single_bound_default   the default measurement point (no re-centring), ANY mode count;
   C07_mirror_y_single_bound, _odd, _default   the same for y. *)
From Coq Require Import Reals List ZArith Lra.
From Coquelicot Require Import Coquelicot.
From BL Require Import Base.Ops Base.Laws Base.ROps Model.Solver Proofs.SpecProofs Proofs.PrecisionProofs
  Proofs.SinglePrecision Proofs.C07Mirror Proofs.C07MirrorRC Proofs.C07MirrorSingle.
Import ListNotations.
Local Open Scope R_scope.
Notation CC := Complex.C.

Theorem C07_mirror_single_bound :
  forall (rnd : CC -> CC) (eps : R), 0 <= eps -> (forall x : CC, Cmod (Cminus (rnd x) x) <= eps * Cmod x) ->
  let O := ROpsR rnd in
  forall (a : args O) (g : geom O) (k j i : nat),
  wf O a -> a_single O a = true -> geometry O a = inl g -> a_footprint O a = false ->
  recentred O a = true -> recentred O (mirror_rc_args O a) = true ->
  (k < length (a_levels O a))%nat -> (j < g_ny O g)%nat -> (i < g_nx O g)%nat ->
  let m := mirror_rc_args O a in
  let i' := (g_nx O g - 1 - i)%nat in
  Cmod (Cminus (Cminus (get3 O (field O m g snd (table O m g)) k j i) (get3 O (field O a g snd (table O a g)) k j i'))
               (Cminus (get3 O (field O (with_single O m false) g snd (table_Nyq O (with_single O m false) g)) k j i)
                       (get3 O (field O (with_single O a false) g snd (table_Nyq O (with_single O a false) g)) k j i')))
    <= eps * Smodes rnd m g snd k + eps * Smodes rnd a g snd k
  /\
  Cmod (Cminus (Cminus (get3 O (field O m g fst (table O m g)) k j i) (get3 O (field O a g fst (table O a g)) k j i'))
               (Cminus (get3 O (field O (with_single O m false) g fst (table_Nyq O (with_single O m false) g)) k j i)
                       (get3 O (field O (with_single O a false) g fst (table_Nyq O (with_single O a false) g)) k j i')))
    <= epsP rnd eps a * Smodes rnd m g fst k + epsP rnd eps a * Smodes rnd a g fst k.
Proof. exact mirror_x_rc_single_defect. Qed.

Theorem C07_mirror_single_bound_odd :
  forall (rnd : CC -> CC) (eps : R), 0 <= eps -> (forall x : CC, Cmod (Cminus (rnd x) x) <= eps * Cmod x) ->
  let O := ROpsR rnd in
  forall (a : args O) (g : geom O) (k j i : nat),
  wf O a -> a_single O a = true -> geometry O a = inl g -> a_footprint O a = false ->
  recentred O a = true -> recentred O (mirror_rc_args O a) = true ->
  Nat.odd (g_nlx O g) = true ->
  (k < length (a_levels O a))%nat -> (j < g_ny O g)%nat -> (i < g_nx O g)%nat ->
  let m := mirror_rc_args O a in
  let i' := (g_nx O g - 1 - i)%nat in
  Cmod (Cminus (get3 O (field O m g snd (table O m g)) k j i) (get3 O (field O a g snd (table O a g)) k j i'))
    <= 2 * eps * Smodes rnd a g snd k
  /\
  Cmod (Cminus (get3 O (field O m g fst (table O m g)) k j i) (get3 O (field O a g fst (table O a g)) k j i'))
    <= 2 * epsP rnd eps a * Smodes rnd a g fst k.
Proof. exact mirror_x_rc_single_bound. Qed.

Theorem C07_mirror_single_bound_default :
  forall (rnd : CC -> CC) (eps : R), 0 <= eps -> (forall x : CC, Cmod (Cminus (rnd x) x) <= eps * Cmod x) ->
  let O := ROpsR rnd in
  forall (a : args O) (g : geom O) (k j i : nat),
  wf O a -> a_single O a = true -> geometry O a = inl g -> a_footprint O a = false ->
  recentred O a = false ->
  (k < length (a_levels O a))%nat -> (j < g_ny O g)%nat -> (i < g_nx O g)%nat ->
  let m := mirror_args O a in
  let i' := (g_nx O g - 1 - i)%nat in
  Cmod (Cminus (Cminus (get3 O (field O m g snd (table O m g)) k j i) (get3 O (field O a g snd (table O a g)) k j i'))
               (Cminus (get3 O (field O (with_single O m false) g snd (table_Nyq O (with_single O m false) g)) k j i)
                       (get3 O (field O (with_single O a false) g snd (table_Nyq O (with_single O a false) g)) k j i')))
    <= eps * Smodes rnd m g snd k + eps * Smodes rnd a g snd k
  /\
  Cmod (Cminus (Cminus (get3 O (field O m g fst (table O m g)) k j i) (get3 O (field O a g fst (table O a g)) k j i'))
               (Cminus (get3 O (field O (with_single O m false) g fst (table_Nyq O (with_single O m false) g)) k j i)
                       (get3 O (field O (with_single O a false) g fst (table_Nyq O (with_single O a false) g)) k j i')))
    <= epsP rnd eps a * Smodes rnd m g fst k + epsP rnd eps a * Smodes rnd a g fst k.
Proof. exact mirror_x_single_defect. Qed.

Theorem C07_mirror_y_single_bound :
  forall (rnd : CC -> CC) (eps : R), 0 <= eps -> (forall x : CC, Cmod (Cminus (rnd x) x) <= eps * Cmod x) ->
  let O := ROpsR rnd in
  forall (a : args O) (g : geom O) (k j i : nat),
  wf O a -> a_single O a = true -> geometry O a = inl g -> a_footprint O a = false ->
  recentred O a = true -> recentred O (mirror_y_rc_args O a) = true ->
  (k < length (a_levels O a))%nat -> (j < g_ny O g)%nat -> (i < g_nx O g)%nat ->
  let m := mirror_y_rc_args O a in
  let j' := (g_ny O g - 1 - j)%nat in
  Cmod (Cminus (Cminus (get3 O (field O m g snd (table O m g)) k j i) (get3 O (field O a g snd (table O a g)) k j' i))
               (Cminus (get3 O (field O (with_single O m false) g snd (table_Nyq_y O (with_single O m false) g)) k j i)
                       (get3 O (field O (with_single O a false) g snd (table_Nyq_y O (with_single O a false) g)) k j' i)))
    <= eps * Smodes rnd m g snd k + eps * Smodes rnd a g snd k
  /\
  Cmod (Cminus (Cminus (get3 O (field O m g fst (table O m g)) k j i) (get3 O (field O a g fst (table O a g)) k j' i))
               (Cminus (get3 O (field O (with_single O m false) g fst (table_Nyq_y O (with_single O m false) g)) k j i)
                       (get3 O (field O (with_single O a false) g fst (table_Nyq_y O (with_single O a false) g)) k j' i)))
    <= epsP rnd eps a * Smodes rnd m g fst k + epsP rnd eps a * Smodes rnd a g fst k.
Proof. exact mirror_y_rc_single_defect. Qed.

Theorem C07_mirror_y_single_bound_odd :
  forall (rnd : CC -> CC) (eps : R), 0 <= eps -> (forall x : CC, Cmod (Cminus (rnd x) x) <= eps * Cmod x) ->
  let O := ROpsR rnd in
  forall (a : args O) (g : geom O) (k j i : nat),
  wf O a -> a_single O a = true -> geometry O a = inl g -> a_footprint O a = false ->
  recentred O a = true -> recentred O (mirror_y_rc_args O a) = true ->
  Nat.odd (g_nly O g) = true ->
  (k < length (a_levels O a))%nat -> (j < g_ny O g)%nat -> (i < g_nx O g)%nat ->
  let m := mirror_y_rc_args O a in
  let j' := (g_ny O g - 1 - j)%nat in
  Cmod (Cminus (get3 O (field O m g snd (table O m g)) k j i) (get3 O (field O a g snd (table O a g)) k j' i))
    <= 2 * eps * Smodes rnd a g snd k
  /\
  Cmod (Cminus (get3 O (field O m g fst (table O m g)) k j i) (get3 O (field O a g fst (table O a g)) k j' i))
    <= 2 * epsP rnd eps a * Smodes rnd a g fst k.
Proof. exact mirror_y_rc_single_bound. Qed.

Theorem C07_mirror_y_single_bound_default :
  forall (rnd : CC -> CC) (eps : R), 0 <= eps -> (forall x : CC, Cmod (Cminus (rnd x) x) <= eps * Cmod x) ->
  let O := ROpsR rnd in
  forall (a : args O) (g : geom O) (k j i : nat),
  wf O a -> a_single O a = true -> geometry O a = inl g -> a_footprint O a = false ->
  recentred O a = false ->
  (k < length (a_levels O a))%nat -> (j < g_ny O g)%nat -> (i < g_nx O g)%nat ->
  let m := mirror_y_args O a in
  let j' := (g_ny O g - 1 - j)%nat in
  Cmod (Cminus (Cminus (get3 O (field O m g snd (table O m g)) k j i) (get3 O (field O a g snd (table O a g)) k j' i))
               (Cminus (get3 O (field O (with_single O m false) g snd (table_Nyq_y O (with_single O m false) g)) k j i)
                       (get3 O (field O (with_single O a false) g snd (table_Nyq_y O (with_single O a false) g)) k j' i)))
    <= eps * Smodes rnd m g snd k + eps * Smodes rnd a g snd k
  /\
  Cmod (Cminus (Cminus (get3 O (field O m g fst (table O m g)) k j i) (get3 O (field O a g fst (table O a g)) k j' i))
               (Cminus (get3 O (field O (with_single O m false) g fst (table_Nyq_y O (with_single O m false) g)) k j i)
                       (get3 O (field O (with_single O a false) g fst (table_Nyq_y O (with_single O a false) g)) k j' i)))
    <= epsP rnd eps a * Smodes rnd m g fst k + epsP rnd eps a * Smodes rnd a g fst k.
Proof. exact mirror_y_single_defect. Qed.

Goal True. idtac "THEOREM C07_mirror_single_bound". Abort. Print Assumptions C07_mirror_single_bound.
Goal True. idtac "THEOREM C07_mirror_single_bound_odd". Abort. Print Assumptions C07_mirror_single_bound_odd.
Goal True. idtac "THEOREM C07_mirror_single_bound_default". Abort. Print Assumptions C07_mirror_single_bound_default.
Goal True. idtac "THEOREM C07_mirror_y_single_bound". Abort. Print Assumptions C07_mirror_y_single_bound.
Goal True. idtac "THEOREM C07_mirror_y_single_bound_odd". Abort. Print Assumptions C07_mirror_y_single_bound_odd.
Goal True. idtac "THEOREM C07_mirror_y_single_bound_default". Abort. Print Assumptions C07_mirror_y_single_bound_default.
