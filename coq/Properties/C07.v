(* C07 — the solution respects the PDE's symmetries: reflection, axis swap, similarity.
   Only statements, `exact`, Print Assumptions.
   These are theorems about EVERY horizontal mode (any layers, any initial state, any node):
   the mode solution of the mirrored / swapped / rescaled problem is the mode solution of the
   original problem at the mirrored / swapped / rescaled wavenumber.  The array-level statements
   (mirrored, transposed fields) additionally need the retained frequency set to be symmetric,
   which holds up to its Nyquist row/column; they are named ..._partial here and are carried by
   the float correspondence and the symmetry oracle of harness/props/c07.py. *)
From Coq Require Import ZArith List Bool.
From BL Require Import Base.Ops Base.Laws Model.Solver Proofs.StepProofs Proofs.C07Proofs.
Import ListNotations.

Theorem C07_mirror_x_partial : forall (O : Ops), Laws O ->
  (forall lx ly (ls : list (layer O)) st k d, (k <= length ls)%nat ->
     nth k (traj O (copp O lx) ly (map (mirror_x O) ls) st) d = nth k (traj O lx ly ls st) d) /\
  (forall Kx Ky u v Kz lx ly, eigval O Kx Ky (copp O u) v Kz (copp O lx) ly = eigval O Kx Ky u v Kz lx ly).
Proof. intros O L. exact (conj (mirror_x_mode O L) (eig_mirror_x O L)). Qed.

Theorem C07_mirror_y_partial : forall (O : Ops), Laws O ->
  (forall lx ly (ls : list (layer O)) st k d, (k <= length ls)%nat ->
     nth k (traj O lx (copp O ly) (map (mirror_y O) ls) st) d = nth k (traj O lx ly ls st) d) /\
  (forall Kx Ky u v Kz lx ly, eigval O Kx Ky u (copp O v) Kz lx (copp O ly) = eigval O Kx Ky u v Kz lx ly).
Proof. intros O L. exact (conj (mirror_y_mode O L) (eig_mirror_y O L)). Qed.

Theorem C07_transpose_partial : forall (O : Ops), Laws O ->
  (forall lx ly (ls : list (layer O)) st k d, (k <= length ls)%nat ->
     nth k (traj O ly lx (map (swap_xy O) ls) st) d = nth k (traj O lx ly ls st) d) /\
  (forall Kx Ky u v Kz lx ly, eigval O Ky Kx v u Kz ly lx = eigval O Kx Ky u v Kz lx ly).
Proof. intros O L. exact (conj (swap_mode O L) (eig_swap O L)). Qed.

(* all lengths and diffusivities times s: wavenumbers /s, layer thicknesses *s; (p, q) unchanged
   at every node, and the top condition Kz*eig is unchanged whenever sqrt(r/s^2) = sqrt(r)/s
   (true of the principal root for real s > 0) *)
Theorem C07_length_scaling : forall (O : Ops), Laws O ->
  (forall s lx ly (ls : list (layer O)) st k d,
     s <> c0 O -> (forall Lr, In Lr ls -> l_Kz O Lr <> c0 O) -> (k <= length ls)%nat ->
     nth k (traj O (cdiv O lx s) (cdiv O ly s) (map (scale_len O s) ls) st) d = nth k (traj O lx ly ls st) d) /\
  (forall s Kx Ky u v Kz lx ly, s <> c0 O -> Kz <> c0 O ->
     csqrt O (cdiv O (eig_radicand O Kx Ky u v Kz lx ly) (cmul O s s)) = cdiv O (csqrt O (eig_radicand O Kx Ky u v Kz lx ly)) s ->
     cmul O (cmul O s Kz) (eigval O (cmul O s Kx) (cmul O s Ky) u v (cmul O s Kz) (cdiv O lx s) (cdiv O ly s))
     = cmul O Kz (eigval O Kx Ky u v Kz lx ly)).
Proof. intros O L. exact (conj (length_scaling_mode O L) (top_invariant_len O L)). Qed.

(* winds and diffusivities times s: the flux amplitude is unchanged and the concentration
   amplitude is divided by s, at every node, shooting coefficient included *)
Theorem C07_velocity_scaling : forall (O : Ops), Laws O ->
  forall s lx ly (ls : list (layer O)) KzN eig qh k,
  s <> c0 O -> (forall Lr, In Lr ls -> l_Kz O Lr <> c0 O) -> (k <= length ls)%nat ->
  let ls' := map (scale_vel O s) ls in
  let y1 := final O lx ly ls (c1 O, c0 O) in let y2 := final O lx ly ls (c0 O, qh) in
  let y1' := final O lx ly ls' (c1 O, c0 O) in let y2' := final O lx ly ls' (c0 O, qh) in
  let al := alpha O KzN eig (fst y1) (snd y1) (fst y2) (snd y2) in
  let al' := alpha O (cmul O s KzN) eig (fst y1') (snd y1') (fst y2') (snd y2') in
  csub O (snd y1) (cmul O (cmul O KzN eig) (fst y1)) <> c0 O ->
  al' = cdiv O al s /\
  shoot_traj O lx ly ls' al' qh k = pdiv O s (shoot_traj O lx ly ls al qh k).
Proof. exact velocity_scaling_shoot. Qed.

Theorem C07_velocity_scaling_eig : forall (O : Ops), Laws O -> forall s Kx Ky u v Kz lx ly,
  s <> c0 O -> Kz <> c0 O ->
  eigval O (cmul O s Kx) (cmul O s Ky) (cmul O s u) (cmul O s v) (cmul O s Kz) lx ly = eigval O Kx Ky u v Kz lx ly.
Proof. exact eig_scale_vel. Qed.

Goal True. idtac "THEOREM C07_mirror_x_partial". Abort. Print Assumptions C07_mirror_x_partial.
Goal True. idtac "THEOREM C07_mirror_y_partial". Abort. Print Assumptions C07_mirror_y_partial.
Goal True. idtac "THEOREM C07_transpose_partial". Abort. Print Assumptions C07_transpose_partial.
Goal True. idtac "THEOREM C07_length_scaling". Abort. Print Assumptions C07_length_scaling.
Goal True. idtac "THEOREM C07_velocity_scaling". Abort. Print Assumptions C07_velocity_scaling.
Goal True. idtac "THEOREM C07_velocity_scaling_eig". Abort. Print Assumptions C07_velocity_scaling_eig.

(* the square-root hypothesis of C07_length_scaling holds in the complex instance for real s > 0 *)
From Coq Require Import Reals.
From BL Require Base.ROps Base.ROpsFacts.
Theorem C07_sqrt_scale_in_C : forall (z : Coquelicot.Complex.C) (s : R), (0 < s)%R ->
  csqrt ROps.ROps (cdiv ROps.ROps z (cmul ROps.ROps (Coquelicot.Complex.RtoC s) (Coquelicot.Complex.RtoC s)))
  = cdiv ROps.ROps (csqrt ROps.ROps z) (Coquelicot.Complex.RtoC s).
Proof. exact ROpsFacts.ROps_sqrt_scale. Qed.
Goal True. idtac "THEOREM C07_sqrt_scale_in_C". Abort. Print Assumptions C07_sqrt_scale_in_C.

(* ARRAY LEVEL: exchanging the axes (source transposed; (u,v), (Kx,Ky), domain extents, mode counts
   and the measurement point swapped) transposes concentration and flux cell by cell at every
   level — every explicitly given halo, every mode count, footprint and dispersion mode, numerical
   and analytic branch, double-precision storage.  (The retained frequency set of the swapped
   request is the swapped set, so no Nyquist exception is needed for the transposition.) *)
From BL Require Import Proofs.SpecProofs Proofs.C07Array.
Theorem C07_transpose : forall (O : Ops), Laws O -> forall (a : args O) (g : geom O) h sel k j i,
  (forall pq s, sel (cmul O (fst pq) s, cmul O (snd pq) s) = cmul O (sel pq) s) ->
  wf O a -> geometry O a = inl g -> a_halo O a = Some h -> g_nx O g <> 0%nat -> g_ny O g <> 0%nat ->
  (k < length (a_levels O a))%nat -> (j < g_ny O g)%nat -> (i < g_nx O g)%nat ->
  get3 O (field O (swap_args O a) (swap_geom O g) sel (table O (swap_args O a) (swap_geom O g))) k i j
  = get3 O (field O a g sel (table O a g)) k j i.
Proof. exact transpose_cells. Qed.

Theorem C07_transposed_request_geometry : forall (O : Ops), Laws O -> forall (a : args O) (g : geom O) h,
  wf O a -> geometry O a = inl g -> a_halo O a = Some h -> g_nx O g <> 0%nat -> g_ny O g <> 0%nat ->
  geometry O (swap_args O a) = inl (swap_geom O g).
Proof. exact swapped_geometry. Qed.

Goal True. idtac "THEOREM C07_transpose". Abort. Print Assumptions C07_transpose.
Goal True. idtac "THEOREM C07_transposed_request_geometry". Abort. Print Assumptions C07_transposed_request_geometry.

(* ARRAY LEVEL MIRROR (Proofs/C07Mirror.v).  mirror_args: every source row reversed, u negated, and in
   footprint mode the tower reflected with the cells (xm' = (nx-1) dx - xm); same geometry.  The
   retained x-frequency set of an even mode count has one unpaired member (-nlx/2, its Nyquist
   column): "exact apart from the Nyquist components" is proved in three forms.
   (1) C07_mirror_x: the fields synthesised WITHOUT that column are mirrored cell by cell
       (k, j, i) <-> (k, j, nx-1-i): concentration and flux, every level list, halo, mode count,
       footprint (both precisions) and dispersion mode (double storage, default measurement point),
       numerical and analytic branch;
   (2) C07_mirror_x_defect: the mirror defect of the arrays actually returned equals the mirror defect
       of the Nyquist column's contribution alone;
   (3) C07_mirror_x_odd: when the (clamped) mode count is odd no column is unpaired and the returned
       arrays themselves are mirrored.
   The same for y (C07_mirror_y ...). *)
From BL Require Import Proofs.C07Mirror.
Theorem C07_mirror_geometry : forall (O : Ops), Laws O -> forall (a : args O),
  geometry O (mirror_args O a) = geometry O a /\ (wf O a -> geometry O (mirror_y_args O a) = geometry O a).
Proof. intros O L a. exact (conj (mirror_geometry O L a) (mirror_y_geometry O L a)). Qed.

Theorem C07_mirror_x : forall (O : Ops), Laws O -> forall (a : args O) (g : geom O) sel k j i,
  (forall pq s, sel (cmul O (fst pq) s, cmul O (snd pq) s) = cmul O (sel pq) s) ->
  wf O a -> geometry O a = inl g ->
  (a_footprint O a = true -> g_dx O g <> c0 O) ->
  (a_footprint O a = false -> a_single O a = false) ->
  (a_footprint O a = false -> cltb O (c0 O) (cadd O (cmul O (a_xm O a) (a_xm O a)) (cmul O (a_ym O a) (a_ym O a))) = false) ->
  (k < length (a_levels O a))%nat -> (j < g_ny O g)%nat -> (i < g_nx O g)%nat ->
  get3 O (field O (mirror_args O a) g sel (table_noNyq O (mirror_args O a) g)) k j i
  = get3 O (field O a g sel (table_noNyq O a g)) k j (g_nx O g - 1 - i).
Proof. exact mirror_x_cells. Qed.

Theorem C07_mirror_x_defect : forall (O : Ops), Laws O -> forall (a : args O) (g : geom O) sel k j i,
  (forall pq s, sel (cmul O (fst pq) s, cmul O (snd pq) s) = cmul O (sel pq) s) ->
  wf O a -> geometry O a = inl g ->
  (a_footprint O a = true -> g_dx O g <> c0 O) ->
  (a_footprint O a = false -> a_single O a = false) ->
  (a_footprint O a = false -> cltb O (c0 O) (cadd O (cmul O (a_xm O a) (a_xm O a)) (cmul O (a_ym O a) (a_ym O a))) = false) ->
  (k < length (a_levels O a))%nat -> (j < g_ny O g)%nat -> (i < g_nx O g)%nat ->
  csub O (get3 O (field O (mirror_args O a) g sel (table O (mirror_args O a) g)) k j i)
         (get3 O (field O a g sel (table O a g)) k j (g_nx O g - 1 - i))
  = csub O (get3 O (field O (mirror_args O a) g sel (table_Nyq O (mirror_args O a) g)) k j i)
           (get3 O (field O a g sel (table_Nyq O a g)) k j (g_nx O g - 1 - i)).
Proof. exact mirror_x_cells_defect. Qed.

Theorem C07_mirror_x_odd : forall (O : Ops), Laws O -> forall (a : args O) (g : geom O) sel k j i,
  (forall pq s, sel (cmul O (fst pq) s, cmul O (snd pq) s) = cmul O (sel pq) s) ->
  wf O a -> geometry O a = inl g ->
  (a_footprint O a = true -> g_dx O g <> c0 O) ->
  (a_footprint O a = false -> a_single O a = false) ->
  (a_footprint O a = false -> cltb O (c0 O) (cadd O (cmul O (a_xm O a) (a_xm O a)) (cmul O (a_ym O a) (a_ym O a))) = false) ->
  Nat.odd (g_nlx O g) = true ->
  (k < length (a_levels O a))%nat -> (j < g_ny O g)%nat -> (i < g_nx O g)%nat ->
  get3 O (field O (mirror_args O a) g sel (table O (mirror_args O a) g)) k j i
  = get3 O (field O a g sel (table O a g)) k j (g_nx O g - 1 - i).
Proof. exact mirror_x_cells_odd. Qed.

Theorem C07_mirror_y : forall (O : Ops), Laws O -> forall (a : args O) (g : geom O) sel k j i,
  (forall pq s, sel (cmul O (fst pq) s, cmul O (snd pq) s) = cmul O (sel pq) s) ->
  wf O a -> geometry O a = inl g ->
  (a_footprint O a = true -> g_dy O g <> c0 O) ->
  (a_footprint O a = false -> a_single O a = false) ->
  (a_footprint O a = false -> cltb O (c0 O) (cadd O (cmul O (a_xm O a) (a_xm O a)) (cmul O (a_ym O a) (a_ym O a))) = false) ->
  (k < length (a_levels O a))%nat -> (j < g_ny O g)%nat -> (i < g_nx O g)%nat ->
  get3 O (field O (mirror_y_args O a) g sel (table_noNyq_y O (mirror_y_args O a) g)) k j i
  = get3 O (field O a g sel (table_noNyq_y O a g)) k (g_ny O g - 1 - j) i.
Proof. exact mirror_y_cells. Qed.

Theorem C07_mirror_y_defect : forall (O : Ops), Laws O -> forall (a : args O) (g : geom O) sel k j i,
  (forall pq s, sel (cmul O (fst pq) s, cmul O (snd pq) s) = cmul O (sel pq) s) ->
  wf O a -> geometry O a = inl g ->
  (a_footprint O a = true -> g_dy O g <> c0 O) ->
  (a_footprint O a = false -> a_single O a = false) ->
  (a_footprint O a = false -> cltb O (c0 O) (cadd O (cmul O (a_xm O a) (a_xm O a)) (cmul O (a_ym O a) (a_ym O a))) = false) ->
  (k < length (a_levels O a))%nat -> (j < g_ny O g)%nat -> (i < g_nx O g)%nat ->
  csub O (get3 O (field O (mirror_y_args O a) g sel (table O (mirror_y_args O a) g)) k j i)
         (get3 O (field O a g sel (table O a g)) k (g_ny O g - 1 - j) i)
  = csub O (get3 O (field O (mirror_y_args O a) g sel (table_Nyq_y O (mirror_y_args O a) g)) k j i)
           (get3 O (field O a g sel (table_Nyq_y O a g)) k (g_ny O g - 1 - j) i).
Proof. exact mirror_y_cells_defect. Qed.

Theorem C07_mirror_y_odd : forall (O : Ops), Laws O -> forall (a : args O) (g : geom O) sel k j i,
  (forall pq s, sel (cmul O (fst pq) s, cmul O (snd pq) s) = cmul O (sel pq) s) ->
  wf O a -> geometry O a = inl g ->
  (a_footprint O a = true -> g_dy O g <> c0 O) ->
  (a_footprint O a = false -> a_single O a = false) ->
  (a_footprint O a = false -> cltb O (c0 O) (cadd O (cmul O (a_xm O a) (a_xm O a)) (cmul O (a_ym O a) (a_ym O a))) = false) ->
  Nat.odd (g_nly O g) = true ->
  (k < length (a_levels O a))%nat -> (j < g_ny O g)%nat -> (i < g_nx O g)%nat ->
  get3 O (field O (mirror_y_args O a) g sel (table O (mirror_y_args O a) g)) k j i
  = get3 O (field O a g sel (table O a g)) k (g_ny O g - 1 - j) i.
Proof. exact mirror_y_cells_odd. Qed.

Goal True. idtac "THEOREM C07_mirror_geometry". Abort. Print Assumptions C07_mirror_geometry.
Goal True. idtac "THEOREM C07_mirror_x". Abort. Print Assumptions C07_mirror_x.
Goal True. idtac "THEOREM C07_mirror_x_defect". Abort. Print Assumptions C07_mirror_x_defect.
Goal True. idtac "THEOREM C07_mirror_x_odd". Abort. Print Assumptions C07_mirror_x_odd.
Goal True. idtac "THEOREM C07_mirror_y". Abort. Print Assumptions C07_mirror_y.
Goal True. idtac "THEOREM C07_mirror_y_defect". Abort. Print Assumptions C07_mirror_y_defect.
Goal True. idtac "THEOREM C07_mirror_y_odd". Abort. Print Assumptions C07_mirror_y_odd.
