(* C15 — the result cache is transparent, complete, effective and crash-safe.
   Statements about Model/Cache.v (the REPAIRED cache.py / solver.py), `_refuted` witnesses for
   the ORIGINAL key and write logic, non-vacuity examples.
   This file contains only statements, `exact`, and Print Assumptions.

   Not modelled, entering as hypotheses of every theorem (listed in the evidence):
     - file names are compared exactly (H_eqb decides equality),
     - SHA-256 is injective on the keys seen (hash_inj),
     - property C04 `footprint_shape_only`: in footprint mode the result does not depend on the
       source values, only on the shape,
     - the solver depends on halo only through the resolved halo. *)
From Coq Require Import List Arith Bool ZArith.
From BL Require Import Model.Cache Model.CacheExec Proofs.CacheProofs.
Import ListNotations.

Theorem C15_key_complete :
  forall (T : Type) (hmax : T -> T -> T) (R : Type) (solve : request T -> R),
  (forall r v, r_footprint r = true -> solve (with_values r v) = solve r) ->
  (forall r, solve (with_halo r (Some (resolve_halo hmax r))) = solve r) ->
  forall r1 r2 : request T,
  r_footprint r1 = true -> r_footprint r2 = true ->
  key hmax r1 = key hmax r2 -> solve r1 = solve r2.
Proof. exact (@key_complete). Qed.

(* every history (completed calls and calls killed after any number of write operations),
   every initial store whose readable entries are genuine (unreadable entries and left-over
   temporary files are allowed anywhere) *)
Theorem C15_transparent :
  forall (T : Type) (hmax : T -> T -> T) (H : Type) (H_eqb : H -> H -> bool) (R : Type)
         (hash : list (ktok T) -> H) (solve : request T -> R) (nchunks : R -> nat),
  (forall a b, H_eqb a b = true <-> a = b) ->
  (forall k1 k2, hash k1 = hash k2 -> k1 = k2) ->
  (forall r v, r_footprint r = true -> solve (with_values r v) = solve r) ->
  (forall r, solve (with_halo r (Some (resolve_halo hmax r))) = solve r) ->
  forall (evs : list (event T)) (st : state H R),
  let store_inv (fs : store H R) :=
    forall h p, lookup H_eqb (Final h) fs = Some (Valid p) ->
      exists r, r_footprint r = true /\ hash (key hmax r) = h /\ solve r = p in
  store_inv (st_fs st) ->
  let out := run_history hmax H_eqb hash solve nchunks evs st in
  Forall (fun x : call T * R * outcome => snd (fst x) = solve (c_req (fst (fst x)))) (fst out) /\
  store_inv (st_fs (snd out)).
Proof. exact (@transparent). Qed.

(* a request with the same key as an earlier cached one — in particular an identical repeat, a
   repeat with other source values, or default halo vs. the explicit value max(xmax, ymax) — is a
   hit after ANY intermediate history: the stored answer is returned, the solver-run counter and
   the store do not change *)
Theorem C15_effective :
  forall (T : Type) (hmax : T -> T -> T) (H : Type) (H_eqb : H -> H -> bool) (R : Type)
         (hash : list (ktok T) -> H) (solve : request T -> R) (nchunks : R -> nat),
  (forall a b, H_eqb a b = true <-> a = b) ->
  (forall (c1 : call T) (evs : list (event T)) (c2 : call T) (st : state H R),
     cached c1 = true -> cached c2 = true -> key hmax (c_req c1) = key hmax (c_req c2) ->
     let x1 := solve_with_cache hmax H_eqb hash solve nchunks c1 st in
     let st2 := snd (run_history hmax H_eqb hash solve nchunks evs (snd x1)) in
     solve_with_cache hmax H_eqb hash solve nchunks c2 st2 = (fst (fst x1), Hit, st2)) /\
  (forall r : request T,
     key hmax (with_halo r None) = key hmax (with_halo r (Some (hmax (r_xmax r) (r_ymax r))))) /\
  (forall (r : request T) (v : T), key hmax (with_values r v) = key hmax r).
Proof. exact (@effective_full). Qed.

(* (1) after every prefix of the write-operation sequence every final path holds what it held
       before, or (the written key only) the new complete entry;
   (2) an unreadable entry is a miss: the answer is the fresh solve, the entry is replaced;
   (3) after a call killed at any point every later answer is still the uncached solve *)
Theorem C15_crash_safe :
  forall (T : Type) (hmax : T -> T -> T) (H : Type) (H_eqb : H -> H -> bool) (R : Type)
         (hash : list (ktok T) -> H) (solve : request T -> R) (nchunks : R -> nat),
  (forall a b, H_eqb a b = true <-> a = b) ->
  (forall k1 k2, hash k1 = hash k2 -> k1 = k2) ->
  (forall r v, r_footprint r = true -> solve (with_values r v) = solve r) ->
  (forall r, solve (with_halo r (Some (resolve_halo hmax r))) = solve r) ->
  (forall (h : H) (p : R) (n k : nat) (fs : store H R) (h' : H),
     let fs' := run_ops H_eqb (firstn k (write_ops h p n)) fs in
     lookup H_eqb (Final h') fs' = lookup H_eqb (Final h') fs \/
     (h' = h /\ lookup H_eqb (Final h') fs' = Some (Valid p))) /\
  (forall (c : call T) (st : state H R),
     cached c = true ->
     lookup H_eqb (Final (hash (key hmax (c_req c)))) (st_fs st) = Some Corrupt ->
     let x := solve_with_cache hmax H_eqb hash solve nchunks c st in
     fst (fst x) = solve (c_req c) /\ snd (fst x) = Miss /\
     st_solves (snd x) = S (st_solves st) /\
     lookup H_eqb (Final (hash (key hmax (c_req c)))) (st_fs (snd x)) =
       Some (Valid (solve (c_req c)))) /\
  (forall (c : call T) (k : nat) (evs : list (event T)) (st : state H R),
     let store_inv (fs : store H R) :=
       forall h p, lookup H_eqb (Final h) fs = Some (Valid p) ->
         exists r, r_footprint r = true /\ hash (key hmax r) = h /\ solve r = p in
     store_inv (st_fs st) ->
     let out := run_history hmax H_eqb hash solve nchunks (Killed c k :: evs) st in
     Forall (fun x : call T * R * outcome => snd (fst x) = solve (c_req (fst (fst x)))) (fst out) /\
     store_inv (st_fs (snd out))).
Proof. exact (@crash_safe). Qed.

(* ---- what the fixes repair: the ORIGINAL key / write logic on the executable instance ---- *)

(* levels, source shape, analytic flag, background value: a request differing only there is
   served the other request's arrays *)
Theorem C15_stale_refuted :
  let stale (r1 r2 : ZR) :=
    exists a1 o1 st1 a2 st2,
      step_orig_x (mkCall true r1) st0 = Some (a1, o1, st1) /\
      step_orig_x (mkCall true r2) st1 = Some (a2, Hit, st2) /\
      a2 <> solve_x r2 in
  stale (wh base) (wh base_levels) /\ stale (wh base) (wh base_shape) /\
  stale (wh base) (wh base_analytic) /\ stale (wh base) (wh base_bg).
Proof.
  exact (conj stale_levels_orig (conj stale_shape_orig (conj stale_analytic_orig stale_bg_orig))).
Qed.

(* with the default halo an identical repeat misses and solves again *)
Theorem C15_default_halo_refuted :
  exists a1 st1 a2 st2,
    step_orig_x (mkCall true base) st0 = Some (a1, Miss, st1) /\
    step_orig_x (mkCall true base) st1 = Some (a2, Miss, st2) /\
    st_solves st2 = 2.
Proof. exact default_halo_miss_orig. Qed.

(* a run killed during its write leaves an entry on which the next run raises *)
Theorem C15_crash_refuted :
  exists k, step_orig_x (mkCall true base_halo12)
                        (killed_orig_x (mkCall true base_halo12) k st0) = None.
Proof. exact crash_fatal_orig. Qed.

(* ---- non-vacuity ---- *)

(* the hypotheses are satisfiable by a solver that really depends on every keyed argument *)
Example C15_hypotheses_satisfiable :
  (forall a b : zkey, H_eqb_x a b = true <-> a = b) /\
  (forall k1 k2, hash_x k1 = hash_x k2 -> k1 = k2) /\
  (forall (r : ZR) v, r_footprint r = true -> solve_x (with_values r v) = solve_x r) /\
  (forall r : ZR, solve_x (with_halo r (Some (resolve_halo Z.max r))) = solve_x r) /\
  solve_x base <> solve_x base_levels /\ solve_x base <> solve_x base_shape /\
  solve_x base <> solve_x base_analytic /\ solve_x base <> solve_x base_bg /\
  solve_x base <> solve_x base_halo8 /\
  solve_x base = solve_x base_values /\ solve_x base = solve_x base_halo12.
Proof.
  exact (conj key_eqb_spec (conj hash_x_inj (conj solve_x_shape_only (conj solve_x_halo
         solve_x_discriminates)))).
Qed.

(* a history with misses, hits, a bypass and a crash, from the empty directory *)
Example C15_history_nonvacuous :
  map (fun x => snd x)
      (fst (history_x [Run (mkCall true base); Run (mkCall true base_halo12);
                       Run (mkCall true base_levels); Killed (mkCall true base_bg) 3;
                       Run (mkCall true base_bg); Run (mkCall false base);
                       Run (mkCall true base_values)] st0))
  = [Miss; Hit; Miss; Miss; Bypass; Hit].
Proof. vm_compute. reflexivity. Qed.

(* the repaired model on the crash history that is fatal for the original one *)
Example C15_crash_fixed : forall k, (k <= 6)%nat ->
  fst (step_x (mkCall true base_halo12) (killed_x (mkCall true base_halo12) k st0)) =
  (solve_x base_halo12, if Nat.leb k 5 then Miss else Hit).
Proof. exact crash_fine_fixed. Qed.

Goal True. idtac "THEOREM C15_key_complete". Abort. Print Assumptions C15_key_complete.
Goal True. idtac "THEOREM C15_transparent". Abort. Print Assumptions C15_transparent.
Goal True. idtac "THEOREM C15_effective". Abort. Print Assumptions C15_effective.
Goal True. idtac "THEOREM C15_crash_safe". Abort. Print Assumptions C15_crash_safe.
Goal True. idtac "THEOREM C15_stale_refuted". Abort. Print Assumptions C15_stale_refuted.
Goal True. idtac "THEOREM C15_default_halo_refuted". Abort. Print Assumptions C15_default_halo_refuted.
Goal True. idtac "THEOREM C15_crash_refuted". Abort. Print Assumptions C15_crash_refuted.
Goal True. idtac "THEOREM C15_hypotheses_satisfiable". Abort. Print Assumptions C15_hypotheses_satisfiable.
