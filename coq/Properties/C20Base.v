(* C20 (base functions) — what the level sets of the five built-in base fields g of bldfm/utils.py mean:
     source_area_contribution, source_area_circular, source_area_upwind, source_area_crosswind, source_area_sector
   (Model/SourceAreaBase.v, one grid cell at a time; tied to the source by Bridge/SABaseBridge.v and an
   interval-certified correspondence).  get_source_area(f, g) accumulates f over {g > level} (Properties/C20.v), so
   these theorems say WHICH cells are accumulated first: discs around the tower, half planes perpendicular to the
   wind, strips along the wind axis, cones about the upwind direction.
   This file contains only statements, `exact`, and Print Assumptions.  All theorems are over Coq's reals
   (exact arithmetic, standard-library real axioms only; no numerical tactic).  Each theorem is the conjunction of the
   separately quantified clauses about one function (one Print Assumptions over the reals costs about a second).
   Clauses about upwind / crosswind assume a non-zero wind (Python divides by speed = 0 there: NaN); the sector clauses
   that speak of an angle assume cell <> tower and a non-zero wind (C20_sector_all_inputs says what the code returns
   at the tower). *)
From Coq Require Import Reals.
From BL Require Import Model.KM Model.SourceAreaBase Proofs.SourceAreaBaseProofs.
Open Scope R_scope.

(* ---- contribution: g = flx (a copy) *)
Theorem C20_contribution_identity : forall f : R, sa_contribution f = f.
Proof. exact contribution_identity. Qed.

(* ---- circular: g = -(squared distance to the tower) *)
Theorem C20_circular_is_minus_dist2 :
  (* the formula *)
  (forall x y xm ym : R,
     sa_circular x y xm ym = - ((x - xm) * (x - xm) + (y - ym) * (y - ym)) /\
     sa_circular x y xm ym = - (dist x y xm ym * dist x y xm ym)) /\
  (* a cell has the larger g iff it is nearer to the tower ... *)
  (forall x1 y1 x2 y2 xm ym : R,
     sa_circular x2 y2 xm ym < sa_circular x1 y1 xm ym <-> dist x1 y1 xm ym < dist x2 y2 xm ym) /\
  (* ... so every super-level set is an open disc around the tower *)
  (forall x y xm ym r : R, 0 <= r ->
     (- (r * r) < sa_circular x y xm ym <-> dist x y xm ym < r)) /\
  (* turning the cell about the tower by any angle leaves g unchanged *)
  (forall a x y xm ym : R,
     sa_circular (turn_x a x y xm ym) (turn_y a x y xm ym) xm ym = sa_circular x y xm ym).
Proof. exact (conj circular_is_minus_dist2 (conj circular_order (conj circular_disc circular_turn))). Qed.

(* ---- upwind: g = signed coordinate of the cell along the wind vector *)
Theorem C20_upwind_is_projection :
  (* the formula: scalar product with the unit wind vector *)
  (forall x y xm ym u v : R, 0 < u * u + v * v ->
     sa_upwind x y xm ym u v = ((x - xm) * u + (y - ym) * v) / sqrt (u * u + v * v)) /\
  (* unchanged by a positive scaling of the wind *)
  (forall k x y xm ym u v : R, 0 < k -> 0 < u * u + v * v ->
     sa_upwind x y xm ym (k * u) (k * v) = sa_upwind x y xm ym u v) /\
  (* changes sign when the wind is reversed *)
  (forall x y xm ym u v : R, 0 < u * u + v * v ->
     sa_upwind x y xm ym (- u) (- v) = - sa_upwind x y xm ym u v) /\
  (* g of the cell = g of its orthogonal projection on the wind axis through the tower ... *)
  (forall x y xm ym u v : R, 0 < u * u + v * v ->
     sa_upwind (foot_x x y xm ym u v) (foot_y x y xm ym u v) xm ym u v = sa_upwind x y xm ym u v) /\
  (* ... and moving the cell perpendicular to the wind does not change g: the level sets are the lines
     perpendicular to the wind, the super-level sets half planes *)
  (forall t x y xm ym u v : R, 0 < u * u + v * v ->
     sa_upwind (x - t * v) (y + t * u) xm ym u v = sa_upwind x y xm ym u v).
Proof.
  exact (conj upwind_is_projection (conj upwind_scale (conj upwind_reversal (conj upwind_of_foot upwind_perp_shift)))).
Qed.

(* ---- crosswind: g = -(distance from the cell to the wind axis through the tower)^2 *)
Theorem C20_crosswind_is_minus_perp2 :
  (* minus the squared distance to the foot of the perpendicular on the axis; as a ratio *)
  (forall x y xm ym u v : R, 0 < u * u + v * v ->
     sa_crosswind x y xm ym u v = - dist2 x y (foot_x x y xm ym u v) (foot_y x y xm ym u v) /\
     sa_crosswind x y xm ym u v
     = - (((y - ym) * u - (x - xm) * v) * ((y - ym) * u - (x - xm) * v) / (u * u + v * v))) /\
  (* the foot is the nearest point of the axis: no point tower + t * wind_hat is nearer *)
  (forall t x y xm ym u v : R, 0 < u * u + v * v ->
     - sa_crosswind x y xm ym u v
     <= dist2 x y (xm + t * (u / sa_speed u v)) (ym + t * (v / sa_speed u v))) /\
  (* Pythagoras: along^2 + across^2 = distance^2 *)
  (forall x y xm ym u v : R, 0 < u * u + v * v ->
     sa_upwind x y xm ym u v * sa_upwind x y xm ym u v + - sa_crosswind x y xm ym u v = dist2 x y xm ym) /\
  (* unchanged by reversing the wind and by any non-zero scaling of it *)
  (forall x y xm ym u v : R, 0 < u * u + v * v ->
     sa_crosswind x y xm ym (- u) (- v) = sa_crosswind x y xm ym u v) /\
  (forall k x y xm ym u v : R, k <> 0 -> 0 < u * u + v * v ->
     sa_crosswind x y xm ym (k * u) (k * v) = sa_crosswind x y xm ym u v) /\
  (* mirror symmetry about the wind axis: across is kept, along is kept *)
  (forall x y xm ym u v : R, 0 < u * u + v * v ->
     sa_crosswind (mirror_x x y xm ym u v) (mirror_y x y xm ym u v) xm ym u v = sa_crosswind x y xm ym u v /\
     sa_upwind (mirror_x x y xm ym u v) (mirror_y x y xm ym u v) xm ym u v = sa_upwind x y xm ym u v).
Proof.
  exact (conj (fun x y xm ym u v H => conj (crosswind_is_minus_perp2 x y xm ym u v H) (crosswind_ratio x y xm ym u v H))
        (conj crosswind_is_min_distance (conj pythagoras (conj crosswind_reversal (conj crosswind_scale
        (fun x y xm ym u v H => conj (crosswind_mirror x y xm ym u v H) (upwind_mirror x y xm ym u v H))))))).
Qed.

(* ---- sector: g = -(angle between cell - tower and the upwind direction -(u, v)), cell <> tower, wind <> 0 *)
Theorem C20_sector_is_minus_angle :
  (* cosine of the result = cosine of the angle between the two directions *)
  (forall x y xm ym u v : R, 0 < dist2 x y xm ym -> 0 < u * u + v * v ->
     cos (sa_sector x y xm ym u v)
     = ((x - xm) * (- u) + (y - ym) * (- v)) / (dist x y xm ym * sqrt (u * u + v * v))) /\
  (* the result is minus that angle (in [0, pi]) *)
  (forall x y xm ym u v : R, 0 < dist2 x y xm ym -> 0 < u * u + v * v ->
     sa_sector x y xm ym u v = - acos (up_cosangle x y xm ym u v)) /\
  (* the two nested arctan2 of the code are one arctan2 of (cross, dot) *)
  (forall x y xm ym u v : R, 0 < dist2 x y xm ym -> 0 < u * u + v * v ->
     sa_sector x y xm ym u v = - Rabs (atan2 (up_cross x y xm ym u v) (up_dot x y xm ym u v))) /\
  (* g attains its maximum 0 exactly on the open ray from the tower into the upwind direction *)
  (forall x y xm ym u v : R, 0 < dist2 x y xm ym -> 0 < u * u + v * v ->
     (sa_sector x y xm ym u v = 0 <-> on_upwind_ray x y xm ym u v)) /\
  (* super-level sets are open cones about the upwind direction: angle < alpha *)
  (forall x y xm ym u v alpha : R, 0 < dist2 x y xm ym -> 0 < u * u + v * v -> 0 <= alpha <= PI ->
     (- alpha < sa_sector x y xm ym u v <-> cos alpha < up_cosangle x y xm ym u v)) /\
  (* mirror symmetry about the wind axis *)
  (forall x y xm ym u v : R, 0 < dist2 x y xm ym -> 0 < u * u + v * v ->
     sa_sector (mirror_x x y xm ym u v) (mirror_y x y xm ym u v) xm ym u v = sa_sector x y xm ym u v).
Proof.
  exact (conj sector_cos (conj sector_is_minus_angle (conj sector_closed_form (conj sector_zero_iff
        (conj sector_cone sector_mirror))))).
Qed.

(* ---- sector, every input (degenerate ones included) *)
Theorem C20_sector_all_inputs :
  (forall x y xm ym u v : R, - PI <= sa_sector x y xm ym u v <= 0) /\
  (* positive scaling of the wind / of the displacement from the tower *)
  (forall k x y xm ym u v : R, 0 < k ->
     sa_sector x y xm ym (k * u) (k * v) = sa_sector x y xm ym u v /\
     sa_sector (xm + k * (x - xm)) (ym + k * (y - ym)) xm ym u v = sa_sector x y xm ym u v) /\
  (* what the code returns AT the tower (arctan2(0,0) = 0): minus the absolute direction angle of the upwind vector —
     an artefact of the formula, not an angle between two directions *)
  (forall xm ym u v : R, sa_sector xm ym xm ym u v = - Rabs (atan2 (- v) (- u))).
Proof.
  exact (conj sector_range (conj (fun k x y xm ym u v H => conj (sector_scale_wind k x y xm ym u v H)
        (sector_scale_displacement k x y xm ym u v H)) sector_at_tower)).
Qed.

(* non-vacuity: tower (0,0), cell (5,0), wind (3,4): 3 along, 4 across, angle acos(-3/5) off the upwind direction;
   a cell on the upwind ray; the value at the tower for a southward wind *)
Example C20_base_nonvacuous :
  0 < 3 * 3 + 4 * 4 /\ 0 < dist2 5 0 0 0 /\
  sa_circular 5 0 0 0 = -25 /\ sa_upwind 5 0 0 0 3 4 = 3 /\ sa_crosswind 5 0 0 0 3 4 = -16 /\
  sa_sector 5 0 0 0 3 4 = - acos (-3 / 5) /\
  on_upwind_ray 7 9 1 1 (-3) (-4) /\ sa_sector 7 9 1 1 (-3) (-4) = 0 /\
  sa_sector 1 1 1 1 0 (-2) = - (PI / 2).
Proof. exact base_examples. Qed.

Goal True. idtac "THEOREM C20_contribution_identity". Abort. Print Assumptions C20_contribution_identity.
Goal True. idtac "THEOREM C20_circular_is_minus_dist2". Abort. Print Assumptions C20_circular_is_minus_dist2.
Goal True. idtac "THEOREM C20_upwind_is_projection". Abort. Print Assumptions C20_upwind_is_projection.
Goal True. idtac "THEOREM C20_crosswind_is_minus_perp2". Abort. Print Assumptions C20_crosswind_is_minus_perp2.
Goal True. idtac "THEOREM C20_sector_is_minus_angle". Abort. Print Assumptions C20_sector_is_minus_angle.
Goal True. idtac "THEOREM C20_sector_all_inputs". Abort. Print Assumptions C20_sector_all_inputs.
