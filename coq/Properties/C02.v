(* C02 — footprint weights reproduce the flux and concentration seen at the tower.
   Only statements, `exact`, Print Assumptions. *)
From Coq Require Import ZArith List Bool.
From BL Require Import Base.Ops Base.Laws Model.Solver Model.Utils Proofs.SpecProofs Proofs.C04Proofs Proofs.C02Proofs Proofs.UtilsProofs.
Import ListNotations.

(* For EVERY real surface-flux field, every on-grid measurement point (im, jm), every halo (the
   geometry g carries any px, py, in particular those of halo widths that are not whole numbers of
   cells), every retained-mode count, every profile set, level list, numerical or analytic branch:
     sum_{j,i} q[j,i] * footprint_(im,jm)[k][j][i]          = forward flux[k][jm][im]
     sum_{j,i} q[j,i] * concentration Green's fn[k][j][i]   = forward conc[k][jm][im] - background
   (double-precision storage; the forward run is taken with meas_pt = (0,0)). *)
Theorem C02_reciprocity : forall (O : Ops), Laws O ->
  forall (a : args O) (g : geom O) (im jm : nat) (p : C O),
  wf O a -> a_single O a = false ->
  (forall j i, cre O (cellq O (a_q0 O a) j i) = cellq O (a_q0 O a) j i) ->
  geometry O (fp_req O a (cmul O (cofZ O (Z.of_nat im)) (g_dx O g)) (cmul O (cofZ O (Z.of_nat jm)) (g_dy O g))) = inl g ->
  g_dx O g <> c0 O -> g_dy O g <> c0 O -> g_nxe O g <> 0%nat -> g_nye O g <> 0%nat ->
  (0 < g_nlx O g)%nat -> (0 < g_nly O g)%nat -> (im < g_nx O g)%nat -> (jm < g_ny O g)%nat ->
  forall k, (k < length (a_levels O a))%nat ->
  let afp := fp_req O a (cmul O (cofZ O (Z.of_nat im)) (g_dx O g)) (cmul O (cofZ O (Z.of_nat jm)) (g_dy O g)) in
  let afw := fw_req O a p in
  csum O (map (fun j => csum O (map (fun i =>
      cmul O (cellq O (a_q0 O a) j i) (get3 O (field O afp g snd (table O afp g)) k j i))
    (seq 0 (g_nx O g)))) (seq 0 (g_ny O g)))
  = get3 O (field O afw g snd (table O afw g)) k jm im
  /\
  csum O (map (fun j => csum O (map (fun i =>
      cmul O (cellq O (a_q0 O a) j i) (get3 O (field O afp g fst (table O afp g)) k j i))
    (seq 0 (g_nx O g)))) (seq 0 (g_ny O g)))
  = csub O (get3 O (field O afw g fst (table O afw g)) k jm im) (cre O p).
Proof. exact reciprocity. Qed.

(* the phase shift the (repaired) code applies in footprint mode is exactly the forward phase at
   the tower's index in the padded array — the identity that fails with the raw halo width *)
Theorem C02_shift_is_phase : forall (O : Ops), Laws O ->
  forall (a : args O) (g : geom O) (im jm : nat),
  g_dx O g <> c0 O -> g_dy O g <> c0 O -> g_nxe O g <> 0%nat -> g_nye O g <> 0%nat ->
  forall t,
  shift O (fp_req O a (cmul O (cofZ O (Z.of_nat im)) (g_dx O g)) (cmul O (cofZ O (Z.of_nat jm)) (g_dy O g))) g (fst t) (snd t)
  = cis O (phase O g (fftfreq (g_nlx O g) (fst t)) (fftfreq (g_nly O g) (snd t)) (im + g_px O g) (jm + g_py O g)).
Proof. exact shift_fp_phase. Qed.

(* the same with the package's own helper utils.point_measurement(f, g) = np.sum(f * g)
   (Model/Utils.v): point_measurement(q, footprint[k]) is the forward flux at the tower and
   point_measurement(q, G[k]) the forward concentration above background *)
Theorem C02_point_measurement : forall (O : Ops), Laws O ->
  forall (a : args O) (g : geom O) (im jm : nat) (p : C O),
  wf O a -> a_single O a = false ->
  (forall j i, cre O (cellq O (a_q0 O a) j i) = cellq O (a_q0 O a) j i) ->
  geometry O (fp_req O a (cmul O (cofZ O (Z.of_nat im)) (g_dx O g)) (cmul O (cofZ O (Z.of_nat jm)) (g_dy O g))) = inl g ->
  g_dx O g <> c0 O -> g_dy O g <> c0 O -> g_nxe O g <> 0%nat -> g_nye O g <> 0%nat ->
  (0 < g_nlx O g)%nat -> (0 < g_nly O g)%nat -> (im < g_nx O g)%nat -> (jm < g_ny O g)%nat ->
  forall k, (k < length (a_levels O a))%nat ->
  let afp := fp_req O a (cmul O (cofZ O (Z.of_nat im)) (g_dx O g)) (cmul O (cofZ O (Z.of_nat jm)) (g_dy O g)) in
  let afw := fw_req O a p in
  (point_measurement O (a_q0 O a) (nth k (field O afp g snd (table O afp g)) [])
   = get3 O (field O afw g snd (table O afw g)) k jm im)
  /\
  (point_measurement O (a_q0 O a) (nth k (field O afp g fst (table O afp g)) [])
   = csub O (get3 O (field O afw g fst (table O afw g)) k jm im) (cre O p)).
Proof. exact reciprocity_point_measurement. Qed.

(* point_measurement is the sum over all cells of the element-wise product, for any two equally
   shaped arrays *)
Theorem C02_point_measurement_cells : forall (O : Ops), Laws O ->
  forall (f g : list (list (C O))) (ny nx : nat),
  length f = ny -> length g = ny ->
  (forall row, In row f -> length row = nx) -> (forall row, In row g -> length row = nx) ->
  point_measurement O f g
  = csum O (map (fun j => csum O (map (fun i => cmul O (cellq O f j i) (cellq O g j i)) (seq 0 nx))) (seq 0 ny)).
Proof. exact point_measurement_cells. Qed.

Goal True. idtac "THEOREM C02_reciprocity". Abort. Print Assumptions C02_reciprocity.
Goal True. idtac "THEOREM C02_shift_is_phase". Abort. Print Assumptions C02_shift_is_phase.
Goal True. idtac "THEOREM C02_point_measurement". Abort. Print Assumptions C02_point_measurement.
Goal True. idtac "THEOREM C02_point_measurement_cells". Abort. Print Assumptions C02_point_measurement_cells.
