(* C19, second file: the theorems whose proofs use the interval tactic or Coquelicot.
   Only statements, `exact`, the non-vacuity example and Print Assumptions. *)
From Coq Require Import Reals List ZArith Lra.
From Coquelicot Require Import Coquelicot.
From Interval Require Import Tactic.
From BL Require Import Model.KM Proofs.KMProofs Proofs.KMRefute Proofs.KMMass.
Open Scope R_scope.

(* the UNREPAIRED helpers (np.zeros_like(zm) with integer zm) truncate: zm = 10, L = -50 and zm = 10, L = 100 *)
Theorem C19_int_refuted :
  phiM_trunc 10 (-50) = 0 /\ 0 < phiM 10 (-50) /\ phiC_trunc 10 (-50) = 0 /\ 0 < phiC 10 (-50) /\
  phiM_trunc 10 100 = 1 /\ phiM 10 100 = 3 / 2 /\ nParam_trunc 10 100 = 0 /\ nParam 10 100 = 2 / 3.
Proof. exact int_refuted. Qed.

(* PARTIAL.  Full clause: "the sum tends to the regularised incomplete-gamma mass captured within the grid's
   upwind extent as the grid is refined".  Proved: (1) the grid total is the midpoint Riemann sum of the
   published density over the upwind cells; (2) GIVEN a function IG with the defining derivative of the upper
   incomplete gamma function, the crosswind-integrated footprint between upwind distances a and X integrates
   to Q(X) - Q(a), Q(X) = IG(mu, xi/X)/Gamma(mu) (= scipy.special.gammaincc(mu, xi/X)).
   NOT proved (no Gamma / incomplete-gamma / Gaussian-integral library installed): that int D_y dy = 1, that
   Q(a) -> 0 as a -> 0+, and the convergence of the Riemann sums; these are carried by the oracle
   (signature "mass:limit"). *)
Theorem C19_mass_partial : forall (Gamma : R -> R), (forall t, 0 < t -> 0 < Gamma t) ->
  (forall p res mx my xmin ymax nx ny, physical p -> 0 < U_of p ->
     grid_total Gamma p res mx my xmin ymax nx ny =
     rsum ny (fun i => rsum nx (fun j =>
       let x := grid_xc xmin res j - mx in let y := grid_yc ymax res i - my in
       if Rlt_dec 0 x then res * res * (fy Gamma (mu_of p) (Xi_of p) x
            * Dy (sigma_y (p_sv p) (ubar Gamma (mu_of p) (r_of p) (m_of p) (kappa_of p) (U_of p) x) x) y) else 0))) /\
  (forall IG : R -> R -> R,
     (forall a t, 0 < t -> is_derive (IG a) t (- (Rpower t (a - 1) * exp (- t)))) ->
     forall mu xi a X, 0 < mu -> 0 < xi -> 0 < a <= X ->
     is_RInt (fy Gamma mu xi) a X (IG mu (xi / X) / Gamma mu - IG mu (xi / a) / Gamma mu)).
Proof.
  intros Gamma HG. split.
  - exact (grid_total_riemann Gamma HG).
  - intros IG HIG mu xi a X Hmu Hxi Ha.
    exact (mass_between Gamma IG HIG mu xi a X Hxi Ha (Rgt_not_eq _ _ (HG mu Hmu))).
Qed.

(* non-vacuity: the test suite's parameter set is physical with U > 0, both stabilities *)
Example C19_nonvacuous :
  let p1 := mkPar 10 (1/10) 4 (2/5) (-100) (3/10) in
  let p2 := mkPar 10 (1/10) 4 (2/5) 100 (3/10) in
  physical p1 /\ 0 < U_of p1 /\ physical p2 /\ 0 < U_of p2.
Proof.
  cbv zeta. unfold physical; simpl.
  assert (U1 : 0 < U_of (mkPar 10 (1/10) 4 (2/5) (-100) (3/10))).
  { unfold U_of, Ucoef, m_of, mParam; simpl. rewrite psiM_unstable, phiM_unstable by lra.
    unfold zeta, vk, Rpower. interval. }
  assert (U2 : 0 < U_of (mkPar 10 (1/10) 4 (2/5) 100 (3/10))).
  { unfold U_of, Ucoef, m_of, mParam; simpl. rewrite psiM_stable, phiM_stable by lra.
    unfold vk, Rpower. interval. }
  repeat split; try lra; assumption.
Qed.

Goal True. idtac "THEOREM C19_int_refuted". Abort. Print Assumptions C19_int_refuted.
Goal True. idtac "THEOREM C19_mass_partial". Abort. Print Assumptions C19_mass_partial.
