(* C08, centroid clause on cardinal winds, second file: the hypothesis "no wind across the axis" of
   Properties/C08Axis.v is what the interface produces for the four cardinal wind directions, and the centroid
   statement end to end over the complex numbers (Base/ROps.v, whose Laws are proved).
   Only statements, `exact`, Print Assumptions.  Over R: compute_wind_fields (C08_cardinals) and the profiles
   (C09_direction); env_wind E U wd := (e_um E, e_vm E) = compute_wind_fields U wd;
   column f n := [RtoC (f 0); ...; RtoC (f (n-1))]  (Proofs/C08AxisWind.v). *)
From Coq Require Import ZArith List Bool Reals.
From BL Require Import Base.Ops Base.Laws Base.ROps Model.Solver Model.Wind Model.Pbl
  Proofs.SpecProofs Proofs.C06Proofs Proofs.C07Mirror Proofs.C08Axis Proofs.C08AxisWind.
Import ListNotations.
Open Scope R_scope.

Theorem C08_cardinal_no_crosswind : forall c E U wd i, U <> 0 -> env_wind E U wd ->
  (wd = 90 \/ wd = 270 -> v_node c E i = 0) /\ (wd = 0 \/ wd = 180 -> u_node c E i = 0).
Proof. exact (fun c E U wd i HU Hw => conj (fun Hwd => east_west_no_v c E U wd i HU Hwd Hw) (fun Hwd => north_south_no_u c E U wd i HU Hwd Hw)). Qed.

Theorem C08_cardinal_request : forall c E U wd (a : args ROps) n, U <> 0 -> env_wind E U wd ->
  (wd = 90 \/ wd = 270 -> p_v ROps (a_prof ROps a) = column (v_node c E) n -> no_v ROps a) /\
  (wd = 0 \/ wd = 180 -> p_u ROps (a_prof ROps a) = column (u_node c E) n -> no_u ROps a).
Proof. exact (fun c E U wd a n HU Hw => conj (fun Hwd => request_no_v c E U wd a n HU Hwd Hw) (fun Hwd => request_no_u c E U wd a n HU Hwd Hw)). Qed.

(* end to end over the complex numbers (Laws proved: ROps_laws): flux footprint for wind_dir 90/270, any closure *)
Theorem C08_centroid_cardinal_east_west_partial : forall c E U wd (a : args ROps) (g : geom ROps) n k jm r cols,
  U <> 0 -> wd = 90 \/ wd = 270 -> env_wind E U wd ->
  p_v ROps (a_prof ROps a) = column (v_node c E) n ->
  geometry ROps a = inl g -> a_footprint ROps a = true -> g_dy ROps g <> c0 ROps ->
  tower_y ROps a g (2 * Z.of_nat jm) -> exact_y ROps g ->
  (k < length (a_levels ROps a))%nat ->
  (forall d, (- Z.of_nat r <= d <= Z.of_nat r)%Z -> (cyc (g_nye ROps g) jm d < g_ny ROps g)%nat) ->
  (forall i, In i cols -> (i < g_nx ROps g)%nat) ->
  let S := fun d : Z => csum ROps (map (fun i =>
              get3 ROps (field ROps a g snd (table ROps a g)) k (cyc (g_nye ROps g) jm d) i) cols) in
  wsum ROps r (fun d => cmul ROps (cofZ ROps d) (S d)) = c0 ROps /\
  wsum ROps r (fun d => cmul ROps (cmul ROps (cofZ ROps (Z.of_nat jm + d)) (g_dy ROps g)) (S d))
  = cmul ROps (a_ym ROps a) (wsum ROps r S).
Proof. exact cardinal_centroid_rows. Qed.

Theorem C08_centroid_cardinal_north_south_partial : forall c E U wd (a : args ROps) (g : geom ROps) n k im r rows,
  U <> 0 -> wd = 0 \/ wd = 180 -> env_wind E U wd ->
  p_u ROps (a_prof ROps a) = column (u_node c E) n ->
  geometry ROps a = inl g -> a_footprint ROps a = true -> g_dx ROps g <> c0 ROps ->
  tower_x ROps a g (2 * Z.of_nat im) -> exact_x ROps g ->
  (k < length (a_levels ROps a))%nat ->
  (forall d, (- Z.of_nat r <= d <= Z.of_nat r)%Z -> (cyc (g_nxe ROps g) im d < g_nx ROps g)%nat) ->
  (forall j, In j rows -> (j < g_ny ROps g)%nat) ->
  let S := fun d : Z => csum ROps (map (fun j =>
              get3 ROps (field ROps a g snd (table ROps a g)) k j (cyc (g_nxe ROps g) im d)) rows) in
  wsum ROps r (fun d => cmul ROps (cofZ ROps d) (S d)) = c0 ROps /\
  wsum ROps r (fun d => cmul ROps (cmul ROps (cofZ ROps (Z.of_nat im + d)) (g_dx ROps g)) (S d))
  = cmul ROps (a_xm ROps a) (wsum ROps r S).
Proof. exact cardinal_centroid_cols. Qed.

(* non-vacuity of env_wind with a cardinal direction and a non-zero speed *)
Example C08_cardinal_nonvacuous : exists E, env_wind E 3 270 /\ (3 : R) <> 0 /\ e_um E = 3 /\ e_vm E = 0.
Proof. exact cardinal_example. Qed.

Goal True. idtac "THEOREM C08_cardinal_no_crosswind". Abort. Print Assumptions C08_cardinal_no_crosswind.
Goal True. idtac "THEOREM C08_cardinal_request". Abort. Print Assumptions C08_cardinal_request.
Goal True. idtac "THEOREM C08_centroid_cardinal_east_west_partial". Abort. Print Assumptions C08_centroid_cardinal_east_west_partial.
Goal True. idtac "THEOREM C08_centroid_cardinal_north_south_partial". Abort. Print Assumptions C08_centroid_cardinal_north_south_partial.
Goal True. idtac "THEOREM C08_cardinal_nonvacuous". Abort. Print Assumptions C08_cardinal_nonvacuous.
