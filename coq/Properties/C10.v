(* C10 — each returned slice is the solution at the height the grid reports for it.
   Only statements, `exact`, Print Assumptions. *)
From Coq Require Import ZArith List Bool.
From BL Require Import Base.Ops Base.Laws Model.Solver Proofs.StepProofs Proofs.ModeProofs Proofs.SpecProofs Proofs.C10Proofs.
Import ListNotations.

(* For ANY list of valid levels (any order, repetitions, any length) slot k of the result is the
   result of the single-level request for node levels[k]: same cells of concentration and flux
   (both modes, numerical and analytic, both storage precisions), the height coordinate of slot
   k is z[levels[k]], and x, y coordinates coincide.  Applying it to two different requests that
   contain the same node (e.g. a subset and the full column) shows their slices coincide too. *)
Theorem C10_slice_is_level : forall (O : Ops), Laws O ->
  forall (a : args O) r k,
  wf O a -> solve O a = inl r -> (k < length (a_levels O a))%nat ->
  let lv := nth k (a_levels O a) 0%nat in
  exists r1, solve O (with_levels O a [lv]) = inl r1 /\
    nth k (r_z O r) (c0 O) = nth0 O (a_z O a) lv /\ r_z O r1 = [nth0 O (a_z O a) lv] /\
    r_x O r1 = r_x O r /\ r_y O r1 = r_y O r /\
    forall j i, (j < length (a_q0 O a))%nat -> (i < length (hd [] (a_q0 O a)))%nat ->
                get3 O (r_conc O r) k j i = get3 O (r_conc O r1) 0%nat j i /\
                get3 O (r_flx O r) k j i = get3 O (r_flx O r1) 0%nat j i.
Proof. exact slice_is_level. Qed.

(* the recording loop of the numerical sweep (as repaired: by position): slot k holds the state
   at node levels[k] of the layer recurrence, whatever the order of the list *)
Theorem C10_record : forall (O : Ops), Laws O ->
  forall lx ly (layers : list (layer O)) (levels : list nat) st0,
  let '(stf, rp, rq) := ivp O lx ly layers levels st0 in
  stf = final O lx ly layers st0 /\
  length rp = length levels /\ length rq = length levels /\
  forall k d, (k < length levels)%nat -> (nth k levels 0%nat <= length layers)%nat ->
    nth k rp d = fst (nth (nth k levels 0%nat) (traj O lx ly layers st0) (d, d)) /\
    nth k rq d = snd (nth (nth k levels 0%nat) (traj O lx ly layers st0) (d, d)).
Proof. exact ivp_spec. Qed.

Goal True. idtac "THEOREM C10_slice_is_level". Abort. Print Assumptions C10_slice_is_level.
Goal True. idtac "THEOREM C10_record". Abort. Print Assumptions C10_record.
