(* C10 — each returned slice is the solution at the height the grid reports for it.
   Only statements, `exact`, Print Assumptions. *)
From Coq Require Import ZArith List Bool.
From BL Require Import Base.Ops Base.Laws Model.Solver Model.KernelPy Proofs.StepProofs Proofs.ModeProofs Proofs.SpecProofs Proofs.C10Proofs Proofs.KernelBridgeLemmas.
Import ListNotations.

(* For ANY list of valid levels (any order, repetitions, any length) slot k of the result is the
   result of the single-level request for node levels[k]: same cells of concentration and flux
   (both modes, numerical and analytic, both storage precisions), the height coordinate of slot
   k is z[levels[k]], and x, y coordinates coincide.  Applying it to two different requests that
   contain the same node (e.g. a subset and the full column) shows their slices coincide too. *)
Theorem C10_slice_is_level : forall (O : Ops), Laws O ->
  forall (a : args O) r k,
  wf O a -> solve O a = inl r -> (k < length (a_levels O a))%nat ->
  let lv := nth k (a_levels O a) 0%nat in
  exists r1, solve O (with_levels O a [lv]) = inl r1 /\
    nth k (r_z O r) (c0 O) = nth0 O (a_z O a) lv /\ r_z O r1 = [nth0 O (a_z O a) lv] /\
    r_x O r1 = r_x O r /\ r_y O r1 = r_y O r /\
    forall j i, (j < length (a_q0 O a))%nat -> (i < length (hd [] (a_q0 O a)))%nat ->
                get3 O (r_conc O r) k j i = get3 O (r_conc O r1) 0%nat j i /\
                get3 O (r_flx O r) k j i = get3 O (r_flx O r1) 0%nat j i.
Proof. exact slice_is_level. Qed.

(* the recording loop of the numerical sweep (as repaired: by position): slot k holds the state
   at node levels[k] of the layer recurrence, whatever the order of the list *)
Theorem C10_record : forall (O : Ops), Laws O ->
  forall lx ly (layers : list (layer O)) (levels : list nat) st0,
  let '(stf, rp, rq) := ivp O lx ly layers levels st0 in
  stf = final O lx ly layers st0 /\
  length rp = length levels /\ length rq = length levels /\
  forall k d, (k < length levels)%nat -> (nth k levels 0%nat <= length layers)%nat ->
    nth k rp d = fst (nth (nth k levels 0%nat) (traj O lx ly layers st0) (d, d)) /\
    nth k rq d = snd (nth (nth k levels 0%nat) (traj O lx ly layers st0) (d, d)).
Proof. exact ivp_spec. Qed.

(* ---- the control structure of the kernel, as loops (what Bridge/KernelBridge.v instantiates with the loop bodies
   translated from the current source; no field law is involved) *)

(* a loop over the slots whose body is, slot by slot, `if levels[k] == i: a[k] = x; b[k] = y` IS the model's record of
   both columns - any level list (repeats, out-of-range entries), any previous contents *)
Theorem C10_recording_loop_is_record : forall (O : Ops)
  (f : list (C O) * list (C O) -> nat -> list (C O) * list (C O)) (levels : list nat) (i : nat) (x y : C O) rp rq,
  length rp = length levels -> length rq = length levels ->
  (forall k a b, (k < length levels)%nat ->
     f (a, b) k = if Nat.eqb (nth k levels 0%nat) i then (pyset a k x, pyset b k y) else (a, b)) ->
  fold_left f (seq 0 (length levels)) (rp, rq) = (record O levels i x rp, record O levels i y rq).
Proof. exact record_fold2. Qed.

(* a loop `for i in range(nz - 1)` over (p, q, column, column) whose body is, layer by layer, `record p; record q;
   step of layer i` with the layer read off the profile arrays BY INDEX is the model's ivp_loop over the zipped layers -
   any column length, any level list, any initial state and column contents *)
Theorem C10_layer_loop_is_ivp_loop : forall (O : Ops)
  (F : C O * C O * list (C O) * list (C O) -> nat -> C O * C O * list (C O) * list (C O))
  lx ly (u v Kx Ky Kz z : list (C O)) (levels : list nat) p0 q0 rp rq,
  (length z - 1 <= length u)%nat -> (length z - 1 <= length v)%nat -> (length z - 1 <= length Kx)%nat ->
  (length z - 1 <= length Ky)%nat -> (length z - 1 <= length Kz)%nat ->
  length rp = length levels -> length rq = length levels ->
  (forall i p q rp rq, (i < length z - 1)%nat -> length rp = length levels -> length rq = length levels ->
     F (p, q, rp, rq) i
     = (let s := step O lx ly (mkLayer O (nth i Kx (c0 O)) (nth i Ky (c0 O)) (nth i u (c0 O)) (nth i v (c0 O))
                                         (nth i Kz (c0 O)) (nth i (diffs O z) (c0 O))) (p, q) in
        (fst s, snd s, record O levels i p rp, record O levels i q rq))) ->
  fold_left F (seq 0 (length z - 1)) (p0, q0, rp, rq)
  = flat4 O (ivp_loop O lx ly (layers_of O z (mkProf O u v Kx Ky Kz)) 0%nat levels (p0, q0) rp rq).
Proof. exact ivp_fold_bridge. Qed.

(* the same for the mean mode: `record; trapezoid update with Kz[i], Kz[i+1], dz[i]`, then the final record *)
Theorem C10_mean_loop_is_mean_loop : forall (O : Ops)
  (F : C O * list (C O) -> nat -> C O * list (C O)) q00 (z Kz : list (C O)) (levels : list nat) p000 rec,
  (length z <= length Kz)%nat -> (1 <= length z)%nat -> length rec = length levels ->
  (forall i p r, (i < length z - 1)%nat -> length r = length levels ->
     F (p, r) i = (mean_update O p q00 (nth i (diffs O z) (c0 O)) (nth i Kz (c0 O)) (nth (S i) Kz (c0 O)),
                   record O levels i p r)) ->
  (let s := fold_left F (seq 0 (length z - 1)) (p000, rec) in
   (fst s, record O levels (length z - 1) (fst s) (snd s)))
  = mean_loop O q00 (diffs O z) Kz 0%nat levels p000 rec.
Proof. exact mean_fold_bridge. Qed.

Goal True. idtac "THEOREM C10_slice_is_level". Abort. Print Assumptions C10_slice_is_level.
Goal True. idtac "THEOREM C10_record". Abort. Print Assumptions C10_record.
Goal True. idtac "THEOREM C10_recording_loop_is_record". Abort. Print Assumptions C10_recording_loop_is_record.
Goal True. idtac "THEOREM C10_layer_loop_is_ivp_loop". Abort. Print Assumptions C10_layer_loop_is_ivp_loop.
Goal True. idtac "THEOREM C10_mean_loop_is_mean_loop". Abort. Print Assumptions C10_mean_loop_is_mean_loop.
