(* C20 — source-area rescaling and percentile contours mean what they say.
   This file contains only statements, `exact`, non-vacuity Examples and Print Assumptions.

   Setting (Model/SourceArea.v): exact rationals Q (== is Qeq); a flattened field is a list, a cell
   is an index.  numpy's argsort is not modelled: `order`/`idx` is ANY permutation of the cells that
   sorts the field non-increasingly (`sorts_desc`).  All theorems hold for lists of any length.

   About the property text "[0, total)": what is true is  0 <= v_c <= total - f_c.  The value is
   < total exactly at cells that carry something themselves (f_c > 0); a cell with f_c = 0 that is
   last in the order gets v_c = total (Example C20_range_total_attained), and for f = 0 the
   interval [0,0) is empty.  This is a property of the sum in the property's first clause, not of
   the code.  C20_range states the sharp bound. *)
From Coq Require Import List Arith QArith Qabs Bool ZArith Permutation Lia.
From BL Require Import Model.SourceArea Model.SourceAreaExec Proofs.SourceAreaProofs Model.SADesc Proofs.SABridgeLemmas.
Import ListNotations.
Open Scope Q_scope.

(* the result has one value per cell *)
Theorem C20_shape : forall (f g : list Q) (order : list nat),
  length g = length f -> sorts_desc g order ->
  length (get_source_area f order) = length f.
Proof. exact rescaled_shape. Qed.

(* value at c lies between the sum of f over the cells with strictly larger g and the sum over the
   other cells with larger-or-equal g *)
Theorem C20_rescaled_bounds : forall (f g : list Q) (order : list nat),
  length g = length f -> nonneg f -> sorts_desc g order ->
  forall c, (c < length f)%nat ->
  S_gt f g c <= nth c (get_source_area f order) 0 /\
  nth c (get_source_area f order) 0 <= S_ge_other f g c.
Proof. exact rescaled_bounds. Qed.

(* sharper: it EQUALS the sum over the strictly larger cells plus the sum over some set T of other
   cells tied with c ("cells tied with it may or may not be counted") *)
Theorem C20_rescaled_exact : forall (f g : list Q) (order : list nat),
  length g = length f -> nonneg f -> sorts_desc g order ->
  forall c, (c < length f)%nat ->
  exists T, NoDup T /\
    (forall i, In i T -> (i < length f)%nat /\ i <> c /\ nth i g 0 == nth c g 0) /\
    nth c (get_source_area f order) 0 == S_gt f g c + sum_over f T.
Proof. exact rescaled_exact. Qed.

(* 0 <= v_c <= total - f_c <= total, and v_c < total where f_c > 0 (see the header comment) *)
Theorem C20_range : forall (f g : list Q) (order : list nat),
  length g = length f -> nonneg f -> sorts_desc g order ->
  forall c, (c < length f)%nat ->
  0 <= nth c (get_source_area f order) 0 /\
  nth c (get_source_area f order) 0 <= sumQ f - nth c f 0 /\
  nth c (get_source_area f order) 0 <= sumQ f /\
  (0 < nth c f 0 -> nth c (get_source_area f order) 0 < sumQ f).
Proof. exact rescaled_range. Qed.

(* does not increase with g (in fact drops by at least f_b) *)
Theorem C20_antitone : forall (f g : list Q) (order : list nat),
  length g = length f -> nonneg f -> sorts_desc g order ->
  forall a b, (a < length f)%nat -> (b < length f)%nat -> nth a g 0 < nth b g 0 ->
  nth b (get_source_area f order) 0 + nth b f 0 <= nth a (get_source_area f order) 0.
Proof. exact rescaled_antitone. Qed.

(* a strictly increasing h (respecting ==, which is automatic for a function on the rationals;
   the hypothesis is an artefact of Q's representation) does not change what a sorting order is;
   whatever two orders argsort returns for g and for h(g), both results obey the bounds w.r.t. g
   and they agree at every cell whose g value is not shared with another cell *)
Theorem C20_monotone_transform_invariant : forall (f g : list Q) (h : Q -> Q) (o1 o2 : list nat),
  length g = length f -> nonneg f ->
  (forall x y, x == y -> h x == h y) -> (forall x y, x < y -> h x < h y) ->
  sorts_desc g o1 -> sorts_desc (map h g) o2 ->
  sorts_desc (map h g) o1 /\ sorts_desc g o2 /\
  forall c, (c < length f)%nat ->
    (S_gt f g c <= nth c (get_source_area f o1) 0 /\ nth c (get_source_area f o1) 0 <= S_ge_other f g c) /\
    (S_gt f g c <= nth c (get_source_area f o2) 0 /\ nth c (get_source_area f o2) 0 <= S_ge_other f g c) /\
    (untied g c -> nth c (get_source_area f o1) 0 == nth c (get_source_area f o2) 0).
Proof. exact transform_invariant. Qed.

(* a common permutation pi of the cells (f' = f[pi], g' = g[pi]): for every order' sorting g' the
   composed order pi[order'] sorts g and the results correspond cell by cell *)
Theorem C20_permutation_equivariant : forall (f g : list Q) (pi order' : list nat),
  length g = length f -> Permutation pi (seq 0 (length f)) ->
  sorts_desc (gather g pi) order' ->
  sorts_desc g (compose_perm pi order') /\
  forall i, (i < length f)%nat ->
    nth i (get_source_area (gather f pi) order') 0 ==
    nth (nth i pi 0%nat) (get_source_area f (compose_perm pi order')) 0.
Proof. exact permutation_equivariant. Qed.

(* percentile: k+1 = the least number (>= 1; >= 0 when p*total > 0) of top cells whose sum
   reaches p*total; they are distinct cells, every one of them is >= level, every other cell is
   <= level, level is attained among them; area = (k+1)*cell *)
Theorem C20_percentile_least : forall (flat : list Q) (idx : list nat) (cell p : Q),
  flat <> [] -> nonneg flat -> sorts_desc flat idx -> 0 < cell -> 0 <= p <= 1 ->
  exists k level area,
    percentile_flat flat idx cell p = Some (level, area) /\
    (k < length flat)%nat /\
    NoDup (firstn (S k) idx) /\ length (firstn (S k) idx) = S k /\
    (forall i, In i (firstn (S k) idx) -> (i < length flat)%nat) /\
    area == inject_Z (Z.of_nat (S k)) * cell /\
    p * sumQ flat <= sum_over flat (firstn (S k) idx) /\
    (forall m, (1 <= m <= k)%nat -> sum_over flat (firstn m idx) < p * sumQ flat) /\
    (0 < p * sumQ flat -> forall m, (m <= k)%nat -> sum_over flat (firstn m idx) < p * sumQ flat) /\
    In (nth k idx 0%nat) (firstn (S k) idx) /\ level = nth (nth k idx 0%nat) flat 0 /\
    (forall i, In i (firstn (S k) idx) -> level <= nth i flat 0) /\
    (forall i, (i < length flat)%nat -> ~ In i (firstn (S k) idx) -> nth i flat 0 <= level).
Proof. exact percentile_least. Qed.

(* "fewest" against ALL sets of cells, not only prefixes of the order: no non-empty set of
   distinct cells with fewer members reaches p*total *)
Theorem C20_percentile_fewest : forall (flat : list Q) (idx : list nat) (cell p level area : Q),
  flat <> [] -> nonneg flat -> sorts_desc flat idx -> 0 < cell -> 0 <= p <= 1 ->
  percentile_flat flat idx cell p = Some (level, area) ->
  forall T, NoDup T -> (forall i, In i T -> (i < length flat)%nat) -> T <> [] ->
    p * sumQ flat <= sum_over flat T ->
    area <= inject_Z (Z.of_nat (length T)) * cell.
Proof. exact percentile_fewest. Qed.

(* area does not decrease, level does not increase with p (any p1 <= p2, not only in [0,1]) *)
Theorem C20_percentile_monotone : forall (flat : list Q) (idx : list nat) (cell p1 p2 l1 a1 l2 a2 : Q),
  nonneg flat -> sorts_desc flat idx -> 0 <= cell -> p1 <= p2 ->
  percentile_flat flat idx cell p1 = Some (l1, a1) ->
  percentile_flat flat idx cell p2 = Some (l2, a2) ->
  a1 <= a2 /\ l2 <= l1.
Proof. exact percentile_monotone. Qed.

(* scaling f by s > 0 scales the level and leaves the area unchanged (same idx, which still sorts) *)
Theorem C20_scaling : forall (s : Q), 0 < s -> forall (flat : list Q) (idx : list nat) (cell p : Q),
  (sorts_desc flat idx -> sorts_desc (map (Qmult s) flat) idx) /\
  match percentile_flat flat idx cell p, percentile_flat (map (Qmult s) flat) idx cell p with
  | Some (l, a), Some (l', a') => l' == s * l /\ a' == a
  | None, None => True
  | _, _ => False
  end.
Proof. exact (fun s Hs flat idx cell p => conj (scale_sorts s Hs flat idx) (percentile_scaling s Hs flat idx cell p)). Qed.

(* the pieces of the tie that are proved rather than tested: the boolean order check run by the
   correspondence is sound, and numpy's binary search equals the linear specification on the
   cumulative sums of a non-negative field *)
Theorem C20_order_check_sound : forall (x : list Q) (order : list nat),
  sorts_desc_b x order = true -> sorts_desc x order.
Proof. exact sorts_desc_b_sound. Qed.

Theorem C20_binary_search : forall (flat : list Q) (idx : list nat) (cell p : Q),
  nonneg flat -> 0 <= cell ->
  percentile_flat_bin flat idx cell p = percentile_flat flat idx cell p.
Proof. exact percentile_bin_eq. Qed.

(* ---------- non-vacuity ---------- *)

(* ties in g (cells 1,2), a zero in f: the hypotheses hold, and the values are what the bounds say *)
Example C20_nonvacuous_rescale :
  let f := [1#8; 1#4; 0; 1#2; 1#8] in
  let g := [3; 1; 1; 2; 0] in
  let order := [0; 3; 2; 1; 4]%nat in
  length g = length f /\ nonneg f /\ sorts_desc g order /\
  lq_eqb (get_source_area f order) [0; 5#8; 5#8; 1#8; 7#8] = true /\
  S_gt f g 1 == 5#8 /\ S_ge_other f g 1 == 5#8 /\ S_ge_other f g 2 == 7#8 /\ ~ untied g 1 /\ untied g 3.
Proof.
  cbv zeta. split; [reflexivity|]. split; [repeat constructor; discriminate|].
  split; [apply sorts_desc_b_sound; vm_compute; reflexivity|].
  split; [vm_compute; reflexivity|].
  split; [vm_compute; reflexivity|]. split; [vm_compute; reflexivity|]. split; [vm_compute; reflexivity|].
  split.
  - intros H. apply (H 2%nat); [simpl; auto with arith|discriminate|reflexivity].
  - intros i Hi Hne. simpl in Hi.
    destruct i as [|[|[|[|[|i]]]]]; try (exfalso; apply Hne; reflexivity); try (exfalso; simpl in Hi; inversion Hi; fail);
      vm_compute; discriminate || (simpl in Hi; exfalso; repeat apply le_S_n in Hi; inversion Hi).
Qed.

(* [0,total) fails for a zero cell that is last in the order: the value IS the total *)
Example C20_range_total_attained :
  let f := [1; 0] in let g := [2; 1] in let order := [0; 1]%nat in
  nonneg f /\ sorts_desc g order /\ nth 1 (get_source_area f order) 0 == sumQ f.
Proof.
  cbv zeta. split; [repeat constructor; discriminate|].
  split; [apply sorts_desc_b_sound; vm_compute; reflexivity|vm_compute; reflexivity].
Qed.

(* the defect of the unrepaired tree, in the model of the unrepaired code: with an integer-typed
   base field the stored value is truncated and falls below the sum over the strictly larger cells
   (f, g, order as returned by numpy for get_source_area(f, np.array([[3,1],[1,2]]))) *)
Example C20_unrepaired_integer_g_refuted :
  let f := [1#8; 1#4; 1#2; 1#8] in let g := [3; 1; 1; 2] in let order := [0; 3; 2; 1]%nat in
  nonneg f /\ sorts_desc g order /\
  nth 1 (get_source_area_unrepaired true f order) 0 < S_gt f g 1 /\
  S_gt f g 1 <= nth 1 (get_source_area f order) 0.
Proof.
  cbv zeta. split; [repeat constructor; discriminate|].
  split; [apply sorts_desc_b_sound; vm_compute; reflexivity|]. split; vm_compute; [reflexivity|discriminate].
Qed.

Example C20_nonvacuous_percentile :
  let flat := [1#8; 1#2; 1#4; 1#8] in
  let idx := [1; 2; 0; 3]%nat in
  flat <> [] /\ nonneg flat /\ sorts_desc flat idx /\
  opt_pair_eqb (percentile_flat flat idx 2 (3#4)) (1#4) 4 = true /\
  opt_pair_eqb (percentile_flat flat idx 2 1) (1#8) 8 = true /\
  opt_pair_eqb (percentile_flat (map (Qmult 3) flat) idx 2 (3#4)) (3#4) 4 = true.
Proof.
  cbv zeta. split; [discriminate|]. split; [repeat constructor; discriminate|].
  split; [apply sorts_desc_b_sound; vm_compute; reflexivity|].
  split; [vm_compute; reflexivity|]. split; vm_compute; reflexivity.
Qed.

(* ---- the two facts that connect the programs of the source (tie B, Model/SADesc.v + Bridge/SABridge.v) with the
   hypotheses above *)

(* the order both functions use, np.argsort(x)[::-1]: the reverse of ANY ascending sorting permutation satisfies
   sorts_desc, the hypothesis of every theorem above (no stability or tie rule of argsort is needed) *)
Theorem C20_reversed_argsort_order : forall (x : list Q) (o : list nat),
  sorts_asc x o -> sorts_desc x (rev o).
Proof. exact sorts_asc_rev_desc. Qed.

(* get_source_area allocates its result with np.empty_like (uninitialised memory): over a permutation of all cells the
   stores overwrite every cell, so the result is the model's get_source_area whatever the buffer contained *)
Theorem C20_empty_like_contents_irrelevant : forall (junk : Q) (f : list Q) (o : list nat) (n : nat),
  Permutation o (seq 0 n) ->
  scatter_into (repeat junk n) o (shift (cumsum (gather f o))) = get_source_area f o.
Proof. exact gsa_of_scatter_into. Qed.

Example C20_nonvacuous_argsort_order :
  let x := [3; 1; 2] in let o := [1; 2; 0]%nat in
  sorts_asc x o /\ rev o = [0; 2; 1]%nat /\
  scatter_into (repeat (7#3) 3) (rev o) (shift (cumsum (gather [1#2; 1#4; 1#4] (rev o)))) = [0; 6#8; 1#2].
Proof.
  cbv zeta. split; [split|split].
  - apply is_perm_b_sound. vm_compute. reflexivity.
  - intros i j Hij Hj. simpl in Hj.
    destruct i as [|[|[|i]]]; destruct j as [|[|[|j]]]; simpl; try lia; unfold Qle; simpl; lia.
  - reflexivity.
  - vm_compute. reflexivity.
Qed.

Goal True. idtac "THEOREM C20_shape". Abort. Print Assumptions C20_shape.
Goal True. idtac "THEOREM C20_rescaled_bounds". Abort. Print Assumptions C20_rescaled_bounds.
Goal True. idtac "THEOREM C20_rescaled_exact". Abort. Print Assumptions C20_rescaled_exact.
Goal True. idtac "THEOREM C20_range". Abort. Print Assumptions C20_range.
Goal True. idtac "THEOREM C20_antitone". Abort. Print Assumptions C20_antitone.
Goal True. idtac "THEOREM C20_monotone_transform_invariant". Abort. Print Assumptions C20_monotone_transform_invariant.
Goal True. idtac "THEOREM C20_permutation_equivariant". Abort. Print Assumptions C20_permutation_equivariant.
Goal True. idtac "THEOREM C20_percentile_least". Abort. Print Assumptions C20_percentile_least.
Goal True. idtac "THEOREM C20_percentile_fewest". Abort. Print Assumptions C20_percentile_fewest.
Goal True. idtac "THEOREM C20_percentile_monotone". Abort. Print Assumptions C20_percentile_monotone.
Goal True. idtac "THEOREM C20_scaling". Abort. Print Assumptions C20_scaling.
Goal True. idtac "THEOREM C20_order_check_sound". Abort. Print Assumptions C20_order_check_sound.
Goal True. idtac "THEOREM C20_binary_search". Abort. Print Assumptions C20_binary_search.
Goal True. idtac "THEOREM C20_reversed_argsort_order". Abort. Print Assumptions C20_reversed_argsort_order.
Goal True. idtac "THEOREM C20_empty_like_contents_irrelevant". Abort. Print Assumptions C20_empty_like_contents_irrelevant.
