(* C13, second file — the configured surface flux: utils.ideal_source as it is (Model/IdealSource.v), over Coq's reals.
   Only statements, `exact`, non-vacuity examples and Print Assumptions.  Exact arithmetic; what IEEE doubles do to
   these formulas is measured by the correspondence (exact 0/1 patterns on decidable inputs, interval-certified Gaussian). *)
From Coq Require Import QArith Reals String List Bool Arith.
From BL Require Import Model.IdealSource Model.IdealSourceExec Proofs.IdealSourceProofs Proofs.IdealSourceExecProofs.
Import ListNotations.
Open Scope R_scope.

(* the returned array has ny rows of nx cells, cell (j, i) being ideal_source_cell *)
Theorem C13i_shape : forall shape nx ny xmx ymx loc,
  length (ideal_source shape nx ny xmx ymx loc) = ny /\
  (forall row, In row (ideal_source shape nx ny xmx ymx loc) -> length row = nx) /\
  (forall j i, (j < ny)%nat -> (i < nx)%nat ->
     nth i (nth j (ideal_source shape nx ny xmx ymx loc) []) 0 = ideal_source_cell shape nx ny xmx ymx loc j i).
Proof. exact (fun shape nx ny xmx ymx loc => conj (source_rows shape nx ny xmx ymx loc)
               (conj (source_cols shape nx ny xmx ymx loc) (source_nth shape nx ny xmx ymx loc))). Qed.

(* which statement decides the value; an unknown shape string silently gives zeros *)
Theorem C13i_shape_dispatch : forall shape nx xmx xs ys X Y,
  (shape = "diamond"%string /\ ideal_value shape nx xmx xs ys X Y = ideal_diamond xmx xs ys X Y) \/
  (shape = "circle"%string /\ ideal_value shape nx xmx xs ys X Y = ideal_circle xmx xs ys X Y) \/
  (shape = "point"%string /\ ideal_value shape nx xmx xs ys X Y = ideal_point nx xmx xs ys X Y) \/
  (shape <> "diamond"%string /\ shape <> "circle"%string /\ shape <> "point"%string /\
   ideal_value shape nx xmx xs ys X Y = 0).
Proof. exact value_cases. Qed.

Theorem C13i_unknown_shape_zero : forall shape nx ny xmx ymx loc j i,
  shape <> "diamond"%string -> shape <> "circle"%string -> shape <> "point"%string ->
  ideal_source_cell shape nx ny xmx ymx loc j i = 0.
Proof. exact (fun shape nx ny xmx ymx loc j i Hd Hc Hp => value_unknown shape nx xmx _ _ _ _ Hd Hc Hp). Qed.

(* default location = the domain centre (xmx/2, ymx/2); a given location is used as given *)
Theorem C13i_default_location : forall xmx ymx p,
  ideal_loc xmx ymx None = (xmx / 2, ymx / 2) /\ ideal_loc xmx ymx (Some p) = p.
Proof. exact (fun xmx ymx p => conj (default_loc xmx ymx) (given_loc xmx ymx p)). Qed.

(* diamond: values in {0, 1}; 1 exactly on the open taxicab ball of radius xmx/12 about the location *)
Theorem C13i_diamond : forall nx ny xmx ymx xs ys j i,
  let X := ideal_x nx xmx i in let Y := ideal_y ny ymx j in
  let v := ideal_cell "diamond" nx ny xmx ymx xs ys j i in
  (v = 0 \/ v = 1) /\
  (v = 1 <-> Rabs (X - xs) + Rabs (Y - ys) < xmx / 12) /\
  (v = 0 <-> xmx / 12 <= Rabs (X - xs) + Rabs (Y - ys)).
Proof.
  exact (fun nx ny xmx ymx xs ys j i =>
    conj (diamond_01 xmx xs ys _ _) (diamond_support xmx xs ys (ideal_x nx xmx i) (ideal_y ny ymx j))).
Qed.

(* circle: values in {0, 1}; 1 exactly on the open Euclidean ball of radius xmx/12 (xmx also rules the extent in y) *)
Theorem C13i_circle : forall nx ny xmx ymx xs ys j i,
  let X := ideal_x nx xmx i in let Y := ideal_y ny ymx j in
  let v := ideal_cell "circle" nx ny xmx ymx xs ys j i in
  (v = 0 \/ v = 1) /\
  (v = 1 <-> sqrt ((X - xs) * (X - xs) + (Y - ys) * (Y - ys)) < xmx / 12) /\
  (v = 0 <-> xmx / 12 <= sqrt ((X - xs) * (X - xs) + (Y - ys) * (Y - ys))) /\
  (0 < xmx -> (v = 1 <-> (X - xs) * (X - xs) + (Y - ys) * (Y - ys) < (xmx / 12) * (xmx / 12))).
Proof.
  exact (fun nx ny xmx ymx xs ys j i =>
    conj (circle_01 xmx xs ys _ _)
      (conj (proj1 (circle_support xmx xs ys (ideal_x nx xmx i) (ideal_y ny ymx j)))
        (conj (proj2 (circle_support xmx xs ys (ideal_x nx xmx i) (ideal_y ny ymx j)))
              (circle_support_sq xmx xs ys (ideal_x nx xmx i) (ideal_y ny ymx j))))).
Qed.

(* a domain of non-positive x-extent has empty indicator shapes *)
Theorem C13i_indicator_empty : forall xmx xs ys X Y, xmx <= 0 ->
  ideal_diamond xmx xs ys X Y = 0 /\ ideal_circle xmx xs ys X Y = 0.
Proof. exact indicator_empty. Qed.

(* diamond inside circle inside the diamond of radius sqrt 2 * xmx/12, cell by cell; the first inclusion is strict *)
Theorem C13i_diamond_in_circle : forall xmx xs ys X Y,
  (ideal_diamond xmx xs ys X Y = 1 -> ideal_circle xmx xs ys X Y = 1) /\
  ideal_diamond xmx xs ys X Y <= ideal_circle xmx xs ys X Y /\
  (ideal_circle xmx xs ys X Y = 1 -> Rabs (X - xs) + Rabs (Y - ys) < sqrt 2 * (xmx / 12)).
Proof.
  exact (fun xmx xs ys X Y => conj (diamond_in_circle xmx xs ys X Y)
          (conj (diamond_le_circle xmx xs ys X Y) (circle_in_big_diamond xmx xs ys X Y))).
Qed.

Theorem C13i_circle_not_in_diamond : forall xmx, 0 < xmx ->
  ideal_circle xmx 0 0 (xmx / 20) (xmx / 20) = 1 /\ ideal_diamond xmx 0 0 (xmx / 20) (xmx / 20) = 0.
Proof. exact circle_not_in_diamond_witness. Qed.

(* the node grid of np.linspace(0, xmx, nx): a single node 0 for nx = 1; i * xmx/(nx-1) otherwise, from 0 to xmx inclusive *)
Theorem C13i_nodes : forall nx xmx i,
  ideal_x 1 xmx i = 0 /\ ideal_x nx xmx 0 = 0 /\
  ((2 <= nx)%nat -> ideal_x nx xmx i = xmx * INR i / (INR nx - 1) /\ ideal_x nx xmx (nx - 1) = xmx) /\
  ((2 <= nx)%nat -> 0 < xmx -> forall i', (i < i')%nat -> ideal_x nx xmx i < ideal_x nx xmx i').
Proof.
  exact (fun nx xmx i => conj (x_single xmx i) (conj (x_first nx xmx)
          (conj (fun H => conj (x_formula nx xmx i H) (x_last nx xmx H))
                (fun H Hx i' Hi => x_increasing nx xmx i i' H Hx Hi)))).
Qed.

(* the node grid is NOT the solver's cell grid i*dx (dx = xmx/nx): it is that grid stretched by nx/(nx-1); the two
   agree only at i = 0; the last node is the domain edge, the solver's last cell is one dx short of it *)
Theorem C13i_nodes_vs_solver_grid : forall nx xmx i, (2 <= nx)%nat ->
  ideal_x nx xmx i = solver_x nx xmx i * (INR nx / (INR nx - 1)) /\
  ideal_x nx xmx i - solver_x nx xmx i = solver_x nx xmx i / (INR nx - 1) /\
  (xmx <> 0 -> (ideal_x nx xmx i = solver_x nx xmx i <-> i = 0%nat)) /\
  ideal_x nx xmx (nx - 1) = xmx /\ solver_x nx xmx (nx - 1) = xmx - xmx / INR nx.
Proof.
  exact (fun nx xmx i H => conj (proj1 (x_vs_solver nx xmx i H)) (conj (proj2 (x_vs_solver nx xmx i H))
          (conj (x_eq_solver_iff nx xmx i H) (last_node_vs_last_cell nx xmx H)))).
Qed.

(* every shape depends on the cell only through |X - xs| and |Y - ys|: nodes that are mirror images of each other
   about the location carry the same value *)
Theorem C13i_mirror : forall shape nx ny xmx ymx xs ys j i j' i',
  (i' = i \/ ideal_x nx xmx i' + ideal_x nx xmx i = 2 * xs) ->
  (j' = j \/ ideal_y ny ymx j' + ideal_y ny ymx j = 2 * ys) ->
  ideal_cell shape nx ny xmx ymx xs ys j' i' = ideal_cell shape nx ny xmx ymx xs ys j i.
Proof. exact cell_mirror. Qed.

(* with the default location the field is symmetric under i -> nx-1-i and j -> ny-1-j (at least two nodes each way) *)
Theorem C13i_default_symmetric : forall shape nx ny xmx ymx j i, (2 <= nx)%nat -> (2 <= ny)%nat ->
  (i < nx)%nat -> (j < ny)%nat ->
  ideal_source_cell shape nx ny xmx ymx None j (nx - 1 - i) = ideal_source_cell shape nx ny xmx ymx None j i /\
  ideal_source_cell shape nx ny xmx ymx None (ny - 1 - j) i = ideal_source_cell shape nx ny xmx ymx None j i /\
  ideal_source_cell shape nx ny xmx ymx None (ny - 1 - j) (nx - 1 - i) = ideal_source_cell shape nx ny xmx ymx None j i.
Proof. exact default_symmetric. Qed.

(* square set-up: transposing the array = swapping the coordinates of the location *)
Theorem C13i_transpose : forall shape n xmx xs ys j i,
  ideal_cell shape n n xmx xmx xs ys j i = ideal_cell shape n n xmx xmx ys xs i j.
Proof. exact cell_transpose. Qed.

(* point: the 1-d normalised Gaussian of the distance with sigma = 4*dx = 4*xmx/nx (dx also rules the extent in y) *)
Theorem C13i_point_closed_form : forall nx ny xmx ymx xs ys j i, (0 < nx)%nat -> xmx <> 0 ->
  let X := ideal_x nx xmx i in let Y := ideal_y ny ymx j in
  let sigma := 4 * (xmx / INR nx) in
  ideal_cell "point" nx ny xmx ymx xs ys j i =
  exp (- ((X - xs) * (X - xs) + (Y - ys) * (Y - ys)) / (2 * (sigma * sigma))) / (sigma * sqrt (2 * PI)).
Proof.
  exact (fun nx ny xmx ymx xs ys j i Hn Hx =>
    point_closed_form nx xmx xs ys (ideal_x nx xmx i) (ideal_y ny ymx j)
      (Rmult_integral_contrapositive_currified 4 (xmx / INR nx) (IZR_neq 4 0 ltac:(discriminate))
         (Rmult_integral_contrapositive_currified xmx (/ INR nx) Hx
            (Rinv_neq_0_compat (INR nx) (not_0_INR nx (fun E => Nat.lt_irrefl 0 (eq_ind nx (fun k => (0 < k)%nat) Hn 0%nat E))))))).
Qed.

(* positive everywhere, strictly decreasing in the distance to the location, bounded by the peak value, which is
   attained exactly where a node coincides with the location *)
Theorem C13i_point_positive_decreasing : forall nx xmx xs ys X Y X' Y', (0 < nx)%nat -> 0 < xmx ->
  0 < ideal_point nx xmx xs ys X Y /\
  (ideal_rsq xs ys X Y < ideal_rsq xs ys X' Y' <-> ideal_point nx xmx xs ys X' Y' < ideal_point nx xmx xs ys X Y) /\
  (ideal_rsq xs ys X Y <= ideal_rsq xs ys X' Y' <-> ideal_point nx xmx xs ys X' Y' <= ideal_point nx xmx xs ys X Y) /\
  ideal_point nx xmx xs ys X Y <= 1 / ideal_sigma nx xmx / sqrt (2 * PI) /\
  (ideal_point nx xmx xs ys X Y = 1 / ideal_sigma nx xmx / sqrt (2 * PI) <-> X = xs /\ Y = ys).
Proof.
  exact (fun nx xmx xs ys X Y X' Y' Hn Hx =>
    conj (point_pos nx xmx xs ys X Y Hn Hx)
      (conj (proj1 (point_decreasing nx xmx xs ys X Y X' Y' Hn Hx))
        (conj (proj2 (point_decreasing nx xmx xs ys X Y X' Y' Hn Hx)) (point_peak nx xmx xs ys X Y Hn Hx)))).
Qed.

(* the maximum of the field sits at the node nearest to the location (nearest column and nearest row) *)
Theorem C13i_point_max_at_nearest_node : forall nx ny xmx ymx xs ys j0 i0, (0 < nx)%nat -> 0 < xmx ->
  (forall i, (i < nx)%nat -> Rabs (ideal_x nx xmx i0 - xs) <= Rabs (ideal_x nx xmx i - xs)) ->
  (forall j, (j < ny)%nat -> Rabs (ideal_y ny ymx j0 - ys) <= Rabs (ideal_y ny ymx j - ys)) ->
  forall j i, (j < ny)%nat -> (i < nx)%nat ->
  ideal_cell "point" nx ny xmx ymx xs ys j i <= ideal_cell "point" nx ny xmx ymx xs ys j0 i0.
Proof. exact point_max_at_nearest. Qed.

(* the field as the SOLVER sees it (column i of the flux array at i*dx): the offset of node i to the location xs is the offset
   of solver cell i to xs*(nx-1)/nx, stretched by nx/(nx-1).  So a location given in metres appears displaced towards the
   origin by xs/nx (less than one dx inside the domain) and every length shrunk by (nx-1)/nx; the default location appears at
   the midpoint between the solver's first and last cell *)
Theorem C13i_seen_from_solver_grid : forall nx xmx xs i, (2 <= nx)%nat ->
  ideal_x nx xmx i - xs = (solver_x nx xmx i - xs * ((INR nx - 1) / INR nx)) * (INR nx / (INR nx - 1)) /\
  xs - xs * ((INR nx - 1) / INR nx) = xs / INR nx /\
  fst (ideal_loc xmx 0 None) * ((INR nx - 1) / INR nx) = (solver_x nx xmx 0 + solver_x nx xmx (nx - 1)) / 2.
Proof.
  exact (fun nx xmx xs i H => conj (offset_on_solver_grid nx xmx xs i H)
          (conj (given_loc_displacement nx xs (Nat.le_trans 1 2 nx (le_S 1 1 (le_n 1)) H)) (default_loc_on_solver_grid nx xmx H))).
Qed.

(* the normalisation is that of a ONE-dimensional Gaussian: peak * sigma * sqrt(2 pi) = 1 (the field is not a unit source
   of the plane: its integral is sigma sqrt(2 pi)) *)
Theorem C13i_point_peak_normalisation : forall nx xmx xs ys, (0 < nx)%nat -> 0 < xmx ->
  ideal_point nx xmx xs ys xs ys * (ideal_sigma nx xmx * sqrt (2 * PI)) = 1.
Proof. exact point_peak_normalisation. Qed.

(* common scaling of all lengths by c > 0: the indicator shapes (and the zeros) do not change; the Gaussian scales by 1/c *)
Theorem C13i_scaling : forall shape nx ny c xmx ymx loc j i, 0 < c ->
  (shape <> "point"%string ->
   ideal_source_cell shape nx ny (c * xmx) (c * ymx) (scale_loc c loc) j i = ideal_source_cell shape nx ny xmx ymx loc j i) /\
  ((0 < nx)%nat -> xmx <> 0 ->
   ideal_source_cell "point" nx ny (c * xmx) (c * ymx) (scale_loc c loc) j i = ideal_source_cell "point" nx ny xmx ymx loc j i / c).
Proof.
  exact (fun shape nx ny c xmx ymx loc j i Hc =>
    conj (source_scale_indicator shape nx ny c xmx ymx loc j i Hc)
         (source_scale_point nx ny c xmx ymx loc j i Hc)).
Qed.

(* the rational twin used by the correspondence decides the real model for every shape string but "point": an empty
   list of disagreements means the observed 0/1 entries are the real model's values *)
Theorem C13i_exec_sound : forall shape nx ny xmx ymx loc obs, shape <> "point"%string ->
  (forall j i, ideal_source_cell shape nx ny (Q2R xmx) (Q2R ymx) (loc_Q2R loc) j i =
               if q_source_cell shape nx ny xmx ymx loc j i then 1 else 0) /\
  (ideal_disagreements shape nx ny xmx ymx loc obs = [] ->
   length obs = ny /\
   forall j i, (j < ny)%nat -> (i < nx)%nat ->
     length (nth j obs []) = nx /\
     (nth i (nth j obs []) 2%Z = 1%Z -> ideal_source_cell shape nx ny (Q2R xmx) (Q2R ymx) (loc_Q2R loc) j i = 1) /\
     (nth i (nth j obs []) 2%Z = 0%Z -> ideal_source_cell shape nx ny (Q2R xmx) (Q2R ymx) (loc_Q2R loc) j i = 0)).
Proof.
  exact (fun shape nx ny xmx ymx loc obs Hp =>
    conj (fun j i => source_cell_Q shape nx ny xmx ymx loc j i Hp)
         (disagreements_nil_sound shape nx ny xmx ymx loc obs Hp)).
Qed.

(* non-vacuity: 5 x 3 nodes on a 96 x 48 domain (x in {0,24,..,96}, y in {0,24,48}; R0 = 8) *)
Example C13i_ex_inside : ideal_source_cell "diamond" 5 3 96 48 None 1 2 = 1.
Proof. exact ex_diamond_inside. Qed.
Example C13i_ex_outside : ideal_source_cell "diamond" 5 3 96 48 None 1 3 = 0.
Proof. exact ex_diamond_outside. Qed.
(* the comparison is strict: a node at distance exactly R0 from the location is outside both indicator shapes *)
Example C13i_ex_boundary_excluded :
  ideal_source_cell "diamond" 5 3 96 48 (Some (40, 24)) 1 2 = 0 /\ ideal_source_cell "circle" 5 3 96 48 (Some (40, 24)) 1 2 = 0.
Proof. exact ex_boundary_excluded. Qed.
Example C13i_ex_nearest_hypotheses :
  (forall i, (i < 5)%nat -> Rabs (ideal_x 5 96 2 - 96 / 2) <= Rabs (ideal_x 5 96 i - 96 / 2)) /\ (forall j, (j < 3)%nat -> Rabs (ideal_y 3 48 1 - 48 / 2) <= Rabs (ideal_y 3 48 j - 48 / 2)).
Proof. exact ex_point_nearest. Qed.
Example C13i_ex_unknown : ideal_source_cell "square" 5 3 96 48 None 1 2 = 0.
Proof. exact ex_unknown. Qed.

Goal True. idtac "THEOREM C13i_shape". Abort. Print Assumptions C13i_shape.
Goal True. idtac "THEOREM C13i_shape_dispatch". Abort. Print Assumptions C13i_shape_dispatch.
Goal True. idtac "THEOREM C13i_unknown_shape_zero". Abort. Print Assumptions C13i_unknown_shape_zero.
Goal True. idtac "THEOREM C13i_default_location". Abort. Print Assumptions C13i_default_location.
Goal True. idtac "THEOREM C13i_diamond". Abort. Print Assumptions C13i_diamond.
Goal True. idtac "THEOREM C13i_circle". Abort. Print Assumptions C13i_circle.
Goal True. idtac "THEOREM C13i_indicator_empty". Abort. Print Assumptions C13i_indicator_empty.
Goal True. idtac "THEOREM C13i_diamond_in_circle". Abort. Print Assumptions C13i_diamond_in_circle.
Goal True. idtac "THEOREM C13i_circle_not_in_diamond". Abort. Print Assumptions C13i_circle_not_in_diamond.
Goal True. idtac "THEOREM C13i_nodes". Abort. Print Assumptions C13i_nodes.
Goal True. idtac "THEOREM C13i_nodes_vs_solver_grid". Abort. Print Assumptions C13i_nodes_vs_solver_grid.
Goal True. idtac "THEOREM C13i_mirror". Abort. Print Assumptions C13i_mirror.
Goal True. idtac "THEOREM C13i_default_symmetric". Abort. Print Assumptions C13i_default_symmetric.
Goal True. idtac "THEOREM C13i_transpose". Abort. Print Assumptions C13i_transpose.
Goal True. idtac "THEOREM C13i_point_closed_form". Abort. Print Assumptions C13i_point_closed_form.
Goal True. idtac "THEOREM C13i_point_positive_decreasing". Abort. Print Assumptions C13i_point_positive_decreasing.
Goal True. idtac "THEOREM C13i_point_max_at_nearest_node". Abort. Print Assumptions C13i_point_max_at_nearest_node.
Goal True. idtac "THEOREM C13i_scaling". Abort. Print Assumptions C13i_scaling.
Goal True. idtac "THEOREM C13i_exec_sound". Abort. Print Assumptions C13i_exec_sound.
Goal True. idtac "THEOREM C13i_seen_from_solver_grid". Abort. Print Assumptions C13i_seen_from_solver_grid.
Goal True. idtac "THEOREM C13i_point_peak_normalisation". Abort. Print Assumptions C13i_point_peak_normalisation.
