(* C14 — timeseries, multi-tower and parallel drivers equal the individual single runs.
   Statements about Model/Drivers.v for an arbitrary pure single run `single`, an arbitrary type of tower
   names with decidable equality, any number of towers and time steps, any number of workers and EVERY
   completion order.  This file contains only statements, `exact`, Examples and Print Assumptions. *)
From Coq Require Import List Arith Bool Permutation.
From BL Require Import Model.Met Model.Drivers Proofs.DriversProofs Model.PoolCache Proofs.PoolCacheProofs Model.KernelCache Proofs.KernelCacheProofs.
Import ListNotations.

(* the series of a tower has one entry per met step (Met.n_timesteps of the configuration), entry i is the
   single run of that tower at time index i, in time order *)
Theorem C14_timeseries : forall (Tw R A T : Type) (single : Tw -> nat -> R) (m : met A T) (tw : Tw),
  length (timeseries single (n_timesteps m) tw) = n_timesteps m /\
  (forall i, i < n_timesteps m -> nth_error (timeseries single (n_timesteps m) tw) i = Some (single tw i)) /\
  timeseries single (n_timesteps m) tw = map (single tw) (seq 0 (n_timesteps m)).
Proof. exact (@timeseries_met). Qed.

(* with pairwise different tower names the multi-tower result is, in configuration order, the list of
   (tower name, series of that tower) *)
Theorem C14_multitower : forall (Tw N R : Type) (name : Tw -> N) (N_eq_dec : forall a b : N, {a = b} + {a <> b})
    (single : Tw -> nat -> R) (n : nat) (towers : list Tw),
  NoDup (map name towers) ->
  multitower name N_eq_dec single n towers = map (fun tw => (name tw, timeseries single n tw)) towers.
Proof. exact (@multitower_unique). Qed.

(* without that hypothesis (Python dict semantics): keys = distinct names in order of first occurrence, and
   the entry under a name is the series of the LAST tower carrying it *)
Theorem C14_multitower_duplicates : forall (Tw N R : Type) (name : Tw -> N) (N_eq_dec : forall a b : N, {a = b} + {a <> b})
    (single : Tw -> nat -> R) (n : nat) (towers : list Tw),
  map fst (multitower name N_eq_dec single n towers) = first_occ N_eq_dec [] (map name towers) /\
  forall k, dict_get N_eq_dec (multitower name N_eq_dec single n towers) k =
    option_map (timeseries single n)
      (find (fun tw => if N_eq_dec k (name tw) then true else false) (rev towers)).
Proof. exact (@multitower_duplicates). Qed.

(* Executor.map as modelled: whatever the completion order, the results come back in submission order *)
Theorem C14_pool_map_any_order : forall (X Y : Type) (f : X -> Y) (tasks : list X) (workers : nat) (sched : list event),
  valid_sched workers (length tasks) sched -> pool_map f tasks sched = Some (map f tasks).
Proof. exact (@pool_map_any_order). Qed.

(* all three strategies, every worker count >= 1, EVERY schedule: the parallel result IS the serial
   multi-tower result (same keys, same key order, same series).  No hypothesis on the tower names is needed
   for this equality; with unique names C14_multitower says what both sides are. *)
Theorem C14_parallel_eq_serial : forall (Tw N R : Type) (name : Tw -> N) (N_eq_dec : forall a b : N, {a = b} + {a <> b})
    (single : Tw -> nat -> R) (workers n : nat) (towers : list Tw),
  1 <= workers ->
  (forall sched, valid_sched workers (length towers) sched ->
     par_towers name N_eq_dec single n towers sched = Some (multitower name N_eq_dec single n towers)) /\
  (forall scheds, (forall k, k < length towers -> valid_sched workers n (scheds k)) ->
     par_time name N_eq_dec single n towers scheds = Some (multitower name N_eq_dec single n towers)) /\
  (forall sched, valid_sched workers (length towers * n) sched ->
     par_both name N_eq_dec single n towers sched = Some (multitower name N_eq_dec single n towers)).
Proof. exact (@parallel_eq_serial). Qed.

(* the chunking lemma behind "both": chunk j of the flat list is series j, for any number of chunks and any
   chunk length n, n = 0 included *)
Theorem C14_both_reassembly : forall (R : Type) (n : nat) (ll : list (list R)) (j : nat) (l : list R),
  Forall (fun x => length x = n) ll -> nth_error ll j = Some l ->
  firstn n (skipn (j * n) (concat ll)) = l.
Proof. exact (@both_reassembly). Qed.

(* result caching switched on, pool workers sharing the cache directory (strategy "towers"): every schedule of any
   number of workers' get / put steps on one cache file is safe - no read fails and every worker returns the
   single-run value v0 - provided the put is ATOMIC (temporary file + os.replace; the repaired cache.put), or the
   get is TOLERANT (an unreadable file is a miss).  That all workers write the same v0 is the purity of the single
   run. *)
Theorem C14_shared_cache_safe : forall (V : Type) (v0 : V) (tr : list (@op V)) (f : @file V),
  ((f = Absent \/ f = Complete v0) /\
   Forall (fun o => o = Get \/ o = GetTolerant \/ o = PutAtomic v0) tr)
  \/
  ((f = Absent \/ (exists k, f = Partial k) \/ f = Complete v0) /\
   Forall (fun o => o = GetTolerant \/ o = WriteBegin \/ o = WriteEnd v0 \/ o = PutAtomic v0) tr) ->
  Forall (fun o => worker_result v0 o = Some v0) (run f tr) /\ ~ In Crash (run f tr).
Proof. exact (@shared_cache_safe). Qed.

(* the in-place put together with the strict get (the unrepaired cache.py: np.savez straight onto the final path,
   np.load unguarded) is NOT safe: a schedule in which a second worker reads between the begin and the end of the
   first worker's write makes that worker raise.  This schedule is the finding "parallel:towers-cache-race" on the
   real code. *)
Example C14_inplace_put_races :
  run (@Absent nat) [Get; WriteBegin; Get; WriteEnd 7; Get] = [Miss; Crash; Hit 7] /\
  worker_result 7 (@Crash nat) = None.
Proof. vm_compute. split; reflexivity. Qed.

(* both repaired variants on that same interleaving *)
Example C14_repaired_schedules :
  run (@Absent nat) [Get; Get; PutAtomic 7; Get; PutAtomic 7] = [Miss; Miss; Hit 7] /\
  run (@Absent nat) [GetTolerant; WriteBegin; GetTolerant; WriteBegin; WriteEnd 7; GetTolerant; WriteEnd 7; GetTolerant]
    = [Miss; Miss; Miss; Hit 7].
Proof. vm_compute. split; reflexivity. Qed.

(* any thread setting of the parent (and of any program run before it that filled numba's on-disk cache): with the
   repaired naming (own_name: the serial and the threaded flavour of a kernel are cached under different names) a
   forked pool worker, which resets NUM_THREADS to 1, always obtains the SERIAL kernel and is never terminated,
   after any earlier runs and any solves of the parent with any thread settings *)
Theorem C14_worker_runs_serial_kernel : forall (earlier parent_solves : list nat),
  exists c parent w,
    solves own_name (earlier_runs own_name [] earlier) fresh_proc parent_solves = (c, Some parent) /\
    snd (worker_solve own_name c parent) = Some w.
Proof. exact worker_survives_repaired. Qed.

(* the unrepaired naming (shared_name: one cache entry for both flavours) is NOT safe; the two shortest failing
   histories, both reproduced on the real code ("parallel:workers-terminated:threaded-parent" /
   ":threaded-numba-cache"):
   (1) empty cache, the parent solves once with NUM_THREADS = 4, forks: the worker loads the threaded code;
   (2) an earlier program ran with NUM_THREADS = 4; now a parent with NUM_THREADS = 1 solves (it silently gets
       threaded code and starts OpenMP), forks: the worker is terminated. *)
Example C14_shared_kernel_name_terminates_workers :
  (exists c parent, solves shared_name [] fresh_proc [4] = (c, Some parent) /\
                    snd (worker_solve shared_name c parent) = None) /\
  (exists c parent, solves shared_name (earlier_runs shared_name [] [4]) fresh_proc [1] = (c, Some parent) /\
                    omp parent = true /\ snd (worker_solve shared_name c parent) = None).
Proof. split; eexists; eexists; vm_compute; repeat split; reflexivity. Qed.

(* the same two histories with the repaired naming *)
Example C14_own_kernel_names_ok :
  (exists c parent w, solves own_name [] fresh_proc [4] = (c, Some parent) /\
                      snd (worker_solve own_name c parent) = Some w /\ omp parent = true /\ omp w = false) /\
  (exists c parent w, solves own_name (earlier_runs own_name [] [4]) fresh_proc [1] = (c, Some parent) /\
                      omp parent = false /\ snd (worker_solve own_name c parent) = Some w).
Proof. split; eexists; eexists; eexists; vm_compute; repeat split; reflexivity. Qed.

(* ---- non-vacuity ---- *)

(* 3 towers x 2 steps, 2 workers, a completion order that is NOT the submission order *)
Example C14_nonvacuous_both :
  let single := fun (tw i : nat) => (tw, i) in
  let sched := [(1, 5); (0, 0); (1, 3); (0, 4); (1, 1); (0, 2)] in
  valid_sched 2 (length [10; 20; 30] * 2) sched /\
  map snd sched <> seq 0 6 /\
  par_both (fun tw => tw) Nat.eq_dec single 2 [10; 20; 30] sched =
    Some [(10, [(10, 0); (10, 1)]); (20, [(20, 0); (20, 1)]); (30, [(30, 0); (30, 1)])].
Proof.
  cbv zeta. split; [split|split].
  - repeat constructor.
  - simpl. apply NoDup_Permutation; [repeat constructor; simpl; intuition discriminate|apply (seq_NoDup 6 0)|].
    intros x. simpl. intuition.
  - discriminate.
  - vm_compute. reflexivity.
Qed.

(* the other two strategies on a reversed completion order, and unique names *)
Example C14_nonvacuous_towers_time :
  let single := fun (tw i : nat) => (tw, i) in
  valid_sched 3 3 [(2, 2); (1, 1); (0, 0)] /\ NoDup (map (fun tw : nat => tw) [10; 20; 30]) /\
  par_towers (fun tw => tw) Nat.eq_dec single 2 [10; 20; 30] [(2, 2); (1, 1); (0, 0)] =
    Some (multitower (fun tw => tw) Nat.eq_dec single 2 [10; 20; 30]) /\
  par_time (fun tw => tw) Nat.eq_dec single 2 [10; 20; 30] (fun _ => [(1, 1); (0, 0)]) =
    Some [(10, [(10, 0); (10, 1)]); (20, [(20, 0); (20, 1)]); (30, [(30, 0); (30, 1)])].
Proof.
  cbv zeta. split; [split|split; [|split]].
  - repeat constructor.
  - simpl. apply NoDup_Permutation; [repeat constructor; simpl; intuition discriminate|apply (seq_NoDup 3 0)|].
    intros x. simpl. intuition.
  - simpl. repeat constructor; simpl; intuition discriminate.
  - vm_compute. reflexivity.
  - vm_compute. reflexivity.
Qed.

(* a task that never completes is visible in the model (None), i.e. the permutation hypothesis is used *)
Example C14_incomplete_schedule :
  pool_map (fun x : nat => x) [7; 8; 9] [(0, 2); (0, 0)] = None.
Proof. vm_compute. reflexivity. Qed.

(* n_time = 0 and duplicate names are inside the statements *)
Example C14_zero_steps_and_duplicates :
  par_both (fun tw : nat => tw mod 2) Nat.eq_dec (fun tw i => (tw, i)) 0 [1; 2; 3] [] = Some [(1, []); (0, [])] /\
  multitower (fun tw : nat => tw mod 2) Nat.eq_dec (fun tw i => (tw, i)) 1 [1; 2; 3] = [(1, [(3, 0)]); (0, [(2, 0)])].
Proof. vm_compute. split; reflexivity. Qed.

Goal True. idtac "THEOREM C14_timeseries". Abort. Print Assumptions C14_timeseries.
Goal True. idtac "THEOREM C14_multitower". Abort. Print Assumptions C14_multitower.
Goal True. idtac "THEOREM C14_multitower_duplicates". Abort. Print Assumptions C14_multitower_duplicates.
Goal True. idtac "THEOREM C14_pool_map_any_order". Abort. Print Assumptions C14_pool_map_any_order.
Goal True. idtac "THEOREM C14_parallel_eq_serial". Abort. Print Assumptions C14_parallel_eq_serial.
Goal True. idtac "THEOREM C14_both_reassembly". Abort. Print Assumptions C14_both_reassembly.
Goal True. idtac "THEOREM C14_shared_cache_safe". Abort. Print Assumptions C14_shared_cache_safe.
Goal True. idtac "THEOREM C14_worker_runs_serial_kernel". Abort. Print Assumptions C14_worker_runs_serial_kernel.
