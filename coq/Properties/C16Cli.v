(* C16 (with C14's driver model) - the command-line driver `bldfm run config.yaml [--dry-run] [--plot]` (cli.cmd_run):
   one single run per tower and per met step, tower-major and time-minor, each under the configured runtime settings;
   a dry run performs none; one figure per result.  Statements about Model/Cli.v for EVERY world: any load_config, any
   towers list (duplicates and the empty list included), any number of steps (0 included), any single run.
   This file contains only statements, `exact`, Examples and Print Assumptions. *)
From Coq Require Import String Ascii List Arith Bool.
From BL Require Import Model.Cli Model.CliExec Model.Drivers Model.Met Proofs.MetProofs Proofs.CliProofs.
Import ListNotations.

(* the single runs are exactly [(tw, i) | tw <- towers, i <- 0..n-1] in that order; there are |towers|*n of them; the
   i-th run of tower number k stands at position k*n+i, and every position is of that form *)
Theorem C16_cli_runs : forall (Path Cfg Tw N V R D : Type) (W : world Path Cfg Tw N V R D) (args : cli_args Path) (c : Cfg),
  w_load W (a_config args) = Some c -> a_dry_run args = false ->
  cli_runs W args = flat_map (fun tw => map (pair tw) (seq 0 (w_nsteps W c))) (w_towers W c) /\
  length (cli_runs W args) = length (w_towers W c) * w_nsteps W c /\
  (forall k i tw, nth_error (w_towers W c) k = Some tw -> i < w_nsteps W c ->
     nth_error (cli_runs W args) (k * w_nsteps W c + i) = Some (tw, i)) /\
  (forall j p, nth_error (cli_runs W args) j = Some p ->
     exists k, j = k * w_nsteps W c + snd p /\ nth_error (w_towers W c) k = Some (fst p) /\ snd p < w_nsteps W c).
Proof. exact (@cli_runs_spec). Qed.

(* the results: one per run, same order; entry k*n+i is run_bldfm_single(config, towers[k], met_index=i) made under the
   configured settings *)
Theorem C16_cli_results : forall (Path Cfg Tw N V R D : Type) (W : world Path Cfg Tw N V R D) (args : cli_args Path) (c : Cfg),
  w_load W (a_config args) = Some c -> a_dry_run args = false ->
  o_results (cmd_run W args) = map (fun p => w_single W (configured_rt W c) c (fst p) (snd p)) (cli_runs W args) /\
  length (o_results (cmd_run W args)) = length (w_towers W c) * w_nsteps W c /\
  (forall k i tw, nth_error (w_towers W c) k = Some tw -> i < w_nsteps W c ->
     nth_error (o_results (cmd_run W args)) (k * w_nsteps W c + i) = Some (w_single W (configured_rt W c) c tw i)).
Proof. exact (@cli_results_spec). Qed.

(* the same observed in the tracing world, whose single run returns (settings in force, (tower, step)): the literal calls *)
Theorem C16_cli_calls_traced : forall (Path Cfg Tw N V R D : Type) (W : world Path Cfg Tw N V R D) (d0 : D) (args : cli_args Path),
  o_results (cmd_run (trace W d0) args) =
  map (fun p => (match w_load W (a_config args) with Some c => configured_rt W c | None => rt0 end, p)) (cli_runs W args).
Proof. exact (@trace_results). Qed.

(* --dry-run (or a configuration that load_config rejects): no run at all, nothing stored into bldfm.config, no figure *)
Theorem C16_cli_dry_run : forall (Path Cfg Tw N V R D : Type) (W : world Path Cfg Tw N V R D) (args : cli_args Path),
  a_dry_run args = true \/ w_load W (a_config args) = None ->
  cli_runs W args = [] /\ o_rt (cmd_run W args) = rt0 /\ o_results (cmd_run W args) = [] /\ o_plots (cmd_run W args) = [].
Proof. exact (@dry_or_failed_all). Qed.

(* otherwise the three runtime settings are the configured ones: NUM_THREADS <- parallel.num_threads, MAX_WORKERS <-
   parallel.max_workers, USE_CACHE <- parallel.use_cache (and every run is made under them: C16_cli_results) *)
Theorem C16_cli_settings : forall (Path Cfg Tw N V R D : Type) (W : world Path Cfg Tw N V R D) (args : cli_args Path) (c : Cfg),
  w_load W (a_config args) = Some c -> a_dry_run args = false ->
  o_rt (cmd_run W args) = mkRt (Some (w_par_num_threads W c)) (Some (w_par_max_workers W c)) (Some (w_par_use_cache W c)).
Proof. exact (@settings_configured). Qed.

(* --plot: one figure per result, in order; figure j is saved under the name built from result j's tower_name and
   timestamp, shows result j's "flx" on its "grid" and the marker at its "tower_xy"; without --plot no figure *)
Theorem C16_cli_plots : forall (Path Cfg Tw N V R D : Type) (W : world Path Cfg Tw N V R D) (args : cli_args Path) (c : Cfg),
  w_load W (a_config args) = Some c -> a_dry_run args = false ->
  o_plots (cmd_run W args) = (if a_plot args then map (plot_of W) (o_results (cmd_run W args)) else []) /\
  (a_plot args = true ->
     length (o_plots (cmd_run W args)) = length (o_results (cmd_run W args)) /\
     forall j r, nth_error (o_results (cmd_run W args)) j = Some r ->
       exists p, nth_error (o_plots (cmd_run W args)) j = Some p /\
         p_file p = plot_name_of W (w_item W r "tower_name") (w_item W r "timestamp") /\
         p_field p = w_item W r "flx" /\ p_grid p = w_item W r "grid" /\
         p_marker p = w_unpack2 W (w_item W r "tower_xy")).
Proof. exact (@plots_spec). Qed.

(* the naming scheme "plots/footprint_<name>_t<timestamp>.png" determines the rendered name and the rendered timestamp,
   provided the rendered timestamps contain no underscore (step indices, ISO dates) *)
Theorem C16_cli_plot_names_injective : forall (Path Cfg Tw N V R D : Type) (W : world Path Cfg Tw N V R D) (n1 t1 n2 t2 : D),
  no_underscore (w_str W t1) -> no_underscore (w_str W t2) ->
  plot_name_of W n1 t1 = plot_name_of W n2 t2 -> w_str W n1 = w_str W n2 /\ w_str W t1 = w_str W t2.
Proof. exact (@plot_name_inj). Qed.

(* hence results with pairwise different (tower name, timestamp) renderings are saved under pairwise different names *)
Theorem C16_cli_plot_names_nodup : forall (Path Cfg Tw N V R D : Type) (W : world Path Cfg Tw N V R D) (results : list R),
  (forall r, In r results -> no_underscore (w_str W (w_item W r "timestamp"))) ->
  NoDup (map (fun r => (w_str W (w_item W r "tower_name"), w_str W (w_item W r "timestamp"))) results) ->
  NoDup (map (@p_file D) (save_plots W results)).
Proof. exact (@plot_names_nodup). Qed.

(* with pairwise different tower names the results are the values of run_bldfm_multitower's dict, concatenated in
   configuration order (C14_multitower says what that dict is) *)
Theorem C16_cli_multitower : forall (Path Cfg Tw N V R D : Type) (W : world Path Cfg Tw N V R D) (args : cli_args Path) (c : Cfg),
  w_load W (a_config args) = Some c -> a_dry_run args = false ->
  NoDup (map (w_name W) (w_towers W c)) ->
  o_results (cmd_run W args) =
  concat (map snd (multitower (w_name W) (w_eqdec W) (w_single W (configured_rt W c) c) (w_nsteps W c) (w_towers W c))).
Proof. exact (@results_multitower). Qed.

(* the i-th run of tower number k asks for the met step that Met.get_step describes (C16_get_step): it exists and
   selects entry i / the scalar / the i-th timestamp or the index *)
Theorem C16_cli_run_is_met_step : forall (Path Cfg Tw N V R D : Type) (W : world Path Cfg Tw N V R D) (A T : Type) (m : met A T)
    (args : cli_args Path) (c : Cfg) (k i : nat) (tw : Tw),
  w_load W (a_config args) = Some c -> a_dry_run args = false ->
  validate m = true -> w_nsteps W c = n_timesteps m ->
  nth_error (w_towers W c) k = Some tw -> i < n_timesteps m ->
  nth_error (cli_runs W args) (k * n_timesteps m + i) = Some (tw, i) /\
  exists s, get_step m i = Some s /\
    match m_ustar m with None => s_ustar s = None
      | Some f => exists a, s_ustar s = Some a /\ field_at f i a end /\
    field_at (m_mol m) i (s_mol s) /\
    field_at (m_wind_speed m) i (s_wind_speed s) /\
    field_at (m_wind_dir m) i (s_wind_dir s) /\
    s_z0 s = m_z0 m /\
    match m_timestamps m with None => s_stamp s = Index i
      | Some ts => exists t, nth_error ts i = Some t /\ s_stamp s = Stamp t end.
Proof. exact (@run_is_met_step). Qed.

(* and no run ever asks for a step outside the series *)
Theorem C16_cli_runs_have_steps : forall (Path Cfg Tw N V R D : Type) (W : world Path Cfg Tw N V R D) (A T : Type) (m : met A T)
    (args : cli_args Path) (c : Cfg),
  w_load W (a_config args) = Some c -> a_dry_run args = false ->
  validate m = true -> w_nsteps W c = n_timesteps m ->
  forall p, In p (cli_runs W args) -> get_step m (snd p) <> None.
Proof. exact (@runs_have_steps). Qed.

(* ---- non-vacuity and observations about the naming scheme: a concrete world.  Towers are numbers, tower k is named
   (ex_names k); the single run of tower k at step i is the pair (k, i); its items are strings (Model/CliExec.v) *)
(* two towers, two steps, --plot: four runs in tower-major order, four figures with four different names *)
Example C16_cli_nonvacuous :
  let W := ex_world [0; 1] 2 ex_names in
  let out := cmd_run W (mkArgs tt false true) in
  cli_runs W (mkArgs tt false true) = [(0, 0); (0, 1); (1, 0); (1, 1)] /\
  o_results out = [(0, 0); (0, 1); (1, 0); (1, 1)] /\
  o_rt out = mkRt (Some 4) (Some 2) (Some 1) /\
  map (@p_file string) (o_plots out) =
    ["plots/footprint_A_t0.png"; "plots/footprint_A_t1.png"; "plots/footprint_B_t0.png"; "plots/footprint_B_t1.png"]%string /\
  NoDup (map (w_name W) (w_towers W tt)) /\
  o_results (cmd_run W (mkArgs tt true true)) = [] /\ o_plots (cmd_run W (mkArgs tt true true)) = [].
Proof.
  vm_compute. split; [reflexivity|]. split; [reflexivity|]. split; [reflexivity|]. split; [reflexivity|].
  split; [|split; reflexivity].
  constructor; [intros [H|[]]; discriminate H|]. constructor; [intros []|constructor].
Qed.

(* OBSERVATION about the naming scheme (not a violation of the property): two towers that share a name (towers 0 and 2
   are both called "A") are both run - the driver performs |towers|*n runs, duplicates included - but their figures for
   the same timestamp get the SAME file name, so the later one overwrites the earlier one on disk *)
Example C16_cli_duplicate_names_share_plot_files :
  let W := ex_world [0; 2] 1 ex_names in
  let out := cmd_run W (mkArgs tt false true) in
  o_results out = [(0, 0); (2, 0)] /\
  map (@p_file string) (o_plots out) = ["plots/footprint_A_t0.png"; "plots/footprint_A_t0.png"]%string.
Proof. vm_compute. split; reflexivity. Qed.

(* with duplicate names the command-line driver and run_bldfm_multitower differ: the dict keeps one series per name
   (the last tower's, C14_multitower_duplicates), the command line runs every tower *)
Example C16_cli_duplicate_names_vs_multitower :
  let W := ex_world [0; 2] 1 ex_names in
  length (o_results (cmd_run W (mkArgs tt false false))) = 2 /\
  length (concat (map snd (multitower (w_name W) (w_eqdec W) (w_single W (configured_rt W tt) tt) 1 [0; 2]))) = 1.
Proof. vm_compute. split; reflexivity. Qed.

(* OBSERVATION: the hypothesis "no underscore in the rendered timestamp" cannot be dropped - the separator "_t" may
   occur inside a name or a timestamp: ("A_t1", "2") and ("A", "1_t2") are different pairs with the same file name *)
Example C16_cli_plot_name_separator_collision :
  let W := ex_world [] 0 ex_names in
  (plot_name_of W "A_t1" "2" = plot_name_of W "A" "1_t2" /\ ("A_t1", "2") <> ("A", "1_t2"))%string.
Proof. split; [vm_compute; reflexivity|discriminate]. Qed.

Goal True. idtac "THEOREM C16_cli_runs". Abort. Print Assumptions C16_cli_runs.
Goal True. idtac "THEOREM C16_cli_results". Abort. Print Assumptions C16_cli_results.
Goal True. idtac "THEOREM C16_cli_calls_traced". Abort. Print Assumptions C16_cli_calls_traced.
Goal True. idtac "THEOREM C16_cli_dry_run". Abort. Print Assumptions C16_cli_dry_run.
Goal True. idtac "THEOREM C16_cli_settings". Abort. Print Assumptions C16_cli_settings.
Goal True. idtac "THEOREM C16_cli_plots". Abort. Print Assumptions C16_cli_plots.
Goal True. idtac "THEOREM C16_cli_plot_names_injective". Abort. Print Assumptions C16_cli_plot_names_injective.
Goal True. idtac "THEOREM C16_cli_plot_names_nodup". Abort. Print Assumptions C16_cli_plot_names_nodup.
Goal True. idtac "THEOREM C16_cli_multitower". Abort. Print Assumptions C16_cli_multitower.
Goal True. idtac "THEOREM C16_cli_run_is_met_step". Abort. Print Assumptions C16_cli_run_is_met_step.
Goal True. idtac "THEOREM C16_cli_runs_have_steps". Abort. Print Assumptions C16_cli_runs_have_steps.
