(* C16 — Met time series: one step per list entry, scalars broadcast, mismatches rejected.
   This file contains only statements, `exact`, and Print Assumptions. *)
From Coq Require Import List Arith Bool.
From BL Require Import Model.Met Proofs.MetProofs.
Import ListNotations.

Theorem C16_steps : forall (A T : Type) (m : met A T),
  validate m = true ->
  (forall k, In (Some k) (fields m) -> n_timesteps m = k) /\
  ((forall o, In o (fields m) -> o = None) -> n_timesteps m = 1).
Proof. exact (@steps_common_length). Qed.

Theorem C16_get_step : forall (A T : Type) (m : met A T) (i : nat),
  validate m = true -> i < n_timesteps m ->
  exists s, get_step m i = Some s /\
    match m_ustar m with None => s_ustar s = None
      | Some f => exists a, s_ustar s = Some a /\ field_at f i a end /\
    field_at (m_mol m) i (s_mol s) /\
    field_at (m_wind_speed m) i (s_wind_speed s) /\
    field_at (m_wind_dir m) i (s_wind_dir s) /\
    s_z0 s = m_z0 m /\
    match m_timestamps m with None => s_stamp s = Index i
      | Some ts => exists t, nth_error ts i = Some t /\ s_stamp s = Stamp t end.
Proof. exact (@get_step_spec). Qed.

Theorem C16_reject : forall (A T : Type) (m : met A T),
  ((exists k1 k2, In (Some k1) (fields m) /\ In (Some k2) (fields m) /\ k1 <> k2) -> validate m = false) /\
  (forall ts, m_timestamps m = Some ts -> length ts <> n_timesteps m -> validate m = false) /\
  (m_ustar m = None -> m_z0 m = None -> validate m = false).
Proof. exact (@reject_spec). Qed.

Theorem C16_accept : forall (A T : Type) (m : met A T),
  (m_ustar m <> None \/ m_z0 m <> None) ->
  (forall k1 k2, In (Some k1) (fields m) -> In (Some k2) (fields m) -> k1 = k2) ->
  (forall ts, m_timestamps m = Some ts -> length ts = n_timesteps m) ->
  validate m = true.
Proof. exact (@accept_spec). Qed.

Theorem C16_series_total : forall (A T : Type) (m : met A T) l,
  series m = Some l -> length l = n_timesteps m /\ forall o, In o l -> o <> None.
Proof. exact (@series_total). Qed.

(* non-vacuity: a mixed scalar/list forcing with timestamps meets the hypotheses *)
Example C16_nonvacuous :
  let m := @mkMet nat nat (Some (Scalar 7)) (Lst [1;2;3]) (Scalar 5) (Lst [10;20;30]) None (Some [100;101;102]) in
  validate m = true /\ n_timesteps m = 3 /\ 2 < n_timesteps m.
Proof. vm_compute. repeat split; auto. Qed.

Goal True. idtac "THEOREM C16_steps". Abort. Print Assumptions C16_steps.
Goal True. idtac "THEOREM C16_get_step". Abort. Print Assumptions C16_get_step.
Goal True. idtac "THEOREM C16_reject". Abort. Print Assumptions C16_reject.
Goal True. idtac "THEOREM C16_accept". Abort. Print Assumptions C16_accept.
Goal True. idtac "THEOREM C16_series_total". Abort. Print Assumptions C16_series_total.
