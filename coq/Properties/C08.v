(* C08 — meteorological wind-direction convention: the wind decomposition.
   This file contains only statements, `exact`, and Print Assumptions.

   Proved here (all over Coq's reals, for EVERY speed and direction): speed preservation, the four
   cardinals, the upwind unit vector, 360-degree periodicity, and that wind_dir is the one and only compass
   bearing in [0,360) of the upwind direction -(u,v) in an x-east / y-north frame (orientation of the frame:
   C17_orientation).
   NOT proved (no algebraic form exists): "the bearing from the tower to the centre of mass of the footprint
   equals wind_dir within a few degrees on a resolved domain" is a statement about the discrete solution of
   the PDE on a finite periodic grid; it is carried by the end-to-end oracle of harness/props/c08.py. *)
From Coq Require Import Reals.
From BL Require Import Model.Wind Proofs.WindProofs.
Open Scope R_scope.

Theorem C08_speed : forall U wd : R,
  let p := compute_wind_fields U wd in
  fst p * fst p + snd p * snd p = U * U.
Proof. exact speed_preserved. Qed.

Theorem C08_speed_norm : forall U wd : R, 0 <= U ->
  let p := compute_wind_fields U wd in
  sqrt (fst p * fst p + snd p * snd p) = U.
Proof. exact speed_norm. Qed.

(* from north -> blows toward south (0,-U); from east -> toward west (-U,0);
   from south -> toward north (0,U); from west -> toward east (U,0) *)
Theorem C08_cardinals : forall U : R,
  compute_wind_fields U 0 = (0, - U) /\
  compute_wind_fields U 90 = (- U, 0) /\
  compute_wind_fields U 180 = (0, U) /\
  compute_wind_fields U 270 = (U, 0).
Proof. exact cardinals. Qed.

Theorem C08_upwind_vector : forall U wd : R, U <> 0 ->
  let p := compute_wind_fields U wd in
  (- fst p / U, - snd p / U) = (sin (deg2rad wd), cos (deg2rad wd)).
Proof. exact upwind_vector. Qed.

Theorem C08_periodic : forall U wd : R,
  compute_wind_fields U (wd + 360) = compute_wind_fields U wd.
Proof. exact periodic. Qed.

(* bearing of the upwind direction: -(u,v) = U (sin wd, cos wd) (existence), and any compass bearing th in
   [0,360) whose ray r (sin th, cos th), r > 0, carries -(u,v) is wd itself (uniqueness). *)
Theorem C08_upwind_bearing : forall U wd : R,
  (let p := compute_wind_fields U wd in
   (- fst p, - snd p) = (U * sin (deg2rad wd), U * cos (deg2rad wd))) /\
  (forall th r : R, 0 < U -> 0 <= wd < 360 -> 0 <= th < 360 -> 0 < r ->
   let p := compute_wind_fields U wd in
   (- fst p, - snd p) = (r * sin (deg2rad th), r * cos (deg2rad th)) -> th = wd).
Proof. exact (fun U wd => conj (bearing_exists U wd) (fun th r => bearing_unique U wd th r)). Qed.

(* non-vacuity: a non-cardinal direction and a positive speed satisfy the hypotheses *)
Example C08_nonvacuous : 0 < 3 /\ 0 <= 225 < 360 /\ (3 : R) <> 0.
Proof.
  split; [apply IZR_lt; reflexivity | split; [split; [apply IZR_le; discriminate | apply IZR_lt; reflexivity] | apply not_0_IZR; discriminate]].
Qed.

Goal True. idtac "THEOREM C08_speed". Abort. Print Assumptions C08_speed.
Goal True. idtac "THEOREM C08_speed_norm". Abort. Print Assumptions C08_speed_norm.
Goal True. idtac "THEOREM C08_cardinals". Abort. Print Assumptions C08_cardinals.
Goal True. idtac "THEOREM C08_upwind_vector". Abort. Print Assumptions C08_upwind_vector.
Goal True. idtac "THEOREM C08_periodic". Abort. Print Assumptions C08_periodic.
Goal True. idtac "THEOREM C08_upwind_bearing". Abort. Print Assumptions C08_upwind_bearing.
