(* C04 — Concentration and flux are linear in (surface flux, background); the background is a
   uniform offset of the concentration only; footprint mode depends on the source's shape only.
   Statements about Model/Solver.v for every Ops satisfying Laws; this file contains only
   statements, `exact`, and Print Assumptions. *)
From Coq Require Import ZArith List Bool.
From BL Require Import Base.Ops Base.Laws Model.Solver Proofs.SpecProofs Proofs.C04Proofs.
Import ListNotations.

(* any linear combination of (source, background) gives the same combination of both fields, at
   every level, numerical and analytic branch alike (dispersion mode, double precision storage;
   s1, s2 real; the combined source q is any array of the same shape that is cell-wise the
   combination of q1 and q2) *)
Theorem C04_linear : forall (O : Ops), Laws O ->
  forall (a : args O) (q1 q2 q : list (list (C O))) (p1 p2 p s1 s2 : C O) r r1 r2,
  wf O (with_src O a q1 p1) -> wf O (with_src O a q2 p2) -> wf O (with_src O a q p) ->
  same_shape O q q1 -> same_shape O q q2 ->
  a_footprint O a = false -> a_single O a = false ->
  cre O s1 = s1 -> cre O s2 = s2 ->
  (forall j i, (j < length q)%nat -> (i < length (hd [] q))%nat ->
     cellq O q j i = cadd O (cmul O s1 (cellq O q1 j i)) (cmul O s2 (cellq O q2 j i))) ->
  p = cadd O (cmul O s1 p1) (cmul O s2 p2) ->
  solve O (with_src O a q p) = inl r ->
  solve O (with_src O a q1 p1) = inl r1 -> solve O (with_src O a q2 p2) = inl r2 ->
  forall k j i, (k < length (a_levels O a))%nat -> (j < length q)%nat -> (i < length (hd [] q))%nat ->
    get3 O (r_conc O r) k j i = cadd O (cmul O s1 (get3 O (r_conc O r1) k j i)) (cmul O s2 (get3 O (r_conc O r2) k j i)) /\
    get3 O (r_flx O r) k j i = cadd O (cmul O s1 (get3 O (r_flx O r1) k j i)) (cmul O s2 (get3 O (r_flx O r2) k j i)).
Proof. exact solve_linear. Qed.

(* the background adds cre p to every concentration cell and leaves the flux unchanged, in
   footprint and dispersion mode, numerical and analytic *)
Theorem C04_background : forall (O : Ops), Laws O ->
  forall (a : args O) (q : list (list (C O))) (p : C O) g,
  wf O (with_src O a q p) -> a_single O a = false ->
  geometry O (with_src O a q p) = inl g -> (0 < g_nlx O g)%nat -> (0 < g_nly O g)%nat ->
  forall k j i, (k < length (a_levels O a))%nat -> (j < g_ny O g)%nat -> (i < g_nx O g)%nat ->
    get3 O (field O (with_src O a q p) g fst (table O (with_src O a q p) g)) k j i
    = cadd O (get3 O (field O (with_src O a q (c0 O)) g fst (table O (with_src O a q (c0 O)) g)) k j i) (cre O p) /\
    get3 O (field O (with_src O a q p) g snd (table O (with_src O a q p) g)) k j i
    = get3 O (field O (with_src O a q (c0 O)) g snd (table O (with_src O a q (c0 O)) g)) k j i.
Proof. exact background_offset. Qed.

(* in footprint mode the whole result (fields, coordinates, shape, error outcome) is a function of
   the source's shape only — this is what licenses a cache key without source values (C15) *)
Theorem C04_footprint_shape_only : forall (O : Ops), Laws O ->
  forall (a : args O) (q q' : list (list (C O))) (p : C O),
  a_footprint O a = true -> same_shape O q q' ->
  solve O (with_src O a q p) = solve O (with_src O a q' p).
Proof. exact footprint_shape_only. Qed.

Goal True. idtac "THEOREM C04_linear". Abort. Print Assumptions C04_linear.
Goal True. idtac "THEOREM C04_background". Abort. Print Assumptions C04_background.
Goal True. idtac "THEOREM C04_footprint_shape_only". Abort. Print Assumptions C04_footprint_shape_only.
