(* C09 — closure profiles are self-consistent with similarity theory and the grid.
   This file contains only statements, `exact`, examples and Print Assumptions.
   Model: Model/Pbl.v (over R).  `make_env c n zm um vm ustar z0 mol prsc tke domain_height stretch`
   is the state of vertical_profiles after the closure has been resolved (None = the call raises);
   `e_znode E i`, `u_node c E i`, ... are the i-th entries of the returned arrays, `e_nnodes E` their
   length.  `None None` for (domain_height, stretch) are the defaults 2*zm, 2*zm - what the
   interface uses. *)
From Coq Require Import Reals ZArith List Lra.
From Coquelicot Require Import Coquelicot.
From Interval Require Import Tactic.
From BL Require Import Model.Pbl Proofs.PblProofs Proofs.PblReversed.
Open Scope R_scope.

(* The profiles reproduce the supplied wind vector at the measurement height, which is node n.
   (1) ustar given (MOST, MOSTM, CONSTANT): needs ustar <> 0, a non-zero wind and the derived z0 below zm
       (z0 > 0 is automatic);
   (2) z0 given: needs 0 < z0 < zm and a non-zero denominator ln(zm/z0) + psi(zm/L) (the code divides by it;
       it is positive exactly when the derived ustar is positive);
   (3) OAAHOC (z0 always derived from ustar and tke; 0 < z0 < zm is then a consequence).
   Any stretch h > 0, any domain height. *)
Theorem C09_wind_at_zm :
  (forall c n zm um vm us mol prsc tke dh st E,
     c <> OAAHOC ->
     make_env c n zm um vm (Some us) None mol prsc tke dh st = Some E ->
     (1 <= n)%nat -> 0 < zm -> us <> 0 -> absum um vm <> 0 -> e_z0 E < zm -> 0 < e_h E ->
     e_znode E n = zm /\ u_node c E n = um /\ v_node c E n = vm) /\
  (forall c n zm um vm z0 mol prsc tke dh st E,
     c <> OAAHOC ->
     make_env c n zm um vm None (Some z0) mol prsc tke dh st = Some E ->
     (1 <= n)%nat -> 0 < z0 < zm -> absum um vm <> 0 -> ln (zm / z0) + psi (zm / mol) <> 0 -> 0 < e_h E ->
     e_z0 E = z0 /\ e_znode E n = zm /\ u_node c E n = um /\ v_node c E n = vm) /\
  (forall n zm um vm us z0 mol prsc tke dh st E,
     make_env OAAHOC n zm um vm (Some us) z0 mol prsc tke dh st = Some E ->
     (1 <= n)%nat -> 0 < zm -> us <> 0 -> 0 < tke -> absum um vm <> 0 -> 0 < e_h E ->
     0 < e_z0 E < zm /\ e_znode E n = zm /\ u_node OAAHOC E n = um /\ v_node OAAHOC E n = vm).
Proof. exact (conj wind_ustar_given (conj wind_z0_given wind_oaahoc)). Qed.

(* The wind vector is collinear with the measured wind at every node (no hypothesis at all). *)
Theorem C09_direction : forall c E i, u_node c E i * e_vm E = v_node c E i * e_um E.
Proof. exact direction_node. Qed.

(* ... and it is a NON-NEGATIVE multiple of it for CONSTANT, OAAHOC and, with positive Obukhov
   length, MOST/MOSTM.  (For negative Obukhov length see C09_unstable_node0_reversed below.) *)
Theorem C09_direction_orientation : forall c E i,
  0 < e_z0 E < e_zm E -> 0 < e_h E -> (1 <= e_n E)%nat -> env_in_range E ->
  (Z.of_nat i < e_nnodes E)%Z ->
  0 < e_ustar E -> 0 < e_tke E -> 0 < e_absum E ->
  (c = MOST \/ c = MOSTM -> 0 < e_mol E) ->
  exists s, 0 <= s /\ u_node c E i = s * e_um E /\ v_node c E i = s * e_vm E.
Proof. exact orientation_node. Qed.

(* REFUTED half of "the wind direction is constant with height": for EVERY unstable stratification
   (L < 0), MOST and MOSTM return at the lowest node z_0 = z0 a wind that is a NEGATIVE multiple of the
   measured wind: its speed ustar/kap * psi(z0/L) is negative because psi < 0 on the unstable side
   (psi_neg, by the mean value theorem from psi' = (phi_m - 1)/x > 0 and psi(0) = 0).  The code omits
   the usual + Psi_m(z0/L) term of the diabatic wind profile.  This is known finding
   `direction:reversed-below-zm-unstable` (known_findings.json); the witness below is replayed on
   the implementation in every run. *)
Theorem C09_direction_refuted_unstable : forall c E,
  c = MOST \/ c = MOSTM ->
  0 < e_ustar E -> 0 < e_z0 E -> e_mol E < 0 -> 0 < e_absum E -> e_znode E 0 = e_z0 E ->
  exists s, s < 0 /\ u_node c E 0 = s * e_um E /\ v_node c E 0 = s * e_vm E.
Proof. exact lowest_node_reversed. Qed.

(* The MOST/MOSTM speed along the measured direction increases strictly with height for every stability
   (its derivative is ustar/kap * phi_m(z/L)/z > 0).  With C09_wind_at_zm (speed = measured speed at
   node n) and C09_grid (nodes increase): the nodes whose wind is reversed form an initial segment of the
   grid strictly below the measurement height - the shape by which the known finding is recognised. *)
Theorem C09_speed_increasing : forall us z0 L z1 z2,
  0 < us -> 0 < z0 -> L <> 0 -> 0 < z1 < z2 -> absu_most us z0 L z1 < absu_most us z0 L z2.
Proof. exact absu_most_increasing. Qed.

Theorem C09_psi_negative_when_unstable : forall x, x < 0 -> psi x < 0.
Proof. exact psi_neg. Qed.

(* phi > 0 everywhere; at every node z > 0 and Kz > 0; Kx = Ky = Kz (MOST, CONSTANT, OAAHOC);
   MOSTM: Kx, Ky >= 0 and Kx + Ky = Kz wherever the wind does not vanish; the similarity formula. *)
Theorem C09_K_positive :
  (forall x, 0 < phi x) /\
  (forall c E i,
    0 < e_z0 E < e_zm E -> 0 < e_h E -> (1 <= e_n E)%nat -> env_in_range E ->
    (Z.of_nat i < e_nnodes E)%Z ->
    0 < e_ustar E -> 0 < e_prsc E -> 0 < e_tke E ->
    0 < e_znode E i /\
    0 < Kz_node c E i /\
    (c <> MOSTM -> Kx_node c E i = Kz_node c E i /\ Ky_node c E i = Kz_node c E i) /\
    (c = MOSTM -> 0 <= Kx_node c E i /\ 0 <= Ky_node c E i /\
       (u_node c E i * u_node c E i + v_node c E i * v_node c E i <> 0 ->
        Kx_node c E i + Ky_node c E i = Kz_node c E i)) /\
    (c = MOST \/ c = MOSTM ->
       Kz_node c E i = kap * e_ustar E * e_znode E i / (phi (e_znode E i / e_mol E) * e_prsc E)) /\
    (c = CONSTANT -> Kz_node c E i = kap * e_ustar E * e_zm E / e_prsc E) /\
    (c = OAAHOC -> Kz_node c E i = c_h * c_l * e_znode E i * sqrt (e_tke E))) /\
  (* env_in_range holds for the default stretch and domain height, every n >= 1 *)
  (forall c n zm um vm ustar z0 mol prsc tke E,
    make_env c n zm um vm ustar z0 mol prsc tke None None = Some E ->
    (1 <= n)%nat -> 0 < e_z0 E < zm -> env_in_range E).
Proof. exact (conj phi_pos (conj K_positive default_env_in_range)). Qed.

(* Default stretch and domain height, every n >= 1, every 0 < z0 < zm: index n exists, z_0 = z0, z_n = zm
   exactly, z strictly increasing, the last node is at or above the domain height 2 zm, the argument of the
   logarithm is positive at every node (no NaN), and the arrays have nnodes entries. *)
Theorem C09_grid : forall c n zm um vm ustar z0 mol prsc tke E,
  make_env c n zm um vm ustar z0 mol prsc tke None None = Some E ->
  (1 <= n)%nat -> 0 < e_z0 E < zm ->
  (Z.of_nat n < e_nnodes E)%Z /\
  e_znode E 0 = e_z0 E /\
  e_znode E n = zm /\
  (forall i j, (i < j)%nat -> (Z.of_nat j < e_nnodes E)%Z -> e_znode E i < e_znode E j) /\
  (forall i, Z.of_nat i = (e_nnodes E - 1)%Z -> 2 * zm <= e_znode E i) /\
  (forall i, (Z.of_nat i < e_nnodes E)%Z ->
     0 < - (zeta zm n i - aa zm (e_z0 E) (2 * zm)) / bb zm (e_z0 E) (2 * zm)) /\
  length (profiles c E) = Z.to_nat (e_nnodes E).
Proof. exact grid_default. Qed.

(* Any stretch h > 0 and domain height >= zm, provided one zeta-step fits between zetamx and aa. *)
Theorem C09_grid_any_stretch : forall (c : closure) (E : env),
  0 < e_z0 E < e_zm E -> 0 < e_h E -> (1 <= e_n E)%nat -> e_zm E <= e_zmx E ->
  dzeta (e_zm E) (e_n E) <= bb (e_zm E) (e_z0 E) (e_h E) * exp (- e_zmx E / e_h E) ->
  (Z.of_nat (e_n E) < e_nnodes E)%Z /\
  e_znode E 0 = e_z0 E /\
  e_znode E (e_n E) = e_zm E /\
  (forall i j, (i < j)%nat -> (Z.of_nat j < e_nnodes E)%Z -> e_znode E i < e_znode E j) /\
  (forall i, Z.of_nat i = (e_nnodes E - 1)%Z -> e_zmx E <= e_znode E i) /\
  length (profiles c E) = Z.to_nat (e_nnodes E).
Proof. exact grid_any_stretch. Qed.

(* ustar -> z0 -> ustar (and z0 -> ustar -> z0) returns the SAME resolved state, hence identical profiles.
   OAAHOC has no z0-given branch (it overwrites z0), so the round trip does not exist there. *)
Theorem C09_roundtrip :
  (forall c n zm um vm us mol prsc tke dh st E,
     c <> OAAHOC ->
     make_env c n zm um vm (Some us) None mol prsc tke dh st = Some E ->
     zm <> 0 -> us <> 0 -> absum um vm <> 0 ->
     make_env c n zm um vm None (Some (e_z0 E)) mol prsc tke dh st = Some E /\
     vertical_profiles c n zm um vm None (Some (e_z0 E)) mol prsc tke dh st =
     vertical_profiles c n zm um vm (Some us) None mol prsc tke dh st) /\
  (forall c n zm um vm z0 mol prsc tke dh st E,
     c <> OAAHOC ->
     make_env c n zm um vm None (Some z0) mol prsc tke dh st = Some E ->
     0 < z0 -> 0 < zm -> absum um vm <> 0 -> ln (zm / z0) + psi (zm / mol) <> 0 ->
     make_env c n zm um vm (Some (e_ustar E)) None mol prsc tke dh st = Some E) /\
  (forall zm a us mol, zm <> 0 -> us <> 0 -> a <> 0 ->
     ustar_of_z0 zm a (z0_of_ustar zm a us mol) mol = us).
Proof. exact roundtrip_statement. Qed.

(* psi (the quantity the code ADDS to ln(z/z0), i.e. minus the usual Psi_m) is the integral of
   (phi_m(t) - 1)/t from the neutral point, phi_m the Businger-Dyer function for momentum
   (1 - 16 t)^(-1/4) for t <= 0, 1 + 5 t for t > 0:  derivative, value 0 and continuity at 0,
   Riemann integral over every interval on one side of 0, improper integral from 0. *)
Theorem C09_psi_is_integral :
  (forall x, x <> 0 -> is_derive psi x ((phim x - 1) / x)) /\
  psi 0 = 0 /\ continuous psi 0 /\
  (forall a b, 0 < a * b -> is_RInt (fun t => (phim t - 1) / t) a b (psi b - psi a)) /\
  (forall x, x <> 0 ->
     filterlim (fun a => RInt (fun t => (phim t - 1) / t) a x)
               (if Rlt_dec 0 x then at_right 0 else at_left 0) (locally (psi x))).
Proof. exact psi_integral_statement. Qed.

(* both stability functions are continuous through neutral stratification *)
Theorem C09_continuity :
  psi_stable 0 = 0 /\ psi_unstable 0 = 0 /\ phi_stable 0 = 1 /\ phi_unstable 0 = 1 /\
  psi 0 = 0 /\ phi 0 = 1 /\ continuous psi 0 /\ continuous phi 0 /\
  filterlim psi_stable (at_right 0) (locally 0) /\ filterlim psi_unstable (at_left 0) (locally 0) /\
  filterlim phi_stable (at_right 0) (locally 1) /\ filterlim phi_unstable (at_left 0) (locally 1).
Proof. exact continuity_statement. Qed.

(* the reference model's copies (masked on the sign of L) agree with psi, phi (branching on the sign of
   z/L), same sign convention: _psiM(zm, L) = psi(zm/L), _phiC(zm, L) = phi(zm/L), and _phiM is the phi_m
   that psi integrates *)
Theorem C09_km_copies : forall zm L, 0 < zm -> L <> 0 ->
  km_psiM zm L = psi (zm / L) /\ km_phiC zm L = phi (zm / L) /\ km_phiM zm L = phim (zm / L).
Proof. exact km_copies_statement. Qed.

(* the interface's default output level nz is a valid index and denotes z_m *)
Theorem C09_interface_level : forall c nz z_m um vm ustar z0 mol prsc tke E,
  make_env c nz z_m um vm ustar z0 mol prsc tke None None = Some E ->
  (1 <= nz)%nat -> 0 < e_z0 E < z_m ->
  (Z.of_nat (interface_level nz) < e_nnodes E)%Z /\
  e_znode E (interface_level nz) = z_m /\
  exists r, nth_error (profiles c E) (interface_level nz) = Some r /\ row_z r = z_m.
Proof. exact interface_level_is_zm. Qed.

(* ---- non-vacuity and a caveat *)

(* the hypotheses are satisfiable: MOST, n = 4, zm = 10, wind (3,-3/2), ustar = 0.45, L = -20 *)
Example C09_nonvacuous :
  exists E, make_env MOST 4 10 3 (-3/2) (Some (45/100)) None (-20) 1 1 None None = Some E /\
            0 < e_z0 E < 10 /\ 0 < e_ustar E /\ absum 3 (-3/2) <> 0 /\ (1 <= 4)%nat.
Proof.
  eexists. split; [reflexivity|]. simpl.
  unfold z0_of_ustar, absum, kap, psi.
  destruct (Rlt_dec 0 (10 / -20)) as [H|H]; [exfalso; lra|].
  unfold psi_unstable, psi_of_xi, xi_of.
  split; [split; interval|]. split; [lra|]. split; [|auto].
  apply Rgt_not_eq. interval.
Qed.

(* z0-given branch: the denominator is non-zero for zm = 10, z0 = 0.1, L = -20 *)
Example C09_nonvacuous_z0 : ln (10 / (1/10)) + psi (10 / -20) <> 0.
Proof.
  unfold psi. destruct (Rlt_dec 0 (10 / -20)) as [H|H]; [exfalso; lra|].
  unfold psi_unstable, psi_of_xi, xi_of. apply Rgt_not_eq. interval.
Qed.

(* caveat to C09_direction: with negative Obukhov length the MOST wind speed at the lowest node,
   ustar/kap * psi(z0/L), is negative - the wind vector there is anti-parallel to the measured one
   (tiny: here -0.0198 * ustar/kap).  The code omits the usual + Psi_m(z0/L) term. *)
Example C09_unstable_node0_reversed : absu_most (4/10) (1/10) (-20) (1/10) < 0.
Proof.
  unfold absu_most, kap, psi. destruct (Rlt_dec 0 (1 / 10 / -20)) as [H|H]; [exfalso; lra|].
  unfold psi_unstable, psi_of_xi, xi_of. interval.
Qed.

Goal True. idtac "THEOREM C09_wind_at_zm". Abort. Print Assumptions C09_wind_at_zm.
Goal True. idtac "THEOREM C09_direction". Abort. Print Assumptions C09_direction.
Goal True. idtac "THEOREM C09_direction_orientation". Abort. Print Assumptions C09_direction_orientation.
Goal True. idtac "THEOREM C09_direction_refuted_unstable". Abort. Print Assumptions C09_direction_refuted_unstable.
Goal True. idtac "THEOREM C09_psi_negative_when_unstable". Abort. Print Assumptions C09_psi_negative_when_unstable.
Goal True. idtac "THEOREM C09_speed_increasing". Abort. Print Assumptions C09_speed_increasing.
Goal True. idtac "THEOREM C09_K_positive". Abort. Print Assumptions C09_K_positive.
Goal True. idtac "THEOREM C09_grid". Abort. Print Assumptions C09_grid.
Goal True. idtac "THEOREM C09_grid_any_stretch". Abort. Print Assumptions C09_grid_any_stretch.
Goal True. idtac "THEOREM C09_roundtrip". Abort. Print Assumptions C09_roundtrip.
Goal True. idtac "THEOREM C09_psi_is_integral". Abort. Print Assumptions C09_psi_is_integral.
Goal True. idtac "THEOREM C09_continuity". Abort. Print Assumptions C09_continuity.
Goal True. idtac "THEOREM C09_km_copies". Abort. Print Assumptions C09_km_copies.
Goal True. idtac "THEOREM C09_interface_level". Abort. Print Assumptions C09_interface_level.
