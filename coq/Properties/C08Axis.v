(* C08, centroid clause, the part that is a theorem: for a wind along a grid axis (the four cardinal wind
   directions) the footprint is mirror-symmetric about the grid line through the tower and its centre of
   mass over any window centred on the tower lies exactly on the wind axis.
   Only statements, `exact`, Print Assumptions.  Definitions used in the statements (Proofs/C08Axis.v):
     no_v O a            := forall x, In x (p_v (a_prof a)) -> x = 0          (no wind across the x axis, every node)
     no_u O a            := the same for p_u
     tower_y O a g m     := (1+1) * a_ym a = ofZ m * g_dy g                   (tower m half-cells from row 0; on row m/2 if m even)
     tower_x O a g m     := (1+1) * a_xm a = ofZ m * g_dx g
     mirror_rows O g m j j' := (j + j') mod nye = m mod nye                   (rows j, j' are mirror images about the tower
                                                                               on the PADDED periodic grid of nye rows)
     mirror_cols O g m i i' := (i + i') mod nxe = m mod nxe
     exact_y O g         := Nat.odd (g_nly g) = true \/ g_nly g = g_nye g     (odd retained count, or the full spectrum)
     exact_y_at O g m    := Nat.odd (g_nly g) = true \/ (g_nly g = g_nye g /\ Z.even m = true)
     wsum O r w          := sum of w d over d = -r .. r
     rsum O j0 n w       := sum of w j over j = j0 .. j0+n-1
     cyc n jm d          := (jm + d) mod n                                    (Proofs/C06Proofs.v)
   and table_noNyq_y / table_Nyq_y, table_noNyq / table_Nyq from Proofs/C07Mirror.v (the table without / of the
   unpaired retained frequency).  sel = fst is the concentration footprint, sel = snd the flux footprint.

   WHAT IS STILL MISSING from the centroid clause of C08 (hence `_partial`):
   - on which side of the tower the centre of mass lies (upwind, not downwind): the theorems give "bearing from the
     tower to the centroid = wind_dir or wind_dir + 180";
   - oblique wind directions (no grid symmetry exists; the clause holds only to within "a few degrees" there);
   - the tolerance "a few degrees" itself, and rounding: everything here is exact arithmetic under Laws O (in binary64
     compute_wind_fields U 90 has v = -U*6.1e-17, not 0);
   - the RETURNED array for a tower half way between two grid lines when the retained count is even: there only the form
     without the unpaired row holds (that row changes sign under the reflection).
   These stay with the end-to-end oracle of harness/props/c08.py.
   That the hypothesis no_v / no_u is what compute_wind_fields and the profiles produce for the cardinal directions
   is Properties/C08AxisWind.v (over R; a separate file because it imports the Interval/Coquelicot-based profile
   proofs, on which the independent checker coqchk takes more than 20 minutes). *)
From Coq Require Import ZArith List Bool.
From BL Require Import Base.Ops Base.Laws Model.Solver
  Proofs.SpecProofs Proofs.C06Proofs Proofs.C07Mirror Proofs.C08Axis.
Import ListNotations.

(* ---------------------------------------------------------------- wind along x (wind_dir 90 / 270): rows *)

(* every halo, every mode count, both storage precisions, numerical and analytic branch, tower on a grid row or
   half way between two rows: the footprint synthesised without the unpaired row of the retained set *)
Theorem C08_axis_symmetric_footprint : forall (O : Ops), Laws O -> forall (a : args O) (g : geom O) sel k j j' i m,
  (forall pq s, sel (cmul O (fst pq) s, cmul O (snd pq) s) = cmul O (sel pq) s) ->
  geometry O a = inl g -> a_footprint O a = true -> no_v O a -> g_dy O g <> c0 O -> tower_y O a g m ->
  (k < length (a_levels O a))%nat -> (j < g_ny O g)%nat -> (j' < g_ny O g)%nat -> (i < g_nx O g)%nat ->
  mirror_rows O g m j j' ->
  get3 O (field O a g sel (table_noNyq_y O a g)) k j i = get3 O (field O a g sel (table_noNyq_y O a g)) k j' i.
Proof. exact axis_y_cells. Qed.

(* the asymmetry of the RETURNED array is the asymmetry of the unpaired row's contribution alone *)
Theorem C08_axis_symmetric_footprint_defect : forall (O : Ops), Laws O -> forall (a : args O) (g : geom O) sel k j j' i m,
  (forall pq s, sel (cmul O (fst pq) s, cmul O (snd pq) s) = cmul O (sel pq) s) ->
  geometry O a = inl g -> a_footprint O a = true -> no_v O a -> g_dy O g <> c0 O -> tower_y O a g m ->
  (k < length (a_levels O a))%nat -> (j < g_ny O g)%nat -> (j' < g_ny O g)%nat -> (i < g_nx O g)%nat ->
  mirror_rows O g m j j' ->
  csub O (get3 O (field O a g sel (table O a g)) k j i) (get3 O (field O a g sel (table O a g)) k j' i)
  = csub O (get3 O (field O a g sel (table_Nyq_y O a g)) k j i) (get3 O (field O a g sel (table_Nyq_y O a g)) k j' i).
Proof. exact axis_y_cells_defect. Qed.

(* odd (clamped) retained count: the returned array itself *)
Theorem C08_axis_symmetric_footprint_odd : forall (O : Ops), Laws O -> forall (a : args O) (g : geom O) sel k j j' i m,
  (forall pq s, sel (cmul O (fst pq) s, cmul O (snd pq) s) = cmul O (sel pq) s) ->
  geometry O a = inl g -> a_footprint O a = true -> no_v O a -> g_dy O g <> c0 O -> tower_y O a g m ->
  Nat.odd (g_nly O g) = true ->
  (k < length (a_levels O a))%nat -> (j < g_ny O g)%nat -> (j' < g_ny O g)%nat -> (i < g_nx O g)%nat ->
  mirror_rows O g m j j' ->
  get3 O (field O a g sel (table O a g)) k j i = get3 O (field O a g sel (table O a g)) k j' i.
Proof. exact axis_y_cells_odd. Qed.

(* all modes of the padded grid retained and the tower on a grid row: the returned array itself
   (the unpaired row -nye/2 is its own mirror image) *)
Theorem C08_axis_symmetric_footprint_full : forall (O : Ops), Laws O -> forall (a : args O) (g : geom O) sel k j j' i m,
  (forall pq s, sel (cmul O (fst pq) s, cmul O (snd pq) s) = cmul O (sel pq) s) ->
  geometry O a = inl g -> a_footprint O a = true -> no_v O a -> g_dy O g <> c0 O -> tower_y O a g m ->
  g_nly O g = g_nye O g -> Z.even m = true ->
  (k < length (a_levels O a))%nat -> (j < g_ny O g)%nat -> (j' < g_ny O g)%nat -> (i < g_nx O g)%nat ->
  mirror_rows O g m j j' ->
  get3 O (field O a g sel (table O a g)) k j i = get3 O (field O a g sel (table O a g)) k j' i.
Proof. exact axis_y_cells_full. Qed.

(* first moment across the wind about the tower row jm, rows jm-r .. jm+r (cyclically on the padded grid; every row
   of the window must be a row of the returned array: on the periodic domain any r with 2r+1 <= ny), summed over an
   arbitrary set of columns: zero; in coordinates: sum_j y_j S_j = ym * sum_j S_j, i.e. y-centroid = ym *)
Theorem C08_centroid_on_wind_axis_partial : forall (O : Ops), Laws O -> forall (a : args O) (g : geom O) sel k jm r cols,
  (forall pq s, sel (cmul O (fst pq) s, cmul O (snd pq) s) = cmul O (sel pq) s) ->
  geometry O a = inl g -> a_footprint O a = true -> no_v O a -> g_dy O g <> c0 O ->
  tower_y O a g (2 * Z.of_nat jm) -> exact_y O g ->
  (k < length (a_levels O a))%nat ->
  (forall d, (- Z.of_nat r <= d <= Z.of_nat r)%Z -> (cyc (g_nye O g) jm d < g_ny O g)%nat) ->
  (forall i, In i cols -> (i < g_nx O g)%nat) ->
  let S := fun d : Z => csum O (map (fun i =>
              get3 O (field O a g sel (table O a g)) k (cyc (g_nye O g) jm d) i) cols) in
  wsum O r (fun d => cmul O (cofZ O d) (S d)) = c0 O /\
  wsum O r (fun d => cmul O (cmul O (cofZ O (Z.of_nat jm + d)) (g_dy O g)) (S d)) = cmul O (a_ym O a) (wsum O r S).
Proof. exact centroid_rows. Qed.

(* any mode count: the same for the footprint without the unpaired row *)
Theorem C08_centroid_on_wind_axis_noNyq_partial : forall (O : Ops), Laws O -> forall (a : args O) (g : geom O) sel k jm r cols,
  (forall pq s, sel (cmul O (fst pq) s, cmul O (snd pq) s) = cmul O (sel pq) s) ->
  geometry O a = inl g -> a_footprint O a = true -> no_v O a -> g_dy O g <> c0 O ->
  tower_y O a g (2 * Z.of_nat jm) ->
  (k < length (a_levels O a))%nat ->
  (forall d, (- Z.of_nat r <= d <= Z.of_nat r)%Z -> (cyc (g_nye O g) jm d < g_ny O g)%nat) ->
  (forall i, In i cols -> (i < g_nx O g)%nat) ->
  let S := fun d : Z => csum O (map (fun i =>
              get3 O (field O a g sel (table_noNyq_y O a g)) k (cyc (g_nye O g) jm d) i) cols) in
  wsum O r (fun d => cmul O (cofZ O d) (S d)) = c0 O /\
  wsum O r (fun d => cmul O (cmul O (cofZ O (Z.of_nat jm + d)) (g_dy O g)) (S d)) = cmul O (a_ym O a) (wsum O r S).
Proof. exact centroid_rows_noNyq. Qed.

(* ---------------------------------------------------------------- wind along y (wind_dir 0 / 180): columns *)

Theorem C08_axis_symmetric_footprint_x : forall (O : Ops), Laws O -> forall (a : args O) (g : geom O) sel k j i i' m,
  (forall pq s, sel (cmul O (fst pq) s, cmul O (snd pq) s) = cmul O (sel pq) s) ->
  geometry O a = inl g -> a_footprint O a = true -> no_u O a -> g_dx O g <> c0 O -> tower_x O a g m ->
  (k < length (a_levels O a))%nat -> (j < g_ny O g)%nat -> (i < g_nx O g)%nat -> (i' < g_nx O g)%nat ->
  mirror_cols O g m i i' ->
  get3 O (field O a g sel (table_noNyq O a g)) k j i = get3 O (field O a g sel (table_noNyq O a g)) k j i'.
Proof. exact axis_x_cells. Qed.

Theorem C08_axis_symmetric_footprint_x_defect : forall (O : Ops), Laws O -> forall (a : args O) (g : geom O) sel k j i i' m,
  (forall pq s, sel (cmul O (fst pq) s, cmul O (snd pq) s) = cmul O (sel pq) s) ->
  geometry O a = inl g -> a_footprint O a = true -> no_u O a -> g_dx O g <> c0 O -> tower_x O a g m ->
  (k < length (a_levels O a))%nat -> (j < g_ny O g)%nat -> (i < g_nx O g)%nat -> (i' < g_nx O g)%nat ->
  mirror_cols O g m i i' ->
  csub O (get3 O (field O a g sel (table O a g)) k j i) (get3 O (field O a g sel (table O a g)) k j i')
  = csub O (get3 O (field O a g sel (table_Nyq O a g)) k j i) (get3 O (field O a g sel (table_Nyq O a g)) k j i').
Proof. exact axis_x_cells_defect. Qed.

Theorem C08_axis_symmetric_footprint_x_odd : forall (O : Ops), Laws O -> forall (a : args O) (g : geom O) sel k j i i' m,
  (forall pq s, sel (cmul O (fst pq) s, cmul O (snd pq) s) = cmul O (sel pq) s) ->
  geometry O a = inl g -> a_footprint O a = true -> no_u O a -> g_dx O g <> c0 O -> tower_x O a g m ->
  Nat.odd (g_nlx O g) = true ->
  (k < length (a_levels O a))%nat -> (j < g_ny O g)%nat -> (i < g_nx O g)%nat -> (i' < g_nx O g)%nat ->
  mirror_cols O g m i i' ->
  get3 O (field O a g sel (table O a g)) k j i = get3 O (field O a g sel (table O a g)) k j i'.
Proof. exact axis_x_cells_odd. Qed.

Theorem C08_axis_symmetric_footprint_x_full : forall (O : Ops), Laws O -> forall (a : args O) (g : geom O) sel k j i i' m,
  (forall pq s, sel (cmul O (fst pq) s, cmul O (snd pq) s) = cmul O (sel pq) s) ->
  geometry O a = inl g -> a_footprint O a = true -> no_u O a -> g_dx O g <> c0 O -> tower_x O a g m ->
  g_nlx O g = g_nxe O g -> Z.even m = true ->
  (k < length (a_levels O a))%nat -> (j < g_ny O g)%nat -> (i < g_nx O g)%nat -> (i' < g_nx O g)%nat ->
  mirror_cols O g m i i' ->
  get3 O (field O a g sel (table O a g)) k j i = get3 O (field O a g sel (table O a g)) k j i'.
Proof. exact axis_x_cells_full. Qed.

Theorem C08_centroid_on_wind_axis_x_partial : forall (O : Ops), Laws O -> forall (a : args O) (g : geom O) sel k im r rows,
  (forall pq s, sel (cmul O (fst pq) s, cmul O (snd pq) s) = cmul O (sel pq) s) ->
  geometry O a = inl g -> a_footprint O a = true -> no_u O a -> g_dx O g <> c0 O ->
  tower_x O a g (2 * Z.of_nat im) -> exact_x O g ->
  (k < length (a_levels O a))%nat ->
  (forall d, (- Z.of_nat r <= d <= Z.of_nat r)%Z -> (cyc (g_nxe O g) im d < g_nx O g)%nat) ->
  (forall j, In j rows -> (j < g_ny O g)%nat) ->
  let S := fun d : Z => csum O (map (fun j =>
              get3 O (field O a g sel (table O a g)) k j (cyc (g_nxe O g) im d)) rows) in
  wsum O r (fun d => cmul O (cofZ O d) (S d)) = c0 O /\
  wsum O r (fun d => cmul O (cmul O (cofZ O (Z.of_nat im + d)) (g_dx O g)) (S d)) = cmul O (a_xm O a) (wsum O r S).
Proof. exact centroid_cols. Qed.

Theorem C08_centroid_on_wind_axis_x_noNyq_partial : forall (O : Ops), Laws O -> forall (a : args O) (g : geom O) sel k im r rows,
  (forall pq s, sel (cmul O (fst pq) s, cmul O (snd pq) s) = cmul O (sel pq) s) ->
  geometry O a = inl g -> a_footprint O a = true -> no_u O a -> g_dx O g <> c0 O ->
  tower_x O a g (2 * Z.of_nat im) ->
  (k < length (a_levels O a))%nat ->
  (forall d, (- Z.of_nat r <= d <= Z.of_nat r)%Z -> (cyc (g_nxe O g) im d < g_nx O g)%nat) ->
  (forall j, In j rows -> (j < g_ny O g)%nat) ->
  let S := fun d : Z => csum O (map (fun j =>
              get3 O (field O a g sel (table_noNyq O a g)) k j (cyc (g_nxe O g) im d)) rows) in
  wsum O r (fun d => cmul O (cofZ O d) (S d)) = c0 O /\
  wsum O r (fun d => cmul O (cmul O (cofZ O (Z.of_nat im + d)) (g_dx O g)) (S d)) = cmul O (a_xm O a) (wsum O r S).
Proof. exact centroid_cols_noNyq. Qed.

(* non-vacuity, under ANY Laws O: a 4-row x 3-column request without halo, wind along x, tower on grid row 1, all
   modes retained, satisfies every hypothesis of the theorems above (rows 0 and 2 are mirror images, row 3 is its own) *)
Example C08_axis_nonvacuous : forall (O : Ops), Laws O ->
  geometry O (ex_args O) = inl (ex_geom O) /\ a_footprint O (ex_args O) = true /\ no_v O (ex_args O) /\
  g_dy O (ex_geom O) <> c0 O /\ tower_y O (ex_args O) (ex_geom O) 2 /\ exact_y O (ex_geom O) /\
  mirror_rows O (ex_geom O) 2 0 2 /\ mirror_rows O (ex_geom O) 2 3 3 /\ (0 < length (a_levels O (ex_args O)))%nat /\
  (forall d, (-1 <= d <= 1)%Z -> (cyc (g_nye O (ex_geom O)) 1 d < g_ny O (ex_geom O))%nat).
Proof. exact axis_example. Qed.

(* ... and the theorems applied to it: rows 0 and 2 of the returned flux footprint coincide, and the first moment of
   rows 0..2 about the tower row 1 is zero *)
Example C08_axis_example_applied : forall (O : Ops), Laws O ->
  (forall i, (i < 3)%nat ->
     get3 O (field O (ex_args O) (ex_geom O) snd (table O (ex_args O) (ex_geom O))) 0 0 i
     = get3 O (field O (ex_args O) (ex_geom O) snd (table O (ex_args O) (ex_geom O))) 0 2 i) /\
  wsum O 1 (fun d => cmul O (cofZ O d) (csum O (map (fun i =>
     get3 O (field O (ex_args O) (ex_geom O) snd (table O (ex_args O) (ex_geom O))) 0 (cyc 4 1 d) i) [0; 1; 2]%nat))) = c0 O.
Proof. exact axis_example_applied. Qed.

Goal True. idtac "THEOREM C08_axis_symmetric_footprint". Abort. Print Assumptions C08_axis_symmetric_footprint.
Goal True. idtac "THEOREM C08_axis_symmetric_footprint_defect". Abort. Print Assumptions C08_axis_symmetric_footprint_defect.
Goal True. idtac "THEOREM C08_axis_symmetric_footprint_odd". Abort. Print Assumptions C08_axis_symmetric_footprint_odd.
Goal True. idtac "THEOREM C08_axis_symmetric_footprint_full". Abort. Print Assumptions C08_axis_symmetric_footprint_full.
Goal True. idtac "THEOREM C08_centroid_on_wind_axis_partial". Abort. Print Assumptions C08_centroid_on_wind_axis_partial.
Goal True. idtac "THEOREM C08_centroid_on_wind_axis_noNyq_partial". Abort. Print Assumptions C08_centroid_on_wind_axis_noNyq_partial.
Goal True. idtac "THEOREM C08_axis_symmetric_footprint_x". Abort. Print Assumptions C08_axis_symmetric_footprint_x.
Goal True. idtac "THEOREM C08_axis_symmetric_footprint_x_defect". Abort. Print Assumptions C08_axis_symmetric_footprint_x_defect.
Goal True. idtac "THEOREM C08_axis_symmetric_footprint_x_odd". Abort. Print Assumptions C08_axis_symmetric_footprint_x_odd.
Goal True. idtac "THEOREM C08_axis_symmetric_footprint_x_full". Abort. Print Assumptions C08_axis_symmetric_footprint_x_full.
Goal True. idtac "THEOREM C08_centroid_on_wind_axis_x_partial". Abort. Print Assumptions C08_centroid_on_wind_axis_x_partial.
Goal True. idtac "THEOREM C08_centroid_on_wind_axis_x_noNyq_partial". Abort. Print Assumptions C08_centroid_on_wind_axis_x_noNyq_partial.
Goal True. idtac "THEOREM C08_axis_nonvacuous". Abort. Print Assumptions C08_axis_nonvacuous.
Goal True. idtac "THEOREM C08_axis_example_applied". Abort. Print Assumptions C08_axis_example_applied.

(* ---------------------------------------------------------------- any tower position (on a grid line or half way) *)
(* rsum O j0 n w := sum of w j over the rows j = j0 .. j0+n-1; the window is centred on the tower: 2 j0 + n - 1 = m, where
   tower_y a g m, i.e. 2 ym = m dy; rows are taken cyclically on the padded grid (cyc nye 0 j = j mod nye) and must be rows
   of the returned array; exact_y_at O g m := Nat.odd nly = true \/ (nly = nye /\ Z.even m = true) *)
Theorem C08_centroid_on_wind_axis_any_tower_partial : forall (O : Ops), Laws O -> forall (a : args O) (g : geom O) sel k j0 n m cols,
  (forall pq s, sel (cmul O (fst pq) s, cmul O (snd pq) s) = cmul O (sel pq) s) ->
  geometry O a = inl g -> a_footprint O a = true -> no_v O a -> g_dy O g <> c0 O ->
  tower_y O a g m -> exact_y_at O g m -> (2 * j0 + Z.of_nat n - 1 = m)%Z -> n <> 0%nat ->
  (k < length (a_levels O a))%nat ->
  (forall j, (j0 <= j < j0 + Z.of_nat n)%Z -> (cyc (g_nye O g) 0 j < g_ny O g)%nat) ->
  (forall i, In i cols -> (i < g_nx O g)%nat) ->
  let S := fun j : Z => csum O (map (fun i =>
              get3 O (field O a g sel (table O a g)) k (cyc (g_nye O g) 0 j) i) cols) in
  rsum O j0 n (fun j => cmul O (cofZ O (2 * j - m)) (S j)) = c0 O /\
  rsum O j0 n (fun j => cmul O (cmul O (cofZ O j) (g_dy O g)) (S j)) = cmul O (a_ym O a) (rsum O j0 n S).
Proof. exact centroid_rows_any. Qed.

Theorem C08_centroid_on_wind_axis_any_tower_noNyq_partial : forall (O : Ops), Laws O -> forall (a : args O) (g : geom O) sel k j0 n m cols,
  (forall pq s, sel (cmul O (fst pq) s, cmul O (snd pq) s) = cmul O (sel pq) s) ->
  geometry O a = inl g -> a_footprint O a = true -> no_v O a -> g_dy O g <> c0 O ->
  tower_y O a g m -> (2 * j0 + Z.of_nat n - 1 = m)%Z -> n <> 0%nat ->
  (k < length (a_levels O a))%nat ->
  (forall j, (j0 <= j < j0 + Z.of_nat n)%Z -> (cyc (g_nye O g) 0 j < g_ny O g)%nat) ->
  (forall i, In i cols -> (i < g_nx O g)%nat) ->
  let S := fun j : Z => csum O (map (fun i =>
              get3 O (field O a g sel (table_noNyq_y O a g)) k (cyc (g_nye O g) 0 j) i) cols) in
  rsum O j0 n (fun j => cmul O (cofZ O (2 * j - m)) (S j)) = c0 O /\
  rsum O j0 n (fun j => cmul O (cmul O (cofZ O j) (g_dy O g)) (S j)) = cmul O (a_ym O a) (rsum O j0 n S).
Proof. exact centroid_rows_any_noNyq. Qed.

Theorem C08_centroid_on_wind_axis_any_tower_x_partial : forall (O : Ops), Laws O -> forall (a : args O) (g : geom O) sel k i0 n m rows,
  (forall pq s, sel (cmul O (fst pq) s, cmul O (snd pq) s) = cmul O (sel pq) s) ->
  geometry O a = inl g -> a_footprint O a = true -> no_u O a -> g_dx O g <> c0 O ->
  tower_x O a g m -> exact_x_at O g m -> (2 * i0 + Z.of_nat n - 1 = m)%Z -> n <> 0%nat ->
  (k < length (a_levels O a))%nat ->
  (forall i, (i0 <= i < i0 + Z.of_nat n)%Z -> (cyc (g_nxe O g) 0 i < g_nx O g)%nat) ->
  (forall j, In j rows -> (j < g_ny O g)%nat) ->
  let S := fun i : Z => csum O (map (fun j =>
              get3 O (field O a g sel (table O a g)) k j (cyc (g_nxe O g) 0 i)) rows) in
  rsum O i0 n (fun i => cmul O (cofZ O (2 * i - m)) (S i)) = c0 O /\
  rsum O i0 n (fun i => cmul O (cmul O (cofZ O i) (g_dx O g)) (S i)) = cmul O (a_xm O a) (rsum O i0 n S).
Proof. exact centroid_cols_any. Qed.

Theorem C08_centroid_on_wind_axis_any_tower_x_noNyq_partial : forall (O : Ops), Laws O -> forall (a : args O) (g : geom O) sel k i0 n m rows,
  (forall pq s, sel (cmul O (fst pq) s, cmul O (snd pq) s) = cmul O (sel pq) s) ->
  geometry O a = inl g -> a_footprint O a = true -> no_u O a -> g_dx O g <> c0 O ->
  tower_x O a g m -> (2 * i0 + Z.of_nat n - 1 = m)%Z -> n <> 0%nat ->
  (k < length (a_levels O a))%nat ->
  (forall i, (i0 <= i < i0 + Z.of_nat n)%Z -> (cyc (g_nxe O g) 0 i < g_nx O g)%nat) ->
  (forall j, In j rows -> (j < g_ny O g)%nat) ->
  let S := fun i : Z => csum O (map (fun j =>
              get3 O (field O a g sel (table_noNyq O a g)) k j (cyc (g_nxe O g) 0 i)) rows) in
  rsum O i0 n (fun i => cmul O (cofZ O (2 * i - m)) (S i)) = c0 O /\
  rsum O i0 n (fun i => cmul O (cmul O (cofZ O i) (g_dx O g)) (S i)) = cmul O (a_xm O a) (rsum O i0 n S).
Proof. exact centroid_cols_any_noNyq. Qed.

(* non-vacuity for a tower half way between two rows (m = 3): rows 1 and 2 are mirror images, window rows 1..2 *)
Example C08_axis_half_cell_nonvacuous : forall (O : Ops), Laws O ->
  geometry O (ex_args_half O) = inl (ex_geom O) /\ a_footprint O (ex_args_half O) = true /\ no_v O (ex_args_half O) /\
  tower_y O (ex_args_half O) (ex_geom O) 3 /\ mirror_rows O (ex_geom O) 3 1 2 /\ (2 * 1 + Z.of_nat 2 - 1 = 3)%Z /\
  (forall j, (1 <= j < 1 + Z.of_nat 2)%Z -> (cyc (g_nye O (ex_geom O)) 0 j < g_ny O (ex_geom O))%nat).
Proof. exact axis_example_half. Qed.

Goal True. idtac "THEOREM C08_centroid_on_wind_axis_any_tower_partial". Abort. Print Assumptions C08_centroid_on_wind_axis_any_tower_partial.
Goal True. idtac "THEOREM C08_centroid_on_wind_axis_any_tower_noNyq_partial". Abort. Print Assumptions C08_centroid_on_wind_axis_any_tower_noNyq_partial.
Goal True. idtac "THEOREM C08_centroid_on_wind_axis_any_tower_x_partial". Abort. Print Assumptions C08_centroid_on_wind_axis_any_tower_x_partial.
Goal True. idtac "THEOREM C08_centroid_on_wind_axis_any_tower_x_noNyq_partial". Abort. Print Assumptions C08_centroid_on_wind_axis_any_tower_x_noNyq_partial.
Goal True. idtac "THEOREM C08_axis_half_cell_nonvacuous". Abort. Print Assumptions C08_axis_half_cell_nonvacuous.
