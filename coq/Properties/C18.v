(* C18 — NetCDF export/import is lossless and keeps every label attached to its data.
   Model: Model/NetcdfAsm.v = the REPAIRED save_footprints_to_netcdf (tower metadata by NAME);
   `assemble_orig` = the original positional labelling (refuted below).
   The library (xarray/netCDF4/zlib) is the pair write/read with the hypothesis read (write d) = d;
   `None` = the Python code raises.  N names, L time labels, T timestamps, V passed-through doubles,
   F whole field blocks (one 2-D or 3-D array per (time, tower)), A coordinate values: all arbitrary.
   This file contains only statements, `exact`, Examples and Print Assumptions. *)
From Coq Require Import List Arith Bool.
From BL Require Import Model.NetcdfAsm Proofs.NetcdfProofs Model.IoDesc Proofs.IoBridgeLemmas.
Import ListNotations.

(* what is loaded is what was assembled (the only place the library hypothesis is used) *)
Theorem C18_roundtrip :
  forall (N L T V F A : Type) (eqbN : N -> N -> bool) (str : T -> L) (nanV : V) (zeroF : F)
         (file : Type) (write : @dataset N L V F A -> file) (read : file -> @dataset N L V F A),
  (forall d, read (write d) = d) ->
  forall (rs : @results N T V F A) (tws : list (@tower N V)) (f : file),
  save eqbN str nanV zeroF write rs tws = Some f ->
  assemble eqbN str nanV zeroF rs tws = Some (load read f).
Proof. exact (@C18_roundtrip_l). Qed.

(* For ANY number of towers and steps (and either dimensionality: a block is one opaque array):
   every (time, tower) block of both arrays is the field of that tower's result at that step;
   towers with fewer steps than the first leave zero blocks; coordinates are extracted from the
   first result; names in key order; time labels, and the four met series, from the first tower. *)
Theorem C18_assembly :
  forall (N L T V F A : Type) (eqbN : N -> N -> bool) (str : T -> L) (nanV : V) (zeroF : F),
  (forall a b : N, eqbN a b = true <-> a = b) ->
  forall (file : Type) (write : @dataset N L V F A -> file) (read : file -> @dataset N L V F A),
  (forall d, read (write d) = d) ->
  forall (rs : @results N T V F A) (tws : list (@tower N V)) (f : file),
  NoDup (names rs) -> save eqbN str nanV zeroF write rs tws = Some f ->
  let d := load read f in
  exists n0 l0 rest r0 l0',
    rs = (n0, l0) :: rest /\ l0 = r0 :: l0' /\
    length (d_fp d) = length l0 /\ length (d_conc d) = length l0 /\
    (forall row, In row (d_fp d) -> length row = length rs) /\
    (forall row, In row (d_conc d) -> length row = length rs) /\
    (forall ti nm l t r, nth_error rs ti = Some (nm, l) -> nth_error l t = Some r ->
       get2 (d_fp d) t ti = Some (r_flx r) /\ get2 (d_conc d) t ti = Some (r_conc r)) /\
    (forall ti nm l t, nth_error rs ti = Some (nm, l) -> length l <= t < length l0 ->
       get2 (d_fp d) t ti = Some zeroF /\ get2 (d_conc d) t ti = Some zeroF) /\
    x_of (r_3d r0) (r_X r0) = Some (d_x d) /\ y_of (r_3d r0) (r_Y r0) = Some (d_y d) /\
    (r_3d r0 = true -> exists z, z_of (r_Z r0) = Some z /\ d_z d = Some z) /\
    (r_3d r0 = false -> d_z d = None) /\
    d_tower d = names rs /\ d_time d = map (fun r => str (r_stamp r)) l0 /\
    d_ustar d = map (ustar_val nanV) l0 /\ d_mol d = map (@r_mol T V F A) l0 /\
    d_ws d = map (@r_ws T V F A) l0 /\ d_wd d = map (@r_wd T V F A) l0.
Proof. exact (@C18_assembly_l). Qed.

(* the extracted coordinates of a meshgrid-built grid are the generating vectors (3-D, 2-D, 1-D) *)
Theorem C18_coords :
  forall (A : Type) (xs ys zs : list A), xs <> [] -> ys <> [] ->
  (zs <> [] ->
   x_of true (mesh3_X xs ys zs) = Some xs /\ y_of true (mesh3_Y xs ys zs) = Some ys /\
   z_of (mesh3_Z xs ys zs) = Some zs) /\
  (x_of false (mesh2_X xs ys) = Some xs /\ y_of false (mesh2_Y xs ys) = Some ys /\
   x_of false (M1 xs) = Some xs /\ y_of false (M1 ys) = Some ys).
Proof. exact (@coords_spec). Qed.

(* every entry of the tower coordinate carries the latitude/longitude/height of a configured tower
   of THAT name — whatever the key order of the results dict; with unique configured names it is
   the tower's own triple *)
Theorem C18_labels :
  forall (N L T V F A : Type) (eqbN : N -> N -> bool) (str : T -> L) (nanV : V) (zeroF : F),
  (forall a b : N, eqbN a b = true <-> a = b) ->
  forall (file : Type) (write : @dataset N L V F A -> file) (read : file -> @dataset N L V F A),
  (forall d, read (write d) = d) ->
  forall (rs : @results N T V F A) (tws : list (@tower N V)) (f : file),
  save eqbN str nanV zeroF write rs tws = Some f ->
  let d := load read f in
  d_tower d = names rs /\
  length (d_lat d) = length rs /\ length (d_lon d) = length rs /\ length (d_zm d) = length rs /\
  (forall ti nm, nth_error (d_tower d) ti = Some nm ->
     exists tw, In tw tws /\ tw_name tw = nm /\
       nth_error (d_lat d) ti = Some (tw_lat tw) /\
       nth_error (d_lon d) ti = Some (tw_lon tw) /\
       nth_error (d_zm d) ti = Some (tw_zm tw)) /\
  (NoDup (map (@tw_name N V) tws) ->
   forall ti nm tw, nth_error (d_tower d) ti = Some nm -> In tw tws -> tw_name tw = nm ->
       nth_error (d_lat d) ti = Some (tw_lat tw) /\
       nth_error (d_lon d) ti = Some (tw_lon tw) /\
       nth_error (d_zm d) ti = Some (tw_zm tw)).
Proof. exact (@C18_labels_l). Qed.

(* ... and saving does succeed for every key order that only uses configured names (sub-lists and
   permutations of the configured towers included), when no tower has more steps than the first *)
Theorem C18_save_succeeds :
  forall (N L T V F A : Type) (eqbN : N -> N -> bool) (str : T -> L) (nanV : V) (zeroF : F),
  (forall a b : N, eqbN a b = true <-> a = b) ->
  forall (file : Type) (write : @dataset N L V F A -> file)
         (rs : @results N T V F A) (tws : list (@tower N V)) n0 r0 l0' rest,
  rs = (n0, r0 :: l0') :: rest ->
  (forall nm l, In (nm, l) rs -> length l <= length (r0 :: l0')) ->
  (forall nm, In nm (names rs) -> In nm (map (@tw_name N V) tws)) ->
  x_of (r_3d r0) (r_X r0) <> None -> y_of (r_3d r0) (r_Y r0) <> None ->
  (r_3d r0 = true -> z_of (r_Z r0) <> None) ->
  exists f, save eqbN str nanV zeroF write rs tws = Some f.
Proof. exact (@C18_save_succeeds_l). Qed.

(* the ORIGINAL code (labels by position in config.towers) attaches a wrong latitude on a reversed
   dict and raises on a subset on which the repaired code succeeds *)
Theorem C18_labels_orig_refuted :
  (exists d,
     NoDup (names wrev) /\ NoDup (map (@tw_name nat nat) wtowers) /\
     names wrev = rev (map (@tw_name nat nat) wtowers) /\
     assemble_orig Nat.eqb (fun t : nat => t) 0 0 wrev wtowers = Some d /\
     exists ti nm tw, nth_error (d_tower d) ti = Some nm /\ In tw wtowers /\ tw_name tw = nm /\
        nth_error (d_lat d) ti <> Some (tw_lat tw)) /\
  (NoDup (names wsub) /\ incl (names wsub) (map (@tw_name nat nat) wtowers) /\
   assemble_orig Nat.eqb (fun t : nat => t) 0 0 wsub wtowers = None /\
   assemble Nat.eqb (fun t : nat => t) 0 0 wsub wtowers <> None).
Proof. exact labels_orig_refuted. Qed.

(* selection on the loaded dataset: by tower name (rectangular results), by time label, by both *)
Theorem C18_select :
  forall (N L T V F A : Type) (eqbN : N -> N -> bool) (eqbL : L -> L -> bool) (str : T -> L) (nanV : V) (zeroF : F),
  (forall a b : N, eqbN a b = true <-> a = b) ->
  (forall a b : L, eqbL a b = true <-> a = b) ->
  forall (file : Type) (write : @dataset N L V F A -> file) (read : file -> @dataset N L V F A),
  (forall d, read (write d) = d) ->
  forall (rs : @results N T V F A) (tws : list (@tower N V)) (f : file) n0 l0 rest,
  rs = (n0, l0) :: rest -> NoDup (names rs) ->
  save eqbN str nanV zeroF write rs tws = Some f ->
  (forall ti nm l, nth_error rs ti = Some (nm, l) ->
     (forall nm' l', In (nm', l') rs -> length l' = length l) ->
     exists s tw, sel_tower eqbN (load read f) nm = Some s /\
       ts_fp s = map (@r_flx T V F A) l /\ ts_conc s = map (@r_conc T V F A) l /\
       In tw tws /\ tw_name tw = nm /\
       ts_lat s = tw_lat tw /\ ts_lon s = tw_lon tw /\ ts_zm s = tw_zm tw) /\
  (NoDup (map (fun r => str (@r_stamp T V F A r)) l0) ->
   forall t rt, nth_error l0 t = Some rt ->
     exists s, sel_time eqbL (load read f) (str (r_stamp rt)) = Some s /\
       tm_ustar s = ustar_val nanV rt /\ tm_mol s = r_mol rt /\ tm_ws s = r_ws rt /\ tm_wd s = r_wd rt /\
       length (tm_fp s) = length rs /\ length (tm_conc s) = length rs /\
       forall ti nm l r, nth_error rs ti = Some (nm, l) -> nth_error l t = Some r ->
         nth_error (tm_fp s) ti = Some (r_flx r) /\ nth_error (tm_conc s) ti = Some (r_conc r)) /\
  (NoDup (map (fun r => str (@r_stamp T V F A r)) l0) ->
   forall ti nm l t rt r, nth_error rs ti = Some (nm, l) -> nth_error l0 t = Some rt -> nth_error l t = Some r ->
     sel_block eqbN eqbL (load read f) nm (str (r_stamp rt)) = Some (r_flx r, r_conc r)).
Proof. exact (@C18_select_l). Qed.

(* ---- tie (B), the part that does not depend on the source: what a DESCRIPTION of save_footprints_to_netcdf means
   (Model/IoDesc.v; harness/py2coq_io.py extracts the description from the current io.py on every run and
   Bridge/IoBridge.v instantiates these statements with it) ---- *)

(* np.zeros((n1, len(cols))) filled by `for ti, steps in enumerate(cols): for t, r in enumerate(steps): a[t, ti] = val r`
   (fold_left in source order, IndexError = None) is the closed form the assembly model uses -- any number of
   columns, any (ragged) lengths *)
Theorem C18_fill_loop :
  forall (R X : Type) (val : R -> X) (zero : X) (cs : list (list R)) (n1 : nat),
  option_map to_list2 (loop_fill cs (fun t ti => (t, ti)) (fun _ _ => true) val (fzeros zero n1 (length cs))) =
  if forallb (fun s => length s <=? n1) cs
  then Some (map (fun t => map (fun s => match nth_error s t with Some r => val r | None => zero end) cs) (seq 0 n1))
  else None.
Proof. exact (@fill_blocks_plain). Qed.

(* ... and with the assignment `a[t] = val r` guarded by `if ti == 0:` the vector is the first column's values *)
Theorem C18_fill_first :
  forall (R X : Type) (val : R -> X) (zero : X) (s0 : list R) (rest : list (list R)),
  option_map to_list1 (loop_fill (s0 :: rest) (fun t ti => (t, 0)) (fun t ti => ti =? 0) val (fzeros zero (length s0) 1)) =
  Some (map val s0).
Proof. exact (@fill_first_plain). Qed.

(* numpy basic indexing with 0 and `:` on nested lists is the model's coordinate extraction, for every mesh *)
Theorem C18_indexing :
  forall (A : Type) (m : @mesh A),
  index_mesh m [I0; I0; IAll] = x_of true m /\ index_mesh m [I0; IAll; I0] = y_of true m /\
  index_mesh m [IAll; I0; I0] = z_of m /\
  (forall l, m = M2 l -> index_mesh m [I0; IAll] = x_of false m /\ index_mesh m [IAll; I0] = y_of false m).
Proof. exact (@index_mesh_coords). Qed.

(* every description whose tower names are the results keys, whose 2-D/3-D test is flx.ndim == 3 and whose two
   branches have the canonical members (looked up by name; any order; any field as the source of the block shape)
   denotes exactly `assemble` and asks the writer for nothing lossy -- for all results / tower lists and for every
   interpretation E of sort / cast / range labels / raw labels (none of them is used) *)
Theorem C18_description_meaning :
  forall (N L T V F A : Type) (eqbN : N -> N -> bool) (str : T -> L) (nanV : V) (zeroF : F) (E : @extras N L T V F),
  (forall a : N, eqbN a a = true) ->
  forall (sd : save_d) (k1 k2 k3 k4 : fkey),
  sv_names sd = NKeys -> sv_is3d sd = (KFlx, 3) ->
  normalize (sv_3d sd) = Some (canon_norm true MByName k1 k2) ->
  normalize (sv_2d sd) = Some (canon_norm false MByName k3 k4) ->
  forall (rs : @results N T V F A) (tws : list (@tower N V)),
  run_save eqbN str nanV zeroF E sd rs tws =
  option_map (fun d => (d, @nil (String.string * String.string))) (assemble eqbN str nanV zeroF rs tws).
Proof. exact (@run_save_canonical). Qed.

(* the same description with the tower metadata attached BY POSITION (the original code; xr.Dataset raises on
   conflicting sizes of the tower dimension) denotes the model of the original code, refuted in C18_labels_orig_refuted:
   the description language tells the two apart for all inputs, not only on samples *)
Theorem C18_description_original :
  forall (N L T V F A : Type) (eqbN : N -> N -> bool) (str : T -> L) (nanV : V) (zeroF : F) (E : @extras N L T V F),
  (forall a : N, eqbN a a = true) ->
  forall (sd : save_d) (k1 k2 k3 k4 : fkey),
  sv_names sd = NKeys -> sv_is3d sd = (KFlx, 3) ->
  normalize (sv_3d sd) = Some (canon_norm true MByPosition k1 k2) ->
  normalize (sv_2d sd) = Some (canon_norm false MByPosition k3 k4) ->
  forall (rs : @results N T V F A) (tws : list (@tower N V)),
  run_save eqbN str nanV zeroF E sd rs tws =
  option_map (fun d => (d, @nil (String.string * String.string))) (assemble_orig eqbN str nanV zeroF rs tws).
Proof. exact (@run_save_positional). Qed.

(* non-vacuity: 2 towers x 2 steps, 3-D, results keys in REVERSED configuration order, z0 forcing
   (ustar absent), identity library: every hypothesis above holds and the statements compute *)
Definition ex_res (k : nat) (ts : nat) : @result nat nat nat nat :=
  mkRes (mesh3_X [1;2;3] [4;5] [6;7]) (mesh3_Y [1;2;3] [4;5] [6;7]) (mesh3_Z [1;2;3] [4;5] [6;7]) true
        (100 + k) (200 + k) ts None 31 32 33.
Definition ex_rs : @results nat nat nat nat nat :=
  [(2, [ex_res 1 70; ex_res 2 71]); (1, [ex_res 3 70; ex_res 4 71])].
Definition ex_tws : list (@tower nat nat) := [mkTower 1 51 81 2; mkTower 2 52 82 3].

Example C18_nonvacuous :
  NoDup (names ex_rs) /\ NoDup (map (@tw_name nat nat) ex_tws) /\
  NoDup (map (fun r : @result nat nat nat nat => r_stamp r) [ex_res 1 70; ex_res 2 71]) /\
  (forall nm l, In (nm, l) ex_rs -> length l = 2) /\
  exists d, save Nat.eqb (fun t : nat => t) 999 0 (fun d => d) ex_rs ex_tws = Some d /\
    d_x d = [1;2;3] /\ d_y d = [4;5] /\ d_z d = Some [6;7] /\
    d_tower d = [2;1] /\ d_lat d = [52;51] /\ d_zm d = [3;2] /\ d_time d = [70;71] /\
    d_ustar d = [999;999] /\
    d_fp d = [[101;103];[102;104]] /\ d_conc d = [[201;203];[202;204]] /\
    sel_block Nat.eqb Nat.eqb d 1 71 = Some (104, 204) /\
    option_map (@ts_fp nat nat) (sel_tower Nat.eqb d 1) = Some [103;104] /\
    option_map (@ts_lat nat nat) (sel_tower Nat.eqb d 1) = Some 51 /\
    option_map (@tm_conc nat nat) (sel_time Nat.eqb d 70) = Some [201;203].
Proof.
  split; [repeat constructor; simpl; intuition discriminate|].
  split; [repeat constructor; simpl; intuition discriminate|].
  split; [repeat constructor; simpl; intuition discriminate|].
  split.
  { intros nm l [H|[H|[]]]; inversion H; reflexivity. }
  eexists. split; [vm_compute; reflexivity|]. vm_compute. repeat split; reflexivity.
Qed.

Example C18_eqb_nonvacuous : forall a b : nat, Nat.eqb a b = true <-> a = b.
Proof. exact Nat.eqb_eq. Qed.

(* the description language is not vacuous and not blind: the description of the code (IoDesc.ex_save MByName, the
   translator's output for the tree the model was written for) satisfies the hypotheses of C18_description_meaning and
   its interpreter RUNS (array writes, loops, indexing) to the dataset of C18_nonvacuous; the description of the
   ORIGINAL positional labelling (MByPosition) denotes something else on the reversed results *)
Definition ex_E : @extras nat nat nat nat nat :=
  @mkX nat nat nat nat nat (fun l => l) (fun n => n) (fun t => t) (fun _ x => x) (fun _ x => x) 0.

Example C18_description_nonvacuous :
  sv_names (ex_save MByName) = NKeys /\ sv_is3d (ex_save MByName) = (KFlx, 3) /\
  normalize (sv_3d (ex_save MByName)) = Some (canon_norm true MByName KFlx KFlx) /\
  normalize (sv_2d (ex_save MByName)) = Some (canon_norm false MByName KFlx KFlx) /\
  normalize (sv_3d (ex_save MByPosition)) = Some (canon_norm true MByPosition KFlx KFlx) /\
  normalize (sv_2d (ex_save MByPosition)) = Some (canon_norm false MByPosition KFlx KFlx) /\
  run_save Nat.eqb (fun t : nat => t) 999 0 ex_E (ex_save MByName) ex_rs ex_tws =
    option_map (fun d => (d, nil)) (assemble Nat.eqb (fun t : nat => t) 999 0 ex_rs ex_tws) /\
  run_save Nat.eqb (fun t : nat => t) 999 0 ex_E (ex_save MByName) ex_rs ex_tws <> None /\
  run_save Nat.eqb (fun t : nat => t) 999 0 ex_E (ex_save MByPosition) ex_rs ex_tws <>
    option_map (fun d => (d, nil)) (assemble Nat.eqb (fun t : nat => t) 999 0 ex_rs ex_tws).
Proof.
  split; [reflexivity|]. split; [reflexivity|]. split; [vm_compute; reflexivity|]. split; [vm_compute; reflexivity|].
  split; [vm_compute; reflexivity|]. split; [vm_compute; reflexivity|].
  split; [vm_compute; reflexivity|]. split; vm_compute; discriminate.
Qed.

Goal True. idtac "THEOREM C18_roundtrip". Abort. Print Assumptions C18_roundtrip.
Goal True. idtac "THEOREM C18_assembly". Abort. Print Assumptions C18_assembly.
Goal True. idtac "THEOREM C18_coords". Abort. Print Assumptions C18_coords.
Goal True. idtac "THEOREM C18_labels". Abort. Print Assumptions C18_labels.
Goal True. idtac "THEOREM C18_save_succeeds". Abort. Print Assumptions C18_save_succeeds.
Goal True. idtac "THEOREM C18_labels_orig_refuted". Abort. Print Assumptions C18_labels_orig_refuted.
Goal True. idtac "THEOREM C18_select". Abort. Print Assumptions C18_select.
Goal True. idtac "THEOREM C18_fill_loop". Abort. Print Assumptions C18_fill_loop.
Goal True. idtac "THEOREM C18_fill_first". Abort. Print Assumptions C18_fill_first.
Goal True. idtac "THEOREM C18_indexing". Abort. Print Assumptions C18_indexing.
Goal True. idtac "THEOREM C18_description_meaning". Abort. Print Assumptions C18_description_meaning.
Goal True. idtac "THEOREM C18_description_original". Abort. Print Assumptions C18_description_original.
