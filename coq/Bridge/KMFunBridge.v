(* Whole-function bridge for property C19 (per run): the descriptions the translator harness/py2coq_km.py read off the
   CURRENT bldfm/ffm_kormann_meixner.py (Gen.GenKMFun: gen_z0_desc, gen_fp_desc), interpreted by Model/KMDesc.v, ARE the
   model's functions of Model/KM.v:
     bridge_estimateZ0_circle  directions in [0, 360), half window in [1, 89] (and the early exit below 1): the loop is
                               estimateZ0_obs; the window mask is exactly the circular window (bridge_z0fun_window_is_circular);
     bridge_estimateZ0         ALL records, ALL half windows: the loop is estimateZ0_obs (whose window is the code's
                               unwrapping at 90 / 270 as it behaves, circular or not);
     bridge_estimateFootprint  all arguments, every cell: the returned triple is (cell centre x, cell centre y, the model's
                               per-cell function composed with shift / rotation), incl. the early exit U < 0.
   Each component agreement is a lemma of its own, so that a changed statement is localised. *)
From Coq Require Import Reals List ZArith Bool Lra Lia.
From BL Require Import Model.KM Model.KMDesc Proofs.KMProofs Proofs.KMBridgeLemmas.
From Gen Require Import GenKMHelp KMHelpBridge GenKMFun.
Import ListNotations.
Open Scope R_scope.

Ltac izr_bounds k Hk :=
  let H0 := fresh "Hk0" in let H1 := fresh "Hk1" in
  assert (H0 : 0 <= IZR k) by (apply IZR_le; lia);
  assert (H1 : IZR k <= 359) by (apply IZR_le; lia).

(* ---------------------------------------------------------------------------------------------- *)
(* estimateZ0, component by component *)
Lemma bridge_z0fun_length_check : forall p : zpar, In p (zd_checked gen_z0_desc).
Proof. intros []; cbn; tauto. Qed.

Lemma bridge_z0fun_early_exit : forall h, zd_early gen_z0_desc h = if Rlt_dec h 1 then true else false.
Proof. intro h. cbn. dec. Qed.

Lemma bridge_z0fun_early_return : forall o, zd_early_ret gen_z0_desc o = z0_of o.
Proof.
  intro o. cbn. rewrite ?bridge_psiM, ?bridge_von_karman. unfold z0_of, z0clean, z0raw. dec.
Qed.

Lemma bridge_z0fun_init : forall o, zd_init gen_z0_desc o = None.
Proof. intro o. reflexivity. Qed.

Lemma bridge_z0fun_range : zd_lo gen_z0_desc = 0%Z /\ zd_hi gen_z0_desc = 360%Z.
Proof. split; reflexivity. Qed.

(* the store mask: the records whose floor(wd) is kk *)
Lemma bridge_z0fun_bin : forall o (k : Z) h, zd_idx1 gen_z0_desc o (IZR k) h = in_bin (IZR k) (o_wd o).
Proof. intros o k h. cbn. unfold in_bin. decall. Qed.

(* the median is taken of the raw z0 after the outlier cut *)
Lemma bridge_z0fun_median_source : forall o (k : Z) h, zd_src gen_z0_desc o (IZR k) h = z0_of o.
Proof.
  intros o k h. cbn. rewrite ?bridge_psiM, ?bridge_von_karman. unfold z0_of, z0clean, z0raw. dec.
Qed.

(* the window mask the translated unwrapping computes, on the circle *)
Lemma bridge_z0fun_window_circle : forall o (k : Z) h, (0 <= k < 360)%Z -> 0 <= o_wd o < 360 -> 0 <= h <= 89 ->
  zd_idx2 gen_z0_desc o (IZR k) h = in_window (IZR k) h (o_wd o).
Proof.
  intros o k h Hk Hd Hh. izr_bounds k Hk. cbn. unfold in_window, wrapped. decall.
Qed.

(* ... is EXACTLY the circular window [kk - h, kk + 1 + h) modulo 360 *)
Lemma bridge_z0fun_window_is_circular : forall o (k : Z) h, (0 <= k < 360)%Z -> 0 <= o_wd o < 360 -> 0 <= h <= 89 ->
  (zd_idx2 gen_z0_desc o (IZR k) h = true <-> exists j : Z, IZR k - h <= o_wd o + 360 * IZR j < IZR k + 1 + h).
Proof.
  intros o k h Hk Hd Hh. rewrite (bridge_z0fun_window_circle o k h Hk Hd Hh). izr_bounds k Hk.
  apply window_circular; lra.
Qed.

Lemma bridge_z0fun_ok_circle : z0desc_ok (fun wd => 0 <= wd < 360) (fun h => 0 <= h <= 89) gen_z0_desc.
Proof.
  constructor.
  - exact bridge_z0fun_length_check.
  - exact bridge_z0fun_early_exit.
  - exact bridge_z0fun_early_return.
  - exact bridge_z0fun_init.
  - exact (proj1 bridge_z0fun_range).
  - exact (proj2 bridge_z0fun_range).
  - intros o k h _ _ _. apply bridge_z0fun_bin.
  - intros o k h Hk Hd Hh. apply bridge_z0fun_window_circle; assumption.
  - intros o k h _ _. apply bridge_z0fun_median_source.
Qed.

Theorem bridge_estimateZ0_circle : forall (nanmedian : list (option R) -> option R) (os : list obs) (h : R) (i : nat),
  Forall (fun o => 0 <= o_wd o < 360) os -> h <= 89 -> (i < length os)%nat ->
  nth i (run_z0 nanmedian gen_z0_desc os h) None
  = estimateZ0_obs nanmedian h (map o_zm os) (map o_L os) (map o_ws os) (map o_ustar os) (map o_wd os) i.
Proof.
  intros nm os h i Hall Hh Hi.
  apply (run_z0_model nm _ _ gen_z0_desc bridge_z0fun_ok_circle os h i Hall); [intro; lra | exact Hi].
Qed.

(* the window mask for ALL directions (negative, 360 and above) and ALL half windows: the code's unwrapping as it behaves
   (Model/KM.v `wrapped`: directions above 270 lowered by 360 for kk < 90, directions below 90 raised for kk > 270) *)
Lemma bridge_z0fun_window_exact : forall o (k : Z) h, zd_idx2 gen_z0_desc o (IZR k) h = in_window (IZR k) h (o_wd o).
Proof. intros o k h. cbn. unfold in_window, wrapped. decall. Qed.

Lemma bridge_z0fun_ok : z0desc_ok (fun _ => True) (fun _ => True) gen_z0_desc.
Proof.
  constructor.
  - exact bridge_z0fun_length_check.
  - exact bridge_z0fun_early_exit.
  - exact bridge_z0fun_early_return.
  - exact bridge_z0fun_init.
  - exact (proj1 bridge_z0fun_range).
  - exact (proj2 bridge_z0fun_range).
  - intros o k h _ _ _. apply bridge_z0fun_bin.
  - intros o k h _ _ _. apply bridge_z0fun_window_exact.
  - intros o k h _ _. apply bridge_z0fun_median_source.
Qed.

Theorem bridge_estimateZ0 : forall (nanmedian : list (option R) -> option R) (os : list obs) (h : R) (i : nat),
  (i < length os)%nat ->
  nth i (run_z0 nanmedian gen_z0_desc os h) None
  = estimateZ0_obs nanmedian h (map o_zm os) (map o_L os) (map o_ws os) (map o_ustar os) (map o_wd os) i.
Proof.
  intros nm os h i Hi.
  apply (run_z0_model nm _ _ gen_z0_desc bridge_z0fun_ok os h i); [apply Forall_forall; intros; exact I | intros; exact I | exact Hi].
Qed.

(* non-vacuity: three records around north, default half window: the record at 359.5 is smoothed over all three *)
Example bridge_estimateZ0_example : forall nanmedian,
  let os := [mkObs 10 4 (1/2) (2/5) (-100); mkObs 10 3 (719/2) (2/5) (-100); mkObs 10 5 338 (2/5) (-100)] in
  nth 1 (run_z0 nanmedian gen_z0_desc os 22) None = nanmedian (map z0_of os).
Proof.
  intros nm os. rewrite (bridge_estimateZ0 nm os 22 1) by (cbn; lia).
  unfold estimateZ0_obs. destruct (Rlt_dec 22 1) as [H|_]; [exfalso; lra|].
  rewrite raw_list_map. cbn [nth map os o_wd].
  assert (Hip : Int_part (719 / 2) = 359%Z).
  { apply bin_is_floor. unfold in_bin. decall. }
  unfold z0med_obs. rewrite Hip. cbn [Z.leb Z.ltb andb Z.compare Pos.compare Pos.compare_cont].
  unfold z0med_bin. f_equal. cbn [select map o_wd os].
  assert (W1 : in_window (IZR 359) 22 (1 / 2) = true) by (unfold in_window, wrapped; decall).
  assert (W2 : in_window (IZR 359) 22 (719 / 2) = true) by (unfold in_window, wrapped; decall).
  assert (W3 : in_window (IZR 359) 22 338 = true) by (unfold in_window, wrapped; decall).
  rewrite W1, W2, W3. reflexivity.
Qed.
