(* Bridge lemmas: every formula extracted from /repo/src/bldfm/pbl_model.py and from the stability
   functions of /repo/src/bldfm/ffm_kormann_meixner.py by the slice translator (Gen.GenPbl,
   regenerated on every run) equals the hand-written formula of Model/Pbl.v, for ALL arguments.
   Harmless algebraic rewrites of the source keep these provable (ring/field); a changed
   coefficient, sign, operand, branch condition or exponent does not.
   `np.nan` in the unselected branch of `np.where` is translated to 0; the lemmas show that this
   value is never used (the inner and the outer condition are the same). *)
From Coq Require Import Reals Lra.
From BL Require Import Model.Pbl.
From Gen Require Import GenPbl.
Open Scope R_scope.

(* syntactic equality, else equality as polynomials in the atoms (/x, exp .., ln .. are atoms) *)
Ltac br := first [ reflexivity | unfold Rdiv; ring ].

Lemma bridge_psi x : gen_psi x = psi x.
Proof.
  unfold gen_psi, psi, psi_stable, psi_unstable, psi_of_xi, xi_of.
  destruct (Rlt_dec 0 x) as [H|H]; [reflexivity|].
  replace (- (2)) with (-2) by ring. ring.
Qed.

Lemma bridge_phi x : gen_phi x = phi x.
Proof. unfold gen_phi, phi, phi_stable, phi_unstable. destruct (Rlt_dec 0 x); br. Qed.

Lemma bridge_absum um vm : gen_absum um vm = absum um vm.
Proof. br. Qed.

Lemma bridge_absum_oaahoc um vm : gen_absum_oaahoc um vm = absum um vm.
Proof. br. Qed.

Lemma bridge_z0_of_ustar zm a us mol : gen_z0_of_ustar zm a us mol = z0_of_ustar zm a us mol.
Proof.
  unfold gen_z0_of_ustar, z0_of_ustar, kap. rewrite bridge_psi. br.
Qed.

Lemma bridge_ustar_of_z0 a zm z0 mol : gen_ustar_of_z0 a zm z0 mol = ustar_of_z0 zm a z0 mol.
Proof.
  unfold gen_ustar_of_z0, ustar_of_z0, kap. rewrite bridge_psi. br.
Qed.

Lemma bridge_z0_oaahoc zm a tke us : gen_z0_oaahoc zm a tke us = z0_oaahoc zm a tke us.
Proof.
  unfold gen_z0_oaahoc, z0_oaahoc, c_m, c_l. reflexivity.
Qed.

Lemma bridge_h_default zm : gen_h_default zm = h_default zm.
Proof. br. Qed.
Lemma bridge_zmx_default zm : gen_zmx_default zm = zmx_default zm.
Proof. br. Qed.
Lemma bridge_h_given st zm : gen_h_given st = opt_default (Some st) (h_default zm).
Proof. br. Qed.
Lemma bridge_zmx_given dh zm : gen_zmx_given dh = opt_default (Some dh) (zmx_default zm).
Proof. br. Qed.
Lemma bridge_zm_is_meas_height m : gen_zm_is_meas_height m = m.
Proof. br. Qed.

Lemma bridge_bb zm z0 h : gen_bb zm z0 h = bb zm z0 h.
Proof. br. Qed.

Lemma bridge_aa zm z0 h : gen_aa (bb zm z0 h) z0 h = aa zm z0 h.
Proof. br. Qed.

Lemma bridge_zetamx zm z0 h zmx : gen_zetamx (aa zm z0 h) (bb zm z0 h) zmx h = zetamx zm z0 h zmx.
Proof. br. Qed.

Lemma bridge_dzeta zm n : gen_dzeta zm (INR n) = dzeta zm n.
Proof. br. Qed.

Lemma bridge_z_of_zeta h zt a b : gen_z_of_zeta h zt a b = z_of_zeta h a b zt.
Proof. br. Qed.

(* CONSTANT *)
Lemma bridge_Km us zm prsc : gen_Km us zm prsc = K_const us zm prsc.
Proof. unfold gen_Km, K_const, kap. br. Qed.
Lemma bridge_u_const um : gen_u_const um = um.
Proof. unfold gen_u_const. ring. Qed.
Lemma bridge_v_const vm : gen_v_const vm = vm.
Proof. unfold gen_v_const. ring. Qed.
Lemma bridge_K_const Km : gen_K_const Km = Km.
Proof. unfold gen_K_const. ring. Qed.

(* MOST / MOSTM *)
Lemma bridge_absu_most us z z0 mol : gen_absu_most us z z0 mol = absu_most us z0 mol z.
Proof. unfold gen_absu_most, absu_most, kap. rewrite bridge_psi. br. Qed.
Lemma bridge_absu_mostm us z z0 mol : gen_absu_mostm us z z0 mol = absu_most us z0 mol z.
Proof. unfold gen_absu_mostm, absu_most, kap. rewrite bridge_psi. br. Qed.
Lemma bridge_u_most um a s : gen_u_most um a s = dir_u um a s.
Proof. br. Qed.
Lemma bridge_v_most vm a s : gen_v_most vm a s = dir_u vm a s.
Proof. br. Qed.
Lemma bridge_u_mostm um a s : gen_u_mostm um a s = dir_u um a s.
Proof. br. Qed.
Lemma bridge_v_mostm vm a s : gen_v_mostm vm a s = dir_u vm a s.
Proof. br. Qed.
Lemma bridge_K_most us z mol prsc : gen_K_most us z mol prsc = K_most us mol prsc z.
Proof. unfold gen_K_most, K_most, kap. rewrite bridge_phi. br. Qed.
Lemma bridge_K_mostm us z mol prsc : gen_K_mostm us z mol prsc = K_most us mol prsc z.
Proof. unfold gen_K_mostm, K_most, kap. rewrite bridge_phi. br. Qed.
Lemma bridge_Kx_mostm K u v : gen_Kx_mostm K u v = Kx_mostm K u v.
Proof. br. Qed.
Lemma bridge_Ky_mostm K u v : gen_Ky_mostm K u v = Ky_mostm K u v.
Proof. br. Qed.
Lemma bridge_Kz_mostm K : gen_Kz_mostm K = K.
Proof. br. Qed.

(* OAAHOC *)
Lemma bridge_absu_oaahoc us tke z z0 : gen_absu_oaahoc us tke z z0 = absu_oaahoc us z0 tke z.
Proof. unfold gen_absu_oaahoc, absu_oaahoc, c_m, c_l. br. Qed.
Lemma bridge_u_oaahoc um a s : gen_u_oaahoc um a s = dir_u um a s.
Proof. br. Qed.
Lemma bridge_v_oaahoc vm a s : gen_v_oaahoc vm a s = dir_u vm a s.
Proof. br. Qed.
Lemma bridge_K_oaahoc z tke : gen_K_oaahoc z tke = K_oaahoc tke z.
Proof. unfold gen_K_oaahoc, K_oaahoc, c_h, c_l. br. Qed.

(* the reference model's copies *)
Lemma bridge_km_phiM zm L : gen_km_phiM zm L = km_phiM zm L.
Proof.
  unfold gen_km_phiM, km_phiM. destruct (Rle_dec 0 L); [reflexivity|].
  destruct (Rlt_dec L 0); reflexivity.
Qed.
Lemma bridge_km_phiC zm L : gen_km_phiC zm L = km_phiC zm L.
Proof.
  unfold gen_km_phiC, km_phiC. destruct (Rle_dec 0 L); [reflexivity|].
  destruct (Rlt_dec L 0); reflexivity.
Qed.
Lemma bridge_km_psiM zm L : gen_km_psiM zm L = km_psiM zm L.
Proof.
  unfold gen_km_psiM, km_psiM, psi_of_xi. destruct (Rle_dec 0 L); [reflexivity|].
  destruct (Rlt_dec L 0); [|reflexivity].
  replace (- (2)) with (-2) by ring. ring.
Qed.
