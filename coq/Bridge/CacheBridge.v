(* Bridge lemmas of property C15: the terms that harness/py2coq_cache.py extracts on every run from
   /repo/src/bldfm/cache.py (_compute_key, get, put, clear) and from the cache block of
   /repo/src/bldfm/solver.py::steady_state_transport_solver (Gen.GenCache) are interpreted, by the
   semantics of Model/CacheFlow.v, to exactly the functions of Model/Cache.v -- for ALL requests, stores,
   payloads, digests and solver functions.  Every statement is closed (no Section variables).

     bridge_key_feeds          what _compute_key feeds to the hash: parameters, order, canonical forms
     bridge_key_fields_get     the request fields hashed at the lookup are the fields of Cache.key, in order
     bridge_key_fields_put     the same at the store (same key arguments after the solve)
     bridge_key                generated key = Cache.key for every request
     bridge_key_iff            equal generated keys <-> agreement on every field of the model's key
                               <-> equal model keys, for every two requests
     bridge_get_flow           get:  interpretation = Cache.get, every store and request
     bridge_put_flow           put:  the write operations are Cache.write_ops (temp file, then rename)
     bridge_put_store          ... hence the store after put = Cache.put
     bridge_put_guarded        put:  every write sits in a try that catches everything, removes the temporary
                               file and re-raises, without touching the final path
     bridge_members_roundtrip  every part of the answer is read from the member that stores that very part
     bridge_clear              clear() empties the store
     bridge_solver_cache_flow  halo resolution, guard, lookup, `return cached`, body, store, `return result`
                               = Cache.solve_with_cache, every call and state
     bridge_killed_call        a run killed after k write operations = Cache.killed_call                *)
From Coq Require Import List Arith Bool String.
From BL Require Import Model.Cache Model.CacheFlow Proofs.CacheBridgeLemmas.
From Gen Require Import GenCache.
Import ListNotations.

Lemma bridge_key_feeds : gen_key_feeds = model_key_feeds.
Proof. reflexivity. Qed.

Lemma bridge_key_fields_get : gen_key_fields = Some model_key_fields.
Proof. reflexivity. Qed.

Lemma bridge_key_fields_put : gen_put_key_fields = Some model_key_fields.
Proof. reflexivity. Qed.

Theorem bridge_key : forall (T : Type) (hmax : T -> T -> T) (r : request T),
  exists fs, gen_key_fields = Some fs /\ key_of hmax fs r = key hmax r.
Proof.
  intros T hmax r. exists model_key_fields. split; [exact bridge_key_fields_get|apply key_of_model].
Qed.

Theorem bridge_key_iff : forall (T : Type) (hmax : T -> T -> T) (r1 r2 : request T),
  exists fs, gen_key_fields = Some fs /\
    (key_of hmax fs r1 = key_of hmax fs r2 <->
     (forall f, In f model_key_fields -> field_tok hmax r1 f = field_tok hmax r2 f)) /\
    (key_of hmax fs r1 = key_of hmax fs r2 <-> key hmax r1 = key hmax r2).
Proof.
  intros T hmax r1 r2. exists model_key_fields. split; [exact bridge_key_fields_get|]. split.
  - apply key_of_eq_iff.
  - rewrite !key_of_model. reflexivity.
Qed.

Lemma bridge_get_flow :
  forall (T : Type) (hmax : T -> T -> T) (H : Type) (H_eqb : H -> H -> bool) (R : Type)
         (hash : list (ktok T) -> H) (fs : store H R) (r : request T),
  run_get H_eqb gen_get_flow (hash (key hmax r)) fs =
  GRet (fst (get hmax H_eqb hash fs r)) (snd (get hmax H_eqb hash fs r)).
Proof. unfold gen_get_flow. solve_get_flow. Qed.

Lemma bridge_put_flow : forall (H R : Type) (h : H) (p : R) (n : nat),
  put_ops gen_put_flow h p n = Some (write_ops h p n).
Proof. unfold gen_put_flow. solve_put_flow. Qed.

Theorem bridge_put_store :
  forall (T : Type) (hmax : T -> T -> T) (H : Type) (H_eqb : H -> H -> bool) (R : Type)
         (hash : list (ktok T) -> H) (nchunks : R -> nat) (fs : store H R) (r : request T) (p : R),
  exists ops, put_ops gen_put_flow (hash (key hmax r)) p (nchunks p) = Some ops /\
              run_ops H_eqb ops fs = put hmax H_eqb hash nchunks fs r p.
Proof.
  intros. exists (write_ops (hash (key hmax r)) p (nchunks p)). split; [apply bridge_put_flow|reflexivity].
Qed.

Lemma bridge_put_guarded : guarded gen_put_flow = true.
Proof. reflexivity. Qed.

Lemma bridge_members_roundtrip : roundtrip_ok gen_put_members gen_get_members = true.
Proof. reflexivity. Qed.

Lemma bridge_clear : forall (H R : Type) (fs : store H R), run_clear gen_clear_globs fs = [].
Proof.
  intros H R fs. unfold run_clear, gen_clear_globs.
  induction fs as [|[[h|h] e] fs IH]; cbn; [reflexivity|exact IH|exact IH].
Qed.

Theorem bridge_solver_cache_flow :
  forall (T : Type) (hmax : T -> T -> T) (H : Type) (H_eqb : H -> H -> bool) (R : Type)
         (hash : list (ktok T) -> H) (solve : request T -> R) (nchunks : R -> nat)
         (c : call T) (st : state H R),
  run_solver hmax H_eqb hash solve nchunks gen_key_feeds gen_get_params gen_put_params
             gen_get_flow gen_put_flow gen_solver_cache_flow c st =
  Some (solve_with_cache hmax H_eqb hash solve nchunks c st).
Proof. unfold gen_solver_cache_flow. solve_solver_flow (@bridge_get_flow) (@bridge_put_flow). Qed.

Theorem bridge_killed_call :
  forall (T : Type) (hmax : T -> T -> T) (H : Type) (H_eqb : H -> H -> bool) (R : Type)
         (hash : list (ktok T) -> H) (solve : request T -> R) (nchunks : R -> nat)
         (c : call T) (k : nat) (st : state H R),
  killed_call hmax H_eqb hash solve nchunks c k st =
  (let r := c_req c in
   if cached c then
     match get hmax H_eqb hash (st_fs st) r with
     | (Some _, fs) => mkState fs (st_solves st)
     | (None, fs) =>
         match put_ops gen_put_flow (hash (key hmax r)) (solve r) (nchunks (solve r)) with
         | Some ops => mkState (run_ops H_eqb (firstn k ops) fs) (S (st_solves st))
         | None => st
         end
     end
   else mkState (st_fs st) (S (st_solves st))).
Proof. intros. apply killed_prefix. apply bridge_put_flow. Qed.
