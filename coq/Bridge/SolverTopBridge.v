(* Bridge for the TOP LEVEL of steady_state_transport_solver.  Gen.GenSolverTop is generated on every run from the
   CURRENT /repo/src/bldfm/solver.py by harness/py2coq_solvertop.py: the description gen_solver_top of everything
   that holds the separately bridged pieces together (argument unpacking, the even-modes check, sizes, increments,
   default halo, pad widths, padded extents, the pairwise clamp, band starts, the precision branch and its error,
   which pieces run under which condition and in which order, z[levels], output coordinates, meshgrid, squeeze).
   The lemmas prove, for ALL arguments of a call, that interpreting the description (Model/SolverTop.run_top) gives
   exactly the model's answer solve_top: Solver.geometry with its errors in the order the code raises them, the
   array model's fields for that geometry (SolverArray.field_arr = solve_array, hence Solver.solve cell by cell:
   Properties/C11Array.v), np.linspace coordinates, shapes.  No hypothesis on Ops. *)
From Coq Require Import ZArith List Bool Lia.
From BL Require Import Base.Ops Model.Solver Model.SolverArray Model.SolverTop Proofs.Plumbing Proofs.SolverTopProofs.
From Gen Require Import GenSolverTop.
Import ListNotations.
Open Scope Z_scope.

(* lia with // 2 and % 2 *)
Ltac Zify.zify_post_hook ::= Z.div_mod_to_equations.

Ltac norm_top :=
  cbn [evz evc evb ev_zatom ev_catom ev_batom top_args t_a t_levels t_prec a_q0 a_z a_prof a_xmx a_ymx a_levels a_nlx a_nly
       a_xm a_ym a_p000 a_footprint a_analytic a_halo a_single] in *.

Ltac split_ifs :=
  repeat match goal with
  | |- context [Z.ltb ?a ?b] => destruct (Z.ltb_spec a b)
  | |- context [Z.leb ?a ?b] => destruct (Z.leb_spec a b)
  | |- context [Z.eqb ?a ?b] => destruct (Z.eqb_spec a b)
  | |- context [Nat.ltb ?a ?b] => destruct (Nat.ltb_spec a b)
  | |- context [Nat.leb ?a ?b] => destruct (Nat.leb_spec a b)
  end; cbn [orb andb negb].

(* the even-modes check:  if (nlx % 2 > 0) or (nly % 2 > 0): raise ValueError *)
Lemma bridge_top_modes_check (O : Ops) (t : targs O) :
  evb O t gen_top_c_modes = odd_modes O (top_args O t).
Proof.
  unfold gen_top_c_modes, odd_modes. norm_top. rewrite !odd_as_mod. split_ifs; lia.
Qed.

(* px = int(halo / dx), py = int(halo / dy) with halo = max(domain) by default, dx = xmx / nx, dy = ymx / ny, as they
   reach np.pad(q0, ((py, py), (px, px))) *)
Lemma bridge_top_pad_widths (O : Ops) (t : targs O) :
  evz O t gen_top_pad_ylo = raw_py O (top_args O t) /\ evz O t gen_top_pad_yhi = raw_py O (top_args O t) /\
  evz O t gen_top_pad_xlo = raw_px O (top_args O t) /\ evz O t gen_top_pad_xhi = raw_px O (top_args O t).
Proof.
  unfold gen_top_pad_ylo, gen_top_pad_yhi, gen_top_pad_xlo, gen_top_pad_xhi, raw_px, raw_py, raw_dx, raw_dy, raw_nx, raw_ny, halo_of.
  norm_top. destruct (a_halo O (t_a O t)); repeat split; reflexivity.
Qed.

Lemma bridge_top_pad_check (O : Ops) (t : targs O) :
  (evz O t gen_top_pad_ylo <? 0) || (evz O t gen_top_pad_yhi <? 0) || (evz O t gen_top_pad_xlo <? 0) || (evz O t gen_top_pad_xhi <? 0)
  = neg_pad O (top_args O t).
Proof.
  destruct (bridge_top_pad_widths O t) as (-> & -> & -> & ->). unfold neg_pad.
  destruct (raw_px O (top_args O t) <? 0), (raw_py O (top_args O t) <? 0); reflexivity.
Qed.

Ltac unfold_gen :=
  unfold gen_solver_top, gen_top_nx, gen_top_ny, gen_top_nz, gen_top_nlvls, gen_top_dx, gen_top_dy, gen_top_px, gen_top_py,
         gen_top_nxe, gen_top_nye, gen_top_nlx, gen_top_nly, gen_top_dlx, gen_top_dly.

Ltac open_geom OO t Ho Hn :=
  unfold neg_pad in Hn; apply orb_false_iff in Hn; destruct Hn as [Hnx Hny]; apply Z.ltb_ge in Hnx, Hny;
  unfold geom_from, geom_of, raw_px, raw_py, raw_dx, raw_dy, raw_nx, raw_ny, halo_of in *;
  unfold_gen; cbn [td_nx td_ny td_nz td_nlvls td_dx td_dy td_px td_py td_nxe td_nye td_nlx td_nly td_dlx td_dly];
  norm_top; destruct (a_halo OO (t_a OO t)).

(* nx, ny, nz, dx, dy, px, py, nxe = nx + 2 px, nye = ny + 2 py and the PAIRWISE clamp
   `if (nlx > nxe) or (nly > nye): nlx, nly = nxe, nye` are Solver.geometry's *)
Lemma bridge_top_geometry (O : Ops) (t : targs O) :
  odd_modes O (top_args O t) = false -> neg_pad O (top_args O t) = false ->
  geom_from O gen_solver_top t = geom_of O (top_args O t).
Proof.
  intros Ho Hn. open_geom O t Ho Hn; (f_equal; try reflexivity; split_ifs; lia).
Qed.

(* dlx, dly = nxe // 2 - nlx // 2, nye // 2 - nly // 2 (the band starts the plumbing pipelines use); nlvls = len(levels) *)
Lemma bridge_top_band_starts (O : Ops) (t : targs O) :
  odd_modes O (top_args O t) = false -> neg_pad O (top_args O t) = false ->
  let g := geom_of O (top_args O t) in
  evz O t (td_dlx gen_solver_top) = start (znxe O g) (znlx O g) /\
  evz O t (td_dly gen_solver_top) = start (znye O g) (znly O g) /\
  evz O t (td_nlvls gen_solver_top) = Z.of_nat (length (a_levels O (top_args O t))).
Proof.
  intros Ho Hn. cbv zeta. unfold start, znxe, znlx, znye, znly.
  open_geom O t Ho Hn; cbn [g_nxe g_nye g_nlx g_nly]; (split; [|split]; [| |reflexivity]); split_ifs; lia.
Qed.

(* x = np.linspace(0, xmx, nx, endpoint=False), y likewise; Z, Y, X = np.meshgrid(z[levels], y, x, indexing="ij") *)
Lemma bridge_top_coordinates (O : Ops) (t : targs O) zl :
  map (ev_mesh O t zl) (td_mesh_in gen_solver_top)
  = [MVZlev O zl;
     MVLin O (mkLinVal O (cofZ O 0%Z) (a_ymx O (top_args O t)) (Z.of_nat (raw_ny O (top_args O t))) false);
     MVLin O (mkLinVal O (cofZ O 0%Z) (a_xmx O (top_args O t)) (Z.of_nat (raw_nx O (top_args O t))) false)].
Proof. reflexivity. Qed.

(* grid = (np.squeeze(X), np.squeeze(Y), np.squeeze(Z)); result = (grid, np.squeeze(conc), np.squeeze(flx)) *)
Lemma bridge_top_result :
  td_mesh_ij gen_solver_top = true /\ td_grid gen_solver_top = [(2, true); (1, true); (0, true)]%nat /\
  td_conc_squeezed gen_solver_top = true /\ td_flx_squeezed gen_solver_top = true.
Proof. repeat split; reflexivity. Qed.

(* the steps: errors in the model's order (odd modes first, negative pad, precision, level index), otherwise every piece the
   model is made of runs exactly once, after what it reads and before what overwrites it, under the model's conditions *)
Lemma bridge_top_steps (O : Ops) (t : targs O) :
  steps_spec O t (run_steps O t (td_steps gen_solver_top) ([], false)).
Proof.
  unfold steps_spec. cbv zeta.
  pose proof (bridge_top_modes_check O t) as Hm. pose proof (bridge_top_pad_check O t) as Hp.
  destruct t as [a lv pr]. destruct a as [q0 z prof xmx ymx levels0 nlx nly xm ym p000 fp an halo single].
  Opaque gen_top_c_modes gen_top_pad_ylo gen_top_pad_yhi gen_top_pad_xlo gen_top_pad_xhi odd_modes neg_pad bad_level top_args.
  unfold gen_solver_top, td_steps, gen_top_steps.
  destruct pr, lv, fp, an; cbn in *; rewrite ?Hm, ?Hp;
    (destruct (odd_modes _ _); [reflexivity|]); cbn; rewrite ?Hp;
    (destruct (neg_pad _ _); [reflexivity|]); cbn;
    repeat match goal with
    | H : bad_level ?OO ?a = _ |- context [bad_level ?OO ?a] => rewrite H; cbn
    | H : recentre ?OO ?a = _ |- context [recentre ?OO ?a] => rewrite H; cbn
    | |- context [bad_level ?OO ?a] =>
        let H := fresh "Hbl" in destruct (bad_level OO a) eqn:H; cbn; rewrite ?H; cbn
    | |- context [recentre ?OO ?a] =>
        let H := fresh "Hrc" in destruct (recentre OO a) eqn:H; cbn; rewrite ?H; cbn
    end;
    first [reflexivity
          | eexists; split; [reflexivity|]; unfold complete, expected; cbn [t_a a_footprint a_analytic];
            repeat match goal with H : recentre _ _ = _ |- _ => rewrite H end; reflexivity].
  Transparent gen_top_c_modes gen_top_pad_ylo gen_top_pad_yhi gen_top_pad_xlo gen_top_pad_xhi odd_modes neg_pad bad_level top_args.
Qed.

(* together: the interpreted description of the current source IS the model's answer, for all arguments *)
Theorem bridge_solver_top (O : Ops) (t : targs O) : run_top O gen_solver_top t = solve_top O t.
Proof.
  apply run_top_correct. constructor.
  - apply bridge_top_steps.
  - apply bridge_top_geometry.
  - apply bridge_top_band_starts.
  - apply bridge_top_coordinates.
  - apply bridge_top_result.
Qed.
